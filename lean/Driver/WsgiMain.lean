import Driver.Wsgi
/-!
# Driver.WsgiMain — stdin→stdout loop for the C18 model targets

`lake env lean --run Driver/WsgiMain.lean` reads request lines `<target>\t<json array>` and
answers one line each (see `PyRt/Wire.lean`).
-/
open Py.Wire

def main : IO Unit := do
  let stdin ← IO.getStdin
  let stdout ← IO.getStdout
  repeat
    let line ← stdin.getLine
    if line.isEmpty then break
    let resp := match parseLine line with
      | some (target, args) => Driver.Wsgi.handle target args
      | none => "badargs"
    stdout.putStrLn resp
    stdout.flush
