import PyRt
import Gen.isan
open Py Lean
namespace Driver.D_isan
def handle (fn : String) (args : List Json) : String :=
  match fn with
  | "compact" => match args with
    | [a0, a1] => (do let x0 ← Wire.decStr a0; let x1 ← Wire.decBool a1; pure (Wire.respondWith Wire.encStr (Gen.isan.compact x0 x1)) : Option String).getD "badargs"
    | _ => "badargs"
  | "format" => match args with
    | [a0, a1, a2, a3] => (do let x0 ← Wire.decStr a0; let x1 ← Wire.decStr a1; let x2 ← Wire.decBool a2; let x3 ← Wire.decBool a3; pure (Wire.respondWith Wire.encStr (Gen.isan.format x0 x1 x2 x3)) : Option String).getD "badargs"
    | _ => "badargs"
  | "is_valid" => match args with
    | [a0] => (do let x0 ← Wire.decStr a0; pure (Wire.respondWith Wire.encBool (Gen.isan.is_valid x0)) : Option String).getD "badargs"
    | _ => "badargs"
  | "to_urn" => match args with
    | [a0] => (do let x0 ← Wire.decStr a0; pure (Wire.respondWith Wire.encStr (Gen.isan.to_urn x0)) : Option String).getD "badargs"
    | _ => "badargs"
  | "to_xml" => match args with
    | [a0] => (do let x0 ← Wire.decStr a0; pure (Wire.respondWith Wire.encStr (Gen.isan.to_xml x0)) : Option String).getD "badargs"
    | _ => "badargs"
  | "validate" => match args with
    | [a0, a1, a2] => (do let x0 ← Wire.decStr a0; let x1 ← Wire.decBool a1; let x2 ← Wire.decBool a2; pure (Wire.respondWith Wire.encStr (Gen.isan.validate x0 x1 x2)) : Option String).getD "badargs"
    | _ => "badargs"
  | _ => "nofunc"
end Driver.D_isan
