import PyRt
import Gen.issn
open Py Lean
namespace Driver.D_issn
def handle (fn : String) (args : List Json) : String :=
  match fn with
  | "calc_check_digit" => match args with
    | [a0] => (do let x0 ← Wire.decStr a0; pure (Wire.respondWith Wire.encStr (Gen.issn.calc_check_digit x0)) : Option String).getD "badargs"
    | _ => "badargs"
  | "compact" => match args with
    | [a0] => (do let x0 ← Wire.decStr a0; pure (Wire.respondWith Wire.encStr (Gen.issn.compact x0)) : Option String).getD "badargs"
    | _ => "badargs"
  | "format" => match args with
    | [a0] => (do let x0 ← Wire.decStr a0; pure (Wire.respondWith Wire.encStr (Gen.issn.format x0)) : Option String).getD "badargs"
    | _ => "badargs"
  | "is_valid" => match args with
    | [a0] => (do let x0 ← Wire.decStr a0; pure (Wire.respondWith Wire.encBool (Gen.issn.is_valid x0)) : Option String).getD "badargs"
    | _ => "badargs"
  | "to_ean" => match args with
    | [a0, a1] => (do let x0 ← Wire.decStr a0; let x1 ← Wire.decStr a1; pure (Wire.respondWith Wire.encStr (Gen.issn.to_ean x0 x1)) : Option String).getD "badargs"
    | _ => "badargs"
  | "validate" => match args with
    | [a0] => (do let x0 ← Wire.decStr a0; pure (Wire.respondWith Wire.encStr (Gen.issn.validate x0)) : Option String).getD "badargs"
    | _ => "badargs"
  | _ => "nofunc"
end Driver.D_issn
