import PyRt
import Gen.do_cedula
open Py Lean
namespace Driver.D_do_cedula
def handle (fn : String) (args : List Json) : String :=
  match fn with
  | "compact" => match args with
    | [a0] => (do let x0 ← Wire.decStr a0; pure (Wire.respondWith Wire.encStr (Gen.do_cedula.compact x0)) : Option String).getD "badargs"
    | _ => "badargs"
  | "format" => match args with
    | [a0] => (do let x0 ← Wire.decStr a0; pure (Wire.respondWith Wire.encStr (Gen.do_cedula.format x0)) : Option String).getD "badargs"
    | _ => "badargs"
  | "is_valid" => match args with
    | [a0] => (do let x0 ← Wire.decStr a0; pure (Wire.respondWith Wire.encBool (Gen.do_cedula.is_valid x0)) : Option String).getD "badargs"
    | _ => "badargs"
  | "validate" => match args with
    | [a0] => (do let x0 ← Wire.decStr a0; pure (Wire.respondWith Wire.encStr (Gen.do_cedula.validate x0)) : Option String).getD "badargs"
    | _ => "badargs"
  | _ => "nofunc"
end Driver.D_do_cedula
