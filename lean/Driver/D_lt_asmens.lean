import PyRt
import Gen.lt_asmens
open Py Lean
namespace Driver.D_lt_asmens
def handle (fn : String) (args : List Json) : String :=
  match fn with
  | "compact" => match args with
    | [a0] => (do let x0 ← Wire.decStr a0; pure (Wire.respondWith Wire.encStr (Gen.lt_asmens.compact x0)) : Option String).getD "badargs"
    | _ => "badargs"
  | "is_valid" => match args with
    | [a0, a1] => (do let x0 ← Wire.decStr a0; let x1 ← Wire.decBool a1; pure (Wire.respondWith Wire.encBool (Gen.lt_asmens.is_valid x0 x1)) : Option String).getD "badargs"
    | _ => "badargs"
  | "validate" => match args with
    | [a0, a1] => (do let x0 ← Wire.decStr a0; let x1 ← Wire.decBool a1; pure (Wire.respondWith Wire.encStr (Gen.lt_asmens.validate x0 x1)) : Option String).getD "badargs"
    | _ => "badargs"
  | _ => "nofunc"
end Driver.D_lt_asmens
