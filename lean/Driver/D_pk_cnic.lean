import PyRt
import Gen.pk_cnic
open Py Lean
namespace Driver.D_pk_cnic
def handle (fn : String) (args : List Json) : String :=
  match fn with
  | "compact" => match args with
    | [a0] => (do let x0 ← Wire.decStr a0; pure (Wire.respondWith Wire.encStr (Gen.pk_cnic.compact x0)) : Option String).getD "badargs"
    | _ => "badargs"
  | "format" => match args with
    | [a0] => (do let x0 ← Wire.decStr a0; pure (Wire.respondWith Wire.encStr (Gen.pk_cnic.format x0)) : Option String).getD "badargs"
    | _ => "badargs"
  | "get_gender" => match args with
    | [a0] => (do let x0 ← Wire.decStr a0; pure (Wire.respondWith (Wire.encOpt Wire.encStr) (Gen.pk_cnic.get_gender x0)) : Option String).getD "badargs"
    | _ => "badargs"
  | "get_province" => match args with
    | [a0] => (do let x0 ← Wire.decStr a0; pure (Wire.respondWith (Wire.encOpt Wire.encStr) (Gen.pk_cnic.get_province x0)) : Option String).getD "badargs"
    | _ => "badargs"
  | "is_valid" => match args with
    | [a0] => (do let x0 ← Wire.decStr a0; pure (Wire.respondWith Wire.encBool (Gen.pk_cnic.is_valid x0)) : Option String).getD "badargs"
    | _ => "badargs"
  | "validate" => match args with
    | [a0] => (do let x0 ← Wire.decStr a0; pure (Wire.respondWith Wire.encStr (Gen.pk_cnic.validate x0)) : Option String).getD "badargs"
    | _ => "badargs"
  | _ => "nofunc"
end Driver.D_pk_cnic
