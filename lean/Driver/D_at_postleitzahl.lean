import PyRt
import Gen.at_postleitzahl
open Py Lean
namespace Driver.D_at_postleitzahl
def handle (fn : String) (args : List Json) : String :=
  match fn with
  | "compact" => match args with
    | [a0] => (do let x0 ← Wire.decStr a0; pure (Wire.respondWith Wire.encStr (Gen.at_postleitzahl.compact x0)) : Option String).getD "badargs"
    | _ => "badargs"
  | "info" => match args with
    | [a0] => (do let x0 ← Wire.decStr a0; pure (Wire.respondWith (Wire.encDict Wire.encStr Wire.encStr) (Gen.at_postleitzahl.info x0)) : Option String).getD "badargs"
    | _ => "badargs"
  | "is_valid" => match args with
    | [a0] => (do let x0 ← Wire.decStr a0; pure (Wire.respondWith Wire.encBool (Gen.at_postleitzahl.is_valid x0)) : Option String).getD "badargs"
    | _ => "badargs"
  | "validate" => match args with
    | [a0] => (do let x0 ← Wire.decStr a0; pure (Wire.respondWith Wire.encStr (Gen.at_postleitzahl.validate x0)) : Option String).getD "badargs"
    | _ => "badargs"
  | _ => "nofunc"
end Driver.D_at_postleitzahl
