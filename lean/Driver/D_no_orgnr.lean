import PyRt
import Gen.no_orgnr
open Py Lean
namespace Driver.D_no_orgnr
def handle (fn : String) (args : List Json) : String :=
  match fn with
  | "checksum" => match args with
    | [a0] => (do let x0 ← Wire.decStr a0; pure (Wire.respondWith Wire.encInt (Gen.no_orgnr.checksum x0)) : Option String).getD "badargs"
    | _ => "badargs"
  | "compact" => match args with
    | [a0] => (do let x0 ← Wire.decStr a0; pure (Wire.respondWith Wire.encStr (Gen.no_orgnr.compact x0)) : Option String).getD "badargs"
    | _ => "badargs"
  | "format" => match args with
    | [a0] => (do let x0 ← Wire.decStr a0; pure (Wire.respondWith Wire.encStr (Gen.no_orgnr.format x0)) : Option String).getD "badargs"
    | _ => "badargs"
  | "is_valid" => match args with
    | [a0] => (do let x0 ← Wire.decStr a0; pure (Wire.respondWith Wire.encBool (Gen.no_orgnr.is_valid x0)) : Option String).getD "badargs"
    | _ => "badargs"
  | "validate" => match args with
    | [a0] => (do let x0 ← Wire.decStr a0; pure (Wire.respondWith Wire.encStr (Gen.no_orgnr.validate x0)) : Option String).getD "badargs"
    | _ => "badargs"
  | _ => "nofunc"
end Driver.D_no_orgnr
