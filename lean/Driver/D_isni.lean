import PyRt
import Gen.isni
open Py Lean
namespace Driver.D_isni
def handle (fn : String) (args : List Json) : String :=
  match fn with
  | "compact" => match args with
    | [a0] => (do let x0 ← Wire.decStr a0; pure (Wire.respondWith Wire.encStr (Gen.isni.compact x0)) : Option String).getD "badargs"
    | _ => "badargs"
  | "format" => match args with
    | [a0] => (do let x0 ← Wire.decStr a0; pure (Wire.respondWith Wire.encStr (Gen.isni.format x0)) : Option String).getD "badargs"
    | _ => "badargs"
  | "is_valid" => match args with
    | [a0] => (do let x0 ← Wire.decStr a0; pure (Wire.respondWith Wire.encBool (Gen.isni.is_valid x0)) : Option String).getD "badargs"
    | _ => "badargs"
  | "validate" => match args with
    | [a0] => (do let x0 ← Wire.decStr a0; pure (Wire.respondWith Wire.encStr (Gen.isni.validate x0)) : Option String).getD "badargs"
    | _ => "badargs"
  | _ => "nofunc"
end Driver.D_isni
