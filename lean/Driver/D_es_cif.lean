import PyRt
import Gen.es_cif
open Py Lean
namespace Driver.D_es_cif
def handle (fn : String) (args : List Json) : String :=
  match fn with
  | "calc_check_digits" => match args with
    | [a0] => (do let x0 ← Wire.decStr a0; pure (Wire.respondWith Wire.encStr (Gen.es_cif.calc_check_digits x0)) : Option String).getD "badargs"
    | _ => "badargs"
  | "is_valid" => match args with
    | [a0] => (do let x0 ← Wire.decStr a0; pure (Wire.respondWith Wire.encBool (Gen.es_cif.is_valid x0)) : Option String).getD "badargs"
    | _ => "badargs"
  | "split" => match args with
    | [a0] => (do let x0 ← Wire.decStr a0; pure (Wire.respondWith (Wire.encT4 Wire.encStr Wire.encStr Wire.encStr Wire.encStr) (Gen.es_cif.split x0)) : Option String).getD "badargs"
    | _ => "badargs"
  | "validate" => match args with
    | [a0] => (do let x0 ← Wire.decStr a0; pure (Wire.respondWith Wire.encStr (Gen.es_cif.validate x0)) : Option String).getD "badargs"
    | _ => "badargs"
  | _ => "nofunc"
end Driver.D_es_cif
