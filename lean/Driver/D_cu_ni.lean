import PyRt
import Gen.cu_ni
open Py Lean
namespace Driver.D_cu_ni
def handle (fn : String) (args : List Json) : String :=
  match fn with
  | "compact" => match args with
    | [a0] => (do let x0 ← Wire.decStr a0; pure (Wire.respondWith Wire.encStr (Gen.cu_ni.compact x0)) : Option String).getD "badargs"
    | _ => "badargs"
  | "get_birth_date" => match args with
    | [a0] => (do let x0 ← Wire.decStr a0; pure (Wire.respondWith Wire.encDate (Gen.cu_ni.get_birth_date x0)) : Option String).getD "badargs"
    | _ => "badargs"
  | "get_gender" => match args with
    | [a0] => (do let x0 ← Wire.decStr a0; pure (Wire.respondWith Wire.encStr (Gen.cu_ni.get_gender x0)) : Option String).getD "badargs"
    | _ => "badargs"
  | "is_valid" => match args with
    | [a0] => (do let x0 ← Wire.decStr a0; pure (Wire.respondWith Wire.encBool (Gen.cu_ni.is_valid x0)) : Option String).getD "badargs"
    | _ => "badargs"
  | "validate" => match args with
    | [a0] => (do let x0 ← Wire.decStr a0; pure (Wire.respondWith Wire.encStr (Gen.cu_ni.validate x0)) : Option String).getD "badargs"
    | _ => "badargs"
  | _ => "nofunc"
end Driver.D_cu_ni
