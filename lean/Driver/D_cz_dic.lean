import PyRt
import Gen.cz_dic
open Py Lean
namespace Driver.D_cz_dic
def handle (fn : String) (args : List Json) : String :=
  match fn with
  | "calc_check_digit_legal" => match args with
    | [a0] => (do let x0 ← Wire.decStr a0; pure (Wire.respondWith Wire.encStr (Gen.cz_dic.calc_check_digit_legal x0)) : Option String).getD "badargs"
    | _ => "badargs"
  | "calc_check_digit_special" => match args with
    | [a0] => (do let x0 ← Wire.decStr a0; pure (Wire.respondWith Wire.encStr (Gen.cz_dic.calc_check_digit_special x0)) : Option String).getD "badargs"
    | _ => "badargs"
  | "compact" => match args with
    | [a0] => (do let x0 ← Wire.decStr a0; pure (Wire.respondWith Wire.encStr (Gen.cz_dic.compact x0)) : Option String).getD "badargs"
    | _ => "badargs"
  | "is_valid" => match args with
    | [a0] => (do let x0 ← Wire.decStr a0; pure (Wire.respondWith Wire.encBool (Gen.cz_dic.is_valid x0)) : Option String).getD "badargs"
    | _ => "badargs"
  | "validate" => match args with
    | [a0] => (do let x0 ← Wire.decStr a0; pure (Wire.respondWith Wire.encStr (Gen.cz_dic.validate x0)) : Option String).getD "badargs"
    | _ => "badargs"
  | _ => "nofunc"
end Driver.D_cz_dic
