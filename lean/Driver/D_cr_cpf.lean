import PyRt
import Gen.cr_cpf
open Py Lean
namespace Driver.D_cr_cpf
def handle (fn : String) (args : List Json) : String :=
  match fn with
  | "compact" => match args with
    | [a0] => (do let x0 ← Wire.decStr a0; pure (Wire.respondWith Wire.encStr (Gen.cr_cpf.compact x0)) : Option String).getD "badargs"
    | _ => "badargs"
  | "format" => match args with
    | [a0] => (do let x0 ← Wire.decStr a0; pure (Wire.respondWith Wire.encStr (Gen.cr_cpf.format x0)) : Option String).getD "badargs"
    | _ => "badargs"
  | "is_valid" => match args with
    | [a0] => (do let x0 ← Wire.decStr a0; pure (Wire.respondWith Wire.encBool (Gen.cr_cpf.is_valid x0)) : Option String).getD "badargs"
    | _ => "badargs"
  | "validate" => match args with
    | [a0] => (do let x0 ← Wire.decStr a0; pure (Wire.respondWith Wire.encStr (Gen.cr_cpf.validate x0)) : Option String).getD "badargs"
    | _ => "badargs"
  | _ => "nofunc"
end Driver.D_cr_cpf
