import PyRt
import Gen.iso7064_mod_97_10
open Py Lean
namespace Driver.D_iso7064_mod_97_10
def handle (fn : String) (args : List Json) : String :=
  match fn with
  | "_to_base10" => match args with
    | [a0] => (do let x0 ← Wire.decStr a0; pure (Wire.respondWith Wire.encStr (Gen.iso7064_mod_97_10._to_base10 x0)) : Option String).getD "badargs"
    | _ => "badargs"
  | "calc_check_digits" => match args with
    | [a0] => (do let x0 ← Wire.decStr a0; pure (Wire.respondWith Wire.encStr (Gen.iso7064_mod_97_10.calc_check_digits x0)) : Option String).getD "badargs"
    | _ => "badargs"
  | "checksum" => match args with
    | [a0] => (do let x0 ← Wire.decStr a0; pure (Wire.respondWith Wire.encInt (Gen.iso7064_mod_97_10.checksum x0)) : Option String).getD "badargs"
    | _ => "badargs"
  | "is_valid" => match args with
    | [a0] => (do let x0 ← Wire.decStr a0; pure (Wire.respondWith Wire.encBool (Gen.iso7064_mod_97_10.is_valid x0)) : Option String).getD "badargs"
    | _ => "badargs"
  | "validate" => match args with
    | [a0] => (do let x0 ← Wire.decStr a0; pure (Wire.respondWith Wire.encStr (Gen.iso7064_mod_97_10.validate x0)) : Option String).getD "badargs"
    | _ => "badargs"
  | _ => "nofunc"
end Driver.D_iso7064_mod_97_10
