import Lean.Data.Json
import PyRt.Wire
import Spec.NumDB
/-!
# Driver.NumDB — wire handler for the `Spec.NumDB` model

Targets (arguments in the `PyRt.Wire` encoding):

* `numdb.info`            `[text, number]`      → `[{"t":[part, {"d":[[k,v],…]}]}, …]`
* `numdb.split`           `[text, number]`      → `[part, …]`
* `numdb.read_dump`       `[text]`              → `[[length, low, high, {"d":props}, [children…]], …]`
* `numdb.info_many`       `[text, [number,…]]`  → list of `numdb.info` results (the file is read once)
* `numdb.read_lines_dump` `[[line,…]]`          → as `read_dump`, for `numdb.read(iter(lines))`

`text` is what is wrapped in `io.StringIO`.  When Python raises, the answer is `err NonValidation`.
`handle` returns `none` for targets it does not know.
-/
open Lean (Json)
namespace Driver.NumDB
open Py.Wire Spec.NumDB

def dictToWire (d : Dict) : Json :=
  Json.mkObj [("d", Json.arr (d.toArray.map fun kv => Json.arr #[strToWire kv.1, strToWire kv.2]))]

def infoToWire (r : List (Py.Str × Dict)) : Json :=
  Json.arr (r.toArray.map fun pd => Json.mkObj [("t", Json.arr #[strToWire pd.1, dictToWire pd.2])])

mutual
def dumpEntry : Entry → Json
  | ⟨len, low, high, props, ch⟩ =>
    Json.arr #[Json.num (Lean.JsonNumber.fromNat len), strToWire low, strToWire high, dictToWire props,
      Json.arr (dumpList ch).toArray]
def dumpList : List Entry → List Json
  | [] => []
  | e :: es => dumpEntry e :: dumpList es
end

def dumpToWire (db : List Entry) : Json := Json.arr (dumpList db).toArray

def respondJson (r : Py.R Json) : String :=
  match r with
  | .ok v => "ok " ++ v.compress
  | .error e => "err " ++ excName e

def handle (target : String) (args : List Json) : Option String :=
  match target with
  | "numdb.info" =>
    some <| match args with
    | [t, n] =>
      match strOfJson t, strOfJson n with
      | some t, some n => respondJson ((readText t).map fun db => infoToWire (info db n))
      | _, _ => "badargs"
    | _ => "badargs"
  | "numdb.split" =>
    some <| match args with
    | [t, n] =>
      match strOfJson t, strOfJson n with
      | some t, some n =>
        respondJson ((readText t).map fun db => Json.arr ((split db n).toArray.map strToWire))
      | _, _ => "badargs"
    | _ => "badargs"
  | "numdb.info_many" =>
    some <| match args with
    | [t, ns] =>
      match strOfJson t, (fromWire ns : Option (List Py.Str)) with
      | some t, some ns =>
        respondJson ((readText t).map fun db => Json.arr (ns.toArray.map fun n => infoToWire (info db n)))
      | _, _ => "badargs"
    | _ => "badargs"
  | "numdb.read_dump" =>
    some <| match args with
    | [t] =>
      match strOfJson t with
      | some t => respondJson ((readText t).map dumpToWire)
      | none => "badargs"
    | _ => "badargs"
  | "numdb.read_lines_dump" =>
    some <| match args with
    | [ls] =>
      match (fromWire ls : Option (List Py.Str)) with
      | some ls => respondJson ((read ls).map dumpToWire)
      | none => "badargs"
    | _ => "badargs"
  | _ => none

end Driver.NumDB
