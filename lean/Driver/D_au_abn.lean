import PyRt
import Gen.au_abn
open Py Lean
namespace Driver.D_au_abn
def handle (fn : String) (args : List Json) : String :=
  match fn with
  | "calc_check_digits" => match args with
    | [a0] => (do let x0 ← Wire.decStr a0; pure (Wire.respondWith Wire.encStr (Gen.au_abn.calc_check_digits x0)) : Option String).getD "badargs"
    | _ => "badargs"
  | "compact" => match args with
    | [a0] => (do let x0 ← Wire.decStr a0; pure (Wire.respondWith Wire.encStr (Gen.au_abn.compact x0)) : Option String).getD "badargs"
    | _ => "badargs"
  | "format" => match args with
    | [a0] => (do let x0 ← Wire.decStr a0; pure (Wire.respondWith Wire.encStr (Gen.au_abn.format x0)) : Option String).getD "badargs"
    | _ => "badargs"
  | "is_valid" => match args with
    | [a0] => (do let x0 ← Wire.decStr a0; pure (Wire.respondWith Wire.encBool (Gen.au_abn.is_valid x0)) : Option String).getD "badargs"
    | _ => "badargs"
  | "validate" => match args with
    | [a0] => (do let x0 ← Wire.decStr a0; pure (Wire.respondWith Wire.encStr (Gen.au_abn.validate x0)) : Option String).getD "badargs"
    | _ => "badargs"
  | _ => "nofunc"
end Driver.D_au_abn
