import PyRt
import Gen.iso7064_mod_37_36
open Py Lean
namespace Driver.D_iso7064_mod_37_36
def handle (fn : String) (args : List Json) : String :=
  match fn with
  | "calc_check_digit" => match args with
    | [a0, a1] => (do let x0 ← Wire.decStr a0; let x1 ← Wire.decStr a1; pure (Wire.respondWith Wire.encStr (Gen.iso7064_mod_37_36.calc_check_digit x0 x1)) : Option String).getD "badargs"
    | _ => "badargs"
  | "checksum" => match args with
    | [a0, a1] => (do let x0 ← Wire.decStr a0; let x1 ← Wire.decStr a1; pure (Wire.respondWith Wire.encInt (Gen.iso7064_mod_37_36.checksum x0 x1)) : Option String).getD "badargs"
    | _ => "badargs"
  | "is_valid" => match args with
    | [a0, a1] => (do let x0 ← Wire.decStr a0; let x1 ← Wire.decStr a1; pure (Wire.respondWith Wire.encBool (Gen.iso7064_mod_37_36.is_valid x0 x1)) : Option String).getD "badargs"
    | _ => "badargs"
  | "validate" => match args with
    | [a0, a1] => (do let x0 ← Wire.decStr a0; let x1 ← Wire.decStr a1; pure (Wire.respondWith Wire.encStr (Gen.iso7064_mod_37_36.validate x0 x1)) : Option String).getD "badargs"
    | _ => "badargs"
  | _ => "nofunc"
end Driver.D_iso7064_mod_37_36
