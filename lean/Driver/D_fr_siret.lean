import PyRt
import Gen.fr_siret
open Py Lean
namespace Driver.D_fr_siret
def handle (fn : String) (args : List Json) : String :=
  match fn with
  | "compact" => match args with
    | [a0] => (do let x0 ← Wire.decStr a0; pure (Wire.respondWith Wire.encStr (Gen.fr_siret.compact x0)) : Option String).getD "badargs"
    | _ => "badargs"
  | "format" => match args with
    | [a0, a1] => (do let x0 ← Wire.decStr a0; let x1 ← Wire.decStr a1; pure (Wire.respondWith Wire.encStr (Gen.fr_siret.format x0 x1)) : Option String).getD "badargs"
    | _ => "badargs"
  | "is_valid" => match args with
    | [a0] => (do let x0 ← Wire.decStr a0; pure (Wire.respondWith Wire.encBool (Gen.fr_siret.is_valid x0)) : Option String).getD "badargs"
    | _ => "badargs"
  | "to_siren" => match args with
    | [a0] => (do let x0 ← Wire.decStr a0; pure (Wire.respondWith Wire.encStr (Gen.fr_siret.to_siren x0)) : Option String).getD "badargs"
    | _ => "badargs"
  | "to_tva" => match args with
    | [a0] => (do let x0 ← Wire.decStr a0; pure (Wire.respondWith Wire.encStr (Gen.fr_siret.to_tva x0)) : Option String).getD "badargs"
    | _ => "badargs"
  | "validate" => match args with
    | [a0] => (do let x0 ← Wire.decStr a0; pure (Wire.respondWith Wire.encStr (Gen.fr_siret.validate x0)) : Option String).getD "badargs"
    | _ => "badargs"
  | _ => "nofunc"
end Driver.D_fr_siret
