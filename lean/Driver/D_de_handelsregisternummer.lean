import PyRt
import Gen.de_handelsregisternummer
open Py Lean
namespace Driver.D_de_handelsregisternummer
def handle (fn : String) (args : List Json) : String :=
  match fn with
  | "_split" => match args with
    | [a0] => (do let x0 ← Wire.decStr a0; pure (Wire.respondWith (Wire.encT4 Wire.encStr Wire.encStr Wire.encStr (Wire.encOpt Wire.encStr)) (Gen.de_handelsregisternummer._split x0)) : Option String).getD "badargs"
    | _ => "badargs"
  | "_to_min" => match args with
    | [a0] => (do let x0 ← Wire.decStr a0; pure (Wire.respondWith Wire.encStr (Gen.de_handelsregisternummer._to_min x0)) : Option String).getD "badargs"
    | _ => "badargs"
  | "compact" => match args with
    | [a0] => (do let x0 ← Wire.decStr a0; pure (Wire.respondWith Wire.encStr (Gen.de_handelsregisternummer.compact x0)) : Option String).getD "badargs"
    | _ => "badargs"
  | "is_valid" => match args with
    | [a0] => (do let x0 ← Wire.decStr a0; pure (Wire.respondWith Wire.encBool (Gen.de_handelsregisternummer.is_valid x0)) : Option String).getD "badargs"
    | _ => "badargs"
  | "validate" => match args with
    | [a0, a1] => (do let x0 ← Wire.decStr a0; let x1 ← (Wire.decOpt Wire.decStr) a1; pure (Wire.respondWith Wire.encStr (Gen.de_handelsregisternummer.validate x0 x1)) : Option String).getD "badargs"
    | _ => "badargs"
  | _ => "nofunc"
end Driver.D_de_handelsregisternummer
