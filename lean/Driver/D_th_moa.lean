import PyRt
import Gen.th_moa
open Py Lean
namespace Driver.D_th_moa
def handle (fn : String) (args : List Json) : String :=
  match fn with
  | "compact" => match args with
    | [a0] => (do let x0 ← Wire.decStr a0; pure (Wire.respondWith Wire.encStr (Gen.th_moa.compact x0)) : Option String).getD "badargs"
    | _ => "badargs"
  | "format" => match args with
    | [a0] => (do let x0 ← Wire.decStr a0; pure (Wire.respondWith Wire.encStr (Gen.th_moa.format x0)) : Option String).getD "badargs"
    | _ => "badargs"
  | "is_valid" => match args with
    | [a0] => (do let x0 ← Wire.decStr a0; pure (Wire.respondWith Wire.encBool (Gen.th_moa.is_valid x0)) : Option String).getD "badargs"
    | _ => "badargs"
  | "validate" => match args with
    | [a0] => (do let x0 ← Wire.decStr a0; pure (Wire.respondWith Wire.encStr (Gen.th_moa.validate x0)) : Option String).getD "badargs"
    | _ => "badargs"
  | _ => "nofunc"
end Driver.D_th_moa
