import PyRt
import Gen.br_cnpj
open Py Lean
namespace Driver.D_br_cnpj
def handle (fn : String) (args : List Json) : String :=
  match fn with
  | "calc_check_digits" => match args with
    | [a0] => (do let x0 ← Wire.decStr a0; pure (Wire.respondWith Wire.encStr (Gen.br_cnpj.calc_check_digits x0)) : Option String).getD "badargs"
    | _ => "badargs"
  | "compact" => match args with
    | [a0] => (do let x0 ← Wire.decStr a0; pure (Wire.respondWith Wire.encStr (Gen.br_cnpj.compact x0)) : Option String).getD "badargs"
    | _ => "badargs"
  | "format" => match args with
    | [a0] => (do let x0 ← Wire.decStr a0; pure (Wire.respondWith Wire.encStr (Gen.br_cnpj.format x0)) : Option String).getD "badargs"
    | _ => "badargs"
  | "is_valid" => match args with
    | [a0] => (do let x0 ← Wire.decStr a0; pure (Wire.respondWith Wire.encBool (Gen.br_cnpj.is_valid x0)) : Option String).getD "badargs"
    | _ => "badargs"
  | "validate" => match args with
    | [a0] => (do let x0 ← Wire.decStr a0; pure (Wire.respondWith Wire.encStr (Gen.br_cnpj.validate x0)) : Option String).getD "badargs"
    | _ => "badargs"
  | _ => "nofunc"
end Driver.D_br_cnpj
