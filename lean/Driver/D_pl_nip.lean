import PyRt
import Gen.pl_nip
open Py Lean
namespace Driver.D_pl_nip
def handle (fn : String) (args : List Json) : String :=
  match fn with
  | "checksum" => match args with
    | [a0] => (do let x0 ← Wire.decStr a0; pure (Wire.respondWith Wire.encInt (Gen.pl_nip.checksum x0)) : Option String).getD "badargs"
    | _ => "badargs"
  | "compact" => match args with
    | [a0] => (do let x0 ← Wire.decStr a0; pure (Wire.respondWith Wire.encStr (Gen.pl_nip.compact x0)) : Option String).getD "badargs"
    | _ => "badargs"
  | "format" => match args with
    | [a0] => (do let x0 ← Wire.decStr a0; pure (Wire.respondWith Wire.encStr (Gen.pl_nip.format x0)) : Option String).getD "badargs"
    | _ => "badargs"
  | "is_valid" => match args with
    | [a0] => (do let x0 ← Wire.decStr a0; pure (Wire.respondWith Wire.encBool (Gen.pl_nip.is_valid x0)) : Option String).getD "badargs"
    | _ => "badargs"
  | "validate" => match args with
    | [a0] => (do let x0 ← Wire.decStr a0; pure (Wire.respondWith Wire.encStr (Gen.pl_nip.validate x0)) : Option String).getD "badargs"
    | _ => "badargs"
  | _ => "nofunc"
end Driver.D_pl_nip
