import PyRt
import Gen.eu_banknote
open Py Lean
namespace Driver.D_eu_banknote
def handle (fn : String) (args : List Json) : String :=
  match fn with
  | "checksum" => match args with
    | [a0] => (do let x0 ← Wire.decStr a0; pure (Wire.respondWith Wire.encInt (Gen.eu_banknote.checksum x0)) : Option String).getD "badargs"
    | _ => "badargs"
  | "compact" => match args with
    | [a0] => (do let x0 ← Wire.decStr a0; pure (Wire.respondWith Wire.encStr (Gen.eu_banknote.compact x0)) : Option String).getD "badargs"
    | _ => "badargs"
  | "is_valid" => match args with
    | [a0] => (do let x0 ← Wire.decStr a0; pure (Wire.respondWith Wire.encBool (Gen.eu_banknote.is_valid x0)) : Option String).getD "badargs"
    | _ => "badargs"
  | "validate" => match args with
    | [a0] => (do let x0 ← Wire.decStr a0; pure (Wire.respondWith Wire.encStr (Gen.eu_banknote.validate x0)) : Option String).getD "badargs"
    | _ => "badargs"
  | _ => "nofunc"
end Driver.D_eu_banknote
