import PyRt
import Gen.ro_cnp
open Py Lean
namespace Driver.D_ro_cnp
def handle (fn : String) (args : List Json) : String :=
  match fn with
  | "calc_check_digit" => match args with
    | [a0] => (do let x0 ← Wire.decStr a0; pure (Wire.respondWith Wire.encStr (Gen.ro_cnp.calc_check_digit x0)) : Option String).getD "badargs"
    | _ => "badargs"
  | "compact" => match args with
    | [a0] => (do let x0 ← Wire.decStr a0; pure (Wire.respondWith Wire.encStr (Gen.ro_cnp.compact x0)) : Option String).getD "badargs"
    | _ => "badargs"
  | "get_birth_date" => match args with
    | [a0] => (do let x0 ← Wire.decStr a0; pure (Wire.respondWith Wire.encDate (Gen.ro_cnp.get_birth_date x0)) : Option String).getD "badargs"
    | _ => "badargs"
  | "get_county" => match args with
    | [a0] => (do let x0 ← Wire.decStr a0; pure (Wire.respondWith Wire.encStr (Gen.ro_cnp.get_county x0)) : Option String).getD "badargs"
    | _ => "badargs"
  | "is_valid" => match args with
    | [a0] => (do let x0 ← Wire.decStr a0; pure (Wire.respondWith Wire.encBool (Gen.ro_cnp.is_valid x0)) : Option String).getD "badargs"
    | _ => "badargs"
  | "validate" => match args with
    | [a0] => (do let x0 ← Wire.decStr a0; pure (Wire.respondWith Wire.encStr (Gen.ro_cnp.validate x0)) : Option String).getD "badargs"
    | _ => "badargs"
  | _ => "nofunc"
end Driver.D_ro_cnp
