import PyRt
import Gen.gn_nifp
open Py Lean
namespace Driver.D_gn_nifp
def handle (fn : String) (args : List Json) : String :=
  match fn with
  | "compact" => match args with
    | [a0] => (do let x0 ← Wire.decStr a0; pure (Wire.respondWith Wire.encStr (Gen.gn_nifp.compact x0)) : Option String).getD "badargs"
    | _ => "badargs"
  | "format" => match args with
    | [a0] => (do let x0 ← Wire.decStr a0; pure (Wire.respondWith Wire.encStr (Gen.gn_nifp.format x0)) : Option String).getD "badargs"
    | _ => "badargs"
  | "is_valid" => match args with
    | [a0] => (do let x0 ← Wire.decStr a0; pure (Wire.respondWith Wire.encBool (Gen.gn_nifp.is_valid x0)) : Option String).getD "badargs"
    | _ => "badargs"
  | "validate" => match args with
    | [a0] => (do let x0 ← Wire.decStr a0; pure (Wire.respondWith Wire.encStr (Gen.gn_nifp.validate x0)) : Option String).getD "badargs"
    | _ => "badargs"
  | _ => "nofunc"
end Driver.D_gn_nifp
