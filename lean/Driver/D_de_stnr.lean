import PyRt
import Gen.de_stnr
open Py Lean
namespace Driver.D_de_stnr
def handle (fn : String) (args : List Json) : String :=
  match fn with
  | "_clean_region" => match args with
    | [a0] => (do let x0 ← Wire.decStr a0; pure (Wire.respondWith Wire.encStr (Gen.de_stnr._clean_region x0)) : Option String).getD "badargs"
    | _ => "badargs"
  | "compact" => match args with
    | [a0] => (do let x0 ← Wire.decStr a0; pure (Wire.respondWith Wire.encStr (Gen.de_stnr.compact x0)) : Option String).getD "badargs"
    | _ => "badargs"
  | "format" => match args with
    | [a0, a1] => (do let x0 ← Wire.decStr a0; let x1 ← (Wire.decOpt Wire.decStr) a1; pure (Wire.respondWith Wire.encStr (Gen.de_stnr.format x0 x1)) : Option String).getD "badargs"
    | _ => "badargs"
  | "guess_regions" => match args with
    | [a0] => (do let x0 ← Wire.decStr a0; pure (Wire.respondWith (Wire.encList Wire.encStr) (Gen.de_stnr.guess_regions x0)) : Option String).getD "badargs"
    | _ => "badargs"
  | "is_valid" => match args with
    | [a0, a1] => (do let x0 ← Wire.decStr a0; let x1 ← (Wire.decOpt Wire.decStr) a1; pure (Wire.respondWith Wire.encBool (Gen.de_stnr.is_valid x0 x1)) : Option String).getD "badargs"
    | _ => "badargs"
  | "to_country_number" => match args with
    | [a0, a1] => (do let x0 ← Wire.decStr a0; let x1 ← (Wire.decOpt Wire.decStr) a1; pure (Wire.respondWith Wire.encStr (Gen.de_stnr.to_country_number x0 x1)) : Option String).getD "badargs"
    | _ => "badargs"
  | "to_regional_number" => match args with
    | [a0] => (do let x0 ← Wire.decStr a0; pure (Wire.respondWith Wire.encStr (Gen.de_stnr.to_regional_number x0)) : Option String).getD "badargs"
    | _ => "badargs"
  | "validate" => match args with
    | [a0, a1] => (do let x0 ← Wire.decStr a0; let x1 ← (Wire.decOpt Wire.decStr) a1; pure (Wire.respondWith Wire.encStr (Gen.de_stnr.validate x0 x1)) : Option String).getD "badargs"
    | _ => "badargs"
  | _ => "nofunc"
end Driver.D_de_stnr
