import PyRt
import Gen.de_stnr
open Py Lean
namespace Driver.D_de_stnr
def handle (fn : String) (args : List Json) : String :=
  match fn with
  | "_clean_region" => match args with
    | [a0] => (do let x0 ← Wire.decStr a0; pure (Wire.respondWith Wire.encStr (Gen.de_stnr._clean_region x0)) : Option String).getD "badargs"
    | _ => "badargs"
  | "compact" => match args with
    | [a0] => (do let x0 ← Wire.decStr a0; pure (Wire.respondWith Wire.encStr (Gen.de_stnr.compact x0)) : Option String).getD "badargs"
    | _ => "badargs"
  | _ => "nofunc"
end Driver.D_de_stnr
