import PyRt
import Gen.kr_brn
open Py Lean
namespace Driver.D_kr_brn
def handle (fn : String) (args : List Json) : String :=
  match fn with
  | "compact" => match args with
    | [a0] => (do let x0 ← Wire.decStr a0; pure (Wire.respondWith Wire.encStr (Gen.kr_brn.compact x0)) : Option String).getD "badargs"
    | _ => "badargs"
  | "format" => match args with
    | [a0] => (do let x0 ← Wire.decStr a0; pure (Wire.respondWith Wire.encStr (Gen.kr_brn.format x0)) : Option String).getD "badargs"
    | _ => "badargs"
  | "is_valid" => match args with
    | [a0] => (do let x0 ← Wire.decStr a0; pure (Wire.respondWith Wire.encBool (Gen.kr_brn.is_valid x0)) : Option String).getD "badargs"
    | _ => "badargs"
  | "validate" => match args with
    | [a0] => (do let x0 ← Wire.decStr a0; pure (Wire.respondWith Wire.encStr (Gen.kr_brn.validate x0)) : Option String).getD "badargs"
    | _ => "badargs"
  | _ => "nofunc"
end Driver.D_kr_brn
