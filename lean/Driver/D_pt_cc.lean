import PyRt
import Gen.pt_cc
open Py Lean
namespace Driver.D_pt_cc
def handle (fn : String) (args : List Json) : String :=
  match fn with
  | "compact" => match args with
    | [a0] => (do let x0 ← Wire.decStr a0; pure (Wire.respondWith Wire.encStr (Gen.pt_cc.compact x0)) : Option String).getD "badargs"
    | _ => "badargs"
  | "format" => match args with
    | [a0] => (do let x0 ← Wire.decStr a0; pure (Wire.respondWith Wire.encStr (Gen.pt_cc.format x0)) : Option String).getD "badargs"
    | _ => "badargs"
  | _ => "nofunc"
end Driver.D_pt_cc
