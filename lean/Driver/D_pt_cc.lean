import PyRt
import Gen.pt_cc
open Py Lean
namespace Driver.D_pt_cc
def handle (fn : String) (args : List Json) : String :=
  match fn with
  | "calc_check_digit" => match args with
    | [a0] => (do let x0 ← Wire.decStr a0; pure (Wire.respondWith Wire.encStr (Gen.pt_cc.calc_check_digit x0)) : Option String).getD "badargs"
    | _ => "badargs"
  | "compact" => match args with
    | [a0] => (do let x0 ← Wire.decStr a0; pure (Wire.respondWith Wire.encStr (Gen.pt_cc.compact x0)) : Option String).getD "badargs"
    | _ => "badargs"
  | "format" => match args with
    | [a0] => (do let x0 ← Wire.decStr a0; pure (Wire.respondWith Wire.encStr (Gen.pt_cc.format x0)) : Option String).getD "badargs"
    | _ => "badargs"
  | "is_valid" => match args with
    | [a0] => (do let x0 ← Wire.decStr a0; pure (Wire.respondWith Wire.encBool (Gen.pt_cc.is_valid x0)) : Option String).getD "badargs"
    | _ => "badargs"
  | "validate" => match args with
    | [a0] => (do let x0 ← Wire.decStr a0; pure (Wire.respondWith Wire.encStr (Gen.pt_cc.validate x0)) : Option String).getD "badargs"
    | _ => "badargs"
  | _ => "nofunc"
end Driver.D_pt_cc
