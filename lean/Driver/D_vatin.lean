import PyRt
import Gen.vatin
open Py Lean
namespace Driver.D_vatin
def handle (fn : String) (args : List Json) : String :=
  match fn with
  | "_get_cc_module" => match args with
    | [a0] => (do let x0 ← Wire.decStr a0; pure (Wire.respondWith (Wire.encOpt Wire.encModule) (Gen.vatin._get_cc_module x0)) : Option String).getD "badargs"
    | _ => "badargs"
  | "compact" => match args with
    | [a0] => (do let x0 ← Wire.decStr a0; pure (Wire.respondWith Wire.encStr (Gen.vatin.compact x0)) : Option String).getD "badargs"
    | _ => "badargs"
  | "is_valid" => match args with
    | [t, a0] => (do let today__ ← Wire.decDate t; let x0 ← Wire.decStr a0; pure (Wire.respondWith Wire.encBool (Gen.vatin.is_valid today__ x0)) : Option String).getD "badargs"
    | _ => "badargs"
  | "validate" => match args with
    | [t, a0] => (do let today__ ← Wire.decDate t; let x0 ← Wire.decStr a0; pure (Wire.respondWith Wire.encStr (Gen.vatin.validate today__ x0)) : Option String).getD "badargs"
    | _ => "badargs"
  | "_get_cc_module__warm" => match args with
    | [a0, a1] => (do let x0 ← (Wire.decDict Wire.decStr (Wire.decOpt Wire.decModule)) a0; let x1 ← Wire.decStr a1; pure (Wire.respondWith (Wire.encT2 (Wire.encOpt Wire.encModule) (Wire.encDict Wire.encStr (Wire.encOpt Wire.encModule))) (Gen.vatin._get_cc_module__warm x0 x1)) : Option String).getD "badargs"
    | _ => "badargs"
  | _ => "nofunc"
end Driver.D_vatin
