import PyRt
import Gen.vatin
open Py Lean
namespace Driver.D_vatin
def handle (fn : String) (args : List Json) : String :=
  match fn with
  | "compact" => match args with
    | [a0] => (do let x0 ← Wire.decStr a0; pure (Wire.respondWith Wire.encStr (Gen.vatin.compact x0)) : Option String).getD "badargs"
    | _ => "badargs"
  | _ => "nofunc"
end Driver.D_vatin
