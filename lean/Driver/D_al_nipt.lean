import PyRt
import Gen.al_nipt
open Py Lean
namespace Driver.D_al_nipt
def handle (fn : String) (args : List Json) : String :=
  match fn with
  | "compact" => match args with
    | [a0] => (do let x0 ← Wire.decStr a0; pure (Wire.respondWith Wire.encStr (Gen.al_nipt.compact x0)) : Option String).getD "badargs"
    | _ => "badargs"
  | "is_valid" => match args with
    | [a0] => (do let x0 ← Wire.decStr a0; pure (Wire.respondWith Wire.encBool (Gen.al_nipt.is_valid x0)) : Option String).getD "badargs"
    | _ => "badargs"
  | "validate" => match args with
    | [a0] => (do let x0 ← Wire.decStr a0; pure (Wire.respondWith Wire.encStr (Gen.al_nipt.validate x0)) : Option String).getD "badargs"
    | _ => "badargs"
  | _ => "nofunc"
end Driver.D_al_nipt
