import PyRt
import Gen.jp_cn
open Py Lean
namespace Driver.D_jp_cn
def handle (fn : String) (args : List Json) : String :=
  match fn with
  | "calc_check_digit" => match args with
    | [a0] => (do let x0 ← Wire.decStr a0; pure (Wire.respondWith Wire.encStr (Gen.jp_cn.calc_check_digit x0)) : Option String).getD "badargs"
    | _ => "badargs"
  | "compact" => match args with
    | [a0] => (do let x0 ← Wire.decStr a0; pure (Wire.respondWith Wire.encStr (Gen.jp_cn.compact x0)) : Option String).getD "badargs"
    | _ => "badargs"
  | "format" => match args with
    | [a0] => (do let x0 ← Wire.decStr a0; pure (Wire.respondWith Wire.encStr (Gen.jp_cn.format x0)) : Option String).getD "badargs"
    | _ => "badargs"
  | "is_valid" => match args with
    | [a0] => (do let x0 ← Wire.decStr a0; pure (Wire.respondWith Wire.encBool (Gen.jp_cn.is_valid x0)) : Option String).getD "badargs"
    | _ => "badargs"
  | "validate" => match args with
    | [a0] => (do let x0 ← Wire.decStr a0; pure (Wire.respondWith Wire.encStr (Gen.jp_cn.validate x0)) : Option String).getD "badargs"
    | _ => "badargs"
  | _ => "nofunc"
end Driver.D_jp_cn
