import PyRt
import Gen.fr_nir
open Py Lean
namespace Driver.D_fr_nir
def handle (fn : String) (args : List Json) : String :=
  match fn with
  | "calc_check_digits" => match args with
    | [a0] => (do let x0 ← Wire.decStr a0; pure (Wire.respondWith Wire.encStr (Gen.fr_nir.calc_check_digits x0)) : Option String).getD "badargs"
    | _ => "badargs"
  | "compact" => match args with
    | [a0] => (do let x0 ← Wire.decStr a0; pure (Wire.respondWith Wire.encStr (Gen.fr_nir.compact x0)) : Option String).getD "badargs"
    | _ => "badargs"
  | "format" => match args with
    | [a0, a1] => (do let x0 ← Wire.decStr a0; let x1 ← Wire.decStr a1; pure (Wire.respondWith Wire.encStr (Gen.fr_nir.format x0 x1)) : Option String).getD "badargs"
    | _ => "badargs"
  | "is_valid" => match args with
    | [a0] => (do let x0 ← Wire.decStr a0; pure (Wire.respondWith Wire.encBool (Gen.fr_nir.is_valid x0)) : Option String).getD "badargs"
    | _ => "badargs"
  | "validate" => match args with
    | [a0] => (do let x0 ← Wire.decStr a0; pure (Wire.respondWith Wire.encStr (Gen.fr_nir.validate x0)) : Option String).getD "badargs"
    | _ => "badargs"
  | _ => "nofunc"
end Driver.D_fr_nir
