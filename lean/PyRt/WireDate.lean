import PyRt.Wire
import PyRt.Date
open Lean (Json)
namespace Py.Wire
def encDate : Enc Date := fun d => Json.mkObj [("date", Json.arr #[encInt d.year, encInt d.month, encInt d.day])]
def decDate : Dec Date := fun j =>
  match j.getObjVal? "date" with
  | .ok (.arr #[y, m, d]) => do pure ⟨← decInt y, ← decInt m, ← decInt d⟩
  | _ => none
end Py.Wire
