import PyRt.Basic
import PyRt.Unicode
/-!
# PyRt.Int — `int(str)`, `int(str, base)`, `str(int)`, integer arithmetic, `%`-formatting of ints

`int()` follows CPython 3.12 (`PyLong_FromUnicodeObject` → `PyLong_FromString`):

1. `_PyUnicode_TransformDecimalAndSpaceToASCII`: code points `< 127` are kept, other characters
   with `str.isspace()` become `' '`, other characters with a decimal value (category Nd) become the
   ASCII digit, everything else becomes `'?'` (`intByte`).
2. the byte string is parsed: C-locale white space (`\t\n\v\f\r` and space — NOT `\x1c`–`\x1f`,
   which `str.strip()` removes), optional sign, optional base prefix (`0x` for base 16, `0o` for 8,
   `0b` for 2, any of them for base 0) followed by at most one `_`, digits with single underscores
   between them, trailing white space.
3. for bases that are not a power of two more than `sys.get_int_max_str_digits()` = 4300 digits
   (underscores, sign, white space and prefix not counted; leading zeros counted) is a `ValueError`.

So the white space accepted by `int()` is `{9..13, 32, 0x85, 0xA0, 0x1680, 0x2000..0x200A, 0x2028,
0x2029, 0x202F, 0x205F, 0x3000}` = `str.isspace` minus `{0x1C..0x1F}` (enumerated on CPython).
-/
namespace Py

/-- `sys.get_int_max_str_digits()` (CPython default) -/
def intMaxStrDigits : Nat := 4300

/-- `Py_ISSPACE`: `\t \n \v \f \r` and space -/
def isCSpace (b : Nat) : Bool := (decide (9 ≤ b) && decide (b ≤ 13)) || b == 32

/-- `_PyUnicode_TransformDecimalAndSpaceToASCII`, one character (`63 = '?'`) -/
def intByte (c : Nat) : Nat :=
  if c < 127 then c
  else if Uni.isSpace c then 32
  else match Uni.decimal? c with
    | some d => 48 + d
    | none => 63

/-- the white space `int()` accepts around the number -/
def isIntSpace (c : Nat) : Bool := isCSpace (intByte c)

/-- `_PyLong_DigitValue`: value of an ASCII byte as a digit (37 = not a digit) -/
def digitValue (b : Nat) : Nat :=
  if isAsciiDigit b then b - 48
  else if isAsciiLower b then b - 87
  else if isAsciiUpper b then b - 55
  else 37

/-- byte is a digit of `base` or `_` -/
def isDigitOrUnderscore (base : Nat) (b : Nat) : Bool := decide (digitValue b < base) || b == 95

/-- no two adjacent underscores -/
def noDoubleUnderscore : List Nat → Bool
  | a :: b :: t => !(a == 95 && b == 95) && noDoubleUnderscore (b :: t)
  | _ => true

/-- big-endian digit bytes → number -/
def digitsValue (base : Nat) (ds : List Nat) : Nat :=
  ds.foldl (fun acc b => acc * base + digitValue b) 0

/-- bases with the linear conversion algorithm, exempt from the digit limit -/
def isPow2Base (base : Nat) : Bool :=
  base == 2 || base == 4 || base == 8 || base == 16 || base == 32

/-- `long_from_string_base` + the trailing part of `PyLong_FromString`: digits with single inner
underscores, then only white space; returns the magnitude -/
def scanMagnitude (base : Nat) (s : List Nat) : R Nat :=
  let body := s.takeWhile (isDigitOrUnderscore base)
  let rest := s.dropWhile (isDigitOrUnderscore base)
  let digits := body.filter (fun b => b != 95)
  if body.isEmpty || body.head? == some 95 || body.getLast? == some 95
      || !noDoubleUnderscore body then raise .valueError
  else if !(rest.dropWhile isCSpace).isEmpty then raise .valueError
  else if !isPow2Base base && decide (digits.length > intMaxStrDigits) then raise .valueError
  else pure (digitsValue base digits)

/-- optional sign: `(negative, rest)` -/
def intSign (b : List Nat) : Bool × List Nat :=
  match b with
  | c :: t => if c == 43 then (false, t) else if c == 45 then (true, t) else (false, b)
  | [] => (false, b)

/-- one underscore is allowed after a base prefix -/
def skipUnderscore (b : List Nat) : List Nat :=
  match b with
  | c :: t => if c == 95 then t else b
  | [] => b

/-- base prefix: `(effective base, rest, "leading zeros not permitted")`; the flag is the
`error_if_nonzero` of `PyLong_FromString` for base 0 -/
def intPrefix (base : Nat) (b : List Nat) : Nat × List Nat × Bool :=
  match b with
  | z :: x :: t =>
    if z == 48 then
      if (x == 120 || x == 88) && (base == 16 || base == 0) then (16, skipUnderscore t, false)
      else if (x == 111 || x == 79) && (base == 8 || base == 0) then (8, skipUnderscore t, false)
      else if (x == 98 || x == 66) && (base == 2 || base == 0) then (2, skipUnderscore t, false)
      else if base == 0 then (10, b, true)
      else (base, b, false)
    else (if base == 0 then 10 else base, b, false)
  | _ => (if base == 0 then 10 else base, b, false)

/-- `int(s, base)` for a `str` `s`; `base` 0 or 2..36, anything else is a `ValueError` -/
def intOfBase (s : Str) (base : Nat) : R Int :=
  if !(base == 0 || (decide (2 ≤ base) && decide (base ≤ 36))) then raise .valueError
  else
    let sg := intSign ((s.map intByte).dropWhile isCSpace)
    let pf := intPrefix base sg.2
    match scanMagnitude pf.1 pf.2.1 with
    | .error e => .error e
    | .ok m =>
      if pf.2.2 && m != 0 then raise .valueError
      else pure (if sg.1 then -(m : Int) else (m : Int))

/-- `int(s)` for a `str` `s` -/
def intOf (s : Str) : R Int := intOfBase s 10

/-- value of a string of ASCII digits: fold `acc * 10 + (c - 48)`; what `int(s)` returns for a
non-empty all-ASCII-digit `s` of at most 4300 characters (`Py.intOf_of_asciiDigits`) -/
def digitsVal (s : Str) : Int := s.foldl (fun (acc : Int) (c : Nat) => acc * 10 + ((c : Int) - 48)) 0

/-- value of an ASCII letter or digit as a base-36 digit -/
def asciiDigitVal36 (c : Nat) : Option Nat :=
  if isAsciiDigit c then some (c - 48)
  else if isAsciiUpper c then some (c - 55)
  else if isAsciiLower c then some (c - 87)
  else none

/-! ## `str(int)` and digits -/

/-- digit → character, `upper` selects `A–F` -/
def digitChar (upper : Bool) (d : Nat) : Nat :=
  if d < 10 then 48 + d else (if upper then 55 else 87) + d

/-- worker of `natToStrBase` (fuel-structural; `fuel > n` suffices for `base ≥ 2`) -/
def natDigitsGo (base : Nat) (upper : Bool) : Nat → Nat → List Nat → List Nat
  | 0, _, acc => acc
  | fuel + 1, n, acc =>
    if n < base then digitChar upper n :: acc
    else natDigitsGo base upper fuel (n / base) (digitChar upper (n % base) :: acc)

/-- digits of `n` in `base` (2..36), most significant first, `"0"` for 0 -/
def natToStrBase (base : Nat) (upper : Bool) (n : Nat) : Str := natDigitsGo base upper (n + 1) n []

/-- decimal digits of a natural number -/
def strOfNat (n : Nat) : Str := natToStrBase 10 false n

/-- `str(i)` without the digit limit (see `strOfIntR`) -/
def strOfInt (i : Int) : Str :=
  if i < 0 then 45 :: strOfNat i.natAbs else strOfNat i.natAbs

/-- `str(i)`: `ValueError` when `i` has more than 4300 decimal digits -/
def strOfIntR (i : Int) : R Str :=
  if (strOfNat i.natAbs).length > intMaxStrDigits then raise .valueError else pure (strOfInt i)

/-- `i.bit_length()` as a natural number -/
def natBitLength (i : Int) : Nat := if i = 0 then 0 else Nat.log2 i.natAbs + 1
/-- `i.bit_length()` -/
def intBitLength (i : Int) : Int := (natBitLength i : Nat)

/-! ## arithmetic with Python's sign rules -/

/-- `a % b` (sign of the divisor) -/
def pymod (a b : Int) : R Int := if b = 0 then raise .zeroDivision else pure (Int.fmod a b)
/-- `a // b` (floor) -/
def pyfloordiv (a b : Int) : R Int := if b = 0 then raise .zeroDivision else pure (Int.fdiv a b)
/-- `divmod(a, b)` -/
def pydivmod (a b : Int) : R (Int × Int) :=
  if b = 0 then raise .zeroDivision else pure (Int.fdiv a b, Int.fmod a b)
/- `a ** b` and `pow(a, b, m)` are `Py.pypow` / `Py.pypowmod` in `PyRt.Misc`. -/

/-! ## `%`-formatting of one integer -/

/-- sign, padding to `width`; `zero` = the `0` flag (zeros between sign and digits), otherwise
spaces on the left -/
def fmtSigned (width : Nat) (zero : Bool) (neg : Bool) (digits : Str) : Str :=
  let sign : Str := if neg then [45] else []
  let pad := width - (sign.length + digits.length)
  if zero then sign ++ (List.replicate pad 48 ++ digits)
  else List.replicate pad 32 ++ (sign ++ digits)

/-- `'%<width>d' % i` / `'%0<width>d' % i` without the digit limit (`'%d'` is `fmtD 0 false`) -/
def fmtD (width : Nat) (zero : Bool) (i : Int) : Str :=
  fmtSigned width zero (decide (i < 0)) (strOfNat i.natAbs)

/-- the same with CPython's limit: more than 4300 digits is a `ValueError` -/
def fmtDR (width : Nat) (zero : Bool) (i : Int) : R Str :=
  if (strOfNat i.natAbs).length > intMaxStrDigits then raise .valueError else pure (fmtD width zero i)

/-- `'%0<width>X' % i`, `'%<width>x' % i` … as a plain string (no digit limit for hexadecimal) -/
def fmtXStr (width : Nat) (zero : Bool) (upper : Bool) (i : Int) : Str :=
  fmtSigned width zero (decide (i < 0)) (natToStrBase 16 upper i.natAbs)

/-- `'%0<width>X' % i` in the monad (it never raises for an `int`; the translator emits `← Py.fmtX`) -/
def fmtX (width : Nat) (zero : Bool) (upper : Bool) (i : Int) : R Str :=
  pure (fmtXStr width zero upper i)

/-- `'%s' % i` for an int -/
def fmtSInt (i : Int) : R Str := strOfIntR i

end Py
