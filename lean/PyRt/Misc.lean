import PyRt.Basic
import PyRt.Str
/-! # PyRt.Misc — tuple views, small numeric helpers -/
namespace Py

/-- homogeneous tuples viewed as lists -/
class TupleToList (τ : Type) (α : outParam Type) where
  toL : τ → List α
instance (priority := low) {α : Type} : TupleToList (α × α) α := ⟨fun p => [p.1, p.2]⟩
instance {α τ : Type} [TupleToList τ α] : TupleToList (α × τ) α := ⟨fun p => p.1 :: TupleToList.toL p.2⟩
def tupleToList {τ α : Type} [TupleToList τ α] (t : τ) : List α := TupleToList.toL t

/-- attribute access / method call on an `Optional` value: `None.attr` raises AttributeError -/
def optGet {α : Type} (o : Option α) : R α :=
  match o with
  | some v => .ok v
  | none => raise .attributeError

/-- use of a possibly-None value as a string argument (`''.join([None])` raises TypeError) -/
def optGetT {α : Type} (o : Option α) : R α :=
  match o with
  | some v => .ok v
  | none => raise .typeError

/-- `s.isascii()` (True for the empty string) -/
def isasciiS (s : Str) : Bool := s.all (fun c => decide (c < 128))

/-- `s.encode('ascii').decode('ascii')` -/
def asciiOnly (s : Str) : R Str := if s.all (fun c => decide (c < 128)) then .ok s else raise .unicodeError

def zip3 {α β γ : Type} : List α → List β → List γ → List (α × β × γ)
  | a :: as, b :: bs, c :: cs => (a, b, c) :: zip3 as bs cs
  | _, _, _ => []

def ord (s : Str) : R Int :=
  match s with
  | [c] => .ok c
  | _ => raise .typeError

def chr (n : Int) : R Str :=
  if 0 ≤ n ∧ n < 0x110000 then .ok [n.toNat] else raise .valueError

def pypow (a b : Int) : R Int :=
  if b < 0 then raise .other else .ok (a ^ b.toNat)   -- negative exponent gives a float in Python: unmodelled

def pypowmod (a b m : Int) : R Int :=
  if m == 0 then raise .valueError
  else if b < 0 then raise .other
  else .ok (Int.fmod (a ^ b.toNat) m)

def pyshl (a b : Int) : R Int := if b < 0 then raise .valueError else .ok (a * 2 ^ b.toNat)
def pyshr (a b : Int) : R Int := if b < 0 then raise .valueError else .ok (Int.fdiv a (2 ^ b.toNat))

/-- bitwise operations on Python ints (two's complement semantics for negatives) -/
def inot (a : Int) : Int := -a - 1
def iand (a b : Int) : Int :=
  match decide (0 ≤ a), decide (0 ≤ b) with
  | true, true => ((a.toNat &&& b.toNat : Nat) : Int)
  | true, false => ((a.toNat - (a.toNat &&& (inot b).toNat) : Nat) : Int)
  | false, true => ((b.toNat - (b.toNat &&& (inot a).toNat) : Nat) : Int)
  | false, false => inot (((inot a).toNat ||| (inot b).toNat : Nat) : Int)
def ior (a b : Int) : Int := inot (iand (inot a) (inot b))
def ixor (a b : Int) : Int := iand (ior a b) (inot (iand a b))

def insertSorted {α : Type} (lt : α → α → Bool) (x : α) : List α → List α
  | [] => [x]
  | y :: t => if lt x y then x :: y :: t else y :: insertSorted lt x t
def sortedBy {α : Type} (lt : α → α → Bool) (l : List α) : List α := l.foldr (insertSorted lt) []
def sortedInt (l : List Int) : List Int := sortedBy (fun a b => decide (a < b)) l
def sortedStr (l : List Str) : List Str := sortedBy strLt l

/-- `x.split(sep)`; ValueError for an empty separator -/
def splitOnR (x sep : Str) (maxsplit : Option Nat) : R (List Str) :=
  if sep.isEmpty then raise .valueError else .ok (splitOn x sep maxsplit)
def rsplitOnR (x sep : Str) (maxsplit : Option Nat) : R (List Str) :=
  if sep.isEmpty then raise .valueError else .ok (rsplitOn x sep maxsplit)

end Py

namespace Py
/-- `xs[i] = v` on a list -/
def listSet {α : Type} (xs : List α) (i : Int) (v : α) : R (List α) :=
  let n : Int := xs.length
  let j := if i < 0 then n + i else i
  if 0 ≤ j ∧ j < n then .ok (xs.set j.toNat v) else raise .indexError
end Py
