import PyRt.Basic
import PyRt.Str
/-! # PyRt.Misc — tuple views, small numeric helpers -/
namespace Py

/-- homogeneous tuples viewed as lists -/
class TupleToList (τ : Type) (α : outParam Type) where
  toL : τ → List α
instance (priority := low) {α : Type} : TupleToList (α × α) α := ⟨fun p => [p.1, p.2]⟩
instance {α τ : Type} [TupleToList τ α] : TupleToList (α × τ) α := ⟨fun p => p.1 :: TupleToList.toL p.2⟩
def tupleToList {τ α : Type} [TupleToList τ α] (t : τ) : List α := TupleToList.toL t

/-- attribute access / method call on an `Optional` value: `None.attr` raises AttributeError -/
def optGet {α : Type} (o : Option α) : R α :=
  match o with
  | some v => .ok v
  | none => raise .attributeError

/-- use of a possibly-None value as a string argument (`''.join([None])` raises TypeError) -/
def optGetT {α : Type} (o : Option α) : R α :=
  match o with
  | some v => .ok v
  | none => raise .typeError

/-- `s.isascii()` (True for the empty string) -/
def isasciiS (s : Str) : Bool := s.all (fun c => decide (c < 128))

/-- `s.encode('ascii').decode('ascii')` -/
def asciiOnly (s : Str) : R Str := if s.all (fun c => decide (c < 128)) then .ok s else raise .unicodeError

def zip3 {α β γ : Type} : List α → List β → List γ → List (α × β × γ)
  | a :: as, b :: bs, c :: cs => (a, b, c) :: zip3 as bs cs
  | _, _, _ => []

def ord (s : Str) : R Int :=
  match s with
  | [c] => .ok c
  | _ => raise .typeError

def chr (n : Int) : R Str :=
  if 0 ≤ n ∧ n < 0x110000 then .ok [n.toNat] else raise .valueError

def pypow (a b : Int) : R Int :=
  if b < 0 then raise .other else .ok (a ^ b.toNat)   -- negative exponent gives a float in Python: unmodelled

def pypowmod (a b m : Int) : R Int :=
  if m == 0 then raise .valueError
  else if b < 0 then raise .other
  else .ok (Int.fmod (a ^ b.toNat) m)

def pyshl (a b : Int) : R Int := if b < 0 then raise .valueError else .ok (a * 2 ^ b.toNat)
def pyshr (a b : Int) : R Int := if b < 0 then raise .valueError else .ok (Int.fdiv a (2 ^ b.toNat))

/-- bitwise operations on Python ints (two's complement semantics for negatives) -/
def inot (a : Int) : Int := -a - 1
def iand (a b : Int) : Int :=
  match decide (0 ≤ a), decide (0 ≤ b) with
  | true, true => ((a.toNat &&& b.toNat : Nat) : Int)
  | true, false => ((a.toNat - (a.toNat &&& (inot b).toNat) : Nat) : Int)
  | false, true => ((b.toNat - (b.toNat &&& (inot a).toNat) : Nat) : Int)
  | false, false => inot (((inot a).toNat ||| (inot b).toNat : Nat) : Int)
def ior (a b : Int) : Int := inot (iand (inot a) (inot b))
def ixor (a b : Int) : Int := iand (ior a b) (inot (iand a b))

def insertSorted {α : Type} (lt : α → α → Bool) (x : α) : List α → List α
  | [] => [x]
  | y :: t => if lt x y then x :: y :: t else y :: insertSorted lt x t
def sortedBy {α : Type} (lt : α → α → Bool) (l : List α) : List α := l.foldr (insertSorted lt) []
def sortedInt (l : List Int) : List Int := sortedBy (fun a b => decide (a < b)) l
def sortedStr (l : List Str) : List Str := sortedBy strLt l

/-- `x.split(sep)`; ValueError for an empty separator -/
def splitOnR (x sep : Str) (maxsplit : Option Nat) : R (List Str) :=
  if sep.isEmpty then raise .valueError else .ok (splitOn x sep maxsplit)
def rsplitOnR (x sep : Str) (maxsplit : Option Nat) : R (List Str) :=
  if sep.isEmpty then raise .valueError else .ok (rsplitOn x sep maxsplit)

end Py

namespace Py
/-- `xs[i] = v` on a list -/
def listSet {α : Type} (xs : List α) (i : Int) (v : α) : R (List α) :=
  let n : Int := xs.length
  let j := if i < 0 then n + i else i
  if 0 ≤ j ∧ j < n then .ok (xs.set j.toNat v) else raise .indexError

/-- `f(*xs)` for a function of exactly `n` positional parameters: any other number of arguments is a `TypeError` -/
def starArgs {α : Type} (n : Nat) (xs : List α) : R (List α) :=
  if xs.length == n then .ok xs else raise .typeError

/-- `re.sub(r'([ALPHABET])\1*', lambda m: next(items), s)` with `items = iter(list)`
(`stdnum.de.stnr._Format.replace`): every maximal run of one repeated character of `alphabet` is replaced by the next
element of the list, every other character is kept.  Running out of elements is `StopIteration`; an element that is
`None` is a `TypeError` (re.sub expects a str from the callback) — both only when that element is actually needed.
`skip` is the character of the run that is currently being replaced. -/
def subRunsGo (alphabet : Str) : Option Nat → Str → List (Option Str) → R Str
  | _, [], _ => .ok []
  | skip, c :: rest, items =>
    if skip == some c then subRunsGo alphabet skip rest items
    else if alphabet.contains c then
      match items with
      | [] => raise .stopIteration
      | none :: _ => raise .typeError
      | some r :: items' =>
        match subRunsGo alphabet (some c) rest items' with
        | .ok tl => .ok (r ++ tl)
        | .error e => .error e
    else
      match subRunsGo alphabet none rest items with
      | .ok tl => .ok (c :: tl)
      | .error e => .error e

def subRunsNext (alphabet s : Str) (items : List (Option Str)) : R Str := subRunsGo alphabet none s items
end Py
