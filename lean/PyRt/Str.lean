import PyRt.Basic
/-!
# PyRt.Str — string / sequence built-ins that do not depend on Unicode tables

Slicing, indexing, searching, joining, splitting, padding, comparison, and the list helpers
(`sum`, `zip`, `enumerate`, …) the translated code uses.  Trusted, differential-tested.
-/
namespace Py

/-! ## indices and slices -/

/-- clamp a slice bound the way CPython's `PySlice_AdjustIndices` does (step > 0) -/
def normIdx (n : Nat) (i : Int) : Nat :=
  if i < 0 then (Int.toNat (n + i)) else min i.toNat n

/-- effective lower bound of `x[a:b]` on a sequence of length `n` -/
def loIdx (n : Nat) : Option Int → Nat
  | none => 0
  | some i => normIdx n i

/-- effective upper bound of `x[a:b]` on a sequence of length `n` -/
def hiIdx (n : Nat) : Option Int → Nat
  | none => n
  | some i => normIdx n i

/-- `x[a:b]` for any list -/
def sliceL {α : Type} (x : List α) (a b : Option Int) : List α :=
  (x.drop (loIdx x.length a)).take (hiIdx x.length b - loIdx x.length a)

/-- `s[a:b]` -/
def slice (x : Str) (a b : Option Int) : Str := sliceL x a b

/-- keep an element, then skip `k - 1`; `j` = number of elements still to skip -/
def everyNthGo {α : Type} (k : Nat) : List α → Nat → List α
  | [], _ => []
  | a :: t, 0 => a :: everyNthGo k t (k - 1)
  | _ :: t, j + 1 => everyNthGo k t j

/-- every `k`-th element starting at 0 (`k ≥ 1`) -/
def everyNth {α : Type} (k : Nat) (l : List α) : List α := everyNthGo k l 0

/-- `x[a:b:k]` for `k ≥ 1` -/
def sliceStepL {α : Type} (x : List α) (a b : Option Int) (k : Nat) : List α :=
  everyNth k (sliceL x a b)

/-- `x[::-1]`-style reversed slice with default bounds -/
def sliceRevL {α : Type} (x : List α) : List α := x.reverse

/-- `x[i]` on a list -/
def getItemL {α : Type} (x : List α) (i : Int) : R α :=
  let n : Int := x.length
  let j := if i < 0 then n + i else i
  if 0 ≤ j ∧ j < n then
    match x[j.toNat]? with
    | some v => .ok v
    | none => raise .indexError
  else raise .indexError

/-- `s[i]` on a string: a one-character string -/
def getItem (x : Str) (i : Int) : R Str :=
  match getItemL x i with
  | .ok c => .ok [c]
  | .error e => .error e

/-- the characters of a string as one-character strings (iteration over a `str`) -/
def chars (x : Str) : List Str := x.map (fun c => [c])

/-! ## searching -/

/-- first position at which `sub` occurs in `x`, counted from `off` -/
def findAux (sub : Str) : Str → Nat → Option Nat
  | [], off => if sub.isEmpty then some off else none
  | c :: t, off => if sub.isPrefixOf (c :: t) then some off else findAux sub t (off + 1)

/-- first index `i ≥ start` at which `sub` occurs in `x` -/
def findFrom (x sub : Str) (start : Nat) : Option Nat :=
  if start ≤ x.length then findAux sub (x.drop start) start else none

/-- `sub in x` (substring test) -/
def strIn (sub : Str) : Str → Bool
  | [] => sub.isEmpty
  | c :: t => sub.isPrefixOf (c :: t) || strIn sub t

/-- `x.find(sub)` -/
def find (x sub : Str) : Int :=
  match findFrom x sub 0 with
  | some i => i
  | none => -1

/-- `x.index(sub)` -/
def index (x sub : Str) : R Int :=
  match findFrom x sub 0 with
  | some i => .ok i
  | none => raise .valueError

/-- `l.index(v)` on a list/tuple -/
def indexL {α : Type} [BEq α] (l : List α) (v : α) : R Int :=
  match l.findIdx? (· == v) with
  | some i => .ok i
  | none => raise .valueError

/-- number of non-overlapping occurrences of a non-empty `sub`, scanning left to right;
`skip` = characters of the current occurrence still to pass over -/
def countGo (sub : Str) : Str → Nat → Nat
  | [], _ => 0
  | c :: t, 0 => if sub.isPrefixOf (c :: t) then countGo sub t (sub.length - 1) + 1 else countGo sub t 0
  | _ :: t, skip + 1 => countGo sub t skip

/-- `x.count(sub)` (non-overlapping) -/
def count (x sub : Str) : Int :=
  if sub.isEmpty then x.length + 1 else countGo sub x 0

def startswith (x p : Str) : Bool := p.isPrefixOf x
def endswith (x p : Str) : Bool := p.isSuffixOf x
/-- `x.startswith((a, b, …))` -/
def startswithAny (x : Str) (ps : List Str) : Bool := ps.any (startswith x)
def endswithAny (x : Str) (ps : List Str) : Bool := ps.any (endswith x)

/-! ## building -/

def zfill (x : Str) (w : Int) : Str :=
  let pad := List.replicate (w.toNat - x.length) 48
  match x with
  | 43 :: rest => 43 :: (pad ++ rest)
  | 45 :: rest => 45 :: (pad ++ rest)
  | _ => pad ++ x

def rjust (x : Str) (w : Int) (fill : Str) : Str :=
  List.replicate (w.toNat - x.length) (fill.headD 32) ++ x
def ljust (x : Str) (w : Int) (fill : Str) : Str :=
  x ++ List.replicate (w.toNat - x.length) (fill.headD 32)

/-- `sep.join(parts)` -/
def join (sep : Str) : List Str → Str
  | [] => []
  | [a] => a
  | a :: b :: t => a ++ sep ++ join sep (b :: t)

/-- `s * n` -/
def repeatStr (x : Str) (n : Int) : Str := (List.replicate n.toNat x).flatten

/-- replace the non-overlapping occurrences of a non-empty `old`, scanning left to right;
`skip` = characters of the current occurrence still to pass over -/
def replaceGo (old new : Str) : Str → Nat → Str
  | [], _ => []
  | c :: t, 0 =>
    if old.isPrefixOf (c :: t) then new ++ replaceGo old new t (old.length - 1)
    else c :: replaceGo old new t 0
  | _ :: t, skip + 1 => replaceGo old new t skip

/-- `x.replace(old, new)` (all occurrences, left to right, non-overlapping) -/
def replace (x old new : Str) : Str :=
  if old.isEmpty then
    new ++ (x.map (fun c => c :: new)).flatten
  else replaceGo old new x 0

/-- split at the non-overlapping occurrences of a non-empty `sep`, scanning left to right;
`skip` = characters of the current separator still to pass over, `cur` = the current part (reversed),
`left` = splits still allowed (`none` = unlimited) -/
def splitGo (sep : Str) : Str → Nat → Str → Option Nat → List Str
  | [], _, cur, _ => [cur.reverse]
  | c :: t, 0, cur, left =>
    if left != some 0 && sep.isPrefixOf (c :: t) then
      cur.reverse :: splitGo sep t (sep.length - 1) [] (left.map (· - 1))
    else splitGo sep t 0 (c :: cur) left
  | _ :: t, skip + 1, cur, left => splitGo sep t skip cur left

/-- `x.split(sep)` with a non-empty separator and optional maxsplit (`none` = unlimited) -/
def splitOn (x sep : Str) (maxsplit : Option Nat := none) : List Str :=
  splitGo sep x 0 [] maxsplit

/-- `x.rsplit(sep, maxsplit)` with a non-empty separator -/
def rsplitOn (x sep : Str) (maxsplit : Option Nat := none) : List Str :=
  ((splitOn x.reverse sep.reverse maxsplit).map List.reverse).reverse

/-! ## comparison (code-point lexicographic, as Python compares `str`) -/

def strLt : Str → Str → Bool
  | [], [] => false
  | [], _ :: _ => true
  | _ :: _, [] => false
  | a :: x, b :: y => if a < b then true else if b < a then false else strLt x y
def strLe (x y : Str) : Bool := !strLt y x

/-! ## numeric / iteration helpers -/

def sumInt (l : List Int) : Int := l.foldl (· + ·) 0

/-- `enumerate(l, start)` -/
def enumerate {α : Type} : List α → (start : Int := 0) → List (Int × α)
  | [], _ => []
  | a :: t, start => (start, a) :: enumerate t (start + 1)

/-- `range(a, b)` -/
def range (a b : Int) : List Int := (List.range (b - a).toNat).map (fun (i : Nat) => a + (i : Int))
/-- `range(a, b, k)` for k ≠ 0 -/
def rangeStep (a b k : Int) : List Int :=
  if k > 0 then (List.range ((b - a + k - 1) / k).toNat).map (fun (i : Nat) => a + (i : Int) * k)
  else if k < 0 then (List.range ((a - b - k - 1) / (-k)).toNat).map (fun (i : Nat) => a + (i : Int) * k)
  else []

def maxInt : List Int → R Int
  | [] => raise .valueError
  | a :: t => .ok (t.foldl max a)
def minInt : List Int → R Int
  | [] => raise .valueError
  | a :: t => .ok (t.foldl min a)

/-! ## dictionaries as association lists (insertion ordered, keys unique) -/

def dictGet? {κ ν : Type} [BEq κ] (d : List (κ × ν)) (k : κ) : Option ν :=
  (d.find? (·.1 == k)).map (·.2)
def dictGet {κ ν : Type} [BEq κ] (d : List (κ × ν)) (k : κ) : R ν :=
  match dictGet? d k with
  | some v => .ok v
  | none => raise .keyError
def dictGetD {κ ν : Type} [BEq κ] (d : List (κ × ν)) (k : κ) (dflt : ν) : ν :=
  (dictGet? d k).getD dflt
def dictHas {κ ν : Type} [BEq κ] (d : List (κ × ν)) (k : κ) : Bool := (dictGet? d k).isSome
/-- `d[k] = v` : replaces in place or appends -/
def dictSet {κ ν : Type} [BEq κ] (d : List (κ × ν)) (k : κ) (v : ν) : List (κ × ν) :=
  if dictHas d k then d.map (fun p => if p.1 == k then (p.1, v) else p) else d ++ [(k, v)]
def dictUpdate {κ ν : Type} [BEq κ] (d e : List (κ × ν)) : List (κ × ν) :=
  e.foldl (fun acc p => dictSet acc p.1 p.2) d
/-- `dict(pairs)` -/
def dictOfPairs {κ ν : Type} [BEq κ] (l : List (κ × ν)) : List (κ × ν) := dictUpdate [] l

end Py
