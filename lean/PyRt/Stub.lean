import PyRt.Basic
import PyRt.Str
/-! TEMPORARY mini regex (until PyRt.Regex is integrated) -/
namespace Py.Re
/-- TEMPORARY mini regex: only the two isdigits patterns -/
inductive Regex | digitsDollar | digitsZ
deriving Repr, Inhabited
structure Match where
  groups : List (Option Py.Str) := []
deriving Repr, Inhabited
def match_ (r : Regex) (s : Py.Str) : Option Match :=
  let core := match r, s.reverse with
    | .digitsDollar, 10 :: rest => rest.reverse
    | _, _ => s
  if !core.isEmpty && core.all Py.isAsciiDigit then some {} else none
def search := match_
end Py.Re
