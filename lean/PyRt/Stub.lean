import PyRt.Basic
import PyRt.Str
/-! TEMPORARY ASCII-only stand-ins (replaced by PyRt.Unicode / PyRt.Int / PyRt.Strip) -/
namespace Py
def isWs (c : Nat) : Bool :=
  c == 32 || (decide (9 ≤ c) && decide (c ≤ 13)) || (decide (28 ≤ c) && decide (c ≤ 31)) || c == 0x85 || c == 0xa0 ||
  c == 0x1680 || (decide (0x2000 ≤ c) && decide (c ≤ 0x200a)) || c == 0x2028 || c == 0x2029 || c == 0x202f || c == 0x205f || c == 0x3000
def lstrip (x : Str) : Str := x.dropWhile isWs
def rstrip (x : Str) : Str := (x.reverse.dropWhile isWs).reverse
def strip (x : Str) : Str := rstrip (lstrip x)
def lstripChars (x cs : Str) : Str := x.dropWhile (cs.contains ·)
def rstripChars (x cs : Str) : Str := (x.reverse.dropWhile (cs.contains ·)).reverse
def stripChars (x cs : Str) : Str := rstripChars (lstripChars x cs) cs
def upper (x : Str) : Str := x.map (fun c => if 97 ≤ c ∧ c ≤ 122 then c - 32 else c)
def lower (x : Str) : Str := x.map (fun c => if 65 ≤ c ∧ c ≤ 90 then c + 32 else c)
def isdigit (x : Str) : Bool := !x.isEmpty && x.all isAsciiDigit
def isalpha (x : Str) : Bool := !x.isEmpty && x.all isAsciiAlpha
def isalnum (x : Str) : Bool := !x.isEmpty && x.all isAsciiAlnum
def intOf (x : Str) : R Int :=
  let t := strip x
  let (neg, t) := match t with | 45 :: r => (true, r) | 43 :: r => (false, r) | r => (false, r)
  if !t.isEmpty && t.all isAsciiDigit then
    let v := t.foldl (fun acc c => acc * 10 + ((c - 48 : Nat) : Int)) (0 : Int)
    .ok (if neg then -v else v)
  else raise .valueError
def digitVal36 (c : Nat) : Option Nat :=
  if isAsciiDigit c then some (c - 48) else if isAsciiUpper c then some (c - 55) else if isAsciiLower c then some (c - 87) else none
def intOfBase (x : Str) (base : Nat) : R Int :=
  let t := strip x
  let (neg, t) := match t with | 45 :: r => (true, r) | 43 :: r => (false, r) | r => (false, r)
  if t.isEmpty then raise .valueError else
  match t.mapM (fun c => match digitVal36 c with | some v => if v < base then some v else none | none => none) with
  | some ds => let v := ds.foldl (fun (acc : Int) (d : Nat) => acc * (base : Int) + (d : Int)) (0 : Int); .ok (if neg then -v else v)
  | none => raise .valueError
def strOfNat (n : Nat) : Str := (Nat.toDigits 10 n).map Char.toNat
def strOfInt (n : Int) : Str := if n < 0 then 45 :: strOfNat n.natAbs else strOfNat n.natAbs
def pymod (a b : Int) : R Int := if b == 0 then raise .zeroDivision else .ok (Int.fmod a b)
def pyfloordiv (a b : Int) : R Int := if b == 0 then raise .zeroDivision else .ok (Int.fdiv a b)
def pydivmod (a b : Int) : R (Int × Int) := if b == 0 then raise .zeroDivision else .ok (Int.fdiv a b, Int.fmod a b)
def fmtD (width : Nat) (zero : Bool) (n : Int) : Str :=
  let body := strOfNat n.natAbs
  let sign : Str := if n < 0 then [45] else []
  let padn := width - (body.length + sign.length)
  if zero then sign ++ List.replicate padn 48 ++ body else List.replicate padn 32 ++ sign ++ body
end Py
namespace Py.Re
/-- TEMPORARY mini regex: only the two isdigits patterns -/
inductive Regex | digitsDollar | digitsZ
deriving Repr, Inhabited
structure Match where
  groups : List (Option Py.Str) := []
deriving Repr, Inhabited
def match_ (r : Regex) (s : Py.Str) : Option Match :=
  let core := match r, s.reverse with
    | .digitsDollar, 10 :: rest => rest.reverse
    | _, _ => s
  if !core.isEmpty && core.all Py.isAsciiDigit then some {} else none
def search := match_
end Py.Re
namespace Py
def hexDigit (d : Nat) (upper : Bool) : Nat := if d < 10 then 48 + d else (if upper then 55 else 87) + d
def toHex (n : Nat) (upper : Bool) : Str := ((Nat.toDigits 16 n).map (fun c => let v := c.toNat; if upper && 97 ≤ v && v ≤ 102 then v - 32 else v))
def fmtX (width : Nat) (zero : Bool) (upper : Bool) (n : Int) : R Str :=
  let body := toHex n.natAbs upper
  let sign : Str := if n < 0 then [45] else []
  let padn := width - (body.length + sign.length)
  .ok (if zero then sign ++ List.replicate padn 48 ++ body else List.replicate padn 32 ++ sign ++ body)
def intBitLength (n : Int) : Int := if n == 0 then 0 else (Nat.log2 n.natAbs + 1 : Nat)
end Py
