import PyRt.Basic
/-!
# PyRt.Date — `datetime.date` as far as the library uses it

Proleptic Gregorian calendar, years 1..9999 (`datetime.MINYEAR..MAXYEAR`).
-/
namespace Py

structure Date where
  year : Int
  month : Int
  day : Int
deriving DecidableEq, Repr, Inhabited

def isLeap (y : Int) : Bool := (y % 4 == 0 && y % 100 != 0) || y % 400 == 0

/-- `calendar.monthrange(y, m)[1]` for 1 ≤ m ≤ 12 -/
def daysInMonth (y m : Int) : Int :=
  if m == 2 then (if isLeap y then 29 else 28)
  else if m == 4 || m == 6 || m == 9 || m == 11 then 30 else 31

/-- `datetime.date(y, m, d)`: ValueError outside the calendar; OverflowError for ints beyond a C int -/
def mkDate (y m d : Int) : R Date :=
  if y.natAbs ≥ 2147483648 || m.natAbs ≥ 2147483648 || d.natAbs ≥ 2147483648 then raise .overflow
  else if 1 ≤ y ∧ y ≤ 9999 ∧ 1 ≤ m ∧ m ≤ 12 ∧ 1 ≤ d ∧ d ≤ daysInMonth y m then .ok ⟨y, m, d⟩
  else raise .valueError

/-- `calendar.monthrange(y, m)[1]`; raises `calendar.IllegalMonthError` (a ValueError) for a bad month.
Year 0 and negative years are accepted by `calendar` (proleptic), modelled accordingly. -/
def monthrangeDays (y m : Int) : R Int :=
  if 1 ≤ m ∧ m ≤ 12 then .ok (daysInMonth y m) else raise .valueError

def Date.lt (a b : Date) : Bool :=
  a.year < b.year || (a.year == b.year && (a.month < b.month || (a.month == b.month && a.day < b.day)))
def Date.le (a b : Date) : Bool := a == b || a.lt b

/-- a date value is a real calendar date -/
def Date.Valid (x : Date) : Prop :=
  1 ≤ x.year ∧ x.year ≤ 9999 ∧ 1 ≤ x.month ∧ x.month ≤ 12 ∧ 1 ≤ x.day ∧ x.day ≤ daysInMonth x.year x.month

theorem mkDate_valid {y m d : Int} {x : Date} (h : mkDate y m d = .ok x) :
    x.Valid ∧ x.year = y ∧ x.month = m ∧ x.day = d := by
  unfold mkDate at h
  split at h
  · cases h
  · split at h
    · rename_i hv
      cases h
      exact ⟨hv, rfl, rfl, rfl⟩
    · cases h

end Py
