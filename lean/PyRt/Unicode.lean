import PyRt.Basic
import PyRt.UnicodeData
/-!
# PyRt.Unicode — the Unicode-dependent `str` methods

Per-character functions live in `Py.Uni`, the string methods in `Py`.
Every per-character function decides ASCII input (`c < 128`) by ARITHMETIC before any table is
consulted, so theorems about ASCII strings never unfold `PyRt.UnicodeData`.
The tables are generated from the running CPython (3.12.1, Unicode 15.0) by `tools/gen_unicode.py`
and are compared with it exhaustively (all 0x110000 code points) by `tools/corr/unicode.py`.
-/
namespace Py

/-- `c.upper()` for an ASCII character -/
def asciiUpper (c : Nat) : Nat := if 97 ≤ c ∧ c ≤ 122 then c - 32 else c
/-- `c.lower()` for an ASCII character -/
def asciiLower (c : Nat) : Nat := if 65 ≤ c ∧ c ≤ 90 then c + 32 else c

namespace Uni
open Py.Uni.Data

/-! ## table lookup: binary search with fuel (structural, total) -/

/-- Number of leading entries of `t[lo:hi]`… precisely: the least index `i ∈ [lo, hi]` such that
`key t[j] ≤ c` fails for `j = i` (binary search; `t` sorted by `key`).  `fuel ≥ hi - lo + 1` suffices. -/
def upperBound {α : Type} (key : α → Nat) (t : Array α) (c : Nat) : Nat → Nat → Nat → Nat
  | 0, lo, _ => lo
  | fuel + 1, lo, hi =>
    if lo < hi then
      let mid := (lo + hi) / 2
      match t[mid]? with
      | none => lo
      | some e =>
        if key e ≤ c then upperBound key t c fuel (mid + 1) hi
        else upperBound key t c fuel lo mid
    else lo

/-- the last entry of the sorted table `t` whose key is `≤ c` -/
def findLE {α : Type} (key : α → Nat) (t : Array α) (c : Nat) : Option α :=
  match upperBound key t c (t.size + 1) 0 t.size with
  | 0 => none
  | i + 1 => t[i]?

/-- membership in a sorted table of disjoint inclusive ranges (the test `lo ≤ c` is redundant for a
sorted table; it makes "a hit comes from an entry containing `c`" hold by definition) -/
def inRanges (t : Array (Nat × Nat)) (c : Nat) : Bool :=
  match findLE (·.1) t c with
  | some (lo, hi) => decide (lo ≤ c) && decide (c ≤ hi)
  | none => false

/-- lookup in a sorted table of runs `(lo, hi, v)`: `v + (c - lo)` -/
def runVal (t : Array (Nat × Nat × Nat)) (c : Nat) : Option Nat :=
  match findLE (·.1) t c with
  | some (lo, hi, v) => if lo ≤ c ∧ c ≤ hi then some (v + (c - lo)) else none
  | none => none

/-- lookup in a sorted point map -/
def pointVal (t : Array (Nat × List Nat)) (c : Nat) : Option (List Nat) :=
  match findLE (·.1) t c with
  | some (k, v) => if k = c then some v else none
  | none => none

/-! ## per-character functions -/

/-- `unicodedata.decimal(chr(c), None)`; the digit value `int()` uses -/
def decimal? (c : Nat) : Option Nat :=
  if c < 128 then (if isAsciiDigit c then some (c - 48) else none) else runVal decimalTab c

/-- `unicodedata.digit(chr(c), None)` -/
def digit? (c : Nat) : Option Nat :=
  if c < 128 then (if isAsciiDigit c then some (c - 48) else none) else runVal digitTab c

/-- `chr(c).isdecimal()` -/
def isDecimal (c : Nat) : Bool := (decimal? c).isSome
/-- `chr(c).isdigit()` -/
def isDigit (c : Nat) : Bool := (digit? c).isSome
/-- `chr(c).isnumeric()` -/
def isNumeric (c : Nat) : Bool := if c < 128 then isAsciiDigit c else inRanges numericTab c
/-- `chr(c).isalpha()` -/
def isAlpha (c : Nat) : Bool := if c < 128 then isAsciiAlpha c else inRanges alphaTab c
/-- `chr(c).isalnum()` (CPython: alpha, decimal, digit or numeric) -/
def isAlnum (c : Nat) : Bool := isAlpha c || isDecimal c || isDigit c || isNumeric c
/-- `chr(c).isspace()`; also the set removed by `str.strip()` and matched by regex `\s` -/
def isSpace (c : Nat) : Bool :=
  if c < 128 then (decide (9 ≤ c) && decide (c ≤ 13)) || (decide (28 ≤ c) && decide (c ≤ 32))
  else inRanges spaceTab c
/-- general category Zs -/
def isZs (c : Nat) : Bool := if c < 128 then c == 32 else inRanges zsTab c
/-- `chr(c).islower()` (property Lowercase) -/
def isLower (c : Nat) : Bool := if c < 128 then isAsciiLower c else inRanges lowerTab c
/-- `chr(c).isupper()` (property Uppercase) -/
def isUpper (c : Nat) : Bool := if c < 128 then isAsciiUpper c else inRanges upperTab c
/-- general category Lt (`Py_UNICODE_ISTITLE`) -/
def isTitle (c : Nat) : Bool := if c < 128 then false else inRanges titleTab c
/-- `_PyUnicode_IsCased` -/
def isCased (c : Nat) : Bool := if c < 128 then isAsciiAlpha c else inRanges casedTab c
/-- `_PyUnicode_IsCaseIgnorable` (ASCII: `' . : ^ `` ` ``) -/
def isCaseIgnorable (c : Nat) : Bool :=
  if c < 128 then c == 39 || c == 46 || c == 58 || c == 94 || c == 96
  else inRanges caseIgnorableTab c

/-- simple lower-case mapping (`_PyUnicode_ToLowercase`, `_sre.unicode_tolower`) -/
def lower1 (c : Nat) : Nat := if c < 128 then asciiLower c else (runVal lower1Tab c).getD c
/-- simple upper-case mapping (`_PyUnicode_ToUppercase`; for characters with a multi-character
upper case this is the FIRST character of it, as in CPython: `upper1 0xDF = 'S'`) -/
def upper1 (c : Nat) : Nat := if c < 128 then asciiUpper c else (runVal upper1Tab c).getD c

/-- `chr(c).lower()` (full mapping, 1–2 code points) -/
def lowerC (c : Nat) : List Nat :=
  if c < 128 then [asciiLower c]
  else match pointVal lowerFullTab c with
    | some l => l
    | none => [(runVal lower1Tab c).getD c]

/-- `chr(c).upper()` (full mapping, 1–3 code points) -/
def upperC (c : Nat) : List Nat :=
  if c < 128 then [asciiUpper c]
  else match pointVal upperFullTab c with
    | some l => l
    | none => [(runVal upper1Tab c).getD c]

/-- the letters `a`–`z` in `unicodedata.normalize('NFD', chr(c))` -/
def nfdAZ (c : Nat) : List Nat :=
  if c < 128 then (if isAsciiLower c then [c] else []) else (pointVal nfdAZTab c).getD []

/-- the non-ASCII code points whose `upper()` contains an ASCII character
(`ß ı ŉ ſ ǰ ẖ ẗ ẘ ẙ ẚ ﬀ ﬁ ﬂ ﬃ ﬄ ﬅ ﬆ`); complete by `Py.Uni.upperToAsciiSources_complete` -/
def upperToAsciiSources : List Nat := Data.upperToAsciiSources
/-- the non-ASCII code points whose `lower()` contains an ASCII character (`İ`, Kelvin sign) -/
def lowerToAsciiSources : List Nat := Data.lowerToAsciiSources

/-- CPython `handle_capital_sigma`: is the `Σ` between `before` (reversed) and `after` in
Final_Sigma context, `\p{cased}\p{case-ignorable}* Σ !(\p{case-ignorable}*\p{cased})`? -/
def finalSigma (beforeRev after : List Nat) : Bool :=
  (match beforeRev.dropWhile isCaseIgnorable with
   | [] => false
   | c :: _ => isCased c) &&
  (match after.dropWhile isCaseIgnorable with
   | [] => true
   | c :: _ => !isCased c)

/-- worker of `Py.lower`: `beforeRev` is the already consumed input, reversed -/
def lowerGo : List Nat → List Nat → List Nat
  | _, [] => []
  | beforeRev, c :: rest =>
    (if c = 0x3A3 then [if finalSigma beforeRev rest then 0x3C2 else 0x3C3] else lowerC c)
      ++ lowerGo (c :: beforeRev) rest

end Uni

/-! ## string methods -/

/-- `s.upper()` -/
def upper (s : Str) : Str := s.flatMap Uni.upperC
/-- `s.lower()` (with the final-sigma rule) -/
def lower (s : Str) : Str := Uni.lowerGo [] s

/-- `s.isdecimal()` -/
def isdecimal (s : Str) : Bool := !s.isEmpty && s.all Uni.isDecimal
/-- `s.isdigit()` -/
def isdigit (s : Str) : Bool := !s.isEmpty && s.all Uni.isDigit
/-- `s.isnumeric()` -/
def isnumeric (s : Str) : Bool := !s.isEmpty && s.all Uni.isNumeric
/-- `s.isalpha()` -/
def isalpha (s : Str) : Bool := !s.isEmpty && s.all Uni.isAlpha
/-- `s.isalnum()` -/
def isalnum (s : Str) : Bool := !s.isEmpty && s.all Uni.isAlnum
/-- `s.isspace()` -/
def isspace (s : Str) : Bool := !s.isEmpty && s.all Uni.isSpace
/-- `s.isupper()`: no lower-case or title-case character and at least one upper-case one -/
def isupper (s : Str) : Bool :=
  s.all (fun c => !(Uni.isLower c || Uni.isTitle c)) && s.any Uni.isUpper
/-- `s.islower()`: no upper-case or title-case character and at least one lower-case one -/
def islower (s : Str) : Bool :=
  s.all (fun c => !(Uni.isUpper c || Uni.isTitle c)) && s.any Uni.isLower

/-- `de.handelsregisternummer._to_min`:
`''.join(x for x in unicodedata.normalize('NFD', s.lower()) if x in 'abc…z')`.
Canonical reordering only permutes characters of non-zero combining class and `a`–`z` are
starters, so the filtered result is the concatenation of the filtered decompositions. -/
def toMin (s : Str) : Str := (lower s).flatMap Uni.nfdAZ

end Py
