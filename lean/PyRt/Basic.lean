/-!
# PyRt.Basic — values, exceptions and the exception monad

Hand-written semantics of the Python subset python-stdnum is written in.
Trusted, differential-tested against CPython (see DESIGN.md §2.1).
Strings are lists of code points.
-/
namespace Py

abbrev Str := List Nat

/-- The exception classes the model distinguishes. -/
inductive Exc where
  | invalidFormat | invalidLength | invalidChecksum | invalidComponent | validationError
  | valueError | typeError | indexError | keyError | attributeError | zeroDivision
  | overflow | unicodeError | stopIteration | other
deriving DecidableEq, Repr, Inhabited

/-- member of the library's `ValidationError` hierarchy -/
@[simp] def Exc.isValidation : Exc → Bool
  | .invalidFormat | .invalidLength | .invalidChecksum | .invalidComponent | .validationError => true
  | _ => false

/-- `except cls:` catches `e`.  `cls` is given by the constructor that stands for the class;
`.other` stands for `Exception`.  Encodes
`InvalidLength < InvalidFormat < ValidationError < ValueError < Exception`,
`InvalidChecksum, InvalidComponent < ValidationError`, `UnicodeError < ValueError`,
`IndexError, KeyError < LookupError`. -/
def Exc.caughtBy (e : Exc) (cls : Exc) : Bool :=
  match cls with
  | .other => true
  | .valueError => e.isValidation || e == .valueError || e == .unicodeError
  | .validationError => e.isValidation
  | .invalidFormat => e == .invalidFormat || e == .invalidLength
  | c => e == c

abbrev R := Except Exc

/-- `raise e` (own primitive: `throw` in `Except` confuses `mvcgen` in Lean 4.33) -/
def raise {α : Type} (e : Exc) : R α := .error e

/-- `try body except <classes>: handler` -/
def tryExcept {α : Type} (body : R α) (classes : List Exc) (handler : Exc → R α) : R α :=
  match body with
  | .ok v => .ok v
  | .error e => if classes.any (e.caughtBy ·) then handler e else .error e

def isOk {α : Type} : R α → Bool
  | .ok _ => true
  | .error _ => false

/-- plain statement form of a contract: result satisfies `Q`, exception satisfies `E` -/
def Holds {α : Type} (x : R α) (Q : α → Prop) (E : Exc → Prop) : Prop :=
  match x with
  | .ok r => Q r
  | .error e => E e

/-! ## ASCII character classes (arithmetic, no tables) -/

@[simp] def isAsciiDigit (c : Nat) : Bool := decide (48 ≤ c) && decide (c ≤ 57)
@[simp] def isAsciiUpper (c : Nat) : Bool := decide (65 ≤ c) && decide (c ≤ 90)
@[simp] def isAsciiLower (c : Nat) : Bool := decide (97 ≤ c) && decide (c ≤ 122)
@[simp] def isAsciiAlpha (c : Nat) : Bool := isAsciiUpper c || isAsciiLower c
@[simp] def isAsciiAlnum (c : Nat) : Bool := isAsciiDigit c || isAsciiAlpha c
@[simp] def isAscii (c : Nat) : Bool := decide (c < 128)

/-- every character of `s` satisfies `p` -/
def AllIn (p : Nat → Bool) (s : Str) : Prop := ∀ c ∈ s, p c = true

instance (p : Nat → Bool) (s : Str) : Decidable (AllIn p s) :=
  inferInstanceAs (Decidable (∀ c ∈ s, p c = true))

/-- string literal → code points (elaboration-time helper for hand-written files and the driver;
generated files use numeric lists) -/
def ofString (x : String) : Str := x.toList.map Char.toNat
def toString (x : Str) : String := String.ofList (x.map Char.ofNat)

end Py
