import Lean.Data.Json
import PyRt.Basic
/-!
# PyRt.Wire — line protocol between the Python harness and the Lean model driver

Request line:  `<target>\t<json array of arguments>`
Response line: `ok <json>` | `err <Class>` | `nofunc` | `badargs`

JSON encoding of Python values (both directions):
* str       → `{"s":[code points]}`
* int       → number
* bool      → `true` / `false`
* None      → `null`
* list      → `[ ... ]`
* tuple     → `{"t":[ ... ]}`
* dict      → `{"d":[[k,v], ...]}`   (insertion order)
* date      → `{"date":[y,m,d]}`
* datetime  → `{"dt":[y,m,d,H,M,S]}`
* Decimal   → `{"dec":{"s":[code points of str(value)]}}`

Error classes: the five ValidationError classes by name, everything else `NonValidation`.
Used only by the executable driver; nothing here is used in theorems.
-/
open Lean (Json)
namespace Py.Wire

def excName : Exc → String
  | .invalidFormat => "InvalidFormat"
  | .invalidLength => "InvalidLength"
  | .invalidChecksum => "InvalidChecksum"
  | .invalidComponent => "InvalidComponent"
  | .validationError => "ValidationError"
  | _ => "NonValidation"

class ToWire (α : Type) where
  toWire : α → Json
class FromWire (α : Type) where
  fromWire : Json → Option α
export ToWire (toWire)
export FromWire (fromWire)

def strToWire (s : Str) : Json := Json.mkObj [("s", Json.arr (s.toArray.map (fun c => Json.num (Lean.JsonNumber.fromNat c))))]

def natOfJson (j : Json) : Option Nat :=
  match j with
  | .num n => if n.exponent == 0 && n.mantissa ≥ 0 then some n.mantissa.toNat else none
  | _ => none
def intOfJson (j : Json) : Option Int :=
  match j with
  | .num n => if n.exponent == 0 then some n.mantissa else none
  | _ => none

def strOfJson (j : Json) : Option Str :=
  match j.getObjVal? "s" with
  | .ok (.arr a) => a.toList.mapM natOfJson
  | _ => none

instance : ToWire Str := ⟨strToWire⟩
instance : FromWire Str := ⟨strOfJson⟩
instance : ToWire Int := ⟨fun n => Json.num (Lean.JsonNumber.fromInt n)⟩
instance : FromWire Int := ⟨intOfJson⟩
instance : ToWire Nat := ⟨fun n => Json.num (Lean.JsonNumber.fromNat n)⟩
instance : FromWire Nat := ⟨natOfJson⟩
instance : ToWire Bool := ⟨Json.bool⟩
instance : FromWire Bool := ⟨fun j => match j with | .bool b => some b | _ => none⟩
instance : ToWire Unit := ⟨fun _ => Json.null⟩
instance : FromWire Unit := ⟨fun j => match j with | .null => some () | _ => none⟩
instance {α} [ToWire α] : ToWire (Option α) := ⟨fun o => match o with | none => Json.null | some a => toWire a⟩
instance {α} [FromWire α] : FromWire (Option α) :=
  ⟨fun j => match j with | .null => some none | j => (fromWire j : Option α).map some⟩
instance {α} [ToWire α] : ToWire (List α) := ⟨fun l => Json.arr (l.toArray.map toWire)⟩
instance {α} [FromWire α] : FromWire (List α) :=
  ⟨fun j => match j with | .arr a => a.toList.mapM fromWire | _ => none⟩

/-- tuples are flattened: `(a, b, c)` is `a × b × c` = `a × (b × c)` -/
class TupleWire (α : Type) where
  items : α → List Json
  parse : List Json → Option α
instance (priority := low) {α} [ToWire α] [FromWire α] : TupleWire α :=
  ⟨fun a => [toWire a], fun l => match l with | [j] => fromWire j | _ => none⟩
instance {α β} [ToWire α] [FromWire α] [TupleWire β] : TupleWire (α × β) :=
  ⟨fun p => toWire p.1 :: TupleWire.items p.2,
   fun l => match l with
     | j :: rest => do let a ← fromWire j; let b ← TupleWire.parse rest; pure (a, b)
     | [] => none⟩
instance {α β} [ToWire α] [FromWire α] [TupleWire β] : ToWire (α × β) :=
  ⟨fun p => Json.mkObj [("t", Json.arr (TupleWire.items p).toArray)]⟩
instance {α β} [ToWire α] [FromWire α] [TupleWire β] : FromWire (α × β) :=
  ⟨fun j => match j.getObjVal? "t" with
     | .ok (.arr a) => TupleWire.parse a.toList
     | _ => none⟩

def respond {α} [ToWire α] (r : R α) : String :=
  match r with
  | .ok v => "ok " ++ (toWire v).compress
  | .error e => "err " ++ excName e

/-- split a request line into target and argument array -/
def parseLine (line : String) : Option (String × List Json) :=
  let line := String.ofList (line.toList.reverse.dropWhile (fun c => c == '\n' || c == '\r')).reverse
  match line.splitOn "\t" with
  | [target, js] =>
    match Json.parse js with
    | .ok (.arr a) => some (target, a.toList)
    | _ => none
  | _ => none

end Py.Wire

/-! ## explicit encoders / decoders (composed by the generated dispatcher; no type-class search,
because Python `dict` and `list of pairs` share one Lean type) -/
namespace Py.Wire
abbrev Enc (α : Type) := α → Json
abbrev Dec (α : Type) := Json → Option α

def encStr : Enc Str := strToWire
def decStr : Dec Str := strOfJson
def encInt : Enc Int := fun n => Json.num (Lean.JsonNumber.fromInt n)
def decInt : Dec Int := intOfJson
def encBool : Enc Bool := Json.bool
def decBool : Dec Bool := fun j => match j with | .bool b => some b | _ => none
def encUnit : Enc Unit := fun _ => Json.null
def decUnit : Dec Unit := fun j => match j with | .null => some () | _ => none
/-- module values are their dotted names -/
def encModule : Enc String := Json.str
def decModule : Dec String := fun j => match j with | .str s => some s | _ => none
def encOpt {α} (e : Enc α) : Enc (Option α) := fun o => match o with | none => Json.null | some a => e a
def decOpt {α} (d : Dec α) : Dec (Option α) := fun j => match j with | .null => some none | j => (d j).map some
def encList {α} (e : Enc α) : Enc (List α) := fun l => Json.arr (l.toArray.map e)
def decList {α} (d : Dec α) : Dec (List α) := fun j => match j with | .arr a => a.toList.mapM d | _ => none
def encDict {κ ν} (ek : Enc κ) (ev : Enc ν) : Enc (List (κ × ν)) :=
  fun l => Json.mkObj [("d", Json.arr (l.toArray.map (fun p => Json.arr #[ek p.1, ev p.2])))]
def decDict {κ ν} (dk : Dec κ) (dv : Dec ν) : Dec (List (κ × ν)) := fun j =>
  match j.getObjVal? "d" with
  | .ok (.arr a) => a.toList.mapM (fun p => match p with
      | .arr #[k, v] => do let k ← dk k; let v ← dv v; pure (k, v)
      | _ => none)
  | _ => none
def tup (items : List Json) : Json := Json.mkObj [("t", Json.arr items.toArray)]
def untup (j : Json) : Option (List Json) :=
  match j.getObjVal? "t" with
  | .ok (.arr a) => some a.toList
  | _ => none
def encT2 {α β} (a : Enc α) (b : Enc β) : Enc (α × β) := fun p => tup [a p.1, b p.2]
def decT2 {α β} (a : Dec α) (b : Dec β) : Dec (α × β) := fun j =>
  match untup j with | some [x, y] => do pure ((← a x), (← b y)) | _ => none
def encT3 {α β γ} (a : Enc α) (b : Enc β) (c : Enc γ) : Enc (α × β × γ) := fun p => tup [a p.1, b p.2.1, c p.2.2]
def decT3 {α β γ} (a : Dec α) (b : Dec β) (c : Dec γ) : Dec (α × β × γ) := fun j =>
  match untup j with | some [x, y, z] => do pure ((← a x), (← b y), (← c z)) | _ => none
def encT4 {α β γ δ} (a : Enc α) (b : Enc β) (c : Enc γ) (d : Enc δ) : Enc (α × β × γ × δ) :=
  fun p => tup [a p.1, b p.2.1, c p.2.2.1, d p.2.2.2]
def decT4 {α β γ δ} (a : Dec α) (b : Dec β) (c : Dec γ) (d : Dec δ) : Dec (α × β × γ × δ) := fun j =>
  match untup j with | some [x, y, z, w] => do pure ((← a x), (← b y), (← c z), (← d w)) | _ => none

def respondWith {α} (e : Enc α) (r : R α) : String :=
  match r with
  | .ok v => "ok " ++ (e v).compress
  | .error x => "err " ++ excName x
end Py.Wire
