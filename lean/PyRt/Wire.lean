import Lean.Data.Json
import PyRt.Basic
/-!
# PyRt.Wire — line protocol between the Python harness and the Lean model driver

Request line:  `<target>\t<json array of arguments>`
Response line: `ok <json>` | `err <Class>` | `nofunc` | `badargs`

JSON encoding of Python values (both directions):
* str       → `{"s":[code points]}`
* int       → number
* bool      → `true` / `false`
* None      → `null`
* list      → `[ ... ]`
* tuple     → `{"t":[ ... ]}`
* dict      → `{"d":[[k,v], ...]}`   (insertion order)
* date      → `{"date":[y,m,d]}`
* datetime  → `{"dt":[y,m,d,H,M,S]}`
* Decimal   → `{"dec":{"s":[code points of str(value)]}}`

Error classes: the five ValidationError classes by name, everything else `NonValidation`.
Used only by the executable driver; nothing here is used in theorems.
-/
open Lean (Json)
namespace Py.Wire

def excName : Exc → String
  | .invalidFormat => "InvalidFormat"
  | .invalidLength => "InvalidLength"
  | .invalidChecksum => "InvalidChecksum"
  | .invalidComponent => "InvalidComponent"
  | .validationError => "ValidationError"
  | _ => "NonValidation"

class ToWire (α : Type) where
  toWire : α → Json
class FromWire (α : Type) where
  fromWire : Json → Option α
export ToWire (toWire)
export FromWire (fromWire)

def strToWire (s : Str) : Json := Json.mkObj [("s", Json.arr (s.toArray.map (fun c => Json.num (Lean.JsonNumber.fromNat c))))]

def natOfJson (j : Json) : Option Nat :=
  match j with
  | .num n => if n.exponent == 0 && n.mantissa ≥ 0 then some n.mantissa.toNat else none
  | _ => none
def intOfJson (j : Json) : Option Int :=
  match j with
  | .num n => if n.exponent == 0 then some n.mantissa else none
  | _ => none

def strOfJson (j : Json) : Option Str :=
  match j.getObjVal? "s" with
  | .ok (.arr a) => a.toList.mapM natOfJson
  | _ => none

instance : ToWire Str := ⟨strToWire⟩
instance : FromWire Str := ⟨strOfJson⟩
instance : ToWire Int := ⟨fun n => Json.num (Lean.JsonNumber.fromInt n)⟩
instance : FromWire Int := ⟨intOfJson⟩
instance : ToWire Nat := ⟨fun n => Json.num (Lean.JsonNumber.fromNat n)⟩
instance : FromWire Nat := ⟨natOfJson⟩
instance : ToWire Bool := ⟨Json.bool⟩
instance : FromWire Bool := ⟨fun j => match j with | .bool b => some b | _ => none⟩
instance : ToWire Unit := ⟨fun _ => Json.null⟩
instance : FromWire Unit := ⟨fun j => match j with | .null => some () | _ => none⟩
instance {α} [ToWire α] : ToWire (Option α) := ⟨fun o => match o with | none => Json.null | some a => toWire a⟩
instance {α} [FromWire α] : FromWire (Option α) :=
  ⟨fun j => match j with | .null => some none | j => (fromWire j : Option α).map some⟩
instance {α} [ToWire α] : ToWire (List α) := ⟨fun l => Json.arr (l.toArray.map toWire)⟩
instance {α} [FromWire α] : FromWire (List α) :=
  ⟨fun j => match j with | .arr a => a.toList.mapM fromWire | _ => none⟩

/-- tuples are flattened: `(a, b, c)` is `a × b × c` = `a × (b × c)` -/
class TupleWire (α : Type) where
  items : α → List Json
  parse : List Json → Option α
instance (priority := low) {α} [ToWire α] [FromWire α] : TupleWire α :=
  ⟨fun a => [toWire a], fun l => match l with | [j] => fromWire j | _ => none⟩
instance {α β} [ToWire α] [FromWire α] [TupleWire β] : TupleWire (α × β) :=
  ⟨fun p => toWire p.1 :: TupleWire.items p.2,
   fun l => match l with
     | j :: rest => do let a ← fromWire j; let b ← TupleWire.parse rest; pure (a, b)
     | [] => none⟩
instance {α β} [ToWire α] [FromWire α] [TupleWire β] : ToWire (α × β) :=
  ⟨fun p => Json.mkObj [("t", Json.arr (TupleWire.items p).toArray)]⟩
instance {α β} [ToWire α] [FromWire α] [TupleWire β] : FromWire (α × β) :=
  ⟨fun j => match j.getObjVal? "t" with
     | .ok (.arr a) => TupleWire.parse a.toList
     | _ => none⟩

def respond {α} [ToWire α] (r : R α) : String :=
  match r with
  | .ok v => "ok " ++ (toWire v).compress
  | .error e => "err " ++ excName e

/-- split a request line into target and argument array -/
def parseLine (line : String) : Option (String × List Json) :=
  let line := String.ofList (line.toList.reverse.dropWhile (fun c => c == '\n' || c == '\r')).reverse
  match line.splitOn "\t" with
  | [target, js] =>
    match Json.parse js with
    | .ok (.arr a) => some (target, a.toList)
    | _ => none
  | _ => none

end Py.Wire
