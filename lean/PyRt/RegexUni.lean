import PyRt.Basic
/-!
# PyRt.RegexUni — the Unicode facts the regular-expression engine depends on

`sre` (CPython's regex engine) consults the Unicode database for four things only:
* `\d`  = `Py_UNICODE_ISDECIMAL`  (= `str.isdecimal` of the one-character string, category Nd),
* `\w`  = `Py_UNICODE_ISALNUM || ch == '_'` (= `str.isalnum`),
* `\s`  = `Py_UNICODE_ISSPACE` (= `str.isspace`),
* IGNORECASE: `sre_lower_unicode` / `sre_upper_unicode` (the *first* code point of the lower/upper
  mapping, which is what `_sre.unicode_tolower` returns) plus the table `re._casefix._EXTRA_CASES`.

They are collected in the structure `UniTables`; the semantics in `PyRt.Regex` takes it as an
instance-implicit parameter.  `UniTables.ascii` is the ASCII-only instance (useful in tests),
`UniTables.py312` (generated, `PyRt/RegexUniData.lean`) is the oracle dumped from the running
interpreter.  Both agree with the arithmetic ASCII predicates of `PyRt.Basic` below 128 *by definition*.
-/
namespace Py.Re

class UniTables where
  /-- `chr(c).isdecimal()` -/
  isDecimal : Nat → Bool
  /-- `chr(c).isalnum()` -/
  isAlnum : Nat → Bool
  /-- `chr(c).isspace()` -/
  isSpace : Nat → Bool
  /-- `_sre.unicode_tolower(c)` -/
  lower : Nat → Nat
  /-- `sre_upper_unicode(c)` = first code point of `chr(c).upper()` -/
  upper : Nat → Nat
  /-- `re._casefix._EXTRA_CASES.get(c, ())` -/
  extraCases : Nat → List Nat

/-- ASCII white space as `sre` sees it under `re.ASCII`: `" \t\n\r\f\v"` -/
@[simp] def isAsciiSpace (c : Nat) : Bool := (decide (9 ≤ c) && decide (c ≤ 13)) || c == 32

/-- `_sre.ascii_tolower` -/
@[simp] def asciiLower (c : Nat) : Nat := if isAsciiUpper c then c + 32 else c
/-- ASCII upper-casing -/
@[simp] def asciiUpper (c : Nat) : Nat := if isAsciiLower c then c - 32 else c

/-! ## range tables -/

/-- membership in a sorted list of inclusive ranges (linear scan with early exit) -/
def inRanges : List (Nat × Nat) → Nat → Bool
  | [], _ => false
  | (lo, hi) :: rest, c => if c < lo then false else if c ≤ hi then true else inRanges rest c

/-- a case-mapping table: sorted entries `(lo, hi, step, delta)`; every `c` with `lo ≤ c ≤ hi` and
`(c - lo) % step = 0` maps to `c + delta` -/
def mapDelta : List (Nat × Nat × Nat × Int) → Nat → Nat
  | [], c => c
  | (lo, hi, step, d) :: rest, c =>
    if c < lo then c
    else if c ≤ hi then (if (c - lo) % step = 0 then ((c : Int) + d).toNat else c)
    else mapDelta rest c

def lookupList : List (Nat × List Nat) → Nat → List Nat
  | [], _ => []
  | (k, v) :: rest, c => if c = k then v else lookupList rest c

/-- ASCII-only tables: nothing above 127 is a digit/letter/space or has case. -/
@[instance_reducible] def UniTables.ascii : UniTables where
  isDecimal := isAsciiDigit
  isAlnum := isAsciiAlnum
  isSpace := fun c => isAsciiSpace c || (decide (28 ≤ c) && decide (c ≤ 31))
  lower := asciiLower
  upper := asciiUpper
  extraCases := fun _ => []

end Py.Re
