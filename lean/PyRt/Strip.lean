import PyRt.Basic
import PyRt.Unicode
/-!
# PyRt.Strip — `str.strip / lstrip / rstrip`, without and with a `chars` argument

Without argument the characters removed are exactly those with `str.isspace()`
(`Py.Uni.isSpace`: `\t \n \x0b \x0c \r \x1c–\x1f ␠ \x85 \xa0 U+1680 U+2000–200A U+2028 U+2029
U+202F U+205F U+3000`).  NB `int()` uses a smaller set, see `PyRt.Int`.
-/
namespace Py

/-- remove the longest prefix of characters satisfying `p` -/
def lstripBy (p : Nat → Bool) (s : Str) : Str := s.dropWhile p
/-- remove the longest suffix of characters satisfying `p` -/
def rstripBy (p : Nat → Bool) (s : Str) : Str := (s.reverse.dropWhile p).reverse
/-- remove both -/
def stripBy (p : Nat → Bool) (s : Str) : Str := rstripBy p (lstripBy p s)

/-- `s.lstrip()` -/
def lstrip (s : Str) : Str := lstripBy Uni.isSpace s
/-- `s.rstrip()` -/
def rstrip (s : Str) : Str := rstripBy Uni.isSpace s
/-- `s.strip()` -/
def strip (s : Str) : Str := stripBy Uni.isSpace s

/-- `s.lstrip(chars)` (argument order as in Python: the string first) -/
def lstripChars (s chars : Str) : Str := lstripBy (fun c => chars.contains c) s
/-- `s.rstrip(chars)` -/
def rstripChars (s chars : Str) : Str := rstripBy (fun c => chars.contains c) s
/-- `s.strip(chars)` -/
def stripChars (s chars : Str) : Str := stripBy (fun c => chars.contains c) s

/-- `s` is a fixed point of `strip()` -/
def Stripped (s : Str) : Prop := s = strip s

instance (s : Str) : Decidable (Stripped s) := inferInstanceAs (Decidable (s = strip s))

end Py
