import PyRt.Basic
import PyRt.RegexUni
/-!
# PyRt.Regex — semantics of Python's `re` (CPython 3.12 `sre`) for `str` patterns

The pattern is parsed by CPython's own parser at translation time (`tools/py2lean/regex_ser.py`
serialises `re._parser.parse(pattern, flags)` as a term of type `Pattern`); this file gives the
*matching* semantics.

`ends s fl r st` is the list of ALL matcher states (position, capture table) reachable by matching `r`
in subject `s` starting from state `st`, **in backtracking priority order**: `re.match` is the head of
that list, `re.fullmatch` the first element that ends at `len(s)`, and so on.  It is defined by
structural recursion on the regex; repetition uses the helper `repLoop`, which mirrors `sre`'s
`MAX_UNTIL`/`MIN_UNTIL` state machine including its treatment of empty iterations:

* while fewer than `min` iterations have been done another iteration is mandatory (no emptiness check);
* afterwards another iteration is attempted only if the maximum is not reached and the current
  position differs from the position at which the previous (optional) iteration started
  (`last_ptr`), i.e. ONE empty iteration is performed and then the loop stops:
  `re.match('(a*)*', 'aa').span(1) == (2, 2)`, `re.match('(a|)*', 'b').groups() == ('',)`.

Group `i` lives in slot `i` of the capture table (slot 0 is unused while matching).

API (all take the tables `[UniTables]` instance-implicitly; `PyRt.RegexUniData` provides the default
instance `UniTables.py312`):
`match_ p s`, `search p s`, `fullmatch p s : Option Match`; `finditer p s : List Match`;
`findall p s : List (List Str)` / `findallStr`; `subWith p f s count`, `subT p template s count : Str`,
`sub p repl s count : R Str` (parses the template string); `split p s maxsplit : List (Option Str)`;
`Match.group i`, `Match.groupNamed name : Option Str`, `Match.groups`, `Match.groupdict`, `Match.span i`,
`Match.start`, `Match.stop`/`Match.end_`, and the monadic `groupR`/`groupNamedR`/`groupsD`/`groupdictD`.

Not modelled (the serialiser raises `Unsupported`): look-behind, conditional groups, atomic groups,
possessive quantifiers, LOCALE, `bytes` patterns, the `pos`/`endpos` arguments.

Known divergences from CPython: none observed in the differential test (tools/corr/regex.py).
Deliberate simplifications:
* `Match.group i` returns `none` for a non-existent group (CPython: `IndexError`; `groupR` raises it);
* `sub` reports every malformed template as `Exc.other` (CPython: `re.error`, or `IndexError` for an
  unknown group name);
* `ends` enumerates ALL backtracking paths eagerly.  This is polynomial for the library's patterns
  (`.*`, `[0-9]+` …) but exponential for nested loops whose bodies can match the empty string
  (`(a*|b?)*…`), where CPython is only exponential on failing subjects; and a character set containing
  a huge range is scanned linearly under IGNORECASE (as `_optimize_charset` does at compile time).
-/
namespace Py.Re

/-- the flags that influence matching (`re.UNICODE` is `!ascii`; VERBOSE only affects parsing) -/
structure Flags where
  ignorecase : Bool := false
  multiline : Bool := false
  dotall : Bool := false
  ascii : Bool := false
deriving DecidableEq, Repr, Inhabited

/-- `\d \D \s \S \w \W` -/
inductive Cat where
  | digit | notDigit | space | notSpace | word | notWord
deriving DecidableEq, Repr, Inhabited

/-- members of a `[...]` set -/
inductive ClassItem where
  | chr (c : Nat)
  | range (lo hi : Nat)
  | cat (k : Cat)
deriving DecidableEq, Repr, Inhabited

/-- zero-width position tests: `^  $  \A  \Z  \b  \B` -/
inductive Anchor where
  | bol | eol | bos | eos | wordB | notWordB
deriving DecidableEq, Repr, Inhabited

/-- the regex AST (image of CPython's parse tree) -/
inductive Regex where
  /-- matches the empty string (empty alternative, empty group) -/
  | empty
  /-- never matches (`(?!)`) -/
  | fail
  /-- `LITERAL c` -/
  | lit (c : Nat)
  /-- `NOT_LITERAL c` (`[^c]`) -/
  | notLit (c : Nat)
  /-- `.` -/
  | any
  /-- `[...]` / `[^...]`, also `\d` etc. outside a set -/
  | cls (neg : Bool) (items : List ClassItem)
  | seq (a b : Regex)
  /-- `a|b` (left alternative has priority) -/
  | alt (a b : Regex)
  /-- `r{min,max}` (`max = none`: unbounded), greedy or lazy -/
  | rep (greedy : Bool) (min : Nat) (max : Option Nat) (r : Regex)
  /-- capturing group number `idx ≥ 1` -/
  | group (idx : Nat) (r : Regex)
  /-- `(?flags-flags:r)`: `r` is matched under the (already combined) flag set `fl` -/
  | withFlags (fl : Flags) (r : Regex)
  | anchor (k : Anchor)
  /-- `\idx` -/
  | backref (idx : Nat)
  /-- look-ahead `(?=r)` (`neg = false`) / `(?!r)` (`neg = true`) -/
  | look (neg : Bool) (r : Regex)
deriving DecidableEq, Repr, Inhabited

/-- a compiled pattern: AST, global flags, number of groups, `groupindex` -/
structure Pattern where
  re : Regex
  flags : Flags := {}
  ngroups : Nat := 0
  names : List (Str × Nat) := []
deriving DecidableEq, Repr, Inhabited

/-- matcher state: current index into the subject and the capture table -/
structure MState where
  pos : Nat
  caps : List (Option (Nat × Nat))
deriving DecidableEq, Repr, Inhabited

/-! ## single characters -/
section chars
variable [T : UniTables]

/-- `sre_lower_unicode` / `sre_lower_ascii` -/
def foldLower (fl : Flags) (c : Nat) : Nat := if fl.ascii then asciiLower c else T.lower c

/-- `_sre.unicode_iscased` / `_sre.ascii_iscased` -/
def isCased (fl : Flags) (c : Nat) : Bool :=
  if fl.ascii then isAsciiAlpha c else (c != T.lower c || c != T.upper c)

/-- `re._casefix._EXTRA_CASES` (unicode mode only) -/
def caseFixes (fl : Flags) (lo : Nat) : List Nat := if fl.ascii then [] else T.extraCases lo

/-- `\w` -/
def isWordChar (fl : Flags) (c : Nat) : Bool :=
  (if fl.ascii then isAsciiAlnum c else T.isAlnum c) || c == 95

def catMatch (fl : Flags) : Cat → Nat → Bool
  | .digit, c => if fl.ascii then isAsciiDigit c else T.isDecimal c
  | .notDigit, c => !(if fl.ascii then isAsciiDigit c else T.isDecimal c)
  | .space, c => if fl.ascii then isAsciiSpace c else T.isSpace c
  | .notSpace, c => !(if fl.ascii then isAsciiSpace c else T.isSpace c)
  | .word, c => isWordChar fl c
  | .notWord, c => !(isWordChar fl c)

/-- `LITERAL a` against subject character `ch` (ops `LITERAL`, `LITERAL_IGNORE`,
`LITERAL_UNI_IGNORE`, or the `IN_UNI_IGNORE` set built from `_EXTRA_CASES`) -/
def litMatch (fl : Flags) (a ch : Nat) : Bool :=
  if fl.ignorecase && isCased fl a then
    let lo := foldLower fl a
    let l := foldLower fl ch
    l == lo || (caseFixes fl lo).contains l
  else ch == a

/-- the code points `lo, lo+1, …, hi` -/
def rangeNats (lo hi : Nat) : List Nat := List.range' lo (hi + 1 - lo)

/-- does the compiler (`_optimize_charset`) consider the set item "cased" (→ `IN_IGNORE`/`IN_UNI_IGNORE`) -/
def itemCased (fl : Flags) : ClassItem → Bool
  | .chr a => isCased fl a || decide (0x10000 ≤ foldLower fl a)
  | .range a b => decide (0x10000 ≤ b) || (rangeNats a (min b 0xFFFF)).any (isCased fl)
  | .cat _ => false

/-- plain set membership -/
def itemMatch (fl : Flags) (ch : Nat) : ClassItem → Bool
  | .chr a => ch == a
  | .range a b => decide (a ≤ ch) && decide (ch ≤ b)
  | .cat k => catMatch fl k ch

/-- set membership of the *lower-cased* subject character `l` in a set compiled for IGNORECASE:
BMP members are entered lower-cased (plus their `_EXTRA_CASES`) into the character map; a literal whose
lower case is outside the BMP stays as it is; a range reaching outside the BMP becomes
`RANGE_UNI_IGNORE` (tests `l` and `upper(l)`); categories are tested on `l`. -/
def itemMatchFold (fl : Flags) (l : Nat) : ClassItem → Bool
  | .chr a =>
    let lo := foldLower fl a
    if lo < 0x10000 then l == lo || (caseFixes fl lo).contains l else l == a
  | .range a b =>
    (decide (0x10000 ≤ b) &&
        ((decide (a ≤ l) && decide (l ≤ b)) || (decide (a ≤ T.upper l) && decide (T.upper l ≤ b))))
    || (rangeNats a (min b 0xFFFF)).any (fun i =>
      let lo := foldLower fl i
      l == lo || (caseFixes fl lo).contains l)
  | .cat k => catMatch fl k l

/-- `IN` -/
def classMatch (fl : Flags) (neg : Bool) (items : List ClassItem) (ch : Nat) : Bool :=
  (if fl.ignorecase && items.any (itemCased fl)
   then items.any (itemMatchFold fl (foldLower fl ch))
   else items.any (itemMatch fl ch)) != neg

/-- `.` -/
def anyMatch (fl : Flags) (ch : Nat) : Bool := fl.dotall || ch != 10

/-- zero-width tests (`SRE(at)`); `\b`/`\B` never match in an empty subject (3.12 behaviour) -/
def anchorMatch (fl : Flags) (s : Str) (pos : Nat) : Anchor → Bool
  | .bos => pos == 0
  | .bol => pos == 0 || (fl.multiline && pos ≠ 0 && s[pos - 1]? == some 10)
  | .eos => pos == s.length
  | .eol =>
    if fl.multiline then pos == s.length || s[pos]? == some 10
    else pos == s.length || (pos + 1 == s.length && s[pos]? == some 10)
  | .wordB =>
    !s.isEmpty &&
      ((pos ≠ 0 && (s[pos - 1]?.map (isWordChar fl)).getD false) != (s[pos]?.map (isWordChar fl)).getD false)
  | .notWordB =>
    !s.isEmpty &&
      ((pos ≠ 0 && (s[pos - 1]?.map (isWordChar fl)).getD false) == (s[pos]?.map (isWordChar fl)).getD false)

/-- equality of two characters for a back-reference (`GROUPREF`, `GROUPREF_IGNORE`, `GROUPREF_UNI_IGNORE`) -/
def refCharEq (fl : Flags) (a b : Nat) : Bool :=
  if fl.ignorecase then foldLower fl a == foldLower fl b else a == b

end chars

/-! ## the matcher -/

/-- one-character step -/
def stepChar (s : Str) (p : Nat → Bool) (st : MState) : List MState :=
  match s[st.pos]? with
  | some ch => if p ch then [{ st with pos := st.pos + 1 }] else []
  | none => []

/-- fewer than the maximal number of iterations done -/
def underMax (mx : Option Nat) (count : Nat) : Bool :=
  match mx with
  | none => true
  | some m => decide (count < m)

/-- `sre`'s `REPEAT … MAX_UNTIL/MIN_UNTIL` loop.  `count` = iterations done, `last` = position at which
the previous optional iteration started (`last_ptr`), `step` = the body.  `fuel` bounds the recursion;
`min + remaining length + 2` is always enough. -/
def repLoop (greedy : Bool) (mn : Nat) (mx : Option Nat) (step : MState → List MState) :
    Nat → Nat → Option Nat → MState → List MState
  | 0, _, _, _ => []
  | fuel + 1, count, last, st =>
    if count < mn then
      (step st).flatMap (repLoop greedy mn mx step fuel (count + 1) none)
    else
      let more :=
        if underMax mx count && last != some st.pos then
          (step st).flatMap (repLoop greedy mn mx step fuel (count + 1) (some st.pos))
        else []
      if greedy then more ++ [st] else st :: more

/-- text of the subject between two indices -/
def slice (s : Str) (a b : Nat) : Str := (s.drop a).take (b - a)

section matcher
variable [T : UniTables]

/-- all states reachable by matching `r` at `st`, in backtracking priority order -/
def ends (s : Str) : Flags → Regex → MState → List MState
  | _, .empty, st => [st]
  | _, .fail, _ => []
  | fl, .lit c, st => stepChar s (litMatch fl c) st
  | fl, .notLit c, st => stepChar s (fun ch => !litMatch fl c ch) st
  | fl, .any, st => stepChar s (anyMatch fl) st
  | fl, .cls neg items, st => stepChar s (classMatch fl neg items) st
  | fl, .seq a b, st => (ends s fl a st).flatMap (ends s fl b)
  | fl, .alt a b, st => ends s fl a st ++ ends s fl b st
  | fl, .rep greedy mn mx r, st =>
    repLoop greedy mn mx (ends s fl r) (mn + (s.length - st.pos) + 2) 0 none st
  | fl, .group i r, st =>
    (ends s fl r st).map (fun st' => { st' with caps := st'.caps.set i (some (st.pos, st'.pos)) })
  | _, .withFlags fl' r, st => ends s fl' r st
  | fl, .anchor k, st => if anchorMatch fl s st.pos k then [st] else []
  | fl, .backref i, st =>
    match st.caps[i]? with
    | some (some (a, b)) =>
      let n := b - a
      let want := slice s a b
      let have_ := slice s st.pos (st.pos + n)
      if a ≤ b && want.length == n && have_.length == n &&
          (want.zip have_).all (fun p => refCharEq fl p.2 p.1) then
        [{ st with pos := st.pos + n }]
      else []
    | _ => []
  | fl, .look neg r, st =>
    match ends s fl r st with
    | [] => if neg then [st] else []
    | st' :: _ => if neg then [] else [{ st with caps := st'.caps }]

/-! ## match objects and the module-level functions -/

/-- a match object -/
structure Match where
  subj : Str
  start : Nat
  stop : Nat
  /-- slot `i ≥ 1`: span of group `i` -/
  caps : List (Option (Nat × Nat))
  names : List (Str × Nat)
deriving DecidableEq, Repr, Inhabited

/-- `m.span(i)`; `none` = group did not participate (Python: `(-1, -1)`) or no such group -/
def Match.span (m : Match) : Nat → Option (Nat × Nat)
  | 0 => some (m.start, m.stop)
  | i + 1 => (m.caps[i + 1]?).join

/-- `m.group(i)`: `none` = `None` (also for a non-existent group, where Python raises `IndexError`) -/
def Match.group (m : Match) (i : Nat) : Option Str :=
  (m.span i).map (fun ab => slice m.subj ab.1 ab.2)

/-- `m.group(0)` -/
def Match.group0 (m : Match) : Str := slice m.subj m.start m.stop

/-- number of a named group -/
def Match.index (m : Match) (name : Str) : Option Nat :=
  (m.names.find? (fun p => p.1 == name)).map (·.2)

/-- `m.group('name')` -/
def Match.groupNamed (m : Match) (name : Str) : Option Str :=
  (m.index name).bind m.group

/-- `m.groups()` (unmatched = `none`) -/
def Match.groups (m : Match) : List (Option Str) :=
  (List.range (m.caps.length - 1)).map (fun i => m.group (i + 1))

/-- `m.groupdict()` -/
def Match.groupdict (m : Match) : List (Str × Option Str) :=
  m.names.map (fun p => (p.1, m.group p.2))

/-- `m.end()` -/
abbrev Match.end_ (m : Match) : Nat := m.stop

def MState.init (p : Pattern) (pos : Nat) : MState := ⟨pos, List.replicate (p.ngroups + 1) none⟩

/-- all ways the pattern can match starting at `start`, best first -/
def runAt (p : Pattern) (s : Str) (start : Nat) : List MState :=
  ends s p.flags p.re (MState.init p start)

def mkMatch (p : Pattern) (s : Str) (start : Nat) (st : MState) : Match :=
  { subj := s, start := start, stop := st.pos, caps := st.caps, names := p.names }

/-- the match starting exactly at `start` -/
def matchAt (p : Pattern) (s : Str) (start : Nat) : Option Match :=
  (runAt p s start).head?.map (mkMatch p s start)

/-- `re.match(p, s)` -/
def match_ (p : Pattern) (s : Str) : Option Match := matchAt p s 0

/-- `re.fullmatch(p, s)`: the first way to match that ends at the end of the subject -/
def fullmatch (p : Pattern) (s : Str) : Option Match :=
  ((runAt p s 0).find? (fun st => st.pos == s.length)).map (mkMatch p s 0)

/-- try `pos, pos+1, …` (at most `fuel` positions) -/
def scan (p : Pattern) (s : Str) : Nat → Nat → Option Match
  | 0, _ => none
  | fuel + 1, pos =>
    match matchAt p s pos with
    | some m => some m
    | none => scan p s fuel (pos + 1)

/-- `sre_search` from `start`; with `mustAdvance` an empty match at `start` itself is rejected
(the matcher then backtracks into a non-empty one, or the scan moves on) -/
def searchFrom (p : Pattern) (s : Str) (mustAdvance : Bool) (start : Nat) : Option Match :=
  let first :=
    if mustAdvance then (runAt p s start).find? (fun st => st.pos != start)
    else (runAt p s start).head?
  match first with
  | some st => some (mkMatch p s start st)
  | none => scan p s (s.length - start) (start + 1)

/-- `re.search(p, s)` -/
def search (p : Pattern) (s : Str) : Option Match := searchFrom p s false 0

/-- the successive matches found by `findall`/`finditer`/`sub`/`split` -/
def iterFrom (p : Pattern) (s : Str) : Nat → Nat → Bool → List Match
  | 0, _, _ => []
  | fuel + 1, start, adv =>
    if start > s.length then []
    else match searchFrom p s adv start with
      | none => []
      | some m => m :: iterFrom p s fuel m.stop (m.stop == m.start)

/-- `list(re.finditer(p, s))` -/
def finditer (p : Pattern) (s : Str) : List Match := iterFrom p s (2 * s.length + 3) 0 false

/-- `re.findall(p, s)`; each element is `[whole match]` for a pattern without groups, else the list of
all groups (`''` for groups that did not participate).  Python returns the bare string when there
are 0 or 1 groups: use `findallStr` for that. -/
def findall (p : Pattern) (s : Str) : List (List Str) :=
  (finditer p s).map (fun m =>
    if p.ngroups = 0 then [m.group0]
    else (List.range p.ngroups).map (fun i => (m.group (i + 1)).getD []))

/-- `re.findall` for patterns with at most one group -/
def findallStr (p : Pattern) (s : Str) : List Str := (findall p s).map (fun l => l.headD [])

/-- glue the pieces for `sub` -/
def subGo (s : Str) (f : Match → Str) : List Match → Nat → Str
  | [], i => s.drop i
  | m :: ms, i => slice s i m.start ++ f m ++ subGo s f ms m.stop

/-- `re.sub(p, f, s, count)` with a callable replacement -/
def subWith (p : Pattern) (f : Match → Str) (s : Str) (count : Nat := 0) : Str :=
  let ms := finditer p s
  subGo s f (if count = 0 then ms else ms.take count) 0

/-- `re.subn` (number of replacements) -/
def subnCount (p : Pattern) (s : Str) (count : Nat := 0) : Nat :=
  let ms := finditer p s
  (if count = 0 then ms else ms.take count).length

/-- parsed replacement template -/
inductive TItem where
  | lit (s : Str)
  | grp (i : Nat)
deriving DecidableEq, Repr, Inhabited

abbrev Template := List TItem

/-- `match.expand(template)`; groups that did not participate give `''` -/
def Template.expand (t : Template) (m : Match) : Str :=
  t.flatMap (fun
    | .lit s => s
    | .grp i => (m.group i).getD [])

/-- `re.sub(p, template, s, count)` with an already parsed template -/
def subT (p : Pattern) (t : Template) (s : Str) (count : Nat := 0) : Str :=
  subWith p t.expand s count

/-- `re.split(p, s, maxsplit)`: pieces interleaved with the groups of each separator match -/
def splitGo (p : Pattern) (s : Str) : List Match → Nat → List (Option Str)
  | [], last => [some (s.drop last)]
  | m :: ms, last =>
    some (slice s last m.start) :: ((List.range p.ngroups).map (fun i => m.group (i + 1))
      ++ splitGo p s ms m.stop)

def split (p : Pattern) (s : Str) (maxsplit : Nat := 0) : List (Option Str) :=
  let ms := finditer p s
  splitGo p s (if maxsplit = 0 then ms else ms.take maxsplit) 0

end matcher

/-! ## replacement templates (`re._parser.parse_template`) -/

def octVal (ds : List Nat) : Nat := ds.foldl (fun acc d => acc * 8 + (d - 48)) 0
def decVal (ds : List Nat) : Nat := ds.foldl (fun acc d => acc * 10 + (d - 48)) 0
@[simp] def isOctDigit (c : Nat) : Bool := decide (48 ≤ c) && decide (c ≤ 55)

/-- the one-letter escapes known to templates: `\a \b \f \n \r \t \v \\` -/
def templateEscape (c : Nat) : Option Nat :=
  if c = 97 then some 7 else if c = 98 then some 8 else if c = 102 then some 12
  else if c = 110 then some 10 else if c = 114 then some 13 else if c = 116 then some 9
  else if c = 118 then some 11 else if c = 92 then some 92 else none

/-- push a literal character on the item list under construction (kept reversed) -/
def tPush (acc : List TItem) (c : List Nat) : List TItem :=
  match acc with
  | .lit s :: rest => .lit (s ++ c) :: rest
  | _ => .lit c :: acc

/-- `parse_template`; `none` = `re.error` / `IndexError` (bad escape, bad group reference) -/
def parseTemplateAux (p : Pattern) : Nat → Str → List TItem → Option Template
  | 0, _, _ => none
  | _ + 1, [], acc => some acc.reverse
  | fuel + 1, 92 :: rest, acc =>
    match rest with
    | [] => none
    | 103 :: rest' =>            -- \g<...>
      match rest' with
      | 60 :: body =>
        let name := body.takeWhile (· != 62)
        let after := body.dropWhile (· != 62)
        match after with
        | [] => none
        | _ :: tail =>
          if name.isEmpty then none
          else if name.all isAsciiDigit then
            let i := decVal name
            if i ≤ p.ngroups then parseTemplateAux p fuel tail (.grp i :: acc) else none
          else
            match p.names.find? (fun q => q.1 == name) with
            | some q => parseTemplateAux p fuel tail (.grp q.2 :: acc)
            | none => none
      | _ => none
    | 48 :: rest' =>             -- \0, \0o, \0oo
      let ds := (rest'.take 2).takeWhile isOctDigit
      parseTemplateAux p fuel (rest'.drop ds.length) (tPush acc [octVal ds % 256])
    | c :: rest' =>
      if isAsciiDigit c then
        match rest' with
        | d :: rest'' =>
          if isAsciiDigit d then
            match rest'' with
            | e :: rest''' =>
              if isOctDigit c && isOctDigit d && isOctDigit e then
                let v := octVal [c, d, e]
                if v > 255 then none else parseTemplateAux p fuel rest''' (tPush acc [v])
              else
                let i := decVal [c, d]
                if i ≤ p.ngroups then parseTemplateAux p fuel rest'' (.grp i :: acc) else none
            | [] =>
              let i := decVal [c, d]
              if i ≤ p.ngroups then parseTemplateAux p fuel rest'' (.grp i :: acc) else none
          else
            let i := decVal [c]
            if i ≤ p.ngroups then parseTemplateAux p fuel rest' (.grp i :: acc) else none
        | [] =>
          let i := decVal [c]
          if i ≤ p.ngroups then parseTemplateAux p fuel rest' (.grp i :: acc) else none
      else
        match templateEscape c with
        | some v => parseTemplateAux p fuel rest' (tPush acc [v])
        | none => if isAsciiAlpha c then none else parseTemplateAux p fuel rest' (tPush acc [92, c])
  | fuel + 1, c :: rest, acc => parseTemplateAux p fuel rest (tPush acc [c])

/-- parse a replacement string (`\1`, `\g<name>`, `\g<1>`, `\n`, octal escapes …) -/
def parseTemplate (p : Pattern) (repl : Str) : Option Template :=
  parseTemplateAux p (repl.length + 1) repl []

/-- `re.sub(p, repl, s, count)` with a replacement *string*; a malformed template (bad escape, bad group
reference, unknown group name) raises — CPython: `re.error`/`IndexError`, here `Exc.other` -/
def sub [UniTables] (p : Pattern) (repl : Str) (s : Str) (count : Nat := 0) : R Str :=
  match parseTemplate p repl with
  | some t => pure (subT p t s count)
  | none => raise .other

/-! ## the two patterns behind `stdnum.util.isdigits` -/

/-- `re.compile(r'^[0-9]+$')` — what `regex_ser.regex_to_lean('^[0-9]+$', 0)` produces -/
def digitsDollar : Pattern :=
  { re := .seq (.anchor .bol) (.seq (.rep true 1 none (.cls false [.range 48 57])) (.anchor .eol)) }

/-- `re.compile(r'^[0-9]+\Z')` -/
def digitsZ : Pattern :=
  { re := .seq (.anchor .bol) (.seq (.rep true 1 none (.cls false [.range 48 57])) (.anchor .eos)) }

/-- names under which the translator's interim stub referred to the two patterns -/
abbrev Regex.digitsDollar : Pattern := Py.Re.digitsDollar
abbrev Regex.digitsZ : Pattern := Py.Re.digitsZ

/-! ## monadic accessors for translated code

`m.group(i)` is `None` for a group that did not participate.  Translated code that uses the result as
a string gets an exception instead (`TypeError`, which is what most string operations on `None`
raise); a non-existent group raises `IndexError` like CPython. -/

/-- `m.group(i)` used as a `str` -/
def Match.groupR (m : Match) (i : Nat) : R Str :=
  if i < m.caps.length then
    match m.group i with
    | some t => pure t
    | none => raise .typeError
  else raise .indexError

/-- `m.group('name')` used as a `str` -/
def Match.groupNamedR (m : Match) (name : Str) : R Str :=
  match m.index name with
  | some i => m.groupR i
  | none => raise .indexError

/-- `m.groups('')`: all groups, `''` for those that did not participate -/
def Match.groupsD (m : Match) : List Str := m.groups.map (·.getD [])

/-- `m.groupdict('')` -/
def Match.groupdictD (m : Match) : List (Str × Str) := m.groupdict.map (fun p => (p.1, p.2.getD []))

/-- `p.sub(repl, s)` with a replacement string -/
def subR [UniTables] (p : Pattern) (repl : Str) (s : Str) : R Str := sub p repl s

end Py.Re
