import Props.Auto
import Props.C06
import Props.C14
import Props.C18
import Props.C10
import Props.C13
import Props.C06Gen
import Props.C17
