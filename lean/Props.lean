import Props.Auto
