import PyRt.Basic
import PyRt.Wire
import PyRt.Str
import PyRt.Misc
import PyRt.Stub
import PyRt.Date
import PyRt.WireDate
