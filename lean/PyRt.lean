import PyRt.Basic
import PyRt.Wire
