import Driver.Main
