import Spec.Checksum
import Spec.Wsgi
import Spec.State
import Spec.NumDB
import Spec.Standards
import Spec.GS1
import Spec.GS1Data
