import Spec.Checksum
import Spec.Wsgi
import Spec.State
import Spec.NumDB
import Spec.Standards
