import Spec.Checksum
import Spec.Wsgi
import Spec.State
