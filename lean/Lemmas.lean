import Lemmas.Hoare
import Lemmas.Fold
import Lemmas.Unicode
import Lemmas.Strip
import Lemmas.Int
import Lemmas.Str
import Lemmas.Util
import Lemmas.Vc
