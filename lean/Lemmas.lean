import Lemmas.Hoare
