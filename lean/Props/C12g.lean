import Gen.cn_ric
import Props.C12c
/-!
# C12 (value consistency, part 3, continued) — cn.ric (17 digits and a check character `0-9X`)
-/
namespace Props.C12
open Py Lemmas.Refine Props.C17 Props.C08

set_option linter.unusedVariables false
set_option linter.unusedSimpArgs false

/-- `int(v[a:b])` when only the first `b` characters are known to be digits -/
theorem intOf_fld_prefix {v : Str} (a b : Nat) (hD : AllIn isAsciiDigit (v.take b)) (a' b' : Int) (ha : a' = a)
    (hb : b' = b) (hab : a < b) (hbl : b ≤ v.length) (hb4 : b ≤ 4300 := by omega) :
    intOf (slice v (some a') (some b')) = .ok (fld v a b) := by
  have h1 := intOf_fld hD a b a' b' ha hb hab (by simp; omega) hb4
  have e1 : slice (v.take b) (some a') (some b') = slice v (some a') (some b') := by
    rw [slice_eq_drop_take _ a b a' b' ha hb (by omega), slice_eq_drop_take _ a b a' b' ha hb (by omega)]
    rw [List.drop_take]
    rw [List.take_take]
    simp
  have e2 : fld (v.take b) a b = fld v a b := by
    unfold fld
    rw [List.drop_take, List.take_take]
    simp
  rw [← e1, ← e2]; exact h1

theorem cn_ric_ok {x v : Str} (h : Gen.cn_ric.validate x = .ok v) :
    AllIn isAsciiDigit v.dropLast ∧ v.length = 18 ∧ AllIn isDU v ∧ ∃ d, Gen.cn_ric.get_birth_date v = .ok d := by
  unfold Gen.cn_ric.validate Gen.cn_ric.compact at h
  invert_validate h
  obtain ⟨hl, hd, a, ha, a1, hcd, rfl, dd, hdd, _, _, rfl⟩ := h
  generalize strip (upper (cleanP x [])) = n at *
  have hne : n ≠ [] := by intro h0; subst h0; simp at hl
  rw [slice_none_neg_one] at hd
  have hD := ((isDigitsB_iff _).mp hd).2
  refine ⟨hD, by omega, ?_, dd, hdd⟩
  -- the last character is the computed check character: a digit or `X`
  rw [getItem_neg_one n hne] at ha
  have ha' : a = [n.getLast hne] := by cases ha; rfl
  unfold Gen.cn_ric.calc_check_digit at hcd
  obtain ⟨k, _, hcd⟩ := bind_ok_inv hcd
  simp only [pure_ok, Except.ok.injEq] at hcd
  have hlast : isDU (n.getLast hne) = true := by
    split at hcd
    · rw [ha'] at hcd
      have : n.getLast hne = 88 := by simpa using hcd.symm
      rw [this]; rfl
    · rename_i hne10
      have hr : 0 ≤ (1 - 2 * k) % 11 ∧ (1 - 2 * k) % 11 ≤ 9 := by
        have : ¬ (1 - 2 * k) % 11 = 10 := by simpa using hne10
        omega
      rw [strOfInt_digit _ hr, ha'] at hcd
      have : n.getLast hne = 48 + ((1 - 2 * k) % 11).toNat := by simpa using hcd.symm
      rw [this]
      simp only [isDU, isAsciiDigit, isAsciiUpper, Bool.or_eq_true, Bool.and_eq_true, decide_eq_true_eq]
      omega
  intro c hc
  rw [← List.dropLast_concat_getLast hne] at hc
  rcases List.mem_append.mp hc with h1 | h1
  · exact du_of_digit (hD c h1)
  · simp only [List.mem_singleton] at h1
    rw [h1]; exact hlast

theorem cn_ric_birth_date (x v : Str) (d : Date) (h : Gen.cn_ric.validate x = .ok v)
    (hd : Gen.cn_ric.get_birth_date v = .ok d) :
    d.Valid ∧ d.day = fld v 12 14 ∧ d.month = fld v 10 12 ∧ d.year = fld v 6 10 := by
  obtain ⟨hD, hl, hDU, _⟩ := cn_ric_ok h
  have hc : Gen.cn_ric.compact v = .ok v := by
    unfold Gen.cn_ric.compact
    simp only [clean_eq, bind_ok, pure_ok, du_compact_upper' hDU [] (by decide)]
  have hpre : ∀ b, b ≤ 17 → AllIn isAsciiDigit (v.take b) := by
    intro b hb c hc
    apply hD c
    rw [List.dropLast_eq_take, hl]
    exact List.mem_of_mem_take (show c ∈ (v.take 17).take b by rw [List.take_take]; simpa [Nat.min_eq_left hb] using hc)
  unfold Gen.cn_ric.get_birth_date at hd
  simp only [hc, bind_ok, intOf_fld_prefix 6 10 (hpre 10 (by omega)) 6 10 rfl rfl (by omega) (by omega),
    intOf_fld_prefix 10 12 (hpre 12 (by omega)) 10 12 rfl rfl (by omega) (by omega),
    intOf_fld_prefix 12 14 (hpre 14 (by omega)) 12 14 rfl rfl (by omega) (by omega)] at hd
  invert_getter hd
  obtain ⟨hv, hyr, hmo, hdd⟩ := mkDate_valid hd
  exact ⟨hv, hdd, hmo, hyr⟩

/- (`validate` looks the birth place up in the embedded registry `cn/loc.dat`: no kernel-evaluated example for it) -/
example : Gen.cn_ric.get_birth_date (str% "360426199101010071") = .ok ⟨1991, 1, 1⟩ := by decide +kernel

end Props.C12

#print axioms Props.C12.intOf_fld_prefix
#print axioms Props.C12.cn_ric_ok
#print axioms Props.C12.cn_ric_birth_date
