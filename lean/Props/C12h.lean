import Gen.no_fodselsnummer
import Props.C12c
/-!
# C12 (value consistency, part 3, continued) — no.fodselsnummer
-/
namespace Props.C12
open Py Lemmas.Refine Props.C17 Props.C08

set_option linter.unusedVariables false
set_option linter.unusedSimpArgs false

/-! ## no.fodselsnummer : `DDMMYY` (day `+40`: D-number, month `+40`: H-number), century from the individual
digits `v[6:9]` -/

theorem no_fodselsnummer_ok {t : Date} {x v : Str} (h : Gen.no_fodselsnummer.validate t x = .ok v) :
    AllIn isAsciiDigit v ∧ v.length = 11 := by
  unfold Gen.no_fodselsnummer.validate Gen.no_fodselsnummer.compact at h
  invert_validate h
  obtain ⟨hl, hd, hh⟩ := h
  have hv : cleanP x [32, 45, 58] = v := by grind
  subst hv
  exact ⟨((isDigitsB_iff _).mp hd).2, by omega⟩

theorem daysInMonth_le (y m : Int) : daysInMonth y m ≤ 31 := by
  unfold daysInMonth
  split
  · split <;> decide
  · split <;> decide

/-- the century rule of `no.fodselsnummer.get_birth_date` (`none`: `InvalidComponent`) -/
def noCentury (ind yy : Int) : Option Int :=
  if ind < 500 then some 1900
  else if ind < 750 ∧ yy ≥ 54 then some 1800
  else if ind < 1000 ∧ yy < 40 then some 2000
  else if (900 ≤ ind ∧ ind < 1000) ∧ yy ≥ 40 then some 1900
  else none

theorem no_fodselsnummer_birth_date (t : Date) (x v : Str) (d : Date)
    (h : Gen.no_fodselsnummer.validate t x = .ok v) (hd : Gen.no_fodselsnummer.get_birth_date v = .ok d) :
    d.Valid ∧ d.day = fld v 0 2 % 40 ∧ d.month = fld v 2 4 % 40 ∧ d.year % 100 = fld v 4 6 ∧
      noCentury (fld v 6 9) (fld v 4 6) = some (d.year - fld v 4 6) := by
  obtain ⟨hD, hl⟩ := no_fodselsnummer_ok h
  have hc : Gen.no_fodselsnummer.compact v = .ok v := by
    unfold Gen.no_fodselsnummer.compact
    simp only [clean_eq, bind_ok, pure_ok,
      cleanP_of_alnum (fun c hc => alnum_of_du (du_of_digit (hD c hc)))
        (by decide : ∀ c ∈ [32, 45, 58], isAsciiAlnum c = false)]
  unfold Gen.no_fodselsnummer.get_birth_date at hd
  simp only [hc, bind_ok, intOf_fld hD 0 2 0 2 rfl rfl (by omega) (by omega),
    intOf_fld hD 2 4 2 4 rfl rfl (by omega) (by omega), intOf_fld hD 4 6 4 6 rfl rfl (by omega) (by omega),
    intOf_fld hD 6 9 6 9 rfl rfl (by omega) (by omega)] at hd
  have hy := fld2 hD 4 6
  have hday := fld2 hD 0 2
  have hmon := fld2 hD 2 4
  have hind := fld3 hD 6 9
  invert_getter hd
  simp only [decide_eq_true_eq, decide_eq_false_iff_not] at hd
  obtain ⟨h80, hd⟩ := hd
  rcases hd with ⟨hday40, hd⟩ | ⟨hday40, hd⟩ <;> rcases hd with ⟨hm40, hd⟩ | ⟨hm40, hd⟩ <;>
    rcases hd with ⟨c1, hmk⟩ | ⟨c1, ⟨c2, hmk⟩ | ⟨c2, ⟨c3, hmk⟩ | ⟨c3, c4, hmk⟩⟩⟩ <;>
    (obtain ⟨hv, hyr, hmo, hdd⟩ := mkDate_valid hmk
     have hv' := hv
     obtain ⟨_, _, hm1, hm12, hd1, hd31⟩ := hv'
     have hdim := daysInMonth_le d.year d.month
     refine ⟨hv, by omega, by omega, by omega, ?_⟩
     unfold noCentury
     repeat' split
     all_goals first | (congr 1; omega) | (exfalso; omega))

example : Gen.no_fodselsnummer.validate ⟨2026, 9, 27⟩ (str% "151086 95088") = .ok (str% "15108695088") ∧
    Gen.no_fodselsnummer.get_birth_date (str% "15108695088") = .ok ⟨1986, 10, 15⟩ := by decide +kernel

end Props.C12

#print axioms Props.C12.no_fodselsnummer_ok
#print axioms Props.C12.daysInMonth_le
#print axioms Props.C12.no_fodselsnummer_birth_date
