import Props.C05
import Props.C07u
import Spec.Standards
/-!
# C07 (part a) — common lemmas; ISSN, EAN, ISBN, ISMN, IMO
-/
namespace Props.C07
open Py Spec.Checksum Lemmas.Refine Lemmas.Fold Props.C06 Props.C06Gen Props Spec.Standards

/-! ## the shape of every agreement theorem -/

theorem agrees_of {v : R Str} {n : Str} {P : Bool}
    (sound : ∀ r, v = .ok r → r = n ∧ P = true) (complete : P = true → v = .ok n) :
    v.toOption = if P = true then some n else none := by
  cases hv : v with
  | ok r =>
    obtain ⟨h1, h2⟩ := sound r hv
    rw [h2, h1]; rfl
  | error e =>
    cases hP : P with
    | false => rfl
    | true => rw [complete hP] at hv; cases hv

theorem canonOf_ok (s : Str) : canonOf (.ok s) = s := rfl

/-! ## vocabulary bridges (the spec's character classes are the runtime's, by definition) -/

theorem isD_eq : Spec.Standards.isD = isAsciiDigit := rfl
theorem isU_eq : Spec.Standards.isU = isAsciiUpper := rfl
theorem isDX_eq : Spec.Standards.isDX = isD11 := rfl
theorem vX_eq : Spec.Standards.vX = val112 := rfl
theorem isDU_eq : Spec.Standards.isDU = C17.isDU := rfl

theorem all_iff_allIn {p : Nat → Bool} {s : Str} : s.all p = true ↔ AllIn p s := by
  simp [AllIn]

/-- the spec's weighted sum over ℕ is the `wsum` of `Props/C17.lean` over ℤ -/
theorem wsum_cast (w : Nat → Nat) (wt : Nat → Int) (l : List Nat) : ∀ k,
    (∀ i, k ≤ i → i < k + l.length → (w i : Int) = wt i) →
    ((Spec.Standards.wsum w k l : Nat) : Int) = C17.wsum wt k l := by
  induction l with
  | nil => intro k _; rfl
  | cons a l ih =>
    intro k h
    have h1 := ih (k + 1) (fun i h1 h2 => h i (by omega) (by simp only [List.length_cons]; omega))
    have h0 := h k (Nat.le_refl k) (by simp)
    unfold Spec.Standards.wsum at h1 ⊢
    simp only [fsum, C17.wsum, Int.natCast_add, Int.natCast_mul, h1, h0]

theorem mod_eq_zero_cast {a : Nat} {b : Int} (m : Nat) (h : (a : Int) = b) :
    (a % m == 0) = true ↔ b % (m : Int) = 0 := by
  rw [← h]
  simp only [beq_iff_eq]
  omega


/-- the check character of the mod-11 schemes, conversely to `C17.chk11_single` -/
theorem chk11_of {k : Nat} (hk : isD11 k = true) :
    (if (((val112 k : Nat) : Int) == 10) = true then ([88] : Str) else Py.strOfInt ((val112 k : Nat) : Int)) = [k] := by
  rcases d11_cases hk with h | h
  · have hv : val112 k = k - 48 := by unfold val112; rw [if_neg (by omega)]
    rw [hv]
    have hne : ((((k - 48 : Nat) : Int)) == 10) = false := by
      simp only [beq_eq_false_iff_ne, ne_eq]; omega
    rw [hne]
    simp only [Bool.false_eq_true, if_false]
    rw [strOfInt_digit _ ⟨by omega, by omega⟩]
    congr 1
    omega
  · subst h; rfl

/-! ## ISSN -/

theorem canon_issn_eq (x : Str) : canon_issn x = upper (strip (cleanP x [32, 45])) := by
  unfold canon_issn Gen.issn.compact
  simp only [clean_eq, bind_ok, pure_ok]
  rfl

/-- the standard's `Σ (9 − i)·dᵢ`, `i = 1..8`, is the sum the proofs of C17 use -/
theorem issn_wsum (l : List Nat) (hl : l.length ≤ 8) :
    ((Spec.Standards.wsum (fun i => 9 - i) 1 l : Nat) : Int) = C17.wsum C17.wtISSN 0 l := by
  rw [wsum_cast _ (fun i => 9 - (i : Int)) l 1 (fun i h1 h2 => by omega)]
  exact C17.wsum_shift C17.wtISSN _ (fun i => by unfold C17.wtISSN; omega) l 0

theorem std_issn_iff (n : Str) : Std_issn n = true ↔
    n.length = 8 ∧ AllIn isAsciiDigit n.dropLast ∧ AllIn isD11 n ∧
      C17.wsum C17.wtISSN 0 (n.map val112) % 11 = 0 := by
  unfold Std_issn
  simp only [Bool.and_eq_true, isD_eq, isDX_eq, vX_eq, all_iff_allIn]
  constructor
  · rintro ⟨⟨⟨h1, h2⟩, h3⟩, h4⟩
    have hl : n.length = 8 := by simpa using h1
    exact ⟨hl, h2, h3, (mod_eq_zero_cast 11 (issn_wsum _ (by simp [hl]))).mp h4⟩
  · rintro ⟨h1, h2, h3, h4⟩
    exact ⟨⟨⟨by simp [h1], h2⟩, h3⟩, (mod_eq_zero_cast 11 (issn_wsum _ (by simp [h1]))).mpr h4⟩

theorem issn_complete (x : Str) (h : Std_issn (canon_issn x) = true) :
    Gen.issn.validate x = .ok (canon_issn x) := by
  rw [canon_issn_eq] at h ⊢
  unfold Gen.issn.validate Gen.issn.compact
  simp only [clean_eq, isdigits_eq, bind_ok, pure_ok, C17.slice_none_neg_one]
  generalize upper (strip (cleanP x [32, 45])) = n at h ⊢
  obtain ⟨hl, hp, hD, hT⟩ := (std_issn_iff n).mp h
  have hne : n ≠ [] := by intro h0; subst h0; simp at hl
  have hpne : n.dropLast ≠ [] := by
    intro h0
    have : n.dropLast.length = 7 := by simp [hl]
    rw [h0] at this; simp at this
  have hd : isDigitsB n.dropLast = true := (isDigitsB_iff _).mpr ⟨hpne, hp⟩
  have hlen : ((n.length : Int) != 8) = false := by simp [hl]
  have hk : isD11 (n.getLast hne) = true := hD _ (List.getLast_mem hne)
  -- the congruence fixes the check character
  have hsplit : C17.wsum C17.wtISSN 0 (n.map val112) =
      C17.wsum C17.wtISSN 0 (n.dropLast.map (· - 48)) + ((val112 (n.getLast hne) : Nat) : Int) := by
    conv => lhs; rw [← List.dropLast_concat_getLast hne]
    rw [List.map_append, C17.wsum_append, C17.map_val112_digits hp, List.length_map]
    have : n.dropLast.length = 7 := by simp [hl]
    rw [this]
    simp only [List.map_cons, List.map_nil, C17.wsum, C17.wtISSN]
    omega
  have hv := val112_lt hk
  have hchk : (11 - C17.wsum C17.wtISSN 0 (n.dropLast.map (· - 48))) % 11 =
      ((val112 (n.getLast hne) : Nat) : Int) := by
    rw [hsplit] at hT
    omega
  rw [C17.issn_calc_eq _ hp, hchk, chk11_of hk, getItem_neg_one n hne]
  simp [hd, hlen]

theorem issn_agrees_with_standard (x : Str) :
    (Gen.issn.validate x).toOption =
      if Std_issn (canon_issn x) = true then some (canon_issn x) else none := by
  apply agrees_of
  · intro r hr
    obtain ⟨h1, hl, hp, hD, hT⟩ := C17.issn_ok hr
    rw [canon_issn_eq, ← h1]
    exact ⟨rfl, (std_issn_iff r).mpr ⟨hl, hp, hD, hT⟩⟩
  · exact issn_complete x


/-! ## EAN -/

theorem canon_ean_eq (x : Str) : canon_ean x = strip (cleanP x [32, 45]) := by
  unfold canon_ean Gen.ean.compact
  simp only [clean_eq, bind_ok, pure_ok]
  rfl

theorem gs1_iff (n : Str) :
    gs1 n = true ↔ C17.wsum C17.wtEAN 0 (n.reverse.map (· - 48)) % 10 = 0 := by
  unfold gs1
  exact mod_eq_zero_cast 10 (wsum_cast _ C17.wtEAN _ 0 (fun i _ _ => by unfold C17.wtEAN; split <;> rfl))

/-- "compute the check digit and compare" is the GS1 congruence over the whole number -/
theorem ean_calc_iff {n : Str} (hD : AllIn isAsciiDigit n) (hne : n ≠ []) :
    Gen.ean.calc_check_digit n.dropLast = .ok [n.getLast hne] ↔ gs1 n = true := by
  have hp : AllIn isAsciiDigit n.dropLast := fun c hc => hD c (List.dropLast_subset _ hc)
  have hk := digit_bounds (hD _ (List.getLast_mem hne))
  rw [gs1_iff, C17.ean_calc_eq _ hp]
  have hv : n.reverse = n.getLast hne :: n.dropLast.reverse := by
    conv => lhs; rw [← List.dropLast_concat_getLast hne]
    simp
  rw [hv, List.map_cons, C17.wsum,
    C17.wsum_shift C17.wtE C17.wtEAN (fun i => by unfold C17.wtE C17.wtEAN; split <;> split <;> omega)]
  generalize C17.wsum C17.wtE 0 (n.dropLast.reverse.map (· - 48)) = S
  have h0 : 0 ≤ (10 - S) % 10 := Int.emod_nonneg _ (by decide)
  have h9 : (10 - S) % 10 ≤ 9 := by omega
  rw [strOfInt_digit _ ⟨h0, h9⟩]
  have hw : C17.wtEAN 0 = 1 := rfl
  rw [hw]
  constructor
  · intro h
    have : 48 + ((10 - S) % 10).toNat = n.getLast hne := by simpa using h
    omega
  · intro h
    have : 48 + ((10 - S) % 10).toNat = n.getLast hne := by omega
    rw [this]

/-- `ean.validate` on a non-empty digit string -/
theorem ean_validate_digits {n : Str} (hD : AllIn isAsciiDigit n) (hne : n ≠ []) :
    Gen.ean.validate n =
      if ([(14 : Int), 13, 12, 8].contains (n.length : Int)) = true then
        (if gs1 n = true then .ok n else .error .invalidChecksum)
      else .error .invalidLength := by
  unfold Gen.ean.validate Gen.ean.compact
  simp only [clean_eq, isdigits_eq, bind_ok, pure_ok, C17.slice_none_neg_one]
  rw [C17.digits_compact hD _ (by decide)]
  have hd : isDigitsB n = true := (isDigitsB_iff n).mpr ⟨hne, hD⟩
  simp only [hd, Bool.not_true, Bool.false_eq_true, if_false]
  cases hlen : ([(14 : Int), 13, 12, 8].contains (n.length : Int)) with
  | false => rfl
  | true =>
    simp only [Bool.not_true, Bool.false_eq_true, if_false, if_true]
    have hp : AllIn isAsciiDigit n.dropLast := fun c hc => hD c (List.dropLast_subset _ hc)
    rw [C17.ean_calc_eq _ hp, getItem_neg_one n hne]
    have := ean_calc_iff hD hne
    rw [C17.ean_calc_eq _ hp] at this
    generalize Py.strOfInt ((10 - C17.wsum C17.wtE 0 (n.dropLast.reverse.map (· - 48))) % 10) = cs at this ⊢
    simp only [bind_ok]
    by_cases hg : gs1 n = true
    · rw [if_pos hg]
      have h1 := this.mpr hg
      simp only [Except.ok.injEq] at h1
      subst h1
      simp
    · rw [if_neg hg]
      have h1 : ¬ _ := fun h => hg (this.mp h)
      simp only [Except.ok.injEq] at h1
      have h2 : (cs != [n.getLast hne]) = true := by simpa using h1
      simp [h2]

theorem ean_agrees_with_standard (x : Str) :
    (Gen.ean.validate x).toOption =
      if Std_ean (canon_ean x) = true then some (canon_ean x) else none := by
  rw [canon_ean_eq]
  unfold Gen.ean.validate Gen.ean.compact
  simp only [clean_eq, isdigits_eq, bind_ok, pure_ok]
  generalize strip (cleanP x [32, 45]) = n
  cases hd : isDigitsB n with
  | false =>
    have : Std_ean n = false := by
      unfold Std_ean
      have : n.all Spec.Standards.isD = false ∨ n = [] := by
        unfold isDigitsB at hd
        rw [isD_eq]
        cases n with
        | nil => exact Or.inr rfl
        | cons a t => left; simpa using hd
      rcases this with h | h
      · rw [h]; simp
      · subst h; rfl
    rw [this]
    rfl
  | true =>
    obtain ⟨hne, hD⟩ := (isDigitsB_iff n).mp hd
    have key := ean_validate_digits hD hne
    unfold Gen.ean.validate Gen.ean.compact at key
    simp only [clean_eq, isdigits_eq, bind_ok, pure_ok] at key
    rw [C17.digits_compact hD _ (by decide), hd] at key
    rw [key]
    unfold Std_ean
    have hall : n.all Spec.Standards.isD = true := by rw [isD_eq]; exact all_iff_allIn.mpr hD
    have hlen : ([(14 : Int), 13, 12, 8].contains (n.length : Int)) = ([8, 12, 13, 14] : List Nat).contains n.length := by
      simp only [List.contains_cons, List.contains_nil, Bool.or_false]
      rw [Bool.eq_iff_iff]
      simp only [Bool.or_eq_true, beq_iff_eq]
      omega
    rw [hlen, hall]
    cases ([8, 12, 13, 14] : List Nat).contains n.length <;> cases gs1 n <;> rfl


/-! ## `ean.validate` applied to an already compacted number (see `Props/C07u.lean`) -/

theorem badKey_of_fixed {c : Nat} (h : cm c = c) : badKey c = false := by
  unfold badKey; rw [h]; simp

/-- `ean.validate` on a 13-character compact number: its own `compact` cannot turn a non-digit into a digit or
delete a character -/
theorem ean_validate_tame13 {m : Str} (ht : Tame m) (hl : m.length = 13) :
    Gen.ean.validate m =
      if m.all isAsciiDigit = true then (if gs1 m = true then .ok m else .error .invalidChecksum)
      else .error .invalidFormat := by
  have hne : m ≠ [] := by intro h0; subst h0; simp at hl
  by_cases hD : m.all isAsciiDigit = true
  · rw [if_pos hD, ean_validate_digits (all_iff_allIn.mp hD) hne, if_pos (by rw [hl]; decide)]
  · rw [if_neg hD]
    unfold Gen.ean.validate Gen.ean.compact
    simp only [clean_eq, isdigits_eq, bind_ok, pure_ok]
    rw [ht.second_compact]
    have : isDigitsB (m.map cm) = false := by
      cases h : isDigitsB (m.map cm) with
      | false => rfl
      | true =>
        exfalso
        apply hD
        apply all_iff_allIn.mpr
        intro c hc
        have hd := ((isDigitsB_iff _).mp h).2 (cm c) (List.mem_map_of_mem hc)
        rw [← ht.digit_of_cm_digit hc hd]
        exact hd
    simp [this]

/-! ## ISBN -/

theorem canon_isbn_eq (x : Str) : canon_isbn x = C17.isbnC x := by
  unfold canon_isbn Gen.isbn.compact C17.isbnC
  simp only [clean_eq, bind_ok, pure_ok, Bool.false_eq_true, if_false]
  by_cases h9 : (upper (strip (cleanP x [32, 45]))).length = 9
  · simp [h9, canonOf]
  · have : ¬ (((upper (strip (cleanP x [32, 45]))).length : Int) = 9) := by omega
    simp [h9, this, canonOf]

/-- weights 10, 9, …, 1 (the ISBN manual) against weights 1, 2, …, 10 (the code): the two sums add up to a
multiple of 11 -/
theorem isbn10_weights (l : List Nat) : ∀ k, k + l.length ≤ 10 →
    ∃ q : Int, ((Spec.Standards.wsum (fun i => 11 - i) (k + 1) l : Nat) : Int) + C17.wsum C17.wt10 k l = 11 * q := by
  induction l with
  | nil => intro k _; exact ⟨0, rfl⟩
  | cons a l ih =>
    intro k hk
    simp only [List.length_cons] at hk
    obtain ⟨q, hq⟩ := ih (k + 1) (by omega)
    refine ⟨q + a, ?_⟩
    simp only [Spec.Standards.wsum] at hq ⊢
    simp only [fsum, C17.wsum, C17.wt10, Int.natCast_add, Int.natCast_mul]
    have : ((11 - (k + 1) : Nat) : Int) = 10 - (k : Int) := by omega
    rw [this]
    have e : (10 - (k : Int)) * (a : Int) + ((k : Int) + 1) * (a : Int) = 11 * (a : Int) := by
      rw [← Int.add_mul]
      congr 1
      omega
    generalize (10 - (k : Int)) * (a : Int) = A at e ⊢
    generalize ((k : Int) + 1) * (a : Int) = B at e ⊢
    omega

theorem std_isbn10_iff (n : Str) : Std_isbn10 n = true ↔
    n.length = 10 ∧ AllIn isAsciiDigit n.dropLast ∧ AllIn isD11 n ∧
      C17.wsum C17.wt10 0 (n.map val112) % 11 = 0 := by
  unfold Std_isbn10
  simp only [Bool.and_eq_true, isD_eq, isDX_eq, vX_eq, all_iff_allIn, beq_iff_eq]
  constructor
  · rintro ⟨⟨⟨h1, h2⟩, h3⟩, h4⟩
    obtain ⟨q, hq⟩ := isbn10_weights (n.map val112) 0 (by simp [h1])
    rw [Nat.zero_add] at hq
    exact ⟨h1, h2, h3, by omega⟩
  · rintro ⟨h1, h2, h3, h4⟩
    obtain ⟨q, hq⟩ := isbn10_weights (n.map val112) 0 (by simp [h1])
    rw [Nat.zero_add] at hq
    exact ⟨⟨⟨h1, h2⟩, h3⟩, by omega⟩

/-- ISBN-10: "compute the check character and compare" is the congruence `Σ i·dᵢ ≡ 0 (mod 11)` with `X` = 10 -/
theorem isbn10_calc_iff {n : Str} (hp : AllIn isAsciiDigit n.dropLast) (hne : n ≠ []) (hl : n.length = 10) :
    Gen.isbn._calc_isbn10_check_digit n.dropLast = .ok [n.getLast hne] ↔
      AllIn isD11 n ∧ C17.wsum C17.wt10 0 (n.map val112) % 11 = 0 := by
  constructor
  · intro h
    exact C17.isbn10_T hp hne hl (by rw [h, List.getLast?_eq_some_getLast hne]; rfl)
  · rintro ⟨hD, hT⟩
    have hk : isD11 (n.getLast hne) = true := hD _ (List.getLast_mem hne)
    have hsplit : C17.wsum C17.wt10 0 (n.map val112) =
        C17.wsum C17.wt10 0 (n.dropLast.map (· - 48)) + 10 * ((val112 (n.getLast hne) : Nat) : Int) := by
      conv => lhs; rw [← List.dropLast_concat_getLast hne]
      rw [List.map_append, C17.wsum_append, C17.map_val112_digits hp, List.length_map]
      have : n.dropLast.length = 9 := by simp [hl]
      rw [this]
      simp only [List.map_cons, List.map_nil, C17.wsum, C17.wt10]
      omega
    have hv := val112_lt hk
    have hchk : C17.wsum C17.wt10 0 (n.dropLast.map (· - 48)) % 11 = ((val112 (n.getLast hne) : Nat) : Int) := by
      rw [hsplit] at hT
      omega
    rw [C17.isbn10_calc_eq _ hp, hchk, chk11_of hk]

theorem std_isbn13_iff (n : Str) : Std_isbn13 n = true ↔
    n.length = 13 ∧ AllIn isAsciiDigit n ∧ (n.take 3 = [57, 55, 56] ∨ n.take 3 = [57, 55, 57]) ∧ gs1 n = true := by
  unfold Std_isbn13
  simp only [Bool.and_eq_true, Bool.or_eq_true, isD_eq, all_iff_allIn, beq_iff_eq, and_assoc]

theorem isbn_agrees_with_standard (x : Str) :
    (Gen.isbn.validate x false).toOption =
      if Std_isbn (canon_isbn x) = true then some (canon_isbn x) else none := by
  rw [canon_isbn_eq]
  unfold Gen.isbn.validate Gen.isbn.compact
  simp only [clean_eq, isdigits_eq, bind_ok, pure_ok, Bool.false_eq_true, if_false, C17.slice_none_neg_one]
  have hc : (if ((((upper (strip (cleanP x [32, 45]))).length : Int) == 9) = true) then
        (Except.ok ([48] ++ upper (strip (cleanP x [32, 45]))) : R Str)
      else Except.ok (upper (strip (cleanP x [32, 45])))) = .ok (C17.isbnC x) := by
    unfold C17.isbnC
    by_cases h9 : (upper (strip (cleanP x [32, 45]))).length = 9
    · simp [h9]
    · have : ¬ (((upper (strip (cleanP x [32, 45]))).length : Int) = 9) := by omega
      simp [h9, this]
  rw [hc]
  simp only [bind_ok]
  -- a 13-character number is handed to `ean.validate`, which compacts it once more
  have hfix : (C17.isbnC x).length = 13 → Tame (C17.isbnC x) := by
    intro h13
    unfold C17.isbnC at h13 ⊢
    split at h13
    · simp at h13; omega
    · rw [if_neg ‹_›]
      exact tame_of_compact x [32, 45] (by decide) (by decide)
  generalize C17.isbnC x = n at hfix ⊢
  unfold Std_isbn
  cases hd : isDigitsB n.dropLast with
  | false =>
    have h10 : Std_isbn10 n = false := by
      cases h : Std_isbn10 n with
      | false => rfl
      | true =>
        obtain ⟨hl, hp, _, _⟩ := (std_isbn10_iff n).mp h
        have : isDigitsB n.dropLast = true := (isDigitsB_iff _).mpr ⟨by
          intro h0
          have : n.dropLast.length = 9 := by simp [hl]
          rw [h0] at this; simp at this, hp⟩
        rw [this] at hd; cases hd
    have h13 : Std_isbn13 n = false := by
      cases h : Std_isbn13 n with
      | false => rfl
      | true =>
        obtain ⟨hl, hD, _, _⟩ := (std_isbn13_iff n).mp h
        have : isDigitsB n.dropLast = true := (isDigitsB_iff _).mpr ⟨by
          intro h0
          have : n.dropLast.length = 12 := by simp [hl]
          rw [h0] at this; simp at this, fun c hc => hD c (List.dropLast_subset _ hc)⟩
        rw [this] at hd; cases hd
    rw [h10, h13]
    rfl
  | true =>
    obtain ⟨hpne, hp⟩ := (isDigitsB_iff _).mp hd
    have hne : n ≠ [] := by intro h0; subst h0; exact hpne rfl
    simp only [Bool.not_true, Bool.false_eq_true, if_false]
    by_cases h10 : n.length = 10
    · -- ISBN-10
      have e10 : (((n.length : Int) == 10)) = true := by simp [h10]
      have s13 : Std_isbn13 n = false := by
        cases h : Std_isbn13 n with
        | false => rfl
        | true => have := ((std_isbn13_iff n).mp h).1; omega
      rw [s13, Bool.or_false]
      simp only [e10, if_true, getItem_neg_one n hne]
      have key := isbn10_calc_iff hp hne h10
      cases hcalc : Gen.isbn._calc_isbn10_check_digit n.dropLast with
      | error e =>
        have hs : Std_isbn10 n = false := by
          cases h : Std_isbn10 n with
          | false => rfl
          | true =>
            obtain ⟨_, _, hD, hT⟩ := (std_isbn10_iff n).mp h
            rw [key.mpr ⟨hD, hT⟩] at hcalc; cases hcalc
        rw [hs]; rfl
      | ok cs =>
        simp only [bind_ok]
        by_cases heq : cs = [n.getLast hne]
        · subst heq
          have hs : Std_isbn10 n = true := by
            obtain ⟨hD, hT⟩ := key.mp hcalc
            exact (std_isbn10_iff n).mpr ⟨h10, hp, hD, hT⟩
          rw [hs]
          simp [Except.toOption]
        · have hs : Std_isbn10 n = false := by
            cases h : Std_isbn10 n with
            | false => rfl
            | true =>
              obtain ⟨_, _, hD, hT⟩ := (std_isbn10_iff n).mp h
              rw [key.mpr ⟨hD, hT⟩] at hcalc
              exact absurd (Except.ok.inj hcalc).symm heq
          have hne' : (cs != [n.getLast hne]) = true := by simpa using heq
          rw [hs]
          simp [hne', Except.toOption]
    · have e10 : (((n.length : Int) == 10)) = false := by
        simp only [beq_eq_false_iff_ne, ne_eq]; omega
      have s10 : Std_isbn10 n = false := by
        cases h : Std_isbn10 n with
        | false => rfl
        | true => have := ((std_isbn10_iff n).mp h).1; omega
      rw [s10, Bool.false_or]
      simp only [e10, Bool.false_eq_true, if_false]
      by_cases h13 : n.length = 13
      · -- ISBN-13
        have e13 : (((n.length : Int) == 13)) = true := by simp [h13]
        simp only [e13, if_true]
        have hfix' := hfix h13
        by_cases hlast : isAsciiDigit (n.getLast hne) = true
        · have hD : AllIn isAsciiDigit n := by
            intro c hc
            rw [← List.dropLast_concat_getLast hne] at hc
            rcases List.mem_append.mp hc with h | h
            · exact hp c h
            · rw [List.mem_singleton.mp h]; exact hlast
          have hlen : ([(14 : Int), 13, 12, 8].contains (n.length : Int)) = true := by rw [h13]; decide
          rw [ean_validate_digits hD hne, if_pos hlen, slice_none_nonneg n (by decide)]
          have htk : (3 : Int).toNat = 3 := rfl
          rw [htk]
          cases hg : gs1 n with
          | false =>
            have : Std_isbn13 n = false := by
              cases h : Std_isbn13 n with
              | false => rfl
              | true => have := ((std_isbn13_iff n).mp h).2.2.2; rw [hg] at this; cases this
            rw [this]; rfl
          | true =>
            simp only [if_true, bind_ok]
            by_cases hpre : n.take 3 = [57, 55, 56] ∨ n.take 3 = [57, 55, 57]
            · have : Std_isbn13 n = true := (std_isbn13_iff n).mpr ⟨h13, hD, hpre, hg⟩
              rw [this]
              rcases hpre with h | h <;> rw [h] <;> rfl
            · have : Std_isbn13 n = false := by
                cases h : Std_isbn13 n with
                | false => rfl
                | true => exact absurd ((std_isbn13_iff n).mp h).2.2.1 hpre
              rw [this]
              have hc : ([([57, 55, 56] : Str), [57, 55, 57]].contains (n.take 3)) = false := by
                simp only [List.contains_cons, List.contains_nil, Bool.or_false, Bool.or_eq_false_iff,
                  beq_eq_false_iff_ne, ne_eq]
                exact ⟨fun h => hpre (Or.inl h), fun h => hpre (Or.inr h)⟩
              rw [hc]
              rfl
        · -- the last character is not a digit: `ean.validate` compacts to the same string and rejects it
          have : Std_isbn13 n = false := by
            cases h : Std_isbn13 n with
            | false => rfl
            | true => exact absurd (((std_isbn13_iff n).mp h).2.1 _ (List.getLast_mem hne)) hlast
          rw [this]
          have hev : Gen.ean.validate n = .error .invalidFormat := by
            rw [ean_validate_tame13 hfix' h13, if_neg]
            intro hall
            exact hlast (all_iff_allIn.mp hall _ (List.getLast_mem hne))
          rw [hev]
          rfl
      · have e13 : (((n.length : Int) == 13)) = false := by
          simp only [beq_eq_false_iff_ne, ne_eq]; omega
        have s13 : Std_isbn13 n = false := by
          cases h : Std_isbn13 n with
          | false => rfl
          | true => have := ((std_isbn13_iff n).mp h).1; omega
        rw [s13]
        simp only [e13, Bool.false_eq_true, if_false]
        rfl


/-! ## ISMN -/

theorem canon_ismn_eq (x : Str) : canon_ismn x = upper (strip (cleanP x [32, 45, 46])) := by
  unfold canon_ismn Gen.ismn.compact
  simp only [clean_eq, bind_ok, pure_ok]
  rfl

theorem std_ismn_iff (n : Str) : Std_ismn n = true ↔
    (n.length = 10 ∧ n.take 1 = [77] ∧ (n.drop 1).all isAsciiDigit = true ∧ gs1 ([57, 55, 57, 48] ++ n.drop 1) = true) ∨
    (n.length = 13 ∧ n.all isAsciiDigit = true ∧ n.take 4 = [57, 55, 57, 48] ∧ gs1 n = true) := by
  unfold Std_ismn
  simp only [Bool.and_eq_true, Bool.or_eq_true, isD_eq, beq_iff_eq, and_assoc]

theorem ismn_agrees_with_standard (x : Str) :
    (Gen.ismn.validate x).toOption =
      if Std_ismn (canon_ismn x) = true then some (canon_ismn x) else none := by
  rw [canon_ismn_eq]
  unfold Gen.ismn.validate Gen.ismn.compact
  simp only [clean_eq, bind_ok, pure_ok]
  have hC := tame_of_compact x [32, 45, 46] (by decide) (by decide)
  generalize upper (strip (cleanP x [32, 45, 46])) = n at hC ⊢
  by_cases h10 : n.length = 10
  · have e10 : (((n.length : Int) == 10)) = true := by simp [h10]
    have hne : n ≠ [] := by intro h0; subst h0; simp at h10
    simp only [e10, if_true, getItem_zero n hne, bind_ok, slice_nonneg_none n (by decide : (0 : Int) ≤ 1)]
    have h1 : (1 : Int).toNat = 1 := rfl
    rw [h1]
    obtain ⟨a, t, rfl⟩ : ∃ a t, n = a :: t := by
      cases n with
      | nil => exact absurd rfl hne
      | cons a t => exact ⟨a, t, rfl⟩
    simp only [List.head_cons, List.drop_succ_cons, List.drop_zero]
    have hstd : Std_ismn (a :: t) = true ↔
        (a = 77 ∧ t.all isAsciiDigit = true ∧ gs1 ([57, 55, 57, 48] ++ t) = true) := by
      rw [std_ismn_iff]
      simp only [List.length_cons] at h10
      constructor
      · rintro (⟨_, h2, h3, h4⟩ | ⟨h, _⟩)
        · exact ⟨by simpa using h2, by simpa using h3, by simpa using h4⟩
        · simp at h; omega
      · rintro ⟨h2, h3, h4⟩
        exact Or.inl ⟨by simp; omega, by simp [h2], by simpa using h3, by simpa using h4⟩
    by_cases hM : a = 77
    · subst hM
      simp only [bne_self_eq_false, Bool.false_eq_true, if_false]
      -- the argument of `ean.validate` is tame as well
      have hC' : Tame ([57, 55, 57, 48] ++ t) := by
        refine ⟨?_, ?_, ?_⟩
        · intro c hc
          rcases List.mem_append.mp hc with h | h
          · have : c = 57 ∨ c = 55 ∨ c = 57 ∨ c = 48 := by simpa using h
            rcases this with rfl | rfl | rfl | rfl <;>
              exact ⟨badKey_of_fixed (cm_ascii_digit (by decide)), by decide, by decide⟩
          · exact hC.1 c (List.mem_cons_of_mem _ h)
        · intro c hc
          have : c = 57 := by simpa using hc.symm
          subst this; decide
        · intro c hc
          apply hC.2.2 c
          cases t with
          | nil => simp at h10
          | cons b t' =>
            rw [List.getLast?_cons_cons]
            rw [List.getLast?_append] at hc
            cases hl : (b :: t').getLast? with
            | none => simp at hl
            | some l => rw [hl] at hc; simpa using hc
      rw [ean_validate_tame13 hC' (by simp at h10 ⊢; omega)]
      have hall : ([57, 55, 57, 48] ++ t).all isAsciiDigit = t.all isAsciiDigit := by
        rw [List.all_append]
        have : ([57, 55, 57, 48] : Str).all isAsciiDigit = true := by decide
        rw [this, Bool.true_and]
      have hs : Std_ismn (77 :: t) = (t.all isAsciiDigit && gs1 ([57, 55, 57, 48] ++ t)) := by
        rw [Bool.eq_iff_iff, hstd]
        simp
      rw [hs, hall]
      cases t.all isAsciiDigit <;> cases gs1 ([57, 55, 57, 48] ++ t) <;> rfl
    · have : (([a] : Str) != [77]) = true := by simpa using hM
      have hs : Std_ismn (a :: t) = false := by
        cases h : Std_ismn (a :: t) with
        | false => rfl
        | true => exact absurd (hstd.mp h).1 hM
      rw [hs]
      simp [this, Except.toOption]
  · have e10 : (((n.length : Int) == 10)) = false := by
      simp only [beq_eq_false_iff_ne, ne_eq]; omega
    simp only [e10, Bool.false_eq_true, if_false]
    by_cases h13 : n.length = 13
    · have e13 : (((n.length : Int) == 13)) = true := by simp [h13]
      simp only [e13, if_true]
      rw [ean_validate_tame13 hC h13]
      have hs : Std_ismn n = (startswith n [57, 55, 57, 48] && (n.all isAsciiDigit && gs1 n)) := by
        rw [Bool.eq_iff_iff, std_ismn_iff]
        simp only [Bool.and_eq_true, startswith_eq_take]
        constructor
        · rintro (⟨h, _⟩ | ⟨_, h2, h3, h4⟩)
          · omega
          · exact ⟨⟨h3, by simp; omega⟩, h2, h4⟩
        · rintro ⟨⟨h3, _⟩, h2, h4⟩
          exact Or.inr ⟨h13, h2, h3, h4⟩
      rw [hs]
      cases startswith n [57, 55, 57, 48] <;> cases n.all isAsciiDigit <;> cases gs1 n <;> rfl
    · have e13 : (((n.length : Int) == 13)) = false := by
        simp only [beq_eq_false_iff_ne, ne_eq]; omega
      simp only [e13, Bool.false_eq_true, if_false]
      have hs : Std_ismn n = false := by
        cases h : Std_ismn n with
        | false => rfl
        | true => rcases (std_ismn_iff n).mp h with ⟨h, _⟩ | ⟨h, _⟩ <;> omega
      rw [hs]
      rfl


/-! ## IMO number -/

/-- a weighted-sum comprehension over `enumerate(p)` on a digit string, followed by any function of the sum -/
theorem enum_wsum {β : Type} (F : Int → β) (g : Int × Str → R Int) (wt : Nat → Int) (p : Str)
    (hp : AllIn isAsciiDigit p)
    (h : ∀ (i : Nat) c, isAsciiDigit c = true → g ((i : Int), [c]) = .ok (wt i * ((c - 48 : Nat) : Int))) :
    (do
      let l ← (Py.enumerate (Py.chars p) 0).mapM g
      pure (F (Py.sumInt l))) = (.ok (F (C17.wsum wt 0 (p.map (· - 48)))) : R β) := by
  obtain ⟨ws, h1, h2⟩ := C17.mapM_enum_digits g wt p hp h 0
  simp only [Int.natCast_zero] at h1
  simp only [h1, bind_ok, pure_ok, h2]

def wtIMO (i : Nat) : Int := 7 - (i : Int)

theorem imo_calc_eq (p : Str) (hp : AllIn isAsciiDigit p) (hl : p.length = 6) :
    Gen.imo.calc_check_digit p = .ok (Py.strOfInt (C17.wsum wtIMO 0 (p.map (· - 48)) % 10)) := by
  unfold Gen.imo.calc_check_digit
  rw [slice_none_nonneg p (by decide)]
  have h6 : p.take (6 : Int).toNat = p := by
    rw [List.take_of_length_le]; rw [hl]; decide
  rw [h6]
  apply enum_wsum (fun s => Py.strOfInt (s % 10)) _ wtIMO p hp
  intro i c hc
  simp only [intOf_singleton_digit c hc, bind_ok, pure_ok]
  have hb := digit_bounds hc
  have hcv : (c : Int) - 48 = ((c - 48 : Nat) : Int) := by omega
  rw [hcv, Int.mul_comm]
  rfl

theorem imo_wsum (l : List Nat) (hl : l.length ≤ 7) :
    ((Spec.Standards.wsum (fun i => 8 - i) 1 l : Nat) : Int) = C17.wsum wtIMO 0 l := by
  rw [wsum_cast _ (fun i => 8 - (i : Int)) l 1 (fun i h1 h2 => by omega)]
  exact C17.wsum_shift wtIMO _ (fun i => by unfold wtIMO; omega) l 0

theorem canon_imo_eq (x : Str) :
    canon_imo x = (if startswith (strip (upper (cleanP x [32]))) [73, 77, 79] = true
      then (strip (upper (cleanP x [32]))).drop 3 else strip (upper (cleanP x [32]))) := by
  unfold canon_imo Gen.imo.compact
  simp only [clean_eq, bind_ok, pure_ok]
  split
  · rw [slice_nonneg_none _ (by decide)]; rfl
  · rfl

theorem imo_agrees_with_standard (x : Str) :
    (Gen.imo.validate x).toOption =
      if Std_imo (canon_imo x) = true then some (canon_imo x) else none := by
  rw [canon_imo_eq]
  unfold Gen.imo.validate Gen.imo.compact
  simp only [clean_eq, isdigits_eq, bind_ok, pure_ok, C17.slice_none_neg_one]
  have hc : (if startswith (strip (upper (cleanP x [32]))) [73, 77, 79] = true then
        (Except.ok (slice (strip (upper (cleanP x [32]))) (some 3) none) : R Str)
      else Except.ok (strip (upper (cleanP x [32])))) =
      .ok (if startswith (strip (upper (cleanP x [32]))) [73, 77, 79] = true
        then (strip (upper (cleanP x [32]))).drop 3 else strip (upper (cleanP x [32]))) := by
    split
    · rw [slice_nonneg_none _ (by decide)]; rfl
    · rfl
  rw [hc]
  simp only [bind_ok]
  generalize (if startswith (strip (upper (cleanP x [32]))) [73, 77, 79] = true
    then (strip (upper (cleanP x [32]))).drop 3 else strip (upper (cleanP x [32]))) = n
  unfold Std_imo
  rw [isD_eq]
  cases hd : isDigitsB n with
  | false =>
    have : (n.length == 7 && n.all isAsciiDigit) = false := by
      cases h : (n.length == 7 && n.all isAsciiDigit) with
      | false => rfl
      | true =>
        simp only [Bool.and_eq_true, beq_iff_eq] at h
        have : isDigitsB n = true := (isDigitsB_iff n).mpr ⟨by
          intro h0; subst h0; simp at h, all_iff_allIn.mp h.2⟩
        rw [this] at hd; cases hd
    rw [this]
    rfl
  | true =>
    obtain ⟨hne, hD⟩ := (isDigitsB_iff n).mp hd
    simp only [Bool.not_true, Bool.false_eq_true, if_false]
    by_cases h7 : n.length = 7
    · have e7 : ((n.length : Int) != 7) = false := by simp [h7]
      have hp : AllIn isAsciiDigit n.dropLast := fun c hc => hD c (List.dropLast_subset _ hc)
      have hlp : n.dropLast.length = 6 := by simp [h7]
      simp only [e7, Bool.false_eq_true, if_false]
      rw [imo_calc_eq _ hp hlp, getItem_neg_one n hne]
      simp only [bind_ok]
      have htk : n.take 6 = n.dropLast := by rw [List.dropLast_eq_take, h7]
      have hlast : n.getD 6 0 = n.getLast hne := by
        rw [List.getLast_eq_getElem, List.getD_eq_getElem?_getD, List.getElem?_eq_getElem (by omega)]
        simp [h7]
      have hk := digit_bounds (hD _ (List.getLast_mem hne))
      rw [htk, hlast, all_iff_allIn.mpr hD]
      have hS := imo_wsum (n.dropLast.map dv) (by rw [List.length_map, hlp]; decide)
      have hdv : n.dropLast.map dv = n.dropLast.map (· - 48) := rfl
      rw [hdv] at hS ⊢
      generalize C17.wsum wtIMO 0 (n.dropLast.map (· - 48)) = S at hS ⊢
      generalize Spec.Standards.wsum (fun i => 8 - i) 1 (n.dropLast.map (· - 48)) = T at hS ⊢
      have h0 : 0 ≤ S % 10 := Int.emod_nonneg _ (by decide)
      have h9 : S % 10 ≤ 9 := by omega
      rw [strOfInt_digit _ ⟨h0, h9⟩]
      by_cases heq : T % 10 = dv (n.getLast hne)
      · have : (n.length == 7 && true && T % 10 == dv (n.getLast hne)) = true := by simp [h7, heq]
        rw [this]
        have : 48 + (S % 10).toNat = n.getLast hne := by unfold dv at heq; omega
        rw [this]
        simp [Except.toOption]
      · have : (n.length == 7 && true && T % 10 == dv (n.getLast hne)) = false := by simp [h7, heq]
        rw [this]
        have : 48 + (S % 10).toNat ≠ n.getLast hne := by unfold dv at heq; omega
        have : (([48 + (S % 10).toNat] : Str) != [n.getLast hne]) = true := by simpa using this
        simp [this, Except.toOption]
    · have e7 : ((n.length : Int) != 7) = true := by
        simp only [bne_iff_ne, ne_eq]; omega
      have : (n.length == 7) = false := by simpa using h7
      simp only [e7, if_true, this, Bool.false_and]
      rfl

/-! ## Non-vacuity: the theorems instantiated on the docstring numbers (the standard's verdict is evaluated by
the kernel on the declarative predicate, the theorem transfers it to the generated `validate`) -/
section Examples
open Props.C17 in
example : (Gen.issn.validate (str% "0024-9319")).toOption = some (str% "00249319") := by
  rw [issn_agrees_with_standard]; decide +kernel
open Props.C17 in
example : (Gen.issn.validate (str% "0032147X")).toOption = none := by
  rw [issn_agrees_with_standard]; decide +kernel
open Props.C17 in
example : (Gen.ean.validate (str% "73513537")).toOption = some (str% "73513537") := by
  rw [ean_agrees_with_standard]; decide +kernel
open Props.C17 in
example : (Gen.ean.validate (str% "978-0-471-11709-4")).toOption = some (str% "9780471117094") := by
  rw [ean_agrees_with_standard]; decide +kernel
open Props.C17 in
example : (Gen.ean.validate (str% "98412345678908")).toOption = some (str% "98412345678908") := by
  rw [ean_agrees_with_standard]; decide +kernel
open Props.C17 in
example : (Gen.ean.validate (str% "9780471117095")).toOption = none := by
  rw [ean_agrees_with_standard]; decide +kernel
open Props.C17 in
example : (Gen.isbn.validate (str% "1-85798-218-5") false).toOption = some (str% "1857982185") := by
  rw [isbn_agrees_with_standard]; decide +kernel
open Props.C17 in
example : (Gen.isbn.validate (str% "80442957X") false).toOption = some (str% "080442957X") := by
  rw [isbn_agrees_with_standard]; decide +kernel
open Props.C17 in
example : (Gen.isbn.validate (str% "978-0-471-11709-4") false).toOption = some (str% "9780471117094") := by
  rw [isbn_agrees_with_standard]; decide +kernel
open Props.C17 in
example : (Gen.isbn.validate (str% "1857982184") false).toOption = none := by
  rw [isbn_agrees_with_standard]; decide +kernel
open Props.C17 in
example : (Gen.ismn.validate (str% "979-0-3452-4680-5")).toOption = some (str% "9790345246805") := by
  rw [ismn_agrees_with_standard]; decide +kernel
open Props.C17 in
example : (Gen.ismn.validate (str% "M-2306-7118-7")).toOption = some (str% "M230671187") := by
  rw [ismn_agrees_with_standard]; decide +kernel
open Props.C17 in
example : (Gen.ismn.validate (str% "9790060115615")).toOption = some (str% "9790060115615") := by
  rw [ismn_agrees_with_standard]; decide +kernel
open Props.C17 in
example : (Gen.imo.validate (str% "IMO 9319466")).toOption = some (str% "9319466") := by
  rw [imo_agrees_with_standard]; decide +kernel
open Props.C17 in
example : (Gen.imo.validate (str% "8814274")).toOption = none := by
  rw [imo_agrees_with_standard]; decide +kernel
/-- the compact form is not a fixed point of a second `compact` in general (`'ŉ'.upper() = 'ʼN'`, and `clean` maps
`ʼ` to an apostrophe), which is why `Props/C07u.lean` proves the weaker `Tame` -/
example : canon_isbn [329] = [700, 78] ∧ canon_isbn [700, 78] = [39, 78] := by decide +kernel
end Examples

end Props.C07

#print axioms Props.C07.issn_agrees_with_standard
#print axioms Props.C07.ean_agrees_with_standard
#print axioms Props.C07.isbn_agrees_with_standard
#print axioms Props.C07.ismn_agrees_with_standard
#print axioms Props.C07.imo_agrees_with_standard
