import Props.C07a
/-!
# C07 (part b) — IMEI, CAS RN, ISIN, CUSIP, SEDOL, FIGI
-/
namespace Props.C07
open Py Spec.Checksum Lemmas.Refine Lemmas.Fold Props.C06 Props.C06Gen Props Spec.Standards

/-! ## Luhn: the generated `luhn.validate` on a digit string is the congruence of `Spec.Standards.luhn` -/

/-- the Luhn summand of the standard: every second digit doubled, the digits of the product added -/
def luhnF (i d : Nat) : Nat := if i % 2 = 0 then d else digitSum (2 * d)

theorem luhn_sum (l : List Nat) : ∀ k, k % 2 = 0 →
    (Luhn.evens l).sum + ((Luhn.odds l).map (Luhn.dbl 10)).sum = fsum luhnF k l := by
  fun_induction Luhn.evens l with
  | case1 => intro k _; rfl
  | case2 a => intro k hk; simp [Luhn.odds, fsum, luhnF, hk]
  | case3 a b r ih =>
    intro k hk
    have hk1 : (k + 1) % 2 ≠ 0 := by omega
    simp only [Luhn.odds, List.map_cons, List.sum_cons, fsum, luhnF, hk, hk1, if_true, if_false]
    rw [← ih (k + 1 + 1) (by omega)]
    have : Luhn.dbl 10 b = digitSum (2 * b) := by
      unfold Luhn.dbl digitSum
      rw [Nat.mul_comm]
    rw [this]
    omega

theorem idxOf_d10 {c : Nat} (h : isAsciiDigit c = true) : d10.idxOf c = c - 48 := by
  have hb := digit_bounds h
  have : c = 48 ∨ c = 49 ∨ c = 50 ∨ c = 51 ∨ c = 52 ∨ c = 53 ∨ c = 54 ∨ c = 55 ∨ c = 56 ∨ c = 57 := by omega
  rcases this with rfl | rfl | rfl | rfl | rfl | rfl | rfl | rfl | rfl | rfl <;> rfl

theorem gen_luhn_validate_digits {n : Str} (hD : AllIn isAsciiDigit n) (hne : n ≠ []) :
    Gen.luhn.validate n d10 =
      if Spec.Standards.luhn (n.map dv) = true then .ok n else .error .invalidChecksum := by
  rw [C06Gen.luhn_validate_eq]
  unfold Luhn.validate
  have he : n.isEmpty = false := by cases n with | nil => exact absurd rfl hne | cons _ _ => rfl
  rw [he]
  simp only [Bool.false_eq_true, if_false]
  have hck : Luhn.checksum n d10 = .ok (fsum luhnF 0 (n.map dv).reverse % 10) := by
    unfold Luhn.checksum
    rw [mapM_ok (Spec.Checksum.index d10) (· - 48) n.reverse (fun c hc => by
      have hd := hD c (List.mem_reverse.mp hc)
      rw [index_ok d10 c (C17.mem_d10.mpr hd), idxOf_d10 hd])]
    simp only [ok_bind]
    have hl : d10.length = 10 := rfl
    rw [hl, if_neg (by decide), luhn_sum _ 0 rfl, List.map_reverse]
    rfl
  unfold validateBody tryExcept
  rw [hck]
  unfold Spec.Standards.luhn
  simp only [ok_bind, pure_eq_ok]
  have : (fun i d => if i % 2 = 0 then d else digitSum (2 * d)) = luhnF := rfl
  rw [this]
  cases (fsum luhnF 0 (n.map dv).reverse % 10 == 0) <;> rfl

/-! ## IMEI -/

theorem canon_imei_eq (x : Str) : canon_imei x = upper (strip (cleanP x [32, 45])) := by
  unfold canon_imei Gen.imei.compact
  simp only [clean_eq, bind_ok, pure_ok]
  rfl

theorem imei_agrees_with_standard (x : Str) :
    (Gen.imei.validate x).toOption =
      if Std_imei (canon_imei x) = true then some (canon_imei x) else none := by
  rw [canon_imei_eq]
  unfold Gen.imei.validate Gen.imei.compact
  simp only [clean_eq, isdigits_eq, bind_ok, pure_ok]
  generalize upper (strip (cleanP x [32, 45])) = n
  unfold Std_imei
  rw [isD_eq]
  cases hd : isDigitsB n with
  | false =>
    have : (n.all isAsciiDigit && (n.length == 15 && Spec.Standards.luhn (n.map dv) || n.length == 14 || n.length == 16)) = false := by
      cases h : (n.all isAsciiDigit && (n.length == 15 && Spec.Standards.luhn (n.map dv) || n.length == 14 || n.length == 16)) with
      | false => rfl
      | true =>
        simp only [Bool.and_eq_true, Bool.or_eq_true, beq_iff_eq] at h
        have : isDigitsB n = true := (isDigitsB_iff n).mpr ⟨by
          intro h0; subst h0; simp at h, all_iff_allIn.mp h.1⟩
        rw [this] at hd; cases hd
    rw [this]
    rfl
  | true =>
    obtain ⟨hne, hD⟩ := (isDigitsB_iff n).mp hd
    rw [all_iff_allIn.mpr hD]
    simp only [Bool.not_true, Bool.false_eq_true, if_false, Bool.true_and]
    by_cases h15 : n.length = 15
    · have e15 : ((n.length : Int) == 15) = true := by simp [h15]
      have hd10 : ([48, 49, 50, 51, 52, 53, 54, 55, 56, 57] : Str) = d10 := rfl
      simp only [e15, if_true, hd10]
      rw [gen_luhn_validate_digits hD hne]
      have : (n.length == 15) = true := by simp [h15]
      rw [this, Bool.true_and]
      have e14 : (n.length == 14) = false := by simp [h15]
      have e16 : (n.length == 16) = false := by simp [h15]
      rw [e14, e16]
      cases Spec.Standards.luhn (n.map dv) <;> rfl
    · have e15 : ((n.length : Int) == 15) = false := by
        simp only [beq_eq_false_iff_ne, ne_eq]; omega
      have : (n.length == 15) = false := by simpa using h15
      simp only [e15, Bool.false_eq_true, if_false, this, Bool.false_and, Bool.false_or]
      have hc : ([(14 : Int), 16].contains (n.length : Int)) = (n.length == 14 || n.length == 16) := by
        simp only [List.contains_cons, List.contains_nil, Bool.or_false]
        rw [Bool.eq_iff_iff]
        simp only [Bool.or_eq_true, beq_iff_eq]
        omega
      rw [hc]
      cases (n.length == 14 || n.length == 16) <;> rfl


/-! ## "double add double": the string-level computation of the generated code

`''.join(str(w(i) * value(c)) for i, c in enumerate(number))`, then `sum(int(n) for n in …)`: the sum of the decimal
digits of the products. -/

/-- sum of the digit values of a digit string -/
def sumDigits (s : Str) : Nat := (s.map (· - 48)).sum

theorem sumDigits_append (s t : Str) : sumDigits (s ++ t) = sumDigits s + sumDigits t := by
  simp [sumDigits]

/-- `str(x)` for `x < 100`: a digit string whose digits add up to `digitSum x` -/
theorem strOfInt_lt100 (x : Nat) (hx : x < 100) :
    AllIn isAsciiDigit (Py.strOfInt (x : Int)) ∧ sumDigits (Py.strOfInt (x : Int)) = digitSum x := by
  rw [strOfInt_natCast]
  by_cases h : x < 10
  · rw [strOfNat_of_lt_ten h]
    refine ⟨?_, ?_⟩
    · intro c hc
      have : c = 48 + x := by simpa using hc
      subst this
      simp only [isAsciiDigit, Bool.and_eq_true, decide_eq_true_eq]; omega
    · simp only [sumDigits, digitSum, List.map_cons, List.map_nil, List.sum_cons, List.sum_nil]; omega
  · rw [strOfNat_of_ge_ten (by omega), strOfNat_of_lt_ten (by omega : x / 10 < 10)]
    refine ⟨?_, ?_⟩
    · intro c hc
      have : c = 48 + x / 10 ∨ c = 48 + x % 10 := by simpa using hc
      rcases this with rfl | rfl <;> simp only [isAsciiDigit, Bool.and_eq_true, decide_eq_true_eq] <;> omega
    · simp only [sumDigits, digitSum, List.map_cons, List.map_nil, List.sum_cons, List.sum_nil, List.cons_append,
        List.nil_append]
      omega

/-- `[h(n) for n in s]` with `h = int` on a digit string -/
theorem digits_mapM (h : Str → R Int) (hh : ∀ c, isAsciiDigit c = true → h [c] = .ok ((c - 48 : Nat) : Int))
    (s : Str) (hs : AllIn isAsciiDigit s) :
    ∃ ds, (Py.chars s).mapM h = .ok ds ∧ Py.sumInt ds = ((sumDigits s : Nat) : Int) := by
  induction s with
  | nil => exact ⟨[], rfl, rfl⟩
  | cons c s ih =>
    obtain ⟨ds, h1, h2⟩ := ih (fun x hx => hs x (List.mem_cons_of_mem _ hx))
    refine ⟨((c - 48 : Nat) : Int) :: ds, ?_, ?_⟩
    · rw [chars_cons, List.mapM_cons, hh c (hs c List.mem_cons_self), h1]; rfl
    · rw [sumInt_cons, h2]
      simp only [sumDigits, List.map_cons, List.sum_cons, Int.natCast_add]

/-- `f(i, c)` for the characters of `p` at positions `k, k+1, …` -/
def mapIdxFrom {β : Type} (f : Nat → Nat → β) : Nat → Str → List β
  | _, [] => []
  | k, c :: p => f k c :: mapIdxFrom f (k + 1) p

/-- a comprehension over `enumerate(p, k)` whose body succeeds on every character of class `P` -/
theorem mapM_enum {β : Type} (g : Int × Str → R β) (f : Nat → Nat → β) (P : Nat → Bool) (p : Str)
    (hp : AllIn P p) (h : ∀ (i : Nat) c, P c = true → g ((i : Int), [c]) = .ok (f i c)) :
    ∀ (k : Nat), (Py.enumerate (Py.chars p) (k : Int)).mapM g = .ok (mapIdxFrom f k p) := by
  induction p with
  | nil => intro k; rfl
  | cons c p ih =>
    intro k
    rw [chars_cons, enumerate_cons, List.mapM_cons, h k c (hp c List.mem_cons_self)]
    have : ((k : Int) + 1) = ((k + 1 : Nat) : Int) := by simp
    rw [this, ih (fun x hx => hp x (List.mem_cons_of_mem _ hx)) (k + 1)]
    rfl

/-- the digit strings `str(F(i, c))`, `F < 100`, joined: digits, adding up to `Σ digitSum (F(i, c))` -/
theorem parts_digits (F : Nat → Nat → Nat) (P : Nat → Bool) (p : Str) (hp : AllIn P p)
    (hF : ∀ i c, P c = true → F i c < 100) : ∀ k,
    AllIn isAsciiDigit (mapIdxFrom (fun i c => Py.strOfInt ((F i c : Nat) : Int)) k p).flatten ∧
    sumDigits (mapIdxFrom (fun i c => Py.strOfInt ((F i c : Nat) : Int)) k p).flatten =
      fsum (fun i c => digitSum (F i c)) k p := by
  induction p with
  | nil => intro k; exact ⟨fun _ h => by simp [mapIdxFrom] at h, rfl⟩
  | cons c p ih =>
    intro k
    obtain ⟨h1, h2⟩ := ih (fun x hx => hp x (List.mem_cons_of_mem _ hx)) (k + 1)
    obtain ⟨h3, h4⟩ := strOfInt_lt100 (F k c) (hF k c (hp c List.mem_cons_self))
    simp only [mapIdxFrom, List.flatten_cons, fsum]
    exact ⟨allIn_append h3 h1, by rw [sumDigits_append, h4, h2]⟩

/-- both stages of the generated `calc_check_digit` of CUSIP / FIGI / ISIN at once -/
theorem dad_calc {γ : Type} (G : Int → γ) (g : Int × Str → R Str) (h : Str → R Int) (F : Nat → Nat → Nat)
    (P : Nat → Bool) (p : Str) (hp : AllIn P p) (hF : ∀ i c, P c = true → F i c < 100)
    (hg : ∀ (i : Nat) c, P c = true → g ((i : Int), [c]) = .ok (Py.strOfInt ((F i c : Nat) : Int)))
    (hh : ∀ c, isAsciiDigit c = true → h [c] = .ok ((c - 48 : Nat) : Int)) :
    (do
      let parts ← (Py.enumerate (Py.chars p) 0).mapM g
      let ds ← (Py.chars (Py.join [] parts)).mapM h
      pure (G (Py.sumInt ds))) =
    (.ok (G ((fsum (fun i c => digitSum (F i c)) 0 p : Nat) : Int)) : R γ) := by
  have h1 := mapM_enum g _ P p hp hg 0
  simp only [Int.natCast_zero] at h1
  obtain ⟨h2, h3⟩ := parts_digits F P p hp hF 0
  rw [h1]
  simp only [bind_ok, join_nil]
  obtain ⟨ds, h4, h5⟩ := digits_mapM h hh _ h2
  rw [h4]
  simp only [bind_ok, pure_ok, h5, h3]


/-! ## CUSIP -/

/-- `'0123456789ABCDEFGHIJKLMNOPQRSTUVWXYZ*@#'` -/
abbrev a39 : Str := [48, 49, 50, 51, 52, 53, 54, 55, 56, 57, 65, 66, 67, 68, 69, 70, 71, 72, 73, 74, 75, 76, 77, 78,
  79, 80, 81, 82, 83, 84, 85, 86, 87, 88, 89, 90, 42, 64, 35]

def isCusipChar (c : Nat) : Bool := Spec.Standards.isDU c || c == 42 || c == 64 || c == 35

theorem a39_spec : ∀ c ∈ a39, a39.idxOf c = cusipVal c ∧ cusipVal c < 39 := by decide

theorem mem_a39 {c : Nat} : a39.contains c = isCusipChar c := by
  rw [Bool.eq_iff_iff]
  simp only [isCusipChar, Spec.Standards.isDU, Spec.Standards.isD, Spec.Standards.isU, List.contains_iff_mem,
    List.mem_cons, List.not_mem_nil, or_false, Bool.or_eq_true, Bool.and_eq_true, decide_eq_true_eq, beq_iff_eq]
  omega

/-- weights 1, 2, 1, 2, … from the left (positions from 0) -/
def w12 (i : Nat) : Nat := if i % 2 = 0 then 1 else 2

theorem cusip_calc_eq (p : Str) (hp : AllIn isCusipChar p) :
    Gen.cusip.calc_check_digit p =
      .ok (Py.strOfInt ((10 - ((fsum (fun i c => digitSum (w12 i * cusipVal c)) 0 p : Nat) : Int)) % 10)) := by
  unfold Gen.cusip.calc_check_digit
  apply dad_calc (fun s => Py.strOfInt ((10 - s) % 10)) _ _ (fun i c => w12 i * cusipVal c) isCusipChar p hp
  · intro i c hc
    have := (a39_spec c (by rw [← List.contains_iff_mem, mem_a39]; exact hc)).2
    unfold w12; split <;> omega
  · intro i c hc
    have hm : c ∈ a39 := by rw [← List.contains_iff_mem, mem_a39]; exact hc
    have hi : (i : Int) % 2 = ((i % 2 : Nat) : Int) := by omega
    simp only [hi, index_single, index_ok a39 c hm, (a39_spec c hm).1]
    unfold w12
    have g0 : Py.getItemL ([1, 2] : List Int) 0 = .ok 1 := by rfl
    have g1 : Py.getItemL ([1, 2] : List Int) 1 = .ok 2 := by rfl
    rcases Nat.mod_two_eq_zero_or_one i with h | h
    · rw [h]; simp [g0]
    · rw [h]; simp [g1]
  · intro c hc
    simp only [intOf_singleton_digit c hc]
    have hb := digit_bounds hc
    have hcv : (c : Int) - 48 = ((c - 48 : Nat) : Int) := by omega
    rw [hcv]


/-- `all(x in alphabet for x in number)` -/
theorem all_strIn (n al : Str) :
    ((Py.chars n).map (fun x => Py.strIn x al)).all id = n.all (fun c => al.contains c) := by
  induction n with
  | nil => rfl
  | cons c n ih => simp only [chars_cons, List.map_cons, List.all_cons, strIn_single, ih, id]

/-- "compute the check digit `(10 − S) mod 10` and compare" is "`S + check ≡ 0 (mod 10)` and the check character
is a digit" -/
theorem chk10_iff (S k : Nat) :
    Py.strOfInt ((10 - (S : Int)) % 10) = [k] ↔ isAsciiDigit k = true ∧ (S + (k - 48)) % 10 = 0 := by
  have h0 : 0 ≤ (10 - (S : Int)) % 10 := Int.emod_nonneg _ (by decide)
  have h9 : (10 - (S : Int)) % 10 ≤ 9 := by omega
  rw [strOfInt_digit _ ⟨h0, h9⟩]
  simp only [isAsciiDigit, Bool.and_eq_true, decide_eq_true_eq, List.cons.injEq, and_true]
  omega

theorem fsum_map_shift (f : Nat → Nat → Nat) (val : Nat → Nat) (p : Str) : ∀ k,
    fsum f (k + 1) (p.map val) = fsum (fun i c => f (i + 1) (val c)) k p := by
  induction p with
  | nil => intro k; rfl
  | cons c p ih => intro k; simp only [List.map_cons, fsum, ih]

theorem fsum_congr (f g : Nat → Nat → Nat) (p : List Nat) (h : ∀ i, ∀ c ∈ p, f i c = g i c) : ∀ k,
    fsum f k p = fsum g k p := by
  induction p with
  | nil => intro k; rfl
  | cons c p ih =>
    intro k
    simp only [fsum, h k c List.mem_cons_self, ih (fun i x hx => h i x (List.mem_cons_of_mem _ hx))]

/-- the standard's "2nd, 4th, … value doubled" (positions from 1) is the code's weights `1, 2, 1, 2, …` (from 0) -/
theorem dad_iff (val : Nat → Nat) (p : Str) (check : Nat) :
    dad (p.map val) check = true ↔ (fsum (fun i c => digitSum (w12 i * val c)) 0 p + check) % 10 = 0 := by
  unfold dad
  rw [fsum_map_shift, fsum_congr _ (fun i c => digitSum (w12 i * val c)) p (fun i c _ => by
    unfold w12
    rcases Nat.mod_two_eq_zero_or_one i with h | h
    · rw [if_pos (by omega), if_pos h, Nat.one_mul]
    · rw [if_neg (by omega), if_neg (by omega)])]
  simp

theorem getD_last {n : Str} (hne : n ≠ []) (k : Nat) (hk : n.length = k + 1) : n.getD k 0 = n.getLast hne := by
  rw [List.getLast_eq_getElem, List.getD_eq_getElem?_getD, List.getElem?_eq_getElem (by omega)]
  simp [hk]

theorem canon_cusip_eq (x : Str) : canon_cusip x = upper (strip (cleanP x [32])) := by
  unfold canon_cusip Gen.cusip.compact
  simp only [clean_eq, bind_ok, pure_ok]
  rfl

theorem cusip_agrees_with_standard (x : Str) :
    (Gen.cusip.validate x).toOption =
      if Std_cusip (canon_cusip x) = true then some (canon_cusip x) else none := by
  rw [canon_cusip_eq]
  unfold Gen.cusip.validate Gen.cusip.compact
  simp only [clean_eq, bind_ok, pure_ok, C17.slice_none_neg_one, all_strIn]
  generalize upper (strip (cleanP x [32])) = n
  have hall : (n.all fun c => a39.contains c) = n.all isCusipChar := by
    congr 1; funext c; exact mem_a39
  rw [hall]
  have hstd : Std_cusip n = true ↔ n.length = 9 ∧ AllIn isCusipChar n.dropLast ∧
      ∃ hne : n ≠ [], isAsciiDigit (n.getLast hne) = true ∧
        (fsum (fun i c => digitSum (w12 i * cusipVal c)) 0 n.dropLast + (n.getLast hne - 48)) % 10 = 0 := by
    unfold Std_cusip
    simp only [Bool.and_eq_true, beq_iff_eq, isD_eq, dad_iff, all_iff_allIn]
    constructor
    · rintro ⟨⟨⟨h1, h2⟩, h3⟩, h4⟩
      have hne : n ≠ [] := by intro h0; subst h0; simp at h1
      rw [getD_last hne 8 h1] at h3 h4
      exact ⟨h1, h2, hne, h3, h4⟩
    · rintro ⟨h1, h2, hne, h3, h4⟩
      rw [getD_last hne 8 h1]
      exact ⟨⟨⟨h1, h2⟩, h3⟩, h4⟩
  cases hc : n.all isCusipChar with
  | false =>
    have : Std_cusip n = false := by
      cases h : Std_cusip n with
      | false => rfl
      | true =>
        obtain ⟨_, h2, hne, h3, _⟩ := hstd.mp h
        have : n.all isCusipChar = true := by
          apply all_iff_allIn.mpr
          intro c hc
          rw [← List.dropLast_concat_getLast hne] at hc
          rcases List.mem_append.mp hc with h | h
          · exact h2 c h
          · rw [List.mem_singleton.mp h]
            have hb := digit_bounds h3
            simp only [isCusipChar, Spec.Standards.isDU, Spec.Standards.isD, Bool.or_eq_true, Bool.and_eq_true,
              decide_eq_true_eq]
            omega
        rw [this] at hc; cases hc
    rw [this]; rfl
  | true =>
    have hD := all_iff_allIn.mp hc
    simp only [Bool.not_true, Bool.false_eq_true, if_false]
    by_cases h9 : n.length = 9
    · have e9 : ((n.length : Int) != 9) = false := by simp [h9]
      have hne : n ≠ [] := by intro h0; subst h0; simp at h9
      have hp : AllIn isCusipChar n.dropLast := fun c hc => hD c (List.dropLast_subset _ hc)
      simp only [e9, Bool.false_eq_true, if_false]
      rw [cusip_calc_eq _ hp, getItem_neg_one n hne]
      simp only [bind_ok]
      have key := chk10_iff (fsum (fun i c => digitSum (w12 i * cusipVal c)) 0 n.dropLast) (n.getLast hne)
      generalize Py.strOfInt ((10 - ((fsum (fun i c => digitSum (w12 i * cusipVal c)) 0 n.dropLast : Nat) : Int)) % 10)
        = cs at key ⊢
      by_cases heq : cs = [n.getLast hne]
      · have : Std_cusip n = true := hstd.mpr ⟨h9, hp, hne, (key.mp heq).1, (key.mp heq).2⟩
        rw [this]
        subst heq
        simp [Except.toOption]
      · have : Std_cusip n = false := by
          cases h : Std_cusip n with
          | false => rfl
          | true =>
            obtain ⟨_, _, _, h3, h4⟩ := hstd.mp h
            exact absurd (key.mpr ⟨h3, h4⟩) heq
        rw [this]
        have : (cs != [n.getLast hne]) = true := by simpa using heq
        simp [this, Except.toOption]
    · have e9 : ((n.length : Int) != 9) = true := by
        simp only [bne_iff_ne, ne_eq]; omega
      have : Std_cusip n = false := by
        cases h : Std_cusip n with
        | false => rfl
        | true => exact absurd (hstd.mp h).1 h9
      rw [this]
      simp only [e9, if_true]
      rfl


/-! ## FIGI

The real code is knowingly more lenient than the standard: the reserved prefixes `GH` and `KY` are missing from its
list.  `figi_agrees_with_code_list` is the full equivalence with the list the code has, `figi_disagrees` the witness
against the equivalence with the published list, `figi_agrees_with_standard_partial` the equivalence for all inputs
whose first two characters are not `GH` or `KY`. -/

/-- `'0123456789BCDFGHJKLMNPQRSTVWXYZ'` -/
abbrev a31 : Str := [48, 49, 50, 51, 52, 53, 54, 55, 56, 57, 66, 67, 68, 70, 71, 72, 74, 75, 76, 77, 78, 80, 81, 82,
  83, 84, 86, 87, 88, 89, 90]

def isFigiChar (c : Nat) : Bool := Spec.Standards.isD c || isCons c

theorem mem_a31 {c : Nat} : a31.contains c = isFigiChar c := by
  by_cases h : c < 128
  · have : ∀ c < 128, a31.contains c = isFigiChar c := by decide
    exact this c h
  · have h1 : isFigiChar c = false := by
      simp only [isFigiChar, isCons, Spec.Standards.isD, Spec.Standards.isU, Bool.or_eq_false_iff,
        Bool.and_eq_false_iff, decide_eq_false_iff_not]
      omega
    rw [h1]
    cases hc : a31.contains c with
    | false => rfl
    | true =>
      have hm : c ∈ a31 := by simpa using hc
      have : ∀ c ∈ a31, c < 128 := by decide
      have := this c hm
      omega

theorem a36_spec : ∀ c ∈ C17.a36, C17.a36.idxOf c = v36 c ∧ v36 c < 36 := by decide

theorem figiChar_a36 {c : Nat} (h : isFigiChar c = true) : c ∈ C17.a36 := by
  have : a31.contains c = true := by rw [mem_a31]; exact h
  have hm : c ∈ a31 := by simpa using this
  have : ∀ c ∈ a31, c ∈ C17.a36 := by decide
  exact this c hm

theorem figi_calc_eq (p : Str) (hp : AllIn isFigiChar p) (hl : p.length = 11) :
    Gen.figi.calc_check_digit p =
      .ok (Py.strOfInt ((10 - ((fsum (fun i c => digitSum (w12 i * v36 c)) 0 p : Nat) : Int)) % 10)) := by
  unfold Gen.figi.calc_check_digit
  dsimp only
  rw [slice_none_nonneg p (by decide)]
  have h11 : p.take (11 : Int).toNat = p := by
    rw [List.take_of_length_le]; rw [hl]; decide
  rw [h11]
  apply dad_calc (fun s => Py.strOfInt ((10 - s) % 10)) _ _ (fun i c => w12 i * v36 c) isFigiChar p hp
  · intro i c hc
    have := (a36_spec c (figiChar_a36 hc)).2
    unfold w12; split <;> omega
  · intro i c hc
    have hm := figiChar_a36 hc
    have hi : (i : Int) % 2 = ((i % 2 : Nat) : Int) := by omega
    simp only [hi, index_single, index_ok C17.a36 c hm, (a36_spec c hm).1]
    unfold w12
    have g0 : Py.getItemL ([1, 2] : List Int) 0 = .ok 1 := by rfl
    have g1 : Py.getItemL ([1, 2] : List Int) 1 = .ok 2 := by rfl
    rcases Nat.mod_two_eq_zero_or_one i with h | h
    · rw [h]; simp [g0]
    · rw [h]; simp [g1, Int.mul_comm]
  · intro c hc
    simp only [intOf_singleton_digit c hc]
    have hb := digit_bounds hc
    have hcv : (c : Int) - 48 = ((c - 48 : Nat) : Int) := by omega
    rw [hcv]


theorem bool_false_of {b : Bool} (h : b = true → False) : b = false := by
  cases b with
  | false => rfl
  | true => exact absurd rfl h

/-- the reserved prefixes the code knows: `BS BM GG GB VG` -/
def figiReservedCode : List Str := [[66, 83], [66, 77], [71, 71], [71, 66], [86, 71]]

theorem canon_figi_eq (x : Str) : canon_figi x = upper (strip (cleanP x [32])) := by
  unfold canon_figi Gen.figi.compact
  simp only [clean_eq, bind_ok, pure_ok]
  rfl

theorem isdigits_single (c : Nat) : isDigitsB [c] = isAsciiDigit c := by
  simp [isDigitsB]

theorem cons_not_digit {c : Nat} (h : isCons c = true) : isAsciiDigit c = false := by
  simp only [isCons, Spec.Standards.isU, Bool.and_eq_true, decide_eq_true_eq] at h
  simp only [isAsciiDigit, Bool.and_eq_false_iff, decide_eq_false_iff_not]
  omega

theorem figiChar_cases {c : Nat} (h : isFigiChar c = true) : isAsciiDigit c = true ∨ isCons c = true := by
  simpa [isFigiChar, isD_eq] using h

/-- FIGI, the full equivalence with the list of reserved prefixes the code has -/
theorem figi_agrees_with_code_list (x : Str) :
    (Gen.figi.validate x).toOption =
      if Std_figi_res figiReservedCode (canon_figi x) = true then some (canon_figi x) else none := by
  rw [canon_figi_eq]
  unfold Gen.figi.validate Gen.figi.compact
  simp only [clean_eq, isdigits_eq, bind_ok, pure_ok, C17.slice_none_neg_one, all_strIn]
  generalize upper (strip (cleanP x [32])) = n
  have hall : (n.all fun c => a31.contains c) = n.all isFigiChar := by
    congr 1; funext c; exact mem_a31
  rw [hall]
  have hfc : (fun c => Spec.Standards.isD c || isCons c) = isFigiChar := rfl
  cases hc : n.all isFigiChar with
  | false =>
    have : Std_figi_res figiReservedCode n = false := by
      apply bool_false_of
      intro h
      unfold Std_figi_res at h
      simp only [Bool.and_eq_true, beq_iff_eq, hfc, all_iff_allIn] at h
      obtain ⟨⟨⟨⟨⟨⟨h1, _⟩, h3⟩, h4⟩, _⟩, _⟩, _⟩ := h
      have hne : n ≠ [] := by intro h0; subst h0; simp at h1
      have : n.all isFigiChar = true := by
        apply all_iff_allIn.mpr
        intro c hc
        rw [← List.dropLast_concat_getLast hne] at hc
        rcases List.mem_append.mp hc with h | h
        · exact h3 c h
        · rw [List.mem_singleton.mp h, ← getD_last hne 11 h1]
          unfold isFigiChar; rw [h4]; rfl
      rw [this] at hc; cases hc
    rw [this]; rfl
  | true =>
    have hD := all_iff_allIn.mp hc
    simp only [Bool.not_true, Bool.false_eq_true, if_false]
    by_cases h12 : n.length = 12
    · have e12 : ((n.length : Int) != 12) = false := by simp [h12]
      simp only [e12, Bool.false_eq_true, if_false]
      obtain ⟨a, b, g, r, rfl⟩ : ∃ a b g r, n = a :: b :: g :: r := by
        match n, h12 with
        | a :: b :: g :: r, _ => exact ⟨a, b, g, r, rfl⟩
      have hne : a :: b :: g :: r ≠ [] := by simp
      have hr : r ≠ [] := by intro h0; subst h0; simp at h12
      have g0 : Py.getItem (a :: b :: g :: r) 0 = .ok [a] := getItem_of_nonneg _ (by decide) (by simp)
      have g1 : Py.getItem (a :: b :: g :: r) 1 = .ok [b] := getItem_of_nonneg _ (by decide) (by simp)
      have g2 : Py.getItem (a :: b :: g :: r) 2 = .ok [g] := getItem_of_nonneg _ (by decide) (by simp)
      have ht : Py.slice (a :: b :: g :: r) none (some 2) = [a, b] := by
        rw [slice_none_nonneg _ (by decide)]; rfl
      have hp : AllIn isFigiChar (a :: b :: g :: r).dropLast := fun c hc => hD c (List.dropLast_subset _ hc)
      have hlp : (a :: b :: g :: r).dropLast.length = 11 := by simp at h12 ⊢; omega
      simp only [g0, g1, g2, ht, bind_ok, isdigits_single, figi_calc_eq _ hp hlp, getItem_neg_one _ hne]
      have hstd : Std_figi_res figiReservedCode (a :: b :: g :: r) = true ↔
          isCons a = true ∧ isCons b = true ∧ figiReservedCode.contains [a, b] = false ∧ g = 71 ∧
          isAsciiDigit ((a :: b :: g :: r).getLast hne) = true ∧
          (fsum (fun i c => digitSum (w12 i * v36 c)) 0 (a :: b :: g :: r).dropLast +
            ((a :: b :: g :: r).getLast hne - 48)) % 10 = 0 := by
        unfold Std_figi_res
        rw [getD_last hne 11 h12]
        simp only [Bool.and_eq_true, beq_iff_eq, isD_eq, dad_iff, h12,
          Bool.not_eq_true', List.take_succ_cons, List.take_zero, List.all_cons, List.all_nil, Bool.and_true,
          List.getD_cons_succ, List.getD_cons_zero, dv, true_and, and_assoc]
        constructor
        · rintro ⟨h1, h2, _, h4, h5, h6, h7⟩
          exact ⟨h1, h2, h5, h6, h4, h7⟩
        · rintro ⟨h1, h2, h5, h6, h4, h7⟩
          exact ⟨h1, h2, all_iff_allIn.mpr hp, h4, h5, h6, h7⟩
      have ha := figiChar_cases (hD a (by simp))
      have hb := figiChar_cases (hD b (by simp))
      by_cases hda : isAsciiDigit a = true
      · have : Std_figi_res figiReservedCode (a :: b :: g :: r) = false :=
          bool_false_of (fun h => by have := cons_not_digit (hstd.mp h).1; rw [hda] at this; cases this)
        rw [this]
        simp only [hda, if_true, bind_ok]
        rfl
      · have hca : isCons a = true := by rcases ha with h | h; exact absurd h hda; exact h
        have hda' : isAsciiDigit a = false := by simpa using hda
        by_cases hdb : isAsciiDigit b = true
        · have : Std_figi_res figiReservedCode (a :: b :: g :: r) = false :=
            bool_false_of (fun h => by have := cons_not_digit (hstd.mp h).2.1; rw [hdb] at this; cases this)
          rw [this]
          simp only [hda', hdb, Bool.false_eq_true, if_false, if_true, bind_ok]
          rfl
        · have hcb : isCons b = true := by rcases hb with h | h; exact absurd h hdb; exact h
          have hdb' : isAsciiDigit b = false := by simpa using hdb
          simp only [hda', hdb', Bool.false_eq_true, if_false, bind_ok]
          have hcl : ([[66, 83], [66, 77], [71, 71], [71, 66], [86, 71]] : List Str).contains [a, b] =
              figiReservedCode.contains [a, b] := rfl
          rw [hcl]
          cases hres : figiReservedCode.contains [a, b] with
          | true =>
            have : Std_figi_res figiReservedCode (a :: b :: g :: r) = false :=
              bool_false_of (fun h => by have := (hstd.mp h).2.2.1; rw [hres] at this; cases this)
            rw [this]
            rfl
          | false =>
            simp only [Bool.false_eq_true, if_false]
            by_cases hg : g = 71
            · subst hg
              simp only [bne_self_eq_false, Bool.false_eq_true, if_false]
              have key := chk10_iff (fsum (fun i c => digitSum (w12 i * v36 c)) 0 (a :: b :: 71 :: r).dropLast)
                ((a :: b :: 71 :: r).getLast hne)
              generalize Py.strOfInt ((10 - ((fsum (fun i c => digitSum (w12 i * v36 c)) 0
                (a :: b :: 71 :: r).dropLast : Nat) : Int)) % 10) = cs at key ⊢
              by_cases heq : cs = [(a :: b :: 71 :: r).getLast hne]
              · have : Std_figi_res figiReservedCode (a :: b :: 71 :: r) = true :=
                  hstd.mpr ⟨hca, hcb, hres, rfl, (key.mp heq).1, (key.mp heq).2⟩
                rw [this]
                subst heq
                simp [Except.toOption]
              · have : Std_figi_res figiReservedCode (a :: b :: 71 :: r) = false :=
                  bool_false_of (fun h => by
                    obtain ⟨_, _, _, _, h5, h6⟩ := hstd.mp h
                    exact heq (key.mpr ⟨h5, h6⟩))
                rw [this]
                have : (cs != [(a :: b :: 71 :: r).getLast hne]) = true := by simpa using heq
                rw [if_pos this]
                rfl
            · have : Std_figi_res figiReservedCode (a :: b :: g :: r) = false :=
                bool_false_of (fun h => hg (hstd.mp h).2.2.2.1)
              rw [this]
              have : (([g] : Str) != [71]) = true := by simpa using hg
              simp [this, Except.toOption]
    · have e12 : ((n.length : Int) != 12) = true := by
        simp only [bne_iff_ne, ne_eq]; omega
      have : Std_figi_res figiReservedCode n = false := by
        apply bool_false_of
        intro h
        unfold Std_figi_res at h
        simp only [Bool.and_eq_true, beq_iff_eq] at h
        exact h12 h.1.1.1.1.1.1
      rw [this]
      simp only [e12, if_true]
      rfl


/- FIGI, the full statement
     ∀ x, (Gen.figi.validate x).toOption = if Std_figi (canon_figi x) then some (canon_figi x) else none
   is FALSE on the current tree: -/
open Props.C17 in
theorem figi_disagrees :
    ¬ ∀ x, (Gen.figi.validate x).toOption =
      if Std_figi (canon_figi x) = true then some (canon_figi x) else none := by
  intro h
  have := h (str% "GHG000BLNQ18")
  rw [figi_agrees_with_code_list] at this
  revert this
  decide +kernel

open Props.C17 in
/-- the witness, evaluated on the generated function: the reserved prefix `GH` is accepted -/
theorem figi_witness : Gen.figi.validate (str% "GHG000BLNQ18") = .ok (str% "GHG000BLNQ18") ∧
    Std_figi (str% "GHG000BLNQ18") = false := by decide +kernel

/-- FIGI: agreement with the published rule for every input that does not start with `GH` or `KY` -/
theorem figi_agrees_with_standard_partial (x : Str)
    (hx : (canon_figi x).take 2 ≠ [71, 72] ∧ (canon_figi x).take 2 ≠ [75, 89]) :
    (Gen.figi.validate x).toOption =
      if Std_figi (canon_figi x) = true then some (canon_figi x) else none := by
  rw [figi_agrees_with_code_list]
  have : Std_figi (canon_figi x) = Std_figi_res figiReservedCode (canon_figi x) := by
    unfold Std_figi Std_figi_res
    have hc : figiReserved.contains ((canon_figi x).take 2) = figiReservedCode.contains ((canon_figi x).take 2) := by
      generalize (canon_figi x).take 2 = p at hx
      simp only [figiReserved, figiReservedCode, List.contains_cons, List.contains_nil, Bool.or_false]
      have h1 : (p == [71, 72]) = false := by simpa using hx.1
      have h2 : (p == [75, 89]) = false := by simpa using hx.2
      rw [h1, h2]
      simp
    rw [hc]
  rw [this]


/-! ## SEDOL -/

/-- `'0123456789 BCD FGH JKLMN PQRST VWXYZ'` (a space in the place of every vowel) -/
abbrev a36s : Str := [48, 49, 50, 51, 52, 53, 54, 55, 56, 57, 32, 66, 67, 68, 32, 70, 71, 72, 32, 74, 75, 76, 77, 78,
  32, 80, 81, 82, 83, 84, 32, 86, 87, 88, 89, 90]

theorem a36s_spec : ∀ c ∈ a36s, c ≠ 32 → a36s.idxOf c = v36 c ∧ isFigiChar c = true := by decide

theorem mem_a36s {c : Nat} : a36s.contains c = (isFigiChar c || c == 32) := by
  by_cases h : c < 128
  · have : ∀ c < 128, a36s.contains c = (isFigiChar c || c == 32) := by decide
    exact this c h
  · have h1 : (isFigiChar c || c == 32) = false := by
      simp only [isFigiChar, isCons, Spec.Standards.isD, Spec.Standards.isU, Bool.or_eq_false_iff,
        Bool.and_eq_false_iff, decide_eq_false_iff_not, beq_eq_false_iff_ne]
      omega
    rw [h1]
    cases hc : a36s.contains c with
    | false => rfl
    | true =>
      have hm : c ∈ a36s := by simpa using hc
      have : ∀ c ∈ a36s, c < 128 := by decide
      have := this c hm
      omega

theorem sedol_index {c : Nat} (h : isFigiChar c = true) : Py.index a36s [c] = .ok ((v36 c : Nat) : Int) := by
  have hne : c ≠ 32 := by intro h0; subst h0; revert h; decide
  have hm : c ∈ a36s := by
    have : a36s.contains c = true := by rw [mem_a36s, h]; rfl
    simpa using this
  rw [index_single, index_ok a36s c hm, (a36s_spec c hm hne).1]
  rfl

/-- no space survives `upper(strip(clean(x, ' ')))` -/
theorem no_space_compact (x : Str) : 32 ∉ upper (strip (cleanP x [32])) := by
  intro h
  have := upper_ascii_nonupper_origin _ 32 h (by decide) (by decide)
  exact not_mem_of_mem_cleanP (mem_of_mem_strip _ _ this) (by simp)

theorem canon_sedol_eq (x : Str) : canon_sedol x = upper (strip (cleanP x [32])) := by
  unfold canon_sedol Gen.gb_sedol.compact
  simp only [clean_eq, bind_ok, pure_ok]
  rfl

theorem v36_digit {c : Nat} (h : isAsciiDigit c = true) : v36 c = c - 48 := by
  have := digit_bounds h
  unfold v36; rw [if_pos (by omega)]

theorem sedol_agrees_with_standard (x : Str) :
    (Gen.gb_sedol.validate x).toOption =
      if Std_sedol (canon_sedol x) = true then some (canon_sedol x) else none := by
  rw [canon_sedol_eq]
  unfold Gen.gb_sedol.validate Gen.gb_sedol.compact
  simp only [clean_eq, isdigits_eq, bind_ok, pure_ok, C17.slice_none_neg_one, all_strIn]
  have h32 := no_space_compact x
  generalize upper (strip (cleanP x [32])) = n at h32 ⊢
  have hall : (n.all fun c => a36s.contains c) = n.all isFigiChar := by
    apply all_congr_mem
    intro c hc
    rw [mem_a36s]
    have : (c == 32) = false := by
      simp only [beq_eq_false_iff_ne, ne_eq]; intro h0; subst h0; exact h32 hc
    rw [this, Bool.or_false]
  rw [hall]
  have hfc : (fun c => Spec.Standards.isD c || isCons c) = isFigiChar := rfl
  cases hc : n.all isFigiChar with
  | false =>
    have : Std_sedol n = false := by
      apply bool_false_of
      intro h
      unfold Std_sedol at h
      simp only [Bool.and_eq_true, beq_iff_eq, hfc, all_iff_allIn] at h
      obtain ⟨⟨⟨⟨h1, h2⟩, h3⟩, _⟩, _⟩ := h
      have hne : n ≠ [] := by intro h0; subst h0; simp at h1
      have : n.all isFigiChar = true := by
        apply all_iff_allIn.mpr
        intro c hc
        rw [← List.dropLast_concat_getLast hne] at hc
        rcases List.mem_append.mp hc with h | h
        · exact h2 c h
        · rw [List.mem_singleton.mp h, ← getD_last hne 6 h1]
          unfold isFigiChar; rw [h3]; rfl
      rw [this] at hc; cases hc
    rw [this]; rfl
  | true =>
    have hD := all_iff_allIn.mp hc
    simp only [Bool.not_true, Bool.false_eq_true, if_false]
    by_cases h7 : n.length = 7
    · have e7 : ((n.length : Int) != 7) = false := by simp [h7]
      simp only [e7, Bool.false_eq_true, if_false]
      obtain ⟨c0, c1, c2, c3, c4, c5, c6, rfl⟩ : ∃ c0 c1 c2 c3 c4 c5 c6, n = [c0, c1, c2, c3, c4, c5, c6] := by
        match n, h7 with
        | [c0, c1, c2, c3, c4, c5, c6], _ => exact ⟨c0, c1, c2, c3, c4, c5, c6, rfl⟩
      have k0 := hD c0 (by simp)
      have k1 := hD c1 (by simp)
      have k2 := hD c2 (by simp)
      have k3 := hD c3 (by simp)
      have k4 := hD c4 (by simp)
      have k5 := hD c5 (by simp)
      have g0 : Py.getItem [c0, c1, c2, c3, c4, c5, c6] 0 = .ok [c0] := getItem_of_nonneg _ (by decide) (by simp)
      have gl : Py.getItem [c0, c1, c2, c3, c4, c5, c6] (-1) = .ok [c6] := getItem_neg_one _ (by simp)
      have hcalc : Gen.gb_sedol.calc_check_digit [c0, c1, c2, c3, c4, c5] =
          .ok (Py.strOfInt ((10 - ((1 * v36 c0 + 3 * v36 c1 + 1 * v36 c2 + 7 * v36 c3 + 3 * v36 c4 + 9 * v36 c5 : Nat)
            : Int)) % 10)) := by
        unfold Gen.gb_sedol.calc_check_digit
        simp only [Py.chars, List.map_cons, List.map_nil, List.zip_cons_cons, List.zip_nil_right, List.mapM_cons,
          List.mapM_nil, bind_ok, pure_ok]
        rw [sedol_index k0, sedol_index k1, sedol_index k2, sedol_index k3, sedol_index k4, sedol_index k5]
        simp only [bind_ok, sumInt_cons]
        congr 3
        simp [Py.sumInt]
        omega
      have hdl0 : ([c0, c1, c2, c3, c4, c5, c6] : Str).dropLast = [c0, c1, c2, c3, c4, c5] := rfl
      simp only [g0, gl, bind_ok, isdigits_single, hdl0, hcalc]
      have key := chk10_iff (1 * v36 c0 + 3 * v36 c1 + 1 * v36 c2 + 7 * v36 c3 + 3 * v36 c4 + 9 * v36 c5) c6
      have hstd : Std_sedol [c0, c1, c2, c3, c4, c5, c6] = true ↔
          (isAsciiDigit c0 = true → isDigitsB [c0, c1, c2, c3, c4, c5, c6] = true) ∧ isAsciiDigit c6 = true ∧
          (1 * v36 c0 + 3 * v36 c1 + 1 * v36 c2 + 7 * v36 c3 + 3 * v36 c4 + 9 * v36 c5 + (c6 - 48)) % 10 = 0 := by
        unfold Std_sedol
        have hdl : ([c0, c1, c2, c3, c4, c5, c6] : Str).dropLast = [c0, c1, c2, c3, c4, c5] := rfl
        have hpl : ([c0, c1, c2, c3, c4, c5] : Str).all isFigiChar = true := by
          simp [k0, k1, k2, k3, k4, k5]
        rw [hdl, hfc, hpl]
        simp only [List.length_cons, List.length_nil, List.getD_cons_succ, List.getD_cons_zero, isD_eq,
          Spec.Standards.wsum, fsum, sedolW, List.map_cons, List.map_nil, List.getD_cons_succ,
          Bool.and_eq_true, Bool.or_eq_true, Bool.not_eq_true', beq_iff_eq, true_and, isDigitsB,
          List.isEmpty_cons, Bool.not_false]
        constructor
        · rintro ⟨⟨h3, h4⟩, h5⟩
          rw [v36_digit h3] at h5
          refine ⟨?_, h3, by omega⟩
          intro hd
          rcases h4 with h4 | h4
          · rw [hd] at h4; cases h4
          · exact h4
        · rintro ⟨h4, h3, h5⟩
          rw [v36_digit h3]
          refine ⟨⟨h3, ?_⟩, by omega⟩
          cases hd : isAsciiDigit c0 with
          | false => exact Or.inl rfl
          | true => exact Or.inr (h4 hd)
      generalize Py.strOfInt ((10 - ((1 * v36 c0 + 3 * v36 c1 + 1 * v36 c2 + 7 * v36 c3 + 3 * v36 c4 + 9 * v36 c5 : Nat)
        : Int)) % 10) = cs at key ⊢
      cases hd0 : isAsciiDigit c0 with
      | true =>
        simp only [if_true, bind_ok]
        cases hdn : isDigitsB [c0, c1, c2, c3, c4, c5, c6] with
        | false =>
          have : Std_sedol [c0, c1, c2, c3, c4, c5, c6] = false :=
            bool_false_of (fun h => by have := (hstd.mp h).1 hd0; rw [hdn] at this; cases this)
          rw [this]
          rfl
        | true =>
          simp only [Bool.not_true, Bool.false_eq_true, if_false]
          by_cases heq : cs = [c6]
          · have : Std_sedol [c0, c1, c2, c3, c4, c5, c6] = true :=
              hstd.mpr ⟨fun _ => hdn, (key.mp heq).1, (key.mp heq).2⟩
            rw [this]
            subst heq
            simp [Except.toOption]
          · have : Std_sedol [c0, c1, c2, c3, c4, c5, c6] = false :=
              bool_false_of (fun h => heq (key.mpr (hstd.mp h).2))
            rw [this]
            have : (cs != [c6]) = true := by simpa using heq
            rw [if_pos this]
            rfl
      | false =>
        simp only [Bool.false_eq_true, if_false, bind_ok]
        by_cases heq : cs = [c6]
        · have : Std_sedol [c0, c1, c2, c3, c4, c5, c6] = true :=
            hstd.mpr ⟨fun h => (by rw [hd0] at h; cases h), (key.mp heq).1, (key.mp heq).2⟩
          rw [this]
          subst heq
          simp [Except.toOption]
        · have : Std_sedol [c0, c1, c2, c3, c4, c5, c6] = false :=
            bool_false_of (fun h => heq (key.mpr (hstd.mp h).2))
          rw [this]
          have : (cs != [c6]) = true := by simpa using heq
          rw [if_pos this]
          rfl
    · have e7 : ((n.length : Int) != 7) = true := by
        simp only [bne_iff_ne, ne_eq]; omega
      have : Std_sedol n = false := by
        apply bool_false_of
        intro h
        unfold Std_sedol at h
        simp only [Bool.and_eq_true, beq_iff_eq] at h
        exact h7 h.1.1.1.1
      rw [this]
      simp only [e7, if_true]
      rfl


/-! ## ISIN -/

/-- `[g(n) for n in p]` whose body succeeds on every character of class `P` -/
theorem mapM_chars {β : Type} (g : Str → R β) (f : Nat → β) (P : Nat → Bool) (p : Str)
    (hp : AllIn P p) (h : ∀ c, P c = true → g [c] = .ok (f c)) :
    (Py.chars p).mapM g = .ok (p.map f) := by
  induction p with
  | nil => rfl
  | cons c p ih =>
    rw [chars_cons, List.mapM_cons, h c (hp c List.mem_cons_self),
      ih (fun x hx => hp x (List.mem_cons_of_mem _ hx))]
    rfl

/-- `str(v)` for `v < 100` spells the decimal digits of `v` -/
theorem strOfInt_decDigits (v : Nat) (hv : v < 100) :
    (Py.strOfInt (v : Int)).map (· - 48) = decDigits v := by
  rw [strOfInt_natCast]
  unfold decDigits
  by_cases h : v < 10
  · rw [strOfNat_of_lt_ten h, if_pos h]; simp
  · rw [strOfNat_of_ge_ten (by omega), strOfNat_of_lt_ten (by omega : v / 10 < 10), if_neg h]; simp

/-- the ISIN with its letters replaced by 10..35, as a digit string -/
def isinExpand (p : Str) : Str := (p.map (fun c => Py.strOfInt ((v36 c : Nat) : Int))).flatten

theorem isinExpand_spec (p : Str) (hp : AllIn C17.isDU p) :
    AllIn isAsciiDigit (isinExpand p) ∧ (isinExpand p).map (· - 48) = p.flatMap (fun c => decDigits (v36 c)) := by
  induction p with
  | nil => exact ⟨fun _ h => by simp [isinExpand] at h, rfl⟩
  | cons c p ih =>
    obtain ⟨h1, h2⟩ := ih (fun x hx => hp x (List.mem_cons_of_mem _ hx))
    have hv : v36 c < 100 := by
      have := (a36_spec c (C17.mem_alpha36.mpr (hp c List.mem_cons_self))).2
      omega
    obtain ⟨h3, _⟩ := strOfInt_lt100 (v36 c) hv
    unfold isinExpand at h1 h2 ⊢
    simp only [List.map_cons, List.flatten_cons, List.map_append, List.flatMap_cons]
    exact ⟨allIn_append h3 h1, by rw [strOfInt_decDigits _ hv, h2]⟩

/-- weights 2, 1, 2, 1, … (positions from 0) -/
def w21 (i : Nat) : Nat := if i % 2 = 0 then 2 else 1

theorem isin_calc_eq (p : Str) (hp : AllIn C17.isDU p) :
    Gen.isin.calc_check_digit p =
      .ok (Py.strOfInt ((10 - ((fsum (fun i c => digitSum (w21 i * (c - 48))) 0 (isinExpand p).reverse : Nat) : Int)) % 10)) := by
  unfold Gen.isin.calc_check_digit
  have h0 := mapM_chars (fun (n : Str) => do pure (Py.strOfInt (← Py.index C17.a36 n)))
    (fun c => Py.strOfInt ((v36 c : Nat) : Int)) C17.isDU p hp (fun c hc => by
      have hm := C17.mem_alpha36.mpr hc
      simp only [index_single, index_ok C17.a36 c hm, (a36_spec c hm).1]
      rfl)
  dsimp only
  rw [h0]
  simp only [bind_ok]
  have hE := (isinExpand_spec p hp).1
  have hrev : AllIn isAsciiDigit (isinExpand p).reverse := fun c hc => hE c (List.mem_reverse.mp hc)
  have : Py.join [] (p.map (fun c => Py.strOfInt ((v36 c : Nat) : Int))) = isinExpand p := join_nil _
  rw [this, ← chars_reverse]
  apply dad_calc (fun s => Py.strOfInt ((10 - s) % 10)) _ _ (fun i c => w21 i * (c - 48)) isAsciiDigit _ hrev
  · intro i c hc
    have := digit_bounds hc
    unfold w21; split <;> omega
  · intro i c hc
    have hi : (i : Int) % 2 = ((i % 2 : Nat) : Int) := by omega
    simp only [hi, intOf_singleton_digit c hc]
    have hb := digit_bounds hc
    have hcv : (c : Int) - 48 = ((c - 48 : Nat) : Int) := by omega
    rw [hcv]
    unfold w21
    have g0 : Py.getItemL ([2, 1] : List Int) 0 = .ok 2 := by rfl
    have g1 : Py.getItemL ([2, 1] : List Int) 1 = .ok 1 := by rfl
    rcases Nat.mod_two_eq_zero_or_one i with h | h
    · rw [h]; simp [g0]
    · rw [h]; simp [g1]
  · intro c hc
    simp only [intOf_singleton_digit c hc]
    have hb := digit_bounds hc
    have hcv : (c : Int) - 48 = ((c - 48 : Nat) : Int) := by omega
    rw [hcv]


theorem fsum_map (g : Nat → Nat → Nat) (val : Nat → Nat) (s : Str) : ∀ k,
    fsum (fun i c => g i (val c)) k s = fsum g k (s.map val) := by
  induction s with
  | nil => intro k; rfl
  | cons c s ih => intro k; simp only [List.map_cons, fsum, ih]

theorem digitSum_lt10 {d : Nat} (h : d < 10) : digitSum d = d := by
  unfold digitSum; omega

/-- Luhn on `digits ++ [check]` against the code's weights 2, 1, 2, … on the reversed payload -/
theorem luhn_snoc (D : List Nat) (hD : ∀ d ∈ D, d < 10) (k : Nat) :
    Spec.Standards.luhn (D ++ [k]) = true ↔ (fsum (fun i d => digitSum (w21 i * d)) 0 D.reverse + k) % 10 = 0 := by
  unfold Spec.Standards.luhn
  have : (fun i d => if i % 2 = 0 then d else digitSum (2 * d)) = luhnF := rfl
  rw [this, List.reverse_append]
  simp only [List.reverse_cons, List.reverse_nil, List.nil_append, List.cons_append, fsum, beq_iff_eq]
  have h1 : luhnF 0 k = k := rfl
  have h2 : fsum luhnF (0 + 1) D.reverse = fsum (fun i d => digitSum (w21 i * d)) 0 D.reverse := by
    have hs := fsum_map_shift luhnF id D.reverse 0
    simp only [List.map_id_fun, id] at hs
    rw [hs]
    apply fsum_congr
    intro i d hd
    have hd' := hD d (List.mem_reverse.mp hd)
    unfold luhnF w21
    rcases Nat.mod_two_eq_zero_or_one i with h | h
    · rw [if_neg (by omega), if_pos h]
    · rw [if_pos (by omega), if_neg (by omega), Nat.one_mul, digitSum_lt10 hd']
  rw [h1, h2]
  omega

theorem isin_cc_upper : ∀ p ∈ Gen.isin._country_codes, p.all isAsciiUpper = true := by decide +kernel

theorem canon_isin_eq (x : Str) : canon_isin x = upper (strip (cleanP x [32])) := by
  unfold canon_isin Gen.isin.compact
  simp only [clean_eq, bind_ok, pure_ok]
  rfl

theorem decDigits_lt (v : Nat) (hv : v < 100) : ∀ d ∈ decDigits v, d < 10 := by
  unfold decDigits
  split
  · intro d hd; simp at hd; omega
  · intro d hd
    simp only [List.mem_cons, List.not_mem_nil, or_false] at hd
    rcases hd with rfl | rfl <;> omega

theorem isin_agrees_with_standard (x : Str) :
    (Gen.isin.validate x).toOption =
      if Std_isin (canon_isin x) = true then some (canon_isin x) else none := by
  rw [canon_isin_eq]
  unfold Gen.isin.validate Gen.isin.compact
  simp only [clean_eq, bind_ok, pure_ok, C17.slice_none_neg_one, all_strIn]
  generalize upper (strip (cleanP x [32])) = n
  have hall : (n.all fun c => C17.a36.contains c) = n.all C17.isDU := by
    congr 1; funext c
    rw [Bool.eq_iff_iff, List.contains_iff_mem]
    exact C17.mem_alpha36
  rw [hall]
  have hstd : Std_isin n = true ↔ n.length = 12 ∧ AllIn C17.isDU n ∧
      Gen.isin._country_codes.contains (n.take 2) = true ∧
      ∃ hne : n ≠ [], isAsciiDigit (n.getLast hne) = true ∧
        Spec.Standards.luhn (n.flatMap (fun c => decDigits (v36 c))) = true := by
    unfold Std_isin
    simp only [Bool.and_eq_true, beq_iff_eq, isD_eq, isU_eq, isDU_eq, all_iff_allIn]
    constructor
    · rintro ⟨⟨⟨⟨⟨h1, _⟩, h3⟩, h4⟩, h5⟩, h6⟩
      have hne : n ≠ [] := by intro h0; subst h0; simp at h1
      rw [getD_last hne 11 h1] at h4
      exact ⟨h1, h3, h5, hne, h4, h6⟩
    · rintro ⟨h1, h3, h5, hne, h4, h6⟩
      rw [getD_last hne 11 h1]
      refine ⟨⟨⟨⟨⟨h1, ?_⟩, h3⟩, h4⟩, h5⟩, h6⟩
      exact all_iff_allIn.mp (isin_cc_upper _ (by simpa using h5))
  cases hc : n.all C17.isDU with
  | false =>
    have : Std_isin n = false :=
      bool_false_of (fun h => by have := all_iff_allIn.mpr (hstd.mp h).2.1; rw [this] at hc; cases hc)
    rw [this]; rfl
  | true =>
    have hD := all_iff_allIn.mp hc
    simp only [Bool.not_true, Bool.false_eq_true, if_false]
    by_cases h12 : n.length = 12
    · have e12 : ((n.length : Int) != 12) = false := by simp [h12]
      have hne : n ≠ [] := by intro h0; subst h0; simp at h12
      have hp : AllIn C17.isDU n.dropLast := fun c hc => hD c (List.dropLast_subset _ hc)
      simp only [e12, Bool.false_eq_true, if_false]
      rw [slice_none_nonneg n (by decide)]
      have h2 : (2 : Int).toNat = 2 := rfl
      rw [h2]
      cases hcc : Gen.isin._country_codes.contains (n.take 2) with
      | false =>
        have : Std_isin n = false :=
          bool_false_of (fun h => by have := (hstd.mp h).2.2.1; rw [hcc] at this; cases this)
        rw [this]; rfl
      | true =>
        simp only [Bool.not_true, Bool.false_eq_true, if_false]
        rw [isin_calc_eq _ hp, getItem_neg_one n hne]
        simp only [bind_ok]
        obtain ⟨hE1, hE2⟩ := isinExpand_spec _ hp
        have hsum : fsum (fun i c => digitSum (w21 i * (c - 48))) 0 (isinExpand n.dropLast).reverse =
            fsum (fun i d => digitSum (w21 i * d)) 0 (n.dropLast.flatMap (fun c => decDigits (v36 c))).reverse := by
          rw [fsum_map (fun i d => digitSum (w21 i * d)) (· - 48), List.map_reverse, hE2]
        have hlt : ∀ d ∈ n.dropLast.flatMap (fun c => decDigits (v36 c)), d < 10 := by
          intro d hd
          obtain ⟨c, hc, hdc⟩ := List.mem_flatMap.mp hd
          have := (a36_spec c (C17.mem_alpha36.mpr (hp c hc))).2
          exact decDigits_lt _ (by omega) d hdc
        have hluhn : ∀ (hk : isAsciiDigit (n.getLast hne) = true),
            (Spec.Standards.luhn (n.flatMap (fun c => decDigits (v36 c))) = true ↔
              (fsum (fun i c => digitSum (w21 i * (c - 48))) 0 (isinExpand n.dropLast).reverse +
                (n.getLast hne - 48)) % 10 = 0) := by
          intro hk
          have hb := digit_bounds hk
          have hnl : n.flatMap (fun c => decDigits (v36 c)) =
              n.dropLast.flatMap (fun c => decDigits (v36 c)) ++ [n.getLast hne - 48] := by
            conv => lhs; rw [← List.dropLast_concat_getLast hne]
            rw [List.flatMap_append]
            simp only [List.flatMap_cons, List.flatMap_nil, List.append_nil]
            rw [v36_digit hk]
            unfold decDigits
            rw [if_pos (by omega)]
          rw [hnl, luhn_snoc _ hlt, hsum]
        have key := chk10_iff (fsum (fun i c => digitSum (w21 i * (c - 48))) 0 (isinExpand n.dropLast).reverse)
          (n.getLast hne)
        generalize Py.strOfInt ((10 - ((fsum (fun i c => digitSum (w21 i * (c - 48))) 0
          (isinExpand n.dropLast).reverse : Nat) : Int)) % 10) = cs at key ⊢
        by_cases heq : cs = [n.getLast hne]
        · have hk := (key.mp heq).1
          have : Std_isin n = true := hstd.mpr ⟨h12, hD, hcc, hne, hk, (hluhn hk).mpr (key.mp heq).2⟩
          rw [this]
          subst heq
          simp [Except.toOption]
        · have : Std_isin n = false :=
            bool_false_of (fun h => by
              obtain ⟨_, _, _, _, hk, hl⟩ := hstd.mp h
              exact heq (key.mpr ⟨hk, (hluhn hk).mp hl⟩))
          rw [this]
          have : (cs != [n.getLast hne]) = true := by simpa using heq
          rw [if_pos this]
          rfl
    · have e12 : ((n.length : Int) != 12) = true := by
        simp only [bne_iff_ne, ne_eq]; omega
      have : Std_isin n = false := bool_false_of (fun h => h12 (hstd.mp h).1)
      rw [this]
      simp only [e12, if_true]
      rfl

/-! ## Non-vacuity -/
section Examples
open Props.C17 in
example : (Gen.imei.validate (str% "35-209900-176148-1")).toOption = some (str% "352099001761481") := by
  rw [imei_agrees_with_standard]; decide +kernel
open Props.C17 in
example : (Gen.imei.validate (str% "35686800-004141-20")).toOption = some (str% "3568680000414120") := by
  rw [imei_agrees_with_standard]; decide +kernel
open Props.C17 in
example : (Gen.imei.validate (str% "35-417803-685978-1")).toOption = none := by
  rw [imei_agrees_with_standard]; decide +kernel
open Props.C17 in
example : (Gen.cusip.validate (str% "DUS0421C5")).toOption = some (str% "DUS0421C5") := by
  rw [cusip_agrees_with_standard]; decide +kernel
open Props.C17 in
example : (Gen.cusip.validate (str% "DUS0421CN")).toOption = none := by
  rw [cusip_agrees_with_standard]; decide +kernel
open Props.C17 in
example : (Gen.figi.validate (str% "BBG000BLNQ16")).toOption = some (str% "BBG000BLNQ16") := by
  rw [figi_agrees_with_standard_partial _ (by decide +kernel)]; decide +kernel
open Props.C17 in
example : (Gen.figi.validate (str% "BBG000BLNQ14")).toOption = none := by
  rw [figi_agrees_with_standard_partial _ (by decide +kernel)]; decide +kernel
open Props.C17 in
example : (Gen.gb_sedol.validate (str% "B15KXQ8")).toOption = some (str% "B15KXQ8") := by
  rw [sedol_agrees_with_standard]; decide +kernel
open Props.C17 in
example : (Gen.gb_sedol.validate (str% "0263494")).toOption = some (str% "0263494") := by
  rw [sedol_agrees_with_standard]; decide +kernel
open Props.C17 in
example : (Gen.gb_sedol.validate (str% "B15KXQ7")).toOption = none := by
  rw [sedol_agrees_with_standard]; decide +kernel
open Props.C17 in
example : (Gen.isin.validate (str% "US0378331005")).toOption = some (str% "US0378331005") := by
  rw [isin_agrees_with_standard]; decide +kernel
open Props.C17 in
example : (Gen.isin.validate (str% "US0378331003")).toOption = none := by
  rw [isin_agrees_with_standard]; decide +kernel
end Examples

end Props.C07

#print axioms Props.C07.imei_agrees_with_standard
#print axioms Props.C07.cusip_agrees_with_standard
#print axioms Props.C07.figi_agrees_with_code_list
#print axioms Props.C07.figi_disagrees
#print axioms Props.C07.figi_witness
#print axioms Props.C07.figi_agrees_with_standard_partial
#print axioms Props.C07.sedol_agrees_with_standard
#print axioms Props.C07.isin_agrees_with_standard
