import Props.C08i
import Props.C10
import Props.C11data.iban_link
import Lemmas.RegexReach
import Lemmas.RegexC07
/-!
# C08 (part j) — the IBANs built by `es.ccc.to_iban` / `no.kontonr.to_iban` against `iban.validate`

`Gen.iban.validate` looks the country up in the registry `Gen.db_iban.db`; `Props.C11.Data.iban.db_eq` (kernel-checked
reading of the embedded text of `iban.dat`) replaces it by the literal tree.
-/
namespace Props.C08
open Py Spec.Checksum Lemmas.Refine Lemmas.Fold Props.C06 Props.C06Gen Props.C17 Props.C07
open Spec.NumDB (Entry matchesNumber find info)

set_option maxRecDepth 100000
set_option linter.unusedVariables false

/-! ## the registry lookup of a number that begins with a two-letter country code -/

theorem iban_tree_len2 : ∀ e ∈ Props.C11.Data.iban.tree, e.length = 2 := by decide +kernel

theorem matches_take2 (w : Str) (hw : 2 ≤ w.length) (e : Entry) (he : e.length = 2) :
    matchesNumber w e = matchesNumber (w.take 2) e := by
  unfold matchesNumber
  rw [he, List.take_take, List.length_take]
  have h1 : decide (2 ≤ w.length) = true := by simpa using hw
  have h2 : decide (2 ≤ min 2 w.length) = true := by simp; omega
  rw [h1, h2]
  simp

theorem filter_take2 (w : Str) (hw : 2 ≤ w.length) :
    Props.C11.Data.iban.tree.filter (matchesNumber w) =
      Props.C11.Data.iban.tree.filter (matchesNumber (w.take 2)) := by
  apply List.filter_congr
  intro e he
  exact matches_take2 w hw e (iban_tree_len2 e he)

/-- the registry entry of a country code (a default entry if there is none) -/
noncomputable def ibanEntry (cc : Str) : Entry :=
  (Props.C11.Data.iban.tree.filter (matchesNumber cc)).headD ⟨0, [], [], [], []⟩

theorem eq_singleton_of_length_one {α : Type} (l : List α) (d : α) (h : l.length = 1) : l = [l.headD d] := by
  match l, h with
  | [a], _ => rfl

/-- `NumDB.info` of a number that begins with a country code for which the registry has exactly one entry (of length
two, without children): the country part with the properties of the entry, and the rest -/
theorem iban_info (w : Str) (hw : 2 < w.length)
    (h1 : (Props.C11.Data.iban.tree.filter (matchesNumber (w.take 2))).length = 1)
    (hch : (ibanEntry (w.take 2)).children.length = 0) :
    info Gen.db_iban.db w =
      [(w.take 2, Spec.NumDB.dictUpdate [] (ibanEntry (w.take 2)).props), (w.drop 2, [])] := by
  have hf : Props.C11.Data.iban.tree.filter (matchesNumber w) = [ibanEntry (w.take 2)] := by
    rw [filter_take2 w (by omega)]
    exact eq_singleton_of_length_one _ _ h1
  have hmem : ibanEntry (w.take 2) ∈ Props.C11.Data.iban.tree := by
    have : ibanEntry (w.take 2) ∈ Props.C11.Data.iban.tree.filter (matchesNumber w) := by rw [hf]; simp
    exact (List.mem_filter.mp this).1
  have hl2 : (ibanEntry (w.take 2)).length = 2 := iban_tree_len2 _ hmem
  have hne : w ≠ [] := by intro h0; subst h0; simp at hw
  unfold info
  rw [Props.C11.Data.iban.db_eq,
    Props.C10.find_matched _ w hne 2 ⟨_, by rw [hf]; simp, hl2⟩ (by
      intro e he; rw [hf] at he; simp at he; rw [he, hl2]; exact Nat.le_refl _)]
  have hsel : Props.C10.selected w Props.C11.Data.iban.tree 2 = [ibanEntry (w.take 2)] := by
    unfold Props.C10.selected
    rw [hf]
    simp [hl2]
  have hchn : (ibanEntry (w.take 2)).children = [] := List.eq_nil_of_length_eq_zero hch
  rw [hsel, Props.C10.mergeProps_singleton]
  simp only [List.flatMap_cons, List.flatMap_nil, List.append_nil, hchn]
  rw [Props.C10.unmatched_tail [] (w.drop 2) (by
      intro h0
      have := congrArg List.length h0
      simp at this; omega) (by intro e he; cases he)]

/-- Spain and Norway in the registry -/
theorem iban_ES : (Props.C11.Data.iban.tree.filter (matchesNumber [69, 83])).length = 1 ∧
    (ibanEntry [69, 83]).children.length = 0 ∧
    (Spec.NumDB.dictUpdate [] (ibanEntry [69, 83]).props).isEmpty = false ∧
    Py.dictGetD (Spec.NumDB.dictUpdate [] (ibanEntry [69, 83]).props) [98, 98, 97, 110] [] =
      [52, 33, 110, 52, 33, 110, 49, 33, 110, 49, 33, 110, 49, 48, 33, 110] := by
  decide +kernel

theorem iban_NO : (Props.C11.Data.iban.tree.filter (matchesNumber [78, 79])).length = 1 ∧
    (ibanEntry [78, 79]).children.length = 0 ∧
    (Spec.NumDB.dictUpdate [] (ibanEntry [78, 79]).props).isEmpty = false ∧
    Py.dictGetD (Spec.NumDB.dictUpdate [] (ibanEntry [78, 79]).props) [98, 98, 97, 110] [] =
      [52, 33, 110, 54, 33, 110, 49, 33, 110] := by
  decide +kernel

/-! ## the BBAN patterns of Spain and Norway match digit strings of the right length -/

/-- `_struct_to_re('4!n4!n1!n1!n10!n')` -/
def reES : Py.Re.Pattern :=
  { re := (.seq (.anchor .bol) (.seq (.rep true 4 (some 4) (.cls false [.range 48 57])) (.seq (.rep true 4 (some 4) (.cls false [.range 48 57])) (.seq (.rep true 1 (some 1) (.cls false [.range 48 57])) (.seq (.rep true 1 (some 1) (.cls false [.range 48 57])) (.seq (.rep true 10 (some 10) (.cls false [.range 48 57])) (.anchor .eol))))))), flags := {}, ngroups := 0, names := [] }

/-- `_struct_to_re('4!n6!n1!n')` -/
def reNO : Py.Re.Pattern :=
  { re := (.seq (.anchor .bol) (.seq (.rep true 4 (some 4) (.cls false [.range 48 57])) (.seq (.rep true 6 (some 6) (.cls false [.range 48 57])) (.seq (.rep true 1 (some 1) (.cls false [.range 48 57])) (.anchor .eol))))), flags := {}, ngroups := 0, names := [] }

theorem struct_ES : Gen.iban._struct_to_re [52, 33, 110, 52, 33, 110, 49, 33, 110, 49, 33, 110, 49, 48, 33, 110] =
    .ok reES := by rfl

theorem struct_NO : Gen.iban._struct_to_re [52, 33, 110, 54, 33, 110, 49, 33, 110] = .ok reNO := by rfl

open Py.Re Py.Re.C07 in
theorem reES_match (s : Str) (hD : AllIn isAsciiDigit s) (hl : s.length = 20) :
    (Re.match_ reES s).isSome = true := by
  rw [match_isSome_iff_reach (p := reES) rfl]
  have hcls : classMatch {} false [.range 48 57] = isAsciiDigit := funext cls_digit
  simp only [reES, reach_seq, reach_anchor, reach_rep_cls, hcls, leMax]
  have seg : Seg s isAsciiDigit 0 20 := Seg.of_allIn_slice (by omega) (by
    intro c hc
    exact hD c (by simp only [Re.slice] at hc; exact List.mem_of_mem_drop (List.mem_of_mem_take hc)))
  obtain ⟨s1, r1⟩ := seg.split (b := 4) (by omega) (by omega)
  obtain ⟨s2, r2⟩ := r1.split (b := 8) (by omega) (by omega)
  obtain ⟨s3, r3⟩ := r2.split (b := 9) (by omega) (by omega)
  obtain ⟨s4, s5⟩ := r3.split (b := 10) (by omega) (by omega)
  exact ⟨20, 0, ⟨rfl, by simp [anchorMatch]⟩, 4, ⟨4, by omega, by omega, s1, rfl⟩, 8, ⟨4, by omega, by omega, s2, rfl⟩,
    9, ⟨1, by omega, by omega, s3, rfl⟩, 10, ⟨1, by omega, by omega, s4, rfl⟩, 20, ⟨10, by omega, by omega, s5, rfl⟩,
    rfl, by simp [anchorMatch, hl]⟩

open Py.Re Py.Re.C07 in
theorem reNO_match (s : Str) (hD : AllIn isAsciiDigit s) (hl : s.length = 11) :
    (Re.match_ reNO s).isSome = true := by
  rw [match_isSome_iff_reach (p := reNO) rfl]
  have hcls : classMatch {} false [.range 48 57] = isAsciiDigit := funext cls_digit
  simp only [reNO, reach_seq, reach_anchor, reach_rep_cls, hcls, leMax]
  have seg : Seg s isAsciiDigit 0 11 := Seg.of_allIn_slice (by omega) (by
    intro c hc
    exact hD c (by simp only [Re.slice] at hc; exact List.mem_of_mem_drop (List.mem_of_mem_take hc)))
  obtain ⟨s1, r1⟩ := seg.split (b := 4) (by omega) (by omega)
  obtain ⟨s2, s3⟩ := r1.split (b := 10) (by omega) (by omega)
  exact ⟨11, 0, ⟨rfl, by simp [anchorMatch]⟩, 4, ⟨4, by omega, by omega, s1, rfl⟩, 10, ⟨6, by omega, by omega, s2, rfl⟩,
    11, ⟨1, by omega, by omega, s3, rfl⟩, rfl, by simp [anchorMatch, hl]⟩

/-! ## `iban.validate` on `cc + dd + bban`

The kernel must never be given a reason to unfold `Gen.db_iban.db` (it would decode the embedded text of `iban.dat`),
so the bodies of the two generated functions are restated with the registry as a parameter (`cfBody`, `vBody`, equal
to the generated functions by `rfl`: the definitions are copied verbatim) and the proofs are about an arbitrary
registry with the lookup result as a hypothesis. -/

/-- `Gen.iban.validate__check_country_False` with the registry as a parameter -/
def cfBody (db : List Entry) (number : Str) : R Str := do
  let mut number := number
  let mut info : List (Str × (List (Str × Str))) := ([] : List (Str × (List (Str × Str))))
  let mut bban : Str := ([] : Str)
  number := (← Gen.iban.compact number)
  let _ := (← Gen.iso7064_mod_97_10.validate ((Py.slice number (some (4 : Int)) none) ++ (Py.slice number none (some (4 : Int)))))
  info := (Spec.NumDB.info db number)
  if !(!((match (← Py.getItemL info (0 : Int)) with | (p0__, p1__) => p1__)).isEmpty) then
    Py.raise .invalidComponent
  bban := (Py.slice number (some (4 : Int)) none)
  if !(((Re.match_ (← Gen.iban._struct_to_re (Py.dictGetD (match (← Py.getItemL info (0 : Int)) with | (p0__, p1__) => p1__) ([98, 98, 97, 110] : Str) ([] : Str))) bban)).isSome) then
    Py.raise .invalidFormat
  return number

theorem cf_eq (n : Str) : Gen.iban.validate__check_country_False n = cfBody Gen.db_iban.db n := rfl

/-- the generic part of `iban.validate` on an input whose compact form is `[a, b, d1, d2] ++ v`: Mod 97-10, registry
entry, BBAN structure -/
theorem cfBody_ok (db : List Entry) (w : Str) (a b d1 d2 : Nat) (v struct : Str) (re : Py.Re.Pattern)
    (props : Spec.NumDB.Dict)
    (hcomp : upper (strip (cleanP w [32, 45, 46])) = [a, b, d1, d2] ++ v)
    (hmod : Gen.iso7064_mod_97_10.validate (v ++ [a, b, d1, d2]) = .ok (v ++ [a, b, d1, d2]))
    (hinfo : info db ([a, b, d1, d2] ++ v) = [([a, b], props), (([a, b, d1, d2] ++ v).drop 2, [])])
    (hne : props.isEmpty = false)
    (hb : Py.dictGetD props [98, 98, 97, 110] [] = struct)
    (hs : Gen.iban._struct_to_re struct = .ok re) (hm : (Re.match_ re v).isSome = true) :
    cfBody db w = .ok ([a, b, d1, d2] ++ v) := by
  have s1 : slice ([a, b, d1, d2] ++ v) (some 4) none = v := by
    rw [slice_nonneg_none _ (by decide)]; rfl
  have s2 : slice ([a, b, d1, d2] ++ v) none (some 4) = [a, b, d1, d2] := by
    rw [slice_none_nonneg _ (by decide)]; rfl
  unfold cfBody
  simp only [iban_compact_eq, bind_ok, pure_ok, hcomp, s1, s2, hmod, hinfo]
  have g0 : Py.getItemL [(([a, b] : Str), props), ((([a, b, d1, d2] ++ v).drop 2 : Str), ([] : Spec.NumDB.Dict))] 0 =
      .ok (([a, b] : Str), props) := rfl
  simp only [g0, bind_ok, hne, hb, hs, hm, Bool.not_false, Bool.not_true, Bool.false_eq_true, if_false]

/-- `Gen.iban.validate` with the registry as a parameter -/
def vBody (db : List Entry) (number : Str) (check_country : Bool) : R Str := do
  let mut number := number
  let mut info : List (Str × (List (Str × Str))) := ([] : List (Str × (List (Str × Str))))
  let mut bban : Str := ([] : Str)
  let mut module : Option String := (none : Option String)
  number := (← Gen.iban.compact number)
  let _ := (← Gen.iso7064_mod_97_10.validate ((Py.slice number (some (4 : Int)) none) ++ (Py.slice number none (some (4 : Int)))))
  info := (Spec.NumDB.info db number)
  if !(!((match (← Py.getItemL info (0 : Int)) with | (p0__, p1__) => p1__)).isEmpty) then
    Py.raise .invalidComponent
  bban := (Py.slice number (some (4 : Int)) none)
  if !(((Re.match_ (← Gen.iban._struct_to_re (Py.dictGetD (match (← Py.getItemL info (0 : Int)) with | (p0__, p1__) => p1__) ([98, 98, 97, 110] : Str) ([] : Str))) bban)).isSome) then
    Py.raise .invalidFormat
  if check_country then
    module := (← Gen.iban._get_cc_module (Py.slice number none (some (2 : Int))))
    if (module).isSome then
      let _ := (← (do match module with | some m__ => pure (← Gen.iban.dispatch_validate_0 m__ number) | none => Py.raise .attributeError : R Str))
  return number

theorem v_eq (n : Str) (c : Bool) : Gen.iban.validate n c = vBody Gen.db_iban.db n c := rfl

/-- the whole of `iban.validate(number, check_country=True)` when the country has a module whose `validate`
accepts the compact number -/
theorem vBody_ok (db : List Entry) (w : Str) (a b d1 d2 : Nat) (v struct : Str) (re : Py.Re.Pattern)
    (props : Spec.NumDB.Dict) (m : String) (r : Str)
    (hcomp : upper (strip (cleanP w [32, 45, 46])) = [a, b, d1, d2] ++ v)
    (hmod : Gen.iso7064_mod_97_10.validate (v ++ [a, b, d1, d2]) = .ok (v ++ [a, b, d1, d2]))
    (hinfo : info db ([a, b, d1, d2] ++ v) = [([a, b], props), (([a, b, d1, d2] ++ v).drop 2, [])])
    (hne : props.isEmpty = false)
    (hb : Py.dictGetD props [98, 98, 97, 110] [] = struct)
    (hs : Gen.iban._struct_to_re struct = .ok re) (hm : (Re.match_ re v).isSome = true)
    (hmodule : Gen.iban._get_cc_module [a, b] = .ok (some m))
    (hdisp : Gen.iban.dispatch_validate_0 m ([a, b, d1, d2] ++ v) = .ok r) :
    vBody db w true = .ok ([a, b, d1, d2] ++ v) := by
  have s1 : slice ([a, b, d1, d2] ++ v) (some 4) none = v := by
    rw [slice_nonneg_none _ (by decide)]; rfl
  have s2 : slice ([a, b, d1, d2] ++ v) none (some 4) = [a, b, d1, d2] := by
    rw [slice_none_nonneg _ (by decide)]; rfl
  have s3 : slice ([a, b, d1, d2] ++ v) none (some 2) = [a, b] := by
    rw [slice_none_nonneg _ (by decide)]; rfl
  unfold vBody
  simp only [iban_compact_eq, bind_ok, pure_ok, hcomp, s1, s2, s3, hmod, hinfo]
  have g0 : Py.getItemL [(([a, b] : Str), props), ((([a, b, d1, d2] ++ v).drop 2 : Str), ([] : Spec.NumDB.Dict))] 0 =
      .ok (([a, b] : Str), props) := rfl
  simp only [g0, bind_ok, hne, hb, hs, hm, hmodule, hdisp, Bool.not_false, Bool.not_true, Bool.false_eq_true, if_false,
    if_true, Option.isSome_some]

/-! ## Spain -/

theorem cc_module_ES : Gen.iban._get_cc_module [69, 83] = .ok (some "stdnum.es.iban") := by decide +kernel
theorem cc_module_NO : Gen.iban._get_cc_module [78, 79] = .ok (some "stdnum.no.iban") := by decide +kernel

theorem es_to_ccc_compact (d1 d2 : Nat) (v : Str) (hDU : AllIn isDU ([69, 83, d1, d2] ++ v)) :
    Gen.es_iban.to_ccc ([69, 83, d1, d2] ++ v) = .ok v := by
  unfold Gen.es_iban.to_ccc
  simp only [iban_compact_eq, bind_ok, pure_ok, du_compact_upper hDU _ (by decide : ∀ c ∈ ([32, 45, 46] : Str),
    isAsciiAlnum c = false)]
  have hst : startswith ([69, 83, d1, d2] ++ v) [69, 83] = true := startswith_iff.mpr ⟨d1 :: d2 :: v, rfl⟩
  have hs : slice ([69, 83, d1, d2] ++ v) (some 4) none = v := by
    rw [slice_nonneg_none _ (by decide)]; rfl
  simp only [hst, hs, Bool.not_true, Bool.false_eq_true, if_false]

theorem no_to_kontonr_compact (d1 d2 : Nat) (v : Str) (hDU : AllIn isDU ([78, 79, d1, d2] ++ v)) :
    Gen.no_iban.to_kontonr ([78, 79, d1, d2] ++ v) = .ok v := by
  unfold Gen.no_iban.to_kontonr
  simp only [iban_compact_eq, bind_ok, pure_ok, du_compact_upper hDU _ (by decide : ∀ c ∈ ([32, 45, 46] : Str),
    isAsciiAlnum c = false)]
  have hst : startswith ([78, 79, d1, d2] ++ v) [78, 79] = true := startswith_iff.mpr ⟨d1 :: d2 :: v, rfl⟩
  have hs : slice ([78, 79, d1, d2] ++ v) (some 4) none = v := by
    rw [slice_nonneg_none _ (by decide)]; rfl
  simp only [hst, hs, Bool.not_true, Bool.false_eq_true, if_false]

theorem du_iban (a b d1 d2 : Nat) (v : Str) (ha : isAsciiUpper a = true) (hb : isAsciiUpper b = true)
    (hd1 : isAsciiDigit d1 = true) (hd2 : isAsciiDigit d2 = true) (hD : AllIn isAsciiDigit v) :
    AllIn isDU ([a, b, d1, d2] ++ v) :=
  allIn_append (allIn_cons (by unfold isDU; rw [ha]; exact Bool.or_true _)
    (allIn_cons (by unfold isDU; rw [hb]; exact Bool.or_true _) (allIn_cons (du_of_digit hd1)
    (allIn_cons (du_of_digit hd2) (fun _ h => by simp at h))))) (fun c hc => du_of_digit (hD c hc))

/-- **`es.ccc.to_iban`, target-valid**: for every presentation of ASCII letters/digits, spaces and hyphens of a valid
CCC, `iban.validate` (with the country-specific check) accepts the result and returns `'ES' + dd + ccc`; and
`es.iban.to_ccc` gives the CCC back -/
theorem ccc_to_iban_valid (x v : Str) (hP : Pres [32, 45] x) (h : Gen.es_ccc.validate x = .ok v) :
    ∃ d1 d2 w, Gen.es_ccc.to_iban x = .ok w ∧
      Gen.iban.validate w true = .ok ([69, 83, d1, d2] ++ v) ∧ Gen.es_iban.to_ccc w = .ok v := by
  obtain ⟨_, hD, hl, hvv⟩ := ccc_shape h
  obtain ⟨d1, d2, hd1, hd2, hto, hmod, hcomp, hback⟩ := ccc_to_iban_pres x v hP h
  refine ⟨d1, d2, _, hto, ?_, hback⟩
  rw [iban_compact_eq] at hcomp
  have hcomp' := Except.ok.inj hcomp
  have hDU := du_iban 69 83 d1 d2 v (by decide) (by decide) hd1 hd2 hD
  have hinfo := iban_info ([69, 83, d1, d2] ++ v) (by simp) iban_ES.1 iban_ES.2.1
  have hmod' : Gen.iso7064_mod_97_10.validate (v ++ [69, 83, d1, d2]) = .ok (v ++ [69, 83, d1, d2]) := hmod
  have hcf : Gen.iban.validate__check_country_False ([69, 83, d1, d2] ++ v) = .ok ([69, 83, d1, d2] ++ v) := by
    rw [cf_eq]
    exact cfBody_ok _ _ 69 83 d1 d2 v _ reES _ (du_compact_upper hDU _ (by decide)) hmod' hinfo iban_ES.2.2.1
      iban_ES.2.2.2 struct_ES (reES_match v hD hl)
  have hes : Gen.es_iban.validate ([69, 83, d1, d2] ++ v) = .ok ([69, 83, d1, d2] ++ v) := by
    unfold Gen.es_iban.validate
    simp only [hcf, bind_ok, es_to_ccc_compact d1 d2 v hDU, hvv, pure_ok]
  rw [v_eq]
  exact vBody_ok _ _ 69 83 d1 d2 v _ reES _ "stdnum.es.iban" _ hcomp' hmod' hinfo iban_ES.2.2.1 iban_ES.2.2.2 struct_ES
    (reES_match v hD hl) cc_module_ES hes

/-! ## Norway -/

/-- **`no.kontonr.to_iban`, target-valid for 11-digit accounts**: for every presentation of ASCII letters/digits,
spaces, dots and hyphens (without the optional `0000` in front) of a valid 11-digit account number, `iban.validate`
accepts the result and returns `'NO' + dd + kontonr`; `no.iban.to_kontonr` gives the account number back -/
theorem kontonr_to_iban_valid_partial (x v : Str) (hP : Pres [32, 46, 45] x)
    (h : Gen.no_kontonr.validate x = .ok v) (h0 : startswith (body x) [48, 48, 48, 48] = false)
    (h11 : v.length = 11) :
    ∃ d1 d2 w, Gen.no_kontonr.to_iban x = .ok w ∧
      Gen.iban.validate w true = .ok ([78, 79, d1, d2] ++ v) ∧ Gen.no_iban.to_kontonr w = .ok v := by
  obtain ⟨hv, hD, _⟩ := kontonr_shape h
  obtain ⟨d1, d2, hd1, hd2, hto, hmod, hcomp, hback⟩ := kontonr_to_iban_pres x v hP h h0
  refine ⟨d1, d2, _, hto, ?_, hback⟩
  have hbx : body x = v := by
    rw [hv]; unfold kC
    rw [pres_cleanP sepOK_sp_dot_hy hP, strip_eq_self_of_asciiAlnum _ (body_alnum x), h0]
    rfl
  have hvv : Gen.no_kontonr.validate v = .ok v := kontonr_validate_idem h (by rw [← hbx]; exact h0)
  rw [iban_compact_eq] at hcomp
  have hcomp' := Except.ok.inj hcomp
  have hDU := du_iban 78 79 d1 d2 v (by decide) (by decide) hd1 hd2 hD
  have hinfo := iban_info ([78, 79, d1, d2] ++ v) (by simp) iban_NO.1 iban_NO.2.1
  have hmod' : Gen.iso7064_mod_97_10.validate (v ++ [78, 79, d1, d2]) = .ok (v ++ [78, 79, d1, d2]) := hmod
  have hcf : Gen.iban.validate__check_country_False ([78, 79, d1, d2] ++ v) = .ok ([78, 79, d1, d2] ++ v) := by
    rw [cf_eq]
    exact cfBody_ok _ _ 78 79 d1 d2 v _ reNO _ (du_compact_upper hDU _ (by decide)) hmod' hinfo iban_NO.2.2.1
      iban_NO.2.2.2 struct_NO (reNO_match v hD h11)
  have hno : Gen.no_iban.validate ([78, 79, d1, d2] ++ v) = .ok ([78, 79, d1, d2] ++ v) := by
    unfold Gen.no_iban.validate
    simp only [hcf, bind_ok, no_to_kontonr_compact d1 d2 v hDU, hvv, pure_ok]
  rw [v_eq]
  exact vBody_ok _ _ 78 79 d1 d2 v _ reNO _ "stdnum.no.iban" _ hcomp' hmod' hinfo iban_NO.2.2.1 iban_NO.2.2.2 struct_NO
    (reNO_match v hD h11) cc_module_NO hno

/-! ## the full statement is false for `no.kontonr.to_iban` (known defect) -/

/-- Full statement, false on the current tree:
  `∀ x v, kontonr.validate x = ok v → ∃ w r, kontonr.to_iban x = ok w ∧ iban.validate w = ok r`
A valid 7-digit account number is not zero-filled to the eleven digits of the Norwegian BBAN: `'1000009'` gives
`'NO111000009'`, which `iban.validate` rejects (`InvalidFormat`: the BBAN does not have the structure `4!n6!n1!n`). -/
theorem kontonr_to_iban_witness :
    Gen.no_kontonr.validate [49, 48, 48, 48, 48, 48, 57] = .ok [49, 48, 48, 48, 48, 48, 57] ∧
    Gen.no_kontonr.to_iban [49, 48, 48, 48, 48, 48, 57] = .ok [78, 79, 49, 49, 49, 48, 48, 48, 48, 48, 57] ∧
    Gen.iban.validate [78, 79, 49, 49, 49, 48, 48, 48, 48, 48, 57] true = .error .invalidFormat := by
  refine ⟨by decide +kernel, by decide +kernel, ?_⟩
  rw [v_eq, Props.C11.Data.iban.db_eq]
  decide +kernel

theorem kontonr_to_iban_full_false :
    ¬ (∀ x v, Gen.no_kontonr.validate x = .ok v →
        ∃ w r, Gen.no_kontonr.to_iban x = .ok w ∧ Gen.iban.validate w true = .ok r) := by
  intro hall
  obtain ⟨h1, h2, h3⟩ := kontonr_to_iban_witness
  obtain ⟨w, r, hw, hr⟩ := hall _ _ h1
  rw [h2] at hw
  cases hw
  rw [h3] at hr
  cases hr

/-- the optional `0000` in front, which `kontonr.compact` removes, is kept by `to_iban`: `'0000 8601 11 17947'` (valid,
compact form `'86011117947'`) gives `'NO93 0000 8601 11 17947'`, rejected by `iban.validate`; this is why
`kontonr_to_iban_valid_partial` has the hypothesis `h0` -/
theorem kontonr_to_iban_witness_0000 :
    Gen.no_kontonr.validate [48, 48, 48, 48, 32, 56, 54, 48, 49, 32, 49, 49, 32, 49, 55, 57, 52, 55] = .ok [56, 54, 48, 49, 49, 49, 49, 55, 57, 52, 55] ∧
    Gen.no_kontonr.to_iban [48, 48, 48, 48, 32, 56, 54, 48, 49, 32, 49, 49, 32, 49, 55, 57, 52, 55] = .ok [78, 79, 57, 51, 32, 48, 48, 48, 48, 32, 56, 54, 48, 49, 32, 49, 49, 32, 49, 55, 57, 52, 55] ∧
    Gen.iban.validate [78, 79, 57, 51, 32, 48, 48, 48, 48, 32, 56, 54, 48, 49, 32, 49, 49, 32, 49, 55, 57, 52, 55] true = .error .invalidFormat := by
  refine ⟨by decide +kernel, by decide +kernel, ?_⟩
  rw [v_eq, Props.C11.Data.iban.db_eq]
  decide +kernel

/-! ## Non-vacuity: the docstring numbers -/
section Examples

theorem ex_kontonr : Gen.no_kontonr.validate [56, 54, 48, 49, 32, 49, 49, 32, 49, 55, 57, 52, 55] = .ok [56, 54, 48, 49, 49, 49, 49, 55, 57, 52, 55] := by decide +kernel
example : ∃ d1 d2 w, Gen.no_kontonr.to_iban [56, 54, 48, 49, 32, 49, 49, 32, 49, 55, 57, 52, 55] = .ok w ∧
    Gen.iban.validate w true = .ok ([78, 79, d1, d2] ++ [56, 54, 48, 49, 49, 49, 49, 55, 57, 52, 55]) ∧ Gen.no_iban.to_kontonr w = .ok [56, 54, 48, 49, 49, 49, 49, 55, 57, 52, 55] :=
  kontonr_to_iban_valid_partial _ _ (by intro c hc; revert c; decide) ex_kontonr (by decide) rfl
example : Gen.no_kontonr.to_iban [56, 54, 48, 49, 32, 49, 49, 32, 49, 55, 57, 52, 55] = .ok [78, 79, 57, 51, 32, 56, 54, 48, 49, 32, 49, 49, 32, 49, 55, 57, 52, 55] := by decide +kernel

theorem ex_ccc : Gen.es_ccc.validate [49, 50, 51, 52, 45, 49, 50, 51, 52, 45, 49, 54, 32, 49, 50, 51, 52, 53, 54, 55, 56, 57, 48] = .ok [49, 50, 51, 52, 49, 50, 51, 52, 49, 54, 49, 50, 51, 52, 53, 54, 55, 56, 57, 48] := by decide +kernel
example : ∃ d1 d2 w, Gen.es_ccc.to_iban [49, 50, 51, 52, 45, 49, 50, 51, 52, 45, 49, 54, 32, 49, 50, 51, 52, 53, 54, 55, 56, 57, 48] = .ok w ∧
    Gen.iban.validate w true = .ok ([69, 83, d1, d2] ++ [49, 50, 51, 52, 49, 50, 51, 52, 49, 54, 49, 50, 51, 52, 53, 54, 55, 56, 57, 48]) ∧ Gen.es_iban.to_ccc w = .ok [49, 50, 51, 52, 49, 50, 51, 52, 49, 54, 49, 50, 51, 52, 53, 54, 55, 56, 57, 48] :=
  ccc_to_iban_valid _ _ (by intro c hc; revert c; decide) ex_ccc
example : Gen.es_ccc.to_iban [49, 50, 51, 52, 45, 49, 50, 51, 52, 45, 49, 54, 32, 49, 50, 51, 52, 53, 54, 55, 56, 57, 48] = .ok [69, 83, 55, 55, 32, 49, 50, 51, 52, 45, 49, 50, 51, 52, 45, 49, 54, 32, 49, 50, 51, 52, 53, 54, 55, 56, 57, 48] := by decide +kernel

end Examples

end Props.C08
