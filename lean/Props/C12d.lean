import Gen.ee_ik
import Gen.cu_ni
import Gen.ro_cnp
import Gen.lv_pvn
import Gen.si_emso
import Gen.za_idnr
import Props.C12c
/-!
# C12 (value consistency, part 3, continued) — ee.ik, cu.ni, ro.cnp, lv.pvn, si.emso, za.idnr
-/
namespace Props.C12
open Py Lemmas.Refine Props.C17 Props.C08

set_option linter.unusedVariables false
set_option linter.unusedSimpArgs false

/-! ## ee.ik : century/gender digit `v[0]`, then `YYMMDD` -/

theorem ee_ik_ok {x v : Str} (h : Gen.ee_ik.validate x = .ok v) :
    AllIn isAsciiDigit v ∧ v.length = 11 ∧ ∃ d, Gen.ee_ik.get_birth_date v = .ok d := by
  unfold Gen.ee_ik.validate Gen.ee_ik.compact at h
  invert_validate h
  obtain ⟨hd, hl, a, ha, _, _, _, _, _, rfl⟩ := h
  exact ⟨((isDigitsB_iff _).mp hd).2, by omega, a, ha⟩

theorem ee_ik_birth_date (x v : Str) (d : Date) (h : Gen.ee_ik.validate x = .ok v)
    (hd : Gen.ee_ik.get_birth_date v = .ok d) :
    d.Valid ∧ d.day = fld v 5 7 ∧ d.month = fld v 3 5 ∧ d.year % 100 = fld v 1 3 ∧
      d.year = fld v 1 3 + (1800 + 100 * ((fld v 0 1 - 1) / 2)) ∧ 1 ≤ fld v 0 1 ∧ fld v 0 1 ≤ 8 := by
  obtain ⟨hD, hl, _⟩ := ee_ik_ok h
  have hc : Gen.ee_ik.compact v = .ok v := by
    unfold Gen.ee_ik.compact
    simp only [clean_eq, bind_ok, pure_ok, digits_clean_strip hD [32] (by decide)]
  unfold Gen.ee_ik.get_birth_date at hd
  simp only [hc, bind_ok, intOf_fld hD 1 3 1 3 rfl rfl (by omega) (by omega),
    intOf_fld hD 3 5 3 5 rfl rfl (by omega) (by omega), intOf_fld hD 5 7 5 7 rfl rfl (by omega) (by omega),
    getItem_nat v 0 0 rfl (by omega), strIn_single] at hd
  have hy := fld2 hD 1 3
  have h0 := fld_one (v := v) 0 1 (by omega)
  invert_getter hd
  contains_arith at hd
  rcases hd with ⟨h1, hmk⟩ | ⟨h1, ⟨h2, hmk⟩ | ⟨h2, ⟨h3, hmk⟩ | ⟨h3, h4, hmk⟩⟩⟩ <;>
    obtain ⟨hv, hyr, hmo, hdd⟩ := mkDate_valid hmk <;>
    exact ⟨hv, hdd, hmo, by omega, by omega, by omega, by omega⟩

example : Gen.ee_ik.validate (str% "36805280109") = .ok (str% "36805280109") ∧
    Gen.ee_ik.get_birth_date (str% "36805280109") = .ok ⟨1968, 5, 28⟩ := by decide +kernel

/-! ## cu.ni : `YYMMDD`, century digit `v[6]` -/

theorem cu_ni_ok {x v : Str} (h : Gen.cu_ni.validate x = .ok v) :
    AllIn isAsciiDigit v ∧ v.length = 11 ∧ ∃ d, Gen.cu_ni.get_birth_date v = .ok d := by
  unfold Gen.cu_ni.validate Gen.cu_ni.compact at h
  invert_validate h
  obtain ⟨hl, hd, a, ha, rfl⟩ := h
  exact ⟨((isDigitsB_iff _).mp hd).2, by omega, a, ha⟩

theorem cu_ni_birth_date (x v : Str) (d : Date) (h : Gen.cu_ni.validate x = .ok v)
    (hd : Gen.cu_ni.get_birth_date v = .ok d) :
    d.Valid ∧ d.day = fld v 4 6 ∧ d.month = fld v 2 4 ∧ d.year % 100 = fld v 0 2 ∧
      d.year = fld v 0 2 + (if fld v 6 7 = 9 then 1800 else if fld v 6 7 ≤ 5 then 1900 else 2000) := by
  obtain ⟨hD, hl, _⟩ := cu_ni_ok h
  have hc : Gen.cu_ni.compact v = .ok v := by
    unfold Gen.cu_ni.compact
    simp only [clean_eq, bind_ok, pure_ok, digits_clean_strip hD [32] (by decide)]
  unfold Gen.cu_ni.get_birth_date at hd
  simp only [hc, bind_ok, intOf_fld hD 0 2 0 2 rfl rfl (by omega) (by omega),
    intOf_fld hD 2 4 2 4 rfl rfl (by omega) (by omega), intOf_fld hD 4 6 4 6 rfl rfl (by omega) (by omega),
    getItem_nat v 6 6 rfl (by omega), strIn_single] at hd
  have hy := fld2 hD 0 2
  have h6 := fld_one (v := v) 6 7 (by omega)
  have h6d := hD v[6] (List.getElem_mem _)
  simp only [isAsciiDigit, Bool.and_eq_true, decide_eq_true_eq] at h6d
  invert_getter hd
  simp only [strLe_single, List.cons.injEq, and_true, decide_eq_true_eq, decide_eq_false_iff_not] at hd
  rcases hd with ⟨h1, hmk⟩ | ⟨h1, a, ha, ⟨rfl, hmk⟩ | ⟨rfl, hmk⟩⟩ <;>
    obtain ⟨hv, hyr, hmo, hdd⟩ := mkDate_valid hmk <;>
    refine ⟨hv, hdd, hmo, by omega, ?_⟩
  · rw [if_pos (by omega)]; omega
  · have : v[6] ≤ 53 := by
      rcases ha with ⟨_, h2⟩ | ⟨_, h2⟩
      · simpa using h2
      · cases h2
    rw [if_neg (by omega), if_pos (by omega)]; omega
  · have : ¬ v[6] ≤ 53 := by
      rcases ha with ⟨_, h2⟩ | ⟨h2, _⟩
      · simpa using h2
      · omega
    rw [if_neg (by omega), if_neg (by omega)]; omega

example : Gen.cu_ni.validate (str% "91021027775") = .ok (str% "91021027775") ∧
    Gen.cu_ni.get_birth_date (str% "91021027775") = .ok ⟨1991, 2, 10⟩ := by decide +kernel

/-! ## ro.cnp : century/gender digit `v[0]`, then `YYMMDD` -/

theorem ro_cnp_ok {x v : Str} (h : Gen.ro_cnp.validate x = .ok v) :
    AllIn isAsciiDigit v ∧ v.length = 13 ∧ ∃ d, Gen.ro_cnp.get_birth_date v = .ok d := by
  unfold Gen.ro_cnp.validate Gen.ro_cnp.compact at h
  invert_validate h
  obtain ⟨hd, _, _, _, hl, a, ha, _, _, _, _, _, _, _, rfl⟩ := h
  exact ⟨((isDigitsB_iff _).mp hd).2, by omega, a, ha⟩

/-- century of a CNP from its first digit (a code point): `1,2` → 1900, `3,4` → 1800, `5,6` → 2000, others
(`7,8,9`: residents / foreigners) → 1900 -/
def roCentury (c : Nat) : Int :=
  if c = 51 ∨ c = 52 then 1800 else if c = 53 ∨ c = 54 then 2000 else 1900

theorem ro_dict (c : Nat) :
    dictGetD (dictOfPairs [(([49] : Str), (1900 : Int)), ([50], 1900), ([51], 1800), ([52], 1800), ([53], 2000),
      ([54], 2000)]) [c] 1900 = roCentury c := by
  have hdict : dictOfPairs [(([49] : Str), (1900 : Int)), ([50], 1900), ([51], 1800), ([52], 1800), ([53], 2000),
      ([54], 2000)] = [([49], 1900), ([50], 1900), ([51], 1800), ([52], 1800), ([53], 2000), ([54], 2000)] := by
    decide
  rw [hdict]
  unfold roCentury dictGetD dictGet?
  by_cases h49 : c = 49
  · subst h49; rfl
  by_cases h50 : c = 50
  · subst h50; rfl
  by_cases h51 : c = 51
  · subst h51; rfl
  by_cases h52 : c = 52
  · subst h52; rfl
  by_cases h53 : c = 53
  · subst h53; rfl
  by_cases h54 : c = 54
  · subst h54; rfl
  have hb : ∀ k : Nat, c ≠ k → (([k] : Str) == [c]) = false := by
    intro k hk
    simp only [beq_eq_false_iff_ne, ne_eq, List.cons.injEq, and_true]
    exact fun e => hk e.symm
  simp only [List.find?_cons, hb 49 h49, hb 50 h50, hb 51 h51, hb 52 h52, hb 53 h53, hb 54 h54, List.find?_nil,
    Option.map_none, Option.getD_none]
  rw [if_neg (by omega), if_neg (by omega)]

theorem ro_cnp_birth_date (x v : Str) (d : Date) (h : Gen.ro_cnp.validate x = .ok v)
    (hd : Gen.ro_cnp.get_birth_date v = .ok d) :
    d.Valid ∧ d.day = fld v 5 7 ∧ d.month = fld v 3 5 ∧ d.year % 100 = fld v 1 3 ∧
      d.year = fld v 1 3 + roCentury (v.getD 0 0) := by
  obtain ⟨hD, hl, _⟩ := ro_cnp_ok h
  have hc : Gen.ro_cnp.compact v = .ok v := by
    unfold Gen.ro_cnp.compact
    simp only [clean_eq, bind_ok, pure_ok, digits_clean_strip hD [32, 45] (by decide)]
  unfold Gen.ro_cnp.get_birth_date at hd
  simp only [hc, bind_ok, intOf_fld hD 1 3 1 3 rfl rfl (by omega) (by omega),
    intOf_fld hD 3 5 3 5 rfl rfl (by omega) (by omega), intOf_fld hD 5 7 5 7 rfl rfl (by omega) (by omega),
    getItem_nat v 0 0 rfl (by omega), strIn_single] at hd
  have hy := fld2 hD 1 3
  invert_getter hd
  rw [ro_dict] at hd
  have hg : v.getD 0 0 = v[0] := by
    simp [List.getD_eq_getElem?_getD, List.getElem?_eq_getElem (show 0 < v.length by omega)]
  rw [hg]
  obtain ⟨hv, hyr, hmo, hdd⟩ := mkDate_valid hd
  have hcen : roCentury v[0] % 100 = 0 := by
    unfold roCentury; split
    · rfl
    · split <;> rfl
  exact ⟨hv, hdd, hmo, by omega, hyr⟩

example : Gen.ro_cnp.validate (str% "1630615123457") = .ok (str% "1630615123457") ∧
    Gen.ro_cnp.get_birth_date (str% "1630615123457") = .ok ⟨1963, 6, 15⟩ := by decide +kernel

/-! ## si.emso : `DDMMYYY` (three-digit year, `+1000` or `+2000`) -/

theorem si_emso_ok {x v : Str} (h : Gen.si_emso.validate x = .ok v) :
    AllIn isAsciiDigit v ∧ v.length = 13 ∧ ∃ d, Gen.si_emso.get_birth_date v = .ok d := by
  unfold Gen.si_emso.validate Gen.si_emso.compact at h
  invert_validate h
  obtain ⟨hl, hd, a, ha, _, _, _, _, _, rfl⟩ := h
  exact ⟨((isDigitsB_iff _).mp hd).2, by omega, a, ha⟩

theorem si_emso_birth_date (x v : Str) (d : Date) (h : Gen.si_emso.validate x = .ok v)
    (hd : Gen.si_emso.get_birth_date v = .ok d) :
    d.Valid ∧ d.day = fld v 0 2 ∧ d.month = fld v 2 4 ∧ d.year % 1000 = fld v 4 7 ∧
      d.year = fld v 4 7 + (if fld v 4 7 < 800 then 2000 else 1000) := by
  obtain ⟨hD, hl, _⟩ := si_emso_ok h
  have hc : Gen.si_emso.compact v = .ok v := by
    unfold Gen.si_emso.compact
    simp only [clean_eq, bind_ok, pure_ok, digits_clean_strip hD [32] (by decide)]
  have h02 : slice v none (some 2) = slice v (some 0) (some 2) := by
    rw [slice_none_nonneg v (by decide), slice_nonneg_nonneg v (by decide) (by decide)]; rfl
  unfold Gen.si_emso.get_birth_date at hd
  simp only [hc, bind_ok, h02, intOf_fld hD 0 2 0 2 rfl rfl (by omega) (by omega),
    intOf_fld hD 2 4 2 4 rfl rfl (by omega) (by omega), intOf_fld hD 4 7 4 7 rfl rfl (by omega) (by omega)] at hd
  have hy := fld3 hD 4 7
  invert_getter hd
  simp only [decide_eq_true_eq, decide_eq_false_iff_not] at hd
  rcases hd with ⟨h1, hmk⟩ | ⟨h1, hmk⟩ <;>
    obtain ⟨hv, hyr, hmo, hdd⟩ := mkDate_valid hmk <;>
    refine ⟨hv, hdd, hmo, by omega, ?_⟩
  · rw [if_pos h1]; omega
  · rw [if_neg h1]; omega

example : Gen.si_emso.validate (str% "0101006500006") = .ok (str% "0101006500006") ∧
    Gen.si_emso.get_birth_date (str% "0101006500006") = .ok ⟨2006, 1, 1⟩ := by decide +kernel

/-! ## za.idnr : `YYMMDD`, the century is the latest one that does not put the date after `today` -/

theorem za_idnr_ok {t : Date} {x v : Str} (h : Gen.za_idnr.validate t x = .ok v) :
    AllIn isAsciiDigit v ∧ v.length = 13 ∧ ∃ d, Gen.za_idnr.get_birth_date t v = .ok d := by
  unfold Gen.za_idnr.validate Gen.za_idnr.compact at h
  invert_validate h
  obtain ⟨hd, hl, a, ha, _, _, hL⟩ := h
  have := gen_luhn_validate_ok hL
  subst this
  exact ⟨((isDigitsB_iff _).mp hd).2, by omega, a, ha⟩

theorem za_idnr_birth_date (t : Date) (x v : Str) (d : Date) (h : Gen.za_idnr.validate t x = .ok v)
    (hd : Gen.za_idnr.get_birth_date t v = .ok d) :
    d.Valid ∧ d.day = fld v 4 6 ∧ d.month = fld v 2 4 ∧ d.year % 100 = fld v 0 2 ∧
      d.year = fld v 0 2 + 100 * (t.year / 100) - (if fld v 0 2 + 100 * (t.year / 100) > t.year then 100 else 0) := by
  obtain ⟨hD, hl, _⟩ := za_idnr_ok h
  have hc : Gen.za_idnr.compact v = .ok v := by
    unfold Gen.za_idnr.compact
    simp only [clean_eq, bind_ok, pure_ok,
      cleanP_of_alnum (fun c hc => alnum_of_du (du_of_digit (hD c hc))) (by decide : ∀ c ∈ [32], isAsciiAlnum c = false)]
  unfold Gen.za_idnr.get_birth_date at hd
  simp only [hc, bind_ok, intOf_fld hD 0 2 0 2 rfl rfl (by omega) (by omega),
    intOf_fld hD 2 4 2 4 rfl rfl (by omega) (by omega), intOf_fld hD 4 6 4 6 rfl rfl (by omega) (by omega)] at hd
  have hy := fld2 hD 0 2
  invert_getter hd
  simp only [decide_eq_true_eq, decide_eq_false_iff_not] at hd
  rcases hd with ⟨h1, hmk⟩ | ⟨h1, hmk⟩ <;>
    obtain ⟨hv, hyr, hmo, hdd⟩ := mkDate_valid hmk <;>
    refine ⟨hv, hdd, hmo, by omega, ?_⟩
  · rw [if_pos h1]; omega
  · rw [if_neg h1]; omega

example : Gen.za_idnr.validate ⟨2026, 9, 27⟩ (str% "7503305044089") = .ok (str% "7503305044089") ∧
    Gen.za_idnr.get_birth_date ⟨2026, 9, 27⟩ (str% "7503305044089") = .ok ⟨1975, 3, 30⟩ := by decide +kernel

/-! ## lv.pvn : `DDMMYY`, century digit `v[6]` (`0` = 1800s, `1` = 1900s, `2` = 2000s) -/

theorem lv_compact_digits {w : Str} (hD : AllIn isAsciiDigit w) : Gen.lv_pvn.compact w = .ok w := by
  unfold Gen.lv_pvn.compact
  simp only [clean_eq, bind_ok, pure_ok, digits_strip_upper_clean hD [32, 45] (by decide)]
  have : startswith w [76, 86] = false := by
    cases w with
    | nil => rfl
    | cons a t =>
      have ha := hD a List.mem_cons_self
      simp only [isAsciiDigit, Bool.and_eq_true, decide_eq_true_eq] at ha
      have : (76 == a) = false := by simp; omega
      simp [startswith, List.isPrefixOf, this]
  simp only [this, Bool.false_eq_true, if_false]

theorem lv_pvn_ok {x v : Str} (h : Gen.lv_pvn.validate x = .ok v) :
    AllIn isAsciiDigit v ∧ v.length = 11 := by
  unfold Gen.lv_pvn.validate at h
  obtain ⟨n, hn, h⟩ := bind_ok_inv h
  invert_validate h
  obtain ⟨hd, hl, a, _, hh⟩ := h
  have hv : n = v := by
    rcases hh with ⟨_, _, _, _, e⟩ | ⟨_, _, _, _, _, _, _, _, e⟩ <;> exact e
  subst hv
  exact ⟨((isDigitsB_iff _).mp hd).2, by omega⟩

theorem lv_pvn_birth_date (x v : Str) (d : Date) (h : Gen.lv_pvn.validate x = .ok v)
    (hd : Gen.lv_pvn.get_birth_date v = .ok d) :
    d.Valid ∧ d.day = fld v 0 2 ∧ d.month = fld v 2 4 ∧ d.year % 100 = fld v 4 6 ∧
      d.year = fld v 4 6 + (1800 + 100 * fld v 6 7) := by
  obtain ⟨hD, hl⟩ := lv_pvn_ok h
  have hc := lv_compact_digits hD
  unfold Gen.lv_pvn.get_birth_date at hd
  have h6d := hD v[6] (List.getElem_mem _)
  simp only [hc, bind_ok, intOf_fld hD 0 2 0 2 rfl rfl (by omega) (by omega),
    intOf_fld hD 2 4 2 4 rfl rfl (by omega) (by omega), intOf_fld hD 4 6 4 6 rfl rfl (by omega) (by omega),
    getItem_nat v 6 6 rfl (by omega), intOf_singleton_digit _ h6d] at hd
  have hy := fld2 hD 4 6
  have h6 := fld_one (v := v) 6 7 (by omega)
  invert_getter hd
  obtain ⟨hv, hyr, hmo, hdd⟩ := mkDate_valid hd
  exact ⟨hv, hdd, hmo, by omega, by omega⟩

example : Gen.lv_pvn.validate (str% "161175-19997") = .ok (str% "16117519997") ∧
    Gen.lv_pvn.get_birth_date (str% "16117519997") = .ok ⟨1975, 11, 16⟩ := by decide +kernel

end Props.C12

#print axioms Props.C12.ee_ik_ok
#print axioms Props.C12.ee_ik_birth_date
#print axioms Props.C12.cu_ni_ok
#print axioms Props.C12.cu_ni_birth_date
#print axioms Props.C12.ro_cnp_ok
#print axioms Props.C12.ro_dict
#print axioms Props.C12.ro_cnp_birth_date
#print axioms Props.C12.si_emso_ok
#print axioms Props.C12.si_emso_birth_date
#print axioms Props.C12.za_idnr_ok
#print axioms Props.C12.za_idnr_birth_date
#print axioms Props.C12.lv_compact_digits
#print axioms Props.C12.lv_pvn_ok
#print axioms Props.C12.lv_pvn_birth_date
