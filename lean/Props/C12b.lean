import Gen.be_nn
import Gen.be_bis
import Gen.be_ssn
import Gen.cu_ni
import Gen.ee_ik
import Gen.gr_amka
import Gen.it_codicefiscale
import Gen.mx_curp
import Gen.no_fodselsnummer
import Gen.pk_cnic
import Gen.pl_pesel
import Gen.se_personnummer
import Gen.si_emso
import Gen.za_idnr
import Props.C17b
/-!
# C12 (value consistency, part 2) — `get_gender` returns `'M'` or `'F'` (or nothing where no gender is encoded)

For every module with a `get_gender` function: whenever the call returns, the value is `'M'` or `'F'`
(`MF g`), for `pk.cnic` / `be.bis` (documented `None` for numbers that encode no gender) `none` or `some g` with
`MF g`.  The `…_closed` lemmas hold for **every** argument (the functions have no other return statement); the
`…_gender` theorems are the C12 form (argument = a number returned by `validate`, any presentation `x`, every
`today__`).

`it.codicefiscale`: the full C12 statement (`ItGender`: M/F or a `ValidationError`) is **false** — the two "day"
characters may be letters (omocodia substitutes `LMNPQRSTUV` for digits), `get_birth_date` translates them,
`get_gender` calls `int()` on them and raises `ValueError` (`it_gender_false`, witness `RCCMNL83S1UD969E`, confirmed on
the real code).  `it_gender_partial` has the named hypothesis `hday` ("`int(number[9:11])` succeeds").
-/
namespace Props.C12
open Py Lemmas.Refine Props.C17

set_option linter.unusedVariables false
set_option linter.unusedSimpArgs false

/-- `'M'` or `'F'` -/
def MF (g : Str) : Prop := g = [77] ∨ g = [70]

/-- `None`, `'M'` or `'F'` -/
def MFopt (g : Option Str) : Prop := g = none ∨ ∃ s, g = some s ∧ MF s

/-! ## every return statement returns `'M'` or `'F'` -/

theorem cu_ni_gender_closed (n g : Str) (h : Gen.cu_ni.get_gender n = .ok g) : MF g := by
  unfold Gen.cu_ni.get_gender at h
  invert_validate h
  unfold MF; grind

theorem ee_ik_gender_closed (n g : Str) (h : Gen.ee_ik.get_gender n = .ok g) : MF g := by
  unfold Gen.ee_ik.get_gender at h
  invert_validate h
  unfold MF; grind

theorem gr_amka_gender_closed (n g : Str) (h : Gen.gr_amka.get_gender n = .ok g) : MF g := by
  unfold Gen.gr_amka.get_gender at h
  invert_validate h
  unfold MF; grind

theorem pl_pesel_gender_closed (n g : Str) (h : Gen.pl_pesel.get_gender n = .ok g) : MF g := by
  unfold Gen.pl_pesel.get_gender at h
  invert_validate h
  unfold MF; grind

theorem za_idnr_gender_closed (n g : Str) (h : Gen.za_idnr.get_gender n = .ok g) : MF g := by
  unfold Gen.za_idnr.get_gender at h
  invert_validate h
  unfold MF; grind

theorem si_emso_gender_closed (n g : Str) (h : Gen.si_emso.get_gender n = .ok g) : MF g := by
  unfold Gen.si_emso.get_gender at h
  invert_validate h
  unfold MF; grind

theorem mx_curp_gender_closed (n g : Str) (h : Gen.mx_curp.get_gender n = .ok g) : MF g := by
  unfold Gen.mx_curp.get_gender at h
  invert_validate h
  unfold MF; grind

theorem no_fodselsnummer_gender_closed (n g : Str) (h : Gen.no_fodselsnummer.get_gender n = .ok g) : MF g := by
  unfold Gen.no_fodselsnummer.get_gender at h
  invert_validate h
  unfold MF; grind

theorem se_personnummer_gender_closed (n g : Str) (h : Gen.se_personnummer.get_gender n = .ok g) : MF g := by
  unfold Gen.se_personnummer.get_gender at h
  invert_validate h
  unfold MF; grind

theorem it_codicefiscale_gender_closed (n g : Str) (h : Gen.it_codicefiscale.get_gender n = .ok g) : MF g := by
  unfold Gen.it_codicefiscale.get_gender at h
  invert_validate h
  unfold MF; grind

theorem be_nn_gender_closed (n g : Str) (h : Gen.be_nn.get_gender n = .ok g) : MF g := by
  unfold Gen.be_nn.get_gender at h
  invert_validate h
  unfold MF; grind

theorem pk_cnic_gender_closed (n : Str) (g : Option Str) (h : Gen.pk_cnic.get_gender n = .ok g) : MFopt g := by
  unfold Gen.pk_cnic.get_gender at h
  invert_validate h
  unfold MFopt MF; grind

theorem be_bis_gender_closed (n : Str) (g : Option Str) (h : Gen.be_bis.get_gender n = .ok g) : MFopt g := by
  unfold Gen.be_bis.get_gender at h
  invert_validate h
  obtain ⟨a, _, a1, _, h⟩ := h
  rcases h with ⟨_, a2, hg, rfl⟩ | ⟨_, rfl⟩
  · exact Or.inr ⟨a2, rfl, be_nn_gender_closed _ _ hg⟩
  · exact Or.inl rfl

/-! ## C12 form: the argument is a number `validate` returned -/

theorem cu_ni_gender (x v : Str) (g : Str) (h : Gen.cu_ni.validate x = .ok v)
    (hg : Gen.cu_ni.get_gender v = .ok g) : MF g := cu_ni_gender_closed v g hg

theorem ee_ik_gender (x v : Str) (g : Str) (h : Gen.ee_ik.validate x = .ok v)
    (hg : Gen.ee_ik.get_gender v = .ok g) : MF g := ee_ik_gender_closed v g hg

theorem gr_amka_gender (x v : Str) (g : Str) (h : Gen.gr_amka.validate x = .ok v)
    (hg : Gen.gr_amka.get_gender v = .ok g) : MF g := gr_amka_gender_closed v g hg

theorem pl_pesel_gender (x v : Str) (g : Str) (h : Gen.pl_pesel.validate x = .ok v)
    (hg : Gen.pl_pesel.get_gender v = .ok g) : MF g := pl_pesel_gender_closed v g hg

theorem si_emso_gender (x v : Str) (g : Str) (h : Gen.si_emso.validate x = .ok v)
    (hg : Gen.si_emso.get_gender v = .ok g) : MF g := si_emso_gender_closed v g hg

theorem za_idnr_gender (today__ : Date) (x v : Str) (g : Str) (h : Gen.za_idnr.validate today__ x = .ok v)
    (hg : Gen.za_idnr.get_gender v = .ok g) : MF g := za_idnr_gender_closed v g hg

theorem no_fodselsnummer_gender (today__ : Date) (x v : Str) (g : Str) (h : Gen.no_fodselsnummer.validate today__ x = .ok v)
    (hg : Gen.no_fodselsnummer.get_gender v = .ok g) : MF g := no_fodselsnummer_gender_closed v g hg

theorem se_personnummer_gender (today__ : Date) (x v : Str) (g : Str) (h : Gen.se_personnummer.validate today__ x = .ok v)
    (hg : Gen.se_personnummer.get_gender v = .ok g) : MF g := se_personnummer_gender_closed v g hg

theorem be_nn_gender (today__ : Date) (x v : Str) (g : Str) (h : Gen.be_nn.validate today__ x = .ok v)
    (hg : Gen.be_nn.get_gender v = .ok g) : MF g := be_nn_gender_closed v g hg

theorem mx_curp_gender (x v : Str) (validate_check_digits : Bool) (g : Str) (h : Gen.mx_curp.validate x validate_check_digits = .ok v)
    (hg : Gen.mx_curp.get_gender v = .ok g) : MF g := mx_curp_gender_closed v g hg

theorem pk_cnic_gender (x v : Str) (g : Option Str) (h : Gen.pk_cnic.validate x = .ok v)
    (hg : Gen.pk_cnic.get_gender v = .ok g) : MFopt g := pk_cnic_gender_closed v g hg

theorem be_bis_gender (today__ : Date) (x v : Str) (g : Option Str) (h : Gen.be_bis.validate today__ x = .ok v)
    (hg : Gen.be_bis.get_gender v = .ok g) : MFopt g := be_bis_gender_closed v g hg


/-! ## it.codicefiscale -/

/-- the full C12 statement for `it.codicefiscale.get_gender` -/
def ItGender : Prop :=
  ∀ x v : Str, Gen.it_codicefiscale.validate x = .ok v →
    Py.Holds (Gen.it_codicefiscale.get_gender v) MF (fun e => e.isValidation = true)

theorem it_gender_witness :
    Gen.it_codicefiscale.validate (str% "RCCMNL83S1UD969E") = .ok (str% "RCCMNL83S1UD969E") ∧
    Gen.it_codicefiscale.get_gender (str% "RCCMNL83S1UD969E") = .error .valueError := by decide +kernel

theorem holds_error {α : Type} {x : R α} {Q : α → Prop} {E : Exc → Prop} {e : Exc} (hx : x = .error e)
    (h : Py.Holds x Q E) : E e := by
  subst hx; exact h

/-- … is false: `RCCMNL83S1UD969E` is accepted (day `1U` = 18 in omocodia spelling, `get_birth_date` gives
1983-11-18), `get_gender` raises `ValueError` -/
theorem it_gender_false : ¬ ItGender := by
  intro hG
  have h2 := it_gender_witness.2
  revert h2
  have h1 := hG (str% "RCCMNL83S1UD969E") (str% "RCCMNL83S1UD969E") it_gender_witness.1
  generalize Gen.it_codicefiscale.get_gender (str% "RCCMNL83S1UD969E") = r at h1
  intro h2
  subst h2
  have h3 : Exc.isValidation Exc.valueError = true := h1
  cases h3

/-- partial version: if `int(number[9:11])` succeeds (`hday`: the day characters of the compact number are not
omocodia letters), the result is `'M'`/`'F'` or an `InvalidComponent` (length 11: a company number) -/
theorem it_gender_partial (x v : Str) (h : Gen.it_codicefiscale.validate x = .ok v)
    (hday : ∀ c, Gen.it_codicefiscale.compact v = .ok c → ∃ k, intOf (slice c (some 9) (some 11)) = .ok k) :
    Py.Holds (Gen.it_codicefiscale.get_gender v) MF (fun e => e.isValidation = true) := by
  cases hg : Gen.it_codicefiscale.get_gender v with
  | ok g => exact it_codicefiscale_gender_closed v g hg
  | error e =>
    show e.isValidation = true
    unfold Gen.it_codicefiscale.get_gender at hg
    cases hc : Gen.it_codicefiscale.compact v with
    | error e' =>
      unfold Gen.it_codicefiscale.compact at hc
      simp only [clean_eq, bind_ok, pure_ok] at hc
      cases hc
    | ok c =>
      obtain ⟨k, hk⟩ := hday c hc
      simp only [hc, hk, bind_ok, pure_ok] at hg
      split at hg
      · cases hg; rfl
      · cases hg

theorem it_codicefiscale_gender (x v g : Str) (h : Gen.it_codicefiscale.validate x = .ok v)
    (hg : Gen.it_codicefiscale.get_gender v = .ok g) : MF g := it_codicefiscale_gender_closed v g hg

/-! ## the hypotheses are satisfiable (documented numbers) -/

example : Gen.cu_ni.validate (str% "91021027775") = .ok (str% "91021027775") ∧
    Gen.cu_ni.get_gender (str% "91021027775") = .ok (str% "F") := by decide +kernel
example : Gen.ee_ik.validate (str% "36805280109") = .ok (str% "36805280109") ∧
    Gen.ee_ik.get_gender (str% "36805280109") = .ok (str% "M") := by decide +kernel
example : Gen.gr_amka.validate (str% "01013099997") = .ok (str% "01013099997") ∧
    Gen.gr_amka.get_gender (str% "01013099997") = .ok (str% "M") := by decide +kernel
example : Gen.pl_pesel.validate (str% "44051401359") = .ok (str% "44051401359") ∧
    Gen.pl_pesel.get_gender (str% "44051401359") = .ok (str% "M") := by decide +kernel
example : Gen.si_emso.validate (str% "0101006500006") = .ok (str% "0101006500006") ∧
    Gen.si_emso.get_gender (str% "0101006500006") = .ok (str% "M") := by decide +kernel
example : Gen.pk_cnic.validate (str% "34201-0891231-8") = .ok (str% "3420108912318") ∧
    Gen.pk_cnic.get_gender (str% "3420108912318") = .ok (some (str% "F")) := by decide +kernel
example : Gen.it_codicefiscale.validate (str% "RCCMNL83S18D969H") = .ok (str% "RCCMNL83S18D969H") ∧
    Gen.it_codicefiscale.get_gender (str% "RCCMNL83S18D969H") = .ok (str% "M") := by decide +kernel
example : Gen.be_nn.validate ⟨2026, 9, 27⟩ (str% "85.07.30-033 28") = .ok (str% "85073003328") ∧
    Gen.be_nn.get_gender (str% "85073003328") = .ok (str% "M") := by decide +kernel
example : Gen.be_bis.validate ⟨2026, 9, 27⟩ (str% "98.47.28-997.65") = .ok (str% "98472899765") ∧
    Gen.be_bis.get_gender (str% "98472899765") = .ok (some (str% "M")) := by decide +kernel
example : Gen.za_idnr.validate ⟨2026, 9, 27⟩ (str% "7503305044089") = .ok (str% "7503305044089") ∧
    Gen.za_idnr.get_gender (str% "7503305044089") = .ok (str% "M") := by decide +kernel
example : Gen.no_fodselsnummer.validate ⟨2026, 9, 27⟩ (str% "151086 95088") = .ok (str% "15108695088") ∧
    Gen.no_fodselsnummer.get_gender (str% "15108695088") = .ok (str% "F") := by decide +kernel
example : Gen.se_personnummer.validate ⟨2026, 9, 27⟩ (str% "880320-0016") = .ok (str% "880320-0016") ∧
    Gen.se_personnummer.get_gender (str% "880320-0016") = .ok (str% "M") := by decide +kernel
example : Gen.mx_curp.validate (str% "BOXW310820HNERXN09") true = .ok (str% "BOXW310820HNERXN09") ∧
    Gen.mx_curp.get_gender (str% "BOXW310820HNERXN09") = .ok (str% "M") := by decide +kernel

end Props.C12

#print axioms Props.C12.cu_ni_gender_closed
#print axioms Props.C12.ee_ik_gender_closed
#print axioms Props.C12.gr_amka_gender_closed
#print axioms Props.C12.pl_pesel_gender_closed
#print axioms Props.C12.za_idnr_gender_closed
#print axioms Props.C12.si_emso_gender_closed
#print axioms Props.C12.mx_curp_gender_closed
#print axioms Props.C12.no_fodselsnummer_gender_closed
#print axioms Props.C12.se_personnummer_gender_closed
#print axioms Props.C12.it_codicefiscale_gender_closed
#print axioms Props.C12.be_nn_gender_closed
#print axioms Props.C12.pk_cnic_gender_closed
#print axioms Props.C12.be_bis_gender_closed
#print axioms Props.C12.cu_ni_gender
#print axioms Props.C12.ee_ik_gender
#print axioms Props.C12.gr_amka_gender
#print axioms Props.C12.pl_pesel_gender
#print axioms Props.C12.si_emso_gender
#print axioms Props.C12.za_idnr_gender
#print axioms Props.C12.no_fodselsnummer_gender
#print axioms Props.C12.se_personnummer_gender
#print axioms Props.C12.be_nn_gender
#print axioms Props.C12.mx_curp_gender
#print axioms Props.C12.pk_cnic_gender
#print axioms Props.C12.be_bis_gender
#print axioms Props.C12.it_codicefiscale_gender
#print axioms Props.C12.it_gender_witness
#print axioms Props.C12.it_gender_false
#print axioms Props.C12.it_gender_partial
