import Props.C08a
/-!
# C08 (part e) — ISBN / ISMN conversions applied to a *separated* presentation

`isbn.to_isbn13`, `isbn.to_isbn10` and `ismn.to_ismn13` do not work on the compact number: they keep the separators
of their argument and splice the prefix and the check digit in by position (`number[:-1]`, `number[3:-1]`,
`number[1:]`).  The theorems here are about ASCII presentations (`Pres`: ASCII letters and digits, spaces, hyphens),
the negations show the presentations for which the splicing goes wrong.
-/
namespace Props.C08
open Py Spec.Checksum Lemmas.Refine Lemmas.Fold Props.C06 Props.C06Gen Props.C17 Props.C05

/-- `isbn.validate` only looks at `upper(strip(clean(x)))` -/
theorem isbn_validate_of_compact_eq {a w : Str} (hw : AllIn isDU w)
    (h : upper (strip (cleanP a [32, 45])) = w) :
    Gen.isbn.validate a false = Gen.isbn.validate w false := by
  unfold Gen.isbn.validate Gen.isbn.compact
  simp only [clean_eq, bind_ok, pure_ok]
  rw [h, du_compact_upper hw _ (by decide)]

/-- `ismn.validate` only looks at `upper(strip(clean(x)))` -/
theorem ismn_validate_of_compact_eq {a w : Str} (hw : AllIn isDU w)
    (h : upper (strip (cleanP a [32, 45, 46])) = w) :
    Gen.ismn.validate a = Gen.ismn.validate w := by
  unfold Gen.ismn.validate Gen.ismn.compact
  simp only [clean_eq, bind_ok, pure_ok]
  rw [h, du_compact_upper hw _ (by decide)]

/-! ## `isbn.to_isbn13` on a separated ISBN-10 -/

theorem isbn_validate_pres {y w : Str} (hP : Pres [32, 45] y) (hb : body y = w) (hw : AllIn isDU w) :
    Gen.isbn.validate y false = Gen.isbn.validate w false :=
  isbn_validate_of_compact_eq hw (pres_compact_du sepOK_sp_hy hP hb hw)

/-- the nine-digit SBN: the check digit over `'978' + sbn[:-1]` (eleven digits, what the code computes) is the
check digit over `'9780' + sbn[:-1]` (the twelve digits of the ISBN-13), because `9·3 + 7·1 + 8·3 ≡ 9·1 + 7·3 + 8·1 (mod 10)` -/
theorem sbn_check_eq (q : Str) (hq : AllIn isAsciiDigit q) (hl : q.length = 8) :
    Gen.ean.calc_check_digit ([57, 55, 56] ++ q) = Gen.ean.calc_check_digit ([57, 55, 56, 48] ++ q) := by
  rw [ean_calc_eq _ (allIn_append (by decide) hq), ean_calc_eq _ (allIn_append (by decide) hq)]
  simp only [List.reverse_append, List.map_append, wsum_append, List.length_map, List.length_reverse, hl]
  have h1 : wsum wtE (0 + 8) (([57, 55, 56] : Str).reverse.map (· - 48)) = 58 := by decide
  have h2 : wsum wtE (0 + 8) (([57, 55, 56, 48] : Str).reverse.map (· - 48)) = 38 := by decide
  rw [h1, h2]
  congr 2
  omega

/-- `'978 '`, `'978-'` or `'978'` in front of `n`, as `to_isbn13` chooses it -/
def pre978 (n : Str) : Str :=
  if n.contains 32 then [57, 55, 56, 32] else if n.contains 45 then [57, 55, 56, 45] else [57, 55, 56]

theorem pre978_pres (n : Str) : Pres [32, 45] (pre978 n) ∧ body (pre978 n) = [57, 55, 56] := by
  unfold pre978
  split
  · exact ⟨by intro c hc; simp at hc; rcases hc with rfl | rfl | rfl | rfl <;> simp [isAsciiAlnum, isAsciiDigit], by decide⟩
  · split
    · exact ⟨by intro c hc; simp at hc; rcases hc with rfl | rfl | rfl | rfl <;> simp [isAsciiAlnum, isAsciiDigit], by decide⟩
    · exact ⟨by intro c hc; simp at hc; rcases hc with rfl | rfl | rfl <;> simp [isAsciiAlnum, isAsciiDigit], by decide⟩

/-- target-valid + identity for a separated ISBN-10 (or nine-digit SBN): if the presentation `x' ++ [c]` consists of
ASCII letters/digits, spaces and hyphens, does not begin with a space and ends in its check character `c`, then
`to_isbn13` returns a presentation `w` that `validate` compacts to `'978' + isbn10[:9] + check`, the value
`to_isbn13` gives for the compact number (`isbn10_to_isbn13`): conversion commutes with `validate`. -/
theorem isbn10_to_isbn13_pres (x' : Str) (c : Nat) (v : Str) (hP : Pres [32, 45] (x' ++ [c]))
    (hc : isAsciiAlnum c = true) (hh : (x' ++ [c]).head? ≠ some 32)
    (h : Gen.isbn.validate (x' ++ [c]) false = .ok v) (hl : v.length = 10) :
    ∃ w k, Gen.ean.calc_check_digit ([57, 55, 56] ++ v.dropLast) = .ok [k] ∧
      Gen.isbn.to_isbn13 (x' ++ [c]) = .ok w ∧
      Gen.isbn.validate w false = .ok ([57, 55, 56] ++ v.dropLast ++ [k]) := by
  obtain ⟨k, hk, _, hval⟩ := isbn10_to_isbn13 _ v h hl
  obtain ⟨hp, _, _⟩ := isbn10_shape h hl
  obtain ⟨hv, _⟩ := isbn_std_of_ok h
  have hkd : isAsciiDigit k = true := by
    obtain ⟨k2, hk2, hd2⟩ := ean_calc_digit ([57, 55, 56] ++ v.dropLast) (allIn_append (by decide) hp)
    rw [hk] at hk2
    have : k = k2 := by simpa using hk2
    rw [this]; exact hd2
  have hstrip : strip (x' ++ [c]) = x' ++ [c] :=
    strip_pres (pres_head_not_space hP (by intro d hd; simp at hd; rcases hd with rfl | rfl <;> simp) hh)
      (by
        intro d hd
        rw [getLast?_snoc] at hd
        cases hd
        exact hc)
  have hclean : cleanP (x' ++ [c]) [32, 45] = body x' ++ [c] := by
    rw [pres_cleanP sepOK_sp_hy hP, body_append, body_single hc]
  have hU : upper (strip (cleanP (x' ++ [c]) [32, 45])) = (body x').map asciiUpper ++ [asciiUpper c] := by
    rw [pres_compact sepOK_sp_hy hP, body_append, body_single hc, List.map_append]; rfl
  -- the result for a given middle part `n`
  have hres : ∀ n : Str, Pres [32, 45] n → body n = v.dropLast ++ [k] →
      Gen.isbn.validate (pre978 n ++ n) false = .ok ([57, 55, 56] ++ v.dropLast ++ [k]) := by
    intro n hn hbn
    rw [isbn_validate_pres (y := pre978 n ++ n) (w := [57, 55, 56] ++ v.dropLast ++ [k])
      ((pre978_pres n).1.append hn) (by rw [body_append, (pre978_pres n).2, hbn, List.append_assoc])
      (fun d hd => du_of_digit
        (allIn_append (allIn_append (by decide) hp) (allIn_cons hkd (fun _ h => by simp at h)) d hd))]
    exact hval
  have hPx' : Pres [32, 45] x' := hP.left
  have hbk : body [k] = [k] := body_single (digit_alnum hkd)
  unfold isbnC at hv
  rw [hU] at hv
  by_cases h9 : ((body x').map asciiUpper ++ [asciiUpper c]).length = 9
  · -- nine-digit SBN: `'0'` is put in front
    rw [if_pos h9] at hv
    have hvd : v.dropLast = 48 :: (body x').map asciiUpper := by
      rw [hv, ← List.cons_append, List.dropLast_concat]
    have hbd : (body x').map asciiUpper = body x' :=
      map_asciiUpper_digits (fun d hd => hp d (by rw [hvd]; exact List.mem_cons_of_mem _ hd))
    rw [hbd] at hvd h9
    have hq : AllIn isAsciiDigit (body x') := fun d hd => hp d (by rw [hvd]; exact List.mem_cons_of_mem _ hd)
    have hql : (body x').length = 8 := by simpa using h9
    have hk' : Gen.ean.calc_check_digit ([57, 55, 56] ++ body x') = .ok [k] := by
      rw [sbn_check_eq _ hq hql, ← hk, hvd]; rfl
    refine ⟨pre978 (48 :: x' ++ [k]) ++ (48 :: x' ++ [k]), k, hk, ?_, ?_⟩
    · unfold Gen.isbn.to_isbn13
      simp only [clean_eq, bind_ok, pure_ok, hstrip, hclean, slice_none_neg_one]
      have e13 : (((body x' ++ [c]).length : Int) == 13) = false := by simp [hql]
      have e9 : (((body x' ++ [c]).length : Int) == 9) = true := by simp [hql]
      simp only [e13, e9, Bool.false_eq_true, if_false, if_true, List.dropLast_concat, hk', bind_ok, strIn_single]
      unfold pre978
      have : ([48] ++ (x' ++ [c])).dropLast = 48 :: x' := by
        rw [← List.append_assoc, List.dropLast_concat]; rfl
      rw [this]
      split
      · rfl
      · split <;> rfl
    · apply hres
      · exact Pres.append (Pres.cons (Or.inl (by decide)) hPx') (Pres.of_alnum (allIn_cons (digit_alnum hkd) (fun _ h => by simp at h)))
      · rw [body_append, hbk, hvd]
        have : body (48 :: x') = 48 :: body x' := by simp [body, isAsciiAlnum, isAsciiDigit]
        rw [this]
  · rw [if_neg h9] at hv
    have hvd : v.dropLast = (body x').map asciiUpper := by
      rw [hv, List.dropLast_concat]
    have hbd : (body x').map asciiUpper = body x' := map_asciiUpper_digits (by rw [← hvd]; exact hp)
    rw [hbd] at hvd
    have hql : (body x').length = 9 := by
      have := congrArg List.length hvd
      simp [hl] at this; omega
    refine ⟨pre978 (x' ++ [k]) ++ (x' ++ [k]), k, hk, ?_, ?_⟩
    · unfold Gen.isbn.to_isbn13
      simp only [clean_eq, bind_ok, pure_ok, hstrip, hclean, slice_none_neg_one]
      have e13 : (((body x' ++ [c]).length : Int) == 13) = false := by simp [hql]
      have e9 : (((body x' ++ [c]).length : Int) == 9) = false := by simp [hql]
      rw [hvd] at hk
      simp only [e13, e9, Bool.false_eq_true, if_false, List.dropLast_concat, hk, bind_ok, strIn_single]
      unfold pre978
      split
      · rfl
      · split <;> rfl
    · apply hres
      · exact Pres.append hPx' (Pres.of_alnum (allIn_cons (digit_alnum hkd) (fun _ h => by simp at h)))
      · rw [body_append, hbk, hvd]

/-! ## `isbn.to_isbn10` on a separated ISBN-13 -/

theorem isbn_compact_eq (x : Str) : Gen.isbn.compact x false = .ok (isbnC x) := by
  unfold Gen.isbn.compact isbnC
  simp only [clean_eq, bind_ok, pure_ok, Bool.false_eq_true, if_false]
  by_cases h9 : (upper (strip (cleanP x [32, 45]))).length = 9
  · simp [h9]
  · have : ¬ (((upper (strip (cleanP x [32, 45]))).length : Int) = 9) := by omega
    simp [h9, this]

/-- `(a + m + [c])[len(a):-1]` -/
theorem slice_mid (a m : Str) (c : Nat) :
    slice (a ++ m ++ [c]) (some (a.length : Int)) (some (-1)) = m := by
  rw [slice_eq]
  simp only [loIdx_some, hiIdx_some, normIdx_natCast, List.length_append, List.length_cons, List.length_nil]
  rw [normIdx_of_neg (by decide)]
  have h1 : min a.length (a.length + m.length + (0 + 1)) = a.length := by omega
  have h2 : a.length + m.length + (0 + 1) - (-(-1 : Int)).toNat - a.length = m.length := by
    have : (-(-1 : Int)).toNat = 1 := rfl
    rw [this]; omega
  rw [h1, h2, List.append_assoc, List.drop_left, List.take_left]

/-- `'...' + ' ' + digit`, `'...' + '-' + digit` or `'...' + digit`, as `to_isbn10` chooses it -/
def sep10 (n : Str) : Str := if n.contains 32 then [32] else if n.contains 45 then [45] else []

theorem sep10_pres (n : Str) : Pres [32, 45] (sep10 n) ∧ body (sep10 n) = [] := by
  unfold sep10
  split
  · exact ⟨by intro c hc; simp at hc; subst hc; simp, by decide⟩
  · split
    · exact ⟨by intro c hc; simp at hc; subst hc; simp, by decide⟩
    · exact ⟨by intro c hc; simp at hc, rfl⟩

/-- target-valid + identity for a separated ISBN-13 `'978' + m + [c]` (`m`: ASCII letters/digits, spaces, hyphens;
`c` the check digit, the last character): `to_isbn10` returns a presentation that `validate` compacts to
`isbn13[3:12] + check`, the value `to_isbn10` gives for the compact number (`isbn13_to_isbn10`) -/
theorem isbn13_to_isbn10_pres (m : Str) (c : Nat) (v : Str) (hP : Pres [32, 45] m) (hc : isAsciiAlnum c = true)
    (h : Gen.isbn.validate ([57, 55, 56] ++ m ++ [c]) false = .ok v) (hl : v.length = 13) :
    ∃ w k, Gen.isbn._calc_isbn10_check_digit ((v.drop 3).take 9) = .ok [k] ∧
      Gen.isbn.to_isbn10 ([57, 55, 56] ++ m ++ [c]) = .ok w ∧
      Gen.isbn.validate w false = .ok ((v.drop 3).take 9 ++ [k]) := by
  obtain ⟨hD, _, _⟩ := isbn13_shape h hl
  obtain ⟨hv, _⟩ := isbn_std_of_ok h
  have hPx : Pres [32, 45] ([57, 55, 56] ++ m ++ [c]) :=
    (Pres.append (Pres.of_alnum (by decide)) hP).append (Pres.of_alnum (allIn_cons hc (fun _ h => by simp at h)))
  have hU : upper (strip (cleanP ([57, 55, 56] ++ m ++ [c]) [32, 45])) =
      [57, 55, 56] ++ (body m).map asciiUpper ++ [asciiUpper c] := by
    rw [pres_compact sepOK_sp_hy hPx, body_append, body_append, body_single hc, List.map_append, List.map_append]
    rfl
  have hv' : v = [57, 55, 56] ++ (body m).map asciiUpper ++ [asciiUpper c] := by
    unfold isbnC at hv
    rw [hU] at hv
    by_cases h9 : ([57, 55, 56] ++ (body m).map asciiUpper ++ [asciiUpper c]).length = 9
    · rw [if_pos h9] at hv
      rw [hv] at hl
      simp only [List.length_cons] at hl
      omega
    · rw [if_neg h9] at hv
      exact hv
  have hbm : (body m).map asciiUpper = body m :=
    map_asciiUpper_digits (fun d hd => hD d (by rw [hv']; simp [hd]))
  rw [hbm] at hv'
  have hml : (body m).length = 9 := by
    have := congrArg List.length hv'
    simp [hl] at this; omega
  have h978 : v.take 3 = [57, 55, 56] := by rw [hv']; rfl
  have hmid : (v.drop 3).take 9 = body m := by
    rw [hv']
    simp only [List.cons_append, List.nil_append, List.drop_succ_cons, List.drop_zero]
    rw [List.take_append_of_le_length (by omega), List.take_of_length_le (by omega)]
  obtain ⟨k, hk, _, hval⟩ := isbn13_to_isbn10 _ v h hl h978
  have hp : AllIn isAsciiDigit (body m) := by
    rw [← hmid]
    exact fun d hd => hD d (List.mem_of_mem_drop (List.mem_of_mem_take hd))
  have hkd : isDU k = true := by
    obtain ⟨k2, hk2, hd2⟩ := chk11_char (wsum wt10 0 ((body m).map (· - 48)) % 11)
      (Int.emod_nonneg _ (by decide)) (by omega)
    rw [hmid, isbn10_calc_eq _ hp, hk2] at hk
    have : k2 = k := by simpa using hk
    rw [← this]
    exact d11_du hd2
  have hstrip : strip ([57, 55, 56] ++ m ++ [c]) = [57, 55, 56] ++ m ++ [c] :=
    strip_pres (by intro d hd; simp at hd; subst hd; decide)
      (by
        intro d hd
        rw [getLast?_snoc] at hd
        cases hd
        exact hc)
  have hst : startswith ([57, 55, 56] ++ m ++ [c]) [57, 55, 56] = true :=
    startswith_iff.mpr ⟨m ++ [c], by simp⟩
  obtain ⟨n, hnd⟩ : ∃ n, n = stripChars (strip m) [45] := ⟨_, rfl⟩
  have hn : Pres [32, 45] n := by rw [hnd]; exact (hP.stripBy _).stripBy _
  have hbn : body n = body m := by
    rw [hnd]
    show body (stripBy _ (stripBy _ m)) = body m
    rw [body_stripBy _ _ (by
        intro d hd
        have : d = 45 := by simpa using hd
        subst this; rfl),
      body_stripBy _ _ (by
        intro d hd
        cases ha : isAsciiAlnum d with
        | false => rfl
        | true => rw [Uni.isSpace_of_asciiAlnum d ha] at hd; cases hd)]
  refine ⟨n ++ sep10 n ++ [k], k, hk, ?_, ?_⟩
  · unfold Gen.isbn.to_isbn10
    simp only [pure_ok, hstrip, isbn_compact_eq, ← hv, bind_ok, isbn_type_of_valid v (isbn_validate_idem h), hst,
      slice_3_neg1 v hl, hk]
    have e10 : ((v.length : Int) == 10) = false := by simp [hl]
    have hsl := slice_mid [57, 55, 56] m c
    simp only [List.length_cons, List.length_nil] at hsl
    have h3 : ((0 + 1 + 1 + 1 : Nat) : Int) = 3 := rfl
    rw [h3] at hsl
    simp only [e10, hsl, ← hnd, Bool.false_eq_true, if_false, strIn_single, bne_self_eq_false, Bool.not_true]
    unfold sep10
    split
    · simp
    · split <;> simp
  · rw [isbn_validate_pres (y := n ++ sep10 n ++ [k]) (w := (v.drop 3).take 9 ++ [k])
      ((hn.append (sep10_pres n).1).append (Pres.of_alnum (allIn_cons (alnum_of_du hkd) (fun _ h => by simp at h))))
      (by rw [body_append, body_append, hbn, (sep10_pres n).2, body_single (alnum_of_du hkd), hmid]; simp)
      (by rw [hmid]; exact allIn_append (fun d hd => du_of_digit (hp d hd)) (allIn_cons hkd (fun _ h => by simp at h)))]
    exact hval

/-! ## `ismn.to_ismn13` on a separated ISMN-10 -/

theorem ismn_validate_pres {y w : Str} (hP : Pres [32, 45, 46] y) (hb : body y = w) (hw : AllIn isDU w) :
    Gen.ismn.validate y = Gen.ismn.validate w :=
  ismn_validate_of_compact_eq hw (pres_compact_du sepOK_sp_hy_dot hP hb hw)

/-- `'979 0'`, `'979-0'` or `'9790'`, as `to_ismn13` chooses it -/
def pre9790 (x : Str) : Str :=
  if x.contains 32 then [57, 55, 57, 32, 48] else if x.contains 45 then [57, 55, 57, 45, 48] else [57, 55, 57, 48]

theorem pre9790_pres (x : Str) : Pres [32, 45, 46] (pre9790 x) ∧ body (pre9790 x) = [57, 55, 57, 48] := by
  unfold pre9790
  split
  · exact ⟨by intro c hc; simp at hc; rcases hc with rfl | rfl | rfl | rfl | rfl <;> simp [isAsciiAlnum, isAsciiDigit], by decide⟩
  · split
    · exact ⟨by intro c hc; simp at hc; rcases hc with rfl | rfl | rfl | rfl | rfl <;> simp [isAsciiAlnum, isAsciiDigit], by decide⟩
    · exact ⟨by intro c hc; simp at hc; rcases hc with rfl | rfl | rfl | rfl <;> simp [isAsciiAlnum, isAsciiDigit], by decide⟩

/-- target-valid + identity for a separated ISMN-10 `[a] ++ t` (`a` the letter `M`/`m`, the FIRST character; `t`:
ASCII letters/digits, spaces, hyphens, dots, not ending in a space): `to_ismn13` returns a presentation that
`validate` compacts to `'9790' + ismn10[1:]`, the value `to_ismn13` gives for the compact number -/
theorem ismn10_to_ismn13_pres (a : Nat) (t v : Str) (ha : isAsciiAlnum a = true) (hP : Pres [32, 45, 46] t)
    (hlast : (a :: t).getLast? ≠ some 32)
    (h : Gen.ismn.validate (a :: t) = .ok v) (hl : v.length = 10) :
    ∃ w, Gen.ismn.to_ismn13 (a :: t) = .ok w ∧
      Gen.ismn.validate w = .ok ([57, 55, 57, 48] ++ v.drop 1) := by
  obtain ⟨_, hval, _⟩ := ismn10_to_ismn13 _ v h hl
  obtain ⟨_, hD, _⟩ := ismn10_shape h hl
  obtain ⟨hv, _⟩ := ismn_std_of_ok h
  have hPx : Pres [32, 45, 46] (a :: t) := Pres.cons (Or.inl ha) hP
  have hba : body (a :: t) = a :: body t := by
    unfold body
    rw [List.filter_cons_of_pos ha]
  have hU : upper (strip (cleanP (a :: t) [32, 45, 46])) = asciiUpper a :: (body t).map asciiUpper := by
    rw [pres_compact sepOK_sp_hy_dot hPx, hba, List.map_cons]
  rw [hU] at hv
  have hvd : v.drop 1 = (body t).map asciiUpper := by rw [hv]; rfl
  have hbt : (body t).map asciiUpper = body t := map_asciiUpper_digits (by rw [← hvd]; exact hD)
  rw [hbt] at hvd
  have hstrip : strip (a :: t) = a :: t := by
    apply strip_eq_self'
    · intro c hc
      have : a = c := by simpa using hc
      rw [← this]
      exact Uni.isSpace_of_asciiAlnum a ha
    · intro c hc
      rcases hPx c (List.mem_of_mem_getLast? hc) with h1 | h1
      · exact Uni.isSpace_of_asciiAlnum c h1
      · have : c = 32 ∨ c = 45 ∨ c = 46 := by simpa using h1
        rcases this with rfl | rfl | rfl
        · exact absurd hc hlast
        · decide
        · decide
  have hcomp : Gen.ismn.compact (a :: t) = .ok v := by
    unfold Gen.ismn.compact
    simp only [clean_eq, bind_ok, pure_ok, hU, hv]
  refine ⟨pre9790 (a :: t) ++ t, ?_, ?_⟩
  · unfold Gen.ismn.to_ismn13
    simp only [pure_ok, hstrip, hcomp, bind_ok]
    have e13 : ((v.length : Int) == 13) = false := by simp [hl]
    have hsl : slice (a :: t) (some 1) none = t := by
      rw [slice_nonneg_none _ (by decide)]; rfl
    simp only [e13, Bool.false_eq_true, if_false, strIn_single, hsl]
    unfold pre9790
    split
    · rfl
    · split <;> rfl
  · rw [ismn_validate_pres (y := pre9790 (a :: t) ++ t) (w := [57, 55, 57, 48] ++ v.drop 1)
      ((pre9790_pres _).1.append hP) (by rw [body_append, (pre9790_pres _).2, hvd])
      (fun d hd => du_of_digit (allIn_append (by decide) hD d hd))]
    exact hval

/-! ## the full statements are false: presentations on which the positional splicing goes wrong

Full statement (ISBN-10 → ISBN-13), false:
  `∀ x v, isbn.validate x = ok v → ∃ w r, isbn.to_isbn13 x = ok w ∧ isbn.validate w = ok r`
A separator after the check digit is accepted by `validate` but `number[:-1]` then removes the separator, not the
check digit: `'1857982185-'` ↦ `'97818579821853'` (14 digits). -/

theorem isbn_to_isbn13_witness :
    Gen.isbn.validate (str% "1857982185-") false = .ok (str% "1857982185") ∧
    Gen.isbn.to_isbn13 (str% "1857982185-") = .ok (str% "97818579821853") ∧
    Gen.isbn.validate (str% "97818579821853") false = .error .invalidLength := by
  decide +kernel

theorem isbn_to_isbn13_full_false :
    ¬ (∀ x v, Gen.isbn.validate x false = .ok v →
        ∃ w r, Gen.isbn.to_isbn13 x = .ok w ∧ Gen.isbn.validate w false = .ok r) := by
  intro hall
  obtain ⟨h1, h2, h3⟩ := isbn_to_isbn13_witness
  obtain ⟨w, r, hw, hr⟩ := hall _ _ h1
  rw [h2] at hw
  cases hw
  rw [h3] at hr
  cases hr

/-- Full statement (ISBN-13 with prefix 978 → ISBN-10), false:
  `∀ x v, isbn.validate x = ok v → |v| = 13 → v[:3] = '978' → ∃ w r, isbn.to_isbn10 x = ok w ∧ isbn.validate w = ok r`
`number.startswith('978')` is tested on the presentation, not on the compact number: `'9 780471117094'` raises
`InvalidComponent` although the number has the Bookland prefix; and a separator after the check digit makes
`number[3:-1]` keep the old check digit: `'9780471117094-'` ↦ `'04711170949'` (11 digits). -/
theorem isbn_to_isbn10_witness :
    Gen.isbn.validate (str% "9 780471117094") false = .ok (str% "9780471117094") ∧
    Gen.isbn.to_isbn10 (str% "9 780471117094") = .error .invalidComponent ∧
    Gen.isbn.validate (str% "9780471117094-") false = .ok (str% "9780471117094") ∧
    Gen.isbn.to_isbn10 (str% "9780471117094-") = .ok (str% "04711170949") ∧
    Gen.isbn.validate (str% "04711170949") false = .error .invalidLength := by
  decide +kernel

theorem isbn_to_isbn10_full_false :
    ¬ (∀ x v, Gen.isbn.validate x false = .ok v → v.length = 13 → v.take 3 = [57, 55, 56] →
        ∃ w r, Gen.isbn.to_isbn10 x = .ok w ∧ Gen.isbn.validate w false = .ok r) := by
  intro hall
  obtain ⟨h1, h2, _⟩ := isbn_to_isbn10_witness
  obtain ⟨w, r, hw, _⟩ := hall _ _ h1 rfl rfl
  rw [h2] at hw
  cases hw

/-- Full statement (ISMN-10 → ISMN-13), false:
  `∀ x v, ismn.validate x = ok v → ∃ w r, ismn.to_ismn13 x = ok w ∧ ismn.validate w = ok r`
`number[1:]` removes the first character of the presentation, which need not be the `M`:
`'-M230671187'` ↦ `'979-0M230671187'`. -/
theorem ismn_to_ismn13_witness :
    Gen.ismn.validate (str% "-M230671187") = .ok (str% "M230671187") ∧
    Gen.ismn.to_ismn13 (str% "-M230671187") = .ok (str% "979-0M230671187") ∧
    Gen.ismn.validate (str% "979-0M230671187") = .error .invalidLength := by
  decide +kernel

theorem ismn_to_ismn13_full_false :
    ¬ (∀ x v, Gen.ismn.validate x = .ok v →
        ∃ w r, Gen.ismn.to_ismn13 x = .ok w ∧ Gen.ismn.validate w = .ok r) := by
  intro hall
  obtain ⟨h1, h2, h3⟩ := ismn_to_ismn13_witness
  obtain ⟨w, r, hw, hr⟩ := hall _ _ h1
  rw [h2] at hw
  cases hw
  rw [h3] at hr
  cases hr

/-! ## Non-vacuity: the docstring numbers -/
section Examples

example : ∃ w k, Gen.ean.calc_check_digit (str% "978185798218") = .ok [k] ∧
    Gen.isbn.to_isbn13 (str% "1-85798-218-5") = .ok w ∧
    Gen.isbn.validate w false = .ok (str% "978185798218" ++ [k]) :=
  isbn10_to_isbn13_pres (str% "1-85798-218-") 53 (str% "1857982185")
    (by intro c hc; revert c; decide) (by decide) (by decide) ex_isbn10 rfl
example : Gen.isbn.to_isbn13 (str% "1-85798-218-5") = .ok (str% "978-1-85798-218-3") := by decide +kernel
example : Gen.isbn.to_isbn13 (str% "8044-2957-x") = .ok (str% "978-08044-2957-3") := by decide +kernel
example : Gen.isbn.validate (str% "978-08044-2957-3") false = .ok (str% "9780804429573") := by decide +kernel

example : ∃ w k, Gen.isbn._calc_isbn10_check_digit (str% "047111709") = .ok [k] ∧
    Gen.isbn.to_isbn10 (str% "978-0-471-11709-4") = .ok w ∧
    Gen.isbn.validate w false = .ok (str% "047111709" ++ [k]) :=
  isbn13_to_isbn10_pres (str% "-0-471-11709-") 52 (str% "9780471117094")
    (by intro c hc; revert c; decide) (by decide) ex_isbn13 rfl
example : Gen.isbn.to_isbn10 (str% "978-0-471-11709-4") = .ok (str% "0-471-11709-9") := by decide +kernel

example : ∃ w, Gen.ismn.to_ismn13 (str% "M-2306-7118-7") = .ok w ∧
    Gen.ismn.validate w = .ok (str% "9790230671187") :=
  ismn10_to_ismn13_pres 77 (str% "-2306-7118-7") (str% "M230671187") (by decide)
    (by intro c hc; revert c; decide) (by decide) ex_ismn10 rfl
example : Gen.ismn.to_ismn13 (str% "M-2306-7118-7") = .ok (str% "979-0-2306-7118-7") := by decide +kernel

end Examples

end Props.C08
