import Gen.de_idnr
import Props.C17c
/-!
# C17, continued — `de.idnr` (ISO 7064 Mod 11,10); `id.npwp` is in `C17g` (separate files fail separately)

Same theorem shapes and machinery as `Props/C17b.lean` (`invert_validate`, `Wraps`, `WrapsSel`, `reject_of_ok`).

| module | theorems | algorithm; extra hypothesis of `_partial` |
|---|---|---|
| `de.idnr` | `de_idnr_single_error` (all positions; the digit-frequency rule only rejects more) | Mod 11,10 |
| `id.npwp` 15 digits | `id_npwp15_single_error_partial`, `id_npwp_single_error_false` | Luhn over `number[:9]`; `i < 9` |
| `id.npwp` 16 digits, leading `0` | `id_npwp16_single_error_partial`, `id_npwp16_single_error_false` | Luhn over `number[:10]`; `1 ≤ i < 10` (position 0 selects the NIK reading) |
-/
namespace Props.C17
open Py Spec.Checksum Lemmas.Refine Lemmas.Fold Props.C06 Props.C06Gen

/-- the generated Mod 11,10 `validate` returns its argument -/
theorem gen_mod_11_10_validate_ok {w r : Str} (h : Gen.iso7064_mod_11_10.validate w = .ok r) : r = w := by
  unfold Gen.iso7064_mod_11_10.validate at h
  simp only [pure_ok, bind_eq_ok] at h
  obtain ⟨valid, _, h⟩ := h
  split at h
  · cases h
  · cases h; rfl

/-! ## stdnum.de.idnr (11 digits, no leading zero, one digit repeated twice or three times, Mod 11,10) -/

theorem de_idnr_ok : Wraps Gen.de_idnr.validate isAsciiDigit Gen.iso7064_mod_11_10.validate := by
  intro x v h
  unfold Gen.de_idnr.validate Gen.de_idnr.compact at h
  invert_validate h
  obtain ⟨_, hd, _, counter, _, b, _, _, hl⟩ := h
  obtain rfl := gen_mod_11_10_validate_ok hl
  exact ⟨fun hx => digits_compact hx _ (by decide), digits_of_isDigitsB hd, isOk_true_of_ok hl⟩

theorem de_idnr_single_error (x v : Str) (h : Gen.de_idnr.validate x = .ok v)
    (i c : Nat) (hi : i < v.length) (hc : isAsciiDigit c = true) (hne : c ≠ v[i]) :
    isOk (Gen.de_idnr.validate (v.set i c)) = false :=
  single_error_of mod_11_10_detects de_idnr_ok x v h i c hi hc hne

theorem ex_de_idnr : Gen.de_idnr.validate (str% "36 574 261 809") = .ok (str% "36574261809") := by decide +kernel
example : isOk (Gen.de_idnr.validate (str% "36574261800")) = false :=
  de_idnr_single_error _ _ ex_de_idnr 10 48 (by decide) (by decide) (by decide)


end Props.C17

#print axioms Props.C17.de_idnr_single_error
#print axioms Props.C17.ex_de_idnr
