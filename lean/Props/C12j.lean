import Gen.mx_curp
import Lemmas.Regex
import Props.C12c
/-!
# C12 (value consistency, part 3, continued) — mx.curp (`AAAA YYMMDD …`; the shape comes from the regular expression)
-/
namespace Props.C12
open Py Lemmas.Refine Props.C17 Props.C08 Py.Re

set_option linter.unusedVariables false
set_option linter.unusedSimpArgs false

/-- per-position predicates of a fixed-width match, as facts about `v[j]` -/
theorem fits_getElem {s : Str} {ps : List (Nat → Bool)} (hf : FitsAt s 0 ps) (j : Nat) (hj : j < s.length)
    (hp : j < ps.length) : ps[j] s[j] = true := by
  obtain ⟨c, hc, hpc⟩ := (fitsAt_iff_forall ps 0).mp hf j hp
  rw [Nat.zero_add, List.getElem?_eq_getElem hj] at hc
  cases hc
  exact hpc

theorem fits_allIn {s : Str} {ps : List (Nat → Bool)} {Q : Nat → Bool} (hf : FitsAt s 0 ps)
    (hl : s.length = ps.length) (hq : ∀ p ∈ ps, ∀ c, p c = true → Q c = true) : AllIn Q s := by
  intro c hc
  obtain ⟨j, hj, rfl⟩ := List.mem_iff_getElem.mp hc
  exact hq _ (List.getElem_mem (by omega)) _ (fits_getElem hf j hj (by omega))

/-- a segment all of whose positions satisfy `Q` -/
theorem allIn_seg {v : Str} {Q : Nat → Bool} (a b : Nat)
    (h : ∀ j (hj : j < v.length), a ≤ j → j < b → Q v[j] = true) : AllIn Q ((v.drop a).take (b - a)) := by
  intro c hc
  obtain ⟨i, hi, rfl⟩ := List.mem_iff_getElem.mp hc
  simp only [List.length_take, List.length_drop] at hi
  simp only [List.getElem_take, List.getElem_drop]
  exact h (a + i) (by omega) (by omega) (by omega)

/-- `int(v[a:b])` when that segment consists of digits -/
theorem intOf_fld_seg {v : Str} (a b : Nat) (hD : AllIn isAsciiDigit ((v.drop a).take (b - a))) (a' b' : Int)
    (ha : a' = a) (hb : b' = b) (hab : a < b) (hbl : b ≤ v.length) (hb4 : b ≤ 4300 := by omega) :
    intOf (slice v (some a') (some b')) = .ok (fld v a b) := by
  rw [slice_eq_drop_take v a b a' b' ha hb (by omega)]
  unfold fld
  have hne : (v.drop a).take (b - a) ≠ [] := by
    intro h0
    have := congrArg List.length h0
    simp only [List.length_take, List.length_drop, List.length_nil] at this
    omega
  have hl : ((v.drop a).take (b - a)).length ≤ 4300 := by
    simp only [List.length_take, List.length_drop]; omega
  exact intOf_of_asciiDigits _ hne hD hl

theorem fld2_seg {v : Str} (a b : Nat) (hD : AllIn isAsciiDigit ((v.drop a).take (b - a))) (h : b = a + 2 := by omega) :
    0 ≤ fld v a b ∧ fld v a b < 100 := by
  unfold fld
  obtain ⟨h0, h1⟩ := digitsVal_bounds hD
  refine ⟨h0, Int.lt_of_lt_of_le h1 ?_⟩
  have : ((v.drop a).take (b - a)).length ≤ 2 := by simp only [List.length_take]; omega
  have h10 : (10 : Nat) ^ ((v.drop a).take (b - a)).length ≤ 10 ^ 2 := Nat.pow_le_pow_right (by decide) this
  exact_mod_cast h10

theorem mx_curp_ok {x v : Str} {b : Bool} (h : Gen.mx_curp.validate x b = .ok v) :
    v.length = 18 ∧ (Re.match_ Gen.mx_curp._re_lit_0 v).isSome = true ∧
      ∃ d, Gen.mx_curp.get_birth_date v = .ok d := by
  unfold Gen.mx_curp.validate at h
  obtain ⟨n, hn, h⟩ := bind_ok_inv h
  cases b <;> invert_validate h <;>
    (obtain ⟨hl, hm, _, d, hd, hh⟩ := h
     have hv : n = v := by grind
     subst hv
     exact ⟨by omega, hm, d, hd⟩)

theorem mx_cls_upper (c : Nat) :
    classMatch Gen.mx_curp._re_lit_0.flags false [ClassItem.range 65 90] c = true ↔ 65 ≤ c ∧ c ≤ 90 := by
  simp [classMatch, itemMatch, Gen.mx_curp._re_lit_0]

theorem mx_cls_digit (c : Nat) :
    classMatch Gen.mx_curp._re_lit_0.flags false [ClassItem.range 48 57] c = true ↔ 48 ≤ c ∧ c ≤ 57 := by
  simp [classMatch, itemMatch, Gen.mx_curp._re_lit_0]

theorem mx_cls_du (c : Nat) :
    classMatch Gen.mx_curp._re_lit_0.flags false [ClassItem.range 48 57, ClassItem.range 65 90] c = true ↔
      (48 ≤ c ∧ c ≤ 57) ∨ (65 ≤ c ∧ c ≤ 90) := by
  simp [classMatch, itemMatch, Gen.mx_curp._re_lit_0]

/-- what the CURP regular expression says about an 18-character string -/
theorem mx_curp_shape {v : Str} (hl : v.length = 18) (hm : (Re.match_ Gen.mx_curp._re_lit_0 v).isSome = true) :
    AllIn isDU v ∧ (∀ j (hj : j < v.length), 4 ≤ j → j < 10 → isAsciiDigit v[j] = true) := by
  obtain ⟨hfit, _⟩ := (match_fixed_iff (p := Gen.mx_curp._re_lit_0) rfl v).mp hm
  constructor
  · refine fits_allIn hfit (by rw [hl]; rfl) ?_
    intro p hp c hc
    simp only [List.mem_append, List.mem_flatten, List.mem_replicate, List.mem_cons, List.not_mem_nil, or_false,
      List.replicate, List.flatten_cons, List.flatten_nil, List.append_nil, List.cons_append, List.nil_append] at hp
    have hcases : p = classMatch Gen.mx_curp._re_lit_0.flags false [ClassItem.range 65 90] ∨
        p = classMatch Gen.mx_curp._re_lit_0.flags false [ClassItem.range 48 57] ∨
        p = classMatch Gen.mx_curp._re_lit_0.flags false [ClassItem.range 48 57, ClassItem.range 65 90] := by
      rcases hp with h | h | h | h | h | h | h | h | h | h | h | h | h | h | h | h | h | h
      all_goals first | exact Or.inl h | exact Or.inr (Or.inl h) | exact Or.inr (Or.inr h)
    simp only [isDU, isAsciiDigit, isAsciiUpper, Bool.or_eq_true, Bool.and_eq_true, decide_eq_true_eq]
    rcases hcases with rfl | rfl | rfl
    · have := (mx_cls_upper c).mp hc; omega
    · have := (mx_cls_digit c).mp hc; omega
    · have := (mx_cls_du c).mp hc; omega
  · intro j hj h4 h10
    have hps := fits_getElem hfit j hj (Nat.lt_of_lt_of_eq (by omega : j < 18) (by rfl))
    have hj' : j = 4 ∨ j = 5 ∨ j = 6 ∨ j = 7 ∨ j = 8 ∨ j = 9 := by omega
    simp only [isAsciiDigit, Bool.and_eq_true, decide_eq_true_eq]
    rcases hj' with rfl | rfl | rfl | rfl | rfl | rfl <;> exact (mx_cls_digit _).mp hps

/-- **mx.curp**: `YYMMDD` at positions 4–10; the century is 1900 when the character before the check digit
(`v[16]`) is a digit, 2000 when it is a letter -/
theorem mx_curp_birth_date (x v : Str) (b : Bool) (d : Date) (h : Gen.mx_curp.validate x b = .ok v)
    (hd : Gen.mx_curp.get_birth_date v = .ok d) :
    d.Valid ∧ d.day = fld v 8 10 ∧ d.month = fld v 6 8 ∧ d.year % 100 = fld v 4 6 ∧
      d.year = fld v 4 6 + (if isAsciiDigit (v.getD 16 0) then 1900 else 2000) := by
  obtain ⟨hl, hm, _⟩ := mx_curp_ok h
  obtain ⟨hDU, hdig⟩ := mx_curp_shape hl hm
  have hc : Gen.mx_curp.compact v = .ok v := by
    unfold Gen.mx_curp.compact
    simp only [clean_eq, bind_ok, pure_ok, du_compact_upper' hDU [45, 95, 32] (by decide)]
  have s46 : AllIn isAsciiDigit ((v.drop 4).take (6 - 4)) := allIn_seg 4 6 (fun j hj h1 h2 => hdig j hj h1 (by omega))
  have s68 : AllIn isAsciiDigit ((v.drop 6).take (8 - 6)) :=
    allIn_seg 6 8 (fun j hj h1 h2 => hdig j hj (by omega) (by omega))
  have s810 : AllIn isAsciiDigit ((v.drop 8).take (10 - 8)) :=
    allIn_seg 8 10 (fun j hj h1 h2 => hdig j hj (by omega) h2)
  have hg : v.getD 16 0 = v[16] := by
    simp [List.getD_eq_getElem?_getD, List.getElem?_eq_getElem (show 16 < v.length by omega)]
  have h16 : isDU v[16] = true := hDU _ (List.getElem_mem _)
  have hisd : Py.isdigit [v[16]] = isAsciiDigit v[16] := by
    have ha : AllIn isAscii [v[16]] := by
      intro c hc
      simp only [List.mem_singleton] at hc
      subst hc
      exact isAscii_of_alnum (alnum_of_du h16)
    rw [isdigit_ascii ha]
    simp
  unfold Gen.mx_curp.get_birth_date at hd
  simp only [hc, bind_ok, intOf_fld_seg 4 6 s46 4 6 rfl rfl (by omega) (by omega),
    intOf_fld_seg 6 8 s68 6 8 rfl rfl (by omega) (by omega), intOf_fld_seg 8 10 s810 8 10 rfl rfl (by omega) (by omega),
    getItem_nat v 16 16 rfl (by omega), hisd] at hd
  have hy := fld2_seg 4 6 s46
  rw [hg]
  invert_getter hd
  rcases hd with ⟨h1, hmk⟩ | ⟨h1, hmk⟩ <;>
    obtain ⟨hv, hyr, hmo, hdd⟩ := mkDate_valid hmk <;>
    refine ⟨hv, hdd, hmo, by omega, ?_⟩
  · rw [h1, if_pos rfl]; exact hyr
  · rw [h1]; simpa using hyr

example : Gen.mx_curp.validate (str% "BOXW310820HNERXN09") true = .ok (str% "BOXW310820HNERXN09") ∧
    Gen.mx_curp.get_birth_date (str% "BOXW310820HNERXN09") = .ok ⟨1931, 8, 20⟩ := by decide +kernel

end Props.C12

#print axioms Props.C12.fits_getElem
#print axioms Props.C12.fits_allIn
#print axioms Props.C12.allIn_seg
#print axioms Props.C12.intOf_fld_seg
#print axioms Props.C12.mx_curp_ok
#print axioms Props.C12.mx_curp_shape
#print axioms Props.C12.mx_curp_birth_date
