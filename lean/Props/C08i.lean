import Gen.iban
import Gen.es_ccc
import Gen.no_kontonr
import Props.C08p
/-!
# C08 (part i) — bank account numbers to IBAN and back: `es.ccc.to_iban` / `es.iban.to_ccc`,
`no.kontonr.to_iban` / `no.iban.to_kontonr`
-/
namespace Props.C08
open Py Spec.Checksum Lemmas.Refine Lemmas.Fold Props.C06 Props.C06Gen Props.C17 Props.C07

theorem iban_compact_eq (x : Str) : Gen.iban.compact x = .ok (upper (strip (cleanP x [32, 45, 46]))) := by
  unfold Gen.iban.compact
  simp only [clean_eq, bind_ok, pure_ok]

/-- the two check digits of the IBAN `cc + ?? + v` -/
theorem iban_check_digits (cc v : Str) (hcc : AllIn isAsciiUpper cc) (hccl : cc.length = 2)
    (hv : AllIn isAsciiDigit v) (hvl : v.length ≤ 30) :
    ∃ d1 d2, isAsciiDigit d1 = true ∧ isAsciiDigit d2 = true ∧
      Gen.iso7064_mod_97_10.calc_check_digits (v ++ cc) = .ok [d1, d2] ∧
      Gen.iso7064_mod_97_10.validate (v ++ cc ++ [d1, d2]) = .ok (v ++ cc ++ [d1, d2]) := by
  have hp : AllIn isAsciiAlnum (v ++ cc) :=
    allIn_append (fun c hc => digit_alnum (hv c hc)) (fun c hc => by
      simp only [isAsciiAlnum, isAsciiAlpha, hcc c hc, Bool.true_or, Bool.or_true])
  have hfit : Mod9710.width ((v ++ cc).map b36Val) + 2 ≤ 4300 := by
    have := width_le ((v ++ cc).map b36Val)
    simp only [List.length_map, List.length_append, hccl] at this
    omega
  obtain ⟨c1, c2, h1, h2, h3, h4⟩ := gen_mod_97_10_append_valid_partial _ hp hfit
  exact ⟨c1, c2, h2, h3, h1, h4⟩

/-- `iban.calc_check_digits(cc + '00' + x)` for a presentation `x` (ASCII letters/digits, spaces, hyphens, dots)
of the digit string `v` -/
theorem iban_calc_pres (cc x v : Str) (hcc : AllIn isAsciiUpper cc) (hccl : cc.length = 2)
    (hP : Pres [32, 45, 46] x) (hb : body x = v) (hv : AllIn isAsciiDigit v) :
    Gen.iban.calc_check_digits (cc ++ [48, 48] ++ x) = Gen.iso7064_mod_97_10.calc_check_digits (v ++ cc) := by
  have hccA : AllIn isAsciiAlnum cc := fun c hc => by
    simp only [isAsciiAlnum, isAsciiAlpha, hcc c hc, Bool.true_or, Bool.or_true]
  have hPy : Pres [32, 45, 46] (cc ++ [48, 48] ++ x) :=
    ((Pres.of_alnum hccA).append (Pres.of_alnum (by decide))).append hP
  have hby : body (cc ++ [48, 48] ++ x) = cc ++ [48, 48] ++ v := by
    rw [body_append, body_append, body_of_alnum hccA, hb]; rfl
  have hDU : AllIn isDU (cc ++ [48, 48] ++ v) :=
    allIn_append (allIn_append (fun c hc => by unfold isDU; rw [hcc c hc]; exact Bool.or_true _) (by decide))
      (fun c hc => du_of_digit (hv c hc))
  unfold Gen.iban.calc_check_digits
  simp only [iban_compact_eq, bind_ok, pres_compact_du sepOK_sp_hy_dot hPy hby hDU]
  obtain ⟨a, b, rfl⟩ : ∃ a b, cc = [a, b] := by
    match cc, hccl with
    | [a, b], _ => exact ⟨a, b, rfl⟩
  have s1 : slice ([a, b] ++ [48, 48] ++ v) (some 4) none = v := by
    rw [slice_nonneg_none _ (by decide)]; rfl
  have s2 : slice ([a, b] ++ [48, 48] ++ v) none (some 2) = [a, b] := by
    rw [slice_none_nonneg _ (by decide)]; rfl
  rw [s1, s2]

/-! ## shapes of the source formats -/

theorem ccc_shape {x v : Str} (h : Gen.es_ccc.validate x = .ok v) :
    v = upper (strip (cleanP x [32, 45])) ∧ AllIn isAsciiDigit v ∧ v.length = 20 ∧
      Gen.es_ccc.validate v = .ok v := by
  have h0 := h
  unfold Gen.es_ccc.validate Gen.es_ccc.compact at h
  simp only [clean_eq, isdigits_eq, bind_ok, pure_ok] at h
  obtain ⟨n, hn⟩ : ∃ n, n = upper (strip (cleanP x [32, 45])) := ⟨_, rfl⟩
  rw [← hn] at h
  split at h
  · cases h
  · rename_i hlen
    have hl : n.length = 20 := by
      apply Classical.byContradiction
      intro hh
      apply hlen
      simp only [bne_iff_ne, ne_eq]
      omega
    cases hd : isDigitsB n with
    | false => simp [hd] at h
    | true =>
      have hD := (isDigitsB_iff n).mp hd
      simp only [hd, Bool.not_true, Bool.false_eq_true, if_false] at h
      obtain ⟨cs, _, h⟩ := bind_ok_inv h
      split at h
      · cases h
      · have hnv : n = v := by cases h; rfl
        subst hnv
        refine ⟨hn, hD.2, hl, ?_⟩
        rw [← h0]
        unfold Gen.es_ccc.validate Gen.es_ccc.compact
        simp only [clean_eq, bind_ok, pure_ok, ← hn,
          digits_compact_upper hD.2 _ (by decide : ∀ c ∈ ([32, 45] : Str), isAsciiAlnum c = false)]

/-- `no.kontonr.compact` -/
def kC (x : Str) : Str :=
  if startswith (strip (cleanP x [32, 46, 45])) [48, 48, 48, 48] = true then
    slice (strip (cleanP x [32, 46, 45])) (some 4) none
  else strip (cleanP x [32, 46, 45])

theorem kontonr_compact_eq (x : Str) : Gen.no_kontonr.compact x = .ok (kC x) := by
  unfold Gen.no_kontonr.compact kC
  simp only [clean_eq, bind_ok, pure_ok]
  split <;> rfl

theorem kontonr_shape {x v : Str} (h : Gen.no_kontonr.validate x = .ok v) :
    v = kC x ∧ AllIn isAsciiDigit v ∧ (v.length = 7 ∨ v.length = 11) := by
  unfold Gen.no_kontonr.validate at h
  simp only [kontonr_compact_eq, isdigits_eq, bind_ok, pure_ok] at h
  generalize kC x = n at h
  cases hd : isDigitsB n with
  | false => simp [hd] at h
  | true =>
    have hD := (isDigitsB_iff n).mp hd
    simp only [hd, Bool.not_true, Bool.false_eq_true, if_false] at h
    split at h
    · rename_i h7
      have hl7 : n.length = 7 := by
        have : (n.length : Int) = 7 := by simpa using h7
        omega
      obtain ⟨_, _, h⟩ := bind_ok_inv h
      cases h
      exact ⟨rfl, hD.2, Or.inl hl7⟩
    · split at h
      · rename_i h11
        have hl11 : n.length = 11 := by
          have : (n.length : Int) = 11 := by simpa using h11
          omega
        obtain ⟨_, _, h⟩ := bind_ok_inv h
        obtain ⟨_, _, h⟩ := bind_ok_inv h
        split at h
        · cases h
        · cases h
          exact ⟨rfl, hD.2, Or.inr hl11⟩
      · cases h

/-- on a compact number without the optional `0000` in front, `kontonr.validate` is idempotent -/
theorem kontonr_validate_idem {x v : Str} (h : Gen.no_kontonr.validate x = .ok v)
    (h0 : startswith v [48, 48, 48, 48] = false) : Gen.no_kontonr.validate v = .ok v := by
  obtain ⟨hv, hD, _⟩ := kontonr_shape h
  have hk : kC v = v := by
    unfold kC
    rw [digits_compact hD _ (by decide), h0]
    rfl
  rw [← h]
  unfold Gen.no_kontonr.validate
  simp only [kontonr_compact_eq, hk, ← hv]

/-! ## the conversions (registry-free part): explicit result, Mod 97-10 validity of the rotated result, inverse -/

/-- the common part of `es.ccc.to_iban` and `no.kontonr.to_iban` for the country code `[a, b]` and a presentation
`x` (ASCII letters/digits, spaces, hyphens, dots) of the digit string `v`: the check digits, and the compact form
of the result -/
theorem to_iban_core (a b : Nat) (x v : Str) (ha : isAsciiUpper a = true) (hbU : isAsciiUpper b = true)
    (hP : Pres [32, 45, 46] x) (hb : body x = v) (hD : AllIn isAsciiDigit v) (hl : v.length ≤ 30) :
    ∃ d1 d2, isAsciiDigit d1 = true ∧ isAsciiDigit d2 = true ∧
      Gen.iban.calc_check_digits ([a, b, 48, 48] ++ x) = .ok [d1, d2] ∧
      Gen.iso7064_mod_97_10.validate (v ++ [a, b, d1, d2]) = .ok (v ++ [a, b, d1, d2]) ∧
      upper (strip (cleanP ([a, b, d1, d2] ++ (if x.contains 32 then [32] else []) ++ x) [32, 45, 46])) =
        [a, b, d1, d2] ++ v := by
  have hcc : AllIn isAsciiUpper [a, b] := allIn_cons ha (allIn_cons hbU (fun _ h => by simp at h))
  obtain ⟨d1, d2, hd1, hd2, hcalc, hval⟩ := iban_check_digits [a, b] v hcc rfl hD hl
  refine ⟨d1, d2, hd1, hd2, ?_, by simpa using hval, ?_⟩
  · rw [← hcalc]
    exact iban_calc_pres [a, b] x v hcc rfl hP hb hD
  · have haA : isAsciiAlnum a = true := by simp only [isAsciiAlnum, isAsciiAlpha, ha, Bool.true_or, Bool.or_true]
    have hbA : isAsciiAlnum b = true := by simp only [isAsciiAlnum, isAsciiAlpha, hbU, Bool.true_or, Bool.or_true]
    have hpreA : AllIn isAsciiAlnum [a, b, d1, d2] :=
      allIn_cons haA (allIn_cons hbA (allIn_cons (digit_alnum hd1) (allIn_cons (digit_alnum hd2)
        (fun _ h => by simp at h))))
    have hsepP : Pres [32, 45, 46] (if x.contains 32 then [32] else []) := by
      split
      · intro c hc; right; simp at hc; simp [hc]
      · intro c hc; cases hc
    have hsepB : body (if x.contains 32 then [32] else []) = [] := by split <;> rfl
    have hPw : Pres [32, 45, 46] ([a, b, d1, d2] ++ (if x.contains 32 then [32] else []) ++ x) :=
      ((Pres.of_alnum hpreA).append hsepP).append hP
    have hbw : body ([a, b, d1, d2] ++ (if x.contains 32 then [32] else []) ++ x) = [a, b, d1, d2] ++ v := by
      rw [body_append, body_append, hsepB, hb, body_of_alnum hpreA]; simp
    have hDU : AllIn isDU ([a, b, d1, d2] ++ v) :=
      allIn_append (allIn_cons (by unfold isDU; rw [ha]; exact Bool.or_true _)
        (allIn_cons (by unfold isDU; rw [hbU]; exact Bool.or_true _) (allIn_cons (du_of_digit hd1)
        (allIn_cons (du_of_digit hd2) (fun _ h => by simp at h))))) (fun c hc => du_of_digit (hD c hc))
    exact pres_compact_du sepOK_sp_hy_dot hPw hbw hDU

/-- `es.ccc.to_iban` on a presentation of ASCII letters/digits, spaces and hyphens: the result is
`'ES' + dd + (' ' if ' ' in x) + x` where `dd` are the ISO 7064 Mod 97-10 check digits of `ccc + 'ES'`
(so the IBAN checksum of `ES dd ccc` is valid), the compact form of the result is `'ES' + dd + ccc` (identity),
and `es.iban.to_ccc` gives the CCC back (inverse) -/
theorem ccc_to_iban_pres (x v : Str) (hP : Pres [32, 45] x) (h : Gen.es_ccc.validate x = .ok v) :
    ∃ d1 d2, isAsciiDigit d1 = true ∧ isAsciiDigit d2 = true ∧
      Gen.es_ccc.to_iban x = .ok ([69, 83, d1, d2] ++ (if x.contains 32 then [32] else []) ++ x) ∧
      Gen.iso7064_mod_97_10.validate (v ++ [69, 83, d1, d2]) = .ok (v ++ [69, 83, d1, d2]) ∧
      Gen.iban.compact ([69, 83, d1, d2] ++ (if x.contains 32 then [32] else []) ++ x) = .ok ([69, 83, d1, d2] ++ v) ∧
      Gen.es_iban.to_ccc ([69, 83, d1, d2] ++ (if x.contains 32 then [32] else []) ++ x) = .ok v := by
  obtain ⟨hv, hD, hl, _⟩ := ccc_shape h
  have hP' : Pres [32, 45, 46] x := fun c hc => by
    rcases hP c hc with h1 | h1
    · exact Or.inl h1
    · right; simp only [List.mem_cons, List.not_mem_nil, or_false] at h1 ⊢; omega
  have hb : body x = v := by
    have := pres_compact sepOK_sp_hy hP
    rw [← hv] at this
    rw [this] at hD
    rw [this, map_asciiUpper_digits hD]
  obtain ⟨d1, d2, hd1, hd2, hcalc, hval, hcomp⟩ := to_iban_core 69 83 x v (by decide) (by decide) hP' hb hD (by omega)
  refine ⟨d1, d2, hd1, hd2, ?_, hval, by rw [iban_compact_eq, hcomp], ?_⟩
  · unfold Gen.es_ccc.to_iban
    simp only [strIn_single, hcalc, bind_ok, pure_ok]
    split <;> rfl
  · unfold Gen.es_iban.to_ccc
    simp only [iban_compact_eq, bind_ok, pure_ok, hcomp]
    have hst : startswith ([69, 83, d1, d2] ++ v) [69, 83] = true := startswith_iff.mpr ⟨d1 :: d2 :: v, rfl⟩
    have hs : slice ([69, 83, d1, d2] ++ v) (some 4) none = v := by
      rw [slice_nonneg_none _ (by decide)]; rfl
    simp only [hst, hs, Bool.not_true, Bool.false_eq_true, if_false]

theorem sepOK_sp_dot_hy : SepOK [32, 46, 45] := by
  intro c hc
  have : c = 32 ∨ c = 46 ∨ c = 45 := by simpa using hc
  rcases this with rfl | rfl | rfl
  · exact ⟨cm_of_ascii_ne (by decide) (by decide), rfl⟩
  · exact ⟨cm_of_ascii_ne (by decide) (by decide), rfl⟩
  · exact ⟨cm_of_ascii_ne (by decide) (by decide), rfl⟩

/-- `no.kontonr.to_iban` on a presentation of ASCII letters/digits, spaces, dots and hyphens that does not use the
optional `0000` in front: explicit result, Mod 97-10 validity, compact form `'NO' + dd + kontonr` (identity), and
`no.iban.to_kontonr` gives the account number back (inverse).  This holds for 7-digit accounts as well — what fails
for them is the length of the IBAN, see `kontonr_to_iban_full_false`. -/
theorem kontonr_to_iban_pres (x v : Str) (hP : Pres [32, 46, 45] x) (h : Gen.no_kontonr.validate x = .ok v)
    (h0 : startswith (body x) [48, 48, 48, 48] = false) :
    ∃ d1 d2, isAsciiDigit d1 = true ∧ isAsciiDigit d2 = true ∧
      Gen.no_kontonr.to_iban x = .ok ([78, 79, d1, d2] ++ (if x.contains 32 then [32] else []) ++ x) ∧
      Gen.iso7064_mod_97_10.validate (v ++ [78, 79, d1, d2]) = .ok (v ++ [78, 79, d1, d2]) ∧
      Gen.iban.compact ([78, 79, d1, d2] ++ (if x.contains 32 then [32] else []) ++ x) = .ok ([78, 79, d1, d2] ++ v) ∧
      Gen.no_iban.to_kontonr ([78, 79, d1, d2] ++ (if x.contains 32 then [32] else []) ++ x) = .ok v := by
  obtain ⟨hv, hD, hl⟩ := kontonr_shape h
  have hP' : Pres [32, 45, 46] x := fun c hc => by
    rcases hP c hc with h1 | h1
    · exact Or.inl h1
    · right; simp only [List.mem_cons, List.not_mem_nil, or_false] at h1 ⊢; omega
  have hb : body x = v := by
    rw [hv]
    unfold kC
    rw [pres_cleanP sepOK_sp_dot_hy hP, strip_eq_self_of_asciiAlnum _ (body_alnum x), h0]
    rfl
  obtain ⟨d1, d2, hd1, hd2, hcalc, hval, hcomp⟩ :=
    to_iban_core 78 79 x v (by decide) (by decide) hP' hb hD (by omega)
  refine ⟨d1, d2, hd1, hd2, ?_, hval, by rw [iban_compact_eq, hcomp], ?_⟩
  · unfold Gen.no_kontonr.to_iban
    simp only [strIn_single, hcalc, bind_ok, pure_ok]
    split <;> rfl
  · unfold Gen.no_iban.to_kontonr
    simp only [iban_compact_eq, bind_ok, pure_ok, hcomp]
    have hst : startswith ([78, 79, d1, d2] ++ v) [78, 79] = true := startswith_iff.mpr ⟨d1 :: d2 :: v, rfl⟩
    have hs : slice ([78, 79, d1, d2] ++ v) (some 4) none = v := by
      rw [slice_nonneg_none _ (by decide)]; rfl
    simp only [hst, hs, Bool.not_true, Bool.false_eq_true, if_false]

end Props.C08
