import Gen.dk_cpr
import Gen.pl_pesel
import Gen.bg_egn
import Props.C17c
import Props.C08p
import Lemmas.Extra
import Lemmas.Int
/-!
# C12 (value consistency, part 3) — a returned birth date is a real calendar date that agrees with the digits
-/
namespace Props.C12
open Py Lemmas.Refine Props.C17 Props.C08

set_option linter.unusedVariables false
set_option linter.unusedSimpArgs false

/-! ## framework -/

/-- decimal value of the digits `v[a:b]` of the number -/
def fld (v : Str) (a b : Nat) : Int := digitsVal ((v.drop a).take (b - a))

theorem slice_eq_drop_take (v : Str) (a b : Nat) (a' b' : Int) (ha : a' = a) (hb : b' = b) (hab : a ≤ b) :
    slice v (some a') (some b') = (v.drop a).take (b - a) := by
  subst ha hb
  rw [slice_nonneg_nonneg _ (by omega) (by omega)]
  simp

/-- `int(v[a:b])` of a digit string -/
theorem intOf_fld {v : Str} (hD : AllIn isAsciiDigit v) (a b : Nat) (a' b' : Int) (ha : a' = a) (hb : b' = b)
    (hab : a < b) (hbl : b ≤ v.length) (hb4 : b ≤ 4300 := by omega) :
    intOf (slice v (some a') (some b')) = .ok (fld v a b) := by
  rw [slice_eq_drop_take v a b a' b' ha hb (by omega)]
  unfold fld
  have hne : (v.drop a).take (b - a) ≠ [] := by
    intro h0
    have := congrArg List.length h0
    simp only [List.length_take, List.length_drop, List.length_nil] at this
    omega
  have hd : AllIn isAsciiDigit ((v.drop a).take (b - a)) := fun c hc =>
    hD c (List.mem_of_mem_drop (List.mem_of_mem_take hc))
  have hl : ((v.drop a).take (b - a)).length ≤ 4300 := by
    simp only [List.length_take, List.length_drop]; omega
  exact intOf_of_asciiDigits _ hne hd hl

theorem fld_bounds {v : Str} (hD : AllIn isAsciiDigit v) (a b : Nat) :
    0 ≤ fld v a b ∧ fld v a b < 10 ^ (b - a) := by
  unfold fld
  have hd : AllIn isAsciiDigit ((v.drop a).take (b - a)) := fun c hc =>
    hD c (List.mem_of_mem_drop (List.mem_of_mem_take hc))
  obtain ⟨h0, h1⟩ := digitsVal_bounds hd
  refine ⟨h0, Int.lt_of_lt_of_le h1 ?_⟩
  have : ((v.drop a).take (b - a)).length ≤ b - a := by simp only [List.length_take]; omega
  have h10 : (10 : Nat) ^ ((v.drop a).take (b - a)).length ≤ 10 ^ (b - a) := Nat.pow_le_pow_right (by decide) this
  exact_mod_cast h10

theorem fld2 {v : Str} (hD : AllIn isAsciiDigit v) (a b : Nat) (h : b = a + 2 := by omega) :
    0 ≤ fld v a b ∧ fld v a b < 100 := by
  have := fld_bounds hD a b
  rw [show b - a = 2 by omega] at this
  exact this

theorem fld1 {v : Str} (hD : AllIn isAsciiDigit v) (a b : Nat) (h : b = a + 1 := by omega) :
    0 ≤ fld v a b ∧ fld v a b < 10 := by
  have := fld_bounds hD a b
  rw [show b - a = 1 by omega] at this
  exact this

theorem fld3 {v : Str} (hD : AllIn isAsciiDigit v) (a b : Nat) (h : b = a + 3 := by omega) :
    0 ≤ fld v a b ∧ fld v a b < 1000 := by
  have := fld_bounds hD a b
  rw [show b - a = 3 by omega] at this
  exact this

theorem fld4 {v : Str} (hD : AllIn isAsciiDigit v) (a b : Nat) (h : b = a + 4 := by omega) :
    0 ≤ fld v a b ∧ fld v a b < 10000 := by
  have := fld_bounds hD a b
  rw [show b - a = 4 by omega] at this
  exact this

/-- a one-digit field is the digit itself -/
theorem fld_one {v : Str} (a b : Nat) (h : a < v.length) (hb : b = a + 1 := by omega) :
    fld v a b = (v[a] : Int) - 48 := by
  unfold fld
  rw [show b - a = 1 by omega, List.take_one, List.head?_drop, List.getElem?_eq_getElem h]
  simp

/-- membership tests on a single character, as arithmetic -/
macro "contains_arith" "at" h:ident : tactic =>
  `(tactic| simp only [List.contains_cons, List.contains_nil, Bool.or_false, Bool.or_eq_true, beq_iff_eq,
      Bool.or_eq_false_iff, beq_eq_false_iff_ne, ne_eq, decide_eq_true_eq, decide_eq_false_iff_not,
      Bool.and_eq_true, Bool.and_eq_false_iff] at $h:ident)

/-- `v[k]` of a string that is long enough -/
theorem getItem_nat (v : Str) (k : Nat) (k' : Int) (hk : k' = k) (h : k < v.length) :
    Py.getItem v k' = .ok [v[k]] := by
  subst hk
  have := getItem_of_nonneg v (i := (k : Int)) (by omega) (by simpa using h)
  simpa using this

/-- `datetime.date(y, m, d)` with `ValueError` turned into `InvalidComponent` -/
def dateOrInvalid (y m dd : Int) : R Date :=
  match mkDate y m dd with
  | .ok r => .ok r
  | .error e => .error (if e.caughtBy Exc.valueError = true then Exc.invalidComponent else e)

/-- the block `try: return datetime.date(y, m, d)  except ValueError: raise InvalidComponent()` -/
theorem try_date_eq (y m dd : Int) :
    (do
        let e ← tryCatch (do let x ← mkDate y m dd; (EarlyReturnT.return x : EarlyReturnT Date R Date))
          (fun e__ => if e__.caughtBy Exc.valueError = true then do
                let r ← (raise Exc.invalidComponent : R Date)
                ExceptT.run (pure r)
              else do
                let r ← (raise e__ : R Date)
                ExceptT.run (pure r))
        EarlyReturn.runK e (fun r => pure r) fun r => pure r : R Date) = dateOrInvalid y m dd := by
  unfold dateOrInvalid
  cases hm : mkDate y m dd with
  | ok r =>
    simp [tryCatch, tryCatchThe, MonadExceptOf.tryCatch, Except.tryCatch, Py.earlyReturn_eq, EarlyReturn.runK]
  | error e =>
    simp [tryCatch, tryCatchThe, MonadExceptOf.tryCatch, Except.tryCatch, raise]
    split <;> simp_all

theorem dateOrInvalid_eq_ok {y m dd : Int} {d : Date} : dateOrInvalid y m dd = .ok d ↔ mkDate y m dd = .ok d := by
  unfold dateOrInvalid
  cases mkDate y m dd <;> simp

/-- digits are fixed by every `compact` of the library (`clean`, `strip`, `upper` in either order) -/
theorem digits_clean_strip {w : Str} (hw : AllIn isAsciiDigit w) (d : Str) (hd : ∀ c ∈ d, isAsciiAlnum c = false) :
    strip (cleanP w d) = w := digits_compact hw d hd

theorem digits_strip_upper_clean {w : Str} (hw : AllIn isAsciiDigit w) (d : Str)
    (hd : ∀ c ∈ d, isAsciiAlnum c = false) : strip (upper (cleanP w d)) = w :=
  du_compact_upper' (fun c hc => du_of_digit (hw c hc)) d hd

/-- second inversion pass for getters (disjunctions for `if`s whose branches both return) -/
macro "invert_getter" h:ident : tactic =>
  `(tactic| (
    simp only [try_date_eq] at $h:ident
    simp only [dateOrInvalid_eq_ok, ite_any_ok, clean_eq, isdigits_eq, bind_ok, pure_ok, raise_bind, ite_error_ok,
      ite_raise_ok, ite_ok_ok, bind_eq_ok, error_ne_ok, raise_ne_ok, Except.ok.injEq, Bool.not_eq_true',
      Bool.not_eq_true, Bool.not_eq_false, bne_iff_ne, ne_eq, Decidable.not_not, exists_eq_left', false_and,
      and_false, or_false, false_or, exists_false, beq_iff_eq, Bool.and_eq_true, exists_eq_left] at $h:ident))

/-! ## dk.cpr : `DDMMYY` + century digit `v[6]` -/

theorem dk_cpr_ok {t : Date} {x v : Str} (h : Gen.dk_cpr.validate t x = .ok v) :
    AllIn isAsciiDigit v ∧ v.length = 10 ∧ ∃ d, Gen.dk_cpr.get_birth_date v = .ok d ∧ t.lt d = false := by
  unfold Gen.dk_cpr.validate Gen.dk_cpr.compact at h
  invert_validate h
  obtain ⟨hd, hl, a, ha, ht, rfl⟩ := h
  exact ⟨((isDigitsB_iff _).mp hd).2, by omega, a, ha, ht⟩

/-- the century rule of `dk.cpr.get_birth_date`: century digit `c = v[6]` (a code point) and two-digit year `yy` -/
def dkCentury (c : Nat) (yy : Int) : Int :=
  if ([53, 54, 55, 56].contains c && decide (yy ≥ 58)) = true then 1800
  else if [48, 49, 50, 51].contains c = true ∨ ([52, 57].contains c && decide (yy ≥ 37)) = true then 1900
  else 2000

theorem dk_cpr_birth_date (t : Date) (x v : Str) (d : Date) (h : Gen.dk_cpr.validate t x = .ok v)
    (hd : Gen.dk_cpr.get_birth_date v = .ok d) :
    d.Valid ∧ d.day = fld v 0 2 ∧ d.month = fld v 2 4 ∧ d.year % 100 = fld v 4 6 ∧
      d.year = fld v 4 6 + dkCentury (v.getD 6 0) (fld v 4 6) := by
  obtain ⟨hD, hl, _⟩ := dk_cpr_ok h
  have hc : Gen.dk_cpr.compact v = .ok v := by
    unfold Gen.dk_cpr.compact
    simp only [clean_eq, bind_ok, pure_ok, digits_clean_strip hD [32, 45] (by decide)]
  unfold Gen.dk_cpr.get_birth_date at hd
  simp only [hc, bind_ok, intOf_fld hD 0 2 0 2 rfl rfl (by omega) (by omega),
    intOf_fld hD 2 4 2 4 rfl rfl (by omega) (by omega), intOf_fld hD 4 6 4 6 rfl rfl (by omega) (by omega),
    getItem_nat v 6 6 rfl (by omega), strIn_single] at hd
  have hg : v.getD 6 0 = v[6] := by simp [List.getD_eq_getElem?_getD, List.getElem?_eq_getElem (show 6 < v.length by omega)]
  rw [hg]
  have hy := fld2 hD 4 6
  invert_getter hd
  unfold dkCentury
  rcases hd with ⟨hc1, hmk⟩ | ⟨hc1, a, ha, ⟨rfl, hmk⟩ | ⟨rfl, hmk⟩⟩ <;>
    obtain ⟨hv, hyr, hm, hdd⟩ := mkDate_valid hmk
  · refine ⟨hv, hdd, hm, by omega, ?_⟩
    rw [if_pos (by simpa using hc1)]; omega
  · refine ⟨hv, hdd, hm, by omega, ?_⟩
    rw [if_neg (by simpa using hc1), if_pos (by
      rcases ha with ⟨h1, _⟩ | ⟨_, h2⟩
      · exact Or.inl h1
      · exact Or.inr h2)]
    omega
  · refine ⟨hv, hdd, hm, by omega, ?_⟩
    rw [if_neg (by simpa using hc1), if_neg (by
      rcases ha with ⟨_, h2⟩ | ⟨h1, h2⟩
      · cases h2
      · intro hh
        rcases hh with hh | hh
        · rw [h1] at hh; cases hh
        · rw [h2] at hh; cases hh)]
    omega

example : Gen.dk_cpr.validate ⟨2026, 9, 27⟩ (str% "211062-5629") = .ok (str% "2110625629") ∧
    Gen.dk_cpr.get_birth_date (str% "2110625629") = .ok ⟨1862, 10, 21⟩ := by decide +kernel

/-! ## pl.pesel : `YYMMDD`, the century is added to the month (`+20` = 2000s, `+40` = 2100s, `+60` = 2200s,
`+80` = 1800s) -/

theorem pl_pesel_ok {x v : Str} (h : Gen.pl_pesel.validate x = .ok v) :
    AllIn isAsciiDigit v ∧ v.length = 11 ∧ ∃ d, Gen.pl_pesel.get_birth_date v = .ok d := by
  unfold Gen.pl_pesel.validate Gen.pl_pesel.compact at h
  invert_validate h
  obtain ⟨hd, hl, _, _, _, _, _, a, ha, rfl⟩ := h
  exact ⟨((isDigitsB_iff _).mp hd).2, by omega, a, ha⟩

/-- century of a PESEL from `month // 20` -/
def peselCentury (k : Int) : Int :=
  if k = 0 then 1900 else if k = 1 then 2000 else if k = 2 then 2100 else if k = 3 then 2200 else 1800

theorem pesel_dict (k a : Int) (hk : 0 ≤ k ∧ k ≤ 4)
    (h : Py.dictGet (Py.dictOfPairs [((0 : Int), (1900 : Int)), (1, 2000), (2, 2100), (3, 2200), (4, 1800)]) k = .ok a) :
    a = peselCentury k := by
  have : k = 0 ∨ k = 1 ∨ k = 2 ∨ k = 3 ∨ k = 4 := by omega
  rcases this with rfl | rfl | rfl | rfl | rfl <;> (cases h; rfl)

theorem pl_pesel_birth_date (x v : Str) (d : Date) (h : Gen.pl_pesel.validate x = .ok v)
    (hd : Gen.pl_pesel.get_birth_date v = .ok d) :
    d.Valid ∧ d.day = fld v 4 6 ∧ d.month = fld v 2 4 % 20 ∧ d.year % 100 = fld v 0 2 ∧
      d.year = fld v 0 2 + peselCentury (fld v 2 4 / 20) := by
  obtain ⟨hD, hl, _⟩ := pl_pesel_ok h
  have hc : Gen.pl_pesel.compact v = .ok v := by
    unfold Gen.pl_pesel.compact
    simp only [clean_eq, bind_ok, pure_ok, digits_strip_upper_clean hD [32, 45] (by decide)]
  unfold Gen.pl_pesel.get_birth_date at hd
  simp only [hc, bind_ok, intOf_fld hD 0 2 0 2 rfl rfl (by omega) (by omega),
    intOf_fld hD 2 4 2 4 rfl rfl (by omega) (by omega), intOf_fld hD 4 6 4 6 rfl rfl (by omega) (by omega)] at hd
  have hy := fld2 hD 0 2
  have hm := fld2 hD 2 4
  invert_getter hd
  obtain ⟨a, ha, hmk⟩ := hd
  have hcen := pesel_dict _ a (by omega) ha
  obtain ⟨hv, hyr, hmo, hdd⟩ := mkDate_valid hmk
  have hcases : peselCentury (fld v 2 4 / 20) % 100 = 0 := by
    unfold peselCentury; split
    · rfl
    · split
      · rfl
      · split
        · rfl
        · split <;> rfl
  refine ⟨hv, hdd, hmo, by omega, by rw [hyr, hcen]⟩

example : Gen.pl_pesel.validate (str% "44051401359") = .ok (str% "44051401359") ∧
    Gen.pl_pesel.get_birth_date (str% "44051401359") = .ok ⟨1944, 5, 14⟩ := by decide +kernel

/-! ## bg.egn : `YYMMDD`, month `+40` = 2000s, `+20` = 1800s -/

theorem bg_egn_ok {x v : Str} (h : Gen.bg_egn.validate x = .ok v) :
    AllIn isAsciiDigit v ∧ v.length = 10 ∧ ∃ d, Gen.bg_egn.get_birth_date v = .ok d := by
  unfold Gen.bg_egn.validate Gen.bg_egn.compact at h
  invert_validate h
  obtain ⟨hd, hl, a, ha, _, _, _, _, _, rfl⟩ := h
  exact ⟨((isDigitsB_iff _).mp hd).2, by omega, a, ha⟩

theorem bg_egn_birth_date (x v : Str) (d : Date) (h : Gen.bg_egn.validate x = .ok v)
    (hd : Gen.bg_egn.get_birth_date v = .ok d) :
    d.Valid ∧ d.day = fld v 4 6 ∧ d.month = fld v 2 4 % 20 ∧ d.year % 100 = fld v 0 2 ∧
      d.year = fld v 0 2 + (if fld v 2 4 > 40 then 2000 else if fld v 2 4 > 20 then 1800 else 1900) := by
  obtain ⟨hD, hl, _⟩ := bg_egn_ok h
  have hc : Gen.bg_egn.compact v = .ok v := by
    unfold Gen.bg_egn.compact
    simp only [clean_eq, bind_ok, pure_ok, digits_strip_upper_clean hD [32, 45, 46] (by decide)]
  unfold Gen.bg_egn.get_birth_date at hd
  simp only [hc, bind_ok, intOf_fld hD 0 2 0 2 rfl rfl (by omega) (by omega),
    intOf_fld hD 2 4 2 4 rfl rfl (by omega) (by omega), intOf_fld hD 4 6 4 6 rfl rfl (by omega) (by omega)] at hd
  have hy := fld2 hD 0 2
  have hm := fld2 hD 2 4
  invert_getter hd
  simp only [decide_eq_true_eq, decide_eq_false_iff_not] at hd
  rcases hd with ⟨h1, hmk⟩ | ⟨h1, ⟨h2, hmk⟩ | ⟨h2, hmk⟩⟩ <;>
    obtain ⟨hv, hyr, hmo, hdd⟩ := mkDate_valid hmk <;>
    have hv' := hv <;>
    obtain ⟨_, _, hm1, hm12, _, _⟩ := hv' <;>
    refine ⟨hv, hdd, by omega, by omega, ?_⟩
  · rw [if_pos h1]; omega
  · rw [if_neg h1, if_pos h2]; omega
  · rw [if_neg h1, if_neg h2]; omega

example : Gen.bg_egn.validate (str% "752316 926 3") = .ok (str% "7523169263") ∧
    Gen.bg_egn.get_birth_date (str% "7523169263") = .ok ⟨1875, 3, 16⟩ := by decide +kernel

end Props.C12

#print axioms Props.C12.intOf_fld
#print axioms Props.C12.fld_bounds
#print axioms Props.C12.try_date_eq
#print axioms Props.C12.dateOrInvalid_eq_ok
#print axioms Props.C12.dk_cpr_ok
#print axioms Props.C12.dk_cpr_birth_date
#print axioms Props.C12.pl_pesel_ok
#print axioms Props.C12.pl_pesel_birth_date
#print axioms Props.C12.bg_egn_ok
#print axioms Props.C12.bg_egn_birth_date
