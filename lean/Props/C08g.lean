import Gen.isan
import Props.C08p
/-!
# C08 (part g) — ISAN with and without check characters (`isan.validate(number, strip_check_digits, add_check_digits)`)
-/
namespace Props.C08
open Py Spec.Checksum Lemmas.Refine Lemmas.Fold Props.C06 Props.C06Gen Props.C17 Props.C07

set_option linter.unusedVariables false

/-- `'0123456789ABCDEF'` -/
abbrev h16 : Str := [48, 49, 50, 51, 52, 53, 54, 55, 56, 57, 65, 66, 67, 68, 69, 70]

/-- the loop `for x in root + episode + version: if x not in '0123456789ABCDEF': raise InvalidFormat()` -/
theorem isan_loop (t : Str) :
    forIn (Py.chars t) PUnit.unit (fun (x : Str) (_ : PUnit) =>
        if (!strIn x h16) = true then
          (do Py.raise .invalidFormat; Except.ok (ForInStep.yield PUnit.unit) : R (ForInStep PUnit))
        else Except.ok (ForInStep.yield PUnit.unit)) =
      if t.all (fun c => h16.contains c) = true then .ok PUnit.unit else .error .invalidFormat := by
  induction t with
  | nil => rfl
  | cons c t ih =>
    rw [chars_cons, List.forIn_cons, strIn_single, List.all_cons]
    cases hc : h16.contains c with
    | false => rfl
    | true =>
      simp only [Bool.not_true, Bool.false_eq_true, if_false, bind_ok, Bool.true_and]
      exact ih

theorem isan_hlen {R E C1 V C2 : Str} (hR : R.length = 12) (hE : E.length = 4) (h1 : C1.length ≤ 1)
    (hV : V.length = 0 ∨ V.length = 8) (h2 : C2.length ≤ 1) :
    ((R.length : Int) != 12 || ((E.length : Int) != 4 || (!([(0 : Int), 1].contains (C1.length : Int)) ||
      (!([(0 : Int), 8].contains (V.length : Int)) || !([(0 : Int), 1].contains (C2.length : Int)))))) = false := by
  have e1 : ([(0 : Int), 1].contains (C1.length : Int)) = true := by
    simp only [List.contains_cons, List.contains_nil, Bool.or_false, Bool.or_eq_true, beq_iff_eq]; omega
  have e2 : ([(0 : Int), 1].contains (C2.length : Int)) = true := by
    simp only [List.contains_cons, List.contains_nil, Bool.or_false, Bool.or_eq_true, beq_iff_eq]; omega
  have e3 : ([(0 : Int), 8].contains (V.length : Int)) = true := by
    simp only [List.contains_cons, List.contains_nil, Bool.or_false, Bool.or_eq_true, beq_iff_eq]; omega
  rw [e1, e2, e3, hR, hE]
  rfl

/-- what a successful `validate(number)` (no stripping, no adding) tells: the five parts `split` found, their
shapes, and that the check characters present are correct -/
theorem isan_ok {x v : Str} (h : Gen.isan.validate x false false = .ok v) :
    ∃ R E C1 V C2, Gen.isan.split x = .ok (R, E, C1, V, C2) ∧ v = R ++ E ++ C1 ++ V ++ C2 ∧
      (R ++ E ++ V).all (fun c => h16.contains c) = true ∧
      R.length = 12 ∧ E.length = 4 ∧ C1.length ≤ 1 ∧ (V.length = 0 ∨ V.length = 8) ∧ C2.length ≤ 1 ∧
      (C1 ≠ [] → ∃ r, Gen.iso7064_mod_37_36.validate (R ++ E ++ C1) C17.a36 = .ok r) ∧
      (C2 ≠ [] → ∃ r, Gen.iso7064_mod_37_36.validate (R ++ E ++ V ++ C2) C17.a36 = .ok r) := by
  unfold Gen.isan.validate at h
  obtain ⟨⟨R, E, C1, V, C2⟩, hs, h⟩ := bind_ok_inv h
  refine ⟨R, E, C1, V, C2, hs, ?_⟩
  simp only [pure_ok, Bool.false_eq_true, if_false, Bool.false_and] at h
  rw [isan_loop] at h
  cases hhex : (R ++ E ++ V).all (fun c => h16.contains c) with
  | false => rw [hhex] at h; cases h
  | true =>
    rw [hhex] at h
    simp only [if_true, bind_ok] at h
    split at h
    · cases h
    · rename_i hlen
      have hlen' : ((R.length : Int) != 12 || ((E.length : Int) != 4 || (!([(0 : Int), 1].contains (C1.length : Int)) ||
        (!([(0 : Int), 8].contains (V.length : Int)) || !([(0 : Int), 1].contains (C2.length : Int)))))) = false := by
        simpa using hlen
      simp only [Bool.or_eq_false_iff, bne_eq_false_iff_eq, Bool.not_eq_false', List.contains_cons, List.contains_nil,
        Bool.or_false, Bool.or_eq_true, beq_iff_eq] at hlen'
      obtain ⟨hR, hE, h1, hV, h2⟩ := hlen'
      have hne : ∀ {C : Str}, C.isEmpty = false → C ≠ [] := by
        intro C hC h0; subst h0; cases hC
      have he : ∀ {C : Str}, C.isEmpty = true → C = [] := by
        intro C hC; cases C with
        | nil => rfl
        | cons _ _ => cases hC
      have key : v = R ++ E ++ C1 ++ V ++ C2 ∧
          (C1 ≠ [] → ∃ r, Gen.iso7064_mod_37_36.validate (R ++ E ++ C1) C17.a36 = .ok r) ∧
          (C2 ≠ [] → ∃ r, Gen.iso7064_mod_37_36.validate (R ++ E ++ V ++ C2) C17.a36 = .ok r) := by
        cases hc1 : C1.isEmpty <;> cases hc2 : C2.isEmpty <;>
          simp only [hc1, hc2, Bool.not_true, Bool.not_false, Bool.false_eq_true, if_true, if_false] at h
        · obtain ⟨r1, hr1, h⟩ := bind_ok_inv h
          obtain ⟨r2, hr2, h⟩ := bind_ok_inv h
          cases h
          exact ⟨rfl, fun _ => ⟨r1, hr1⟩, fun _ => ⟨r2, hr2⟩⟩
        · obtain ⟨r1, hr1, h⟩ := bind_ok_inv h
          cases h
          exact ⟨rfl, fun _ => ⟨r1, hr1⟩, fun hh => absurd (he hc2) hh⟩
        · obtain ⟨r2, hr2, h⟩ := bind_ok_inv h
          cases h
          exact ⟨rfl, fun hh => absurd (he hc1) hh, fun _ => ⟨r2, hr2⟩⟩
        · cases h
          exact ⟨rfl, fun hh => absurd (he hc1) hh, fun hh => absurd (he hc2) hh⟩
      exact ⟨key.1, rfl, by omega, by omega, by omega, by omega, by omega, key.2.1, key.2.2⟩

/-! ## `split` on a number put together from its parts -/

theorem isan_compact_du {w : Str} (hw : AllIn isDU w) : upper (strip (cleanP w [32, 45])) = w :=
  du_compact_upper hw _ (by decide)

theorem slice_drop_take (w : Str) (a b : Nat) (hab : a ≤ b) :
    slice w (some (a : Int)) (some (b : Int)) = (w.drop a).take (b - a) := by
  rw [slice_nonneg_nonneg _ (by omega) (by omega)]
  simp

theorem slice_drop (w : Str) (a : Nat) : slice w (some (a : Int)) none = w.drop a := by
  rw [slice_nonneg_none _ (by omega)]
  simp

/-- `split` of `root + episode + tail`, in terms of the tail -/
theorem isan_split_tail (R E T : Str) (hDU : AllIn isDU (R ++ E ++ T)) (hR : R.length = 12) (hE : E.length = 4) :
    Gen.isan.split (R ++ E ++ T) =
      if T.length = 1 ∨ T.length = 10 then .ok (R, E, T.take 1, (T.drop 1).take 8, T.drop 9)
      else if 0 < T.length then .ok (R, E, [], T.take 8, T.drop 8)
      else .ok (R, E, T, [], []) := by
  have hRE : (R ++ E).length = 16 := by simp [hR, hE]
  have d16 : (R ++ E ++ T).drop 16 = T := List.drop_left' hRE
  have s1 : slice (R ++ E ++ T) (some 0) (some 12) = R := by
    have := slice_drop_take (R ++ E ++ T) 0 12 (by omega)
    simp only [Int.natCast_zero, List.drop_zero, Nat.sub_zero] at this
    rw [show ((12 : Nat) : Int) = 12 from rfl] at this
    rw [this, List.append_assoc, List.take_left' hR]
  have s2 : slice (R ++ E ++ T) (some 12) (some 16) = E := by
    have := slice_drop_take (R ++ E ++ T) 12 16 (by omega)
    rw [show ((12 : Nat) : Int) = 12 from rfl, show ((16 : Nat) : Int) = 16 from rfl] at this
    rw [this, List.append_assoc, List.drop_left' hR, List.take_left' hE]
  have s3 : slice (R ++ E ++ T) (some 16) none = T := by
    have := slice_drop (R ++ E ++ T) 16
    rw [show ((16 : Nat) : Int) = 16 from rfl] at this
    rw [this, d16]
  have s4 : slice (R ++ E ++ T) (some 16) (some 24) = T.take 8 := by
    have := slice_drop_take (R ++ E ++ T) 16 24 (by omega)
    rw [show ((16 : Nat) : Int) = 16 from rfl, show ((24 : Nat) : Int) = 24 from rfl] at this
    rw [this, d16]
  have s5 : slice (R ++ E ++ T) (some 24) none = T.drop 8 := by
    have := slice_drop (R ++ E ++ T) 24
    rw [show ((24 : Nat) : Int) = 24 from rfl] at this
    rw [this, show (24 : Nat) = 16 + 8 from rfl, ← List.drop_drop, d16]
  have s6 : slice (R ++ E ++ T) (some 17) (some 25) = (T.drop 1).take 8 := by
    have := slice_drop_take (R ++ E ++ T) 17 25 (by omega)
    rw [show ((17 : Nat) : Int) = 17 from rfl, show ((25 : Nat) : Int) = 25 from rfl] at this
    rw [this, show (17 : Nat) = 16 + 1 from rfl, ← List.drop_drop, d16]
  have s7 : slice (R ++ E ++ T) (some 25) none = T.drop 9 := by
    have := slice_drop (R ++ E ++ T) 25
    rw [show ((25 : Nat) : Int) = 25 from rfl] at this
    rw [this, show (25 : Nat) = 16 + 9 from rfl, ← List.drop_drop, d16]
  have hlen : ((R ++ E ++ T).length : Int) = 16 + T.length := by
    simp only [List.length_append, hR, hE]; omega
  unfold Gen.isan.split
  simp only [clean_eq, bind_ok, pure_ok, isan_compact_du hDU, s1, s2, s3, s4, s5, s6, s7, hlen]
  by_cases h1 : T.length = 1 ∨ T.length = 10
  · rw [if_pos h1]
    have e : ((16 + (T.length : Int) == 17) || (16 + (T.length : Int) == 26)) = true := by
      rcases h1 with h | h <;> simp [h]
    have hne : T ≠ [] := by intro h0; subst h0; simp at h1
    obtain ⟨c, T', rfl⟩ : ∃ c T', T = c :: T' := by
      cases T with
      | nil => exact absurd rfl hne
      | cons c T' => exact ⟨c, T', rfl⟩
    have g : Py.getItem (R ++ E ++ c :: T') 16 = .ok [c] := by
      have hlt : (16 : Int).toNat < (R ++ E ++ c :: T').length := by
        simp only [List.length_append, List.length_cons, hR, hE]
        have : (16 : Int).toNat = 16 := rfl
        omega
      rw [getItem_of_nonneg _ (by decide) hlt]
      have : (R ++ E ++ c :: T')[(16 : Int).toNat]'hlt = c := by
        have h16 : (16 : Int).toNat = (R ++ E).length := by rw [hRE]; rfl
        simp only [h16]
        rw [List.getElem_append_right (by omega)]
        simp
      rw [this]
    simp only [e, if_true, g, bind_ok]
    rfl
  · rw [if_neg h1]
    have e : ((16 + (T.length : Int) == 17) || (16 + (T.length : Int) == 26)) = false := by
      simp only [Bool.or_eq_false_iff, beq_eq_false_iff_ne, ne_eq]
      omega
    simp only [e, Bool.false_eq_true, if_false]
    by_cases h0 : 0 < T.length
    · rw [if_pos h0]
      have : decide (16 + (T.length : Int) > 16) = true := by simp; omega
      simp only [this, if_true]
    · rw [if_neg h0]
      have : decide (16 + (T.length : Int) > 16) = false := by simp; omega
      simp only [this, Bool.false_eq_true, if_false]

/-! ## `validate` once the parts are known -/

/-- `validate(number, strip_check_digits=True)` returns `root + episode + version` -/
theorem isan_fwd_strip (x R E C1 V C2 : Str) (hs : Gen.isan.split x = .ok (R, E, C1, V, C2))
    (hhex : (R ++ E ++ V).all (fun c => h16.contains c) = true)
    (hR : R.length = 12) (hE : E.length = 4) (h1 : C1.length ≤ 1) (hV : V.length = 0 ∨ V.length = 8)
    (h2 : C2.length ≤ 1) :
    Gen.isan.validate x true false = .ok (R ++ E ++ V) := by
  unfold Gen.isan.validate
  simp only [hs, bind_ok, pure_ok, Bool.false_eq_true, if_false, Bool.false_and, if_true]
  rw [isan_loop, hhex]
  simp only [if_true, bind_ok, isan_hlen hR hE h1 hV h2, Bool.false_eq_true, if_false, List.isEmpty_nil, Bool.not_true,
    List.append_nil]

/-- `validate(number)` of a number without check characters -/
theorem isan_fwd_plain0 (x R E V : Str) (hs : Gen.isan.split x = .ok (R, E, [], V, []))
    (hhex : (R ++ E ++ V).all (fun c => h16.contains c) = true)
    (hR : R.length = 12) (hE : E.length = 4) (hV : V.length = 0 ∨ V.length = 8) :
    Gen.isan.validate x false false = .ok (R ++ E ++ V) := by
  unfold Gen.isan.validate
  simp only [hs, bind_ok, pure_ok, Bool.false_eq_true, if_false, Bool.false_and]
  rw [isan_loop, hhex]
  simp only [if_true, bind_ok, isan_hlen hR hE (by simp : ([] : Str).length ≤ 1) hV (by simp : ([] : Str).length ≤ 1),
    Bool.false_eq_true, if_false, List.isEmpty_nil, Bool.not_true, List.append_nil]

/-- `validate(number, add_check_digits=True)` of a number without check characters -/
theorem isan_fwd_add0 (x R E V K1 K2 : Str) (hs : Gen.isan.split x = .ok (R, E, [], V, []))
    (hhex : (R ++ E ++ V).all (fun c => h16.contains c) = true)
    (hR : R.length = 12) (hE : E.length = 4) (hV : V.length = 0 ∨ V.length = 8)
    (hk1 : Gen.iso7064_mod_37_36.calc_check_digit (R ++ E) C17.a36 = .ok K1)
    (hk2 : V ≠ [] → Gen.iso7064_mod_37_36.calc_check_digit (R ++ E ++ V) C17.a36 = .ok K2) :
    Gen.isan.validate x false true = .ok (R ++ E ++ K1 ++ V ++ (if V = [] then [] else K2)) := by
  unfold Gen.isan.validate
  simp only [hs, bind_ok, pure_ok, Bool.false_eq_true, if_false, Bool.true_and]
  rw [isan_loop, hhex]
  simp only [if_true, bind_ok, isan_hlen hR hE (by simp : ([] : Str).length ≤ 1) hV (by simp : ([] : Str).length ≤ 1),
    Bool.false_eq_true, if_false, List.isEmpty_nil, Bool.not_true, Bool.not_false, hk1]
  by_cases hv : V = []
  · subst hv
    simp
  · have : V.isEmpty = false := by
      cases V with
      | nil => exact absurd rfl hv
      | cons _ _ => rfl
    simp only [this, Bool.not_false, Bool.and_self, if_true, hk2 hv, bind_ok, if_neg hv]

/-- `validate(number)` of a number with its check characters -/
theorem isan_fwd_plain_full (x R E K1 V C2 : Str) (hs : Gen.isan.split x = .ok (R, E, K1, V, C2))
    (hhex : (R ++ E ++ V).all (fun c => h16.contains c) = true)
    (hR : R.length = 12) (hE : E.length = 4) (h1 : K1.length = 1) (hV : V.length = 0 ∨ V.length = 8)
    (h2 : C2.length ≤ 1)
    (hv1 : ∃ r, Gen.iso7064_mod_37_36.validate (R ++ E ++ K1) C17.a36 = .ok r)
    (hv2 : C2 ≠ [] → ∃ r, Gen.iso7064_mod_37_36.validate (R ++ E ++ V ++ C2) C17.a36 = .ok r) :
    Gen.isan.validate x false false = .ok (R ++ E ++ K1 ++ V ++ C2) := by
  obtain ⟨r1, hr1⟩ := hv1
  have hK1 : K1.isEmpty = false := by
    cases K1 with
    | nil => simp at h1
    | cons _ _ => rfl
  unfold Gen.isan.validate
  simp only [hs, bind_ok, pure_ok, Bool.false_eq_true, if_false, Bool.false_and]
  rw [isan_loop, hhex]
  have h1' : K1.length ≤ 1 := by omega
  simp only [if_true, bind_ok, isan_hlen hR hE h1' hV h2, Bool.false_eq_true, if_false, hK1, Bool.not_false, hr1]
  cases hc2 : C2.isEmpty with
  | true => simp only [Bool.not_true, Bool.false_eq_true, if_false]
  | false =>
    have : C2 ≠ [] := by intro h0; subst h0; cases hc2
    obtain ⟨r2, hr2⟩ := hv2 this
    simp only [Bool.not_false, if_true, hr2, bind_ok]

/-! ## the theorems -/

theorem h16_a36 : ∀ c, h16.contains c = true → c ∈ C17.a36 := by
  intro c hc
  have : c ∈ h16 := by simpa using hc
  have h : ∀ c ∈ h16, c ∈ C17.a36 := by decide
  exact h c this

theorem a36_nodup : C17.a36.Nodup := by decide

theorem hex_mem {t : Str} (h : t.all (fun c => h16.contains c) = true) : ∀ c ∈ t, c ∈ C17.a36 :=
  fun c hc => h16_a36 c (List.all_eq_true.mp h c hc)

theorem du_of_a36 {t : Str} (h : ∀ c ∈ t, c ∈ C17.a36) : AllIn isDU t :=
  fun c hc => C17.mem_alpha36.mp (h c hc)

theorem isan_split_plain (R E V : Str) (hm : ∀ c ∈ R ++ E ++ V, c ∈ C17.a36) (hR : R.length = 12)
    (hE : E.length = 4) (hV : V.length = 0 ∨ V.length = 8) :
    Gen.isan.split (R ++ E ++ V) = .ok (R, E, [], V, []) := by
  rw [isan_split_tail R E V (du_of_a36 hm) hR hE]
  rcases hV with hV | hV
  · have : V = [] := List.eq_nil_of_length_eq_zero hV
    subst this
    rfl
  · rw [if_neg (by omega), if_pos (by omega), List.take_of_length_le (by omega), List.drop_of_length_le (by omega)]

theorem isan_split_full (R E V c2 : Str) (k1 : Nat) (hm : ∀ c ∈ R ++ E ++ ([k1] ++ V ++ c2), c ∈ C17.a36)
    (hR : R.length = 12) (hE : E.length = 4)
    (hV : (V = [] ∧ c2 = []) ∨ (V.length = 8 ∧ c2.length = 1)) :
    Gen.isan.split (R ++ E ++ ([k1] ++ V ++ c2)) = .ok (R, E, [k1], V, c2) := by
  rw [isan_split_tail R E _ (du_of_a36 hm) hR hE]
  rcases hV with ⟨rfl, rfl⟩ | ⟨hV, hc⟩
  · rfl
  · rw [if_pos (by simp [hV, hc])]
    have h1 : ([k1] ++ V ++ c2).take 1 = [k1] := rfl
    have h2 : (([k1] ++ V ++ c2).drop 1).take 8 = V := by
      show (V ++ c2).take 8 = V
      exact List.take_left' hV
    have h3 : ([k1] ++ V ++ c2).drop 9 = c2 := by
      show (V ++ c2).drop 8 = c2
      exact List.drop_left' hV
    rw [h1, h2, h3]

/-- `split` never finds a second check character without a version -/
theorem isan_split_wf {x R E C1 V C2 : Str} (hs : Gen.isan.split x = .ok (R, E, C1, V, C2)) (h2 : C2 ≠ []) :
    V ≠ [] := by
  unfold Gen.isan.split at hs
  simp only [clean_eq, bind_ok, pure_ok] at hs
  generalize upper (strip (cleanP x [32, 45])) = n at hs
  have e17 : slice n (some 17) (some 25) = (n.drop 17).take 8 := slice_drop_take n 17 25 (by omega)
  have e25 : slice n (some 25) none = n.drop 25 := slice_drop n 25
  have e16 : slice n (some 16) (some 24) = (n.drop 16).take 8 := slice_drop_take n 16 24 (by omega)
  have e24 : slice n (some 24) none = n.drop 24 := slice_drop n 24
  split at hs
  · obtain ⟨g, _, hs⟩ := bind_ok_inv hs
    have := Except.ok.inj hs
    simp only [Prod.mk.injEq] at this
    obtain ⟨_, _, _, hV, hC2⟩ := this
    rw [e17] at hV
    rw [e25] at hC2
    intro h0
    apply h2
    rw [← hC2]
    have hl : ((n.drop 17).take 8).length = 0 := by rw [hV, h0]; rfl
    simp only [List.length_take, List.length_drop] at hl
    apply List.eq_nil_of_length_eq_zero
    simp only [List.length_drop]
    omega
  · split at hs
    · have := Except.ok.inj hs
      simp only [Prod.mk.injEq] at this
      obtain ⟨_, _, _, hV, hC2⟩ := this
      rw [e16] at hV
      rw [e24] at hC2
      intro h0
      apply h2
      rw [← hC2]
      have hl : ((n.drop 16).take 8).length = 0 := by rw [hV, h0]; rfl
      simp only [List.length_take, List.length_drop] at hl
      apply List.eq_nil_of_length_eq_zero
      simp only [List.length_drop]
      omega
    · have := Except.ok.inj hs
      simp only [Prod.mk.injEq] at this
      exact absurd this.2.2.2.2.symm h2

/-- **ISAN with and without check characters.**  For every input `x` that `isan.validate` accepts (result `v`, split
into `root + episode + check1 + version + check2`):

* stripping: `validate(x, strip_check_digits=True)` returns `s = root + episode + version` (identity), and `s` is a
  valid ISAN;
* adding: `validate(s, add_check_digits=True)` returns `f = root + episode + k1 + version + c2` with the computed check
  characters (`c2` empty exactly when there is no version), `f` is a valid ISAN, and stripping `f` gives `s` back;
* inverse: the check characters that `v` has are the computed ones, so when `v` has all its check characters,
  strip-then-add returns `v`. -/
theorem isan_strip_add (x v : Str) (h : Gen.isan.validate x false false = .ok v) :
    ∃ R E C1 V C2 k1 c2, v = R ++ E ++ C1 ++ V ++ C2 ∧
      Gen.isan.validate x true false = .ok (R ++ E ++ V) ∧
      Gen.isan.validate (R ++ E ++ V) false false = .ok (R ++ E ++ V) ∧
      Gen.isan.validate (R ++ E ++ V) false true = .ok (R ++ E ++ ([k1] ++ V ++ c2)) ∧
      Gen.isan.validate (R ++ E ++ ([k1] ++ V ++ c2)) false false = .ok (R ++ E ++ ([k1] ++ V ++ c2)) ∧
      Gen.isan.validate (R ++ E ++ ([k1] ++ V ++ c2)) true false = .ok (R ++ E ++ V) ∧
      (V = [] ↔ c2 = []) ∧ (C1 ≠ [] → C1 = [k1]) ∧ (C2 ≠ [] → C2 = c2) ∧
      R.length = 12 ∧ E.length = 4 ∧ C1.length ≤ 1 ∧ (V.length = 0 ∨ V.length = 8) ∧ C2.length ≤ 1 ∧
      (C2 ≠ [] → V ≠ []) := by
  obtain ⟨R, E, C1, V, C2, hs, hv, hhex, hR, hE, h1, hV, h2, hv1, hv2⟩ := isan_ok h
  have hmem := hex_mem hhex
  have hmRE : ∀ c ∈ R ++ E, c ∈ C17.a36 := fun c hc => hmem c (List.mem_append_left _ hc)
  obtain ⟨k1, hk1, hval1⟩ := gen_mod_37_36_append_valid C17.a36 (R ++ E) a36_nodup (by decide) hmRE
  obtain ⟨k2, hk2, hval2⟩ := gen_mod_37_36_append_valid C17.a36 (R ++ E ++ V) a36_nodup (by decide) hmem
  have hk1m : k1 ∈ C17.a36 := (gen_mod_37_36_validate_ok hval1).2 k1 (by simp)
  have hk2m : k2 ∈ C17.a36 := (gen_mod_37_36_validate_ok hval2).2 k2 (by simp)
  have hsplit := isan_split_plain R E V hmem hR hE hV
  -- the second check character: present exactly when there is a version
  obtain ⟨c2, hc2, hc2V⟩ : ∃ c2 : Str, c2 = (if V = [] then [] else [k2]) ∧
      ((V = [] ∧ c2 = []) ∨ (V.length = 8 ∧ c2.length = 1)) := by
    by_cases hv0 : V = []
    · exact ⟨[], by rw [if_pos hv0], Or.inl ⟨hv0, rfl⟩⟩
    · refine ⟨[k2], by rw [if_neg hv0], Or.inr ⟨?_, rfl⟩⟩
      rcases hV with hV | hV
      · exact absurd (List.eq_nil_of_length_eq_zero hV) hv0
      · exact hV
  have hmf : ∀ c ∈ R ++ E ++ ([k1] ++ V ++ c2), c ∈ C17.a36 := by
    intro c hc
    simp only [List.mem_append, List.mem_cons, List.not_mem_nil, or_false] at hc
    rcases hc with (hc | hc) | ((rfl | hc) | hc)
    · exact hmem c (by simp [hc])
    · exact hmem c (by simp [hc])
    · exact hk1m
    · exact hmem c (by simp [hc])
    · rw [hc2] at hc
      split at hc
      · cases hc
      · have : c = k2 := by simpa using hc
        rw [this]; exact hk2m
  have hsf := isan_split_full R E V c2 k1 hmf hR hE hc2V
  have hc2len : c2.length ≤ 1 := by
    rcases hc2V with ⟨_, h⟩ | ⟨_, h⟩
    · rw [h]; exact Nat.zero_le _
    · omega
  have hfull : R ++ E ++ [k1] ++ V ++ c2 = R ++ E ++ ([k1] ++ V ++ c2) := by simp
  refine ⟨R, E, C1, V, C2, k1, c2, hv, isan_fwd_strip x R E C1 V C2 hs hhex hR hE h1 hV h2,
    isan_fwd_plain0 _ R E V hsplit hhex hR hE hV, ?_, ?_, isan_fwd_strip _ R E [k1] V c2 hsf hhex hR hE (by simp) hV hc2len,
    ?_, ?_, ?_, hR, hE, h1, hV, h2, isan_split_wf hs⟩
  · have := isan_fwd_add0 _ R E V [k1] [k2] hsplit hhex hR hE hV hk1 (fun _ => hk2)
    rw [this, ← hc2, hfull]
  · have := isan_fwd_plain_full _ R E [k1] V c2 hsf hhex hR hE rfl hV hc2len ⟨_, hval1⟩ (by
      intro hne
      rcases hc2V with ⟨_, h0⟩ | ⟨_, _⟩
      · exact absurd h0 hne
      · have hv0 : V ≠ [] := by
          intro h0; rw [hc2, if_pos h0] at hne; exact hne rfl
        rw [hc2, if_neg hv0]
        exact ⟨_, hval2⟩)
    rw [this, hfull]
  · rcases hc2V with ⟨h0, h0'⟩ | ⟨h8, h1'⟩
    · exact ⟨fun _ => h0', fun _ => h0⟩
    · constructor
      · intro h0; rw [h0] at h8; simp at h8
      · intro h0; rw [h0] at h1'; simp at h1'
  · intro hne
    obtain ⟨c, rfl⟩ : ∃ c, C1 = [c] := by
      cases C1 with
      | nil => exact absurd rfl hne
      | cons c t =>
        cases t with
        | nil => exact ⟨c, rfl⟩
        | cons _ _ => simp at h1
    obtain ⟨r, hr⟩ := hv1 hne
    have hcm : c ∈ C17.a36 := (gen_mod_37_36_validate_ok hr).2 c (by simp)
    have := (gen_mod_37_36_check_unique C17.a36 (R ++ E) c a36_nodup (by decide) hmRE hcm).mp (isOk_true_of_ok hr)
    rw [hk1] at this
    have : k1 = c := by simpa using this
    rw [this]
  · intro hne
    obtain ⟨c, rfl⟩ : ∃ c, C2 = [c] := by
      cases C2 with
      | nil => exact absurd rfl hne
      | cons c t =>
        cases t with
        | nil => exact ⟨c, rfl⟩
        | cons _ _ => simp at h2
    obtain ⟨r, hr⟩ := hv2 hne
    have hcm : c ∈ C17.a36 := (gen_mod_37_36_validate_ok hr).2 c (by simp)
    have hu := (gen_mod_37_36_check_unique C17.a36 (R ++ E ++ V) c a36_nodup (by decide) hmem hcm).mp (isOk_true_of_ok hr)
    rw [hk2] at hu
    have hkc : k2 = c := by simpa using hu
    rw [hc2, if_neg (isan_split_wf hs hne), hkc]

/-- **strip, then add, gives the number back** when it has all its check characters (17 or 26 characters) -/
theorem isan_roundtrip (x v : Str) (h : Gen.isan.validate x false false = .ok v)
    (hall : v.length = 17 ∨ v.length = 26) :
    ∃ s, Gen.isan.validate x true false = .ok s ∧ Gen.isan.validate s false true = .ok v := by
  obtain ⟨R, E, C1, V, C2, k1, c2, hv, hstrip, _, hadd, _, _, hVc, hC1, hC2, hR, hE, h1, hV, h2, hwf⟩ :=
    isan_strip_add x v h
  refine ⟨_, hstrip, ?_⟩
  have hlen : v.length = 16 + C1.length + V.length + C2.length := by
    rw [hv]; simp only [List.length_append, hR, hE]
  have e1 : C1 = [k1] := by
    apply hC1
    intro h0
    rw [h0] at hlen
    simp only [List.length_nil] at hlen
    by_cases hc : C2 = []
    · rw [hc] at hlen
      simp only [List.length_nil] at hlen
      omega
    · have hv0 := hwf hc
      have : V.length ≠ 0 := fun h0 => hv0 (List.eq_nil_of_length_eq_zero h0)
      have : 0 < C2.length := List.length_pos_iff.mpr hc
      omega
  have e2 : C2 = c2 := by
    by_cases hc : C2 = []
    · rw [hc]
      have hv0 : V = [] := by
        apply List.eq_nil_of_length_eq_zero
        rw [hc, e1] at hlen
        simp only [List.length_cons, List.length_nil] at hlen
        omega
      exact (hVc.mp hv0).symm
    · exact hC2 hc
  rw [hadd, hv, e1, e2]
  simp only [List.append_assoc]

/-! ## Non-vacuity: the docstring numbers -/
section Examples

theorem ex_isan : Gen.isan.validate (str% "0000-0001-8947-0000-8-0000-0000-D") false false =
    .ok (str% "0000000189470000800000000D") := by decide +kernel
example : ∃ s, Gen.isan.validate (str% "0000-0001-8947-0000-8-0000-0000-D") true false = .ok s ∧
    Gen.isan.validate s false true = .ok (str% "0000000189470000800000000D") :=
  isan_roundtrip _ _ ex_isan (Or.inr rfl)
example : Gen.isan.validate (str% "0000-0001-8947-0000-8-0000-0000-D") true false =
    .ok (str% "000000018947000000000000") := by decide +kernel
example : Gen.isan.validate (str% "000000018947000000000000") false true =
    .ok (str% "0000000189470000800000000D") := by decide +kernel

end Examples

end Props.C08
