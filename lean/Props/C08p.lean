import Props.C05
import Props.C07
/-!
# C08 (prelude) — helpers shared by the parts of `Props/C08*.lean`

* `Pres d x`, `body x`: ASCII presentations of a number (letters, digits and separators from `d`) and what
  `clean`/`compact` make of them (`pres_cleanP`, `pres_compact`, `pres_compact_du`)
* `bind_ok_inv`, `mapM_zip_digits` (comprehensions over `zip(weights, number)`), `strOfInt_two`
-/
namespace Props.C08
open Py Spec.Checksum Lemmas.Refine Lemmas.Fold Props.C06 Props.C06Gen Props.C17 Props.C05

theorem contains_of_allIn_false {p : Nat → Bool} {s : Str} (hs : AllIn p s) {c : Nat} (hc : p c = false) :
    s.contains c = false := by
  cases h : s.contains c with
  | false => rfl
  | true =>
    have := hs c (by simpa using h)
    rw [hc] at this; cases this

theorem bind_ok_inv {α β : Type} {m : R α} {f : α → R β} {b : β} (h : (m >>= f) = .ok b) :
    ∃ a, m = .ok a ∧ f a = .ok b := by
  cases m with
  | error e => cases h
  | ok a => exact ⟨a, rfl, h⟩

theorem not_not_true {b : Bool} (h : ¬ (!b) = true) : b = true := by
  cases b
  · exact absurd rfl h
  · rfl

theorem isdigits_single' (c : Nat) : isDigitsB [c] = isAsciiDigit c := by
  simp [isDigitsB]

/-! ## comprehensions over `zip(weights, number)` on a digit string -/

/-- `[body(w, n) for w, n in zip(ws, p)]` whose body succeeds on every digit character -/
theorem mapM_zip_digits (g : Int × Str → R Int) (f : Int → Nat → Int)
    (h : ∀ (w : Int) c, isAsciiDigit c = true → g (w, [c]) = .ok (f w (c - 48))) :
    ∀ (ws : List Int) (p : Str), AllIn isAsciiDigit p →
      (List.zip ws (Py.chars p)).mapM g = .ok ((List.zip ws p).map (fun wc => f wc.1 (wc.2 - 48)))
  | [], p, _ => by simp
  | w :: ws, [], _ => by simp [Py.chars]
  | w :: ws, c :: p, hp => by
    rw [chars_cons, List.zip_cons_cons, List.mapM_cons, h w c (hp c List.mem_cons_self),
      mapM_zip_digits g f h ws p (fun x hx => hp x (List.mem_cons_of_mem _ hx))]
    rfl

/-- `zip(ws, p + q)` does not look at `q` when `ws` is not longer than `p` -/
theorem zip_append_of_le {α β : Type} (ws : List α) (p q : List β) (h : ws.length ≤ p.length) :
    List.zip ws (p ++ q) = List.zip ws p := by
  induction ws generalizing p with
  | nil => simp
  | cons w ws ih =>
    cases p with
    | nil => simp at h
    | cons c p =>
      simp only [List.cons_append, List.zip_cons_cons]
      rw [ih p (by simpa using h)]

/-- `str(n)` for `10 ≤ n ≤ 99`: two digits -/
theorem strOfInt_two (n : Int) (h : 10 ≤ n ∧ n ≤ 99) :
    ∃ a b, Py.strOfInt n = [a, b] ∧ isAsciiDigit a = true ∧ isAsciiDigit b = true := by
  rw [strOfInt_of_nonneg (by omega), strOfNat_of_ge_ten (by omega), strOfNat_of_lt_ten (by omega)]
  refine ⟨48 + n.toNat / 10, 48 + n.toNat % 10, rfl, ?_, ?_⟩ <;>
    simp only [isAsciiDigit, Bool.and_eq_true, decide_eq_true_eq] <;> omega

/-- an ASCII presentation of a number: ASCII letters and digits, and separators from `d` -/
def Pres (d x : Str) : Prop := ∀ c ∈ x, isAsciiAlnum c = true ∨ c ∈ d

/-- the letters and digits of a presentation -/
def body (x : Str) : Str := x.filter isAsciiAlnum

/-- separators: ASCII, not alphanumeric, left alone by `clean`'s character map -/
def SepOK (d : Str) : Prop := ∀ c ∈ d, cm c = c ∧ isAsciiAlnum c = false

theorem sepOK_sp_hy : SepOK [32, 45] := by
  intro c hc
  have : c = 32 ∨ c = 45 := by simpa using hc
  rcases this with rfl | rfl
  · exact ⟨cm_of_ascii_ne (by decide) (by decide), rfl⟩
  · exact ⟨cm_of_ascii_ne (by decide) (by decide), rfl⟩

theorem sepOK_sp_hy_dot : SepOK [32, 45, 46] := by
  intro c hc
  have : c = 32 ∨ c = 45 ∨ c = 46 := by simpa using hc
  rcases this with rfl | rfl | rfl
  · exact ⟨cm_of_ascii_ne (by decide) (by decide), rfl⟩
  · exact ⟨cm_of_ascii_ne (by decide) (by decide), rfl⟩
  · exact ⟨cm_of_ascii_ne (by decide) (by decide), rfl⟩

theorem Pres.append {d x y : Str} (hx : Pres d x) (hy : Pres d y) : Pres d (x ++ y) := by
  intro c hc
  rcases List.mem_append.mp hc with h | h
  · exact hx c h
  · exact hy c h

theorem Pres.left {d x y : Str} (h : Pres d (x ++ y)) : Pres d x := fun c hc => h c (List.mem_append_left _ hc)
theorem Pres.right {d x y : Str} (h : Pres d (x ++ y)) : Pres d y := fun c hc => h c (List.mem_append_right _ hc)

theorem Pres.of_alnum {d x : Str} (h : AllIn isAsciiAlnum x) : Pres d x := fun c hc => Or.inl (h c hc)

theorem Pres.cons {d : Str} {a : Nat} {x : Str} (ha : isAsciiAlnum a = true ∨ a ∈ d) (hx : Pres d x) :
    Pres d (a :: x) := by
  intro c hc
  rcases List.mem_cons.mp hc with rfl | h
  · exact ha
  · exact hx c h

theorem body_append (x y : Str) : body (x ++ y) = body x ++ body y := by simp [body]

theorem body_alnum (x : Str) : AllIn isAsciiAlnum (body x) := by
  intro c hc
  exact (List.mem_filter.mp hc).2

theorem body_of_alnum {x : Str} (h : AllIn isAsciiAlnum x) : body x = x :=
  List.filter_eq_self.mpr h

/-- `clean(x, d)` of a presentation keeps exactly the letters and digits -/
theorem pres_cleanP {d x : Str} (hd : SepOK d) (hP : Pres d x) : cleanP x d = body x := by
  induction x with
  | nil => rfl
  | cons a t ih =>
    have ht : Pres d t := fun c hc => hP c (List.mem_cons_of_mem _ hc)
    rw [cleanP_cons, ih ht]
    rcases hP a List.mem_cons_self with ha | ha
    · have hnd : d.contains a = false := by
        cases h : d.contains a with
        | false => rfl
        | true =>
          have := (hd a (by simpa using h)).2
          rw [ha] at this; cases this
      rw [cm_ascii_alnum ha, hnd]
      simp only [body, Bool.false_eq_true, if_false]
      rw [List.filter_cons_of_pos ha]
    · have hc : d.contains a = true := by simpa using ha
      rw [(hd a ha).1, hc]
      simp only [body, if_true]
      rw [List.filter_cons_of_neg (by rw [(hd a ha).2]; simp)]

/-- `upper(strip(clean(x, d)))` of a presentation -/
theorem pres_compact {d x : Str} (hd : SepOK d) (hP : Pres d x) :
    upper (strip (cleanP x d)) = (body x).map asciiUpper := by
  rw [pres_cleanP hd hP, strip_eq_self_of_asciiAlnum _ (body_alnum x),
    upper_ascii (fun c hc => isAscii_of_alnum (body_alnum x c hc))]

theorem asciiUpper_digit_imp {c : Nat} (h : isAsciiDigit (asciiUpper c) = true) : asciiUpper c = c := by
  rw [asciiUpper_eq] at h ⊢
  split
  · rename_i hl
    rw [if_pos hl] at h
    simp only [isAsciiLower, isAsciiDigit, Bool.and_eq_true, decide_eq_true_eq] at hl h
    omega
  · rfl

theorem map_asciiUpper_digits {s : Str} (h : AllIn isAsciiDigit (s.map asciiUpper)) : s.map asciiUpper = s := by
  conv => rhs; rw [← List.map_id s]
  apply List.map_congr_left
  intro c hc
  exact asciiUpper_digit_imp (h _ (List.mem_map_of_mem hc))

/-- a string that starts with a non-blank character and ends in a letter or digit is not changed by `strip()` -/
theorem strip_pres {x : Str} (hh : ∀ c, x.head? = some c → Uni.isSpace c = false)
    (hl : ∀ c, x.getLast? = some c → isAsciiAlnum c = true) : strip x = x :=
  strip_eq_self' x hh (fun c hc => Uni.isSpace_of_asciiAlnum c (hl c hc))

/-- the compact form of a presentation whose letters and digits are the digit string `w` -/
theorem pres_compact_du {d x w : Str} (hd : SepOK d) (hP : Pres d x) (hb : body x = w)
    (hw : AllIn isDU w) : upper (strip (cleanP x d)) = w := by
  rw [pres_compact hd hP, hb]
  conv => rhs; rw [← List.map_id w]
  apply List.map_congr_left
  intro c hc
  have := hw c hc
  simp only [isDU, Bool.or_eq_true] at this
  rcases this with h | h
  · exact asciiUpper_of_digit h
  · exact asciiUpper_of_upper h

theorem getLast?_snoc (l : Str) (c : Nat) : (l ++ [c]).getLast? = some c := by simp

theorem pres_head_not_space {d x : Str} (hP : Pres d x) (hd : ∀ c ∈ d, c = 32 ∨ Uni.isSpace c = false)
    (hh : x.head? ≠ some 32) : ∀ c, x.head? = some c → Uni.isSpace c = false := by
  intro c hc
  rcases hP c (List.mem_of_mem_head? hc) with h | h
  · exact Uni.isSpace_of_asciiAlnum c h
  · rcases hd c h with rfl | h'
    · exact absurd hc hh
    · exact h'

theorem body_single {c : Nat} (hc : isAsciiAlnum c = true) : body [c] = [c] := by
  unfold body
  rw [List.filter_cons_of_pos hc]; rfl

/-- letters and digits survive `strip`-like trimming of characters that are neither -/
theorem body_stripBy (p : Nat → Bool) (s : Str) (hp : ∀ c, p c = true → isAsciiAlnum c = false) :
    body (stripBy p s) = body s := by
  obtain ⟨a, b, hs, ha, hb⟩ := stripBy_decomp p s
  have hnil : ∀ t : Str, AllIn p t → body t = [] := by
    intro t ht
    unfold body
    rw [List.filter_eq_nil_iff]
    intro c hc
    rw [hp c (ht c hc)]
    simp
  conv => rhs; rw [hs]
  rw [body_append, body_append, hnil a ha, hnil b hb]
  simp

theorem Pres.stripBy {d s : Str} (h : Pres d s) (p : Nat → Bool) : Pres d (stripBy p s) :=
  fun c hc => h c (mem_of_mem_stripBy p s c hc)

end Props.C08
