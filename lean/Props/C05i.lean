import Props.C05
import Props.C07i
/-!
# C05 (part i) — IBAN: `calc_check_digits` and `validate` agree (on the generated functions)

`iban.calc_check_digits(number)` = `mod_97_10.calc_check_digits(number[4:] + number[:2])` of the compact number (the
characters at the check digit positions are ignored) = `'%02d' % (98 - checksum(bban + cc + '00'))`, always in `02..98`.
`iban.validate` accepts every pair at these positions that makes the whole number `≡ 1 (mod 97)`.

* `IbanCheckAgrees` — the full statement "the generated check digits are the ones present in every accepted number";
  **false**: `iban_check_disagrees`, `iban_check_witness` (`DE99244757710465634148` and `DE00939072836715422522` are
  accepted, for both option values, the generator gives `02` and `97`; same behaviour in /repo; known finding C05 for
  Mod 97-10).  Letters at the check digit positions (`DEA5370400440532013000`, see `Props.C07.iban_witness`) are a second
  family.
* `iban_check_agrees_partial` — holds for every accepted number whose check digits are decimal digits with value
  `02..98` (both option values).
* `iban_check_unique` — changing one check digit to another digit is rejected (corollary of `Props.C17.iban_single_error`).
* `iban_check_complete` — for every registry line `(cc, fields)` of `Spec.Standards.ibanRegistry` and every BBAN with these
  fields (`Spec.Standards.ibanFields`), whatever stands at the check digit positions of the argument: the generator returns
  two decimal digits and the completed number is **accepted** by `iban.validate(check_country=False)`, and by
  `iban.validate(check_country=True)` when the country has no national module.
* `iban_check_complete_checksum` — registry-free: for any two upper-case letters and any BBAN of digits and upper-case
  letters (at most 2098 characters), the completed number passes the checksum step, and `validate(check_country=False)`
  never rejects it with `InvalidChecksum` (`iban_complete_no_checksum_error`).  With `check_country=True` the national
  modules (es: CCC, no: kontonr, be, me) have their own check digits inside the BBAN and may raise `InvalidChecksum`;
  that is not a statement about the IBAN generator.
-/
namespace Props.C05
open Py Spec.Checksum Lemmas.Refine Lemmas.Fold Props.C06 Props.C06Gen Props.C17 Props.C07 Spec.Standards
open Props.C09 (ibanCompact)

set_option maxRecDepth 100000
set_option linter.unusedVariables false

/-- `iban.calc_check_digits` on a string of digits and upper-case letters -/
theorem iban_calc_eq (w : Str) (hw : AllIn C17.isDU w) :
    Gen.iban.calc_check_digits w = Gen.iso7064_mod_97_10.calc_check_digits (w.drop 4 ++ w.take 2) := by
  unfold Gen.iban.calc_check_digits
  have hc : ibanCompact w = w := du_compact_upper hw _ (by decide)
  simp only [Props.C09.iban_compact_eq, bind_ok, hc]
  rw [slice_nonneg_none w (by decide), slice_none_nonneg w (by decide)]
  rfl

theorem take4_split (v : Str) (h4 : 4 ≤ v.length) :
    v.take 4 = v.take 2 ++ [v.getD 2 0, v.getD 3 0] := by
  match v, h4 with
  | a :: b :: c :: d :: _, _ => rfl

theorem width_fit (p : Str) (h : p.length ≤ 2100) : Mod9710.width (p.map b36Val) + 2 ≤ 4300 := by
  have := width_le (p.map b36Val)
  rw [List.length_map] at this
  omega

/-- the two-digit number at the check digit positions -/
def checkValue (v : Str) : Nat := (v.getD 2 0 - 48) * 10 + (v.getD 3 0 - 48)

/-- an accepted number has at least four characters -/
theorem iban_len4 {x v : Str} {cc : Bool} (h : Gen.iban.validate x cc = .ok v) : 4 ≤ v.length := by
  obtain ⟨h1, h2⟩ := (iban_agrees_with_code_rule x v cc).mp h
  unfold iban_code_cc iban_code at h1
  simp only [Bool.and_eq_true, decide_eq_true_eq] at h1
  rw [h2]
  exact h1.1.1.1.1.1

/-- **the generator agrees with the check digits of every accepted IBAN whose check digits are decimal digits with
value 02..98** (both option values) -/
theorem iban_check_agrees_partial (x v : Str) (cc : Bool) (h : Gen.iban.validate x cc = .ok v)
    (hd1 : isAsciiDigit (v.getD 2 0) = true) (hd2 : isAsciiDigit (v.getD 3 0) = true)
    (hr1 : 2 ≤ checkValue v) (hr2 : checkValue v ≤ 98) :
    Gen.iban.calc_check_digits v = .ok [v.getD 2 0, v.getD 3 0] := by
  obtain ⟨hD, h35, hV⟩ := iban_ok h
  have h4 := iban_len4 h
  rw [iban_calc_eq v hD]
  have hp : AllIn isAsciiAlnum (v.drop 4 ++ v.take 2) :=
    allIn_append (fun c hc => alnum_of_du (hD c (List.mem_of_mem_drop hc)))
      (fun c hc => alnum_of_du (hD c (List.mem_of_mem_take hc)))
  have hlen : (v.drop 4 ++ v.take 2).length ≤ 2100 := by
    simp only [List.length_append, List.length_drop, List.length_take]; omega
  have hrot : rot4 v = (v.drop 4 ++ v.take 2) ++ [v.getD 2 0, v.getD 3 0] := by
    unfold rot4
    rw [take4_split v h4, List.append_assoc]
  rw [hrot] at hV
  exact (gen_mod_97_10_check_unique_in_range _ _ _ hp hd1 hd2 (width_fit _ hlen) hr1 hr2).mp hV

/-- the full statement -/
def IbanCheckAgrees : Prop :=
  ∀ (x v : Str) (cc : Bool), Gen.iban.validate x cc = .ok v →
    Gen.iban.calc_check_digits v = .ok ((v.drop 2).take 2)

/-- accepted numbers with the check digits `99` and `00`, for which the generator gives `02` and `97` -/
theorem iban_check_witness :
    (∀ cc, Gen.iban.validate (str% "DE99244757710465634148") cc = .ok (str% "DE99244757710465634148")) ∧
    Gen.iban.calc_check_digits (str% "DE99244757710465634148") = .ok (str% "02") ∧
    (∀ cc, Gen.iban.validate (str% "DE00939072836715422522") cc = .ok (str% "DE00939072836715422522")) ∧
    Gen.iban.calc_check_digits (str% "DE00939072836715422522") = .ok (str% "97") := by
  refine ⟨?_, by decide +kernel, ?_, by decide +kernel⟩
  · intro cc
    rw [Props.C08.v_eq, Props.C11.Data.iban.db_eq]
    revert cc
    decide +kernel
  · intro cc
    rw [Props.C08.v_eq, Props.C11.Data.iban.db_eq]
    revert cc
    decide +kernel

/-- the full statement is FALSE on the current tree -/
theorem iban_check_disagrees : ¬ IbanCheckAgrees := by
  intro h
  have := h _ _ true (iban_check_witness.1 true)
  rw [iban_check_witness.2.1] at this
  revert this
  decide +kernel

/-- changing one check digit to another decimal digit is rejected (both option values) -/
theorem iban_check_unique (x v : Str) (cc cc' : Bool) (h : Gen.iban.validate x cc = .ok v)
    (i c : Nat) (hi : i = 2 ∨ i = 3) (hil : i < v.length) (hd : isAsciiDigit v[i] = true)
    (hc : isAsciiDigit c = true) (hne : c ≠ v[i]) :
    isOk (Gen.iban.validate (v.set i c) cc') = false :=
  iban_single_error x v cc cc' h i c hil (Or.inl ⟨hd, hc⟩) hne

/-! ## completing a payload -/

/-- registry-free: the generator's digits make the checksum step of `iban.validate` pass -/
theorem iban_check_complete_checksum (a b q1 q2 : Nat) (bban : Str)
    (ha : isAsciiUpper a = true) (hb : isAsciiUpper b = true)
    (hq1 : C17.isDU q1 = true) (hq2 : C17.isDU q2 = true)
    (hB : AllIn C17.isDU bban) (hl : bban.length ≤ 2098) :
    ∃ k1 k2, Gen.iban.calc_check_digits ([a, b, q1, q2] ++ bban) = .ok [k1, k2] ∧
      isAsciiDigit k1 = true ∧ isAsciiDigit k2 = true ∧
      Gen.iso7064_mod_97_10.validate (rot4 ([a, b, k1, k2] ++ bban)) = .ok (rot4 ([a, b, k1, k2] ++ bban)) := by
  have hua : C17.isDU a = true := by unfold C17.isDU; rw [ha]; simp
  have hub : C17.isDU b = true := by unfold C17.isDU; rw [hb]; simp
  have hw : AllIn C17.isDU ([a, b, q1, q2] ++ bban) :=
    allIn_append (allIn_cons hua (allIn_cons hub (allIn_cons hq1 (allIn_cons hq2 (fun _ h => by simp at h))))) hB
  rw [iban_calc_eq _ hw]
  have e1 : ([a, b, q1, q2] ++ bban).drop 4 ++ ([a, b, q1, q2] ++ bban).take 2 = bban ++ [a, b] := rfl
  rw [e1]
  have hp : AllIn isAsciiAlnum (bban ++ [a, b]) :=
    allIn_append (fun c hc => alnum_of_du (hB c hc))
      (allIn_cons (alnum_of_du hua) (allIn_cons (alnum_of_du hub) (fun _ h => by simp at h)))
  obtain ⟨k1, k2, hk, h1, h2, hv⟩ := gen_mod_97_10_append_valid_partial _ hp
    (width_fit _ (by simp only [List.length_append, List.length_cons, List.length_nil]; omega))
  refine ⟨k1, k2, hk, h1, h2, ?_⟩
  have e2 : rot4 ([a, b, k1, k2] ++ bban) = bban ++ [a, b] ++ [k1, k2] := by
    unfold rot4
    simp
  rw [e2]
  exact hv

/-- hence `iban.validate(check_country=False)` never rejects the completed number with `InvalidChecksum` -/
theorem iban_complete_no_checksum_error (a b q1 q2 : Nat) (bban : Str)
    (ha : isAsciiUpper a = true) (hb : isAsciiUpper b = true)
    (hq1 : C17.isDU q1 = true) (hq2 : C17.isDU q2 = true)
    (hB : AllIn C17.isDU bban) (hl : bban.length ≤ 2098) :
    ∃ k1 k2, Gen.iban.calc_check_digits ([a, b, q1, q2] ++ bban) = .ok [k1, k2] ∧
      Gen.iban.validate ([a, b, k1, k2] ++ bban) false ≠ .error .invalidChecksum := by
  obtain ⟨k1, k2, hk, h1, h2, hv⟩ := iban_check_complete_checksum a b q1 q2 bban ha hb hq1 hq2 hB hl
  refine ⟨k1, k2, hk, ?_⟩
  intro herr
  have hua : C17.isDU a = true := by unfold C17.isDU; rw [ha]; simp
  have hub : C17.isDU b = true := by unfold C17.isDU; rw [hb]; simp
  have hw : AllIn C17.isDU ([a, b, k1, k2] ++ bban) :=
    allIn_append (allIn_cons hua (allIn_cons hub (allIn_cons (du_of_digit h1) (allIn_cons (du_of_digit h2)
      (fun _ h => by simp at h))))) hB
  have hc : canon_iban ([a, b, k1, k2] ++ bban) = [a, b, k1, k2] ++ bban := by
    rw [canon_iban_eq]; exact du_compact_upper hw _ (by decide)
  rcases iban_error_cases _ _ herr with h | ⟨_, h | h⟩
  · rw [hc, hv] at h; cases h
  · cases h
  · cases h

/-- **completing a well-formed payload**: for a registry line `(cc, fields)` and a BBAN with these fields, the
generator's two digits give a number that `iban.validate` accepts — with `check_country=False`, and with
`check_country=True` when the country has no national module -/
theorem iban_check_complete (r : Str × List (Nat × Nat)) (hr : r ∈ ibanRegistry) (q1 q2 : Nat) (bban : Str)
    (hq1 : C17.isDU q1 = true) (hq2 : C17.isDU q2 = true) (hf : ibanFields r.2 bban = true) :
    ∃ k1 k2, Gen.iban.calc_check_digits (r.1 ++ [q1, q2] ++ bban) = .ok [k1, k2] ∧
      isAsciiDigit k1 = true ∧ isAsciiDigit k2 = true ∧
      Gen.iban.validate (r.1 ++ [k1, k2] ++ bban) false = .ok (r.1 ++ [k1, k2] ++ bban) ∧
      (ibanNational r.1 = none →
        Gen.iban.validate (r.1 ++ [k1, k2] ++ bban) true = .ok (r.1 ++ [k1, k2] ++ bban)) := by
  have hr' := hr
  rw [ibanRegistry_eq] at hr'
  obtain ⟨e, he, toks, hps, hre⟩ := (mem_registry _ _).mp hr'
  obtain ⟨hflat, hup, _, _, toks', hps', _, hs30⟩ := lineFacts_iff (tree_facts e he)
  rw [hps] at hps'
  cases hps'
  subst hre
  simp only at hf ⊢
  have hl2 : e.low.length = 2 := by
    unfold flatEntry at hflat
    simp only [Bool.and_eq_true, beq_iff_eq] at hflat
    exact hflat.1.2
  obtain ⟨a, b, hab⟩ : ∃ a b, e.low = [a, b] := by
    match e.low, hl2 with
    | [a, b], _ => exact ⟨a, b, rfl⟩
  rw [hab] at hup ⊢
  have ha : isAsciiUpper a = true := hup a (by simp)
  have hb : isAsciiUpper b = true := hup b (by simp)
  have hB : AllIn C17.isDU bban := ibanFields_du toks _ hf
  have hlen := ((fields_iff toks _ hB).mp hf).2
  obtain ⟨k1, k2, hk, h1, h2, hv⟩ :=
    iban_check_complete_checksum a b q1 q2 bban ha hb hq1 hq2 hB (by omega)
  have e0 : ∀ y z, [a, b] ++ [y, z] ++ bban = [a, b, y, z] ++ bban := fun _ _ => rfl
  simp only [e0]
  refine ⟨k1, k2, hk, h1, h2, ?_⟩
  have hua : C17.isDU a = true := by unfold C17.isDU; rw [ha]; simp
  have hub : C17.isDU b = true := by unfold C17.isDU; rw [hb]; simp
  have hw : AllIn C17.isDU ([a, b, k1, k2] ++ bban) :=
    allIn_append (allIn_cons hua (allIn_cons hub (allIn_cons (du_of_digit h1) (allIn_cons (du_of_digit h2)
      (fun _ h => by simp at h))))) hB
  have hc : canon_iban ([a, b, k1, k2] ++ bban) = [a, b, k1, k2] ++ bban := by
    rw [canon_iban_eq]; exact du_compact_upper hw _ (by decide)
  have hlow : ∀ c ∈ rot4 ([a, b, k1, k2] ++ bban), isAsciiLower c = false := by
    intro c hc'
    have := hw c (mem_rot4.mp hc')
    revert this
    simp only [C17.isDU, isAsciiDigit, isAsciiUpper, isAsciiLower, Bool.or_eq_true, Bool.and_eq_true,
      decide_eq_true_eq, Bool.and_eq_false_iff, decide_eq_false_iff_not]
    omega
  have hm := (m97_ok_iff _ hlow).mp hv
  unfold m9710 at hm
  simp only [Bool.and_eq_true, beq_iff_eq] at hm
  have hcode : iban_code ibanRegistry ([a, b, k1, k2] ++ bban) = true := by
    unfold iban_code
    simp only [Bool.and_eq_true, decide_eq_true_eq, List.any_eq_true, beq_iff_eq]
    refine ⟨⟨⟨⟨by simp, ?_⟩, ?_⟩, ⟨(e.low, toks), hr, ?_, ?_⟩⟩, ?_⟩
    · show ([a, b] : Str).all isU = true
      rw [isU_eq]; exact all_iff_allIn.mpr hup
    · show ([k1, k2] : Str).all Spec.Standards.isDU = true
      rw [isDU_eq, all_iff_allIn]
      exact allIn_cons (du_of_digit h1) (allIn_cons (du_of_digit h2) (fun _ h => by simp at h))
    · exact hab
    · exact hf
    · exact hm.2
  constructor
  · apply (iban_agrees_with_code_rule _ _ false).mpr
    rw [hc]
    unfold iban_code_cc ibanNationalOk
    rw [hcode]
    exact ⟨rfl, rfl⟩
  · intro hnone
    apply (iban_agrees_with_code_rule _ _ true).mpr
    rw [hc]
    unfold iban_code_cc ibanNationalOk
    have : ([a, b, k1, k2] ++ bban).take 2 = [a, b] := rfl
    rw [this, hnone, hcode]
    exact ⟨rfl, rfl⟩

/-! ## non-vacuity -/

-- Germany has a registry line and no national module: every 18-digit BBAN can be completed
example : ((cp% "DE", [(8, 110), (10, 110)]) : Str × List (Nat × Nat)) ∈ ibanRegistryOf Props.C11.Data.iban.tree := by
  decide +kernel
example : ibanNational (cp% "DE") = none := by decide +kernel
example : Gen.iban.calc_check_digits (str% "DE00370400440532013000") = .ok (str% "89") := by decide +kernel
example : Gen.iban.calc_check_digits (str% "DE89370400440532013000") = .ok (str% "89") :=
  iban_check_agrees_partial _ _ false C17.ex_iban_de (by decide) (by decide) (by decide) (by decide)

#print axioms Props.C05.iban_calc_eq
#print axioms Props.C05.iban_check_agrees_partial
#print axioms Props.C05.iban_check_witness
#print axioms Props.C05.iban_check_disagrees
#print axioms Props.C05.iban_check_unique
#print axioms Props.C05.iban_check_complete_checksum
#print axioms Props.C05.iban_complete_no_checksum_error
#print axioms Props.C05.iban_check_complete

end Props.C05
