import Props.C11data.Reach
import Props.C11data.isbn_link
import Gen.isbn
import Lemmas.Util
import Lemmas.Str
import Lemmas.Strip
import Lemmas.Unicode
import Lemmas.Refine
/-!
# Props.C11data.ConsIsbn — every ISBN registrant range yields a five-part split (hand-written)

Not by sampling: `isbn_five_parts` holds for **every** registrant range of `isbn.dat` and **every** item number and
check digit that complete it to 13 digits.  Ingredients:

* `isbn_split_wrapper` — the generated `isbn.split` on a 13-digit string returns the four parts of
  `numdb.split(number[:-1])` and the last character (symbolic proof about the generated code);
* `split_of_chainGood` / `chainGood_of_clean` (`Reach.lean`) — in a well-formed tree the lookup of
  `prefix group registrant item` is split into exactly these four parts;
* kernel-evaluated facts about the dumped tree: it is well-formed (`Data.isbn.violations_eq`), registrant ranges
  are leaves, all range end points are ASCII digits and leave room for an item number;
* `Data.isbn.db_eq` — the registry constant of the generated code is the dumped tree.

`isbn_groups_without_ranges` lists the registration groups that have an agency but no registrant range
(`978-611`, `978-99902`, `978-99951`): no ISBN of these groups can be split into five parts.
-/
set_option maxRecDepth 100000
namespace Props.C11
open Spec.NumDB Props.C10
open Py (Str)
open Py Lemmas.Refine

theorem bind_ok' {α β : Type} (a : α) (f : α → R β) : ((Except.ok a : R α) >>= f) = f a := by
  simp only [bind, Except.bind]
theorem pure_ok' {α : Type} (a : α) : (pure a : R α) = .ok a := by
  simp only [pure, Except.pure]

theorem isbn_compact_digits (w : Str) (hd : AllIn isAsciiDigit w) (h9 : w.length ≠ 9) :
    Gen.isbn.compact w false = .ok w := by
  unfold Gen.isbn.compact
  have hal : AllIn isAsciiAlnum w := fun c hc => by
    have := hd c hc
    simp only [isAsciiAlnum, this, Bool.true_or]
  have hc : Py.cleanP w [32, 45] = w := Py.cleanP_of_alnum hal (by decide)
  have h9' : ((w.length : Int) == 9) = false := by simp; omega
  simp only [Py.clean_eq, hc, bind_ok, strip_eq_self_of_asciiDigit w hd, upper_of_asciiDigits hd, h9']
  rfl

/-- the generated `isbn.split` on a 13-digit string: the four parts of the registry lookup of the first twelve
digits, and the check digit -/
theorem isbn_split_wrapper (w : Str) (hd : AllIn isAsciiDigit w) (hl : w.length = 13) (a b c d : Str)
    (hs : Spec.NumDB.split Gen.db_isbn.db (w.take 12) = [a, b, c, d]) :
    Gen.isbn.split w false = .ok (a, b, c, d, w.drop 12) := by
  unfold Gen.isbn.split
  generalize Gen.db_isbn.db = db at hs ⊢
  have hcomp := isbn_compact_digits w hd (by omega)
  have h10 : ((w.length : Int) == 10) = false := by simp; omega
  have hsl : Py.slice w none (some (-(1 : Int))) = w.take 12 := by
    rw [slice_none_neg w (by decide : (0 : Int) < 1), hl]; rfl
  have hne : w ≠ [] := by intro h; rw [h] at hl; simp at hl
  have hgi : Py.getItem w (-(1 : Int)) = .ok (w.drop 12) := by
    rw [getItem_neg_one_eq_slice w hne, slice_neg_none w (by decide : (0 : Int) < 1), hl]; rfl
  simp only [hcomp, bind_ok', pure_ok', h10, Bool.false_eq_true, if_false, hsl, hs, hgi]
  rfl

/-! ## facts about the dumped tree (kernel evaluation) -/

theorem isbn_tree_wf : WF Data.isbn.tree := by
  unfold WF; rw [Data.isbn.violations_eq]; decide +kernel

def isDigits (s : Str) : Bool := s.all isAsciiDigit

/-- prefix / group / registrant: end points are digits, registrants are leaves, there is room for an item -/
noncomputable def isbnShapeOk : Bool :=
  Data.isbn.tree.all fun p => isDigits p.low && p.children.all fun g => isDigits g.low && g.children.all fun r =>
    isDigits r.low && r.children.isEmpty && decide (p.low.length + g.low.length + r.low.length < 12)

theorem isbn_shape : isbnShapeOk = true := by decide +kernel

/-- registration groups with an agency but without registrant ranges -/
noncomputable def isbnEmptyGroups : List (Str × Str) :=
  Data.isbn.tree.flatMap fun p => (p.children.filter fun g => !g.props.isEmpty && g.children.isEmpty).map fun g => (p.low, g.low)

theorem isbn_groups_without_ranges :
    isbnEmptyGroups = [(cp% "978", cp% "611"), (cp% "978", cp% "99902"), (cp% "978", cp% "99951")] := by
  decide +kernel

/-! ## the theorem -/

theorem allIn_of_isDigits {s : Str} (h : isDigits s = true) : AllIn isAsciiDigit s := by
  intro c hc
  exact List.all_eq_true.mp h c hc

theorem allIn_append {p : Nat → Bool} {a b : Str} (ha : AllIn p a) (hb : AllIn p b) : AllIn p (a ++ b) := by
  intro c hc
  rcases List.mem_append.mp hc with h | h
  · exact ha c h
  · exact hb c h

/-- **every registrant range of `isbn.dat` yields a five-part split**: for every prefix `p`, registration group
`g` below it and registrant range `r` below that, and for every item number and check digit that complete
`p g r` to 13 digits, the generated `isbn.split` returns `(p, g, r, item, check)` (with `r` = the lower end of
the range). -/
theorem isbn_five_parts : ∀ p ∈ Data.isbn.tree, ∀ g ∈ p.children, ∀ r ∈ g.children, ∀ (item check : Str),
    AllIn isAsciiDigit item → AllIn isAsciiDigit check → check.length = 1 →
    (p.low ++ g.low ++ r.low ++ item).length = 12 →
    Gen.isbn.split (p.low ++ g.low ++ r.low ++ item ++ check) false = .ok (p.low, g.low, r.low, item, check) := by
  intro p hp g hg r hr item check hitem hcheck hcl hlen
  -- shape facts
  have hsh := isbn_shape
  unfold isbnShapeOk at hsh
  have h1 := List.all_eq_true.mp hsh p hp
  simp only [Bool.and_eq_true] at h1
  have h2 := List.all_eq_true.mp h1.2 g hg
  simp only [Bool.and_eq_true] at h2
  have hleaf : ∀ s ∈ g.children, s.children = [] := by
    intro s hs
    have h3 := List.all_eq_true.mp h2.2 s hs
    simp only [Bool.and_eq_true, decide_eq_true_eq] at h3
    exact List.isEmpty_iff.mp h3.1.2
  have h3 := List.all_eq_true.mp h2.2 r hr
  simp only [Bool.and_eq_true, decide_eq_true_eq] at h3
  have hpd := allIn_of_isDigits h1.1
  have hgd := allIn_of_isDigits h2.1
  have hrd := allIn_of_isDigits h3.1.1
  have hitem_ne : item ≠ [] := by
    intro h
    rw [h] at hlen
    simp only [List.length_append, List.length_nil] at hlen
    omega
  -- the registry lookup
  have hwf := isbn_tree_wf
  unfold WF violations at hwf
  rw [List.append_eq_nil_iff] at hwf
  have hchain : Chain Data.isbn.tree [p, g, r] := ⟨hp, hg, hr⟩
  have hgood := chainGood_of_clean [p, g, r] [] Data.isbn.tree hwf.1 hwf.2 hchain
  have hsplit := split_of_chainGood [p, g, r] Data.isbn.tree hgood hleaf item hitem_ne
  have hlows : lows [p, g, r] ++ item = p.low ++ g.low ++ r.low ++ item := by simp [lows]
  rw [hlows] at hsplit
  -- the generated wrapper
  have hw : AllIn isAsciiDigit (p.low ++ g.low ++ r.low ++ item ++ check) :=
    allIn_append (allIn_append (allIn_append (allIn_append hpd hgd) hrd) hitem) hcheck
  have hl13 : (p.low ++ g.low ++ r.low ++ item ++ check).length = 13 := by
    rw [List.length_append, hlen, hcl]
  have htake : (p.low ++ g.low ++ r.low ++ item ++ check).take 12 = p.low ++ g.low ++ r.low ++ item := by
    rw [← hlen, List.take_left']; rfl
  have hdrop : (p.low ++ g.low ++ r.low ++ item ++ check).drop 12 = check := by
    rw [← hlen, List.drop_left']; rfl
  have := isbn_split_wrapper _ hw hl13 p.low g.low r.low item (by
    rw [htake, Data.isbn.db_eq, hsplit]; rfl)
  rw [hdrop] at this
  exact this

end Props.C11
