import Spec.NumDB
import Lean.Elab.Term
import Lean.Elab.Tactic
/-!
# Props.C11data.Defs — definitions shared by the generated registry chunks (property C11)

Hand-written.  `tools/gen_c11.py` dumps every shipped registry as read by the **real** reader
(`stdnum.numdb.read`) into chunk files `Props/C11data/<name>_<k>.lean`.  A chunk holds some consecutive
top-level lines of the file with everything nested below them, one `LRow` per data line:

* `raw`     the text of the line (without the line terminator),
* `depth`   nesting depth of the entries of the line in the tree the Python reader built,
* `ranges`  `(length, low, high)` of every entry the line produced, `props` their (shared) property dict.

Everything else is computed and checked in Lean:

* `lineOk` : writing the row's ranges and properties back in the file's own format (`renderRow`) reproduces `raw`
  character by character — so nothing on the line was skipped or cut (a quotation mark inside a value, a repeated
  key, stray text, irregular spacing all break it); `indentsOk` : the indentation follows the stack discipline
  that yields `depth`; `treeComplete` : the rebuilt tree uses every row;
* `treeOf` rebuilds the entry tree (`Spec.NumDB.Entry`) from the rows;
* `violations` lists every structural defect of a tree: malformed range / property, the same range twice with
  contradicting properties, an entry shadowed by a shorter matching sibling, overlapping ranges that both carry
  children.  `WF db := violations db = []`.

That the **Lean model of the reader** (`Spec.NumDB.readText`) builds the same tree from the file text is proved
in the kernel for the small registries (`<name>_link.lean`: `readsTo`, `Gen.db_<name>.db = tree`) and tested natively
for all (tools/corr/numdb.py).
-/
namespace Props.C11
open Spec.NumDB
open Py (Str)

open Lean Elab Term in
/-- `cp% "ab"` elaborates to the code-point list `[97, 98]` (raw `Nat` literals: the kernel compares them
without unfolding `OfNat` instances) -/
elab "cp% " x:str : term => do
  let nat := Lean.mkConst ``Nat
  let nil := mkApp (Lean.mkConst ``List.nil [Level.zero]) nat
  let cons := mkApp (Lean.mkConst ``List.cons [Level.zero]) nat
  return x.getString.toList.foldr (fun c acc => mkApp2 cons (mkRawNatLit c.toNat) acc) nil

open Lean Elab Term in
/-- `chars% "ab"` elaborates to the character list `['a', 'b']` -/
elab "chars% " x:str : term => return toExpr x.getString.toList

open Lean Elab Tactic Meta in
/-- closes `a = b` by `Eq.refl a`, leaving the definitional-equality check to the kernel alone (the
elaborator's own unifier is much slower on 20 000-character literals) -/
elab "kernel_rfl" : tactic => do
  let g ← getMainGoal
  let t ← g.getType
  let some (_, lhs, _) := t.eq? | throwError "kernel_rfl: not an equation"
  g.assign (← mkEqRefl lhs)

open Lean Elab Tactic Meta in
/-- `kernel_exact e` closes the goal with the term `e` elaborated on its own; that its type is the goal is
checked by the kernel alone (the elaborator's unifier would try to *evaluate* `readText (Py.ofString text)` when
it meets the `match` inside `Gen.db_<name>.db`) -/
elab "kernel_exact " e:term : tactic => do
  let g ← getMainGoal
  let v ← Term.elabTermAndSynthesize e none
  g.assign (← instantiateMVars v)

/-! ## rows -/

/-- one data line of a registry file as the Python reader understood it: `indent` = number of leading blanks,
`depth` = nesting depth of its entries in the tree, `ranges` = the range tokens as written (`low` or `low-high`),
`props` = the property dict, `raw` = the text of the line without its terminator -/
structure LRow where
  depth : Nat
  indent : Nat
  ranges : List (Str × Option Str)
  props : Dict
  raw : Str

/-- the entry of a range token: `[len(low), low, high or low, props, children]` -/
def mkEntry (props : Dict) (kids : List Entry) (x : Str × Option Str) : Entry :=
  { length := x.1.length, low := x.1, high := x.2.getD x.1, props := props, children := kids }

/-- forest of entries at nesting depth `d` from a preorder list of rows; returns the unused rows.
`fuel = rows.length + 1` is always enough. -/
def forest : Nat → Nat → List LRow → List Entry × List LRow
  | 0, _, rs => ([], rs)
  | _ + 1, _, [] => ([], [])
  | fuel + 1, d, r :: rs =>
    if r.depth = d then
      let kr := forest fuel (d + 1) rs
      let sr := forest fuel d kr.2
      (r.ranges.map (mkEntry r.props kr.1) ++ sr.1, sr.2)
    else ([], r :: rs)

/-- the entry tree of a chunk -/
def treeOf (rows : List LRow) : List Entry := (forest (rows.length + 1) 0 rows).1

/-- all rows were used (depths are consistent) -/
def treeComplete (rows : List LRow) : Bool := (forest (rows.length + 1) 0 rows).2.isEmpty

mutual
/-- structural equality of entries (`Entry` is a nested inductive type without derived `DecidableEq`) -/
def entryBeq : Entry → Entry → Bool
  | ⟨l1, lo1, hi1, p1, c1⟩, ⟨l2, lo2, hi2, p2, c2⟩ =>
    (l1 == l2) && (lo1 == lo2) && (hi1 == hi2) && (p1 == p2) && treeBeq c1 c2
def treeBeq : List Entry → List Entry → Bool
  | [], [] => true
  | a :: as, b :: bs => entryBeq a b && treeBeq as bs
  | _, _ => false
end

/-- the Lean reader builds `t` from `text` -/
def readsTo (text : Str) (t : List Entry) : Bool :=
  match readText text with
  | .ok t' => treeBeq t' t
  | .error _ => false

/-! ## line level: the parse accounts for every character of the line -/

/-- `low` or `low-high`, as written -/
def renderRange (r : Str × Option Str) : Str :=
  match r.2 with
  | none => r.1
  | some h => r.1 ++ 45 :: h

def renderRanges : List (Str × Option Str) → Str
  | [] => []
  | [r] => renderRange r
  | r :: rs => renderRange r ++ 44 :: renderRanges rs

/-- ` key="value"` -/
def renderProp (kv : Str × Str) : Str := 32 :: kv.1 ++ 61 :: 34 :: kv.2 ++ [34]

/-- the canonical text of a line: indent, ranges, properties each preceded by one blank -/
def renderRow (r : LRow) : Str :=
  List.replicate r.indent 32 ++ renderRanges r.ranges ++ r.props.flatMap renderProp

/-- **the line is understood completely**: writing the parsed data back in the file's own format gives the
line character by character (a quote inside a value, a second `key=` for the same key, text that is not a
`key="value"` item, or irregular spacing break this), and there is at least one range -/
def lineOk (r : LRow) : Bool := !r.ranges.isEmpty && renderRow r == r.raw

/-! ### the same check without building the rendered line -/

/-- `eat p s = some rest` iff `s = p ++ rest` -/
def eat : Str → Str → Option Str
  | [], s => some s
  | _ :: _, [] => none
  | a :: p, b :: s => if a = b then eat p s else none

def eatAll : List Str → Str → Option Str
  | [], s => some s
  | p :: ps, s =>
    match eat p s with
    | some rest => eatAll ps rest
    | none => none

def rangePieces (r : Str × Option Str) : List Str :=
  match r.2 with
  | none => [r.1]
  | some h => [r.1, [45], h]

def rangesPieces : List (Str × Option Str) → List Str
  | [] => []
  | [r] => rangePieces r
  | r :: rs => rangePieces r ++ [44] :: rangesPieces rs

def propPieces (kv : Str × Str) : List Str := [[32], kv.1, [61, 34], kv.2, [34]]

/-- the pieces of `renderRow` -/
def rowPieces (r : LRow) : List Str :=
  List.replicate r.indent 32 :: (rangesPieces r.ranges ++ r.props.flatMap propPieces)

/-- `lineOk`, evaluated piece by piece (`Props.C11.lineOkFast_eq` in `Lift.lean`) -/
def lineOkFast (r : LRow) : Bool :=
  !r.ranges.isEmpty && (match eatAll (rowPieces r) r.raw with | some [] => true | _ => false)

def lineViolationsFast (rows : List LRow) : List Str := (rows.filter (fun r => !lineOkFast r)).map (·.raw)

/-- indentation stack discipline: a deeper indent opens a level below the previous line, a smaller or
equal indent must return to a level that is still open.  State: open indents, innermost first. -/
def stepIndent (st : List Nat) (i : Nat) : Option (List Nat) :=
  match st with
  | [] => if i = 0 then some [0] else none
  | top :: _ =>
    if top < i then some (i :: st)
    else
      match st.dropWhile (fun t => decide (i < t)) with
      | t :: rest => if t = i then some (t :: rest) else none
      | [] => none

/-- the rows' depths are the ones the stack discipline assigns to their indents -/
def indentsOk : List Nat → List LRow → Bool
  | _, [] => true
  | st, r :: rs =>
    match stepIndent st r.indent with
    | none => false
    | some st' => (st'.length == r.depth + 1) && indentsOk st' rs

/-- raw lines whose parse does not account for every character -/
def lineViolations (rows : List LRow) : List Str := (rows.filter (fun r => !lineOk r)).map (·.raw)

/-- chunk-level structure check: depths consistent with the indentation (the first line is not indented), the
tree uses every row -/
def chunkOk (rows : List LRow) : Bool := indentsOk [] rows && treeComplete rows

/-! ## tree level -/

/-- kinds of defects -/
inductive Kind where
  | range      -- endpoints of different length, `length ≠ |low|`, empty, or `high < low`
  | prop       -- property key/value malformed
  | dup        -- the same range twice in one sibling list, with contradicting property values
  | shadow     -- the second entry is shadowed by the (shorter) first one
  | clash      -- overlapping ranges of equal length that both have children
deriving DecidableEq, Repr

/-- a defect: kind, path of `low` values down to the sibling list, and the ranges involved
(`[low, high]` or `[low₁, high₁, low₂, high₂]`, file order unless `shadow`) -/
structure Viol where
  kind : Kind
  path : List Str
  what : List Str
deriving DecidableEq, Repr

def rangeOk (e : Entry) : Bool :=
  (e.low.length == e.length) && (e.high.length == e.length) && decide (1 ≤ e.length) && strLe e.low e.high

/-- key non-empty and made of `[0-9a-zA-Z-_]`; value without `"` and line terminator -/
def propOk (kv : Str × Str) : Bool :=
  !kv.1.isEmpty && kv.1.all isPropChar && kv.2.all (fun c => !(c == 34) && !(c == 10))

/-- `low ≤ v[:length] ≤ high` (the caller guarantees `length ≤ |v|`) -/
def covers (s : Entry) (v : Str) : Bool := strLe s.low (v.take s.length) && strLe (v.take s.length) s.high

/-- `s` is shorter than `e` and matches one of the end points of `e` -/
def shadows (s e : Entry) : Bool := decide (s.length < e.length) && (covers s e.low || covers s e.high)

def sameRange (a b : Entry) : Bool := (a.length == b.length) && (a.low == b.low) && (a.high == b.high)

/-- some key has different values in the two dicts -/
def conflict (p q : Dict) : Bool := p.any (fun kv => q.any (fun kw => (kv.1 == kw.1) && !(kv.2 == kw.2)))

/-- the same range twice with contradicting property values (one of them is overridden in every lookup).
Exact repetitions of a line (`at/postleitzahl.dat` has 330) and ranges repeated without a common key (the summary
line of `isbn.dat`) change no lookup result and are not defects. -/
def dup (a b : Entry) : Bool := sameRange a b && conflict a.props b.props

/-- ranges of equal length with a common value -/
def overlap (a b : Entry) : Bool := (a.length == b.length) && strLe a.low b.high && strLe b.low a.high

/-- overlapping ranges of equal length that both have children: a lookup below them searches both child lists
at once -/
def clash (a b : Entry) : Bool := !a.children.isEmpty && !b.children.isEmpty && overlap a b

def key2 (a b : Entry) : List Str := [a.low, a.high, b.low, b.high]

/-- some defect between the two siblings (evaluated first: cheap when the lengths are equal) -/
def pairBad (a b : Entry) : Bool :=
  if a.length == b.length then dup a b || clash a b
  else shadows a b || shadows b a

/-- defects between two siblings, `a` before `b` in the file -/
def pairViol (path : List Str) (a b : Entry) : List Viol :=
  if pairBad a b then
    (if dup a b then [⟨.dup, path, key2 a b⟩] else []) ++
    (if shadows a b then [⟨.shadow, path, key2 a b⟩] else []) ++
    (if shadows b a then [⟨.shadow, path, key2 b a⟩] else []) ++
    (if clash a b then [⟨.clash, path, key2 a b⟩] else [])
  else []

/-- defects between the members of one sibling list (all pairs) -/
def levelViol (path : List Str) : List Entry → List Viol
  | [] => []
  | e :: es => es.flatMap (pairViol path e) ++ levelViol path es

/-- defects of one entry by itself -/
def entryViol (path : List Str) (e : Entry) : List Viol :=
  (if rangeOk e then [] else [⟨.range, path, [e.low, e.high]⟩]) ++
  (if e.props.all propOk then [] else [⟨.prop, path, [e.low, e.high]⟩])

mutual
/-- defects of an entry and of everything below it -/
def belowE (path : List Str) : Entry → List Viol
  | ⟨len, lo, hi, props, ch⟩ =>
    entryViol path ⟨len, lo, hi, props, ch⟩ ++ levelViol (path ++ [lo]) ch ++ belowL (path ++ [lo]) ch
def belowL (path : List Str) : List Entry → List Viol
  | [] => []
  | e :: es => belowE path e ++ belowL path es
end

/-- all structural defects of a registry tree -/
def violations (db : List Entry) : List Viol := levelViol [] db ++ belowL [] db

/-- **well-formed registry** -/
def WF (db : List Entry) : Prop := violations db = []

instance (db : List Entry) : Decidable (WF db) := inferInstanceAs (Decidable (_ = _))

/-! ## near-linear check of sibling lists

`levelViol` is quadratic.  The check below is tried first; it excludes every pair defect
(`Props.C11.sortedOk_sound` in `Lift.lean`) and costs one pass for lists as the shipped files have them:

* every entry is a proper range and the `low`s never decrease in the order `⪯` (`x ⪯ y` iff `x = y` or `x ≪ y`,
  where `x ≪ y` means that the two strings differ at a position both have and `x` is smaller there — so neither
  is a prefix of the other and ranges of *different* lengths are covered too);
* every entry `e` is compared with its successors one by one until the first successor `n` with `e.high ≪ n.low`
  (from there on nothing can overlap `e`, be shadowed by it or shadow it).

If the list itself does not pass, its merge-sorted copy (by `low`; a pair defect does not depend on the order) is
tried; only if that fails too (e.g. where a three-digit code sits next to the two-digit code that is its prefix)
the list is checked pair by pair. -/

/-- `x ≪ y` -/
def lll : Str → Str → Bool
  | a :: as, b :: bs => if a < b then true else if b < a then false else lll as bs
  | _, _ => false

/-- `x ⪯ y` -/
def lle (a b : Str) : Bool := (a == b) || lll a b

def lowsSorted : List Entry → Bool
  | [] => true
  | [_] => true
  | a :: b :: l => lle a.low b.low && lowsSorted (b :: l)

/-- `e` against the entries after it, up to the first one that lies entirely behind `e` -/
def headOk (e : Entry) : List Entry → Bool
  | [] => true
  | n :: rest => lll e.high n.low || (!pairBad e n && headOk e rest)

def scanOk : List Entry → Bool
  | [] => true
  | e :: es => headOk e es && scanOk es

def sortedOk (l : List Entry) : Bool := l.all rangeOk && lowsSorted l && scanOk l

/-! ### merge sort by `low` (only used as a permutation; what it achieves is *checked* by `sortedOk`) -/

def halve : List Entry → List Entry × List Entry
  | [] => ([], [])
  | [a] => ([a], [])
  | a :: b :: l => (a :: (halve l).1, b :: (halve l).2)

def mergeF : Nat → List Entry → List Entry → List Entry
  | 0, xs, ys => xs ++ ys
  | _ + 1, [], ys => ys
  | _ + 1, xs, [] => xs
  | f + 1, x :: xs, y :: ys =>
    if strLe x.low y.low then x :: mergeF f xs (y :: ys) else y :: mergeF f (x :: xs) ys

def msortF : Nat → List Entry → List Entry
  | 0, l => l
  | f + 1, l =>
    match l with
    | [] => []
    | [a] => [a]
    | _ => mergeF l.length (msortF f (halve l).1) (msortF f (halve l).2)

/-- the list sorted by `low` (a permutation of the list: `Props.C11.msort_perm`) -/
def msort (l : List Entry) : List Entry := msortF l.length l

/-- `levelViol` with the cheap checks tried first -/
def levelCheck (path : List Str) (l : List Entry) : List Viol :=
  if sortedOk l then [] else if sortedOk (msort l) then [] else levelViol path l

mutual
/-- `belowE` with `levelCheck` for `levelViol` -/
def belowFastE (path : List Str) : Entry → List Viol
  | ⟨len, lo, hi, props, ch⟩ =>
    entryViol path ⟨len, lo, hi, props, ch⟩ ++ levelCheck (path ++ [lo]) ch ++ belowFastL (path ++ [lo]) ch
def belowFastL (path : List Str) : List Entry → List Viol
  | [] => []
  | e :: es => belowFastE path e ++ belowFastL path es
end

end Props.C11
