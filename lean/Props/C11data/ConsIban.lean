import Props.C11data.ConsSmall
import Props.C11data.iban_link
import Gen.iban__b
import Lemmas.Regex
/-!
# Props.C11data.ConsIban — `iban.dat`: every structure line is understood by the structure compiler and
admits an accepted account number (hand-written)

* `structRe` is the regular expression `_struct_to_re` is meant to build for a structure made of
  `<count>!<n|a|c>` tokens; `structRe_fixed` proves **for every token list** that it is a fixed-width pattern
  with the per-position classes of the tokens, so `Py.Re.match_fixed_iff` characterises its matches exactly.
* `iban_struct_table` (kernel evaluation over the 87 registry lines): the structure string of every line parses
  into tokens (`parseStruct`, nothing left over) and the pattern **CPython built** for it — tabulated by the
  translator from `re._parser.parse('^%s$' % _struct_re.sub(conv, structure))` in `Gen.iban._struct_to_re_table` —
  is `structRe` of these tokens.  An unknown token would be left in the pattern as literal text and break this.
* `iban_struct_shape`: hence, for every line, `bban` matches iff it has exactly the declared classes at the
  declared positions, and ends there or with one line feed (`$`).
* `iban_witness` (`ConsIbanWit.lean`; kernel evaluation of the generated `iban.validate(check_country=False)`): for every line the
  number `CC kk bban` with `bban` synthesised from the tokens (`0` for `n`, `A` for `a`, `Z` for `c`) and `kk`
  computed by the generated `iban.calc_check_digits` is accepted and returned unchanged.
-/
set_option maxRecDepth 100000
namespace Props.C11
open Spec.NumDB Py.Re
open Py (Str)

/-! ## tokens -/

/-- `[1-9][0-9]*` at the start of `s`: value and rest -/
def takeCount (s : Str) : Option (Nat × Str) :=
  match s with
  | c :: _ =>
    if 49 ≤ c ∧ c ≤ 57 then
      let ds := s.takeWhile Py.isAsciiDigit
      some (ds.foldl (fun acc d => acc * 10 + (d - 48)) 0, s.dropWhile Py.isAsciiDigit)
    else none
  | [] => none

/-- `([1-9][0-9]*)!([nac])` repeated, nothing else; fuel = length of the string -/
def parseStructAux : Nat → Str → Option (List (Nat × Nat))
  | _, [] => some []
  | 0, _ :: _ => none
  | fuel + 1, s =>
    match takeCount s with
    | some (n, 33 :: k :: rest) =>
      if k = 110 ∨ k = 97 ∨ k = 99 then
        match parseStructAux fuel rest with
        | some ts => some ((n, k) :: ts)
        | none => none
      else none
    | _ => none

def parseStruct (s : Str) : Option (List (Nat × Nat)) := parseStructAux s.length s

/-- `n` → `[0-9]`, `a` → `[A-Z]`, `c` → `[A-Za-z0-9]` (anything else: the empty class) -/
def classItems (k : Nat) : List ClassItem :=
  if k = 110 then [.range 48 57]
  else if k = 97 then [.range 65 90]
  else if k = 99 then [.range 65 90, .range 97 122, .range 48 57]
  else []

def structTail : List (Nat × Nat) → Regex
  | [] => .anchor .eol
  | t :: ts => .seq (.rep true t.1 (some t.1) (.cls false (classItems t.2))) (structTail ts)

/-- `^[..]{n₁}[..]{n₂}…$` -/
def structRe (toks : List (Nat × Nat)) : Regex := .seq (.anchor .bol) (structTail toks)

def structPattern (toks : List (Nat × Nat)) : Pattern := { re := structRe toks, flags := {}, ngroups := 0, names := [] }

/-- the class of each position -/
def shapePreds (toks : List (Nat × Nat)) : List (Nat → Bool) :=
  toks.flatMap (fun t => (List.replicate t.1 [classMatch {} false (classItems t.2)]).flatten)

theorem structTail_fixed : ∀ (toks : List (Nat × Nat)),
    Regex.fixedTail {} (structTail toks) = some (shapePreds toks, .eol)
  | [] => rfl
  | t :: ts => by
    unfold structTail Regex.fixedTail
    rw [structTail_fixed ts]
    simp [Regex.fixed, shapePreds]

/-- **the structure compiler's pattern is fixed-width with the declared classes** (all token lists) -/
theorem structRe_fixed (toks : List (Nat × Nat)) :
    (structPattern toks).re.fixedAnchored (structPattern toks).flags = some (shapePreds toks, .eol) := by
  show Regex.fixedAnchored {} (structRe toks) = _
  unfold structRe Regex.fixedAnchored
  exact structTail_fixed toks

theorem shapePreds_length (toks : List (Nat × Nat)) : (shapePreds toks).length = (toks.map (·.1)).sum := by
  induction toks with
  | nil => rfl
  | cons t ts ih =>
    unfold shapePreds at ih ⊢
    simp only [List.flatMap_cons, List.length_append, ih, List.map_cons, List.sum_cons]
    congr 1
    induction t.1 with
    | zero => rfl
    | succ n ihn => simp [List.replicate_succ]

/-- what `^…$` accepts: the declared class at every declared position, and then the end of the string or one
final line feed -/
def Shape (toks : List (Nat × Nat)) (x : Str) : Prop :=
  FitsAt x 0 (shapePreds toks) ∧
    (x.length = (toks.map (·.1)).sum ∨ (x.length = (toks.map (·.1)).sum + 1 ∧ x[(toks.map (·.1)).sum]? = some 10))

theorem structPattern_match_iff (toks : List (Nat × Nat)) (x : Str) :
    (match_ (structPattern toks) x).isSome = true ↔ Shape toks x := by
  rw [match_fixed_iff (structRe_fixed toks) x]
  unfold Shape
  rw [shapePreds_length]
  apply and_congr_right
  intro _
  simp only [structPattern, anchorMatch, Bool.false_eq_true, if_false, Bool.or_eq_true, beq_iff_eq,
    Bool.and_eq_true]
  constructor
  · rintro (h | ⟨h1, h2⟩)
    · exact Or.inl h.symm
    · exact Or.inr ⟨h1.symm, h2⟩
  · rintro (h | ⟨h1, h2⟩)
    · exact Or.inl h.symm
    · exact Or.inr ⟨h1.symm, h2⟩

/-! ## the registry lines -/

/-- the `bban` property of a registry line (`''` if absent, as in `info[0][1].get('bban', '')`) -/
def bbanOf (e : Entry) : Str := Py.dictGetD e.props (cp% "bban") []

/-- the tabulated CPython pattern of the line's structure is `structRe` of its tokens -/
def structOk (e : Entry) : Bool :=
  match parseStruct (bbanOf e) with
  | some toks => !toks.isEmpty && (Py.dictGet? Gen.iban._struct_to_re_table (bbanOf e) == some (structPattern toks))
  | none => false

theorem iban_struct_table : ∀ e ∈ Data.iban.tree, structOk e = true := by decide +kernel

/-- **every IBAN structure line compiles to a pattern that accepts exactly the declared shape** -/
theorem iban_struct_shape : ∀ e ∈ Data.iban.tree, ∃ toks pat, parseStruct (bbanOf e) = some toks ∧ toks ≠ [] ∧
    Gen.iban._struct_to_re (bbanOf e) = .ok pat ∧ ∀ x, (match_ pat x).isSome = true ↔ Shape toks x := by
  intro e he
  have h := iban_struct_table e he
  unfold structOk at h
  split at h
  · rename_i toks ht
    simp only [Bool.and_eq_true, Bool.not_eq_true', beq_iff_eq] at h
    refine ⟨toks, structPattern toks, ht, ?_, ?_, structPattern_match_iff toks⟩
    · intro hnil; rw [hnil] at h; simp at h
    · unfold Gen.iban._struct_to_re
      rw [h.2]
      rfl
  · cases h

/-! ## an accepted number per line -/

/-- `0` for `n`, `A` for `a`, `Z` for `c` -/
def tokenChar (k : Nat) : Nat := if k = 110 then 48 else if k = 97 then 65 else 90

def witnessBban (toks : List (Nat × Nat)) : Str := toks.flatMap (fun t => List.replicate t.1 (tokenChar t.2))

/-- the generated validator accepts `CC kk bban` -/
def ibanWitnessOk (e : Entry) : Bool :=
  match parseStruct (bbanOf e) with
  | some toks =>
    (match Gen.iban.calc_check_digits (e.low ++ cp% "00" ++ witnessBban toks) with
     | .ok kk => okStr (Gen.iban.validate__check_country_False (e.low ++ kk ++ witnessBban toks))
                   (some (e.low ++ kk ++ witnessBban toks))
     | .error _ => false)
  | none => false

end Props.C11
