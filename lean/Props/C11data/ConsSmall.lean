import Props.C11data.at_fa_link
import Props.C11data.cz_banks_link
import Props.C11data.my_bp_link
import Props.C11data.us_ein_link
import Props.C11data.isil_link
import Gen.at_tin
import Gen.cz_bankaccount
import Gen.my_nric
import Gen.us_ein
import Gen.isil
/-!
# Props.C11data.ConsSmall — consumer witnesses for the small registries (hand-written)

For every entry of `at/fa.dat`, `cz/banks.dat`, `my/bp.dat`, `us/ein.dat`, `isil.dat` the **generated**
getter of the consuming module is evaluated by the kernel on numbers built from both ends of the entry's range;
it must return the entry's properties.

Proof pattern: the statement is brought to a pointwise form (`intro`), the generated function is unfolded
(a rewrite with its equation, no evaluation), the registry constant `Gen.db_<name>.db` is rewritten to the dumped
tree with the kernel-checked link `Props.C11.Data.<name>.db_eq`, everything is reverted and the closed statement
is evaluated by `decide +kernel`.  (Evaluating `Gen.db_<name>.db` itself would make the kernel decode the embedded
string literal: minutes per kilobyte.)
-/
set_option maxRecDepth 100000
namespace Props.C11
open Spec.NumDB
open Py (Str)

/-- the getter returned exactly these properties -/
def okProps (r : Py.R (List (Str × Str))) (p : Dict) : Bool :=
  match r with
  | .ok q => q == p
  | .error _ => false

theorem okProps_iff {r : Py.R (List (Str × Str))} {p : Dict} : okProps r p = true ↔ r = .ok p := by
  unfold okProps
  split
  · rename_i q; simp
  · simp

/-- the getter returned exactly this string -/
def okStr (r : Py.R Str) (v : Option Str) : Bool :=
  match r, v with
  | .ok q, some p => q == p
  | _, _ => false

/-- both ends of an entry's range -/
def ends (e : Entry) : List Str := if e.low = e.high then [e.low] else [e.low, e.high]

/-! ## at/fa.dat → `at.tin.info` (tax office of the first two digits) -/

/-- 9-digit numbers starting with an end of the range -/
def atFaWitnesses (e : Entry) : List Str := (ends e).flatMap (fun c => [c ++ cp% "0000000", c ++ cp% "9999999"])

theorem at_fa_info : ∀ e ∈ Data.at_fa.tree, ∀ w ∈ atFaWitnesses e, okProps (Gen.at_tin.info w) e.props = true := by
  intro e he w hw
  unfold Gen.at_tin.info
  rw [Data.at_fa.db_eq]
  revert e he w hw
  decide +kernel

/-! ## cz/banks.dat → `cz.bankaccount._info` / `info` (bank code after the slash) -/

theorem cz_banks__info : ∀ e ∈ Data.cz_banks.tree, ∀ c ∈ ends e, okProps (Gen.cz_bankaccount._info c) e.props = true := by
  intro e he c hc
  unfold Gen.cz_bankaccount._info
  rw [Data.cz_banks.db_eq]
  revert e he c hc
  decide +kernel

/-- `19-2000145399/cccc` -/
def czBanksWitnesses (e : Entry) : List Str := (ends e).map (fun c => cp% "19-2000145399/" ++ c)

theorem cz_banks_info : ∀ e ∈ Data.cz_banks.tree, ∀ w ∈ czBanksWitnesses e, okProps (Gen.cz_bankaccount.info w) e.props = true := by
  intro e he w hw
  unfold Gen.cz_bankaccount.info Gen.cz_bankaccount._info
  rw [Data.cz_banks.db_eq]
  revert e he w hw
  decide +kernel

/-! ## my/bp.dat → `my.nric.get_birth_place` (digits 7–8) -/

/-- `000000 cc 0000` -/
def myBpWitnesses (e : Entry) : List Str := (ends e).map (fun c => cp% "000000" ++ c ++ cp% "0000")

theorem my_bp_birth_place : ∀ e ∈ Data.my_bp.tree, ∀ w ∈ myBpWitnesses e,
    okProps (Gen.my_nric.get_birth_place w) e.props = true := by
  intro e he w hw
  unfold Gen.my_nric.get_birth_place
  rw [Data.my_bp.db_eq]
  revert e he w hw
  decide +kernel

/-! ## us/ein.dat → `us.ein.get_campus` (first two digits)

`46` is listed twice (`Internet` in line 7, `Philadelphia` in line 10); the later line wins, so the first
entry is not returned.  This is the duplicate of `Props.C11.us_ein_violations`. -/

/-- `cc0000000` -/
def usEinWitnesses (e : Entry) : List Str := (ends e).map (fun c => c ++ cp% "0000000")

def campus (e : Entry) : Option Str := Py.dictGet? e.props (cp% "campus")

/-- the one entry whose own campus is not what `get_campus` answers -/
def usEinOverridden (e : Entry) : Bool := (e.low == cp% "46") && (campus e == some (cp% "Internet"))

/-- every entry is answered with its own campus, except the first `46`, which is answered with `Philadelphia` -/
theorem us_ein_campus : ∀ e ∈ Data.us_ein.tree, ∀ w ∈ usEinWitnesses e,
    okStr (Gen.us_ein.get_campus w) (if usEinOverridden e then some (cp% "Philadelphia") else campus e) = true := by
  intro e he w hw
  unfold Gen.us_ein.get_campus
  rw [Data.us_ein.db_eq]
  revert e he w hw
  decide +kernel

theorem us_ein_overridden_count : (Data.us_ein.tree.filter usEinOverridden).length = 1 := by decide +kernel

/-! ## isil.dat → `isil._is_known_agency` (the agency prefix of an ISIL; registry keys end in `$`) -/

/-- the generated test answered `True` -/
def okTrue (r : Py.R Bool) : Bool :=
  match r with
  | .ok b => b
  | .error _ => false

/-- every registered agency (the entry's key without the final `$`) is known -/
theorem isil_known_agency : ∀ e ∈ Data.isil.tree, ∀ c ∈ ends e, okTrue (Gen.isil._is_known_agency c.dropLast) = true := by
  intro e he c hc
  unfold Gen.isil._is_known_agency
  rw [Data.isil.db_eq]
  revert e he c hc
  decide +kernel

/-- … and every key does end in `$` -/
theorem isil_keys : ∀ e ∈ Data.isil.tree, e.low.getLast? = some 36 ∧ e.high.getLast? = some 36 := by decide +kernel

end Props.C11
