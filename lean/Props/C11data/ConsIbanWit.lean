import Props.C11data.ConsIban
/-!
# Props.C11data.ConsIbanWit — an accepted account number for every line of `iban.dat` (hand-written; see `ConsIban.lean`)
-/
set_option maxRecDepth 100000
namespace Props.C11
open Spec.NumDB Py.Re
open Py (Str)

theorem iban_witness_a : ∀ e ∈ Data.iban.tree.take 22, ibanWitnessOk e = true := by
  intro e he
  unfold ibanWitnessOk Gen.iban.validate__check_country_False
  rw [Data.iban.db_eq]
  revert e he
  decide +kernel

theorem iban_witness_b : ∀ e ∈ (Data.iban.tree.drop 22).take 22, ibanWitnessOk e = true := by
  intro e he
  unfold ibanWitnessOk Gen.iban.validate__check_country_False
  rw [Data.iban.db_eq]
  revert e he
  decide +kernel

end Props.C11
