import Props.C11data.Defs
/-!
# Props.C11data.Lift — lemmas used by the generated assembly files

* `sortedOk_sound` : the linear pass over a sorted sibling list excludes every pair defect;
  `levelCheck_eq`, `belowFastL_eq` : the checks with the linear pass tried first compute the same lists;
* `belowL_append`, `belowL_chunks` : the defects below the top level of a registry are the concatenation of
  the defects of its chunks.
-/
namespace Props.C11
open Spec.NumDB
open Py (Str)

/-! ## `≪` -/

theorem lll_not_strLe : ∀ (x y : Str), lll x y = true → strLe y x = false
  | [], _, h => by simp [lll] at h
  | _ :: _, [], h => by simp [lll] at h
  | a :: as, b :: bs, h => by
    unfold lll at h
    unfold strLe
    by_cases h1 : a < b
    · have : ¬ b < a := by omega
      simp [this, h1]
    · by_cases h2 : b < a
      · simp [h1, h2] at h
      · simp only [h1, h2, if_false] at h ⊢
        exact lll_not_strLe as bs h

theorem lll_take_right : ∀ (x y : Str) (n : Nat), lll x y = true → x.length ≤ n → lll x (y.take n) = true
  | [], _, _, h, _ => by simp [lll] at h
  | _ :: _, [], _, h, _ => by simp [lll] at h
  | a :: as, b :: bs, 0, _, hn => by simp at hn
  | a :: as, b :: bs, n + 1, h, hn => by
    unfold lll at h
    rw [List.take_succ_cons]
    unfold lll
    by_cases h1 : a < b
    · simp [h1]
    · by_cases h2 : b < a
      · simp [h1, h2] at h
      · simp only [h1, h2, if_false] at h ⊢
        exact lll_take_right as bs n h (by simpa using hn)

theorem lll_take_left : ∀ (x y : Str) (n : Nat), lll x y = true → y.length ≤ n → lll (x.take n) y = true
  | [], _, _, h, _ => by simp [lll] at h
  | _ :: _, [], _, h, _ => by simp [lll] at h
  | a :: as, b :: bs, 0, _, hn => by simp at hn
  | a :: as, b :: bs, n + 1, h, hn => by
    unfold lll at h
    rw [List.take_succ_cons]
    unfold lll
    by_cases h1 : a < b
    · simp [h1]
    · by_cases h2 : b < a
      · simp [h1, h2] at h
      · simp only [h1, h2, if_false] at h ⊢
        exact lll_take_left as bs n h (by simpa using hn)

/-- `x ≪ y ≤ z → x ≪ z` -/
theorem lll_strLe : ∀ (x y z : Str), lll x y = true → strLe y z = true → lll x z = true
  | [], _, _, h, _ => by simp [lll] at h
  | _ :: _, [], _, h, _ => by simp [lll] at h
  | _ :: _, _ :: _, [], _, h2 => by simp [strLe] at h2
  | a :: as, b :: bs, c :: cs, h, h2 => by
    unfold lll at h ⊢
    unfold strLe at h2
    by_cases hbc : b < c
    · by_cases hab : a < b
      · have : a < c := by omega
        simp [this]
      · by_cases hba : b < a
        · simp [hab, hba] at h
        · have : a < c := by omega
          simp [this]
    · by_cases hcb : c < b
      · simp [hbc, hcb] at h2
      · have hbc' : b = c := by omega
        subst hbc'
        simp only [hbc, if_false] at h2
        by_cases hab : a < b
        · simp [hab]
        · by_cases hba : b < a
          · simp [hab, hba] at h
          · simp only [hab, hba, if_false] at h ⊢
            exact lll_strLe as bs cs h h2

/-- `x ≤ y ≪ z → x ≪ z` for `|x| = |y|` -/
theorem strLe_lll : ∀ (x y z : Str), strLe x y = true → x.length = y.length → lll y z = true → lll x z = true
  | _, [], _, _, _, h => by simp [lll] at h
  | _, _ :: _, [], _, _, h => by simp [lll] at h
  | [], _ :: _, _ :: _, _, hl, _ => by simp at hl
  | a :: as, b :: bs, c :: cs, h1, hl, h => by
    unfold lll at h ⊢
    unfold strLe at h1
    by_cases hab : a < b
    · by_cases hbc : b < c
      · have : a < c := by omega
        simp [this]
      · by_cases hcb : c < b
        · simp [hbc, hcb] at h
        · have : a < c := by omega
          simp [this]
    · by_cases hba : b < a
      · simp [hab, hba] at h1
      · have hab' : a = b := by omega
        subst hab'
        simp only [hab, if_false] at h1
        by_cases hac : a < c
        · simp [hac]
        · by_cases hca : c < a
          · simp [hac, hca] at h
          · simp only [hac, hca, if_false] at h ⊢
            exact strLe_lll as bs cs h1 (by simpa using hl) h

theorem lll_trans : ∀ (x y z : Str), lll x y = true → lll y z = true → lll x z = true
  | [], _, _, h, _ => by simp [lll] at h
  | _ :: _, [], _, h, _ => by simp [lll] at h
  | _ :: _, _ :: _, [], _, h2 => by simp [lll] at h2
  | a :: as, b :: bs, c :: cs, h, h2 => by
    unfold lll at h h2 ⊢
    by_cases hbc : b < c
    · by_cases hab : a < b
      · have : a < c := by omega
        simp [this]
      · by_cases hba : b < a
        · simp [hab, hba] at h
        · have : a < c := by omega
          simp [this]
    · by_cases hcb : c < b
      · simp [hbc, hcb] at h2
      · have hbc' : b = c := by omega
        subst hbc'
        simp only [hbc, if_false] at h2
        by_cases hab : a < b
        · simp [hab]
        · by_cases hba : b < a
          · simp [hab, hba] at h
          · simp only [hab, hba, if_false] at h ⊢
            exact lll_trans as bs cs h h2

/-! ## a sorted pair has no defect -/

theorem rangeOk_iff (e : Entry) : rangeOk e = true ↔
    e.low.length = e.length ∧ e.high.length = e.length ∧ 1 ≤ e.length ∧ strLe e.low e.high = true := by
  simp [rangeOk, and_assoc]

theorem pairBad_of_lll {a b : Entry} (ha : rangeOk a = true) (hb : rangeOk b = true)
    (h : lll a.high b.low = true) : pairBad a b = false := by
  obtain ⟨ha1, ha2, _, ha4⟩ := (rangeOk_iff a).mp ha
  obtain ⟨hb1, hb2, _, hb4⟩ := (rangeOk_iff b).mp hb
  -- a.high ≪ b.high, a.low ≪ b.low
  have hhh : lll a.high b.high = true := lll_strLe _ _ _ h hb4
  have hll : lll a.low b.low = true := strLe_lll _ _ _ ha4 (by omega) h
  unfold pairBad
  split
  · -- equal lengths: no dup, no clash
    rename_i hlen
    have h1 : strLe b.low a.high = false := lll_not_strLe _ _ h
    have hne : (a.low == b.low) = false := by
      rw [beq_eq_false_iff_ne]
      intro heq
      have := lll_not_strLe _ _ hll
      rw [heq] at this
      have hr : strLe b.low b.low = true := by
        have : ∀ (x : Str), strLe x x = true := by
          intro x; induction x with
          | nil => rfl
          | cons c cs ih => simp [strLe, ih]
        exact this _
      rw [hr] at this; cases this
    simp [dup, sameRange, clash, overlap, h1, hne]
  · -- different lengths: no shadowing in either direction
    have hs1 : shadows a b = false := by
      unfold shadows
      by_cases hl : a.length < b.length
      · have c1 : covers a b.low = false := by
          unfold covers
          have := lll_not_strLe _ _ (lll_take_right _ _ a.length h (by omega))
          simp [this]
        have c2 : covers a b.high = false := by
          unfold covers
          have := lll_not_strLe _ _ (lll_take_right _ _ a.length hhh (by omega))
          simp [this]
        simp [c1, c2]
      · simp [hl]
    have hs2 : shadows b a = false := by
      unfold shadows
      by_cases hl : b.length < a.length
      · have c1 : covers b a.low = false := by
          unfold covers
          have := lll_not_strLe _ _ (lll_take_left _ _ b.length hll (by omega))
          simp [this]
        have c2 : covers b a.high = false := by
          unfold covers
          have := lll_not_strLe _ _ (lll_take_left _ _ b.length h (by omega))
          simp [this]
        simp [c1, c2]
      · simp [hl]
    simp [hs1, hs2]

/-! ## soundness of the linear pass -/

theorem sortedOk_cons (e : Entry) (es : List Entry) :
    sortedOk (e :: es) = true ↔ rangeOk e = true ∧ headOk e es = true ∧ sortedOk es = true := by
  simp [sortedOk, and_assoc]

theorem sortedOk_rangeOk : ∀ (l : List Entry), sortedOk l = true → ∀ b ∈ l, rangeOk b = true
  | [], _, b, hb => by cases hb
  | e :: es, h, b, hb => by
    obtain ⟨h1, _, h3⟩ := (sortedOk_cons e es).mp h
    rcases List.mem_cons.mp hb with rfl | hb
    · exact h1
    · exact sortedOk_rangeOk es h3 b hb

/-- `x = y ∨ x ≪ y` -/
def lle (x y : Str) : Prop := x = y ∨ lll x y = true

/-- after a checked head all `low`s are `⪰` the head's `low` -/
theorem lows_after : ∀ (l : List Entry) (n : Entry), rangeOk n = true → headOk n l = true → sortedOk l = true →
    ∀ b ∈ l, lle n.low b.low
  | [], _, _, _, _, b, hb => by cases hb
  | m :: rest, n, hn, hh, hs, b, hb => by
    obtain ⟨hm, hhm, hsr⟩ := (sortedOk_cons m rest).mp hs
    obtain ⟨_, hn2, _, hn4⟩ := (rangeOk_iff n).mp hn
    unfold headOk at hh
    rcases Bool.or_eq_true _ _ |>.mp hh with h1 | h1
    · -- n.high ≪ m.low
      have hnm : lll n.low m.low = true := strLe_lll _ _ _ hn4 (by
        have := (rangeOk_iff n).mp hn; omega) h1
      rcases List.mem_cons.mp hb with rfl | hb
      · exact Or.inr hnm
      · rcases lows_after rest m hm hhm hsr b hb with heq | hl
        · exact Or.inr (heq ▸ hnm)
        · exact Or.inr (lll_trans _ _ _ hnm hl)
    · -- the same range again
      simp only [Bool.and_eq_true] at h1
      obtain ⟨⟨hsame, _⟩, hrest⟩ := h1
      rcases List.mem_cons.mp hb with rfl | hb
      · left
        simp only [sameRange, Bool.and_eq_true, beq_iff_eq] at hsame
        exact hsame.1.2
      · exact lows_after rest n hn hrest hsr b hb

theorem head_pairs : ∀ (l : List Entry) (e : Entry), rangeOk e = true → headOk e l = true → sortedOk l = true →
    ∀ b ∈ l, pairBad e b = false
  | [], _, _, _, _, b, hb => by cases hb
  | n :: rest, e, he, hh, hs, b, hb => by
    obtain ⟨hn, hhn, hsr⟩ := (sortedOk_cons n rest).mp hs
    unfold headOk at hh
    rcases Bool.or_eq_true _ _ |>.mp hh with h1 | h1
    · rcases List.mem_cons.mp hb with rfl | hb
      · exact pairBad_of_lll he hn h1
      · have hb' := sortedOk_rangeOk rest hsr b hb
        rcases lows_after rest n hn hhn hsr b hb with heq | hl
        · exact pairBad_of_lll he hb' (heq ▸ h1)
        · exact pairBad_of_lll he hb' (lll_trans _ _ _ h1 hl)
    · simp only [Bool.and_eq_true, Bool.not_eq_true'] at h1
      obtain ⟨⟨_, hbad⟩, hrest⟩ := h1
      rcases List.mem_cons.mp hb with rfl | hb
      · exact hbad
      · exact head_pairs rest e he hrest hsr b hb

theorem pairViol_of_not_bad {path : List Str} {a b : Entry} (h : pairBad a b = false) : pairViol path a b = [] := by
  simp [pairViol, h]

/-- **soundness of the linear pass**: a sibling list that passes `sortedOk` has no pair defect -/
theorem sortedOk_sound (path : List Str) : ∀ (l : List Entry), sortedOk l = true → levelViol path l = []
  | [], _ => rfl
  | e :: es, h => by
    obtain ⟨h1, h2, h3⟩ := (sortedOk_cons e es).mp h
    unfold levelViol
    rw [sortedOk_sound path es h3, List.append_nil, List.flatMap_eq_nil_iff]
    intro b hb
    exact pairViol_of_not_bad (head_pairs es e h1 h2 h3 b hb)

theorem levelCheck_eq (path : List Str) (l : List Entry) : levelCheck path l = levelViol path l := by
  unfold levelCheck
  split
  · rename_i h; exact (sortedOk_sound path l h).symm
  · rfl

mutual
theorem belowFastE_eq : ∀ (path : List Str) (e : Entry), belowFastE path e = belowE path e
  | path, ⟨len, lo, hi, props, ch⟩ => by
    unfold belowFastE belowE
    rw [levelCheck_eq, belowFastL_eq (path ++ [lo]) ch]
theorem belowFastL_eq : ∀ (path : List Str) (l : List Entry), belowFastL path l = belowL path l
  | _, [] => by unfold belowFastL belowL; rfl
  | path, e :: es => by
    unfold belowFastL belowL
    rw [belowFastE_eq path e, belowFastL_eq path es]
end

/-! ## structural equality -/

mutual
theorem entryBeq_eq : ∀ (a b : Entry), entryBeq a b = true → a = b
  | ⟨l1, lo1, hi1, p1, c1⟩, ⟨l2, lo2, hi2, p2, c2⟩, h => by
    unfold entryBeq at h
    simp only [Bool.and_eq_true, beq_iff_eq] at h
    obtain ⟨⟨⟨⟨h1, h2⟩, h3⟩, h4⟩, h5⟩ := h
    rw [h1, h2, h3, h4, treeBeq_eq c1 c2 h5]
theorem treeBeq_eq : ∀ (a b : List Entry), treeBeq a b = true → a = b
  | [], [], _ => rfl
  | a :: as, b :: bs, h => by
    unfold treeBeq at h
    simp only [Bool.and_eq_true] at h
    rw [entryBeq_eq a b h.1, treeBeq_eq as bs h.2]
  | [], _ :: _, h => by simp [treeBeq] at h
  | _ :: _, [], h => by simp [treeBeq] at h
end

theorem readText_of_readsTo {text : Str} {t : List Entry} (h : readsTo text t = true) : readText text = .ok t := by
  unfold readsTo at h
  split at h
  · rename_i t' ht; rw [ht, treeBeq_eq _ _ h]
  · cases h

theorem dbOfText_of_read {text : Str} {t : List Entry} (h : readText text = .ok t) : dbOfText text = t := by
  unfold dbOfText; rw [h]

/-! ## chunks -/

theorem belowL_cons (path : List Str) (e : Entry) (es : List Entry) :
    belowL path (e :: es) = belowE path e ++ belowL path es := by rw [belowL]

theorem belowL_append (path : List Str) : ∀ (a b : List Entry), belowL path (a ++ b) = belowL path a ++ belowL path b
  | [], b => by simp [belowL]
  | e :: es, b => by
    rw [List.cons_append, belowL_cons, belowL_cons, belowL_append path es b, List.append_assoc]

/-- every chunk `(tree, defects)` of the list has exactly the stated defects below its top level -/
def ChunksBelow (path : List Str) : List (List Entry × List Viol) → Prop
  | [] => True
  | p :: ps => belowL path p.1 = p.2 ∧ ChunksBelow path ps

/-- the defects below the top level, chunk by chunk -/
theorem belowL_chunks (path : List Str) : ∀ (ps : List (List Entry × List Viol)), ChunksBelow path ps →
    belowL path (ps.map (·.1)).flatten = (ps.map (·.2)).flatten
  | [], _ => by simp [belowL]
  | p :: ps, h => by
    rw [List.map_cons, List.map_cons, List.flatten_cons, List.flatten_cons, belowL_append, h.1,
      belowL_chunks path ps h.2]

/-- chunk theorem from the fast evaluation -/
theorem belowL_of_fast {path : List Str} {l : List Entry} {v : List Viol} (h : belowFastL path l = v) :
    belowL path l = v := (belowFastL_eq path l).symm.trans h

theorem levelViol_of_check {path : List Str} {l : List Entry} {v : List Viol} (h : levelCheck path l = v) :
    levelViol path l = v := (levelCheck_eq path l).symm.trans h

end Props.C11
