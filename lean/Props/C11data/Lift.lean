import Props.C11data.Defs
/-!
# Props.C11data.Lift — lemmas used by the generated assembly files

* `sortedOk_sound` : the linear pass over a sorted sibling list excludes every pair defect;
  `levelCheck_eq`, `belowFastL_eq` : the checks with the linear pass tried first compute the same lists;
* `belowL_append`, `belowL_chunks` : the defects below the top level of a registry are the concatenation of
  the defects of its chunks.
-/
namespace Props.C11
open Spec.NumDB
open Py (Str)

/-! ## `≪` -/

theorem lll_not_strLe : ∀ (x y : Str), lll x y = true → strLe y x = false
  | [], _, h => by simp [lll] at h
  | _ :: _, [], h => by simp [lll] at h
  | a :: as, b :: bs, h => by
    unfold lll at h
    unfold strLe
    by_cases h1 : a < b
    · have : ¬ b < a := by omega
      simp [this, h1]
    · by_cases h2 : b < a
      · simp [h1, h2] at h
      · simp only [h1, h2, if_false] at h ⊢
        exact lll_not_strLe as bs h

theorem lll_take_right : ∀ (x y : Str) (n : Nat), lll x y = true → x.length ≤ n → lll x (y.take n) = true
  | [], _, _, h, _ => by simp [lll] at h
  | _ :: _, [], _, h, _ => by simp [lll] at h
  | a :: as, b :: bs, 0, _, hn => by simp at hn
  | a :: as, b :: bs, n + 1, h, hn => by
    unfold lll at h
    rw [List.take_succ_cons]
    unfold lll
    by_cases h1 : a < b
    · simp [h1]
    · by_cases h2 : b < a
      · simp [h1, h2] at h
      · simp only [h1, h2, if_false] at h ⊢
        exact lll_take_right as bs n h (by simpa using hn)

theorem lll_take_left : ∀ (x y : Str) (n : Nat), lll x y = true → y.length ≤ n → lll (x.take n) y = true
  | [], _, _, h, _ => by simp [lll] at h
  | _ :: _, [], _, h, _ => by simp [lll] at h
  | a :: as, b :: bs, 0, _, hn => by simp at hn
  | a :: as, b :: bs, n + 1, h, hn => by
    unfold lll at h
    rw [List.take_succ_cons]
    unfold lll
    by_cases h1 : a < b
    · simp [h1]
    · by_cases h2 : b < a
      · simp [h1, h2] at h
      · simp only [h1, h2, if_false] at h ⊢
        exact lll_take_left as bs n h (by simpa using hn)

/-- `x ≪ y ≤ z → x ≪ z` -/
theorem lll_strLe : ∀ (x y z : Str), lll x y = true → strLe y z = true → lll x z = true
  | [], _, _, h, _ => by simp [lll] at h
  | _ :: _, [], _, h, _ => by simp [lll] at h
  | _ :: _, _ :: _, [], _, h2 => by simp [strLe] at h2
  | a :: as, b :: bs, c :: cs, h, h2 => by
    unfold lll at h ⊢
    unfold strLe at h2
    by_cases hbc : b < c
    · by_cases hab : a < b
      · have : a < c := by omega
        simp [this]
      · by_cases hba : b < a
        · simp [hab, hba] at h
        · have : a < c := by omega
          simp [this]
    · by_cases hcb : c < b
      · simp [hbc, hcb] at h2
      · have hbc' : b = c := by omega
        subst hbc'
        simp only [hbc, if_false] at h2
        by_cases hab : a < b
        · simp [hab]
        · by_cases hba : b < a
          · simp [hab, hba] at h
          · simp only [hab, hba, if_false] at h ⊢
            exact lll_strLe as bs cs h h2

/-- `x ≤ y ≪ z → x ≪ z` for `|x| = |y|` -/
theorem strLe_lll : ∀ (x y z : Str), strLe x y = true → x.length = y.length → lll y z = true → lll x z = true
  | _, [], _, _, _, h => by simp [lll] at h
  | _, _ :: _, [], _, _, h => by simp [lll] at h
  | [], _ :: _, _ :: _, _, hl, _ => by simp at hl
  | a :: as, b :: bs, c :: cs, h1, hl, h => by
    unfold lll at h ⊢
    unfold strLe at h1
    by_cases hab : a < b
    · by_cases hbc : b < c
      · have : a < c := by omega
        simp [this]
      · by_cases hcb : c < b
        · simp [hbc, hcb] at h
        · have : a < c := by omega
          simp [this]
    · by_cases hba : b < a
      · simp [hab, hba] at h1
      · have hab' : a = b := by omega
        subst hab'
        simp only [hab, if_false] at h1
        by_cases hac : a < c
        · simp [hac]
        · by_cases hca : c < a
          · simp [hac, hca] at h
          · simp only [hac, hca, if_false] at h ⊢
            exact strLe_lll as bs cs h1 (by simpa using hl) h

theorem lll_trans : ∀ (x y z : Str), lll x y = true → lll y z = true → lll x z = true
  | [], _, _, h, _ => by simp [lll] at h
  | _ :: _, [], _, h, _ => by simp [lll] at h
  | _ :: _, _ :: _, [], _, h2 => by simp [lll] at h2
  | a :: as, b :: bs, c :: cs, h, h2 => by
    unfold lll at h h2 ⊢
    by_cases hbc : b < c
    · by_cases hab : a < b
      · have : a < c := by omega
        simp [this]
      · by_cases hba : b < a
        · simp [hab, hba] at h
        · have : a < c := by omega
          simp [this]
    · by_cases hcb : c < b
      · simp [hbc, hcb] at h2
      · have hbc' : b = c := by omega
        subst hbc'
        simp only [hbc, if_false] at h2
        by_cases hab : a < b
        · simp [hab]
        · by_cases hba : b < a
          · simp [hab, hba] at h
          · simp only [hab, hba, if_false] at h ⊢
            exact lll_trans as bs cs h h2

/-! ## a sorted pair has no defect -/

theorem rangeOk_iff (e : Entry) : rangeOk e = true ↔
    e.low.length = e.length ∧ e.high.length = e.length ∧ 1 ≤ e.length ∧ strLe e.low e.high = true := by
  simp [rangeOk, and_assoc]

theorem pairBad_of_lll {a b : Entry} (ha : rangeOk a = true) (hb : rangeOk b = true)
    (h : lll a.high b.low = true) : pairBad a b = false := by
  obtain ⟨ha1, ha2, _, ha4⟩ := (rangeOk_iff a).mp ha
  obtain ⟨hb1, hb2, _, hb4⟩ := (rangeOk_iff b).mp hb
  -- a.high ≪ b.high, a.low ≪ b.low
  have hhh : lll a.high b.high = true := lll_strLe _ _ _ h hb4
  have hll : lll a.low b.low = true := strLe_lll _ _ _ ha4 (by omega) h
  unfold pairBad
  split
  · -- equal lengths: no dup, no clash
    rename_i hlen
    have h1 : strLe b.low a.high = false := lll_not_strLe _ _ h
    have hne : (a.low == b.low) = false := by
      rw [beq_eq_false_iff_ne]
      intro heq
      have := lll_not_strLe _ _ hll
      rw [heq] at this
      have hr : strLe b.low b.low = true := by
        have : ∀ (x : Str), strLe x x = true := by
          intro x; induction x with
          | nil => rfl
          | cons c cs ih => simp [strLe, ih]
        exact this _
      rw [hr] at this; cases this
    simp [dup, sameRange, clash, overlap, h1, hne]
  · -- different lengths: no shadowing in either direction
    have hs1 : shadows a b = false := by
      unfold shadows
      by_cases hl : a.length < b.length
      · have c1 : covers a b.low = false := by
          unfold covers
          have := lll_not_strLe _ _ (lll_take_right _ _ a.length h (by omega))
          simp [this]
        have c2 : covers a b.high = false := by
          unfold covers
          have := lll_not_strLe _ _ (lll_take_right _ _ a.length hhh (by omega))
          simp [this]
        simp [c1, c2]
      · simp [hl]
    have hs2 : shadows b a = false := by
      unfold shadows
      by_cases hl : b.length < a.length
      · have c1 : covers b a.low = false := by
          unfold covers
          have := lll_not_strLe _ _ (lll_take_left _ _ b.length hll (by omega))
          simp [this]
        have c2 : covers b a.high = false := by
          unfold covers
          have := lll_not_strLe _ _ (lll_take_left _ _ b.length h (by omega))
          simp [this]
        simp [c1, c2]
      · simp [hl]
    simp [hs1, hs2]

/-! ## soundness of the cheap pass -/

/-- `x ⪯ y` as a proposition -/
def Lle (x y : Str) : Prop := x = y ∨ lll x y = true

theorem lle_iff (x y : Str) : lle x y = true ↔ Lle x y := by
  simp [lle, Lle]

theorem Lle.trans {x y z : Str} (h1 : Lle x y) (h2 : Lle y z) : Lle x z := by
  rcases h1 with rfl | h1
  · exact h2
  · rcases h2 with rfl | h2
    · exact Or.inr h1
    · exact Or.inr (lll_trans _ _ _ h1 h2)

theorem lowsSorted_pairwise : ∀ (l : List Entry), lowsSorted l = true → l.Pairwise (fun a b => Lle a.low b.low)
  | [], _ => List.Pairwise.nil
  | [_], _ => List.pairwise_singleton _ _
  | a :: b :: l, h => by
    simp only [lowsSorted, Bool.and_eq_true] at h
    have ih := lowsSorted_pairwise (b :: l) h.2
    have hab := (lle_iff _ _).mp h.1
    rw [List.pairwise_cons]
    refine ⟨?_, ih⟩
    intro c hc
    rcases List.mem_cons.mp hc with rfl | hc
    · exact hab
    · exact hab.trans ((List.pairwise_cons.mp ih).1 c hc)

theorem head_pairs : ∀ (l : List Entry) (e : Entry), rangeOk e = true → (∀ b ∈ l, rangeOk b = true) →
    l.Pairwise (fun a b => Lle a.low b.low) → headOk e l = true → ∀ b ∈ l, pairBad e b = false
  | [], _, _, _, _, _, b, hb => by cases hb
  | n :: rest, e, he, hr, hp, hh, b, hb => by
    rw [List.pairwise_cons] at hp
    unfold headOk at hh
    rcases Bool.or_eq_true _ _ |>.mp hh with h1 | h1
    · rcases List.mem_cons.mp hb with rfl | hb
      · exact pairBad_of_lll he (hr _ List.mem_cons_self) h1
      · have hb' := hr b (List.mem_cons_of_mem _ hb)
        rcases hp.1 b hb with heq | hl
        · exact pairBad_of_lll he hb' (heq ▸ h1)
        · exact pairBad_of_lll he hb' (lll_trans _ _ _ h1 hl)
    · simp only [Bool.and_eq_true, Bool.not_eq_true'] at h1
      rcases List.mem_cons.mp hb with rfl | hb
      · exact h1.1
      · exact head_pairs rest e he (fun c hc => hr c (List.mem_cons_of_mem _ hc)) hp.2 h1.2 b hb

theorem scan_pairwise : ∀ (l : List Entry), (∀ b ∈ l, rangeOk b = true) →
    l.Pairwise (fun a b => Lle a.low b.low) → scanOk l = true → l.Pairwise (fun a b => pairBad a b = false)
  | [], _, _, _ => List.Pairwise.nil
  | e :: es, hr, hp, hs => by
    simp only [scanOk, Bool.and_eq_true] at hs
    rw [List.pairwise_cons] at hp ⊢
    exact ⟨head_pairs es e (hr e List.mem_cons_self) (fun b hb => hr b (List.mem_cons_of_mem _ hb)) hp.2 hs.1,
      scan_pairwise es (fun b hb => hr b (List.mem_cons_of_mem _ hb)) hp.2 hs.2⟩

theorem sortedOk_pairwise (l : List Entry) (h : sortedOk l = true) : l.Pairwise (fun a b => pairBad a b = false) := by
  simp only [sortedOk, Bool.and_eq_true] at h
  exact scan_pairwise l (fun b hb => List.all_eq_true.mp h.1.1 b hb) (lowsSorted_pairwise l h.1.2) h.2

theorem pairViol_of_not_bad {path : List Str} {a b : Entry} (h : pairBad a b = false) : pairViol path a b = [] := by
  simp [pairViol, h]

theorem levelViol_of_pairwise (path : List Str) : ∀ (l : List Entry),
    l.Pairwise (fun a b => pairBad a b = false) → levelViol path l = []
  | [], _ => rfl
  | e :: es, h => by
    rw [List.pairwise_cons] at h
    unfold levelViol
    rw [levelViol_of_pairwise path es h.2, List.append_nil, List.flatMap_eq_nil_iff]
    intro b hb
    exact pairViol_of_not_bad (h.1 b hb)

/-- **soundness of the cheap pass**: a sibling list that passes `sortedOk` has no pair defect -/
theorem sortedOk_sound (path : List Str) (l : List Entry) (h : sortedOk l = true) : levelViol path l = [] :=
  levelViol_of_pairwise path l (sortedOk_pairwise l h)

/-! ### pair defects do not depend on the order: the sorted copy may be checked instead -/

theorem conflict_iff (p q : Dict) : conflict p q = true ↔ ∃ kv ∈ p, ∃ kw ∈ q, kv.1 = kw.1 ∧ kv.2 ≠ kw.2 := by
  simp [conflict, List.any_eq_true]

theorem conflict_comm (p q : Dict) : conflict p q = conflict q p := by
  rw [Bool.eq_iff_iff, conflict_iff, conflict_iff]
  constructor
  · rintro ⟨kv, hkv, kw, hkw, h1, h2⟩; exact ⟨kw, hkw, kv, hkv, h1.symm, fun h => h2 h.symm⟩
  · rintro ⟨kv, hkv, kw, hkw, h1, h2⟩; exact ⟨kw, hkw, kv, hkv, h1.symm, fun h => h2 h.symm⟩

theorem sameRange_comm (a b : Entry) : sameRange a b = sameRange b a := by
  unfold sameRange
  rw [Bool.eq_iff_iff]
  simp only [Bool.and_eq_true, beq_iff_eq]
  constructor <;> rintro ⟨⟨h1, h2⟩, h3⟩ <;> exact ⟨⟨h1.symm, h2.symm⟩, h3.symm⟩

theorem overlap_comm' (a b : Entry) : overlap a b = overlap b a := by
  unfold overlap
  rw [Bool.eq_iff_iff]
  simp only [Bool.and_eq_true, beq_iff_eq]
  constructor <;> rintro ⟨⟨h1, h2⟩, h3⟩ <;> exact ⟨⟨h1.symm, h3⟩, h2⟩

theorem pairBad_comm (a b : Entry) : pairBad a b = pairBad b a := by
  unfold pairBad dup clash
  rw [sameRange_comm a b, conflict_comm a.props b.props, overlap_comm' a b]
  by_cases h : a.length = b.length
  · have h1 : (a.length == b.length) = true := by simpa using h
    have h2 : (b.length == a.length) = true := by simpa using h.symm
    simp only [h1, h2, if_true]
    cases sameRange b a && conflict b.props a.props <;> cases a.children.isEmpty <;> cases b.children.isEmpty <;> simp
  · have h1 : (a.length == b.length) = false := by simpa using h
    have h2 : (b.length == a.length) = false := by simpa using (fun h' => h h'.symm)
    simp only [h1, h2, Bool.false_eq_true, if_false, Bool.or_comm]

theorem halve_perm : ∀ (l : List Entry), l.Perm ((halve l).1 ++ (halve l).2)
  | [] => List.Perm.refl _
  | [a] => List.Perm.refl _
  | a :: b :: l => by
    have ih := halve_perm l
    simp only [halve, List.cons_append]
    refine List.Perm.cons a ?_
    exact (List.Perm.cons b ih).trans (List.perm_middle.symm)

theorem mergeF_perm : ∀ (f : Nat) (xs ys : List Entry), (mergeF f xs ys).Perm (xs ++ ys)
  | 0, xs, ys => List.Perm.refl _
  | _ + 1, [], ys => by simp [mergeF]
  | _ + 1, x :: xs, [] => by simp [mergeF]
  | f + 1, x :: xs, y :: ys => by
    unfold mergeF
    split
    · exact List.Perm.cons x (mergeF_perm f xs (y :: ys))
    · exact (List.Perm.cons y (mergeF_perm f (x :: xs) ys)).trans (List.perm_middle.symm)

theorem msortF_perm : ∀ (f : Nat) (l : List Entry), (msortF f l).Perm l
  | 0, l => List.Perm.refl _
  | f + 1, [] => by simp [msortF]
  | f + 1, [a] => by simp [msortF]
  | f + 1, a :: b :: l => by
    unfold msortF
    exact (mergeF_perm _ _ _).trans
      ((List.Perm.append (msortF_perm f _) (msortF_perm f _)).trans (halve_perm (a :: b :: l)).symm)

theorem msort_perm (l : List Entry) : (msort l).Perm l := msortF_perm _ l

theorem sorted_copy_sound (path : List Str) (l : List Entry) (h : sortedOk (msort l) = true) : levelViol path l = [] := by
  apply levelViol_of_pairwise
  have hp := sortedOk_pairwise _ h
  exact ((msort_perm l).pairwise_iff (fun {x y} hxy => by rw [pairBad_comm]; exact hxy)).mp hp

theorem levelCheck_eq (path : List Str) (l : List Entry) : levelCheck path l = levelViol path l := by
  unfold levelCheck
  split
  · rename_i h; exact (sortedOk_sound path l h).symm
  · split
    · rename_i h; exact (sorted_copy_sound path l h).symm
    · rfl

mutual
theorem belowFastE_eq : ∀ (path : List Str) (e : Entry), belowFastE path e = belowE path e
  | path, ⟨len, lo, hi, props, ch⟩ => by
    unfold belowFastE belowE
    rw [levelCheck_eq, belowFastL_eq (path ++ [lo]) ch]
theorem belowFastL_eq : ∀ (path : List Str) (l : List Entry), belowFastL path l = belowL path l
  | _, [] => by unfold belowFastL belowL; rfl
  | path, e :: es => by
    unfold belowFastL belowL
    rw [belowFastE_eq path e, belowFastL_eq path es]
end

/-! ## the piecewise line check -/

theorem eat_iff : ∀ (p s r : Str), eat p s = some r ↔ s = p ++ r
  | [], s, r => by simp [eat]
  | _ :: _, [], r => by simp [eat]
  | a :: p, b :: s, r => by
    unfold eat
    by_cases h : a = b
    · subst h
      simp [eat_iff p s r]
    · simp only [h, if_false, List.cons_append, List.cons.injEq]
      constructor
      · intro h'; cases h'
      · intro h'; exact absurd h'.1.symm h

theorem eatAll_iff : ∀ (ps : List Str) (s r : Str), eatAll ps s = some r ↔ s = ps.flatten ++ r
  | [], s, r => by simp [eatAll]
  | p :: ps, s, r => by
    unfold eatAll
    cases h : eat p s with
    | none =>
      simp only [List.flatten_cons, List.append_assoc]
      constructor
      · intro h'; cases h'
      · intro h'
        have := (eat_iff p s (ps.flatten ++ r)).mpr h'
        rw [h] at this; cases this
    | some rest =>
      have hs := (eat_iff p s rest).mp h
      simp only [eatAll_iff ps rest r, List.flatten_cons, List.append_assoc]
      rw [hs]
      simp

theorem rangePieces_flatten (r : Str × Option Str) : (rangePieces r).flatten = renderRange r := by
  unfold rangePieces renderRange
  cases r.2 <;> simp

theorem rangesPieces_flatten : ∀ (rs : List (Str × Option Str)), (rangesPieces rs).flatten = renderRanges rs
  | [] => rfl
  | [r] => by simp [rangesPieces, renderRanges, rangePieces_flatten]
  | r :: r' :: rs => by
    have ih := rangesPieces_flatten (r' :: rs)
    simp only [rangesPieces, renderRanges, List.flatten_append, List.flatten_cons, rangePieces_flatten] at ih ⊢
    rw [ih]
    simp

theorem propPieces_flatten (kv : Str × Str) : (propPieces kv).flatten = renderProp kv := by
  simp [propPieces, renderProp]

theorem flatMap_propPieces_flatten : ∀ (d : Dict), (d.flatMap propPieces).flatten = d.flatMap renderProp
  | [] => rfl
  | kv :: d => by
    simp only [List.flatMap_cons, List.flatten_append, propPieces_flatten, flatMap_propPieces_flatten d]

theorem rowPieces_flatten (r : LRow) : (rowPieces r).flatten = renderRow r := by
  unfold rowPieces renderRow
  simp only [List.flatten_cons, List.flatten_append, rangesPieces_flatten, flatMap_propPieces_flatten,
    List.append_assoc]

theorem lineOkFast_eq (r : LRow) : lineOkFast r = lineOk r := by
  unfold lineOkFast lineOk
  congr 1
  rw [Bool.eq_iff_iff]
  simp only [beq_iff_eq]
  constructor
  · intro h
    split at h
    · rename_i heq
      have := (eatAll_iff _ _ _).mp heq
      rw [rowPieces_flatten, List.append_nil] at this
      exact this.symm
    · cases h
  · intro h
    have : eatAll (rowPieces r) r.raw = some [] := by
      rw [eatAll_iff, rowPieces_flatten, List.append_nil]; exact h.symm
    rw [this]

theorem lineViolationsFast_eq (rows : List LRow) : lineViolationsFast rows = lineViolations rows := by
  unfold lineViolationsFast lineViolations
  congr 2
  funext r
  rw [lineOkFast_eq]

theorem lineViolations_of_fast {rows : List LRow} {v : List Str} (h : lineViolationsFast rows = v) :
    lineViolations rows = v := (lineViolationsFast_eq rows).symm.trans h

/-! ## structural equality -/

mutual
theorem entryBeq_eq : ∀ (a b : Entry), entryBeq a b = true → a = b
  | ⟨l1, lo1, hi1, p1, c1⟩, ⟨l2, lo2, hi2, p2, c2⟩, h => by
    unfold entryBeq at h
    simp only [Bool.and_eq_true, beq_iff_eq] at h
    obtain ⟨⟨⟨⟨h1, h2⟩, h3⟩, h4⟩, h5⟩ := h
    rw [h1, h2, h3, h4, treeBeq_eq c1 c2 h5]
theorem treeBeq_eq : ∀ (a b : List Entry), treeBeq a b = true → a = b
  | [], [], _ => rfl
  | a :: as, b :: bs, h => by
    unfold treeBeq at h
    simp only [Bool.and_eq_true] at h
    rw [entryBeq_eq a b h.1, treeBeq_eq as bs h.2]
  | [], _ :: _, h => by simp [treeBeq] at h
  | _ :: _, [], h => by simp [treeBeq] at h
end

theorem readText_of_readsTo {text : Str} {t : List Entry} (h : readsTo text t = true) : readText text = .ok t := by
  unfold readsTo at h
  split at h
  · rename_i t' ht; rw [ht, treeBeq_eq _ _ h]
  · cases h

theorem dbOfText_of_read {text : Str} {t : List Entry} (h : readText text = .ok t) : dbOfText text = t := by
  unfold dbOfText; rw [h]

/-! ## chunks -/

theorem belowL_cons (path : List Str) (e : Entry) (es : List Entry) :
    belowL path (e :: es) = belowE path e ++ belowL path es := by rw [belowL]

theorem belowL_append (path : List Str) : ∀ (a b : List Entry), belowL path (a ++ b) = belowL path a ++ belowL path b
  | [], b => by simp [belowL]
  | e :: es, b => by
    rw [List.cons_append, belowL_cons, belowL_cons, belowL_append path es b, List.append_assoc]

/-- every chunk `(tree, defects)` of the list has exactly the stated defects below its top level -/
def ChunksBelow (path : List Str) : List (List Entry × List Viol) → Prop
  | [] => True
  | p :: ps => belowL path p.1 = p.2 ∧ ChunksBelow path ps

/-- the defects below the top level, chunk by chunk -/
theorem belowL_chunks (path : List Str) : ∀ (ps : List (List Entry × List Viol)), ChunksBelow path ps →
    belowL path (ps.map (·.1)).flatten = (ps.map (·.2)).flatten
  | [], _ => by simp [belowL]
  | p :: ps, h => by
    rw [List.map_cons, List.map_cons, List.flatten_cons, List.flatten_cons, belowL_append, h.1,
      belowL_chunks path ps h.2]

/-- chunk theorem from the fast evaluation -/
theorem belowL_of_fast {path : List Str} {l : List Entry} {v : List Viol} (h : belowFastL path l = v) :
    belowL path l = v := (belowFastL_eq path l).symm.trans h

theorem levelViol_of_check {path : List Str} {l : List Entry} {v : List Viol} (h : levelCheck path l = v) :
    levelViol path l = v := (levelCheck_eq path l).symm.trans h

end Props.C11
