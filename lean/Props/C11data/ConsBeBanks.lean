import Props.C11data.ConsSmall
import Props.C11data.be_banks_link
import Gen.be_iban
/-!
# Props.C11data.ConsBeBanks — consumer witnesses for `be/banks.dat` (hand-written; see `ConsSmall.lean`)
-/
set_option maxRecDepth 100000
namespace Props.C11
open Spec.NumDB
open Py (Str)

/-! ## be/banks.dat → `be.iban.info` (bank of digits 5–7 of the IBAN) -/

/-- `BE00 ccc 000000000` with `ccc` the lower end of the range (one witness per entry: `iban.compact` on a
16-character string costs the kernel 0.15 s) -/
def beBanksWitnesses (e : Entry) : List Str := [cp% "BE00" ++ e.low ++ cp% "000000000"]

theorem be_banks_info_a : ∀ e ∈ Data.be_banks.tree.take 64, ∀ w ∈ beBanksWitnesses e, okProps (Gen.be_iban.info w) e.props = true := by
  intro e he w hw
  unfold Gen.be_iban.info
  rw [Data.be_banks.db_eq]
  revert e he w hw
  decide +kernel

theorem be_banks_info_b : ∀ e ∈ (Data.be_banks.tree.drop 64).take 64, ∀ w ∈ beBanksWitnesses e, okProps (Gen.be_iban.info w) e.props = true := by
  intro e he w hw
  unfold Gen.be_iban.info
  rw [Data.be_banks.db_eq]
  revert e he w hw
  decide +kernel

theorem be_banks_info_c : ∀ e ∈ (Data.be_banks.tree.drop 64).drop 64, ∀ w ∈ beBanksWitnesses e, okProps (Gen.be_iban.info w) e.props = true := by
  intro e he w hw
  unfold Gen.be_iban.info
  rw [Data.be_banks.db_eq]
  revert e he w hw
  decide +kernel

theorem be_banks_info : ∀ e ∈ Data.be_banks.tree, ∀ w ∈ beBanksWitnesses e, okProps (Gen.be_iban.info w) e.props = true := by
  intro e he
  rw [← List.take_append_drop 64 Data.be_banks.tree, List.mem_append] at he
  rcases he with he | he
  · exact be_banks_info_a e he
  · rw [← List.take_append_drop 64 (Data.be_banks.tree.drop 64), List.mem_append] at he
    rcases he with he | he
    · exact be_banks_info_b e he
    · exact be_banks_info_c e he

end Props.C11
