import Props.C10
import Lemmas.Str
import Props.C11data.Lift
/-!
# Props.C11data.Reach — the general theorems of C11 (hand-written; re-exported by `Props/C11.lean`)

For **all** registry trees (`List Spec.NumDB.Entry`), by induction along a path with the C10 theorems
(`find_matched` = `find_unfold` + `findLoop_spec`, `find_nil`, `unmatched_tail`):

* `reachable_of_chainGood` (T1): a path every level of which is *good* (`LevelGood`: proper range, no shorter
  candidate matching the entry's `low`, no other children in play) is hit by the lookup of its `low` values;
* `reachable_of_WF` (T2): in a tree without structural defects (`WF`) every path is good, hence every entry
  at every depth is returned by `_find`;
* `reachable_except` (T3): with defects, every path that no listed shadowing concerns is still hit
  (duplicates do not matter);
* `split_of_chainGood`: `split` of `low₀ … lowₖ rest` is `[low₀, …, lowₖ, rest]` when the last level has only leaves.
-/
namespace Props.C11
open Spec.NumDB Props.C10
open Py (Str)

/-! ## what a clean sibling list gives -/

theorem strLe_refl' : ∀ (x : Str), strLe x x = true
  | [] => rfl
  | c :: cs => by simp [strLe, strLe_refl' cs]

theorem strLe_trans' {x y z : Str} (h1 : strLe x y = true) (h2 : strLe y z = true) : strLe x z = true := by
  rw [strLe_eq_pyrt] at *
  exact Py.strLe_trans h1 h2

theorem pairViol_nil_iff (path : List Str) (a b : Entry) : pairViol path a b = [] ↔ pairBad a b = false := by
  constructor
  · intro h
    cases hb : pairBad a b with
    | false => rfl
    | true =>
      exfalso
      unfold pairViol at h
      rw [if_pos hb] at h
      unfold pairBad at hb
      simp only [List.append_eq_nil_iff] at h
      obtain ⟨⟨⟨h1, h2⟩, h3⟩, h4⟩ := h
      split at hb
      · rcases Bool.or_eq_true _ _ |>.mp hb with hd | hc
        · simp [hd] at h1
        · simp [hc] at h4
      · rcases Bool.or_eq_true _ _ |>.mp hb with hd | hc
        · simp [hd] at h2
        · simp [hc] at h3
  · intro h; simp [pairViol, h]

theorem levelViol_nil_iff (path : List Str) : ∀ (l : List Entry),
    levelViol path l = [] ↔ l.Pairwise (fun a b => pairBad a b = false)
  | [] => by simp [levelViol]
  | e :: es => by
    unfold levelViol
    rw [List.append_eq_nil_iff, List.flatMap_eq_nil_iff, levelViol_nil_iff path es, List.pairwise_cons]
    constructor
    · rintro ⟨h1, h2⟩
      exact ⟨fun b hb => (pairViol_nil_iff path e b).mp (h1 b hb), h2⟩
    · rintro ⟨h1, h2⟩
      exact ⟨fun b hb => (pairViol_nil_iff path e b).mpr (h1 b hb), h2⟩

theorem shadows_length {s e : Entry} (h : shadows s e = true) : s.length < e.length := by
  simp only [shadows, Bool.and_eq_true, decide_eq_true_eq] at h; exact h.1

theorem overlap_comm (a b : Entry) : overlap a b = overlap b a := by
  unfold overlap
  rw [Bool.eq_iff_iff]
  simp only [Bool.and_eq_true, beq_iff_eq]
  constructor <;> rintro ⟨⟨h1, h2⟩, h3⟩ <;> exact ⟨⟨h1.symm, h3⟩, h2⟩

/-- the content of `pairBad a b = false` used below: no shadowing either way, no clash -/
theorem pairBad_false {a b : Entry} (h : pairBad a b = false) :
    shadows a b = false ∧ shadows b a = false ∧ clash a b = false := by
  unfold pairBad at h
  split at h
  · rename_i hl
    have hl' : a.length = b.length := by simpa using hl
    simp only [Bool.or_eq_false_iff] at h
    refine ⟨?_, ?_, h.2⟩
    · cases hs : shadows a b with
      | false => rfl
      | true => have := shadows_length hs; omega
    · cases hs : shadows b a with
      | false => rfl
      | true => have := shadows_length hs; omega
  · rename_i hl
    have hl' : ¬ a.length = b.length := by simpa using hl
    simp only [Bool.or_eq_false_iff] at h
    refine ⟨h.1, h.2, ?_⟩
    simp [clash, overlap, hl']

theorem pair_of_mem {R : Entry → Entry → Prop} : ∀ {l : List Entry}, l.Pairwise R → ∀ {x y : Entry}, x ∈ l → y ∈ l →
    x = y ∨ R x y ∨ R y x
  | [], _, _, _, hx, _ => by cases hx
  | a :: l, h, x, y, hx, hy => by
    rw [List.pairwise_cons] at h
    rcases List.mem_cons.mp hx with hxa | hxl
    · rcases List.mem_cons.mp hy with hya | hyl
      · exact Or.inl (hxa.trans hya.symm)
      · exact Or.inr (Or.inl (hxa ▸ h.1 y hyl))
    · rcases List.mem_cons.mp hy with hya | hyl
      · exact Or.inr (Or.inr (hya ▸ h.1 x hxl))
      · exact pair_of_mem h.2 hxl hyl

/-! ## one level of the lookup -/

/-- what the lookup needs at the level of `e` among the candidates `cands`: a proper range, no shorter candidate
that matches `e.low`, and (when the lookup has to go on below `e`) the candidates of the same length that
also match `e.low` contribute no children besides those of `e` -/
structure LevelGood (cands : List Entry) (e : Entry) (last : Bool) : Prop where
  mem : e ∈ cands
  range : rangeOk e = true
  noShadow : ∀ s ∈ cands, s.length < e.length → covers s e.low = false
  alone : last = false →
    (cands.filter (fun s => (s.length == e.length) && covers s e.low)).flatMap Entry.children = e.children

/-- a path `e₀ ∈ db`, `e₁ ∈ e₀.children`, … every level of which is good -/
def ChainGood : List Entry → List Entry → Prop
  | _, [] => False
  | cands, [e] => LevelGood cands e true
  | cands, e :: e' :: rest => LevelGood cands e false ∧ ChainGood e.children (e' :: rest)

/-- a path in the tree: `e₀ ∈ db`, `e₁ ∈ e₀.children`, … (non-empty) -/
def Chain : List Entry → List Entry → Prop
  | _, [] => False
  | cands, [e] => e ∈ cands
  | cands, e :: e' :: rest => e ∈ cands ∧ Chain e.children (e' :: rest)

/-- the witness number of a path: the `low` values of its entries, concatenated -/
def lows (path : List Entry) : Str := (path.map (·.low)).flatten

/-- the lookup result hits the path: level by level the part is the `low` of the path entry and the properties
are the merge (file order, later keys override) of a selection of ranges of the same length matching that `low`,
**which contains the path entry** -/
inductive Hits : List Entry → List (Str × Dict) → Prop
  | nil : Hits [] []
  | cons (e : Entry) (sel : List Entry) (rest : List Entry) (r : List (Str × Dict)) :
      e ∈ sel → (∀ s ∈ sel, s.length = e.length ∧ covers s e.low = true) → Hits rest r →
      Hits (e :: rest) ((e.low, mergeProps sel) :: r)

theorem take_low_append (e : Entry) (tail : Str) (h : e.low.length = e.length) :
    (e.low ++ tail).take e.length = e.low := by
  rw [← h, List.take_left']
  rfl

theorem take_short (e : Entry) (tail : Str) (k : Nat) (hk : k ≤ e.low.length) :
    (e.low ++ tail).take k = e.low.take k := by
  rw [List.take_append_of_le_length hk]

/-- the step of `_find` at a good level -/
theorem find_step (cands : List Entry) (e : Entry) (last : Bool) (tail : Str) (hg : LevelGood cands e last) :
    let sel := selected (e.low ++ tail) cands e.length
    find cands (e.low ++ tail) = (e.low, mergeProps sel) :: find (sel.flatMap Entry.children) tail ∧
    e ∈ sel ∧ (∀ s ∈ sel, s.length = e.length ∧ covers s e.low = true) ∧
    (last = false → sel.flatMap Entry.children = e.children) ∧ (∀ s ∈ sel, s ∈ cands) := by
  obtain ⟨hl, hh, hpos, hle⟩ := (rangeOk_iff e).mp hg.range
  have hne : e.low ++ tail ≠ [] := by
    intro h
    have : (e.low ++ tail).length = 0 := by rw [h]; rfl
    rw [List.length_append] at this; omega
  have hme : matchesNumber (e.low ++ tail) e = true := by
    unfold matchesNumber
    rw [take_low_append e tail hl]
    simp [strLe_refl', hle, List.length_append]; omega
  have hmin : ∀ s ∈ cands.filter (matchesNumber (e.low ++ tail)), e.length ≤ s.length := by
    intro s hs
    obtain ⟨hs1, hs2⟩ := List.mem_filter.mp hs
    by_cases hlt : s.length < e.length
    · exfalso
      have := hg.noShadow s hs1 hlt
      unfold matchesNumber at hs2
      rw [take_short e tail s.length (by omega)] at hs2
      simp only [Bool.and_eq_true] at hs2
      unfold covers at this
      rw [hs2.1.2, hs2.2] at this
      cases this
    · omega
  have hfm := find_matched cands (e.low ++ tail) hne e.length
    ⟨e, List.mem_filter.mpr ⟨hg.mem, hme⟩, rfl⟩ hmin
  rw [take_low_append e tail hl] at hfm
  have hdrop : (e.low ++ tail).drop e.length = tail := by
    rw [← hl, List.drop_left']
    rfl
  rw [hdrop] at hfm
  have hsel : ∀ s, s ∈ selected (e.low ++ tail) cands e.length ↔
      s ∈ cands ∧ ((s.length == e.length) && covers s e.low) = true := by
    intro s
    unfold selected
    simp only [List.mem_filter, Bool.and_eq_true, beq_iff_eq]
    constructor
    · rintro ⟨⟨h1, h2⟩, h3⟩
      refine ⟨h1, h3, ?_⟩
      unfold matchesNumber at h2
      rw [h3, take_low_append e tail hl] at h2
      simp only [Bool.and_eq_true] at h2
      unfold covers
      rw [h3, ← hl, List.take_length]
      simp [h2.1.2, h2.2]
    · rintro ⟨h1, h3, h4⟩
      refine ⟨⟨h1, ?_⟩, h3⟩
      unfold matchesNumber
      rw [h3, take_low_append e tail hl]
      unfold covers at h4
      rw [h3, ← hl, List.take_length] at h4
      simp only [Bool.and_eq_true] at h4
      simp [h4.1, h4.2, List.length_append]; omega
  have hfilter : selected (e.low ++ tail) cands e.length =
      cands.filter (fun s => (s.length == e.length) && covers s e.low) := by
    unfold selected
    rw [List.filter_filter]
    apply List.filter_congr
    intro s hs
    have := hsel s
    unfold selected at this
    simp only [List.mem_filter, hs, true_and] at this
    rw [Bool.eq_iff_iff]
    simp only [Bool.and_eq_true] at this ⊢
    constructor
    · rintro ⟨h1, h2⟩; exact this.mp ⟨h2, h1⟩
    · intro h; have := this.mpr h; exact ⟨this.2, this.1⟩
  refine ⟨hfm, ?_, ?_, ?_, fun s hs => ((hsel s).mp hs).1⟩
  · rw [hsel]
    refine ⟨hg.mem, ?_⟩
    unfold covers
    rw [← hl, List.take_length]
    simp [strLe_refl', hle]
  · intro s hs
    have := (hsel s).mp hs
    simp only [Bool.and_eq_true, beq_iff_eq] at this
    exact this.2
  · intro hlast
    rw [hfilter]
    exact hg.alone hlast

/-- **T1 — a good path is hit**: looking up the concatenated `low` values of a path all of whose levels are
good returns exactly one part per path entry, the part is the entry's `low`, and the entry is among the ranges
whose properties are merged for that part. -/
theorem reachable_of_chainGood : ∀ (path : List Entry) (cands : List Entry), ChainGood cands path →
    Hits path (find cands (lows path))
  | [], _, h => by cases h
  | [e], cands, h => by
    have hs := find_step cands e true [] h
    simp only [List.append_nil] at hs
    obtain ⟨h1, h2, h3, _, _⟩ := hs
    have : lows [e] = e.low := by simp [lows]
    rw [this, h1, find_nil]
    exact Hits.cons e _ [] [] h2 h3 Hits.nil
  | e :: e' :: rest, cands, h => by
    obtain ⟨hg, hrest⟩ := h
    have hs := find_step cands e false (lows (e' :: rest)) hg
    obtain ⟨h1, h2, h3, h4, _⟩ := hs
    have : lows (e :: e' :: rest) = e.low ++ lows (e' :: rest) := by simp [lows]
    rw [this, h1, h4 rfl]
    exact Hits.cons e _ (e' :: rest) _ h2 h3 (reachable_of_chainGood (e' :: rest) e.children hrest)

theorem flatMap_children_nil : ∀ (l : List Entry), (∀ s ∈ l, s.children = []) → l.flatMap Entry.children = []
  | [], _ => rfl
  | a :: l, h => by
    rw [List.flatMap_cons, h a List.mem_cons_self, flatMap_children_nil l (fun s hs => h s (List.mem_cons_of_mem _ hs))]
    rfl

/-! ## numbers that go on after the path: `split` -/

/-- every candidate at the last level of the path is a leaf -/
def LeavesAtLast : List Entry → List Entry → Prop
  | _, [] => True
  | cands, [_] => ∀ s ∈ cands, s.children = []
  | _, e :: e' :: rest => LeavesAtLast e.children (e' :: rest)

/-- **split along a good path**: if the last level of the path consists of leaves, the number made of the `low`
values of the path followed by any non-empty rest is split into exactly these `low` values and the rest. -/
theorem split_of_chainGood : ∀ (path : List Entry) (cands : List Entry), ChainGood cands path →
    LeavesAtLast cands path → ∀ (tail : Str), tail ≠ [] →
    split cands (lows path ++ tail) = path.map (·.low) ++ [tail]
  | [], _, h, _, _, _ => by cases h
  | [e], cands, h, hl, tail, ht => by
    obtain ⟨h1, _, _, _, h5⟩ := find_step cands e true tail h
    have hnext : (selected (e.low ++ tail) cands e.length).flatMap Entry.children = [] :=
      flatMap_children_nil _ (fun s hs => hl s (h5 s hs))
    have : lows [e] = e.low := by simp [lows]
    unfold split info
    rw [this, h1, hnext, unmatched_tail [] tail ht (fun _ he => by cases he)]
    rfl
  | e :: e' :: rest, cands, h, hl, tail, ht => by
    obtain ⟨hg, hrest⟩ := h
    obtain ⟨h1, _, _, h4, _⟩ := find_step cands e false (lows (e' :: rest) ++ tail) hg
    have hlows : lows (e :: e' :: rest) ++ tail = e.low ++ (lows (e' :: rest) ++ tail) := by simp [lows]
    have ih := split_of_chainGood (e' :: rest) e.children hrest hl tail ht
    unfold split info at ih ⊢
    rw [hlows, h1, h4 rfl, List.map_cons, ih]
    rfl

/-! ## a well-formed tree has only good paths -/

/-- in a sibling list without clashes the ranges that overlap a range with children have none -/
theorem alone_of_pairwise : ∀ (l : List Entry) (e : Entry), l.Pairwise (fun a b => clash a b = false) → e ∈ l →
    e.children ≠ [] → (∀ s ∈ l, overlap s e = true) → l.flatMap Entry.children = e.children
  | [], _, _, he, _, _ => by cases he
  | a :: l, e, hp, he, hk, hov => by
    rw [List.pairwise_cons] at hp
    have hnoKids : ∀ (x y : Entry), clash x y = false → overlap x y = true → x.children ≠ [] → y.children = [] := by
      intro x y hc ho hx
      unfold clash at hc
      rw [ho] at hc
      cases hy : y.children with
      | nil => rfl
      | cons c cs =>
        have : x.children.isEmpty = false := by
          cases hx' : x.children with
          | nil => exact absurd hx' hx
          | cons _ _ => rfl
        simp [this, hy] at hc
    rcases List.mem_cons.mp he with rfl | he'
    · -- `e` is the head: everything after it has no children
      have : l.flatMap Entry.children = [] := by
        apply flatMap_children_nil
        intro s hs
        have ho : overlap e s = true := by rw [overlap_comm]; exact hov s (List.mem_cons_of_mem _ hs)
        exact hnoKids e s (hp.1 s hs) ho hk
      rw [List.flatMap_cons, this, List.append_nil]
    · -- the head overlaps `e`, which has children: the head has none
      have ha : a.children = [] := by
        cases hac : a.children with
        | nil => rfl
        | cons c cs =>
          have := hnoKids a e (hp.1 e he') (hov a List.mem_cons_self) (by rw [hac]; simp)
          exact absurd this hk
      rw [List.flatMap_cons, ha, List.nil_append]
      exact alone_of_pairwise l e hp.2 he' hk (fun s hs => hov s (List.mem_cons_of_mem _ hs))

/-- a level is good if the entry is a proper range, no candidate shadows it and no two candidates clash -/
theorem levelGood_of (cands : List Entry) (e : Entry) (last : Bool) (he : e ∈ cands) (hr : rangeOk e = true)
    (hns : ∀ s ∈ cands, shadows s e = false) (hpc : cands.Pairwise (fun a b => clash a b = false))
    (hk : last = false → e.children ≠ []) : LevelGood cands e last := by
  obtain ⟨hel, heh, _, hle⟩ := (rangeOk_iff e).mp hr
  refine ⟨he, hr, ?_, ?_⟩
  · intro s hs hlt
    cases hc : covers s e.low with
    | false => rfl
    | true =>
      have hsh : shadows s e = true := by simp [shadows, hlt, hc]
      rw [hns s hs] at hsh; cases hsh
  · intro hlast
    have hk' := hk hlast
    let sel := cands.filter (fun s => (s.length == e.length) && covers s e.low)
    have hpsel : sel.Pairwise (fun a b => clash a b = false) := hpc.filter _
    have hesel : e ∈ sel := by
      refine List.mem_filter.mpr ⟨he, ?_⟩
      unfold covers
      rw [← hel, List.take_length]
      simp [strLe_refl', hle]
    apply alone_of_pairwise sel e hpsel hesel hk'
    intro s hs
    obtain ⟨hs1, hs2⟩ := List.mem_filter.mp hs
    simp only [Bool.and_eq_true, beq_iff_eq] at hs2
    obtain ⟨hsl, hsc⟩ := hs2
    unfold covers at hsc
    rw [hsl, ← hel, List.take_length] at hsc
    simp only [Bool.and_eq_true] at hsc
    unfold overlap
    simp only [Bool.and_eq_true, beq_iff_eq]
    exact ⟨⟨hsl, strLe_trans' hsc.1 hle⟩, hsc.2⟩

theorem levelGood_of_clean (path : List Str) (cands : List Entry) (e : Entry) (last : Bool)
    (hl : levelViol path cands = []) (hr : ∀ s ∈ cands, rangeOk s = true) (he : e ∈ cands)
    (hk : last = false → e.children ≠ []) : LevelGood cands e last := by
  have hp := (levelViol_nil_iff path cands).mp hl
  refine levelGood_of cands e last he (hr e he) ?_ (hp.imp (fun h => (pairBad_false h).2.2)) hk
  intro s hs
  cases hsh : shadows s e with
  | false => rfl
  | true =>
    exfalso
    rcases pair_of_mem hp hs he with heq | h | h
    · have := shadows_length hsh; rw [heq] at this; omega
    · rw [(pairBad_false h).1] at hsh; cases hsh
    · rw [(pairBad_false h).2.1] at hsh; cases hsh

theorem belowL_nil_iff (path : List Str) : ∀ (l : List Entry), belowL path l = [] ↔ ∀ e ∈ l, belowE path e = []
  | [] => by simp [belowL]
  | a :: l => by
    rw [belowL_cons, List.append_eq_nil_iff, belowL_nil_iff path l]
    simp

theorem belowE_nil (path : List Str) (e : Entry) (h : belowE path e = []) :
    rangeOk e = true ∧ levelViol (path ++ [e.low]) e.children = [] ∧ belowL (path ++ [e.low]) e.children = [] := by
  obtain ⟨len, lo, hi, props, ch⟩ := e
  unfold belowE at h
  simp only [List.append_eq_nil_iff] at h
  obtain ⟨⟨h1, h2⟩, h3⟩ := h
  refine ⟨?_, h2, h3⟩
  unfold entryViol at h1
  simp only [List.append_eq_nil_iff] at h1
  cases hr : rangeOk ⟨len, lo, hi, props, ch⟩ with
  | true => rfl
  | false => rw [hr] at h1; simp at h1

theorem chainGood_of_clean : ∀ (path : List Entry) (pth : List Str) (cands : List Entry),
    levelViol pth cands = [] → belowL pth cands = [] → Chain cands path → ChainGood cands path
  | [], _, _, _, _, h => by cases h
  | [e], pth, cands, hl, hb, h => by
    have hbe := (belowL_nil_iff pth cands).mp hb
    exact levelGood_of_clean pth cands e true hl (fun s hs => (belowE_nil pth s (hbe s hs)).1) h (by intro h; cases h)
  | e :: e' :: rest, pth, cands, hl, hb, h => by
    obtain ⟨he, hrest⟩ := h
    have hbe := (belowL_nil_iff pth cands).mp hb
    obtain ⟨_, h2, h3⟩ := belowE_nil pth e (hbe e he)
    have hk : e.children ≠ [] := by
      intro hnil
      have hmem : e' ∈ e.children := by
        cases rest with
        | nil => exact hrest
        | cons _ _ => exact hrest.1
      rw [hnil] at hmem; cases hmem
    exact ⟨levelGood_of_clean pth cands e false hl (fun s hs => (belowE_nil pth s (hbe s hs)).1) he (fun _ => hk),
      chainGood_of_clean (e' :: rest) (pth ++ [e.low]) e.children h2 h3 hrest⟩

/-- **T2 — reachable_of_WF**: in a well-formed registry tree every entry, at every depth, is returned by
`_find`: for the number made of the `low` values along the path to the entry the lookup yields one part per
level, each part is the `low` of the path entry of that level, and that entry is among the ranges whose
properties are merged for the part (`Hits`). -/
theorem reachable_of_WF (db : List Entry) (hwf : WF db) (path : List Entry) (hc : Chain db path) :
    Hits path (find db (lows path)) := by
  unfold WF violations at hwf
  rw [List.append_eq_nil_iff] at hwf
  exact reachable_of_chainGood path db (chainGood_of_clean path [] db hwf.1 hwf.2 hc)

/-! ## trees with listed defects: every entry that no listed defect concerns is still returned -/

theorem pairViol_shadow_left {pth : List Str} {a b : Entry} (h : shadows a b = true) :
    (⟨.shadow, pth, key2 a b⟩ : Viol) ∈ pairViol pth a b := by
  have hl := shadows_length h
  have hb : pairBad a b = true := by
    unfold pairBad
    have : (a.length == b.length) = false := by simp; omega
    simp [this, h]
  unfold pairViol
  rw [if_pos hb]
  simp [h]

theorem pairViol_shadow_right {pth : List Str} {a b : Entry} (h : shadows b a = true) :
    (⟨.shadow, pth, key2 b a⟩ : Viol) ∈ pairViol pth a b := by
  have hl := shadows_length h
  have hb : pairBad a b = true := by
    unfold pairBad
    have : (a.length == b.length) = false := by simp; omega
    simp [this, h]
  unfold pairViol
  rw [if_pos hb]
  simp [h]

theorem pairViol_clash {pth : List Str} {a b : Entry} (h : clash a b = true) :
    (⟨.clash, pth, key2 a b⟩ : Viol) ∈ pairViol pth a b := by
  have hb : pairBad a b = true := by
    unfold pairBad
    have : (a.length == b.length) = true := by
      simp only [clash, overlap, Bool.and_eq_true] at h
      exact h.2.1.1
    simp [this, h]
  unfold pairViol
  rw [if_pos hb]
  simp [h]

/-- a shadowing pair of siblings is listed -/
theorem shadow_mem_levelViol (pth : List Str) : ∀ (l : List Entry) (s e : Entry), s ∈ l → e ∈ l →
    shadows s e = true → (⟨.shadow, pth, key2 s e⟩ : Viol) ∈ levelViol pth l
  | [], _, _, hs, _, _ => by cases hs
  | a :: l, s, e, hs, he, h => by
    unfold levelViol
    rw [List.mem_append, List.mem_flatMap]
    rcases List.mem_cons.mp hs with hsa | hsl
    · rcases List.mem_cons.mp he with hea | hel
      · have := shadows_length h; rw [hsa, hea] at this; omega
      · left; exact ⟨e, hel, hsa ▸ pairViol_shadow_left h⟩
    · rcases List.mem_cons.mp he with hea | hel
      · left; exact ⟨s, hsl, hea ▸ pairViol_shadow_right h⟩
      · right; exact shadow_mem_levelViol pth l s e hsl hel h

/-- a sibling list none of whose listed defects is a clash has no clashing pair -/
theorem noClash_of_levelViol (pth : List Str) : ∀ (l : List Entry),
    (∀ v ∈ levelViol pth l, v.kind ≠ .clash) → l.Pairwise (fun a b => clash a b = false)
  | [], _ => List.Pairwise.nil
  | a :: l, h => by
    unfold levelViol at h
    rw [List.pairwise_cons]
    constructor
    · intro b hb
      cases hc : clash a b with
      | false => rfl
      | true =>
        exfalso
        exact h _ (List.mem_append_left _ (List.mem_flatMap.mpr ⟨b, hb, pairViol_clash hc⟩)) rfl
    · exact noClash_of_levelViol pth l (fun v hv => h v (List.mem_append_right _ hv))

theorem belowE_mem_belowL {pth : List Str} {l : List Entry} {e : Entry} (he : e ∈ l) {v : Viol}
    (hv : v ∈ belowE pth e) : v ∈ belowL pth l := by
  induction l with
  | nil => cases he
  | cons a l ih =>
    rw [belowL_cons, List.mem_append]
    rcases List.mem_cons.mp he with rfl | he'
    · exact Or.inl hv
    · exact Or.inr (ih he')

theorem belowE_parts (pth : List Str) (e : Entry) :
    belowE pth e = entryViol pth e ++ levelViol (pth ++ [e.low]) e.children ++ belowL (pth ++ [e.low]) e.children := by
  obtain ⟨len, lo, hi, props, ch⟩ := e
  rw [belowE]

/-- the listed defect `v` does not stand in the way of the path `path` that starts in the sibling list at `pre`:
it is a duplicate, or it says that an entry **not on the path** is shadowed -/
def Excused (pre : List Str) (path : List Entry) (v : Viol) : Prop :=
  v.kind = .dup ∨
  (v.kind = .shadow ∧ ∀ (i : Nat) (e : Entry), path[i]? = some e →
    ¬ (v.path = pre ++ (path.take i).map (·.low) ∧ v.what.drop 2 = [e.low, e.high]))

theorem excused_tail {pre : List Str} {e : Entry} {rest : List Entry} {v : Viol}
    (h : Excused pre (e :: rest) v) : Excused (pre ++ [e.low]) rest v := by
  rcases h with h | ⟨hk, h⟩
  · exact Or.inl h
  · refine Or.inr ⟨hk, ?_⟩
    intro i x hx hcon
    apply h (i + 1) x (by simpa using hx)
    obtain ⟨h1, h2⟩ := hcon
    refine ⟨?_, h2⟩
    rw [h1, List.take_succ_cons, List.map_cons, List.append_assoc]
    rfl

theorem chainGood_of_excused : ∀ (path : List Entry) (pre : List Str) (cands : List Entry),
    (∀ v ∈ levelViol pre cands ++ belowL pre cands, Excused pre path v) → Chain cands path → ChainGood cands path := by
  intro path
  induction path with
  | nil => intro _ _ _ h; cases h
  | cons e rest ih =>
    intro pre cands hex hc
    have he : e ∈ cands := by
      cases rest with
      | nil => exact hc
      | cons _ _ => exact hc.1
    -- no range defect anywhere in the list, no clash, `e` not shadowed
    have hrange : rangeOk e = true := by
      cases hr : rangeOk e with
      | true => rfl
      | false =>
        exfalso
        have hv : (⟨.range, pre, [e.low, e.high]⟩ : Viol) ∈ belowL pre cands := by
          apply belowE_mem_belowL he
          rw [belowE_parts, List.mem_append, List.mem_append]
          left; left
          unfold entryViol
          simp [hr]
        rcases hex _ (List.mem_append_right _ hv) with h | ⟨h, _⟩ <;> cases h
    have hclash : cands.Pairwise (fun a b => clash a b = false) := by
      apply noClash_of_levelViol pre
      intro v hv hk
      rcases hex v (List.mem_append_left _ hv) with h | ⟨h, _⟩ <;> rw [hk] at h <;> cases h
    have hns : ∀ s ∈ cands, shadows s e = false := by
      intro s hs
      cases hsh : shadows s e with
      | false => rfl
      | true =>
        exfalso
        have hv := shadow_mem_levelViol pre cands s e hs he hsh
        rcases hex _ (List.mem_append_left _ hv) with h | ⟨_, h⟩
        · cases h
        · exact h 0 e (by simp) ⟨by simp, by simp [key2]⟩
    cases rest with
    | nil => exact levelGood_of cands e true he hrange hns hclash (by intro h; cases h)
    | cons e' rest' =>
      obtain ⟨_, hrest⟩ := hc
      have hk : e.children ≠ [] := by
        intro hnil
        have hmem : e' ∈ e.children := by
          cases rest' with
          | nil => exact hrest
          | cons _ _ => exact hrest.1
        rw [hnil] at hmem; cases hmem
      refine ⟨levelGood_of cands e false he hrange hns hclash (fun _ => hk), ?_⟩
      apply ih (pre ++ [e.low]) e.children _ hrest
      intro v hv
      apply excused_tail
      apply hex v
      apply List.mem_append_right
      apply belowE_mem_belowL he
      rw [belowE_parts]
      rcases List.mem_append.mp hv with hv | hv
      · exact List.mem_append_left _ (List.mem_append_right _ hv)
      · exact List.mem_append_right _ hv

/-- **T3 — reachable_except**: if every defect of the tree is a duplicate or the shadowing of an entry that is
not on the path, the path is hit. -/
theorem reachable_except (db : List Entry) (path : List Entry) (hc : Chain db path)
    (hex : ∀ v ∈ violations db, Excused [] path v) : Hits path (find db (lows path)) :=
  reachable_of_chainGood path db (chainGood_of_excused path [] db hex hc)

/-- T3 for a tree whose defects are listed: if the list contains only duplicates and shadowings, every path
that passes through none of the listed shadowed entries is hit -/
theorem reachable_of_listed (db : List Entry) (V : List Viol) (hV : violations db = V)
    (hk : ∀ v ∈ V, v.kind = .dup ∨ v.kind = .shadow) (path : List Entry) (hc : Chain db path)
    (hfree : ∀ v ∈ V, v.kind = .shadow → ∀ (i : Nat) (e : Entry), path[i]? = some e →
      ¬ (v.path = (path.take i).map (·.low) ∧ v.what.drop 2 = [e.low, e.high])) :
    Hits path (find db (lows path)) := by
  apply reachable_except db path hc
  intro v hv
  rw [hV] at hv
  rcases hk v hv with h | h
  · exact Or.inl h
  · exact Or.inr ⟨h, by simpa using hfree v hv h⟩

/-- every entry of a tree is the end of a path -/
theorem chain_singleton {db : List Entry} {e : Entry} (h : e ∈ db) : Chain db [e] := h

end Props.C11
