import Props.C16.Spec
import Props.C16.Table
import Props.C16.Witness
import Props.C16.Main
import Props.C16.Examples
/-!
# Props.C16 — GS1-128 decoding and encoding are mutually consistent

All theorems are about `Spec.GS1` (the hand model of `stdnum/gs1_128.py` AS IT IS, tied to the real code by
`tools/corr/gs1.py`).  The general theorems hold for EVERY registry tree `env.db`, EVERY validator assignment
`env.validate`, mappings of ANY size, with and without a (one-character) separator, with and without parentheses.

## files

* `Props/C16/Spec.lean`    — the statements: `declMax` (a reading of the format notation that is independent of
  `_max_length`), `Fits`, `ItemOK`, `WFmap` ("registered identifiers, values that fit their declared formats"),
  the defect-excluding hypotheses `NoR8 NoR16 NoR17 NoR18 NoR19 NoR20`, the properties `InfoEncode`, `ValidateFixed`.
* `Props/C16/Lookup.lean`  — `aiLookup_append`: a registered identifier is found in front of anything (no
  assumption on the registry: shortest match wins, `Props.C10.findLoop_spec`).
* `Props/C16/Frame.lean`   — `infoLoop_fixed`, `infoLoop_vars`, `compact_enc`: `info` walks through identifier/value
  segments whose values come with a `Codec`.
* `Props/C16/Dec.lean`, `Date.lean`, `Codec.lean` — `Decimal(str(d)) = d`, `strptime ∘ strftime`, and
  `textOf_of_fits : Fits → Codec` for text, int, decimal (`N6`, `N..15`, `N3+N..15`) and the date formats.
* `Props/C16/Sort.lean`    — `sorted(data.items())`.
* `Props/C16/Main.lean`    — **`info_encode_partial`**, **`validate_fixed_partial`**, `infoLoop_fuel` (termination).
* `Props/C16/Table.lean`   — the well-formedness predicates evaluated on the table generated from the current
  `gs1_ai.dat`: `real_wf`, `real_checkAI` (digit strings, each identifier registered as itself = prefix-free,
  format has a declared maximum, `_max_length` agrees with it EXACTLY for the identifiers outside `r8List`,
  identifiers without FNC1 have fixed-length formats).
* `Props/C16/Witness.lean` — the full statements are false: `info_encode_false_R8 … R20`, `validate_fixed_false_R14 …
  R20`, `info_encode_false`, `validate_fixed_false` (kernel-evaluated on the real registry; replayed on the real
  Python by `tools/corr/gs1.py`).
* `Props/C16/Examples.lean` — non-vacuity (`exMap_info_encode_gs`, `exMap2_info_encode_plain`, `exX_validate_fixed`,
  `exMap3_wf`), and `real_NoR8` / `info_encode_real` (what the theorems give on the current registry).

## the full statements (false for the code as it is)

    info_encode    : ∀ sep par m, WFmap env sep m → InfoEncode env sep par m
    validate_fixed : ∀ sep x, ValidateFixed env sep x

Not covered: separators of more than one character; `float`/`bool`/`None`/list values and non-`str` keys
(outside the modelled universe); `stdnum.iban.validate` (a parameter of the model).
-/

#print axioms Props.C16.info_encode_partial
#print axioms Props.C16.validate_fixed_partial
#print axioms Props.C16.infoLoop_fuel
#print axioms Props.C16.aiLookup_append
#print axioms Props.C16.compact_enc
#print axioms Props.C16.textOf_of_fits
#print axioms Props.C16.Dec_ofStr_zeros_toStr
#print axioms Props.C16.info_encode_false
#print axioms Props.C16.info_encode_false_R8
#print axioms Props.C16.info_encode_false_R16
#print axioms Props.C16.info_encode_false_R17
#print axioms Props.C16.info_encode_false_R18
#print axioms Props.C16.info_encode_false_R19
#print axioms Props.C16.info_encode_false_R20
#print axioms Props.C16.validate_fixed_false
#print axioms Props.C16.validate_fixed_false_R14
#print axioms Props.C16.validate_fixed_false_R17
#print axioms Props.C16.validate_fixed_false_R18
#print axioms Props.C16.validate_fixed_false_R19
#print axioms Props.C16.validate_fixed_false_R20
#print axioms Props.C16.validate_empty
#print axioms Props.C16.real_wf
#print axioms Props.C16.real_checkAI
#print axioms Props.C16.real_NoR8
#print axioms Props.C16.info_encode_real
#print axioms Props.C16.exMap_info_encode_gs
#print axioms Props.C16.exMap2_info_encode_plain
#print axioms Props.C16.exX_validate_fixed
#print axioms Props.C16.exMap3_wf
