import Gen.luhn
import Gen.verhoeff
import Gen.damm
import Gen.iso7064_mod_11_2
import Gen.iso7064_mod_37_2
import Gen.iso7064_mod_11_10
import Gen.iso7064_mod_37_36
import Gen.iso7064_mod_97_10
import Spec.Checksum
import Lemmas.Refine
import Props.C06
/-!
# C06 on the generated code — refinement of the spec models by the translator's output

`Props/C06.lean` proves the guarantees of the generic check-digit algorithms on the hand-written models of
`Spec/Checksum.lean`.  This file proves that the functions the translator **regenerates from /repo on every
run** (`Gen/luhn.lean`, `Gen/verhoeff.lean`, `Gen/iso7064_mod_*.lean`) compute the same as those models, and
restates the C06 guarantees for the generated functions.  A change of e.g. `luhn.py` changes `Gen.luhn.*`
and breaks the refinement proof (or, if the change is harmless, the proof still goes through).

## What is proved (Part 1, refinement)

For **every** argument, error paths included (`natCast : Nat → Int` is the embedding of the model's naturals
into the generated code's integers; `f <$> x` maps a successful result and keeps an exception):

| generated function | equals |
|---|---|
| `Gen.luhn.checksum s a`             | `natCast <$> Luhn.checksum s a` |
| `Gen.luhn.validate s a`, `.calc_check_digit s a`, `.is_valid s a` | `Luhn.validate s a`, … |
| `Gen.verhoeff.checksum s`           | `natCast <$> Verhoeff.checksum pyDec s` |
| `Gen.verhoeff.validate / calc_check_digit / is_valid` | `Verhoeff.… pyDec` |
| `Gen.iso7064_mod_37_2.checksum s a` | `natCast <$> Mod372.checksum s a`, and `validate`, `calc_check_digit`, `is_valid` |
| `Gen.iso7064_mod_11_10.checksum s`  | `natCast <$> Mod1110.checksum pyDec s`, and `validate`, `calc_check_digit`, `is_valid` |
| `Gen.iso7064_mod_37_36.checksum s a`| `natCast <$> Mod3736.checksum s a`, and `validate`, `calc_check_digit`, `is_valid` |
| `Gen.iso7064_mod_97_10.validate s`, `.is_valid s` | `Mod9710.validate pyB36 4300 s`, `Mod9710.is_valid pyB36 4300 s` |
| `Gen.iso7064_mod_97_10._to_base10 / checksum / calc_check_digits s` | the model's, **for ASCII `s`**; for a non-ASCII `s` the generated code raises `UnicodeError` (the `.encode('ascii')` of upstream fix 98d3506) where the model raises `ValueError` (`mod_97_10_checksum_nonascii`) |

Instantiation of the model's environment parameters: `dec := Lemmas.Refine.pyDec` (`c ↦ int(c)` exactly as the
runtime's `Py.intOf` computes it on one-character strings, all Unicode decimal digits included),
`b36 := Lemmas.Refine.pyB36` (`Py.intOfBase · 36` on one ASCII character, `none` for non-ASCII characters),
`maxDigits := 4300 = Py.intMaxStrDigits`.  `DecExtends pyDec` and `B36Extends pyB36` are proved in
`Lemmas/Refine.lean`, so every theorem of `Props/C06.lean` applies.

`stdnum.damm`: `Gen.damm.checksum s (tblCast t) = natCast <$> Damm.checksum pyDec s t` for every table `t` of
non-negative entries (`tblCast` embeds `Option (List (List Nat))`; `none` = default table, proved equal to the
spec's table by `damm_table_eq`), and `validate`, `calc_check_digit`, `is_valid`.
`stdnum.iso7064.mod_11_2`: `Gen.iso7064_mod_11_2.checksum s = natCast <$> Mod112.checksum pyDec s`, and
`validate`, `calc_check_digit`, `is_valid`.  (Both modules were unmodelled in the first version of this file.)

## Part 2: the C06 guarantees on the generated functions

`gen_X_append_valid`, `gen_X_check_unique`, `gen_X_subst_detected`, `gen_X_swap_detected` /
`gen_luhn_swap_undetected_iff` / `gen_mod_11_10_swap_undetected_iff` / `gen_mod_37_36_swap_undetected_iff`
for X ∈ luhn, verhoeff, damm, mod_11_2, mod_37_2, mod_11_10, mod_37_36, mod_97_10: the statements of `Props/C06.lean` with the
model functions replaced by the generated ones (every length, every word over the alphabet).
-/
namespace Props.C06Gen
open Py Spec.Checksum Lemmas.Refine Props.C06

/-! ## the shared shapes of `validate` and `is_valid`

```
try: valid = checksum(...) == t              try: return bool(validate(...))
except Exception: raise InvalidFormat()      except ValidationError: return False
if not valid: raise InvalidChecksum()
return number
```
are elaborated by `do`-notation into `tryCatch` blocks; after the checksum has been rewritten into
`natCast <$> ck` both sides are compared by cases on the model's result. -/

/-- closes `generated validate block = validateBody ck t number` once the generated checksum has been
rewritten to `natCast <$> ck` -/
macro "validate_tac" ck:term ", " t:term : tactic => `(tactic| (
  generalize $ck = ckv
  cases ckv with
  | error e =>
    simp [tryCatch, tryCatchThe, MonadExceptOf.tryCatch, Except.tryCatch, tryExcept, Exc.caughtBy]
  | ok c =>
    have h1 : ((natCast c) == ($t : Int)) = (c == $t) := beq_natCast c $t
    simp only [map_ok, bind_ok, tryCatch, tryCatchThe, MonadExceptOf.tryCatch, Except.tryCatch, tryExcept,
      h1, pure_ok]
    cases c == $t <;> rfl))

/-- closes `generated is_valid block = isValidOf v` once the generated validate has been rewritten to `v` -/
macro "is_valid_tac" v:term : tactic => `(tactic| (
  generalize $v = vv
  cases vv with
  | ok r => rfl
  | error e =>
    simp only [tryCatch, tryCatchThe, MonadExceptOf.tryCatch, Except.tryCatch, tryExcept, bind_error,
      List.any_cons, List.any_nil, Bool.or_false]
    cases e.caughtBy .validationError <;> rfl))

/-! ## stdnum.luhn -/

theorem luhn_checksum_eq (number alphabet : Str) :
    Gen.luhn.checksum number alphabet = natCast <$> Luhn.checksum number alphabet := by
  unfold Gen.luhn.checksum Luhn.checksum
  have hmap := mapM_sim natCast (fun c => [c]) (fun (i : Str) => do pure (← Py.index alphabet i))
    (Spec.Checksum.index alphabet) number.reverse (fun c _ => index_single alphabet c)
  simp only [chars_reverse_eq, hmap]
  cases hws : number.reverse.mapM (Spec.Checksum.index alphabet) with
  | error e => rfl
  | ok ws =>
    have hlt : ∀ w ∈ ws, w < alphabet.length := by
      intro w hw
      obtain ⟨a, _, ha⟩ := mem_of_mapM_ok _ _ ws hws w hw
      exact index_ok_lt ha
    simp only [map_ok, bind_ok, sliceStep_evens, sliceStep_odds]
    by_cases hn : alphabet.length = 0
    · have : ws = [] := by
        cases ws with
        | nil => rfl
        | cons w _ => have := hlt w List.mem_cons_self; omega
      subst this
      simp [hn, Luhn.odds, Py.pymod]
    · have hdm := mapM_sim natCast natCast
        (fun (i : Int) => do
          pure (Py.sumInt (Py.tupleToList (← Py.pydivmod (i * (2 : Int)) (alphabet.length : Int)) : List Int)))
        (fun i => pure (Luhn.dbl alphabet.length i)) (Luhn.odds ws) (fun i _ => by
          have : natCast i * 2 = ((i * 2 : Nat) : Int) := by simp [natCast]
          rw [this, pydivmod_natCast, if_neg hn]
          simp [Py.tupleToList, Py.TupleToList.toL, Py.sumInt, Luhn.dbl, natCast])
      rw [hdm, List.mapM_pure]
      simp only [pure_ok, map_ok, bind_ok, sumInt_map_natCast, if_neg hn]
      have : ∀ a b : Nat, natCast a + natCast b = ((a + b : Nat) : Int) := by intro a b; simp [natCast]
      rw [this, pymod_natCast, if_neg hn]

theorem luhn_validate_eq (number alphabet : Str) :
    Gen.luhn.validate number alphabet = Luhn.validate number alphabet := by
  unfold Gen.luhn.validate Luhn.validate validateBody
  rw [luhn_checksum_eq]
  cases hne : number.isEmpty with
  | true => rfl
  | false =>
    simp only [Bool.not_false, Bool.not_true, Bool.false_eq_true, if_false]
    validate_tac (Luhn.checksum number alphabet), 0

theorem luhn_calc_check_digit_eq (number alphabet : Str) :
    Gen.luhn.calc_check_digit number alphabet = Luhn.calc_check_digit number alphabet := by
  unfold Gen.luhn.calc_check_digit Luhn.calc_check_digit
  have h0 := getItem_natCast alphabet 0
  simp only [Int.natCast_zero] at h0
  simp only [h0]
  cases Spec.Checksum.getItem alphabet 0 with
  | error e => rfl
  | ok a0 =>
    simp only [map_ok, bind_ok, luhn_checksum_eq]
    cases Luhn.checksum (number ++ [a0]) alphabet with
    | error e => rfl
    | ok ck =>
      simp only [map_ok, bind_ok, natCast, getItem_neg_natCast]
      cases getNeg alphabet ck <;> rfl

theorem luhn_is_valid_eq (number alphabet : Str) :
    Gen.luhn.is_valid number alphabet = Luhn.is_valid number alphabet := by
  unfold Gen.luhn.is_valid Luhn.is_valid isValidOf
  rw [luhn_validate_eq]
  is_valid_tac (Luhn.validate number alphabet)

/-! ## stdnum.verhoeff -/

/-- the regenerated tables are the spec's -/
theorem verhoeff_mul_eq : Gen.verhoeff._multiplication_table = verhoeffMul.map (List.map natCast) := by
  decide
theorem verhoeff_perm_eq : Gen.verhoeff._permutation_table = verhoeffPerm.map (List.map natCast) := by
  decide

theorem verhoeff_checksum_eq (number : Str) :
    Gen.verhoeff.checksum number = natCast <$> Verhoeff.checksum pyDec number := by
  unfold Gen.verhoeff.checksum Verhoeff.checksum
  have hmap := mapM_sim natCast (fun c => [c]) (fun (n : Str) => do pure (← Py.intOf n))
    (intChar pyDec) number.reverse (fun c _ => intOf_single c)
  simp only [chars_reverse_eq, hmap, bind_pure]
  cases number.reverse.mapM (intChar pyDec) with
  | error e => rfl
  | ok ws =>
    simp only [map_ok, bind_ok]
    have he := enumerate_map_natCast natCast ws 0
    simp only [Int.natCast_zero] at he
    rw [he]
    refine forIn_sim natCast (fun (p : Nat × Nat) => ((p.2 : Int), natCast p.1)) _ _ ws.zipIdx
      (fun p _ s => ?_) 0
    obtain ⟨v, i⟩ := p
    simp only [verhoeff_mul_eq, verhoeff_perm_eq]
    have hi : (i : Int) % 8 = ((i % 8 : Nat) : Int) := by omega
    rw [hi, getItemL_map_natCast]
    cases Spec.Checksum.getItem verhoeffMul s with
    | error e => rfl
    | ok mrow =>
      simp only [map_ok, bind_ok]
      rw [getItemL_map_natCast]
      cases Spec.Checksum.getItem verhoeffPerm (i % 8) with
      | error e => rfl
      | ok prow =>
        simp only [map_ok, bind_ok]
        rw [getItemL_map_natCast]
        cases Spec.Checksum.getItem prow v with
        | error e => rfl
        | ok j =>
          simp only [map_ok, bind_ok]
          rw [getItemL_map_natCast]
          cases Spec.Checksum.getItem mrow j <;> rfl

theorem verhoeff_validate_eq (number : Str) :
    Gen.verhoeff.validate number = Verhoeff.validate pyDec number := by
  unfold Gen.verhoeff.validate Verhoeff.validate validateBody
  rw [verhoeff_checksum_eq]
  cases hne : number.isEmpty with
  | true => rfl
  | false =>
    simp only [Bool.not_false, Bool.not_true, Bool.false_eq_true, if_false]
    validate_tac (Verhoeff.checksum pyDec number), 0

theorem verhoeff_calc_check_digit_eq (number : Str) :
    Gen.verhoeff.calc_check_digit number = Verhoeff.calc_check_digit pyDec number := by
  unfold Gen.verhoeff.calc_check_digit Verhoeff.calc_check_digit
  simp only [verhoeff_checksum_eq]
  cases Verhoeff.checksum pyDec (number ++ [48]) with
  | error e => rfl
  | ok ck =>
    simp only [map_ok, bind_ok, verhoeff_mul_eq, natCast]
    rw [getItemL_map_natCast]
    cases Spec.Checksum.getItem verhoeffMul ck with
    | error e => rfl
    | ok mrow =>
      simp only [map_ok, bind_ok]
      have := indexL_map_natCast mrow 0
      simp only [Int.natCast_zero] at this
      rw [this]
      cases Spec.Checksum.index mrow 0 with
      | error e => rfl
      | ok j => simp only [map_ok, bind_ok, pure_ok]; rw [strOfInt_natCast_eq]

theorem verhoeff_is_valid_eq (number : Str) :
    Gen.verhoeff.is_valid number = Verhoeff.is_valid pyDec number := by
  unfold Gen.verhoeff.is_valid Verhoeff.is_valid isValidOf
  rw [verhoeff_validate_eq]
  is_valid_tac (Verhoeff.validate pyDec number)

/-! ## stdnum.damm

`table` is any table of non-negative entries (`none` = the default `_operation_table`; the empty table is
falsy and replaced by the default as well). -/

theorem damm_table_eq : Gen.damm._operation_table = dammTable.map (List.map natCast) := by decide

/-- the embedding of a spec-level table argument into the generated code's -/
def tblCast (t : Option (List (List Nat))) : Option (List (List Int)) := t.map (List.map (List.map natCast))

theorem damm_loop (T : List (List Nat)) (number : Str) :
    forIn (number.map (fun c => [c])) (0 : Int) (fun (n : Str) (i : Int) => do
      let r ← Py.getItemL (← Py.getItemL (T.map (List.map natCast)) i) (← Py.intOf n)
      pure (ForInStep.yield r)) =
    natCast <$> number.foldlM (fun i n => do
      let row ← Spec.Checksum.getItem T i
      let d ← intChar pyDec n
      Spec.Checksum.getItem row d) 0 := by
  refine forIn_sim natCast (fun c => [c]) _ _ number (fun n _ s => ?_) 0
  rw [getItemL_map_natCast]
  cases Spec.Checksum.getItem T s with
  | error e => rfl
  | ok row =>
    simp only [map_ok, bind_ok, intOf_single]
    cases intChar pyDec n with
    | error e => rfl
    | ok d =>
      simp only [map_ok, bind_ok]
      rw [getItemL_map_natCast]
      cases Spec.Checksum.getItem row d <;> rfl

theorem damm_checksum_eq (number : Str) (table : Option (List (List Nat))) :
    Gen.damm.checksum number (tblCast table) = natCast <$> Damm.checksum pyDec number table := by
  unfold Gen.damm.checksum Damm.checksum
  cases table with
  | none =>
    simp only [tblCast, Option.map_none, Damm.tableOr, damm_table_eq, bind_pure, Py.chars, pure_bind]
    exact damm_loop dammTable number
  | some t =>
    cases t with
    | nil =>
      simp only [tblCast, Option.map_some, List.map_nil, Damm.tableOr, List.isEmpty_nil, damm_table_eq,
        bind_pure, Py.chars, pure_bind, Bool.not_true, Bool.false_eq_true, if_false, if_true]
      exact damm_loop dammTable number
    | cons r t =>
      simp only [tblCast, Option.map_some, List.map_cons, Damm.tableOr, List.isEmpty_cons,
        bind_pure, Py.chars, pure_bind, Bool.not_false, Bool.false_eq_true, if_false, if_true]
      exact damm_loop (r :: t) number

theorem damm_validate_eq (number : Str) (table : Option (List (List Nat))) :
    Gen.damm.validate number (tblCast table) = Damm.validate pyDec number table := by
  unfold Gen.damm.validate Damm.validate validateBody
  rw [damm_checksum_eq]
  cases hne : number.isEmpty with
  | true => rfl
  | false =>
    simp only [Bool.not_false, Bool.not_true, Bool.false_eq_true, if_false]
    validate_tac (Damm.checksum pyDec number table), 0

theorem damm_calc_check_digit_eq (number : Str) (table : Option (List (List Nat))) :
    Gen.damm.calc_check_digit number (tblCast table) = Damm.calc_check_digit pyDec number table := by
  unfold Gen.damm.calc_check_digit Damm.calc_check_digit
  rw [damm_checksum_eq]
  cases Damm.checksum pyDec number table with
  | error e => rfl
  | ok ck => simp only [map_ok, bind_ok, pure_ok]; rw [strOfInt_natCast_eq]

theorem damm_is_valid_eq (number : Str) (table : Option (List (List Nat))) :
    Gen.damm.is_valid number (tblCast table) = Damm.is_valid pyDec number table := by
  unfold Gen.damm.is_valid Damm.is_valid isValidOf
  rw [damm_validate_eq]
  is_valid_tac (Damm.validate pyDec number table)

/-! ## stdnum.iso7064.mod_11_2 -/

theorem mod_11_2_checksum_eq (number : Str) :
    Gen.iso7064_mod_11_2.checksum number = natCast <$> Mod112.checksum pyDec number := by
  unfold Gen.iso7064_mod_11_2.checksum Mod112.checksum
  simp only [bind_pure, Py.chars]
  refine forIn_sim natCast (fun c => [c]) _ _ number (fun n _ s => ?_) 0
  have hcv : (if ([n] == ([88] : Str)) = true then (pure (10 : Int) : R Int) else Py.intOf [n]) =
      natCast <$> Mod112.charVal pyDec n := by
    unfold Mod112.charVal
    by_cases h : n = 88
    · subst h; rfl
    · have : ([n] == ([88] : Str)) = false := by simp [h]
      rw [this, if_neg h, intOf_single]
      simp
  simp only [hcv]
  cases Mod112.charVal pyDec n with
  | error e => rfl
  | ok v =>
    simp only [map_ok, bind_ok, pure_ok]
    have : (2 * natCast s + natCast v) % 11 = natCast ((2 * s + v) % 11) := by
      simp only [natCast]; push_cast; rfl
    rw [this]

theorem mod_11_2_validate_eq (number : Str) :
    Gen.iso7064_mod_11_2.validate number = Mod112.validate pyDec number := by
  unfold Gen.iso7064_mod_11_2.validate Mod112.validate validateBody
  rw [mod_11_2_checksum_eq]
  validate_tac (Mod112.checksum pyDec number), 1

theorem mod_11_2_calc_check_digit_eq (number : Str) :
    Gen.iso7064_mod_11_2.calc_check_digit number = Mod112.calc_check_digit pyDec number := by
  unfold Gen.iso7064_mod_11_2.calc_check_digit Mod112.calc_check_digit
  rw [mod_11_2_checksum_eq]
  cases Mod112.checksum pyDec number with
  | error e => rfl
  | ok ck =>
    simp only [map_ok, bind_ok, pure_ok]
    have h11 : ((11 : Nat) : Int) = 11 := rfl
    have hc : ((1 : Int) - 2 * natCast ck) % 11 = natCast (pmod (1 - 2 * (ck : Int)) 11) := by
      rw [← h11, emod_natCast_pmod _ 11 (by decide)]
    rw [hc]
    have hb : (natCast (pmod (1 - 2 * (ck : Int)) 11) == (10 : Int)) = (pmod (1 - 2 * (ck : Int)) 11 == 10) :=
      beq_natCast _ 10
    rw [hb]
    by_cases h10 : pmod (1 - 2 * (ck : Int)) 11 = 10
    · simp [h10]
    · have : (pmod (1 - 2 * (ck : Int)) 11 == 10) = false := beq_eq_false_iff_ne.mpr h10
      rw [this, if_neg h10]
      simp only [Bool.false_eq_true, if_false]
      rw [strOfInt_natCast_eq]

theorem mod_11_2_is_valid_eq (number : Str) :
    Gen.iso7064_mod_11_2.is_valid number = Mod112.is_valid pyDec number := by
  unfold Gen.iso7064_mod_11_2.is_valid Mod112.is_valid isValidOf
  rw [mod_11_2_validate_eq]
  is_valid_tac (Mod112.validate pyDec number)

/-! ## stdnum.iso7064.mod_37_2 -/

theorem mod_37_2_checksum_eq (number alphabet : Str) :
    Gen.iso7064_mod_37_2.checksum number alphabet = natCast <$> Mod372.checksum number alphabet := by
  unfold Gen.iso7064_mod_37_2.checksum Mod372.checksum
  simp only [bind_pure, Py.chars]
  refine forIn_sim natCast (fun c => [c]) _ _ number (fun n _ s => ?_) 0
  simp only [index_single]
  cases Spec.Checksum.index alphabet n with
  | error e => rfl
  | ok i =>
    simp only [map_ok, bind_ok]
    have : (2 * natCast s + (i : Int)) = ((2 * s + i : Nat) : Int) := by simp [natCast]
    rw [this, pymod_natCast]
    split <;> rfl

theorem mod_37_2_validate_eq (number alphabet : Str) :
    Gen.iso7064_mod_37_2.validate number alphabet = Mod372.validate number alphabet := by
  unfold Gen.iso7064_mod_37_2.validate Mod372.validate validateBody
  rw [mod_37_2_checksum_eq]
  validate_tac (Mod372.checksum number alphabet), 1

theorem mod_37_2_calc_check_digit_eq (number alphabet : Str) :
    Gen.iso7064_mod_37_2.calc_check_digit number alphabet = Mod372.calc_check_digit number alphabet := by
  unfold Gen.iso7064_mod_37_2.calc_check_digit Mod372.calc_check_digit
  rw [mod_37_2_checksum_eq]
  cases Mod372.checksum number alphabet with
  | error e => rfl
  | ok c =>
    simp only [map_ok, bind_ok, pure_ok, natCast, pymod_int_natCast]
    split
    · rfl
    · simp only [bind_ok, getItem_natCast]
      cases Spec.Checksum.getItem alphabet _ <;> rfl

theorem mod_37_2_is_valid_eq (number alphabet : Str) :
    Gen.iso7064_mod_37_2.is_valid number alphabet = Mod372.is_valid number alphabet := by
  unfold Gen.iso7064_mod_37_2.is_valid Mod372.is_valid isValidOf
  rw [mod_37_2_validate_eq]
  is_valid_tac (Mod372.validate number alphabet)

/-! ## stdnum.iso7064.mod_11_10 -/

theorem mod_11_10_checksum_eq (number : Str) :
    Gen.iso7064_mod_11_10.checksum number = natCast <$> Mod1110.checksum pyDec number := by
  unfold Gen.iso7064_mod_11_10.checksum Mod1110.checksum
  simp only [bind_pure, Py.chars]
  refine forIn_sim natCast (fun c => [c]) _ _ number (fun n _ s => ?_) 5
  simp only [intOf_single]
  have hbo : (if (natCast s != 0) = true then (pure (natCast s) : R Int) else pure 10) =
      .ok (natCast (if s = 0 then 10 else s)) := by
    by_cases hs : s = 0
    · subst hs; rfl
    · have : (natCast s != 0) = true := by simp [natCast, hs]
      rw [this, if_pos rfl, if_neg hs]; rfl
  simp only [hbo, bind_ok]
  cases intChar pyDec n with
  | error e => rfl
  | ok v =>
    simp only [map_ok, bind_ok, pure_ok]
    generalize (if s = 0 then 10 else s) = q
    have : (natCast q * 2 % 11 + natCast v) % 10 = natCast ((q * 2 % 11 + v) % 10) := by
      simp only [natCast]; push_cast; rfl
    rw [this]

theorem mod_11_10_validate_eq (number : Str) :
    Gen.iso7064_mod_11_10.validate number = Mod1110.validate pyDec number := by
  unfold Gen.iso7064_mod_11_10.validate Mod1110.validate validateBody
  rw [mod_11_10_checksum_eq]
  validate_tac (Mod1110.checksum pyDec number), 1

theorem mod_11_10_calc_check_digit_eq (number : Str) :
    Gen.iso7064_mod_11_10.calc_check_digit number = Mod1110.calc_check_digit pyDec number := by
  unfold Gen.iso7064_mod_11_10.calc_check_digit Mod1110.calc_check_digit
  rw [mod_11_10_checksum_eq]
  cases Mod1110.checksum pyDec number with
  | error e => rfl
  | ok ck =>
    simp only [map_ok, bind_ok, pure_ok]
    have hbo : (if (natCast ck != 0) = true then (Except.ok (natCast ck) : R Int) else .ok 10) =
        .ok (natCast (if ck = 0 then 10 else ck)) := by
      by_cases hs : ck = 0
      · subst hs; rfl
      · have : (natCast ck != 0) = true := by simp [natCast, hs]
        rw [this, if_pos rfl, if_neg hs]
    simp only [hbo, bind_ok]
    congr 1
    rw [← strOfInt_natCast_eq]
    congr 1
    have h10 : ((10 : Nat) : Int) = 10 := rfl
    rw [← h10, emod_natCast_pmod _ 10 (by decide)]
    generalize (if ck = 0 then 10 else ck) = q
    have : natCast q * 2 % 11 = ((q * 2 % 11 : Nat) : Int) := by simp only [natCast]; push_cast; rfl
    rw [this]

theorem mod_11_10_is_valid_eq (number : Str) :
    Gen.iso7064_mod_11_10.is_valid number = Mod1110.is_valid pyDec number := by
  unfold Gen.iso7064_mod_11_10.is_valid Mod1110.is_valid isValidOf
  rw [mod_11_10_validate_eq]
  is_valid_tac (Mod1110.validate pyDec number)

/-! ## stdnum.iso7064.mod_37_36 -/

theorem mod_37_36_checksum_eq (number alphabet : Str) :
    Gen.iso7064_mod_37_36.checksum number alphabet = natCast <$> Mod3736.checksum number alphabet := by
  unfold Gen.iso7064_mod_37_36.checksum Mod3736.checksum
  simp only [bind_pure, Py.chars]
  have hinit : ((alphabet.length : Int) / 2) = natCast (alphabet.length / 2) := by
    simp only [natCast]; omega
  rw [hinit]
  refine forIn_sim natCast (fun c => [c]) _ _ number (fun n _ s => ?_) (alphabet.length / 2)
  simp only [index_single]
  have hbo : (if (natCast s != 0) = true then (pure (natCast s) : R Int) else pure (alphabet.length : Int)) =
      .ok (natCast (if s = 0 then alphabet.length else s)) := by
    by_cases hs : s = 0
    · subst hs; rfl
    · have : (natCast s != 0) = true := by simp [natCast, hs]
      rw [this, if_pos rfl, if_neg hs]; rfl
  simp only [hbo, bind_ok]
  have hq : natCast (if s = 0 then alphabet.length else s) * 2 =
      (((if s = 0 then alphabet.length else s) * 2 : Nat) : Int) := by simp [natCast]
  have hm1 : (alphabet.length : Int) + 1 = ((alphabet.length + 1 : Nat) : Int) := by simp
  rw [hq, hm1, pymod_natCast, if_neg (by omega)]
  simp only [bind_ok]
  cases Spec.Checksum.index alphabet n with
  | error e => rfl
  | ok i =>
    simp only [map_ok, bind_ok]
    have : ∀ a b : Nat, (a : Int) + (b : Int) = ((a + b : Nat) : Int) := by intro a b; simp
    rw [this, pymod_natCast]
    split <;> rfl

theorem mod_37_36_validate_eq (number alphabet : Str) :
    Gen.iso7064_mod_37_36.validate number alphabet = Mod3736.validate number alphabet := by
  unfold Gen.iso7064_mod_37_36.validate Mod3736.validate validateBody
  rw [mod_37_36_checksum_eq]
  validate_tac (Mod3736.checksum number alphabet), 1

theorem mod_37_36_calc_check_digit_eq (number alphabet : Str) :
    Gen.iso7064_mod_37_36.calc_check_digit number alphabet = Mod3736.calc_check_digit number alphabet := by
  unfold Gen.iso7064_mod_37_36.calc_check_digit Mod3736.calc_check_digit
  rw [mod_37_36_checksum_eq]
  cases Mod3736.checksum number alphabet with
  | error e => rfl
  | ok ck =>
    simp only [map_ok, bind_ok, pure_ok]
    have hbo : (if (natCast ck != 0) = true then (Except.ok (natCast ck) : R Int) else
        .ok (alphabet.length : Int)) = .ok (natCast (if ck = 0 then alphabet.length else ck)) := by
      by_cases hs : ck = 0
      · subst hs; rfl
      · have : (natCast ck != 0) = true := by simp [natCast, hs]
        rw [this, if_pos rfl, if_neg hs]
    simp only [hbo, bind_ok]
    have hq : natCast (if ck = 0 then alphabet.length else ck) * 2 =
        (((if ck = 0 then alphabet.length else ck) * 2 : Nat) : Int) := by simp [natCast]
    have hm1 : (alphabet.length : Int) + 1 = ((alphabet.length + 1 : Nat) : Int) := by simp
    rw [hq, hm1, pymod_natCast, if_neg (by omega)]
    simp only [bind_ok, pymod_int_natCast]
    split
    · rfl
    · simp only [bind_ok, getItem_natCast]
      cases Spec.Checksum.getItem alphabet _ <;> rfl

theorem mod_37_36_is_valid_eq (number alphabet : Str) :
    Gen.iso7064_mod_37_36.is_valid number alphabet = Mod3736.is_valid number alphabet := by
  unfold Gen.iso7064_mod_37_36.is_valid Mod3736.is_valid isValidOf
  rw [mod_37_36_validate_eq]
  is_valid_tac (Mod3736.validate number alphabet)

/-! ## stdnum.iso7064.mod_97_10

`_to_base10` first runs `number.encode('ascii').decode('ascii')` (upstream fix 98d3506, so that
`int(x, 36)` never sees a non-ASCII digit).  On ASCII input the generated functions equal the model with
`b36 := pyB36`, `maxDigits := 4300`; on non-ASCII input the generated `checksum` raises `UnicodeError` where
the model raises `ValueError`; `validate` turns both into `InvalidFormat`, so `validate` and `is_valid` agree
on every input. -/

theorem asciiOnly_of_ascii {s : Str} (h : ∀ c ∈ s, c < 128) : Py.asciiOnly s = .ok s := by
  unfold Py.asciiOnly
  rw [if_pos (List.all_eq_true.mpr (fun c hc => decide_eq_true (h c hc)))]

theorem asciiOnly_of_not_ascii {s : Str} (h : ¬ ∀ c ∈ s, c < 128) :
    Py.asciiOnly s = .error .unicodeError := by
  unfold Py.asciiOnly
  rw [if_neg]
  · rfl
  · intro hall
    exact h (fun c hc => of_decide_eq_true (List.all_eq_true.mp hall c hc))

theorem mod_97_10_to_base10_eq (number : Str) (hascii : ∀ c ∈ number, c < 128) :
    Gen.iso7064_mod_97_10._to_base10 number = Mod9710.toBase10 pyB36 number := by
  unfold Gen.iso7064_mod_97_10._to_base10 Mod9710.toBase10
  rw [asciiOnly_of_ascii hascii]
  have hmap := mapM_sim id (fun c => [c])
    (fun (x : Str) => do pure (Py.strOfInt (← Py.intOfBase x ((36 : Int)).toNat)))
    (fun x => do
      let v ← intChar pyB36 x
      pure (natToStr v)) number (fun c hc => by
      have h36 : ((36 : Int)).toNat = 36 := rfl
      rw [h36, intOfBase36_single c (hascii c hc)]
      cases intChar pyB36 c with
      | error e => rfl
      | ok v => simp only [map_ok, bind_ok, pure_ok, id]; rw [strOfInt_natCast_eq])
  simp only [bind_ok, Py.chars, hmap]
  cases number.mapM (fun x => do
      let v ← intChar pyB36 x
      pure (natToStr v)) with
  | error e => rfl
  | ok parts => simp only [map_ok, bind_ok, pure_ok, List.map_id, join_nil_left]

/-- the digits `_to_base10` produces -/
theorem toBase10_digits (number s : Str) (h : Mod9710.toBase10 pyB36 number = .ok s) :
    AllIn isAsciiDigit s := by
  unfold Mod9710.toBase10 at h
  cases hm : number.mapM (fun x => do
      let v ← intChar pyB36 x
      pure (natToStr v)) with
  | error e => rw [hm] at h; cases h
  | ok parts =>
    rw [hm] at h
    cases h
    intro c hc
    obtain ⟨part, hpart, hcp⟩ := List.mem_flatten.mp hc
    obtain ⟨x, _, hx⟩ := mem_of_mapM_ok _ _ parts hm part hpart
    cases hv : intChar pyB36 x with
    | error e => rw [hv] at hx; cases hx
    | ok v =>
      rw [hv] at hx
      cases hx
      rw [natToStr_eq] at hcp
      exact strOfNat_allDigits v c hcp

theorem mod_97_10_checksum_eq (number : Str) (hascii : ∀ c ∈ number, c < 128) :
    Gen.iso7064_mod_97_10.checksum number =
      natCast <$> Mod9710.checksum pyB36 defaultMaxDigits number := by
  unfold Gen.iso7064_mod_97_10.checksum Mod9710.checksum
  rw [mod_97_10_to_base10_eq number hascii]
  cases hs : Mod9710.toBase10 pyB36 number with
  | error e => rfl
  | ok s =>
    simp only [bind_ok]
    rw [intOf_eq_pyInt s (toBase10_digits number s hs)]
    cases pyInt defaultMaxDigits s with
    | error e => rfl
    | ok v =>
      simp only [map_ok, bind_ok, pure_ok, natCast]
      congr 1

/-- on non-ASCII input the generated `checksum` raises `UnicodeError`, the model `ValueError` -/
theorem mod_97_10_checksum_nonascii (number : Str) (h : ¬ ∀ c ∈ number, c < 128) :
    Gen.iso7064_mod_97_10.checksum number = .error .unicodeError ∧
      Mod9710.checksum pyB36 defaultMaxDigits number = .error .valueError := by
  constructor
  · unfold Gen.iso7064_mod_97_10.checksum Gen.iso7064_mod_97_10._to_base10
    rw [asciiOnly_of_not_ascii h]
    rfl
  · unfold Mod9710.checksum Mod9710.toBase10
    have : number.mapM (fun x => do
        let v ← intChar pyB36 x
        pure (natToStr v)) = .error .valueError := by
      apply mapM_error_of_mem
      · intro c _ e he
        unfold intChar at he
        cases hb : pyB36 c with
        | none => rw [hb] at he; cases he; rfl
        | some v => rw [hb] at he; cases he
      · have : ∃ c ∈ number, ¬ c < 128 := by
          apply Classical.byContradiction
          intro hno
          apply h
          intro c hc
          apply Classical.byContradiction
          intro hlt
          exact hno ⟨c, hc, hlt⟩
        obtain ⟨c, hc, hlt⟩ := this
        refine ⟨c, hc, .valueError, ?_⟩
        unfold intChar pyB36
        rw [if_neg hlt]
        rfl
    rw [this]
    rfl

theorem mod_97_10_validate_eq (number : Str) :
    Gen.iso7064_mod_97_10.validate number = Mod9710.validate pyB36 defaultMaxDigits number := by
  unfold Gen.iso7064_mod_97_10.validate Mod9710.validate validateBody
  by_cases hascii : ∀ c ∈ number, c < 128
  · rw [mod_97_10_checksum_eq number hascii]
    validate_tac (Mod9710.checksum pyB36 defaultMaxDigits number), 1
  · obtain ⟨h1, h2⟩ := mod_97_10_checksum_nonascii number hascii
    rw [h1, h2]
    simp [tryCatch, tryCatchThe, MonadExceptOf.tryCatch, Except.tryCatch, tryExcept, Exc.caughtBy]

theorem mod_97_10_checksum_lt {number : Str} {ck : Nat}
    (h : Mod9710.checksum pyB36 defaultMaxDigits number = .ok ck) : ck < 97 := by
  unfold Mod9710.checksum at h
  cases hs : Mod9710.toBase10 pyB36 number with
  | error e => rw [hs] at h; cases h
  | ok s =>
    rw [hs] at h
    simp only [bind_ok] at h
    cases hv : pyInt defaultMaxDigits s with
    | error e => rw [hv] at h; cases h
    | ok v =>
      rw [hv] at h
      cases h
      exact Nat.mod_lt _ (by decide)

theorem mod_97_10_calc_check_digits_eq (number : Str) (hascii : ∀ c ∈ number, c < 128) :
    Gen.iso7064_mod_97_10.calc_check_digits number =
      Mod9710.calc_check_digits pyB36 defaultMaxDigits number := by
  unfold Gen.iso7064_mod_97_10.calc_check_digits Mod9710.calc_check_digits
  have hascii' : ∀ c ∈ number ++ [48, 48], c < 128 := by
    intro c hc
    rcases List.mem_append.mp hc with h | h
    · exact hascii c h
    · simp at h; omega
  rw [mod_97_10_checksum_eq _ hascii']
  cases hck : Mod9710.checksum pyB36 defaultMaxDigits (number ++ [48, 48]) with
  | error e => rfl
  | ok ck =>
    have hlt := mod_97_10_checksum_lt hck
    simp only [map_ok, bind_ok, pure_ok]
    have : (98 : Int) - natCast ck = natCast (98 - ck) := by simp only [natCast]; omega
    rw [this, fmtD2_natCast]

theorem mod_97_10_is_valid_eq (number : Str) :
    Gen.iso7064_mod_97_10.is_valid number = Mod9710.is_valid pyB36 defaultMaxDigits number := by
  unfold Gen.iso7064_mod_97_10.is_valid Mod9710.is_valid isValidOf
  rw [mod_97_10_validate_eq]
  is_valid_tac (Mod9710.validate pyB36 defaultMaxDigits number)

/-! # Part 2 — the C06 guarantees, stated on the generated functions

Every statement is the one of `Props/C06.lean` with the model function replaced by the regenerated one
(`Gen.luhn.validate` …); all are for words of **every length**.  `alphabet` is any string without repeated
characters (Luhn: of even length, which covers the decimal, hexadecimal and base-36 alphabets and "mod N" for
every even N; mod_37_2: odd length; mod_37_36: even length). -/

theorem ascii_of_alnum {p : Str} (hp : AllIn isAsciiAlnum p) : ∀ c ∈ p, c < 128 := by
  intro c hc
  have := hp c hc
  simp only [isAsciiAlnum, isAsciiDigit, isAsciiAlpha, isAsciiUpper, isAsciiLower, Bool.or_eq_true,
    Bool.and_eq_true, decide_eq_true_eq] at this
  omega

/-! ## Luhn -/

theorem gen_luhn_append_valid (alphabet p : Str) (hnd : alphabet.Nodup) (hal : alphabet ≠ [])
    (hp : ∀ c ∈ p, c ∈ alphabet) :
    ∃ c, Gen.luhn.calc_check_digit p alphabet = .ok [c] ∧
      Gen.luhn.validate (p ++ [c]) alphabet = .ok (p ++ [c]) := by
  simp only [luhn_calc_check_digit_eq, luhn_validate_eq]
  exact luhn_append_valid alphabet p hnd hal hp

theorem gen_luhn_check_unique (alphabet p : Str) (c : Nat) (hnd : alphabet.Nodup)
    (hp : ∀ x ∈ p, x ∈ alphabet) (hc : c ∈ alphabet) :
    isOk (Gen.luhn.validate (p ++ [c]) alphabet) = true ↔ Gen.luhn.calc_check_digit p alphabet = .ok [c] := by
  simp only [luhn_calc_check_digit_eq, luhn_validate_eq]
  exact luhn_check_unique alphabet p c hnd hp hc

theorem gen_luhn_subst_detected (alphabet u v : Str) (a b : Nat)
    (hev : alphabet.length % 2 = 0) (hw : ∀ c ∈ u ++ a :: v, c ∈ alphabet) (hb : b ∈ alphabet) (hab : a ≠ b)
    (hvalid : isOk (Gen.luhn.validate (u ++ a :: v) alphabet) = true) :
    Gen.luhn.validate (u ++ b :: v) alphabet = .error .invalidChecksum := by
  simp only [luhn_validate_eq] at hvalid ⊢
  exact luhn_subst_detected alphabet u v a b hev hw hb hab hvalid

theorem gen_luhn_swap_undetected_iff (alphabet u v : Str) (a b : Nat) (hnd : alphabet.Nodup)
    (hev : alphabet.length % 2 = 0) (hw : ∀ c ∈ u ++ a :: b :: v, c ∈ alphabet) (hab : a ≠ b)
    (hvalid : isOk (Gen.luhn.validate (u ++ a :: b :: v) alphabet) = true) :
    Gen.luhn.validate (u ++ b :: a :: v) alphabet =
      (if (alphabet[0]? = some a ∧ alphabet[alphabet.length - 1]? = some b) ∨
          (alphabet[alphabet.length - 1]? = some a ∧ alphabet[0]? = some b)
       then .ok (u ++ b :: a :: v) else .error .invalidChecksum) := by
  simp only [luhn_validate_eq] at hvalid ⊢
  exact luhn_swap_undetected_iff alphabet u v a b hnd hev hw hab hvalid

/-! ## Verhoeff -/

theorem gen_verhoeff_append_valid (p : Str) (hp : AllIn isAsciiDigit p) :
    ∃ c, Gen.verhoeff.calc_check_digit p = .ok [c] ∧ isAsciiDigit c = true ∧
      Gen.verhoeff.validate (p ++ [c]) = .ok (p ++ [c]) := by
  simp only [verhoeff_calc_check_digit_eq, verhoeff_validate_eq]
  exact verhoeff_append_valid pyDec pyDec_extends p hp

theorem gen_verhoeff_check_unique (p : Str) (c : Nat) (hp : AllIn isAsciiDigit p)
    (hc : isAsciiDigit c = true) :
    isOk (Gen.verhoeff.validate (p ++ [c])) = true ↔ Gen.verhoeff.calc_check_digit p = .ok [c] := by
  simp only [verhoeff_calc_check_digit_eq, verhoeff_validate_eq]
  exact verhoeff_check_unique pyDec pyDec_extends p c hp hc

theorem gen_verhoeff_subst_detected (u v : Str) (a b : Nat)
    (hw : AllIn isAsciiDigit (u ++ a :: v)) (hb : isAsciiDigit b = true) (hab : a ≠ b)
    (hvalid : isOk (Gen.verhoeff.validate (u ++ a :: v)) = true) :
    Gen.verhoeff.validate (u ++ b :: v) = .error .invalidChecksum := by
  simp only [verhoeff_validate_eq] at hvalid ⊢
  exact verhoeff_subst_detected pyDec pyDec_extends u v a b hw hb hab hvalid

theorem gen_verhoeff_swap_detected (u v : Str) (a b : Nat)
    (hw : AllIn isAsciiDigit (u ++ a :: b :: v)) (hab : a ≠ b)
    (hvalid : isOk (Gen.verhoeff.validate (u ++ a :: b :: v)) = true) :
    Gen.verhoeff.validate (u ++ b :: a :: v) = .error .invalidChecksum := by
  simp only [verhoeff_validate_eq] at hvalid ⊢
  exact verhoeff_swap_detected pyDec pyDec_extends u v a b hw hab hvalid

/-! ## Damm (default table) -/

theorem damm_validate_eq_none (number : Str) :
    Gen.damm.validate number none = Damm.validate pyDec number none := damm_validate_eq number none
theorem damm_calc_check_digit_eq_none (number : Str) :
    Gen.damm.calc_check_digit number none = Damm.calc_check_digit pyDec number none :=
  damm_calc_check_digit_eq number none

theorem gen_damm_append_valid (p : Str) (hp : AllIn isAsciiDigit p) :
    ∃ c, Gen.damm.calc_check_digit p none = .ok [c] ∧ isAsciiDigit c = true ∧
      Gen.damm.validate (p ++ [c]) none = .ok (p ++ [c]) := by
  simp only [damm_calc_check_digit_eq_none, damm_validate_eq_none]
  exact damm_append_valid pyDec pyDec_extends p hp

theorem gen_damm_check_unique (p : Str) (c : Nat) (hp : AllIn isAsciiDigit p) (hc : isAsciiDigit c = true) :
    isOk (Gen.damm.validate (p ++ [c]) none) = true ↔ Gen.damm.calc_check_digit p none = .ok [c] := by
  simp only [damm_calc_check_digit_eq_none, damm_validate_eq_none]
  exact damm_check_unique pyDec pyDec_extends p c hp hc

theorem gen_damm_subst_detected (u v : Str) (a b : Nat)
    (hw : AllIn isAsciiDigit (u ++ a :: v)) (hb : isAsciiDigit b = true) (hab : a ≠ b)
    (hvalid : isOk (Gen.damm.validate (u ++ a :: v) none) = true) :
    Gen.damm.validate (u ++ b :: v) none = .error .invalidChecksum := by
  simp only [damm_validate_eq_none] at hvalid ⊢
  exact damm_subst_detected pyDec pyDec_extends u v a b hw hb hab hvalid

theorem gen_damm_swap_detected (u v : Str) (a b : Nat)
    (hw : AllIn isAsciiDigit (u ++ a :: b :: v)) (hab : a ≠ b)
    (hvalid : isOk (Gen.damm.validate (u ++ a :: b :: v) none) = true) :
    Gen.damm.validate (u ++ b :: a :: v) none = .error .invalidChecksum := by
  simp only [damm_validate_eq_none] at hvalid ⊢
  exact damm_swap_detected pyDec pyDec_extends u v a b hw hab hvalid

/-! ## mod_11_2 (words over `0-9X`; `X` is accepted at every position by the code) -/

theorem gen_mod_11_2_append_valid (p : Str) (hp : AllIn isD11 p) :
    ∃ c, Gen.iso7064_mod_11_2.calc_check_digit p = .ok [c] ∧ isD11 c = true ∧
      Gen.iso7064_mod_11_2.validate (p ++ [c]) = .ok (p ++ [c]) := by
  simp only [mod_11_2_calc_check_digit_eq, mod_11_2_validate_eq]
  exact mod_11_2_append_valid pyDec pyDec_extends p hp

theorem gen_mod_11_2_check_unique (p : Str) (c : Nat) (hp : AllIn isD11 p) (hc : isD11 c = true) :
    isOk (Gen.iso7064_mod_11_2.validate (p ++ [c])) = true ↔
      Gen.iso7064_mod_11_2.calc_check_digit p = .ok [c] := by
  simp only [mod_11_2_calc_check_digit_eq, mod_11_2_validate_eq]
  exact mod_11_2_check_unique pyDec pyDec_extends p c hp hc

theorem gen_mod_11_2_subst_detected (u v : Str) (a b : Nat)
    (hw : AllIn isD11 (u ++ a :: v)) (hb : isD11 b = true) (hab : a ≠ b)
    (hvalid : isOk (Gen.iso7064_mod_11_2.validate (u ++ a :: v)) = true) :
    Gen.iso7064_mod_11_2.validate (u ++ b :: v) = .error .invalidChecksum := by
  simp only [mod_11_2_validate_eq] at hvalid ⊢
  exact mod_11_2_subst_detected pyDec pyDec_extends u v a b hw hb hab hvalid

theorem gen_mod_11_2_swap_detected (u v : Str) (a b : Nat)
    (hw : AllIn isD11 (u ++ a :: b :: v)) (hab : a ≠ b)
    (hvalid : isOk (Gen.iso7064_mod_11_2.validate (u ++ a :: b :: v)) = true) :
    Gen.iso7064_mod_11_2.validate (u ++ b :: a :: v) = .error .invalidChecksum := by
  simp only [mod_11_2_validate_eq] at hvalid ⊢
  exact mod_11_2_swap_detected pyDec pyDec_extends u v a b hw hab hvalid

/-! ## mod_37_2 -/

theorem gen_mod_37_2_append_valid (alphabet p : Str) (hnd : alphabet.Nodup) (hm : 2 ≤ alphabet.length)
    (hp : ∀ c ∈ p, c ∈ alphabet) :
    ∃ c, Gen.iso7064_mod_37_2.calc_check_digit p alphabet = .ok [c] ∧
      Gen.iso7064_mod_37_2.validate (p ++ [c]) alphabet = .ok (p ++ [c]) := by
  simp only [mod_37_2_calc_check_digit_eq, mod_37_2_validate_eq]
  exact mod_37_2_append_valid alphabet p hnd hm hp

theorem gen_mod_37_2_check_unique (alphabet p : Str) (c : Nat) (hnd : alphabet.Nodup)
    (hm : 2 ≤ alphabet.length) (hp : ∀ x ∈ p, x ∈ alphabet) (hc : c ∈ alphabet) :
    isOk (Gen.iso7064_mod_37_2.validate (p ++ [c]) alphabet) = true ↔
      Gen.iso7064_mod_37_2.calc_check_digit p alphabet = .ok [c] := by
  simp only [mod_37_2_calc_check_digit_eq, mod_37_2_validate_eq]
  exact mod_37_2_check_unique alphabet p c hnd hm hp hc

theorem gen_mod_37_2_subst_detected (alphabet u v : Str) (a b : Nat) (hodd : alphabet.length % 2 = 1)
    (hw : ∀ c ∈ u ++ a :: v, c ∈ alphabet) (hb : b ∈ alphabet) (hab : a ≠ b)
    (hvalid : isOk (Gen.iso7064_mod_37_2.validate (u ++ a :: v) alphabet) = true) :
    Gen.iso7064_mod_37_2.validate (u ++ b :: v) alphabet = .error .invalidChecksum := by
  simp only [mod_37_2_validate_eq] at hvalid ⊢
  exact mod_37_2_subst_detected alphabet u v a b hodd hw hb hab hvalid

theorem gen_mod_37_2_swap_detected (alphabet u v : Str) (a b : Nat) (hodd : alphabet.length % 2 = 1)
    (hw : ∀ c ∈ u ++ a :: b :: v, c ∈ alphabet) (hab : a ≠ b)
    (hvalid : isOk (Gen.iso7064_mod_37_2.validate (u ++ a :: b :: v) alphabet) = true) :
    Gen.iso7064_mod_37_2.validate (u ++ b :: a :: v) alphabet = .error .invalidChecksum := by
  simp only [mod_37_2_validate_eq] at hvalid ⊢
  exact mod_37_2_swap_detected alphabet u v a b hodd hw hab hvalid

/-! ## mod_11_10 -/

theorem gen_mod_11_10_append_valid (p : Str) (hp : AllIn isAsciiDigit p) :
    ∃ c, Gen.iso7064_mod_11_10.calc_check_digit p = .ok [c] ∧ isAsciiDigit c = true ∧
      Gen.iso7064_mod_11_10.validate (p ++ [c]) = .ok (p ++ [c]) := by
  simp only [mod_11_10_calc_check_digit_eq, mod_11_10_validate_eq]
  exact mod_11_10_append_valid pyDec pyDec_extends p hp

theorem gen_mod_11_10_check_unique (p : Str) (c : Nat) (hp : AllIn isAsciiDigit p)
    (hc : isAsciiDigit c = true) :
    isOk (Gen.iso7064_mod_11_10.validate (p ++ [c])) = true ↔
      Gen.iso7064_mod_11_10.calc_check_digit p = .ok [c] := by
  simp only [mod_11_10_calc_check_digit_eq, mod_11_10_validate_eq]
  exact mod_11_10_check_unique pyDec pyDec_extends p c hp hc

theorem gen_mod_11_10_subst_detected (u v : Str) (a b : Nat)
    (hw : AllIn isAsciiDigit (u ++ a :: v)) (hb : isAsciiDigit b = true) (hab : a ≠ b)
    (hvalid : isOk (Gen.iso7064_mod_11_10.validate (u ++ a :: v)) = true) :
    Gen.iso7064_mod_11_10.validate (u ++ b :: v) = .error .invalidChecksum := by
  simp only [mod_11_10_validate_eq] at hvalid ⊢
  exact mod_11_10_subst_detected pyDec pyDec_extends u v a b hw hb hab hvalid

/-- adjacent transposition, what precisely holds for the hybrid system (see `Props.C06`): missed iff the running
checksums after the first of the two digits are 5 and 6 -/
theorem gen_mod_11_10_swap_undetected_iff (u v : Str) (a b : Nat)
    (hw : AllIn isAsciiDigit (u ++ a :: b :: v)) (hab : a ≠ b)
    (hvalid : isOk (Gen.iso7064_mod_11_10.validate (u ++ a :: b :: v)) = true) :
    let missed :=
      (Gen.iso7064_mod_11_10.checksum (u ++ [a]) = .ok 5 ∧ Gen.iso7064_mod_11_10.checksum (u ++ [b]) = .ok 6) ∨
      (Gen.iso7064_mod_11_10.checksum (u ++ [b]) = .ok 5 ∧ Gen.iso7064_mod_11_10.checksum (u ++ [a]) = .ok 6)
    (missed → Gen.iso7064_mod_11_10.validate (u ++ b :: a :: v) = .ok (u ++ b :: a :: v)) ∧
    (¬ missed → Gen.iso7064_mod_11_10.validate (u ++ b :: a :: v) = .error .invalidChecksum) := by
  have key : ∀ (w : Str) (k : Nat), Gen.iso7064_mod_11_10.checksum w = .ok (k : Int) ↔
      Mod1110.checksum pyDec w = .ok k := by
    intro w k
    rw [mod_11_10_checksum_eq]
    cases Mod1110.checksum pyDec w with
    | error e => simp
    | ok c => simp only [map_ok, Except.ok.injEq, natCast]; omega
  have h5 : ∀ w, Gen.iso7064_mod_11_10.checksum w = .ok 5 ↔ Mod1110.checksum pyDec w = .ok 5 :=
    fun w => key w 5
  have h6 : ∀ w, Gen.iso7064_mod_11_10.checksum w = .ok 6 ↔ Mod1110.checksum pyDec w = .ok 6 :=
    fun w => key w 6
  simp only [mod_11_10_validate_eq, h5, h6] at hvalid ⊢
  exact mod_11_10_swap_undetected_iff pyDec pyDec_extends u v a b hw hab hvalid

/-- the witness: `560` and `650` are both accepted by the generated `validate` -/
theorem gen_mod_11_10_swap_not_always_detected :
    Gen.iso7064_mod_11_10.validate [53, 54, 48] = .ok [53, 54, 48] ∧
    Gen.iso7064_mod_11_10.validate [54, 53, 48] = .ok [54, 53, 48] := by
  constructor <;> decide +kernel

/-! ## mod_37_36 -/

theorem gen_mod_37_36_append_valid (alphabet p : Str) (hnd : alphabet.Nodup) (hm : 2 ≤ alphabet.length)
    (hp : ∀ c ∈ p, c ∈ alphabet) :
    ∃ c, Gen.iso7064_mod_37_36.calc_check_digit p alphabet = .ok [c] ∧
      Gen.iso7064_mod_37_36.validate (p ++ [c]) alphabet = .ok (p ++ [c]) := by
  simp only [mod_37_36_calc_check_digit_eq, mod_37_36_validate_eq]
  exact mod_37_36_append_valid alphabet p hnd hm hp

theorem gen_mod_37_36_check_unique (alphabet p : Str) (c : Nat) (hnd : alphabet.Nodup)
    (hm : 2 ≤ alphabet.length) (hp : ∀ x ∈ p, x ∈ alphabet) (hc : c ∈ alphabet) :
    isOk (Gen.iso7064_mod_37_36.validate (p ++ [c]) alphabet) = true ↔
      Gen.iso7064_mod_37_36.calc_check_digit p alphabet = .ok [c] := by
  simp only [mod_37_36_calc_check_digit_eq, mod_37_36_validate_eq]
  exact mod_37_36_check_unique alphabet p c hnd hm hp hc

theorem gen_mod_37_36_subst_detected (alphabet u v : Str) (a b : Nat) (hev : alphabet.length % 2 = 0)
    (hw : ∀ c ∈ u ++ a :: v, c ∈ alphabet) (hb : b ∈ alphabet) (hab : a ≠ b)
    (hvalid : isOk (Gen.iso7064_mod_37_36.validate (u ++ a :: v) alphabet) = true) :
    Gen.iso7064_mod_37_36.validate (u ++ b :: v) alphabet = .error .invalidChecksum := by
  simp only [mod_37_36_validate_eq] at hvalid ⊢
  exact mod_37_36_subst_detected alphabet u v a b hev hw hb hab hvalid

theorem gen_mod_37_36_swap_undetected_iff (alphabet u v : Str) (a b : Nat)
    (hev : alphabet.length % 2 = 0) (hw : ∀ c ∈ u ++ a :: b :: v, c ∈ alphabet) (hab : a ≠ b)
    (hvalid : isOk (Gen.iso7064_mod_37_36.validate (u ++ a :: b :: v) alphabet) = true) :
    let missed :=
      (Gen.iso7064_mod_37_36.checksum (u ++ [a]) alphabet = .ok ((alphabet.length / 2 : Nat) : Int) ∧
        Gen.iso7064_mod_37_36.checksum (u ++ [b]) alphabet =
          .ok (((alphabet.length / 2 + 1) % alphabet.length : Nat) : Int)) ∨
      (Gen.iso7064_mod_37_36.checksum (u ++ [b]) alphabet = .ok ((alphabet.length / 2 : Nat) : Int) ∧
        Gen.iso7064_mod_37_36.checksum (u ++ [a]) alphabet =
          .ok (((alphabet.length / 2 + 1) % alphabet.length : Nat) : Int))
    (missed → Gen.iso7064_mod_37_36.validate (u ++ b :: a :: v) alphabet = .ok (u ++ b :: a :: v)) ∧
    (¬ missed → Gen.iso7064_mod_37_36.validate (u ++ b :: a :: v) alphabet = .error .invalidChecksum) := by
  have key : ∀ (w : Str) (k : Nat), Gen.iso7064_mod_37_36.checksum w alphabet = .ok (k : Int) ↔
      Mod3736.checksum w alphabet = .ok k := by
    intro w k
    rw [mod_37_36_checksum_eq]
    cases Mod3736.checksum w alphabet with
    | error e => simp
    | ok c => simp only [map_ok, Except.ok.injEq, natCast]; omega
  simp only [mod_37_36_validate_eq, key] at hvalid ⊢
  exact mod_37_36_swap_undetected_iff alphabet u v a b hev hw hab hvalid

/-- the witness: `901` and `910` are both accepted by the generated `validate` (default alphabet) -/
theorem gen_mod_37_36_swap_not_always_detected :
    Gen.iso7064_mod_37_36.validate [57, 48, 49] Mod3736.defaultAlphabet = .ok [57, 48, 49] ∧
    Gen.iso7064_mod_37_36.validate [57, 49, 48] Mod3736.defaultAlphabet = .ok [57, 49, 48] := by
  constructor <;> decide +kernel

/-! ## mod_97_10

`append_valid` is false at unbounded length for the real code (CPython's 4300-digit limit of `int()`), see
`Props.C06.mod_97_10_append_valid_fails_at_4299`; the statement below carries the hypothesis that the limit is not
hit, and `gen_mod_97_10_append_valid_fails_at_4299` shows the failure on the generated functions. -/

/- full statement (false, see `gen_mod_97_10_append_valid_fails_at_4299`):
   AllIn isAsciiAlnum p → ∃ c1 c2, calc_check_digits p = .ok [c1, c2] ∧ validate (p ++ [c1, c2]) = .ok … -/
theorem gen_mod_97_10_append_valid_partial (p : Str) (hp : AllIn isAsciiAlnum p)
    (hfit : Mod9710.width (p.map b36Val) + 2 ≤ 4300) :
    ∃ c1 c2, Gen.iso7064_mod_97_10.calc_check_digits p = .ok [c1, c2] ∧ isAsciiDigit c1 = true ∧
      isAsciiDigit c2 = true ∧ Gen.iso7064_mod_97_10.validate (p ++ [c1, c2]) = .ok (p ++ [c1, c2]) := by
  simp only [mod_97_10_calc_check_digits_eq p (ascii_of_alnum hp), mod_97_10_validate_eq]
  exact mod_97_10_append_valid_partial pyB36 pyB36_extends defaultMaxDigits p hp (Or.inr hfit)

theorem gen_mod_97_10_calc_fails_when_long (p : Str) (hp : AllIn isAsciiAlnum p)
    (hlong : 4300 < Mod9710.width (p.map b36Val) + 2) :
    Gen.iso7064_mod_97_10.calc_check_digits p = .error .valueError := by
  rw [mod_97_10_calc_check_digits_eq p (ascii_of_alnum hp)]
  exact mod_97_10_calc_fails_when_long pyB36 pyB36_extends defaultMaxDigits p hp (by decide) hlong

theorem gen_mod_97_10_nothing_valid_when_long (p : Str) (c1 c2 : Nat) (hp : AllIn isAsciiAlnum p)
    (h1 : isAsciiDigit c1 = true) (h2 : isAsciiDigit c2 = true)
    (hlong : 4300 < Mod9710.width (p.map b36Val) + 2) :
    Gen.iso7064_mod_97_10.validate (p ++ [c1, c2]) = .error .invalidFormat := by
  rw [mod_97_10_validate_eq]
  exact mod_97_10_nothing_valid_when_long pyB36 pyB36_extends defaultMaxDigits p c1 c2 hp h1 h2 (by decide) hlong

/-- **append-valid is false at unbounded length** for the generated functions: for the payload `'0' * 4299`
`calc_check_digits` raises ValueError and no pair of check digits validates -/
theorem gen_mod_97_10_append_valid_fails_at_4299 :
    Gen.iso7064_mod_97_10.calc_check_digits (List.replicate 4299 48) = .error .valueError ∧
    ∀ c1 c2, isAsciiDigit c1 = true → isAsciiDigit c2 = true →
      Gen.iso7064_mod_97_10.validate (List.replicate 4299 48 ++ [c1, c2]) = .error .invalidFormat := by
  have hp : AllIn isAsciiAlnum (List.replicate 4299 48) := by
    intro c hc
    rw [List.eq_of_mem_replicate hc]; rfl
  have hw : 4300 < Mod9710.width ((List.replicate 4299 48).map b36Val) + 2 := by
    rw [width_replicate_zero]; decide
  exact ⟨gen_mod_97_10_calc_fails_when_long _ hp hw,
    fun c1 c2 h1 h2 => gen_mod_97_10_nothing_valid_when_long _ c1 c2 hp h1 h2 hw⟩

theorem gen_mod_97_10_check_iff (p : Str) (c1 c2 : Nat) (hp : AllIn isAsciiAlnum p)
    (h1 : isAsciiDigit c1 = true) (h2 : isAsciiDigit c2 = true)
    (hfit : Mod9710.width (p.map b36Val) + 2 ≤ 4300) :
    ∃ k1 k2, Gen.iso7064_mod_97_10.calc_check_digits p = .ok [k1, k2] ∧
      (isOk (Gen.iso7064_mod_97_10.validate (p ++ [c1, c2])) = true ↔
        ((c1 - 48) * 10 + (c2 - 48)) % 97 = ((k1 - 48) * 10 + (k2 - 48)) % 97) := by
  simp only [mod_97_10_calc_check_digits_eq p (ascii_of_alnum hp), mod_97_10_validate_eq]
  exact mod_97_10_check_iff pyB36 pyB36_extends defaultMaxDigits p c1 c2 hp h1 h2 (Or.inr hfit)

theorem gen_mod_97_10_check_unique_in_range (p : Str) (c1 c2 : Nat) (hp : AllIn isAsciiAlnum p)
    (h1 : isAsciiDigit c1 = true) (h2 : isAsciiDigit c2 = true)
    (hfit : Mod9710.width (p.map b36Val) + 2 ≤ 4300)
    (hr1 : 2 ≤ (c1 - 48) * 10 + (c2 - 48)) (hr2 : (c1 - 48) * 10 + (c2 - 48) ≤ 98) :
    isOk (Gen.iso7064_mod_97_10.validate (p ++ [c1, c2])) = true ↔
      Gen.iso7064_mod_97_10.calc_check_digits p = .ok [c1, c2] := by
  simp only [mod_97_10_calc_check_digits_eq p (ascii_of_alnum hp), mod_97_10_validate_eq]
  exact mod_97_10_check_unique_in_range pyB36 pyB36_extends defaultMaxDigits p c1 c2 hp h1 h2 (Or.inr hfit) hr1 hr2

/-- single substitution by a character of the same kind (digit for digit, letter for letter) with a
different value (`a`/`A` have the same value) -/
theorem gen_mod_97_10_subst_detected (u v : Str) (a b : Nat)
    (hw : AllIn isAsciiAlnum (u ++ a :: v)) (hb : isAsciiAlnum b = true)
    (hkind : b36Val a < 10 ↔ b36Val b < 10) (hab : b36Val a ≠ b36Val b)
    (hvalid : isOk (Gen.iso7064_mod_97_10.validate (u ++ a :: v)) = true) :
    Gen.iso7064_mod_97_10.validate (u ++ b :: v) = .error .invalidChecksum := by
  simp only [mod_97_10_validate_eq] at hvalid ⊢
  exact mod_97_10_subst_detected pyB36 pyB36_extends defaultMaxDigits u v a b hw hb hkind hab hvalid

theorem gen_mod_97_10_subst_digit_detected (u v : Str) (a b : Nat)
    (hw : AllIn isAsciiAlnum (u ++ a :: v)) (ha : isAsciiDigit a = true)
    (hb : isAsciiDigit b = true) (hab : a ≠ b)
    (hvalid : isOk (Gen.iso7064_mod_97_10.validate (u ++ a :: v)) = true) :
    Gen.iso7064_mod_97_10.validate (u ++ b :: v) = .error .invalidChecksum := by
  simp only [mod_97_10_validate_eq] at hvalid ⊢
  exact mod_97_10_subst_digit_detected pyB36 pyB36_extends defaultMaxDigits u v a b hw ha hb hab hvalid

theorem gen_mod_97_10_swap_detected (u v : Str) (a b : Nat)
    (hw : AllIn isAsciiAlnum (u ++ a :: b :: v))
    (hkind : b36Val a < 10 ↔ b36Val b < 10) (hab : b36Val a ≠ b36Val b)
    (hvalid : isOk (Gen.iso7064_mod_97_10.validate (u ++ a :: b :: v)) = true) :
    Gen.iso7064_mod_97_10.validate (u ++ b :: a :: v) = .error .invalidChecksum := by
  simp only [mod_97_10_validate_eq] at hvalid ⊢
  exact mod_97_10_swap_detected pyB36 pyB36_extends defaultMaxDigits u v a b hw hkind hab hvalid

theorem gen_mod_97_10_swap_digit_detected (u v : Str) (a b : Nat)
    (hw : AllIn isAsciiAlnum (u ++ a :: b :: v)) (ha : isAsciiDigit a = true)
    (hb : isAsciiDigit b = true) (hab : a ≠ b)
    (hvalid : isOk (Gen.iso7064_mod_97_10.validate (u ++ a :: b :: v)) = true) :
    Gen.iso7064_mod_97_10.validate (u ++ b :: a :: v) = .error .invalidChecksum := by
  simp only [mod_97_10_validate_eq] at hvalid ⊢
  exact mod_97_10_swap_digit_detected pyB36 pyB36_extends defaultMaxDigits u v a b hw ha hb hab hvalid

/-! # Non-vacuity: every corollary instantiated on a concrete number; hypotheses checked by evaluating the
**generated** functions in the kernel -/

/-! Luhn: `78949` (docstring), hex `1a2f9`; the `0`/`9` exception `091`/`901` -/
example : ∃ c, Gen.luhn.calc_check_digit [55, 56, 57, 52] d10 = .ok [c] ∧
    Gen.luhn.validate ([55, 56, 57, 52] ++ [c]) d10 = .ok ([55, 56, 57, 52] ++ [c]) :=
  gen_luhn_append_valid d10 [55, 56, 57, 52] (by decide) (by decide) (by decide)
example : Gen.luhn.calc_check_digit [55, 56, 57, 52] d10 = .ok [57] := by decide +kernel
example : Gen.luhn.validate [55, 56, 57, 52, 57] d10 = .ok [55, 56, 57, 52, 57] := by decide +kernel
example : isOk (Gen.luhn.validate ([55, 56, 57, 52] ++ [57]) d10) = true ↔
    Gen.luhn.calc_check_digit [55, 56, 57, 52] d10 = .ok [57] :=
  gen_luhn_check_unique d10 [55, 56, 57, 52] 57 (by decide) (by decide) (by decide)
example : Gen.luhn.validate [55, 56, 48, 52, 57] d10 = .error .invalidChecksum :=
  gen_luhn_subst_detected d10 [55, 56] [52, 57] 57 48 (by decide) (by decide) (by decide) (by decide)
    (by decide +kernel)
example : Gen.luhn.validate [49, 98, 50, 102, 57] hex16 = .error .invalidChecksum :=
  gen_luhn_subst_detected hex16 [49] [50, 102, 57] 97 98 (by decide) (by decide) (by decide) (by decide)
    (by decide +kernel)
example : Gen.luhn.validate [55, 57, 56, 52, 57] d10 = .error .invalidChecksum := by
  have h := gen_luhn_swap_undetected_iff d10 [55] [52, 57] 56 57 (by decide) (by decide) (by decide)
    (by decide) (by decide +kernel)
  rw [if_neg (by decide)] at h
  exact h
example : Gen.luhn.validate [57, 48, 49] d10 = .ok [57, 48, 49] := by
  have h := gen_luhn_swap_undetected_iff d10 [] [49] 48 57 (by decide) (by decide) (by decide) (by decide)
    (by decide +kernel)
  rw [if_pos (by decide)] at h
  exact h

/-! Verhoeff: `12340` -/
example : ∃ c, Gen.verhoeff.calc_check_digit [49, 50, 51, 52] = .ok [c] ∧ isAsciiDigit c = true ∧
    Gen.verhoeff.validate ([49, 50, 51, 52] ++ [c]) = .ok ([49, 50, 51, 52] ++ [c]) :=
  gen_verhoeff_append_valid [49, 50, 51, 52] (by decide)
example : Gen.verhoeff.calc_check_digit [49, 50, 51, 52] = .ok [48] := by decide +kernel
example : isOk (Gen.verhoeff.validate ([49, 50, 51, 52] ++ [48])) = true ↔
    Gen.verhoeff.calc_check_digit [49, 50, 51, 52] = .ok [48] :=
  gen_verhoeff_check_unique [49, 50, 51, 52] 48 (by decide) (by decide)
example : Gen.verhoeff.validate [49, 55, 51, 52, 48] = .error .invalidChecksum :=
  gen_verhoeff_subst_detected [49] [51, 52, 48] 50 55 (by decide) (by decide) (by decide) (by decide +kernel)
example : Gen.verhoeff.validate [49, 51, 50, 52, 48] = .error .invalidChecksum :=
  gen_verhoeff_swap_detected [49] [52, 48] 50 51 (by decide) (by decide) (by decide +kernel)

/-! Damm: `5724` -/
example : ∃ c, Gen.damm.calc_check_digit [53, 55, 50] none = .ok [c] ∧ isAsciiDigit c = true ∧
    Gen.damm.validate ([53, 55, 50] ++ [c]) none = .ok ([53, 55, 50] ++ [c]) :=
  gen_damm_append_valid [53, 55, 50] (by decide)
example : Gen.damm.calc_check_digit [53, 55, 50] none = .ok [52] := by decide +kernel
example : isOk (Gen.damm.validate ([53, 55, 50] ++ [52]) none) = true ↔
    Gen.damm.calc_check_digit [53, 55, 50] none = .ok [52] :=
  gen_damm_check_unique [53, 55, 50] 52 (by decide) (by decide)
example : Gen.damm.validate [53, 48, 50, 52] none = .error .invalidChecksum :=
  gen_damm_subst_detected [53] [50, 52] 55 48 (by decide) (by decide) (by decide) (by decide +kernel)
example : Gen.damm.validate [53, 50, 55, 52] none = .error .invalidChecksum :=
  gen_damm_swap_detected [53] [52] 55 50 (by decide) (by decide) (by decide +kernel)

/-! mod_11_2: `079X`; `X` in the middle: `1X32` -/
example : ∃ c, Gen.iso7064_mod_11_2.calc_check_digit [48, 55, 57] = .ok [c] ∧ isD11 c = true ∧
    Gen.iso7064_mod_11_2.validate ([48, 55, 57] ++ [c]) = .ok ([48, 55, 57] ++ [c]) :=
  gen_mod_11_2_append_valid [48, 55, 57] (by decide)
example : Gen.iso7064_mod_11_2.calc_check_digit [48, 55, 57] = .ok [88] := by decide +kernel
example : isOk (Gen.iso7064_mod_11_2.validate ([48, 55, 57] ++ [88])) = true ↔
    Gen.iso7064_mod_11_2.calc_check_digit [48, 55, 57] = .ok [88] :=
  gen_mod_11_2_check_unique [48, 55, 57] 88 (by decide) (by decide)
example : Gen.iso7064_mod_11_2.validate [48, 88, 57, 88] = .error .invalidChecksum :=
  gen_mod_11_2_subst_detected [48] [57, 88] 55 88 (by decide) (by decide) (by decide) (by decide +kernel)
example : Gen.iso7064_mod_11_2.validate [48, 55, 88, 57] = .error .invalidChecksum :=
  gen_mod_11_2_swap_detected [48, 55] [] 57 88 (by decide) (by decide) (by decide +kernel)
example : Gen.iso7064_mod_11_2.validate [49, 88, 51, 50] = .ok [49, 88, 51, 50] := by decide +kernel

/-! mod_37_2: `G123489654321Y` -/
example : ∃ c, Gen.iso7064_mod_37_2.calc_check_digit [71, 49, 50, 51, 52, 56, 57, 54, 53, 52, 51, 50, 49] Mod372.defaultAlphabet = .ok [c] ∧
    Gen.iso7064_mod_37_2.validate ([71, 49, 50, 51, 52, 56, 57, 54, 53, 52, 51, 50, 49] ++ [c]) Mod372.defaultAlphabet = .ok ([71, 49, 50, 51, 52, 56, 57, 54, 53, 52, 51, 50, 49] ++ [c]) :=
  gen_mod_37_2_append_valid Mod372.defaultAlphabet [71, 49, 50, 51, 52, 56, 57, 54, 53, 52, 51, 50, 49] (by decide) (by decide) (by decide)
example : Gen.iso7064_mod_37_2.calc_check_digit [71, 49, 50, 51, 52, 56, 57, 54, 53, 52, 51, 50, 49] Mod372.defaultAlphabet = .ok [89] := by decide +kernel
example : isOk (Gen.iso7064_mod_37_2.validate ([71, 49, 50, 51, 52, 56, 57, 54, 53, 52, 51, 50, 49] ++ [89]) Mod372.defaultAlphabet) = true ↔
    Gen.iso7064_mod_37_2.calc_check_digit [71, 49, 50, 51, 52, 56, 57, 54, 53, 52, 51, 50, 49] Mod372.defaultAlphabet = .ok [89] :=
  gen_mod_37_2_check_unique Mod372.defaultAlphabet [71, 49, 50, 51, 52, 56, 57, 54, 53, 52, 51, 50, 49] 89 (by decide) (by decide) (by decide) (by decide)
example : Gen.iso7064_mod_37_2.validate [71, 49, 50, 42, 52, 56, 57, 54, 53, 52, 51, 50, 49, 89] Mod372.defaultAlphabet = .error .invalidChecksum :=
  gen_mod_37_2_subst_detected Mod372.defaultAlphabet [71, 49, 50] [52, 56, 57, 54, 53, 52, 51, 50, 49, 89] 51 42 (by decide) (by decide) (by decide) (by decide) (by decide +kernel)
example : Gen.iso7064_mod_37_2.validate [71, 49, 50, 51, 52, 56, 57, 54, 53, 52, 51, 50, 89, 49] Mod372.defaultAlphabet = .error .invalidChecksum :=
  gen_mod_37_2_swap_detected Mod372.defaultAlphabet [71, 49, 50, 51, 52, 56, 57, 54, 53, 52, 51, 50] [] 49 89 (by decide) (by decide) (by decide) (by decide +kernel)

/-! mod_11_10: `794623` -/
example : ∃ c, Gen.iso7064_mod_11_10.calc_check_digit [55, 57, 52, 54, 50] = .ok [c] ∧ isAsciiDigit c = true ∧
    Gen.iso7064_mod_11_10.validate ([55, 57, 52, 54, 50] ++ [c]) = .ok ([55, 57, 52, 54, 50] ++ [c]) :=
  gen_mod_11_10_append_valid [55, 57, 52, 54, 50] (by decide)
example : Gen.iso7064_mod_11_10.calc_check_digit [55, 57, 52, 54, 50] = .ok [51] := by decide +kernel
example : isOk (Gen.iso7064_mod_11_10.validate ([55, 57, 52, 54, 50] ++ [51])) = true ↔
    Gen.iso7064_mod_11_10.calc_check_digit [55, 57, 52, 54, 50] = .ok [51] :=
  gen_mod_11_10_check_unique [55, 57, 52, 54, 50] 51 (by decide) (by decide)
example : Gen.iso7064_mod_11_10.validate [55, 48, 52, 54, 50, 51] = .error .invalidChecksum :=
  gen_mod_11_10_subst_detected [55] [52, 54, 50, 51] 57 48 (by decide) (by decide) (by decide) (by decide +kernel)
example : Gen.iso7064_mod_11_10.validate [55, 52, 57, 54, 50, 51] = .error .invalidChecksum :=
  (gen_mod_11_10_swap_undetected_iff [55] [54, 50, 51] 57 52 (by decide) (by decide) (by decide +kernel)).2
    (by decide +kernel)

/-! mod_37_36: `A12425GABC1234002M` -/
example : ∃ c, Gen.iso7064_mod_37_36.calc_check_digit [65, 49, 50, 52, 50, 53, 71, 65, 66, 67, 49, 50, 51, 52, 48, 48, 50] Mod3736.defaultAlphabet = .ok [c] ∧
    Gen.iso7064_mod_37_36.validate ([65, 49, 50, 52, 50, 53, 71, 65, 66, 67, 49, 50, 51, 52, 48, 48, 50] ++ [c]) Mod3736.defaultAlphabet = .ok ([65, 49, 50, 52, 50, 53, 71, 65, 66, 67, 49, 50, 51, 52, 48, 48, 50] ++ [c]) :=
  gen_mod_37_36_append_valid Mod3736.defaultAlphabet [65, 49, 50, 52, 50, 53, 71, 65, 66, 67, 49, 50, 51, 52, 48, 48, 50] (by decide) (by decide) (by decide)
example : Gen.iso7064_mod_37_36.calc_check_digit [65, 49, 50, 52, 50, 53, 71, 65, 66, 67, 49, 50, 51, 52, 48, 48, 50] Mod3736.defaultAlphabet = .ok [77] := by decide +kernel
example : isOk (Gen.iso7064_mod_37_36.validate ([65, 49, 50, 52, 50, 53, 71, 65, 66, 67, 49, 50, 51, 52, 48, 48, 50] ++ [77]) Mod3736.defaultAlphabet) = true ↔
    Gen.iso7064_mod_37_36.calc_check_digit [65, 49, 50, 52, 50, 53, 71, 65, 66, 67, 49, 50, 51, 52, 48, 48, 50] Mod3736.defaultAlphabet = .ok [77] :=
  gen_mod_37_36_check_unique Mod3736.defaultAlphabet [65, 49, 50, 52, 50, 53, 71, 65, 66, 67, 49, 50, 51, 52, 48, 48, 50] 77 (by decide) (by decide) (by decide) (by decide)
example : Gen.iso7064_mod_37_36.validate [65, 49, 50, 90, 50, 53, 71, 65, 66, 67, 49, 50, 51, 52, 48, 48, 50, 77] Mod3736.defaultAlphabet = .error .invalidChecksum :=
  gen_mod_37_36_subst_detected Mod3736.defaultAlphabet [65, 49, 50] [50, 53, 71, 65, 66, 67, 49, 50, 51, 52, 48, 48, 50, 77] 52 90 (by decide) (by decide) (by decide) (by decide) (by decide +kernel)
example : Gen.iso7064_mod_37_36.validate [65, 49, 50, 52, 50, 71, 53, 65, 66, 67, 49, 50, 51, 52, 48, 48, 50, 77] Mod3736.defaultAlphabet = .error .invalidChecksum :=
  (gen_mod_37_36_swap_undetected_iff Mod3736.defaultAlphabet [65, 49, 50, 52, 50] [65, 66, 67, 49, 50, 51, 52, 48, 48, 50, 77] 53 71 (by decide) (by decide) (by decide) (by decide +kernel)).2
    (by decide +kernel)

/-! mod_97_10: `9999123456789012141490`; letters `AB323` -/
example : ∃ c1 c2, Gen.iso7064_mod_97_10.calc_check_digits [57, 57, 57, 57, 49, 50, 51, 52, 53, 54, 55, 56, 57, 48, 49, 50, 49, 52, 49, 52] = .ok [c1, c2] ∧
    isAsciiDigit c1 = true ∧ isAsciiDigit c2 = true ∧
    Gen.iso7064_mod_97_10.validate ([57, 57, 57, 57, 49, 50, 51, 52, 53, 54, 55, 56, 57, 48, 49, 50, 49, 52, 49, 52] ++ [c1, c2]) = .ok ([57, 57, 57, 57, 49, 50, 51, 52, 53, 54, 55, 56, 57, 48, 49, 50, 49, 52, 49, 52] ++ [c1, c2]) :=
  gen_mod_97_10_append_valid_partial [57, 57, 57, 57, 49, 50, 51, 52, 53, 54, 55, 56, 57, 48, 49, 50, 49, 52, 49, 52] (by decide) (by decide)
example : Gen.iso7064_mod_97_10.calc_check_digits [57, 57, 57, 57, 49, 50, 51, 52, 53, 54, 55, 56, 57, 48, 49, 50, 49, 52, 49, 52] = .ok [57, 48] := by decide +kernel
example : isOk (Gen.iso7064_mod_97_10.validate ([57, 57, 57, 57, 49, 50, 51, 52, 53, 54, 55, 56, 57, 48, 49, 50, 49, 52, 49, 52] ++ [57, 48])) = true ↔
    Gen.iso7064_mod_97_10.calc_check_digits [57, 57, 57, 57, 49, 50, 51, 52, 53, 54, 55, 56, 57, 48, 49, 50, 49, 52, 49, 52] = .ok [57, 48] :=
  gen_mod_97_10_check_unique_in_range [57, 57, 57, 57, 49, 50, 51, 52, 53, 54, 55, 56, 57, 48, 49, 50, 49, 52, 49, 52] 57 48 (by decide) (by decide) (by decide)
    (by decide) (by decide) (by decide)
example : Gen.iso7064_mod_97_10.validate [57, 57, 57, 57, 55, 50, 51, 52, 53, 54, 55, 56, 57, 48, 49, 50, 49, 52, 49, 52, 57, 48] = .error .invalidChecksum :=
  gen_mod_97_10_subst_digit_detected [57, 57, 57, 57] [50, 51, 52, 53, 54, 55, 56, 57, 48, 49, 50, 49, 52, 49, 52, 57, 48] 49 55 (by decide) (by decide) (by decide)
    (by decide) (by decide +kernel)
example : Gen.iso7064_mod_97_10.validate [57, 57, 57, 57, 50, 49, 51, 52, 53, 54, 55, 56, 57, 48, 49, 50, 49, 52, 49, 52, 57, 48] = .error .invalidChecksum :=
  gen_mod_97_10_swap_digit_detected [57, 57, 57, 57] [51, 52, 53, 54, 55, 56, 57, 48, 49, 50, 49, 52, 49, 52, 57, 48] 49 50 (by decide) (by decide) (by decide)
    (by decide) (by decide +kernel)
example : Gen.iso7064_mod_97_10.validate [65, 67, 51, 50, 51] = .error .invalidChecksum :=
  gen_mod_97_10_subst_detected [65] [51, 50, 51] 66 67 (by decide) (by decide) (by decide) (by decide)
    (by decide +kernel)
example : Gen.iso7064_mod_97_10.validate [66, 65, 51, 50, 51] = .error .invalidChecksum :=
  gen_mod_97_10_swap_detected [] [51, 50, 51] 65 66 (by decide) (by decide) (by decide) (by decide +kernel)
/-- the two check digits are not unique on the generated code either: `9798` and `9701` -/
theorem gen_mod_97_10_check_digits_not_unique :
    Gen.iso7064_mod_97_10.calc_check_digits [57, 55] = .ok [57, 56] ∧
    isOk (Gen.iso7064_mod_97_10.validate [57, 55, 57, 56]) = true ∧
    isOk (Gen.iso7064_mod_97_10.validate [57, 55, 48, 49]) = true := by decide +kernel
/-- a non-ASCII decimal digit (`'٣'`, U+0663) is a legal Verhoeff digit for `int()`, hence for the generated
code and for the model instantiated with `pyDec`; it is rejected by `mod_97_10` (`encode('ascii')`) -/
example : pyDec 0x663 = some 3 := by decide +kernel
example : pyB36 0x663 = none := by decide +kernel

end Props.C06Gen

#print axioms Props.C06Gen.luhn_checksum_eq
#print axioms Props.C06Gen.luhn_validate_eq
#print axioms Props.C06Gen.luhn_calc_check_digit_eq
#print axioms Props.C06Gen.luhn_is_valid_eq
#print axioms Props.C06Gen.verhoeff_mul_eq
#print axioms Props.C06Gen.verhoeff_perm_eq
#print axioms Props.C06Gen.verhoeff_checksum_eq
#print axioms Props.C06Gen.verhoeff_validate_eq
#print axioms Props.C06Gen.verhoeff_calc_check_digit_eq
#print axioms Props.C06Gen.verhoeff_is_valid_eq
#print axioms Props.C06Gen.damm_table_eq
#print axioms Props.C06Gen.mod_37_2_checksum_eq
#print axioms Props.C06Gen.mod_37_2_validate_eq
#print axioms Props.C06Gen.mod_37_2_calc_check_digit_eq
#print axioms Props.C06Gen.mod_37_2_is_valid_eq
#print axioms Props.C06Gen.mod_11_10_checksum_eq
#print axioms Props.C06Gen.mod_11_10_validate_eq
#print axioms Props.C06Gen.mod_11_10_calc_check_digit_eq
#print axioms Props.C06Gen.mod_11_10_is_valid_eq
#print axioms Props.C06Gen.mod_37_36_checksum_eq
#print axioms Props.C06Gen.mod_37_36_validate_eq
#print axioms Props.C06Gen.mod_37_36_calc_check_digit_eq
#print axioms Props.C06Gen.mod_37_36_is_valid_eq
#print axioms Props.C06Gen.mod_97_10_to_base10_eq
#print axioms Props.C06Gen.mod_97_10_checksum_eq
#print axioms Props.C06Gen.mod_97_10_checksum_nonascii
#print axioms Props.C06Gen.mod_97_10_validate_eq
#print axioms Props.C06Gen.mod_97_10_calc_check_digits_eq
#print axioms Props.C06Gen.mod_97_10_is_valid_eq
#print axioms Props.C06Gen.gen_luhn_append_valid
#print axioms Props.C06Gen.gen_luhn_check_unique
#print axioms Props.C06Gen.gen_luhn_subst_detected
#print axioms Props.C06Gen.gen_luhn_swap_undetected_iff
#print axioms Props.C06Gen.gen_verhoeff_append_valid
#print axioms Props.C06Gen.gen_verhoeff_check_unique
#print axioms Props.C06Gen.gen_verhoeff_subst_detected
#print axioms Props.C06Gen.gen_verhoeff_swap_detected
#print axioms Props.C06Gen.gen_mod_37_2_append_valid
#print axioms Props.C06Gen.gen_mod_37_2_check_unique
#print axioms Props.C06Gen.gen_mod_37_2_subst_detected
#print axioms Props.C06Gen.gen_mod_37_2_swap_detected
#print axioms Props.C06Gen.gen_mod_11_10_append_valid
#print axioms Props.C06Gen.gen_mod_11_10_check_unique
#print axioms Props.C06Gen.gen_mod_11_10_subst_detected
#print axioms Props.C06Gen.gen_mod_11_10_swap_undetected_iff
#print axioms Props.C06Gen.gen_mod_11_10_swap_not_always_detected
#print axioms Props.C06Gen.gen_mod_37_36_append_valid
#print axioms Props.C06Gen.gen_mod_37_36_check_unique
#print axioms Props.C06Gen.gen_mod_37_36_subst_detected
#print axioms Props.C06Gen.gen_mod_37_36_swap_undetected_iff
#print axioms Props.C06Gen.gen_mod_37_36_swap_not_always_detected
#print axioms Props.C06Gen.gen_mod_97_10_append_valid_partial
#print axioms Props.C06Gen.gen_mod_97_10_calc_fails_when_long
#print axioms Props.C06Gen.gen_mod_97_10_nothing_valid_when_long
#print axioms Props.C06Gen.gen_mod_97_10_append_valid_fails_at_4299
#print axioms Props.C06Gen.gen_mod_97_10_check_iff
#print axioms Props.C06Gen.gen_mod_97_10_check_unique_in_range
#print axioms Props.C06Gen.gen_mod_97_10_subst_detected
#print axioms Props.C06Gen.gen_mod_97_10_subst_digit_detected
#print axioms Props.C06Gen.gen_mod_97_10_swap_detected
#print axioms Props.C06Gen.gen_mod_97_10_swap_digit_detected
#print axioms Props.C06Gen.gen_mod_97_10_check_digits_not_unique
#print axioms Props.C06Gen.damm_checksum_eq
#print axioms Props.C06Gen.damm_validate_eq
#print axioms Props.C06Gen.damm_calc_check_digit_eq
#print axioms Props.C06Gen.damm_is_valid_eq
#print axioms Props.C06Gen.mod_11_2_checksum_eq
#print axioms Props.C06Gen.mod_11_2_validate_eq
#print axioms Props.C06Gen.mod_11_2_calc_check_digit_eq
#print axioms Props.C06Gen.mod_11_2_is_valid_eq
#print axioms Props.C06Gen.gen_damm_append_valid
#print axioms Props.C06Gen.gen_damm_check_unique
#print axioms Props.C06Gen.gen_damm_subst_detected
#print axioms Props.C06Gen.gen_damm_swap_detected
#print axioms Props.C06Gen.gen_mod_11_2_append_valid
#print axioms Props.C06Gen.gen_mod_11_2_check_unique
#print axioms Props.C06Gen.gen_mod_11_2_subst_detected
#print axioms Props.C06Gen.gen_mod_11_2_swap_detected
