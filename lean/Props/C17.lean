import Gen.imei
import Gen.ca_sin
import Gen.fr_siren
import Gen.in__aadhaar
import Gen.grid
import Gen.lei
import Gen.iso11649
import Gen.isni
import Gen.ean
import Gen.issn
import Gen.isbn
import Gen.ismn
import Gen.se_orgnr
import Gen.in__vid
import Gen.hr_oib
import Gen.de_vat
import Props.C06Gen
import Lemmas.Util
import Lemmas.Strip
import Lemmas.Unicode
import Lemmas.Regex
import Lean.Elab.Term
/-!
# C17 — single typing errors are rejected (on the generated `validate` functions)

For every module below the theorems are about the **generated** function `Gen.M.validate` and hold for all
valid numbers.  The hypothesis is `Gen.M.validate x = .ok v` for an arbitrary input `x` (any presentation);
`v` is then the compact number and the typing error is made in `v` (`x := v` gives the literal form
"`validate v = ok v`", because `validate` returns the compact form it validated).

* `M.single_error`: position `i < |v|`, replacement character `c` of the same kind as `v[i]` (another ASCII
  digit for a digit; another ASCII upper-case letter for a letter) with `c ≠ v[i]`:
  `isOk (Gen.M.validate (v.set i c)) = false`.
* `M.adjacent_swap`: `v[i] ≠ v[i+1]`, both digits: `isOk (Gen.M.validate (swapAdj v i)) = false`.

Part A: formats that delegate to a generic algorithm, through the refinement theorems of `Props/C06Gen.lean`:

| module | theorems | algorithm |
|---|---|---|
| `imei` (15 digits) | `imei_single_error` | Luhn |
| `fr.siren`, `ca.sin` | `fr_siren_single_error`, `ca_sin_single_error` | Luhn |
| `in_.aadhaar` | `aadhaar_single_error`, `aadhaar_adjacent_swap` | Verhoeff |
| `grid` | `grid_single_error` (any other character of `0-9A-Z`) | Mod 37,36 |
| `lei` | `lei_single_error`, `lei_adjacent_swap` (every length `validate` accepts) | Mod 97-10 |
| `iso11649` | `iso11649_single_error`, `iso11649_adjacent_swap` (all positions, 3/4 included) | Mod 97-10 on `number[4:] + number[:4]` |
| `isni` | `isni_single_error`, `isni_adjacent_swap` (ASCII numbers; check character included) | Mod 11-2 |
| `se.orgnr` | `se_orgnr_single_error` | Luhn |
| `in_.vid` | `vid_single_error`, `vid_adjacent_swap` | Verhoeff |
| `hr.oib`, `de.vat` | `hr_oib_single_error`, `de_vat_single_error` | Mod 11,10 |

Part B: weighted sums, by instantiating `Lemmas/Fold.lean` (`detects_subst_local`, `swap_iff`) with the running
weighted sum `wstep wt M` (`run (wstep wt M) 0 0 vals = wsum wt 0 vals % M`); the generated `calc_check_digit`
comprehension is evaluated symbolically for digit strings of every length (`mapM_enum_digits`):

| module | theorems | weights, modulus |
|---|---|---|
| `ean` (8, 12, 13, 14 digits) | `ean_single_error` | 1, 3 from the right, mod 10 |
| `issn` | `issn_single_error`, `issn_adjacent_swap` | 8 … 2, 1 mod 11, `X` = 10 |
| `isbn` (ISBN-10) | `isbn10_single_error`, `isbn10_adjacent_swap` | 1 … 10 mod 11, `X` = 10 |
| `isbn` (ISBN-13) | `isbn13_single_error_partial` (hypothesis: `v` is made of ASCII digits) | via `ean` |
| `ismn` | `ismn13_single_error_partial`, `ismn10_single_error_partial` (same hypothesis) | via `ean` |

Not covered: `iban.validate` is unmodelled by the translator (`_struct_to_re` is a nested function; the registry
type).  `de.idnr` unmodelled (`defaultdict`).
-/
namespace Props.C17
open Py Spec.Checksum Lemmas.Refine Lemmas.Fold Props.C06 Props.C06Gen

/-! ## positions -/

/-- `v` with the characters at positions `i`, `i+1` exchanged (`v` itself when `i + 1 ≥ |v|`) -/
def swapAdj (v : Str) (i : Nat) : Str := (v.set i (v.getD (i + 1) 0)).set (i + 1) (v.getD i 0)

theorem swapAdj_eq (v : Str) (i : Nat) (h : i + 1 < v.length) :
    swapAdj v i = v.take i ++ v[i + 1] :: v[i] :: v.drop (i + 2) := by
  unfold swapAdj
  have h0 := split_at₂ v i h
  have ha : v.getD (i + 1) 0 = v[i + 1] := by
    rw [List.getD_eq_getElem?_getD, List.getElem?_eq_getElem h]; rfl
  have hb : v.getD i 0 = v[i] := by
    rw [List.getD_eq_getElem?_getD, List.getElem?_eq_getElem (by omega)]; rfl
  rw [ha, hb]
  generalize v[i + 1] = a at *
  generalize v[i] = b at *
  have hl : (v.take i).length = i := by simp; omega
  conv => lhs; rw [h0]
  rw [List.set_append_right _ _ (by omega), hl, Nat.sub_self, List.set_cons_zero,
    List.set_append_right _ _ (by omega), hl]
  have : i + 1 - i = 1 := by omega
  rw [this]
  rfl

theorem isOk_false_of_error {α : Type} {x : R α} {e : Exc} (h : x = .error e) : isOk x = false := by
  rw [h]; rfl

theorem isOk_true_of_ok {α : Type} {x : R α} {r : α} (h : x = .ok r) : isOk x = true := by
  rw [h]; rfl

/-- `'0123456789'` -/
theorem mem_d10 {c : Nat} : c ∈ d10 ↔ isAsciiDigit c = true := by
  simp only [d10, isAsciiDigit, Bool.and_eq_true, decide_eq_true_eq, List.mem_cons, List.not_mem_nil,
    or_false]
  omega

theorem allIn_set {p : Nat → Bool} {v : Str} (hv : AllIn p v) (i c : Nat) (hc : p c = true) :
    AllIn p (v.set i c) := by
  intro x hx
  rcases List.mem_or_eq_of_mem_set hx with h | h
  · exact hv x h
  · exact h ▸ hc

theorem allIn_swapAdj {p : Nat → Bool} {v : Str} (hv : AllIn p v) (i : Nat) (h : i + 1 < v.length) :
    AllIn p (swapAdj v i) := by
  unfold swapAdj
  apply allIn_set
  · apply allIn_set hv
    rw [List.getD_eq_getElem?_getD, List.getElem?_eq_getElem h]
    exact hv _ (List.getElem_mem h)
  · rw [List.getD_eq_getElem?_getD, List.getElem?_eq_getElem (by omega)]
    exact hv _ (List.getElem_mem _)

@[simp] theorem swapAdj_length (v : Str) (i : Nat) : (swapAdj v i).length = v.length := by
  simp [swapAdj]

/-! ## the C06 guarantees in positional form (`List.set`, `swapAdj`) on the generated functions -/

theorem gen_luhn_set_detected (alphabet v : Str) (i c : Nat) (hi : i < v.length)
    (hev : alphabet.length % 2 = 0) (hw : ∀ x ∈ v, x ∈ alphabet) (hc : c ∈ alphabet) (hne : c ≠ v[i])
    (hvalid : isOk (Gen.luhn.validate v alphabet) = true) :
    Gen.luhn.validate (v.set i c) alphabet = .error .invalidChecksum := by
  rw [set_eq_split v i c hi]
  have h0 := split_at v i hi
  exact gen_luhn_subst_detected alphabet (v.take i) (v.drop (i + 1)) v[i] c hev (h0 ▸ hw) hc
    (Ne.symm hne) (h0 ▸ hvalid)

theorem gen_verhoeff_set_detected (v : Str) (i c : Nat) (hi : i < v.length)
    (hw : AllIn isAsciiDigit v) (hc : isAsciiDigit c = true) (hne : c ≠ v[i])
    (hvalid : isOk (Gen.verhoeff.validate v) = true) :
    Gen.verhoeff.validate (v.set i c) = .error .invalidChecksum := by
  rw [set_eq_split v i c hi]
  have h0 := split_at v i hi
  exact gen_verhoeff_subst_detected (v.take i) (v.drop (i + 1)) v[i] c (h0 ▸ hw) hc
    (Ne.symm hne) (h0 ▸ hvalid)

theorem gen_verhoeff_swapAdj_detected (v : Str) (i : Nat) (hi : i + 1 < v.length)
    (hw : AllIn isAsciiDigit v) (hne : v[i] ≠ v[i + 1])
    (hvalid : isOk (Gen.verhoeff.validate v) = true) :
    Gen.verhoeff.validate (swapAdj v i) = .error .invalidChecksum := by
  rw [swapAdj_eq v i hi]
  have h0 := split_at₂ v i hi
  exact gen_verhoeff_swap_detected (v.take i) (v.drop (i + 2)) v[i] v[i + 1] (h0 ▸ hw) hne (h0 ▸ hvalid)

theorem gen_mod_37_36_set_detected (alphabet v : Str) (i c : Nat) (hi : i < v.length)
    (hev : alphabet.length % 2 = 0) (hw : ∀ x ∈ v, x ∈ alphabet) (hc : c ∈ alphabet) (hne : c ≠ v[i])
    (hvalid : isOk (Gen.iso7064_mod_37_36.validate v alphabet) = true) :
    Gen.iso7064_mod_37_36.validate (v.set i c) alphabet = .error .invalidChecksum := by
  rw [set_eq_split v i c hi]
  have h0 := split_at v i hi
  exact gen_mod_37_36_subst_detected alphabet (v.take i) (v.drop (i + 1)) v[i] c hev (h0 ▸ hw) hc
    (Ne.symm hne) (h0 ▸ hvalid)

/-- Mod 97-10: replacing a character by one of the same kind (digit/digit or letter/letter) with another
base-36 value -/
theorem gen_mod_97_10_set_detected (v : Str) (i c : Nat) (hi : i < v.length)
    (hw : AllIn isAsciiAlnum v) (hc : isAsciiAlnum c = true)
    (hkind : b36Val v[i] < 10 ↔ b36Val c < 10) (hne : b36Val v[i] ≠ b36Val c)
    (hvalid : isOk (Gen.iso7064_mod_97_10.validate v) = true) :
    Gen.iso7064_mod_97_10.validate (v.set i c) = .error .invalidChecksum := by
  rw [set_eq_split v i c hi]
  have h0 := split_at v i hi
  exact gen_mod_97_10_subst_detected (v.take i) (v.drop (i + 1)) v[i] c (h0 ▸ hw) hc hkind hne
    (h0 ▸ hvalid)

theorem gen_mod_97_10_swapAdj_detected (v : Str) (i : Nat) (hi : i + 1 < v.length)
    (hw : AllIn isAsciiAlnum v) (ha : isAsciiDigit v[i] = true) (hb : isAsciiDigit v[i + 1] = true)
    (hne : v[i] ≠ v[i + 1]) (hvalid : isOk (Gen.iso7064_mod_97_10.validate v) = true) :
    Gen.iso7064_mod_97_10.validate (swapAdj v i) = .error .invalidChecksum := by
  rw [swapAdj_eq v i hi]
  have h0 := split_at₂ v i hi
  exact gen_mod_97_10_swap_digit_detected (v.take i) (v.drop (i + 2)) v[i] v[i + 1] (h0 ▸ hw) ha hb hne
    (h0 ▸ hvalid)

/-! ## shapes: what `validate … = ok v` tells, and `compact` on clean input -/

/-- ASCII digit or ASCII upper-case letter -/
def isDU (c : Nat) : Bool := isAsciiDigit c || isAsciiUpper c

theorem mem_alpha36 {c : Nat} : c ∈ Mod3736.defaultAlphabet ↔ isDU c = true := by
  simp only [Mod3736.defaultAlphabet, isDU, isAsciiDigit, isAsciiUpper, Bool.or_eq_true, Bool.and_eq_true,
    decide_eq_true_eq, List.mem_cons, List.not_mem_nil, or_false]
  omega

theorem upper_no_asciiLower (s : Str) (c : Nat) (h : c ∈ upper s) : isAsciiLower c = false := by
  by_cases hlt : c < 128
  · rcases mem_upper_ascii s c h hlt with ⟨d, _, _, rfl⟩ | ⟨d, _, hsrc, hcd⟩
    · exact isAsciiLower_asciiUpper d
    · have := Uni.upperToAsciiSources_letters d hsrc c hcd hlt
      simp only [isAsciiUpper, isAsciiLower, Bool.and_eq_true, decide_eq_true_eq, Bool.and_eq_false_iff,
        decide_eq_false_iff_not] at this ⊢
      omega
  · simp only [isAsciiLower, Bool.and_eq_false_iff, decide_eq_false_iff_not]
    omega

theorem du_of_alnum_not_lower {c : Nat} (h1 : isAsciiAlnum c = true) (h2 : isAsciiLower c = false) :
    isDU c = true := by
  simp only [isAsciiAlnum, isAsciiAlpha, Bool.or_eq_true] at h1
  unfold isDU
  rcases h1 with h | h | h
  · rw [h]; rfl
  · rw [h]; exact Bool.or_true _
  · rw [h] at h2; cases h2

theorem alnum_of_du {c : Nat} (h : isDU c = true) : isAsciiAlnum c = true := by
  simp only [isDU, Bool.or_eq_true] at h
  simp only [isAsciiAlnum, isAsciiAlpha, Bool.or_eq_true]
  rcases h with h | h
  · exact Or.inl h
  · exact Or.inr (Or.inl h)

/-- `compact` of a string of ASCII digits and upper-case letters -/
theorem du_compact_upper {w : Str} (hw : AllIn isDU w) (d : Str)
    (hd : ∀ c ∈ d, isAsciiAlnum c = false) : upper (strip (cleanP w d)) = w := by
  have ha : AllIn isAsciiAlnum w := fun c hc => alnum_of_du (hw c hc)
  rw [cleanP_of_alnum ha hd, strip_eq_self_of_asciiAlnum w ha, upper_of_asciiDigitOrUpper hw]

theorem du_compact_upper' {w : Str} (hw : AllIn isDU w) (d : Str)
    (hd : ∀ c ∈ d, isAsciiAlnum c = false) : strip (upper (cleanP w d)) = w := by
  have ha : AllIn isAsciiAlnum w := fun c hc => alnum_of_du (hw c hc)
  rw [cleanP_of_alnum ha hd, upper_of_asciiDigitOrUpper hw, strip_eq_self_of_asciiAlnum w ha]

theorem foldlM_ok_forall {σ α : Type} (f : σ → α → R σ) (P : α → Prop)
    (hf : ∀ s a s', f s a = .ok s' → P a) : ∀ (l : List α) (s r : σ), l.foldlM f s = .ok r → ∀ a ∈ l, P a
  | [], _, _, _ => by simp
  | b :: l, s, r, h => by
    rw [List.foldlM_cons] at h
    cases hb : f s b with
    | error e => rw [hb] at h; cases h
    | ok s' =>
      rw [hb] at h
      intro a ha
      rcases List.mem_cons.mp ha with rfl | ha
      · exact hf s a s' hb
      · exact foldlM_ok_forall f P hf l s' r h a ha

theorem index_ok_mem {l : List Nat} {c i : Nat} (h : Spec.Checksum.index l c = .ok i) : c ∈ l :=
  List.idxOf_lt_length_iff.mp (index_ok_lt (by
    unfold Spec.Checksum.index at h ⊢
    split at h
    · cases h; rw [if_pos ‹_›]; rfl
    · cases h))

theorem mapM_ok_forall {α β : Type} (f : α → R β) : ∀ (l : List α) (ws : List β),
    l.mapM f = .ok ws → ∀ a ∈ l, ∃ w, f a = .ok w
  | [], _, _ => by simp
  | b :: l, ws, h => by
    rw [List.mapM_cons] at h
    cases hb : f b with
    | error e => rw [hb] at h; cases h
    | ok v =>
      cases hm : l.mapM f with
      | error e => rw [hb, hm] at h; cases h
      | ok vs =>
        intro a ha
        rcases List.mem_cons.mp ha with rfl | ha
        · exact ⟨v, hb⟩
        · exact mapM_ok_forall f l vs hm a ha

theorem validateBody_ok {ck : R Nat} {t : Nat} {n r : Str} (h : validateBody ck t n = .ok r) :
    r = n ∧ ck = .ok t := by
  unfold validateBody tryExcept at h
  cases ck with
  | error e => simp [Exc.caughtBy] at h
  | ok c =>
    simp only [bind_ok, pure_ok] at h
    by_cases hct : c = t
    · subst hct; simp at h; exact ⟨h.symm, rfl⟩
    · have : (c == t) = false := beq_eq_false_iff_ne.mpr hct
      simp [this] at h

theorem gen_mod_37_36_validate_ok {w a r : Str} (h : Gen.iso7064_mod_37_36.validate w a = .ok r) :
    r = w ∧ ∀ c ∈ w, c ∈ a := by
  rw [mod_37_36_validate_eq] at h
  unfold Mod3736.validate at h
  obtain ⟨h1, h2⟩ := validateBody_ok h
  refine ⟨h1, ?_⟩
  unfold Mod3736.checksum at h2
  refine foldlM_ok_forall _ (· ∈ a) ?_ w _ _ h2
  intro s c s' hs
  cases hi : Spec.Checksum.index a c with
  | error e => rw [hi] at hs; cases hs
  | ok i => exact index_ok_mem hi

theorem pyB36_some_alnum : ∀ c < 128, (pyB36 c).isSome = isAsciiAlnum c := by decide +kernel

theorem pyB36_alnum {c k : Nat} (h : pyB36 c = some k) : isAsciiAlnum c = true := by
  have hlt : c < 128 := by
    unfold pyB36 at h
    split at h
    · assumption
    · cases h
  rw [← pyB36_some_alnum c hlt, h]; rfl

theorem gen_mod_97_10_validate_ok {w r : Str} (h : Gen.iso7064_mod_97_10.validate w = .ok r) :
    r = w ∧ AllIn isAsciiAlnum w := by
  rw [mod_97_10_validate_eq] at h
  unfold Mod9710.validate at h
  obtain ⟨h1, h2⟩ := validateBody_ok h
  refine ⟨h1, ?_⟩
  unfold Mod9710.checksum at h2
  cases hs : Mod9710.toBase10 pyB36 w with
  | error e => rw [hs] at h2; cases h2
  | ok s =>
    unfold Mod9710.toBase10 at hs
    cases hm : w.mapM (fun x => do
        let v ← intChar pyB36 x
        pure (natToStr v)) with
    | error e => rw [hm] at hs; cases hs
    | ok parts =>
      intro c hc
      obtain ⟨part, hpart⟩ := mapM_ok_forall _ w parts hm c hc
      cases hb : pyB36 c with
      | none => simp [intChar, hb] at hpart
      | some k => exact pyB36_alnum hb

/-! ## stdnum.imei (15-digit IMEI, Luhn) -/

theorem digits_compact_upper {w : Str} (hw : AllIn isAsciiDigit w) (d : Str)
    (hd : ∀ c ∈ d, isAsciiAlnum c = false) : upper (strip (cleanP w d)) = w := by
  have ha : AllIn isAsciiAlnum w := fun c hc => digit_alnum (hw c hc)
  rw [cleanP_of_alnum ha hd, strip_eq_self_of_asciiDigit w hw, upper_of_asciiDigits hw]

theorem digits_compact {w : Str} (hw : AllIn isAsciiDigit w) (d : Str)
    (hd : ∀ c ∈ d, isAsciiAlnum c = false) : strip (cleanP w d) = w := by
  have ha : AllIn isAsciiAlnum w := fun c hc => digit_alnum (hw c hc)
  rw [cleanP_of_alnum ha hd, strip_eq_self_of_asciiDigit w hw]

theorem imei_ok {x v : Str} (h : Gen.imei.validate x = .ok v) :
    AllIn isAsciiDigit v ∧ v ≠ [] ∧ (v.length = 15 → isOk (Gen.luhn.validate v d10) = true) := by
  unfold Gen.imei.validate Gen.imei.compact at h
  simp only [clean_eq, isdigits_eq, bind_ok, pure_ok] at h
  generalize upper (strip (cleanP x [32, 45])) = n at h
  cases hd : isDigitsB n with
  | false => simp [hd] at h
  | true =>
    have hD := (isDigitsB_iff n).mp hd
    simp only [hd, Bool.not_true, Bool.false_eq_true, if_false] at h
    split at h
    · rename_i h15
      cases hl : Gen.luhn.validate n [48, 49, 50, 51, 52, 53, 54, 55, 56, 57] with
      | error e => rw [hl] at h; cases h
      | ok r =>
        rw [hl] at h
        cases h
        exact ⟨hD.2, hD.1, fun _ => isOk_true_of_ok hl⟩
    · rename_i h15
      have : n.length ≠ 15 := by intro hh; apply h15; simp [hh]
      split at h
      · cases h
      · cases h
        exact ⟨hD.2, hD.1, fun h => absurd h this⟩

theorem imei_digits15 {w : Str} (hw : AllIn isAsciiDigit w) (hl : w.length = 15) :
    Gen.imei.validate w = (Gen.luhn.validate w d10 >>= fun _ => .ok w) := by
  unfold Gen.imei.validate Gen.imei.compact
  simp only [clean_eq, isdigits_eq, bind_ok, pure_ok]
  rw [digits_compact_upper hw _ (by decide)]
  have hne : w ≠ [] := by intro h; subst h; simp at hl
  have hd : isDigitsB w = true := (isDigitsB_iff w).mpr ⟨hne, hw⟩
  simp [hd, hl, d10]

theorem imei_single_error (x v : Str) (h : Gen.imei.validate x = .ok v) (hlen : v.length = 15)
    (i c : Nat) (hi : i < v.length) (hc : isAsciiDigit c = true) (hne : c ≠ v[i]) :
    isOk (Gen.imei.validate (v.set i c)) = false := by
  obtain ⟨hD, _, hL⟩ := imei_ok h
  have hw' : AllIn isAsciiDigit (v.set i c) := allIn_set hD i c hc
  rw [imei_digits15 hw' (by simpa using hlen),
    gen_luhn_set_detected d10 v i c hi (by decide) (fun x hx => mem_d10.mpr (hD x hx)) (mem_d10.mpr hc) hne
      (hL hlen)]
  rfl

/-! ## stdnum.fr.siren, stdnum.ca.sin (Luhn) -/

theorem fr_siren_ok {x v : Str} (h : Gen.fr_siren.validate x = .ok v) :
    AllIn isAsciiDigit v ∧ isOk (Gen.luhn.validate v d10) = true := by
  unfold Gen.fr_siren.validate Gen.fr_siren.compact at h
  simp only [clean_eq, isdigits_eq, bind_ok, pure_ok] at h
  generalize strip (cleanP x [32, 46]) = n at h
  cases hd : isDigitsB n with
  | false => simp [hd] at h
  | true =>
    have hD := (isDigitsB_iff n).mp hd
    simp only [hd, Bool.not_true, Bool.false_eq_true, if_false] at h
    split at h
    · cases h
    · cases hl : Gen.luhn.validate n [48, 49, 50, 51, 52, 53, 54, 55, 56, 57] with
      | error e => rw [hl] at h; cases h
      | ok r =>
        rw [hl] at h
        cases h
        exact ⟨hD.2, isOk_true_of_ok hl⟩

theorem fr_siren_reject {w : Str} (hw : AllIn isAsciiDigit w)
    (hl : isOk (Gen.luhn.validate w d10) = false) : isOk (Gen.fr_siren.validate w) = false := by
  unfold Gen.fr_siren.validate Gen.fr_siren.compact
  simp only [clean_eq, isdigits_eq, bind_ok, pure_ok]
  rw [digits_compact hw _ (by decide)]
  cases hv : Gen.luhn.validate w d10 with
  | ok r => rw [hv] at hl; cases hl
  | error e =>
    unfold d10 at hv
    split
    · rfl
    · split
      · rfl
      · rw [hv]; rfl

theorem fr_siren_single_error (x v : Str) (h : Gen.fr_siren.validate x = .ok v)
    (i c : Nat) (hi : i < v.length) (hc : isAsciiDigit c = true) (hne : c ≠ v[i]) :
    isOk (Gen.fr_siren.validate (v.set i c)) = false := by
  obtain ⟨hD, hL⟩ := fr_siren_ok h
  apply fr_siren_reject (allIn_set hD i c hc)
  rw [gen_luhn_set_detected d10 v i c hi (by decide) (fun x hx => mem_d10.mpr (hD x hx)) (mem_d10.mpr hc) hne hL]
  rfl

theorem gen_luhn_validate_ok {w a r : Str} (h : Gen.luhn.validate w a = .ok r) : r = w := by
  rw [Props.C06Gen.luhn_validate_eq] at h
  unfold Luhn.validate at h
  split at h
  · cases h
  · exact (validateBody_ok h).1

theorem ca_sin_ok {x v : Str} (h : Gen.ca_sin.validate x = .ok v) :
    AllIn isAsciiDigit v ∧ isOk (Gen.luhn.validate v d10) = true := by
  unfold Gen.ca_sin.validate Gen.ca_sin.compact at h
  simp only [clean_eq, isdigits_eq, bind_ok, pure_ok] at h
  generalize strip (cleanP x [45, 32]) = n at h
  split at h
  · cases h
  · cases hd : isDigitsB n with
    | false => simp [hd] at h
    | true =>
      have hD := (isDigitsB_iff n).mp hd
      simp only [hd, Bool.not_true, Bool.false_eq_true, if_false] at h
      cases hg : Py.getItem n 0 with
      | error e => rw [hg] at h; cases h
      | ok c0 =>
        rw [hg] at h
        simp only [bind_ok] at h
        split at h
        · cases h
        · have hr := gen_luhn_validate_ok h
          subst hr
          exact ⟨hD.2, isOk_true_of_ok h⟩

theorem ca_sin_reject {w : Str} (hw : AllIn isAsciiDigit w)
    (hl : isOk (Gen.luhn.validate w d10) = false) : isOk (Gen.ca_sin.validate w) = false := by
  unfold Gen.ca_sin.validate Gen.ca_sin.compact
  simp only [clean_eq, isdigits_eq, bind_ok, pure_ok]
  rw [digits_compact hw _ (by decide)]
  cases hv : Gen.luhn.validate w d10 with
  | ok r => rw [hv] at hl; cases hl
  | error e =>
    unfold d10 at hv
    split
    · rfl
    · split
      · rfl
      · cases Py.getItem w 0 with
        | error e => rfl
        | ok c0 =>
          simp only [bind_ok]
          split
          · rfl
          · rw [hv]; rfl

theorem ca_sin_single_error (x v : Str) (h : Gen.ca_sin.validate x = .ok v)
    (i c : Nat) (hi : i < v.length) (hc : isAsciiDigit c = true) (hne : c ≠ v[i]) :
    isOk (Gen.ca_sin.validate (v.set i c)) = false := by
  obtain ⟨hD, hL⟩ := ca_sin_ok h
  apply ca_sin_reject (allIn_set hD i c hc)
  rw [gen_luhn_set_detected d10 v i c hi (by decide) (fun x hx => mem_d10.mpr (hD x hx)) (mem_d10.mpr hc) hne hL]
  rfl

/-! ## stdnum.in_.aadhaar (Verhoeff) -/

theorem aadhaar_re_digits {n : Str} (hl : n.length = 12)
    (h : (Re.match_ Gen.in__aadhaar.aadhaar_re n).isSome = true) : AllIn isAsciiDigit n := by
  obtain ⟨m, hm⟩ := Option.isSome_iff_exists.mp h
  obtain ⟨core, h1, _, _, _, h4, h5⟩ := Re.match_shape_eol (p := Gen.in__aadhaar.aadhaar_re) rfl hm
  have hc : core.length = 12 := by
    have := h5
    simp [Gen.in__aadhaar.aadhaar_re, Re.Regex.lenBound, Re.LenIn, Re.optAdd, Re.optMul] at this
    omega
  have : n = core := by
    rcases h1 with h1 | h1
    · exact h1
    · rw [h1] at hl; simp at hl; omega
  subst this
  intro c hc
  have := h4 c hc
  simp [Gen.in__aadhaar.aadhaar_re, Re.Regex.charPred, Re.classMatch, Re.itemMatch] at this ⊢
  omega

theorem aadhaar_ok {x v : Str} (h : Gen.in__aadhaar.validate x = .ok v) :
    AllIn isAsciiDigit v ∧ isOk (Gen.verhoeff.validate v) = true := by
  unfold Gen.in__aadhaar.validate Gen.in__aadhaar.compact at h
  simp only [clean_eq, bind_ok, pure_ok] at h
  generalize strip (cleanP x [32, 45]) = n at h
  split at h
  · cases h
  · rename_i hlen
    have hl : n.length = 12 := by
      apply Classical.byContradiction
      intro hh
      apply hlen
      simp only [bne_iff_ne, ne_eq]
      omega
    split at h
    · cases h
    · rename_i hre
      have hD := aadhaar_re_digits hl (by
        cases hm : (Re.match_ Gen.in__aadhaar.aadhaar_re n).isSome with
        | true => rfl
        | false => rw [hm] at hre; exact absurd rfl hre)
      split at h
      · cases h
      · cases hv : Gen.verhoeff.validate n with
        | error e => rw [hv] at h; cases h
        | ok r =>
          rw [hv] at h
          cases h
          exact ⟨hD, isOk_true_of_ok hv⟩

theorem aadhaar_reject {w : Str} (hw : AllIn isAsciiDigit w)
    (hl : isOk (Gen.verhoeff.validate w) = false) : isOk (Gen.in__aadhaar.validate w) = false := by
  unfold Gen.in__aadhaar.validate Gen.in__aadhaar.compact
  simp only [clean_eq, bind_ok, pure_ok]
  rw [digits_compact hw _ (by decide)]
  cases hv : Gen.verhoeff.validate w with
  | ok r => rw [hv] at hl; cases hl
  | error e =>
    split
    · rfl
    · split
      · rfl
      · split
        · rfl
        · rfl


theorem aadhaar_single_error (x v : Str) (h : Gen.in__aadhaar.validate x = .ok v)
    (i c : Nat) (hi : i < v.length) (hc : isAsciiDigit c = true) (hne : c ≠ v[i]) :
    isOk (Gen.in__aadhaar.validate (v.set i c)) = false := by
  obtain ⟨hD, hV⟩ := aadhaar_ok h
  apply aadhaar_reject (allIn_set hD i c hc)
  rw [gen_verhoeff_set_detected v i c hi hD hc hne hV]
  rfl

theorem aadhaar_adjacent_swap (x v : Str) (h : Gen.in__aadhaar.validate x = .ok v)
    (i : Nat) (hi : i + 1 < v.length) (hne : v[i] ≠ v[i + 1]) :
    isOk (Gen.in__aadhaar.validate (swapAdj v i)) = false := by
  obtain ⟨hD, hV⟩ := aadhaar_ok h
  apply aadhaar_reject (allIn_swapAdj hD i hi)
  rw [gen_verhoeff_swapAdj_detected v i hi hD hne hV]
  rfl

/-! ## stdnum.grid (ISO 7064 Mod 37,36 over `0-9A-Z`) -/

/-- `'0123456789ABCDEFGHIJKLMNOPQRSTUVWXYZ'` as it appears in the generated `grid.validate` -/
abbrev a36 : Str := [48, 49, 50, 51, 52, 53, 54, 55, 56, 57, 65, 66, 67, 68, 69, 70, 71, 72, 73, 74, 75, 76, 77,
  78, 79, 80, 81, 82, 83, 84, 85, 86, 87, 88, 89, 90]

theorem isPrefixOf_mem {p w : Str} (h : p.isPrefixOf w = true) : ∀ c ∈ p, c ∈ w := by
  obtain ⟨t, rfl⟩ := List.isPrefixOf_iff_prefix.mp h
  intro c hc
  exact List.mem_append_left _ hc

theorem grid_ok {x v : Str} (h : Gen.grid.validate x = .ok v) :
    AllIn isDU v ∧ isOk (Gen.iso7064_mod_37_36.validate v a36) = true := by
  unfold Gen.grid.validate Gen.grid.compact at h
  simp only [clean_eq, bind_ok, pure_ok] at h
  generalize upper (strip (cleanP x [32, 45])) = n0 at h
  have h' : ∃ n, (if ((n.length : Int) != 18) = true then (raise Exc.invalidLength : R Str)
      else Gen.iso7064_mod_37_36.validate n a36) = .ok v := by
    split at h
    · exact ⟨_, by simpa using h⟩
    · exact ⟨_, by simpa using h⟩
  obtain ⟨n, h'⟩ := h'
  split at h'
  · cases h'
  · obtain ⟨hr, hmem⟩ := gen_mod_37_36_validate_ok h'
    subst hr
    exact ⟨fun c hc => mem_alpha36.mp (hmem c hc), isOk_true_of_ok h'⟩

theorem grid_reject {w : Str} (hw : AllIn isDU w)
    (hl : isOk (Gen.iso7064_mod_37_36.validate w a36) = false) : isOk (Gen.grid.validate w) = false := by
  unfold Gen.grid.validate Gen.grid.compact
  simp only [clean_eq, bind_ok, pure_ok]
  rw [du_compact_upper hw _ (by decide)]
  have hns : startswith w [71, 82, 73, 68, 58] = false := by
    cases hs : startswith w [71, 82, 73, 68, 58] with
    | false => rfl
    | true =>
      have := alnum_of_du (hw 58 (isPrefixOf_mem hs 58 (by simp)))
      cases this
  simp only [hns, Bool.false_eq_true, if_false, bind_ok]
  cases hv : Gen.iso7064_mod_37_36.validate w a36 with
  | ok r => rw [hv] at hl; cases hl
  | error e =>
    split
    · rfl
    · rfl

/-- GRid: replacing one character by **any** other character of `0-9A-Z` (not only one of the same kind) -/
theorem grid_single_error (x v : Str) (h : Gen.grid.validate x = .ok v)
    (i c : Nat) (hi : i < v.length) (hc : isDU c = true) (hne : c ≠ v[i]) :
    isOk (Gen.grid.validate (v.set i c)) = false := by
  obtain ⟨hD, hV⟩ := grid_ok h
  apply grid_reject (allIn_set hD i c hc)
  rw [gen_mod_37_36_set_detected a36 v i c hi (by decide) (fun x hx => mem_alpha36.mpr (hD x hx))
    (mem_alpha36.mpr hc) hne hV]
  rfl


/-! ## stdnum.lei (ISO 7064 Mod 97-10 over digits and upper-case letters) -/

/-- the same kind of character: both ASCII digits or both ASCII upper-case letters -/
def SameKind (a c : Nat) : Prop :=
  (isAsciiDigit a = true ∧ isAsciiDigit c = true) ∨ (isAsciiUpper a = true ∧ isAsciiUpper c = true)

theorem sameKind_b36 {a c : Nat} (hk : SameKind a c) (hne : c ≠ a) :
    isDU c = true ∧ (b36Val a < 10 ↔ b36Val c < 10) ∧ b36Val a ≠ b36Val c := by
  unfold SameKind at hk
  unfold isDU b36Val asciiB36
  simp only [isAsciiDigit, isAsciiUpper, Bool.and_eq_true, decide_eq_true_eq, Bool.or_eq_true] at hk ⊢
  rcases hk with ⟨h1, h2⟩ | ⟨h1, h2⟩
  · rw [if_pos h1, if_pos h2]
    simp only [Option.getD_some]
    omega
  · rw [if_neg (by omega), if_pos h1, if_neg (by omega), if_pos h2]
    simp only [Option.getD_some]
    omega

theorem mem_strip_upper {s : Str} {c : Nat} (h : c ∈ strip (upper s)) : isAsciiLower c = false :=
  upper_no_asciiLower s c (mem_of_mem_strip _ c h)

theorem lei_ok {x v : Str} (h : Gen.lei.validate x = .ok v) :
    AllIn isDU v ∧ isOk (Gen.iso7064_mod_97_10.validate v) = true := by
  unfold Gen.lei.validate Gen.lei.compact at h
  simp only [clean_eq, bind_ok, pure_ok] at h
  cases hv : Gen.iso7064_mod_97_10.validate (upper (strip (cleanP x [32, 45]))) with
  | error e => rw [hv] at h; cases h
  | ok r =>
    rw [hv] at h
    cases h
    obtain ⟨_, hal⟩ := gen_mod_97_10_validate_ok hv
    exact ⟨fun c hc => du_of_alnum_not_lower (hal c hc) (upper_no_asciiLower _ c hc), isOk_true_of_ok hv⟩

theorem lei_reject {w : Str} (hw : AllIn isDU w)
    (hl : isOk (Gen.iso7064_mod_97_10.validate w) = false) : isOk (Gen.lei.validate w) = false := by
  unfold Gen.lei.validate Gen.lei.compact
  simp only [clean_eq, bind_ok, pure_ok]
  rw [du_compact_upper hw _ (by decide)]
  cases hv : Gen.iso7064_mod_97_10.validate w with
  | ok r => rw [hv] at hl; cases hl
  | error e => rfl

theorem lei_single_error (x v : Str) (h : Gen.lei.validate x = .ok v)
    (i c : Nat) (hi : i < v.length) (hk : SameKind v[i] c) (hne : c ≠ v[i]) :
    isOk (Gen.lei.validate (v.set i c)) = false := by
  obtain ⟨hD, hV⟩ := lei_ok h
  obtain ⟨hc, hkind, hval⟩ := sameKind_b36 hk hne
  apply lei_reject (allIn_set hD i c hc)
  rw [gen_mod_97_10_set_detected v i c hi (fun x hx => alnum_of_du (hD x hx)) (alnum_of_du hc) hkind hval hV]
  rfl

theorem lei_adjacent_swap (x v : Str) (h : Gen.lei.validate x = .ok v)
    (i : Nat) (hi : i + 1 < v.length) (ha : isAsciiDigit v[i] = true) (hb : isAsciiDigit v[i + 1] = true)
    (hne : v[i] ≠ v[i + 1]) :
    isOk (Gen.lei.validate (swapAdj v i)) = false := by
  obtain ⟨hD, hV⟩ := lei_ok h
  apply lei_reject (allIn_swapAdj hD i hi)
  rw [gen_mod_97_10_swapAdj_detected v i hi (fun x hx => alnum_of_du (hD x hx)) ha hb hne hV]
  rfl


/-! ## stdnum.iso11649 (Mod 97-10 on `number[4:] + number[:4]`) -/

/-- `number[4:] + number[:4]` -/
def rot4 (v : Str) : Str := v.drop 4 ++ v.take 4

theorem rot4_eq (v : Str) : slice v (some 4) none ++ slice v none (some 4) = rot4 v := by
  unfold rot4
  rw [slice_nonneg_none v (by decide), slice_none_nonneg v (by decide)]
  rfl

/-- the position of `v[i]` in `rot4 v` -/
def rotIdx (n i : Nat) : Nat := if i < 4 then n - 4 + i else i - 4

theorem rot4_set (v : Str) (i c : Nat) (hi : i < v.length) (hl : 4 ≤ v.length) :
    rot4 (v.set i c) = (rot4 v).set (rotIdx v.length i) c := by
  unfold rot4 rotIdx
  by_cases h4 : i < 4
  · rw [if_pos h4, List.drop_set_of_lt (by omega), List.take_set, List.set_append_right _ _ (by simp),
      List.length_drop]
    congr 2
    omega
  · rw [if_neg h4, List.drop_set, if_neg (by omega), List.take_set_of_le (by omega),
      List.set_append_left _ _ (by simp; omega)]

theorem rot4_getD (v : Str) (i : Nat) (hi : i < v.length) (hl : 4 ≤ v.length) :
    (rot4 v).getD (rotIdx v.length i) 0 = v.getD i 0 := by
  unfold rot4 rotIdx
  by_cases h4 : i < 4
  · rw [if_pos h4, List.getD_eq_getElem?_getD, List.getD_eq_getElem?_getD,
      List.getElem?_append_right (by simp), List.length_drop, List.getElem?_take]
    have : v.length - 4 + i - (v.length - 4) = i := by omega
    rw [this, if_pos h4]
  · rw [if_neg h4, List.getD_eq_getElem?_getD, List.getD_eq_getElem?_getD,
      List.getElem?_append_left (by simp; omega), List.getElem?_drop]
    congr 2
    omega

theorem rot4_length (v : Str) : (rot4 v).length = v.length := by
  unfold rot4
  simp only [List.length_append, List.length_drop, List.length_take]
  omega

theorem rot4_swapAdj (v : Str) (i : Nat) (hi : i + 1 < v.length) (hl : 4 ≤ v.length) (h3 : i ≠ 3) :
    rot4 (swapAdj v i) = swapAdj (rot4 v) (rotIdx v.length i) := by
  have hs : rotIdx v.length (i + 1) = rotIdx v.length i + 1 := by
    unfold rotIdx
    by_cases h4 : i < 3
    · rw [if_pos (by omega), if_pos (by omega)]; omega
    · rw [if_neg (by omega), if_neg (by omega)]; omega
  unfold swapAdj
  rw [rot4_set _ _ _ (by simp; omega) (by simpa using hl), List.length_set,
    rot4_set _ _ _ (by omega) hl, hs, ← hs, rot4_getD v (i + 1) hi hl, rot4_getD v i (by omega) hl, hs]

theorem mem_rot4 {v : Str} {c : Nat} : c ∈ rot4 v ↔ c ∈ v := by
  unfold rot4
  rw [List.mem_append]
  constructor
  · rintro (h | h)
    · exact List.mem_of_mem_drop h
    · exact List.mem_of_mem_take h
  · intro h
    rw [← List.take_append_drop 4 v] at h
    rcases List.mem_append.mp h with h | h
    · exact Or.inr h
    · exact Or.inl h

theorem iso11649_ok {x v : Str} (h : Gen.iso11649.validate x = .ok v) :
    AllIn isDU v ∧ (5 ≤ v.length ∧ v.length ≤ 25) ∧ isOk (Gen.iso7064_mod_97_10.validate (rot4 v)) = true := by
  unfold Gen.iso11649.validate Gen.iso11649.compact at h
  simp only [clean_eq, bind_ok, pure_ok, rot4_eq] at h
  generalize hn : strip (upper (cleanP x [32, 45, 46, 44, 47, 58])) = n at h
  split at h
  · cases h
  · rename_i hlen
    have hl : 5 ≤ n.length ∧ n.length ≤ 25 := by
      simp only [Bool.or_eq_true, decide_eq_true_eq, not_or] at hlen
      omega
    split at h
    · cases h
    · cases hv : Gen.iso7064_mod_97_10.validate (rot4 n) with
      | error e => rw [hv] at h; cases h
      | ok r =>
        rw [hv] at h
        cases h
        obtain ⟨_, hal⟩ := gen_mod_97_10_validate_ok hv
        refine ⟨fun c hc => du_of_alnum_not_lower (hal c (mem_rot4.mpr hc)) ?_, hl, isOk_true_of_ok hv⟩
        rw [← hn] at hc
        exact mem_strip_upper hc

theorem iso11649_reject {w : Str} (hw : AllIn isDU w)
    (hl : isOk (Gen.iso7064_mod_97_10.validate (rot4 w)) = false) :
    isOk (Gen.iso11649.validate w) = false := by
  unfold Gen.iso11649.validate Gen.iso11649.compact
  simp only [clean_eq, bind_ok, pure_ok, rot4_eq]
  rw [du_compact_upper' hw _ (by decide)]
  cases hv : Gen.iso7064_mod_97_10.validate (rot4 w) with
  | ok r => rw [hv] at hl; cases hl
  | error e =>
    split
    · rfl
    · split
      · rfl
      · rfl

theorem iso11649_single_error (x v : Str) (h : Gen.iso11649.validate x = .ok v)
    (i c : Nat) (hi : i < v.length) (hk : SameKind v[i] c) (hne : c ≠ v[i]) :
    isOk (Gen.iso11649.validate (v.set i c)) = false := by
  obtain ⟨hD, ⟨hlen, _⟩, hV⟩ := iso11649_ok h
  obtain ⟨hc, hkind, hval⟩ := sameKind_b36 hk hne
  apply iso11649_reject (allIn_set hD i c hc)
  have hj : rotIdx v.length i < (rot4 v).length := by
    rw [rot4_length]; unfold rotIdx; split <;> omega
  have hget : (rot4 v)[rotIdx v.length i] = v[i] := by
    have := rot4_getD v i hi (by omega)
    rw [List.getD_eq_getElem?_getD, List.getD_eq_getElem?_getD, List.getElem?_eq_getElem hj,
      List.getElem?_eq_getElem hi] at this
    exact this
  rw [rot4_set v i c hi (by omega),
    gen_mod_97_10_set_detected (rot4 v) _ c hj (fun x hx => alnum_of_du (hD x (mem_rot4.mp hx)))
      (alnum_of_du hc) (by rw [hget]; exact hkind) (by rw [hget]; exact hval) hV]
  rfl

/-- adjacent positions that stay adjacent in `number[4:] + number[:4]` (all but 3/4, for which see
`iso11649_swap34` and the full `iso11649_adjacent_swap` below) -/
theorem iso11649_adjacent_swap_ne3 (x v : Str) (h : Gen.iso11649.validate x = .ok v)
    (i : Nat) (hi : i + 1 < v.length) (h3 : i ≠ 3)
    (ha : isAsciiDigit v[i] = true) (hb : isAsciiDigit v[i + 1] = true) (hne : v[i] ≠ v[i + 1]) :
    isOk (Gen.iso11649.validate (swapAdj v i)) = false := by
  obtain ⟨hD, ⟨hlen, _⟩, hV⟩ := iso11649_ok h
  apply iso11649_reject (allIn_swapAdj hD i hi)
  have hj : rotIdx v.length i + 1 < (rot4 v).length := by
    rw [rot4_length]; unfold rotIdx; split <;> omega
  have hget : ∀ k (hk : k < v.length) (hk' : rotIdx v.length k < (rot4 v).length),
      (rot4 v)[rotIdx v.length k] = v[k] := by
    intro k hk hk'
    have := rot4_getD v k hk (by omega)
    rw [List.getD_eq_getElem?_getD, List.getD_eq_getElem?_getD, List.getElem?_eq_getElem hk',
      List.getElem?_eq_getElem hk] at this
    exact this
  have hs : rotIdx v.length (i + 1) = rotIdx v.length i + 1 := by
    unfold rotIdx
    by_cases h4 : i < 3
    · rw [if_pos (by omega), if_pos (by omega)]; omega
    · rw [if_neg (by omega), if_neg (by omega)]; omega
  have hg0 := hget i (by omega) (by omega)
  have hg1 := hget (i + 1) hi (by rw [hs]; exact hj)
  simp only [hs] at hg1
  rw [rot4_swapAdj v i hi (by omega) h3,
    gen_mod_97_10_swapAdj_detected (rot4 v) _ hj (fun x hx => alnum_of_du (hD x (mem_rot4.mp hx)))
      (by rw [hg0]; exact ha) (by rw [hg1]; exact hb) (by rw [hg0, hg1]; exact hne) hV]
  rfl


/-! ## stdnum.isni (ISO 7064 Mod 11-2; 15 digits and a check character `0-9X`)

The real `validate` (and the generated one) accepts a non-ASCII decimal digit as **last** character
(`isdigits` is applied to `number[:-1]` only and `int()` knows all Unicode digits; listed under C15 in
known_findings.json).  The theorems are stated for the ASCII numbers. -/

theorem pyDec_some_ascii : ∀ c < 128, (pyDec c).isSome = isAsciiDigit c := by decide +kernel

theorem d11_du {c : Nat} (h : isD11 c = true) : isDU c = true := by
  rcases d11_cases h with h | h
  · simp only [isDU, isAsciiDigit, isAsciiUpper, Bool.or_eq_true, Bool.and_eq_true, decide_eq_true_eq]; omega
  · subst h; rfl

theorem gen_mod_11_2_validate_ok {w r : Str} (h : Gen.iso7064_mod_11_2.validate w = .ok r) :
    r = w ∧ ∀ c ∈ w, c < 128 → isD11 c = true := by
  rw [mod_11_2_validate_eq] at h
  unfold Mod112.validate at h
  obtain ⟨h1, h2⟩ := validateBody_ok h
  refine ⟨h1, ?_⟩
  unfold Mod112.checksum at h2
  refine foldlM_ok_forall _ (fun c => c < 128 → isD11 c = true) ?_ w _ _ h2
  intro s c s' hs hlt
  unfold Mod112.charVal at hs
  unfold isD11
  by_cases h88 : c = 88
  · subst h88; rfl
  · rw [if_neg h88] at hs
    cases hd : pyDec c with
    | none => simp [intChar, hd] at hs
    | some k =>
      have := pyDec_some_ascii c hlt
      rw [hd] at this
      rw [← this]; rfl

theorem isni_ok {x v : Str} (h : Gen.isni.validate x = .ok v) (hascii : AllIn isAscii v) :
    AllIn isD11 v ∧ isOk (Gen.iso7064_mod_11_2.validate v) = true := by
  unfold Gen.isni.validate Gen.isni.compact at h
  simp only [clean_eq, isdigits_eq, bind_ok, pure_ok] at h
  generalize upper (strip (cleanP x [32, 45])) = n at h
  split at h
  · cases h
  · split at h
    · cases h
    · cases hv : Gen.iso7064_mod_11_2.validate n with
      | error e => rw [hv] at h; cases h
      | ok r =>
        rw [hv] at h
        cases h
        obtain ⟨_, hd⟩ := gen_mod_11_2_validate_ok hv
        exact ⟨fun c hc => hd c hc (by simpa using hascii c hc), isOk_true_of_ok hv⟩

theorem isni_reject {w : Str} (hw : AllIn isD11 w)
    (hl : isOk (Gen.iso7064_mod_11_2.validate w) = false) : isOk (Gen.isni.validate w) = false := by
  unfold Gen.isni.validate Gen.isni.compact
  simp only [clean_eq, isdigits_eq, bind_ok, pure_ok]
  rw [du_compact_upper (fun c hc => d11_du (hw c hc)) _ (by decide)]
  cases hv : Gen.iso7064_mod_11_2.validate w with
  | ok r => rw [hv] at hl; cases hl
  | error e =>
    split
    · rfl
    · split
      · rfl
      · rfl

/-- ISNI: every single substitution by a character of `0-9X` (in particular digit for digit) is rejected -/
theorem isni_single_error (x v : Str) (h : Gen.isni.validate x = .ok v) (hascii : AllIn isAscii v)
    (i c : Nat) (hi : i < v.length) (hc : isD11 c = true) (hne : c ≠ v[i]) :
    isOk (Gen.isni.validate (v.set i c)) = false := by
  obtain ⟨hD, hV⟩ := isni_ok h hascii
  apply isni_reject (allIn_set hD i c hc)
  have h0 := split_at v i hi
  rw [set_eq_split v i c hi,
    gen_mod_11_2_subst_detected (v.take i) (v.drop (i + 1)) v[i] c (h0 ▸ hD) hc (Ne.symm hne) (h0 ▸ hV)]
  rfl

/-- ISNI: every transposition of two adjacent different characters is rejected (check character included) -/
theorem isni_adjacent_swap (x v : Str) (h : Gen.isni.validate x = .ok v) (hascii : AllIn isAscii v)
    (i : Nat) (hi : i + 1 < v.length) (hne : v[i] ≠ v[i + 1]) :
    isOk (Gen.isni.validate (swapAdj v i)) = false := by
  obtain ⟨hD, hV⟩ := isni_ok h hascii
  apply isni_reject (allIn_swapAdj hD i hi)
  have h0 := split_at₂ v i hi
  rw [swapAdj_eq v i hi,
    gen_mod_11_2_swap_detected (v.take i) (v.drop (i + 2)) v[i] v[i + 1] (h0 ▸ hD) hne (h0 ▸ hV)]
  rfl


/-! # Part B — weighted sums (`Lemmas/Fold.lean` instances)

## machinery -/

/-- weighted sum `Σ_j wt(k+j) · vals[j]` -/
def wsum (wt : Nat → Int) : Nat → List Nat → Int
  | _, [] => 0
  | k, a :: l => wt k * (a : Int) + wsum wt (k + 1) l

/-- the running weighted sum modulo `M` as a position-indexed fold step -/
def wstep (wt : Nat → Int) (M : Int) (i : Nat) (s : Int) (a : Nat) : Int := (s + wt i * (a : Int)) % M

theorem run_wstep (wt : Nat → Int) (M : Int) (l : List Nat) : ∀ (k : Nat) (s : Int), s % M = s →
    run (wstep wt M) k s l = (s + wsum wt k l) % M := by
  induction l with
  | nil => intro k s hs; simp [wsum, hs]
  | cons a l ih =>
    intro k s _
    rw [run_cons, ih (k + 1) _ (by unfold wstep; exact Int.emod_emod_of_dvd _ (Int.dvd_refl M))]
    unfold wstep
    rw [Int.emod_add_emod, Int.add_assoc]
    rfl

theorem wsum_run (wt : Nat → Int) (M : Int) (l : List Nat) :
    wsum wt 0 l % M = run (wstep wt M) 0 0 l := by
  rw [run_wstep wt M l 0 0 (Int.zero_emod M), Int.zero_add]

/-- the comprehension `[f(i, int(n)) for i, n in enumerate(p, k)]` on a digit string and its sum -/
theorem mapM_enum_digits (g : Int × Str → R Int) (wt : Nat → Int) (p : Str) (hp : AllIn isAsciiDigit p)
    (h : ∀ (i : Nat) c, isAsciiDigit c = true → g ((i : Int), [c]) = .ok (wt i * ((c - 48 : Nat) : Int))) :
    ∀ (k : Nat), ∃ ws, (Py.enumerate (Py.chars p) (k : Int)).mapM g = .ok ws ∧
      Py.sumInt ws = wsum wt k (p.map (· - 48)) := by
  induction p with
  | nil => intro k; exact ⟨[], rfl, rfl⟩
  | cons c p ih =>
    intro k
    obtain ⟨ws, h1, h2⟩ := ih (fun x hx => hp x (List.mem_cons_of_mem _ hx)) (k + 1)
    refine ⟨wt k * ((c - 48 : Nat) : Int) :: ws, ?_, ?_⟩
    · rw [chars_cons, enumerate_cons, List.mapM_cons, h k c (hp c List.mem_cons_self)]
      have : ((k : Int) + 1) = ((k + 1 : Nat) : Int) := by simp
      rw [this, h1]
      rfl
    · rw [sumInt_cons, h2]; rfl

theorem slice_none_neg_one (s : Str) : slice s none (some (-1)) = s.dropLast := by
  rw [slice_eq_sliceL, sliceL_none_some, normIdx_of_neg (by decide), List.dropLast_eq_take]
  rfl

/-- EAN weights on the reversed payload: 3, 1, 3, … -/
def wtE (i : Nat) : Int := if i % 2 = 0 then 3 else 1
/-- EAN weights on the reversed number (check digit first): 1, 3, 1, … -/
def wtEAN (i : Nat) : Int := if i % 2 = 0 then 1 else 3

theorem ean_calc_eq (p : Str) (hp : AllIn isAsciiDigit p) :
    Gen.ean.calc_check_digit p =
      .ok (Py.strOfInt ((10 - wsum wtE 0 (p.reverse.map (· - 48))) % 10)) := by
  unfold Gen.ean.calc_check_digit
  have hrev : AllIn isAsciiDigit p.reverse := fun c hc => hp c (List.mem_reverse.mp hc)
  have key : ∀ g : Int × Str → R Int,
      (∀ (i : Nat) c, isAsciiDigit c = true → g ((i : Int), [c]) = .ok (wtE i * ((c - 48 : Nat) : Int))) →
      (do
        let l ← (Py.enumerate ((Py.chars p).reverse) 0).mapM g
        pure (Py.strOfInt ((10 - Py.sumInt l) % 10))) =
      (.ok (Py.strOfInt ((10 - wsum wtE 0 (p.reverse.map (· - 48))) % 10)) : R Str) := by
    intro g hg
    obtain ⟨ws, h1, h2⟩ := mapM_enum_digits g wtE p.reverse hrev hg 0
    simp only [Int.natCast_zero, chars_reverse] at h1
    simp only [h1, bind_ok, pure_ok, h2]
  apply key
  intro i c hc
  have hi : (i : Int) % 2 = ((i % 2 : Nat) : Int) := by omega
  simp only [hi, intOf_singleton_digit c hc]
  have hb := digit_bounds hc
  have hcv : (c : Int) - 48 = ((c - 48 : Nat) : Int) := by omega
  unfold wtE
  rcases Nat.mod_two_eq_zero_or_one i with h | h
  · rw [h, hcv]; rfl
  · rw [h, hcv]; rfl

theorem wsum_shift (wt wt' : Nat → Int) (h : ∀ i, wt' (i + 1) = wt i) (l : List Nat) :
    ∀ k, wsum wt' (k + 1) l = wsum wt k l := by
  induction l with
  | nil => intro k; rfl
  | cons a l ih => intro k; simp only [wsum, h, ih]

theorem strOfInt_single {r : Int} {k : Nat} (h0 : 0 ≤ r) (h9 : r ≤ 9) (h : Py.strOfInt r = [k]) :
    ((k - 48 : Nat) : Int) = r ∧ isAsciiDigit k = true := by
  rw [strOfInt_digit r ⟨h0, h9⟩] at h
  have : 48 + r.toNat = k := by simpa using h
  subst this
  refine ⟨by omega, ?_⟩
  simp only [isAsciiDigit, Bool.and_eq_true, decide_eq_true_eq]
  omega

theorem ean_ok {x v : Str} (h : Gen.ean.validate x = .ok v) :
    v = strip (cleanP x [32, 45]) ∧ AllIn isAsciiDigit v ∧
      wsum wtEAN 0 (v.reverse.map (· - 48)) % 10 = 0 := by
  unfold Gen.ean.validate Gen.ean.compact at h
  simp only [clean_eq, isdigits_eq, bind_ok, pure_ok] at h
  generalize strip (cleanP x [32, 45]) = n at h
  cases hd : isDigitsB n with
  | false => simp [hd] at h
  | true =>
    have hD := (isDigitsB_iff n).mp hd
    simp only [hd, Bool.not_true, Bool.false_eq_true, if_false] at h
    split at h
    · cases h
    · have hne : n ≠ [] := hD.1
      have hp : AllIn isAsciiDigit n.dropLast := fun c hc => hD.2 c (List.dropLast_subset _ hc)
      rw [slice_none_neg_one, ean_calc_eq _ hp, getItem_neg_one n hne] at h
      simp only [bind_ok] at h
      split at h
      · cases h
      · rename_i hcmp
        have hnv : n = v := by simpa using h
        subst hnv
        refine ⟨rfl, hD.2, ?_⟩
        have heq : Py.strOfInt ((10 - wsum wtE 0 (n.dropLast.reverse.map (· - 48))) % 10) = [n.getLast hne] := by
          simpa using hcmp
        generalize hS : wsum wtE 0 (n.dropLast.reverse.map (· - 48)) = S at heq
        obtain ⟨hk, _⟩ := strOfInt_single (Int.emod_nonneg _ (by decide)) (by omega) heq
        have hv : n.reverse = n.getLast hne :: n.dropLast.reverse := by
          conv => lhs; rw [← List.dropLast_concat_getLast hne]
          simp
        rw [hv, List.map_cons, wsum, wsum_shift wtE wtEAN (fun i => by unfold wtE wtEAN; split <;> split <;> omega),
          hS, hk]
        unfold wtEAN
        simp only [Nat.zero_mod, if_true]
        omega

theorem wstep_range (wt : Nat → Int) (M : Int) (hM : 0 < M) (i : Nat) (s : Int) (a : Nat) :
    0 ≤ wstep wt M i s a ∧ wstep wt M i s a < M :=
  ⟨Int.emod_nonneg _ (by omega), Int.emod_lt_of_pos _ hM⟩

theorem wstep_inj_state (wt : Nat → Int) (M : Int) (i : Nat) (a : Nat) (s t : Int)
    (hs : 0 ≤ s ∧ s < M) (ht : 0 ≤ t ∧ t < M) (h : wstep wt M i s a = wstep wt M i t a) : s = t := by
  unfold wstep at h
  generalize wt i * (a : Int) = x at h
  have h1 := Int.emod_emod_of_dvd (s + x - (t + x)) (Int.dvd_refl M)
  have : (s - t) % M = 0 := by
    have := Int.emod_eq_emod_iff_emod_sub_eq_zero.mp h
    have e : s + x - (t + x) = s - t := by omega
    rw [e] at this
    exact this
  have hd : M ∣ s - t := Int.dvd_of_emod_eq_zero this
  obtain ⟨q, hq⟩ := hd
  have : q = 0 := by
    rcases Int.lt_trichotomy q 0 with hq0 | hq0 | hq0
    · have : M * q ≤ M * (-1) := Int.mul_le_mul_of_nonneg_left (by omega) (by omega)
      omega
    · exact hq0
    · have : M * 1 ≤ M * q := Int.mul_le_mul_of_nonneg_left (by omega) (by omega)
      omega
  rw [this] at hq
  omega

/-- EAN, value level: changing one digit changes the weighted sum modulo 10 -/
theorem ean_v_subst (u v : List Nat) (a b : Nat) (hu : ∀ x ∈ u, x < 10) (hv : ∀ x ∈ v, x < 10)
    (ha : a < 10) (hb : b < 10) (hab : a ≠ b) :
    wsum wtEAN 0 (u ++ a :: v) % 10 ≠ wsum wtEAN 0 (u ++ b :: v) % 10 := by
  rw [wsum_run, wsum_run]
  exact detects_subst_local (wstep wtEAN 10) (fun s => 0 ≤ s ∧ s < 10) (· < 10)
    (fun i s a _ _ => wstep_range wtEAN 10 (by decide) i s a)
    (fun i a s t hs ht _ h => wstep_inj_state wtEAN 10 i a s t hs ht h)
    u v a b hu hv ha hb 0 0 (by decide)
    (fun t ht h => by
      unfold wstep wtEAN at h
      split at h <;> omega)

theorem ean_single_error (x v : Str) (h : Gen.ean.validate x = .ok v)
    (i c : Nat) (hi : i < v.length) (hc : isAsciiDigit c = true) (hne : c ≠ v[i]) :
    isOk (Gen.ean.validate (v.set i c)) = false := by
  obtain ⟨_, hD, hT⟩ := ean_ok h
  have hw : AllIn isAsciiDigit (v.set i c) := allIn_set hD i c hc
  cases hv' : Gen.ean.validate (v.set i c) with
  | error e => rfl
  | ok v' =>
    exfalso
    obtain ⟨h1, _, hT'⟩ := ean_ok hv'
    rw [digits_compact hw _ (by decide)] at h1
    subst h1
    have h0 := split_at v i hi
    have hu : AllIn isAsciiDigit (v.take i) := fun x hx => hD x (List.mem_of_mem_take hx)
    have ht : AllIn isAsciiDigit (v.drop (i + 1)) := fun x hx => hD x (List.mem_of_mem_drop hx)
    have ha : isAsciiDigit v[i] = true := hD _ (List.getElem_mem hi)
    rw [set_eq_split v i c hi] at hT'
    rw [h0] at hT
    simp only [List.reverse_append, List.reverse_cons, List.append_assoc, List.cons_append, List.nil_append,
      List.map_append, List.map_cons, List.map_reverse] at hT hT'
    have hba := digit_bounds ha
    have hbc := digit_bounds hc
    refine ean_v_subst _ _ (v[i] - 48) (c - 48) ?_ ?_ (by omega) (by omega) (by omega) (hT.trans hT'.symm)
    · intro x hx
      rw [List.mem_reverse] at hx
      exact map_digit_lt ht x hx
    · intro x hx
      rw [List.mem_reverse] at hx
      exact map_digit_lt hu x hx

theorem wsum_append (wt : Nat → Int) (l m : List Nat) : ∀ k,
    wsum wt k (l ++ m) = wsum wt k l + wsum wt (k + l.length) m := by
  induction l with
  | nil => intro k; simp [wsum]
  | cons a l ih =>
    intro k
    simp only [List.cons_append, wsum, ih, List.length_cons]
    have : k + 1 + l.length = k + (l.length + 1) := by omega
    rw [this]
    omega

/-- the check character of the mod-11 schemes: `'X'` for 10 -/
theorem chk11_single {r : Int} {k : Nat} (h0 : 0 ≤ r) (h10 : r ≤ 10)
    (h : (if (r == 10) = true then ([88] : Str) else Py.strOfInt r) = [k]) :
    isD11 k = true ∧ ((val112 k : Nat) : Int) = r := by
  by_cases hr : r = 10
  · subst hr
    have : k = 88 := by simpa using h.symm
    subst this
    exact ⟨rfl, rfl⟩
  · have hb : (r == 10) = false := by simpa using hr
    rw [hb] at h
    simp only [Bool.false_eq_true, if_false] at h
    obtain ⟨h1, h2⟩ := strOfInt_single h0 (by omega) h
    have hb := digit_bounds h2
    refine ⟨by unfold isD11; rw [h2]; rfl, ?_⟩
    unfold val112
    rw [if_neg (by omega)]
    exact h1

def wtISSN (i : Nat) : Int := 8 - (i : Int)

theorem issn_calc_eq (p : Str) (hp : AllIn isAsciiDigit p) :
    Gen.issn.calc_check_digit p =
      .ok (if (((11 - wsum wtISSN 0 (p.map (· - 48))) % 11) == (10 : Int)) = true then ([88] : Str)
        else Py.strOfInt ((11 - wsum wtISSN 0 (p.map (· - 48))) % 11)) := by
  unfold Gen.issn.calc_check_digit
  have key : ∀ g : Int × Str → R Int,
      (∀ (i : Nat) c, isAsciiDigit c = true → g ((i : Int), [c]) = .ok (wtISSN i * ((c - 48 : Nat) : Int))) →
      (do
        let l ← (Py.enumerate (Py.chars p) 0).mapM g
        pure (if (((11 - Py.sumInt l) % 11) == (10 : Int)) = true then ([88] : Str)
          else Py.strOfInt ((11 - Py.sumInt l) % 11))) =
      (.ok (if (((11 - wsum wtISSN 0 (p.map (· - 48))) % 11) == (10 : Int)) = true then ([88] : Str)
        else Py.strOfInt ((11 - wsum wtISSN 0 (p.map (· - 48))) % 11)) : R Str) := by
    intro g hg
    obtain ⟨ws, h1, h2⟩ := mapM_enum_digits g wtISSN p hp hg 0
    simp only [Int.natCast_zero] at h1
    simp only [h1, bind_ok, pure_ok, h2]
  apply key
  intro i c hc
  simp only [intOf_singleton_digit c hc]
  have hb := digit_bounds hc
  have hcv : (c : Int) - 48 = ((c - 48 : Nat) : Int) := by omega
  rw [hcv]
  rfl

theorem map_val112_digits {p : Str} (hp : AllIn isAsciiDigit p) : p.map val112 = p.map (· - 48) := by
  apply List.map_congr_left
  intro c hc
  have := digit_bounds (hp c hc)
  unfold val112
  rw [if_neg (by omega)]

theorem d11_of_digit {c : Nat} (h : isAsciiDigit c = true) : isD11 c = true := by
  unfold isD11; rw [h]; rfl

theorem issn_ok {x v : Str} (h : Gen.issn.validate x = .ok v) :
    v = upper (strip (cleanP x [32, 45])) ∧ v.length = 8 ∧ AllIn isAsciiDigit v.dropLast ∧
      AllIn isD11 v ∧ wsum wtISSN 0 (v.map val112) % 11 = 0 := by
  unfold Gen.issn.validate Gen.issn.compact at h
  simp only [clean_eq, isdigits_eq, bind_ok, pure_ok, slice_none_neg_one] at h
  generalize upper (strip (cleanP x [32, 45])) = n at h
  cases hd : isDigitsB n.dropLast with
  | false => simp [hd] at h
  | true =>
    have hD := (isDigitsB_iff _).mp hd
    simp only [hd, Bool.not_true, Bool.false_eq_true, if_false] at h
    split at h
    · cases h
    · rename_i hlen
      have hl : n.length = 8 := by
        apply Classical.byContradiction
        intro hh
        apply hlen
        simp only [bne_iff_ne, ne_eq]
        omega
      have hne : n ≠ [] := by intro h0; subst h0; simp at hl
      rw [issn_calc_eq _ hD.2, getItem_neg_one n hne] at h
      simp only [bind_ok] at h
      have hlp : n.dropLast.length = 7 := by simp [hl]
      generalize hS : wsum wtISSN 0 (n.dropLast.map (· - 48)) = S at h
      generalize hcs : (if (((11 - S) % 11) == (10 : Int)) = true then ([88] : Str)
            else Py.strOfInt ((11 - S) % 11)) = cs at h
      by_cases heq : cs = [n.getLast hne]
      · have hnv : n = v := by simpa [heq] using h
        subst hnv
        rw [← hcs] at heq
        obtain ⟨hk1, hk2⟩ := chk11_single (Int.emod_nonneg _ (by decide)) (by omega) heq
        refine ⟨rfl, hl, hD.2, ?_, ?_⟩
        · intro c hc
          rw [← List.dropLast_concat_getLast hne] at hc
          rcases List.mem_append.mp hc with h1 | h1
          · exact d11_of_digit (hD.2 c h1)
          · rw [List.mem_singleton.mp h1]; exact hk1
        · conv => lhs; rw [← List.dropLast_concat_getLast hne]
          rw [List.map_append, wsum_append, map_val112_digits hD.2, hS, List.length_map, hlp]
          simp only [List.map_cons, List.map_nil, wsum, hk2]
          unfold wtISSN
          omega
      · have : (cs != [n.getLast hne]) = true := by simpa using heq
        simp [this] at h

/-- ISSN, value level: weights 8, 7, …, 2, 1 modulo the prime 11 -/
theorem issn_v_subst (u v : List Nat) (a b : Nat) (hlen : u.length < 8) (hu : ∀ x ∈ u, x < 11)
    (hv : ∀ x ∈ v, x < 11) (ha : a < 11) (hb : b < 11) (hab : a ≠ b) :
    wsum wtISSN 0 (u ++ a :: v) % 11 ≠ wsum wtISSN 0 (u ++ b :: v) % 11 := by
  rw [wsum_run, wsum_run]
  exact detects_subst_local (wstep wtISSN 11) (fun s => 0 ≤ s ∧ s < 11) (· < 11)
    (fun i s a _ _ => wstep_range wtISSN 11 (by decide) i s a)
    (fun i a s t hs ht _ h => wstep_inj_state wtISSN 11 i a s t hs ht h)
    u v a b hu hv ha hb 0 0 (by decide)
    (fun t ht h => by
      unfold wstep wtISSN at h
      have : u.length = 0 ∨ u.length = 1 ∨ u.length = 2 ∨ u.length = 3 ∨ u.length = 4 ∨ u.length = 5 ∨
        u.length = 6 ∨ u.length = 7 := by omega
      rcases this with e | e | e | e | e | e | e | e <;> rw [e] at h <;> omega)

theorem issn_v_swap (u v : List Nat) (a b : Nat) (hlen : u.length + 1 < 8) (hu : ∀ x ∈ u, x < 11)
    (hv : ∀ x ∈ v, x < 11) (ha : a < 11) (hb : b < 11) (hab : a ≠ b) :
    wsum wtISSN 0 (u ++ a :: b :: v) % 11 ≠ wsum wtISSN 0 (u ++ b :: a :: v) % 11 := by
  rw [wsum_run, wsum_run]
  intro h
  rw [swap_iff (wstep wtISSN 11) (fun s => 0 ≤ s ∧ s < 11) (· < 11)
    (fun i s a _ _ => wstep_range wtISSN 11 (by decide) i s a)
    (fun i a s t hs ht _ h => wstep_inj_state wtISSN 11 i a s t hs ht h)
    u v a b hu hv ha hb 0 0 (by decide)] at h
  have hr := run_inv (wstep wtISSN 11) (fun s => 0 ≤ s ∧ s < 11) (· < 11)
    (fun i s a _ _ => wstep_range wtISSN 11 (by decide) i s a) u 0 0 hu (by decide)
  generalize run (wstep wtISSN 11) 0 0 u = r at h hr
  unfold wstep wtISSN at h
  have : u.length = 0 ∨ u.length = 1 ∨ u.length = 2 ∨ u.length = 3 ∨ u.length = 4 ∨ u.length = 5 ∨
    u.length = 6 := by omega
  rcases this with e | e | e | e | e | e | e <;> rw [e] at h <;> omega

/-- ISSN: replacing one character by any other digit or upper-case letter is rejected -/
theorem issn_single_error (x v : Str) (h : Gen.issn.validate x = .ok v)
    (i c : Nat) (hi : i < v.length) (hc : isDU c = true) (hne : c ≠ v[i]) :
    isOk (Gen.issn.validate (v.set i c)) = false := by
  obtain ⟨_, hl, _, hD, hT⟩ := issn_ok h
  have hw : AllIn isDU (v.set i c) := allIn_set (fun x hx => d11_du (hD x hx)) i c hc
  cases hv' : Gen.issn.validate (v.set i c) with
  | error e => rfl
  | ok v' =>
    exfalso
    obtain ⟨h1, _, _, hD', hT'⟩ := issn_ok hv'
    rw [du_compact_upper hw _ (by decide)] at h1
    subst h1
    have h0 := split_at v i hi
    have hc11 : isD11 c = true := hD' c (List.mem_set hi c)
    rw [set_eq_split v i c hi] at hT'
    rw [h0] at hT hD
    obtain ⟨hu, ha, ht⟩ := allIn_split hD
    simp only [List.map_append, List.map_cons] at hT hT'
    refine issn_v_subst _ _ (val112 v[i]) (val112 c) (by simp; omega) (map_val112_lt hu) (map_val112_lt ht)
      (val112_lt ha) (val112_lt hc11) (fun e => hne (val112_inj ha hc11 e).symm) (hT.trans hT'.symm)

/-- ISSN: exchanging two adjacent different characters (check character included) is rejected -/
theorem issn_adjacent_swap (x v : Str) (h : Gen.issn.validate x = .ok v)
    (i : Nat) (hi : i + 1 < v.length) (hne : v[i] ≠ v[i + 1]) :
    isOk (Gen.issn.validate (swapAdj v i)) = false := by
  obtain ⟨_, hl, _, hD, hT⟩ := issn_ok h
  have hw : AllIn isDU (swapAdj v i) := allIn_swapAdj (fun x hx => d11_du (hD x hx)) i hi
  cases hv' : Gen.issn.validate (swapAdj v i) with
  | error e => rfl
  | ok v' =>
    exfalso
    obtain ⟨h1, _, _, _, hT'⟩ := issn_ok hv'
    rw [du_compact_upper hw _ (by decide)] at h1
    subst h1
    have h0 := split_at₂ v i hi
    rw [swapAdj_eq v i hi] at hT'
    rw [h0] at hT hD
    obtain ⟨hu, ha, hbt⟩ := allIn_split hD
    have hb : isD11 v[i + 1] = true := hbt _ List.mem_cons_self
    have ht : AllIn isD11 (v.drop (i + 2)) := fun c hc => hbt c (List.mem_cons_of_mem _ hc)
    simp only [List.map_append, List.map_cons] at hT hT'
    refine issn_v_swap _ _ (val112 v[i]) (val112 v[i + 1]) (by simp; omega) (map_val112_lt hu)
      (map_val112_lt ht) (val112_lt ha) (val112_lt hb) (fun e => hne (val112_inj ha hb e)) (hT.trans hT'.symm)

/-! ## stdnum.isbn -/

/-- `isbn.compact(number, convert=False)` -/
def isbnC (x : Str) : Str :=
  if (upper (strip (cleanP x [32, 45]))).length = 9 then 48 :: upper (strip (cleanP x [32, 45]))
  else upper (strip (cleanP x [32, 45]))

theorem isbn_ok {x v : Str} (h : Gen.isbn.validate x false = .ok v) :
    v = isbnC x ∧ AllIn isAsciiDigit v.dropLast ∧ v ≠ [] ∧
      ((v.length = 10 ∧ Gen.isbn._calc_isbn10_check_digit v.dropLast = .ok [v.getLast?.getD 0]) ∨
       (v.length = 13 ∧ ∃ r, Gen.ean.validate v = .ok r)) := by
  unfold Gen.isbn.validate Gen.isbn.compact at h
  simp only [clean_eq, isdigits_eq, bind_ok, pure_ok, Bool.false_eq_true, if_false, slice_none_neg_one] at h
  have hc : (if ((((upper (strip (cleanP x [32, 45]))).length : Int) == 9) = true) then
        (Except.ok ([48] ++ upper (strip (cleanP x [32, 45]))) : R Str)
      else Except.ok (upper (strip (cleanP x [32, 45])))) = .ok (isbnC x) := by
    unfold isbnC
    by_cases h9 : (upper (strip (cleanP x [32, 45]))).length = 9
    · simp [h9]
    · have : ¬ (((upper (strip (cleanP x [32, 45]))).length : Int) = 9) := by omega
      simp [h9, this]
  rw [hc] at h
  simp only [bind_ok] at h
  generalize isbnC x = n at h
  cases hd : isDigitsB n.dropLast with
  | false => simp [hd] at h
  | true =>
    have hD := (isDigitsB_iff _).mp hd
    have hne : n ≠ [] := by
      intro h0; subst h0; exact hD.1 rfl
    simp only [hd, Bool.not_true, Bool.false_eq_true, if_false] at h
    split at h
    · rename_i h10
      have hl : n.length = 10 := by
        have : ((n.length : Int) = 10) := by simpa using h10
        omega
      cases hcalc : Gen.isbn._calc_isbn10_check_digit n.dropLast with
      | error e => rw [hcalc] at h; cases h
      | ok cs =>
        rw [hcalc, getItem_neg_one n hne] at h
        simp only [bind_ok] at h
        by_cases heq : cs = [n.getLast hne]
        · have hnv : n = v := by simpa [heq] using h
          subst hnv
          refine ⟨rfl, hD.2, hne, Or.inl ⟨hl, ?_⟩⟩
          rw [hcalc, heq, List.getLast?_eq_some_getLast hne]
          rfl
        · have : (cs != [n.getLast hne]) = true := by simpa using heq
          simp [this] at h
    · split at h
      · rename_i h13
        have hl : n.length = 13 := by
          have : ((n.length : Int) = 13) := by simpa using h13
          omega
        cases hv : Gen.ean.validate n with
        | error e => rw [hv] at h; cases h
        | ok r =>
          rw [hv] at h
          simp only [bind_ok] at h
          split at h
          · cases h
          · have hnv : n = v := by simpa using h
            subst hnv
            exact ⟨rfl, hD.2, hne, Or.inr ⟨hl, r, hv⟩⟩
      · cases h

def wt10 (i : Nat) : Int := (i : Int) + 1

theorem isbn10_calc_eq (p : Str) (hp : AllIn isAsciiDigit p) :
    Gen.isbn._calc_isbn10_check_digit p =
      .ok (if ((wsum wt10 0 (p.map (· - 48)) % 11) == (10 : Int)) = true then ([88] : Str)
        else Py.strOfInt (wsum wt10 0 (p.map (· - 48)) % 11)) := by
  unfold Gen.isbn._calc_isbn10_check_digit
  have key : ∀ g : Int × Str → R Int,
      (∀ (i : Nat) c, isAsciiDigit c = true → g ((i : Int), [c]) = .ok (wt10 i * ((c - 48 : Nat) : Int))) →
      (do
        let l ← (Py.enumerate (Py.chars p) 0).mapM g
        pure (if ((Py.sumInt l % 11) == (10 : Int)) = true then ([88] : Str)
          else Py.strOfInt (Py.sumInt l % 11))) =
      (.ok (if ((wsum wt10 0 (p.map (· - 48)) % 11) == (10 : Int)) = true then ([88] : Str)
        else Py.strOfInt (wsum wt10 0 (p.map (· - 48)) % 11)) : R Str) := by
    intro g hg
    obtain ⟨ws, h1, h2⟩ := mapM_enum_digits g wt10 p hp hg 0
    simp only [Int.natCast_zero] at h1
    simp only [h1, bind_ok, pure_ok, h2]
  apply key
  intro i c hc
  simp only [intOf_singleton_digit c hc]
  have hb := digit_bounds hc
  have hcv : (c : Int) - 48 = ((c - 48 : Nat) : Int) := by omega
  rw [hcv]
  rfl

/-- ISBN-10 in the form "weighted sum ≡ 0": weights 1 … 10 modulo 11, `X` = 10 -/
theorem isbn10_T {v : Str} (hp : AllIn isAsciiDigit v.dropLast) (hne : v ≠ []) (hl : v.length = 10)
    (hc : Gen.isbn._calc_isbn10_check_digit v.dropLast = .ok [v.getLast?.getD 0]) :
    AllIn isD11 v ∧ wsum wt10 0 (v.map val112) % 11 = 0 := by
  rw [isbn10_calc_eq _ hp, List.getLast?_eq_some_getLast hne] at hc
  have hlp : v.dropLast.length = 9 := by simp [hl]
  generalize hS : wsum wt10 0 (v.dropLast.map (· - 48)) = S at hc
  have heq : (if ((S % 11) == (10 : Int)) = true then ([88] : Str) else Py.strOfInt (S % 11)) =
      [v.getLast hne] := by simpa using hc
  obtain ⟨hk1, hk2⟩ := chk11_single (Int.emod_nonneg _ (by decide)) (by omega) heq
  constructor
  · intro c hc
    rw [← List.dropLast_concat_getLast hne] at hc
    rcases List.mem_append.mp hc with h1 | h1
    · exact d11_of_digit (hp c h1)
    · rw [List.mem_singleton.mp h1]; exact hk1
  · conv => lhs; rw [← List.dropLast_concat_getLast hne]
    rw [List.map_append, wsum_append, map_val112_digits hp, hS, List.length_map, hlp]
    simp only [List.map_cons, List.map_nil, wsum, hk2]
    unfold wt10
    omega

theorem isbn10_v_subst (u v : List Nat) (a b : Nat) (hlen : u.length < 10) (hu : ∀ x ∈ u, x < 11)
    (hv : ∀ x ∈ v, x < 11) (ha : a < 11) (hb : b < 11) (hab : a ≠ b) :
    wsum wt10 0 (u ++ a :: v) % 11 ≠ wsum wt10 0 (u ++ b :: v) % 11 := by
  rw [wsum_run, wsum_run]
  exact detects_subst_local (wstep wt10 11) (fun s => 0 ≤ s ∧ s < 11) (· < 11)
    (fun i s a _ _ => wstep_range wt10 11 (by decide) i s a)
    (fun i a s t hs ht _ h => wstep_inj_state wt10 11 i a s t hs ht h)
    u v a b hu hv ha hb 0 0 (by decide)
    (fun t ht h => by
      unfold wstep wt10 at h
      have : u.length = 0 ∨ u.length = 1 ∨ u.length = 2 ∨ u.length = 3 ∨ u.length = 4 ∨ u.length = 5 ∨
        u.length = 6 ∨ u.length = 7 ∨ u.length = 8 ∨ u.length = 9 := by omega
      rcases this with e | e | e | e | e | e | e | e | e | e <;> rw [e] at h <;> omega)

theorem isbn10_v_swap (u v : List Nat) (a b : Nat) (hlen : u.length + 1 < 10) (hu : ∀ x ∈ u, x < 11)
    (hv : ∀ x ∈ v, x < 11) (ha : a < 11) (hb : b < 11) (hab : a ≠ b) :
    wsum wt10 0 (u ++ a :: b :: v) % 11 ≠ wsum wt10 0 (u ++ b :: a :: v) % 11 := by
  rw [wsum_run, wsum_run]
  intro h
  rw [swap_iff (wstep wt10 11) (fun s => 0 ≤ s ∧ s < 11) (· < 11)
    (fun i s a _ _ => wstep_range wt10 11 (by decide) i s a)
    (fun i a s t hs ht _ h => wstep_inj_state wt10 11 i a s t hs ht h)
    u v a b hu hv ha hb 0 0 (by decide)] at h
  have hr := run_inv (wstep wt10 11) (fun s => 0 ≤ s ∧ s < 11) (· < 11)
    (fun i s a _ _ => wstep_range wt10 11 (by decide) i s a) u 0 0 hu (by decide)
  generalize run (wstep wt10 11) 0 0 u = r at h hr
  unfold wstep wt10 at h
  have : u.length = 0 ∨ u.length = 1 ∨ u.length = 2 ∨ u.length = 3 ∨ u.length = 4 ∨ u.length = 5 ∨
    u.length = 6 ∨ u.length = 7 ∨ u.length = 8 := by omega
  rcases this with e | e | e | e | e | e | e | e | e <;> rw [e] at h <;> omega

theorem isbnC_du {w : Str} (hw : AllIn isDU w) (h9 : w.length ≠ 9) : isbnC w = w := by
  unfold isbnC
  rw [du_compact_upper hw _ (by decide), if_neg h9]

/-- ISBN-10: replacing one character by any other digit or upper-case letter is rejected -/
theorem isbn10_single_error (x v : Str) (h : Gen.isbn.validate x false = .ok v) (hlen : v.length = 10)
    (i c : Nat) (hi : i < v.length) (hc : isDU c = true) (hne : c ≠ v[i]) :
    isOk (Gen.isbn.validate (v.set i c) false) = false := by
  obtain ⟨_, hp, hnil, hcase⟩ := isbn_ok h
  have hcalc : Gen.isbn._calc_isbn10_check_digit v.dropLast = .ok [v.getLast?.getD 0] := by
    rcases hcase with ⟨_, hcalc⟩ | ⟨h13, _⟩
    · exact hcalc
    · omega
  obtain ⟨hD, hT⟩ := isbn10_T hp hnil hlen hcalc
  have hw : AllIn isDU (v.set i c) := allIn_set (fun x hx => d11_du (hD x hx)) i c hc
  cases hv' : Gen.isbn.validate (v.set i c) false with
  | error e => rfl
  | ok v' =>
    exfalso
    obtain ⟨h1, hp', hnil', hcase'⟩ := isbn_ok hv'
    rw [isbnC_du hw (by simp; omega)] at h1
    subst h1
    have hcalc' : (v.set i c).length = 10 ∧
        Gen.isbn._calc_isbn10_check_digit (v.set i c).dropLast = .ok [(v.set i c).getLast?.getD 0] := by
      rcases hcase' with hh | ⟨h13, _⟩
      · exact hh
      · simp at h13; omega
    obtain ⟨hl', hcalc'⟩ := hcalc'
    obtain ⟨hD', hT'⟩ := isbn10_T hp' hnil' hl' hcalc'
    have h0 := split_at v i hi
    have hc11 : isD11 c = true := hD' c (List.mem_set hi c)
    rw [set_eq_split v i c hi] at hT'
    rw [h0] at hT hD
    obtain ⟨hu, ha, ht⟩ := allIn_split hD
    simp only [List.map_append, List.map_cons] at hT hT'
    refine isbn10_v_subst _ _ (val112 v[i]) (val112 c) (by simp; omega) (map_val112_lt hu) (map_val112_lt ht)
      (val112_lt ha) (val112_lt hc11) (fun e => hne (val112_inj ha hc11 e).symm) (hT.trans hT'.symm)

/-- ISBN-10: exchanging two adjacent different characters (check character included) is rejected -/
theorem isbn10_adjacent_swap (x v : Str) (h : Gen.isbn.validate x false = .ok v) (hlen : v.length = 10)
    (i : Nat) (hi : i + 1 < v.length) (hne : v[i] ≠ v[i + 1]) :
    isOk (Gen.isbn.validate (swapAdj v i) false) = false := by
  obtain ⟨_, hp, hnil, hcase⟩ := isbn_ok h
  have hcalc : Gen.isbn._calc_isbn10_check_digit v.dropLast = .ok [v.getLast?.getD 0] := by
    rcases hcase with ⟨_, hcalc⟩ | ⟨h13, _⟩
    · exact hcalc
    · omega
  obtain ⟨hD, hT⟩ := isbn10_T hp hnil hlen hcalc
  have hw : AllIn isDU (swapAdj v i) := allIn_swapAdj (fun x hx => d11_du (hD x hx)) i hi
  cases hv' : Gen.isbn.validate (swapAdj v i) false with
  | error e => rfl
  | ok v' =>
    exfalso
    obtain ⟨h1, hp', hnil', hcase'⟩ := isbn_ok hv'
    rw [isbnC_du hw (by simp; omega)] at h1
    subst h1
    have hcalc' : (swapAdj v i).length = 10 ∧
        Gen.isbn._calc_isbn10_check_digit (swapAdj v i).dropLast = .ok [(swapAdj v i).getLast?.getD 0] := by
      rcases hcase' with hh | ⟨h13, _⟩
      · exact hh
      · simp at h13; omega
    obtain ⟨hl', hcalc'⟩ := hcalc'
    obtain ⟨_, hT'⟩ := isbn10_T hp' hnil' hl' hcalc'
    have h0 := split_at₂ v i hi
    rw [swapAdj_eq v i hi] at hT'
    rw [h0] at hT hD
    obtain ⟨hu, ha, hbt⟩ := allIn_split hD
    have hb : isD11 v[i + 1] = true := hbt _ List.mem_cons_self
    have ht : AllIn isD11 (v.drop (i + 2)) := fun c hc => hbt c (List.mem_cons_of_mem _ hc)
    simp only [List.map_append, List.map_cons] at hT hT'
    refine isbn10_v_swap _ _ (val112 v[i]) (val112 v[i + 1]) (by simp; omega) (map_val112_lt hu)
      (map_val112_lt ht) (val112_lt ha) (val112_lt hb) (fun e => hne (val112_inj ha hb e)) (hT.trans hT'.symm)

/- full statement: without `hclean`.  `isbn.validate` applies `isdigits` to `number[:-1]` only and hands the
   13-character number to `ean.validate`, which compacts it again; that the last character is then an ASCII
   digit needs facts about `upper`/`strip`/`clean` at the last position that are not in the lemma library. -/
theorem isbn13_single_error_partial (x v : Str) (h : Gen.isbn.validate x false = .ok v)
    (hlen : v.length = 13) (hclean : AllIn isAsciiDigit v)
    (i c : Nat) (hi : i < v.length) (hc : isAsciiDigit c = true) (hne : c ≠ v[i]) :
    isOk (Gen.isbn.validate (v.set i c) false) = false := by
  obtain ⟨_, _, _, hcase⟩ := isbn_ok h
  rcases hcase with ⟨h10, _⟩ | ⟨_, r, hr⟩
  · omega
  have hrv : r = v := by
    have := (ean_ok hr).1
    rw [digits_compact hclean _ (by decide)] at this
    exact this
  subst hrv
  have hw : AllIn isAsciiDigit (r.set i c) := allIn_set hclean i c hc
  cases hv' : Gen.isbn.validate (r.set i c) false with
  | error e => rfl
  | ok v' =>
    exfalso
    obtain ⟨h1, _, _, hcase'⟩ := isbn_ok hv'
    rw [isbnC_du (fun x hx => by unfold isDU; rw [hw x hx]; rfl) (by simp; omega)] at h1
    subst h1
    rcases hcase' with ⟨hl', _⟩ | ⟨_, r', hr'⟩
    · simp at hl'; omega
    · have := ean_single_error r r hr i c hi hc hne
      rw [hr'] at this
      cases this

/-! ## stdnum.ismn (EAN-13 with the prefix 9790; `M` + 9 digits) -/

theorem ismn_ok {x v : Str} (h : Gen.ismn.validate x = .ok v) :
    v = upper (strip (cleanP x [32, 45, 46])) ∧
      ((v.length = 10 ∧ v[0]? = some 77 ∧ ∃ r, Gen.ean.validate ([57, 55, 57, 48] ++ v.drop 1) = .ok r) ∨
       (v.length = 13 ∧ ∃ r, Gen.ean.validate v = .ok r)) := by
  unfold Gen.ismn.validate Gen.ismn.compact at h
  simp only [clean_eq, bind_ok, pure_ok] at h
  generalize upper (strip (cleanP x [32, 45, 46])) = n at h
  split at h
  · rename_i h10
    have hl : n.length = 10 := by
      have : ((n.length : Int) = 10) := by simpa using h10
      omega
    have hne : n ≠ [] := by intro h0; subst h0; simp at hl
    rw [getItem_zero n hne] at h
    simp only [bind_ok] at h
    split at h
    · cases h
    · rename_i hM
      rw [slice_nonneg_none n (by decide)] at h
      cases hv : Gen.ean.validate ([57, 55, 57, 48] ++ n.drop (1 : Int).toNat) with
      | error e => rw [hv] at h; cases h
      | ok r =>
        rw [hv] at h
        have hnv : n = v := by simpa using h
        subst hnv
        refine ⟨rfl, Or.inl ⟨hl, ?_, r, hv⟩⟩
        cases n with
        | nil => exact absurd rfl hne
        | cons a t =>
          have : a = 77 := by simpa using hM
          subst this; rfl
  · split at h
    · rename_i h13
      have hl : n.length = 13 := by
        have : ((n.length : Int) = 13) := by simpa using h13
        omega
      split at h
      · cases h
      · cases hv : Gen.ean.validate n with
        | error e => rw [hv] at h; cases h
        | ok r =>
          rw [hv] at h
          have hnv : n = v := by simpa using h
          subst hnv
          exact ⟨rfl, Or.inr ⟨hl, r, hv⟩⟩
    · cases h

theorem du_of_digit {c : Nat} (h : isAsciiDigit c = true) : isDU c = true := by
  unfold isDU; rw [h]; rfl

/- full statement: without `hclean` (see `isbn13_single_error_partial`) -/
theorem ismn13_single_error_partial (x v : Str) (h : Gen.ismn.validate x = .ok v)
    (hlen : v.length = 13) (hclean : AllIn isAsciiDigit v)
    (i c : Nat) (hi : i < v.length) (hc : isAsciiDigit c = true) (hne : c ≠ v[i]) :
    isOk (Gen.ismn.validate (v.set i c)) = false := by
  obtain ⟨_, hcase⟩ := ismn_ok h
  have hr : ∃ r, Gen.ean.validate v = .ok r := by
    rcases hcase with ⟨h10, _⟩ | ⟨_, hr⟩
    · omega
    · exact hr
  obtain ⟨r, hr⟩ := hr
  have hrv : r = v := by
    have := (ean_ok hr).1
    rw [digits_compact hclean _ (by decide)] at this
    exact this
  subst hrv
  have hw : AllIn isAsciiDigit (r.set i c) := allIn_set hclean i c hc
  cases hv' : Gen.ismn.validate (r.set i c) with
  | error e => rfl
  | ok v' =>
    exfalso
    obtain ⟨h1, hcase'⟩ := ismn_ok hv'
    rw [du_compact_upper (fun x hx => du_of_digit (hw x hx)) _ (by decide)] at h1
    subst h1
    rcases hcase' with ⟨hl', _⟩ | ⟨_, r', hr'⟩
    · simp at hl'; omega
    · have := ean_single_error r r hr i c hi hc hne
      rw [hr'] at this
      cases this

/- full statement: without `hclean` (the nine characters after `M` are ASCII digits) -/
theorem ismn10_single_error_partial (x v : Str) (h : Gen.ismn.validate x = .ok v)
    (hlen : v.length = 10) (hclean : AllIn isAsciiDigit (v.drop 1))
    (i c : Nat) (hi : i < v.length) (hk : SameKind v[i] c) (hne : c ≠ v[i]) :
    isOk (Gen.ismn.validate (v.set i c)) = false := by
  obtain ⟨_, hcase⟩ := ismn_ok h
  have hr : v[0]? = some 77 ∧ ∃ r, Gen.ean.validate ([57, 55, 57, 48] ++ v.drop 1) = .ok r := by
    rcases hcase with ⟨_, h1, h2⟩ | ⟨h13, _⟩
    · exact ⟨h1, h2⟩
    · omega
  obtain ⟨hM, r, hr⟩ := hr
  have hfull : AllIn isAsciiDigit ([57, 55, 57, 48] ++ v.drop 1) :=
    allIn_append (by decide) hclean
  have hrv : r = [57, 55, 57, 48] ++ v.drop 1 := by
    have := (ean_ok hr).1
    rw [digits_compact hfull _ (by decide)] at this
    exact this
  subst hrv
  obtain ⟨hcdu, _, _⟩ := sameKind_b36 hk hne
  cases v with
  | nil => simp at hlen
  | cons m t =>
    have hm : m = 77 := by simpa using hM
    subst hm
    simp only [List.drop_succ_cons, List.drop_zero] at hclean hr hfull
    have hw : AllIn isDU ((77 :: t).set i c) :=
      allIn_set (allIn_cons (by decide) (fun x hx => du_of_digit (hclean x hx))) i c hcdu
    cases hv' : Gen.ismn.validate ((77 :: t).set i c) with
    | error e => rfl
    | ok v' =>
      exfalso
      obtain ⟨h1, hcase'⟩ := ismn_ok hv'
      rw [du_compact_upper hw _ (by decide)] at h1
      subst h1
      have hcase'' : ((77 :: t).set i c)[0]? = some 77 ∧
          ∃ r, Gen.ean.validate ([57, 55, 57, 48] ++ ((77 :: t).set i c).drop 1) = .ok r := by
        rcases hcase' with ⟨_, h1, h2⟩ | ⟨h13, _⟩
        · exact ⟨h1, h2⟩
        · simp at h13 hlen; omega
      obtain ⟨hM', r', hr'⟩ := hcase''
      cases i with
      | zero =>
        simp only [List.set_cons_zero, List.getElem?_cons_zero, Option.some.injEq] at hM'
        simp only [List.getElem_cons_zero] at hne
        exact hne hM'
      | succ j =>
        simp only [List.set_cons_succ, List.drop_succ_cons, List.drop_zero] at hr'
        simp only [List.getElem_cons_succ] at hne hk
        simp only [List.length_cons, Nat.add_lt_add_iff_right] at hi
        have hcd : isAsciiDigit c = true := by
          unfold SameKind at hk
          rcases hk with ⟨_, h2⟩ | ⟨h1, _⟩
          · exact h2
          · have := digit_bounds (hclean _ (List.getElem_mem hi))
            simp only [isAsciiUpper, Bool.and_eq_true, decide_eq_true_eq] at h1
            omega
        have hset : [57, 55, 57, 48] ++ t.set j c = ([57, 55, 57, 48] ++ t).set (4 + j) c := by
          rw [List.set_append_right _ _ (by simp)]
          simp
        have := ean_single_error _ _ hr (4 + j) c (by simp; omega) hcd (by
          rw [List.getElem_append_right (by simp)]
          simpa using hne)
        rw [← hset, hr'] at this
        cases this

/-! ## stdnum.iso11649, transposition of positions 3 and 4 (not adjacent in `number[4:] + number[:4]`)

Exchanging the first and the last digit of the rearranged number changes it by `(a - b)(10^(W+1) - 1)` where `W ≤ 46`
is the number of decimal digits in between; 10 has multiplicative order 96 modulo 97. -/

theorem m9710_vstep_eq (s v : Nat) :
    Mod9710.vstep s v = (s * 10 ^ (if v < 10 then 1 else 2) + v) % 97 := by
  unfold Mod9710.vstep
  split <;> simp

theorem mod_mul_add (a P c : Nat) : ((a % 97) * P + c) % 97 = (a * P + c) % 97 := by
  rw [Nat.add_mod, Nat.mul_mod, Nat.mod_mod, ← Nat.mul_mod, ← Nat.add_mod]

theorem m9710_fold_lt (l : List Nat) (s : Nat) (hs : s < 97) : l.foldl Mod9710.vstep s < 97 := by
  induction l generalizing s with
  | nil => exact hs
  | cons v l ih => exact ih _ (m9710_step_lt s v)

theorem m9710_fold_shift (l : List Nat) : ∀ s : Nat, s < 97 →
    l.foldl Mod9710.vstep s = (s * 10 ^ Mod9710.width l + l.foldl Mod9710.vstep 0) % 97 := by
  induction l with
  | nil => intro s hs; simp [Mod9710.width, Nat.mod_eq_of_lt hs]
  | cons v l ih =>
    intro s _
    simp only [List.foldl_cons]
    rw [ih (Mod9710.vstep s v) (m9710_step_lt s v), ih (Mod9710.vstep 0 v) (m9710_step_lt 0 v), width_cons,
      m9710_vstep_eq s v, m9710_vstep_eq 0 v]
    generalize (if v < 10 then 1 else 2) = w
    generalize Mod9710.width l = W
    generalize List.foldl Mod9710.vstep 0 l = F
    rw [Nat.pow_add]
    generalize 10 ^ w = T
    generalize 10 ^ W = P
    simp only [Nat.zero_mul, Nat.zero_add]
    rw [mod_mul_add, Nat.add_mod_mod]
    have e2 : s * (T * P) + (v % 97 * P + F) = v % 97 * P + (F + s * (T * P)) := by
      generalize s * (T * P) = X
      generalize v % 97 * P = Y
      omega
    rw [e2, mod_mul_add]
    congr 1
    rw [Nat.add_mul, Nat.mul_assoc]
    generalize s * (T * P) = X
    generalize v * P = Y
    omega

theorem pow10_mod97_ne : ∀ W ≤ 46, 10 ^ W % 97 ≠ 68 := by decide

theorem ends_swap_key : ∀ a < 10, ∀ b < 10, a ≠ b → ∀ q < 97,
    (a * q + ((98 - a) * 68) % 97) % 97 = (b * q + ((98 - b) * 68) % 97) % 97 → q = 68 := by
  decide +kernel

theorem ends_swap_arith (a b q M : Nat) (ha : a < 10) (hb : b < 10) (hab : a ≠ b) (hq : q < 97)
    (h1 : (((a * q + M) % 97) * 10 + b) % 97 = 1)
    (h2 : (((b * q + M) % 97) * 10 + a) % 97 = 1) : q = 68 := by
  have hX : (a * q + M) % 97 = ((98 - b) * 68) % 97 := by
    have : (a * q + M) % 97 < 97 := Nat.mod_lt _ (by decide)
    generalize (a * q + M) % 97 = X at h1 this
    omega
  have hY : (b * q + M) % 97 = ((98 - a) * 68) % 97 := by
    have : (b * q + M) % 97 < 97 := Nat.mod_lt _ (by decide)
    generalize (b * q + M) % 97 = Y at h2 this
    omega
  apply ends_swap_key a ha b hb hab q hq
  generalize a * q = A at hX ⊢
  generalize b * q = B at hY ⊢
  omega

/-- Mod 97-10, value level: exchanging the first and the last digit of a number of at most 46 inner decimal
digits changes the checksum (10 has multiplicative order 96 modulo 97) -/
theorem m9710_ends_swap (a b : Nat) (m : List Nat) (ha : a < 10) (hb : b < 10) (hab : a ≠ b)
    (hm : Mod9710.width m ≤ 46) (h1 : Mod9710.vchecksum (a :: m ++ [b]) = 1) :
    Mod9710.vchecksum (b :: m ++ [a]) ≠ 1 := by
  intro h2
  unfold Mod9710.vchecksum at h1 h2
  simp only [List.cons_append, List.foldl_cons, List.foldl_append, List.foldl_nil] at h1 h2
  have e : ∀ x, x < 10 → Mod9710.vstep 0 x = x := by
    intro x hx; unfold Mod9710.vstep; rw [if_pos hx]; omega
  rw [e a ha, m9710_fold_shift m a (by omega)] at h1
  rw [e b hb, m9710_fold_shift m b (by omega)] at h2
  have hM := m9710_fold_lt m 0 (by decide)
  generalize List.foldl Mod9710.vstep 0 m = M at h1 h2 hM
  have hq : 10 ^ Mod9710.width m % 97 < 97 := Nat.mod_lt _ (by decide)
  have r1 : ∀ x, (x * 10 ^ Mod9710.width m + M) % 97 = (x * (10 ^ Mod9710.width m % 97) + M) % 97 := by
    intro x
    rw [Nat.add_mod, Nat.mul_mod, Nat.add_mod (x * (10 ^ Mod9710.width m % 97)), Nat.mul_mod x (_ % 97),
      Nat.mod_mod]
  rw [r1] at h1 h2
  have hne := pow10_mod97_ne _ hm
  generalize 10 ^ Mod9710.width m % 97 = q at h1 h2 hq hne
  unfold Mod9710.vstep at h1 h2
  rw [if_pos hb] at h1
  rw [if_pos ha] at h2
  exact hne (ends_swap_arith a b q M ha hb hab hq h1 h2)

theorem width_le (l : List Nat) : Mod9710.width l ≤ 2 * l.length := by
  induction l with
  | nil => simp [Mod9710.width]
  | cons a l ih => rw [width_cons, List.length_cons]; split <;> omega

theorem b36Val_of_digit {c : Nat} (h : isAsciiDigit c = true) : b36Val c = c - 48 ∧ c - 48 < 10 := by
  have hb := digit_bounds h
  exact ⟨b36Val_digit c h, by omega⟩

theorem rot4_split (t d : Str) (a b : Nat) (ht : t.length = 3) :
    rot4 (t ++ a :: b :: d) = b :: (d ++ t) ++ [a] := by
  match t, ht with
  | [x, y, z], _ => simp [rot4]

theorem iso11649_swap34' (x t d : Str) (a b : Nat) (ht : t.length = 3)
    (h : Gen.iso11649.validate x = .ok (t ++ a :: b :: d))
    (ha : isAsciiDigit a = true) (hb : isAsciiDigit b = true) (hne : a ≠ b) :
    isOk (Gen.iso11649.validate (t ++ b :: a :: d)) = false := by
  obtain ⟨hD, ⟨_, h25⟩, hV⟩ := iso11649_ok h
  have hDt : AllIn isDU t := fun c hc => hD c (by simp [hc])
  have hDd : AllIn isDU d := fun c hc => hD c (by simp [hc])
  have hDw : AllIn isDU (t ++ b :: a :: d) :=
    allIn_append hDt (allIn_cons (du_of_digit hb) (allIn_cons (du_of_digit ha) hDd))
  apply iso11649_reject hDw
  have hDm : AllIn isAsciiAlnum (d ++ t) :=
    allIn_append (fun c hc => alnum_of_du (hDd c hc)) (fun c hc => alnum_of_du (hDt c hc))
  have hm : (d ++ t).length ≤ 23 := by
    simp only [List.length_append, List.length_cons] at h25 ⊢; omega
  rw [rot4_split t d a b ht] at hV
  rw [rot4_split t d b a ht]
  generalize d ++ t = m at hDm hm hV ⊢
  have hA1 : AllIn isAsciiAlnum (b :: m ++ [a]) :=
    allIn_append (allIn_cons (digit_alnum hb) hDm) (allIn_cons (digit_alnum ha) (fun _ h => by simp at h))
  have hA2 : AllIn isAsciiAlnum (a :: m ++ [b]) :=
    allIn_append (allIn_cons (digit_alnum ha) hDm) (allIn_cons (digit_alnum hb) (fun _ h => by simp at h))
  rw [mod_97_10_validate_eq] at hV ⊢
  have h1 := ((m9710_valid_iff pyB36 pyB36_extends defaultMaxDigits _ hA1).mp hV).2.2
  cases hok : isOk (Mod9710.validate pyB36 defaultMaxDigits (a :: m ++ [b])) with
  | false => rfl
  | true =>
    exfalso
    have h2 := ((m9710_valid_iff pyB36 pyB36_extends defaultMaxDigits _ hA2).mp hok).2.2
    obtain ⟨ea, hla⟩ := b36Val_of_digit ha
    obtain ⟨eb, hlb⟩ := b36Val_of_digit hb
    simp only [List.map_append, List.map_cons, List.map_nil, List.cons_append] at h1 h2
    have hba := digit_bounds ha
    have hbb := digit_bounds hb
    refine m9710_ends_swap (b36Val b) (b36Val a) (m.map b36Val) (by omega) (by omega) (by omega) ?_ h1 h2
    have := width_le (m.map b36Val)
    rw [List.length_map] at this
    omega

/-- the transposition of the second check digit and the first character of the reference (positions 3 and 4):
in `number[4:] + number[:4]` the two characters are the first and the last one -/
theorem iso11649_swap34 (x v : Str) (h : Gen.iso11649.validate x = .ok v) (h5 : 4 < v.length)
    (ha : isAsciiDigit v[3] = true) (hb : isAsciiDigit v[4] = true) (hne : v[3] ≠ v[4]) :
    isOk (Gen.iso11649.validate (swapAdj v 3)) = false := by
  have hv : v = v.take 3 ++ v[3] :: v[4] :: v.drop 5 := split_at₂ v 3 h5
  have hl3 : (v.take 3).length = 3 := by simp; omega
  rw [swapAdj_eq v 3 h5]
  exact iso11649_swap34' x _ _ _ _ hl3 (by rw [← hv]; exact h) ha hb hne

/-- ISO 11649: every transposition of two adjacent different digits is rejected -/
theorem iso11649_adjacent_swap (x v : Str) (h : Gen.iso11649.validate x = .ok v)
    (i : Nat) (hi : i + 1 < v.length)
    (ha : isAsciiDigit v[i] = true) (hb : isAsciiDigit v[i + 1] = true) (hne : v[i] ≠ v[i + 1]) :
    isOk (Gen.iso11649.validate (swapAdj v i)) = false := by
  by_cases h3 : i = 3
  · subst h3
    exact iso11649_swap34 x v h hi ha hb hne
  · exact iso11649_adjacent_swap_ne3 x v h i hi h3 ha hb hne

/-! ## more delegating modules: stdnum.se.orgnr (Luhn), stdnum.in_.vid (Verhoeff), stdnum.hr.oib, stdnum.de.vat
(ISO 7064 Mod 11,10) -/

theorem se_orgnr_ok {x v : Str} (h : Gen.se_orgnr.validate x = .ok v) :
    AllIn isAsciiDigit v ∧ isOk (Gen.luhn.validate v d10) = true := by
  unfold Gen.se_orgnr.validate Gen.se_orgnr.compact at h
  simp only [clean_eq, isdigits_eq, bind_ok, pure_ok] at h
  generalize strip (cleanP x [32, 45, 46]) = n at h
  cases hd : isDigitsB n with
  | false => simp [hd] at h
  | true =>
    have hD := (isDigitsB_iff n).mp hd
    simp only [hd, Bool.not_true, Bool.false_eq_true, if_false] at h
    split at h
    · cases h
    · have hr := gen_luhn_validate_ok h
      subst hr
      exact ⟨hD.2, isOk_true_of_ok h⟩

theorem se_orgnr_reject {w : Str} (hw : AllIn isAsciiDigit w)
    (hl : isOk (Gen.luhn.validate w d10) = false) : isOk (Gen.se_orgnr.validate w) = false := by
  unfold Gen.se_orgnr.validate Gen.se_orgnr.compact
  simp only [clean_eq, isdigits_eq, bind_ok, pure_ok]
  rw [digits_compact hw _ (by decide)]
  cases hv : Gen.luhn.validate w d10 with
  | ok r => rw [hv] at hl; cases hl
  | error e =>
    unfold d10 at hv
    split
    · rfl
    · split
      · rfl
      · rw [hv]; rfl

theorem se_orgnr_single_error (x v : Str) (h : Gen.se_orgnr.validate x = .ok v)
    (i c : Nat) (hi : i < v.length) (hc : isAsciiDigit c = true) (hne : c ≠ v[i]) :
    isOk (Gen.se_orgnr.validate (v.set i c)) = false := by
  obtain ⟨hD, hL⟩ := se_orgnr_ok h
  apply se_orgnr_reject (allIn_set hD i c hc)
  rw [gen_luhn_set_detected d10 v i c hi (by decide) (fun x hx => mem_d10.mpr (hD x hx)) (mem_d10.mpr hc) hne hL]
  rfl

theorem vid_re_digits {n : Str} (hl : n.length = 16)
    (h : (Re.match_ Gen.in__vid._vid_re n).isSome = true) : AllIn isAsciiDigit n := by
  obtain ⟨m, hm⟩ := Option.isSome_iff_exists.mp h
  obtain ⟨core, h1, _, _, _, h4, h5⟩ := Re.match_shape_eol (p := Gen.in__vid._vid_re) rfl hm
  have hc : core.length = 16 := by
    have := h5
    simp [Gen.in__vid._vid_re, Re.Regex.lenBound, Re.LenIn, Re.optAdd, Re.optMul] at this
    omega
  have : n = core := by
    rcases h1 with h1 | h1
    · exact h1
    · rw [h1] at hl; simp at hl; omega
  subst this
  intro c hc
  have := h4 c hc
  simp [Gen.in__vid._vid_re, Re.Regex.charPred, Re.classMatch, Re.itemMatch] at this ⊢
  omega

theorem vid_ok {x v : Str} (h : Gen.in__vid.validate x = .ok v) :
    AllIn isAsciiDigit v ∧ isOk (Gen.verhoeff.validate v) = true := by
  unfold Gen.in__vid.validate Gen.in__vid.compact at h
  simp only [clean_eq, bind_ok, pure_ok] at h
  generalize strip (cleanP x [32, 45]) = n at h
  split at h
  · cases h
  · rename_i hlen
    have hl : n.length = 16 := by
      apply Classical.byContradiction
      intro hh
      apply hlen
      simp only [bne_iff_ne, ne_eq]
      omega
    split at h
    · cases h
    · rename_i hre
      have hD := vid_re_digits hl (by
        cases hm : (Re.match_ Gen.in__vid._vid_re n).isSome with
        | true => rfl
        | false => rw [hm] at hre; exact absurd rfl hre)
      split at h
      · cases h
      · cases hv : Gen.verhoeff.validate n with
        | error e => rw [hv] at h; cases h
        | ok r =>
          rw [hv] at h
          cases h
          exact ⟨hD, isOk_true_of_ok hv⟩

theorem vid_reject {w : Str} (hw : AllIn isAsciiDigit w)
    (hl : isOk (Gen.verhoeff.validate w) = false) : isOk (Gen.in__vid.validate w) = false := by
  unfold Gen.in__vid.validate Gen.in__vid.compact
  simp only [clean_eq, bind_ok, pure_ok]
  rw [digits_compact hw _ (by decide)]
  cases hv : Gen.verhoeff.validate w with
  | ok r => rw [hv] at hl; cases hl
  | error e =>
    split
    · rfl
    · split
      · rfl
      · split
        · rfl
        · rfl

theorem vid_single_error (x v : Str) (h : Gen.in__vid.validate x = .ok v)
    (i c : Nat) (hi : i < v.length) (hc : isAsciiDigit c = true) (hne : c ≠ v[i]) :
    isOk (Gen.in__vid.validate (v.set i c)) = false := by
  obtain ⟨hD, hV⟩ := vid_ok h
  apply vid_reject (allIn_set hD i c hc)
  rw [gen_verhoeff_set_detected v i c hi hD hc hne hV]
  rfl

theorem vid_adjacent_swap (x v : Str) (h : Gen.in__vid.validate x = .ok v)
    (i : Nat) (hi : i + 1 < v.length) (hne : v[i] ≠ v[i + 1]) :
    isOk (Gen.in__vid.validate (swapAdj v i)) = false := by
  obtain ⟨hD, hV⟩ := vid_ok h
  apply vid_reject (allIn_swapAdj hD i hi)
  rw [gen_verhoeff_swapAdj_detected v i hi hD hne hV]
  rfl

theorem gen_mod_11_10_set_detected (v : Str) (i c : Nat) (hi : i < v.length)
    (hw : AllIn isAsciiDigit v) (hc : isAsciiDigit c = true) (hne : c ≠ v[i])
    (hvalid : isOk (Gen.iso7064_mod_11_10.validate v) = true) :
    Gen.iso7064_mod_11_10.validate (v.set i c) = .error .invalidChecksum := by
  rw [set_eq_split v i c hi]
  have h0 := split_at v i hi
  exact gen_mod_11_10_subst_detected (v.take i) (v.drop (i + 1)) v[i] c (h0 ▸ hw) hc
    (Ne.symm hne) (h0 ▸ hvalid)

/-- a digit string does not start with a two-letter country prefix -/
theorem digits_not_startswith {w p : Str} (hw : AllIn isAsciiDigit w) (hp : ∃ c ∈ p, isAsciiDigit c = false) :
    startswith w p = false := by
  cases hs : startswith w p with
  | false => rfl
  | true =>
    obtain ⟨c, hc, hcd⟩ := hp
    rw [hw c (isPrefixOf_mem hs c hc)] at hcd
    cases hcd

theorem digits_compact_su {w : Str} (hw : AllIn isAsciiDigit w) (d : Str)
    (hd : ∀ c ∈ d, isAsciiAlnum c = false) : strip (upper (cleanP w d)) = w :=
  du_compact_upper' (fun c hc => du_of_digit (hw c hc)) d hd

theorem hr_oib_ok {x v : Str} (h : Gen.hr_oib.validate x = .ok v) :
    AllIn isAsciiDigit v ∧ isOk (Gen.iso7064_mod_11_10.validate v) = true := by
  unfold Gen.hr_oib.validate at h
  cases hc : Gen.hr_oib.compact x with
  | error e => simp only [hc] at h; cases h
  | ok n =>
    simp only [hc, isdigits_eq, bind_ok, pure_ok] at h
    cases hd : isDigitsB n with
    | false => simp [hd] at h
    | true =>
      have hD := (isDigitsB_iff n).mp hd
      simp only [hd, Bool.not_true, Bool.false_eq_true, if_false] at h
      split at h
      · cases h
      · cases hv : Gen.iso7064_mod_11_10.validate n with
        | error e => rw [hv] at h; cases h
        | ok r =>
          rw [hv] at h
          cases h
          exact ⟨hD.2, isOk_true_of_ok hv⟩

theorem hr_oib_reject {w : Str} (hw : AllIn isAsciiDigit w)
    (hl : isOk (Gen.iso7064_mod_11_10.validate w) = false) : isOk (Gen.hr_oib.validate w) = false := by
  unfold Gen.hr_oib.validate Gen.hr_oib.compact
  simp only [clean_eq, isdigits_eq, bind_ok, pure_ok]
  rw [digits_compact_su hw _ (by decide), digits_not_startswith hw ⟨72, by simp, by decide⟩]
  simp only [Bool.false_eq_true, if_false, bind_ok]
  cases hv : Gen.iso7064_mod_11_10.validate w with
  | ok r => rw [hv] at hl; cases hl
  | error e =>
    split
    · rfl
    · split
      · rfl
      · rfl

theorem hr_oib_single_error (x v : Str) (h : Gen.hr_oib.validate x = .ok v)
    (i c : Nat) (hi : i < v.length) (hc : isAsciiDigit c = true) (hne : c ≠ v[i]) :
    isOk (Gen.hr_oib.validate (v.set i c)) = false := by
  obtain ⟨hD, hV⟩ := hr_oib_ok h
  apply hr_oib_reject (allIn_set hD i c hc)
  rw [gen_mod_11_10_set_detected v i c hi hD hc hne hV]
  rfl

theorem de_vat_ok {x v : Str} (h : Gen.de_vat.validate x = .ok v) :
    AllIn isAsciiDigit v ∧ isOk (Gen.iso7064_mod_11_10.validate v) = true := by
  unfold Gen.de_vat.validate at h
  cases hc : Gen.de_vat.compact x with
  | error e => simp only [hc] at h; cases h
  | ok n =>
    simp only [hc, isdigits_eq, bind_ok, pure_ok] at h
    cases hd : isDigitsB n with
    | false => simp [hd] at h
    | true =>
      have hD := (isDigitsB_iff n).mp hd
      simp only [hd, Bool.not_true, Bool.false_eq_true, if_false] at h
      cases hg : Py.getItem n 0 with
      | error e => rw [hg] at h; cases h
      | ok c0 =>
        rw [hg] at h
        simp only [bind_ok] at h
        split at h
        · cases h
        · split at h
          · cases h
          · cases hv : Gen.iso7064_mod_11_10.validate n with
            | error e => rw [hv] at h; cases h
            | ok r =>
              rw [hv] at h
              cases h
              exact ⟨hD.2, isOk_true_of_ok hv⟩

theorem de_vat_reject {w : Str} (hw : AllIn isAsciiDigit w)
    (hl : isOk (Gen.iso7064_mod_11_10.validate w) = false) : isOk (Gen.de_vat.validate w) = false := by
  unfold Gen.de_vat.validate Gen.de_vat.compact
  simp only [clean_eq, isdigits_eq, bind_ok, pure_ok]
  rw [digits_compact_su hw _ (by decide), digits_not_startswith hw ⟨68, by simp, by decide⟩]
  simp only [Bool.false_eq_true, if_false, bind_ok]
  cases hv : Gen.iso7064_mod_11_10.validate w with
  | ok r => rw [hv] at hl; cases hl
  | error e =>
    split
    · rfl
    · cases Py.getItem w 0 with
      | error e => rfl
      | ok c0 =>
        simp only [bind_ok]
        split
        · rfl
        · split
          · rfl
          · rfl

theorem de_vat_single_error (x v : Str) (h : Gen.de_vat.validate x = .ok v)
    (i c : Nat) (hi : i < v.length) (hc : isAsciiDigit c = true) (hne : c ≠ v[i]) :
    isOk (Gen.de_vat.validate (v.set i c)) = false := by
  obtain ⟨hD, hV⟩ := de_vat_ok h
  apply de_vat_reject (allIn_set hD i c hc)
  rw [gen_mod_11_10_set_detected v i c hi hD hc hne hV]
  rfl


/-! # Non-vacuity: the docstring numbers are accepted by the generated `validate` (kernel evaluation), and each
theorem is instantiated on them -/
section Examples
open Lean Elab Term in
/-- `str% "ab"` elaborates to the code-point list `[97, 98]` -/
scoped elab "str% " x:str : term => return toExpr (x.getString.toList.map Char.toNat)

theorem ex_imei : Gen.imei.validate (str% "35-209900-176148-1") = .ok (str% "352099001761481") := by
  decide +kernel
example : isOk (Gen.imei.validate (str% "352099001761491")) = false :=
  imei_single_error _ _ ex_imei rfl 13 57 (by decide) (by decide) (by decide)
/-- 14- and 16-digit IMEIs carry no check digit: every digit string of these lengths is accepted, which is why
the property (and `imei_single_error`) speaks of 15-digit IMEIs -/
example : Gen.imei.validate (str% "35209900176148") = .ok (str% "35209900176148") ∧
    Gen.imei.validate (str% "35209900176149") = .ok (str% "35209900176149") := by decide +kernel

theorem ex_siren : Gen.fr_siren.validate (str% "552 008 443") = .ok (str% "552008443") := by decide +kernel
example : isOk (Gen.fr_siren.validate (str% "552008449")) = false :=
  fr_siren_single_error _ _ ex_siren 8 57 (by decide) (by decide) (by decide)

theorem ex_sin : Gen.ca_sin.validate (str% "123-456-782") = .ok (str% "123456782") := by decide +kernel
example : isOk (Gen.ca_sin.validate (str% "723456782")) = false :=
  ca_sin_single_error _ _ ex_sin 0 55 (by decide) (by decide) (by decide)

theorem ex_aadhaar : Gen.in__aadhaar.validate (str% "234123412346") = .ok (str% "234123412346") := by
  decide +kernel
example : isOk (Gen.in__aadhaar.validate (str% "234123412396")) = false :=
  aadhaar_single_error _ _ ex_aadhaar 10 57 (by decide) (by decide) (by decide)
example : isOk (Gen.in__aadhaar.validate (str% "324123412346")) = false :=
  aadhaar_adjacent_swap _ _ ex_aadhaar 0 (by decide) (by decide)

theorem ex_grid : Gen.grid.validate (str% "A1-2425G-ABC1234002-M") = .ok (str% "A12425GABC1234002M") := by
  decide +kernel
example : isOk (Gen.grid.validate (str% "A12425GABC1234002N")) = false :=
  grid_single_error _ _ ex_grid 17 78 (by decide) (by decide) (by decide)
example : isOk (Gen.grid.validate (str% "A12425G7BC1234002M")) = false :=
  grid_single_error _ _ ex_grid 7 55 (by decide) (by decide) (by decide)

theorem ex_lei : Gen.lei.validate (str% "213800KUD8LAJWSQ9D15") = .ok (str% "213800KUD8LAJWSQ9D15") := by
  decide +kernel
example : isOk (Gen.lei.validate (str% "213800KUD8LBJWSQ9D15")) = false :=
  lei_single_error _ _ ex_lei 11 66 (by decide) (Or.inr (by decide)) (by decide)
example : isOk (Gen.lei.validate (str% "123800KUD8LAJWSQ9D15")) = false :=
  lei_adjacent_swap _ _ ex_lei 0 (by decide) (by decide) (by decide) (by decide)

theorem ex_iso11649 : Gen.iso11649.validate (str% "RF18 5390 0754 7034") = .ok (str% "RF18539007547034") := by
  decide +kernel
example : isOk (Gen.iso11649.validate (str% "RF19539007547034")) = false :=
  iso11649_single_error _ _ ex_iso11649 3 57 (by decide) (Or.inl (by decide)) (by decide)
example : isOk (Gen.iso11649.validate (str% "RF18539007547043")) = false :=
  iso11649_adjacent_swap_ne3 _ _ ex_iso11649 14 (by decide) (by decide) (by decide) (by decide) (by decide)
example : isOk (Gen.iso11649.validate (str% "RF15839007547034")) = false :=
  iso11649_adjacent_swap _ _ ex_iso11649 3 (by decide) (by decide) (by decide) (by decide)
example : isOk (Gen.iso11649.validate (str% "RF81539007547034")) = false :=
  iso11649_adjacent_swap_ne3 _ _ ex_iso11649 2 (by decide) (by decide) (by decide) (by decide) (by decide)

theorem ex_isni : Gen.isni.validate (str% "0000 0001 2146 438X") = .ok (str% "000000012146438X") := by
  decide +kernel
example : isOk (Gen.isni.validate (str% "0000000121464380")) = false :=
  isni_single_error _ _ ex_isni (by decide) 15 48 (by decide) (by decide) (by decide)
example : isOk (Gen.isni.validate (str% "000000012146483X")) = false :=
  isni_adjacent_swap _ _ ex_isni (by decide) 13 (by decide) (by decide)

theorem ex_ean8 : Gen.ean.validate (str% "73513537") = .ok (str% "73513537") := by decide +kernel
example : isOk (Gen.ean.validate (str% "73513637")) = false :=
  ean_single_error _ _ ex_ean8 5 54 (by decide) (by decide) (by decide)
theorem ex_ean13 : Gen.ean.validate (str% "978-0-471-11709-4") = .ok (str% "9780471117094") := by decide +kernel
example : isOk (Gen.ean.validate (str% "9780471117084")) = false :=
  ean_single_error _ _ ex_ean13 11 56 (by decide) (by decide) (by decide)
/-- EAN does not protect against all adjacent transpositions (the property does not claim it): digits that
differ by 5 can be exchanged -/
example : Gen.ean.validate (str% "16000001") = .ok (str% "16000001") ∧
    Gen.ean.validate (str% "61000001") = .ok (str% "61000001") := by decide +kernel

theorem ex_issn : Gen.issn.validate (str% "0024-9319") = .ok (str% "00249319") := by decide +kernel
example : isOk (Gen.issn.validate (str% "00249318")) = false :=
  issn_single_error _ _ ex_issn 7 56 (by decide) (by decide) (by decide)
example : isOk (Gen.issn.validate (str% "0024931X")) = false :=
  issn_single_error _ _ ex_issn 7 88 (by decide) (by decide) (by decide)
example : isOk (Gen.issn.validate (str% "00249391")) = false :=
  issn_adjacent_swap _ _ ex_issn 6 (by decide) (by decide)

theorem ex_isbn10 : Gen.isbn.validate (str% "1-85798-218-5") false = .ok (str% "1857982185") := by
  decide +kernel
example : isOk (Gen.isbn.validate (str% "1857982195") false) = false :=
  isbn10_single_error _ _ ex_isbn10 rfl 8 57 (by decide) (by decide) (by decide)
example : isOk (Gen.isbn.validate (str% "1857982158") false) = false :=
  isbn10_adjacent_swap _ _ ex_isbn10 rfl 8 (by decide) (by decide)
theorem ex_isbn13 : Gen.isbn.validate (str% "978-0-471-11709-4") false = .ok (str% "9780471117094") := by
  decide +kernel
example : isOk (Gen.isbn.validate (str% "9780471117194") false) = false :=
  isbn13_single_error_partial _ _ ex_isbn13 rfl (by decide) 10 49 (by decide) (by decide) (by decide)

theorem ex_ismn13 : Gen.ismn.validate (str% "979-0-3452-4680-5") = .ok (str% "9790345246805") := by
  decide +kernel
example : isOk (Gen.ismn.validate (str% "9790345246815")) = false :=
  ismn13_single_error_partial _ _ ex_ismn13 rfl (by decide) 11 49 (by decide) (by decide) (by decide)
theorem ex_ismn10 : Gen.ismn.validate (str% "M-2306-7118-7") = .ok (str% "M230671187") := by decide +kernel
example : isOk (Gen.ismn.validate (str% "M230671197")) = false :=
  ismn10_single_error_partial _ _ ex_ismn10 rfl (by decide) 8 57 (by decide) (Or.inl (by decide)) (by decide)
example : isOk (Gen.ismn.validate (str% "N230671187")) = false :=
  ismn10_single_error_partial _ _ ex_ismn10 rfl (by decide) 0 78 (by decide) (Or.inr (by decide)) (by decide)

theorem ex_orgnr : Gen.se_orgnr.validate (str% "123456-7897") = .ok (str% "1234567897") := by decide +kernel
example : isOk (Gen.se_orgnr.validate (str% "1234567097")) = false :=
  se_orgnr_single_error _ _ ex_orgnr 7 48 (by decide) (by decide) (by decide)
theorem ex_vid : Gen.in__vid.validate (str% "2341 2341 2341 2341") = .ok (str% "2341234123412341") := by
  decide +kernel
example : isOk (Gen.in__vid.validate (str% "2341234123412351")) = false :=
  vid_single_error _ _ ex_vid 14 53 (by decide) (by decide) (by decide)
example : isOk (Gen.in__vid.validate (str% "2341234123412314")) = false :=
  vid_adjacent_swap _ _ ex_vid 14 (by decide) (by decide)
theorem ex_oib : Gen.hr_oib.validate (str% "HR 33392005961") = .ok (str% "33392005961") := by decide +kernel
example : isOk (Gen.hr_oib.validate (str% "33392005951")) = false :=
  hr_oib_single_error _ _ ex_oib 9 53 (by decide) (by decide) (by decide)
theorem ex_devat : Gen.de_vat.validate (str% "DE 136,695 976") = .ok (str% "136695976") := by decide +kernel
example : isOk (Gen.de_vat.validate (str% "136695977")) = false :=
  de_vat_single_error _ _ ex_devat 8 55 (by decide) (by decide) (by decide)

end Examples

end Props.C17

#print axioms Props.C17.imei_single_error
#print axioms Props.C17.fr_siren_single_error
#print axioms Props.C17.ca_sin_single_error
#print axioms Props.C17.aadhaar_single_error
#print axioms Props.C17.aadhaar_adjacent_swap
#print axioms Props.C17.grid_single_error
#print axioms Props.C17.lei_single_error
#print axioms Props.C17.lei_adjacent_swap
#print axioms Props.C17.iso11649_single_error
#print axioms Props.C17.iso11649_adjacent_swap_ne3
#print axioms Props.C17.iso11649_swap34
#print axioms Props.C17.iso11649_adjacent_swap
#print axioms Props.C17.m9710_ends_swap
#print axioms Props.C17.isni_single_error
#print axioms Props.C17.isni_adjacent_swap
#print axioms Props.C17.ean_single_error
#print axioms Props.C17.issn_single_error
#print axioms Props.C17.issn_adjacent_swap
#print axioms Props.C17.isbn10_single_error
#print axioms Props.C17.isbn10_adjacent_swap
#print axioms Props.C17.isbn13_single_error_partial
#print axioms Props.C17.ismn13_single_error_partial
#print axioms Props.C17.ismn10_single_error_partial
#print axioms Props.C17.gen_luhn_set_detected
#print axioms Props.C17.gen_verhoeff_set_detected
#print axioms Props.C17.gen_verhoeff_swapAdj_detected
#print axioms Props.C17.gen_mod_37_36_set_detected
#print axioms Props.C17.gen_mod_97_10_set_detected
#print axioms Props.C17.gen_mod_97_10_swapAdj_detected
#print axioms Props.C17.ean_v_subst
#print axioms Props.C17.issn_v_subst
#print axioms Props.C17.issn_v_swap
#print axioms Props.C17.isbn10_v_subst
#print axioms Props.C17.isbn10_v_swap
#print axioms Props.C17.ean_ok
#print axioms Props.C17.issn_ok
#print axioms Props.C17.isbn_ok
#print axioms Props.C17.ismn_ok
#print axioms Props.C17.ean_calc_eq
#print axioms Props.C17.issn_calc_eq
#print axioms Props.C17.isbn10_calc_eq
#print axioms Props.C17.se_orgnr_single_error
#print axioms Props.C17.vid_single_error
#print axioms Props.C17.vid_adjacent_swap
#print axioms Props.C17.hr_oib_single_error
#print axioms Props.C17.de_vat_single_error
#print axioms Props.C17.gen_mod_11_10_set_detected
