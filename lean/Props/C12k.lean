import Props.C12
import Props.C12c
import Lemmas.StrSpecs
/-!
# C12 (part 1, continued) — `ismn.split` finds a publisher range for every accepted number (never `None`)
-/
namespace Props.C12
open Py Spec.Checksum Lemmas.Refine Lemmas.Fold Props.C06 Props.C06Gen Props.C17 Props.C08

set_option linter.unusedVariables false
set_option linter.unusedSimpArgs false

/-- one more digit: `v[a:b+1]` as a number -/
theorem fld_succ {v : Str} (a b : Nat) (hab : a ≤ b) (hb : b < v.length) :
    fld v a (b + 1) = fld v a b * 10 + ((v[b] : Int) - 48) := by
  unfold fld
  have e : (v.drop a).take (b + 1 - a) = (v.drop a).take (b - a) ++ [v[b]] := by
    rw [show b + 1 - a = (b - a) + 1 by omega, List.take_add_one]
    congr 1
    rw [List.getElem?_drop, show a + (b - a) = b by omega, List.getElem?_eq_getElem hb]
    rfl
  rw [e, digitsVal_append_singleton]

/-- a range test of `ismn.split` on a digit string, as arithmetic -/
theorem ismn_range_test {w : Str} (hD : AllIn isAsciiDigit w) (hl : w.length = 13) (l : Nat) (l' : Int)
    (hl' : l' = l) (h1 : 1 ≤ l) (h8 : l ≤ 8) (low high : Str) (hlo : AllIn isAsciiDigit low)
    (hhi : AllIn isAsciiDigit high) (hlol : low.length = l) (hhil : high.length = l) :
    (strLe low (slice w (some 4) (some (4 + l'))) && strLe (slice w (some 4) (some (4 + l'))) high) =
      decide (digitsVal low ≤ fld w 4 (4 + l) ∧ fld w 4 (4 + l) ≤ digitsVal high) := by
  have hs : slice w (some 4) (some (4 + l')) = (w.drop 4).take (4 + l - 4) :=
    slice_eq_drop_take w 4 (4 + l) 4 (4 + l') rfl (by subst hl'; simp) (by omega)
  have hsd : AllIn isAsciiDigit ((w.drop 4).take (4 + l - 4)) := fun c hc =>
    hD c (List.mem_of_mem_drop (List.mem_of_mem_take hc))
  have hsl : ((w.drop 4).take (4 + l - 4)).length = l := by
    simp only [List.length_take, List.length_drop]; omega
  rw [hs, strLe_digits hlo hsd (by rw [hsl, hlol]), strLe_digits hsd hhi (by rw [hsl, hhil])]
  unfold fld
  by_cases ha : digitsVal low ≤ digitsVal ((w.drop 4).take (4 + l - 4)) <;>
    by_cases hb : digitsVal ((w.drop 4).take (4 + l - 4)) ≤ digitsVal high <;> simp [ha, hb]

/-- the loop of `ismn.split` finds a range in every 13-digit number -/
theorem ismn_split_total_core (u u' w : Str) (hc : Gen.ismn.compact u = .ok u')
    (ht : Gen.ismn.to_ismn13 u' = .ok w) (hD : AllIn isAsciiDigit w) (hl : w.length = 13) :
    ∃ p, Gen.ismn.split u = .ok (some p) := by
  have hne : w ≠ [] := by intro h0; subst h0; simp at hl
  have hg3 : Py.getItem w 3 = .ok (slice w (some 3) (some 4)) :=
    getItem_eq_slice w (i := 3) (by decide) (by omega)
  have hgl := getItem_neg_one_eq_slice w hne
  have e3 := ismn_range_test hD hl 3 3 rfl (by omega) (by omega) [48, 48, 48] [48, 57, 57] (by decide) (by decide) rfl rfl
  have e4 := ismn_range_test hD hl 4 4 rfl (by omega) (by omega) [49, 48, 48, 48] [51, 57, 57, 57] (by decide)
    (by decide) rfl rfl
  have e5 := ismn_range_test hD hl 5 5 rfl (by omega) (by omega) [52, 48, 48, 48, 48] [54, 57, 57, 57, 57] (by decide)
    (by decide) rfl rfl
  have e6 := ismn_range_test hD hl 6 6 rfl (by omega) (by omega) [55, 48, 48, 48, 48, 48] [56, 57, 57, 57, 57, 57]
    (by decide) (by decide) rfl rfl
  have e7 := ismn_range_test hD hl 7 7 rfl (by omega) (by omega) [57, 48, 48, 48, 48, 48, 48]
    [57, 57, 57, 57, 57, 57, 57] (by decide) (by decide) rfl rfl
  have v3 : digitsVal [48, 48, 48] = 0 ∧ digitsVal [48, 57, 57] = 99 := by decide
  have v4 : digitsVal [49, 48, 48, 48] = 1000 ∧ digitsVal [51, 57, 57, 57] = 3999 := by decide
  have v5 : digitsVal [52, 48, 48, 48, 48] = 40000 ∧ digitsVal [54, 57, 57, 57, 57] = 69999 := by decide
  have v6 : digitsVal [55, 48, 48, 48, 48, 48] = 700000 ∧ digitsVal [56, 57, 57, 57, 57, 57] = 899999 := by decide
  have v7 : digitsVal [57, 48, 48, 48, 48, 48, 48] = 9000000 ∧ digitsVal [57, 57, 57, 57, 57, 57, 57] = 9999999 := by
    decide
  rw [v3.1, v3.2] at e3; rw [v4.1, v4.2] at e4; rw [v5.1, v5.2] at e5; rw [v6.1, v6.2] at e6; rw [v7.1, v7.2] at e7
  -- the digit-by-digit relation between the five candidate fields
  have d7 := hD w[7] (List.getElem_mem _)
  have d8 := hD w[8] (List.getElem_mem _)
  have d9 := hD w[9] (List.getElem_mem _)
  have d10 := hD w[10] (List.getElem_mem _)
  simp only [isAsciiDigit, Bool.and_eq_true, decide_eq_true_eq] at d7 d8 d9 d10
  have s4 := fld_succ (v := w) 4 7 (by omega) (by omega)
  have s5 := fld_succ (v := w) 4 8 (by omega) (by omega)
  have s6 := fld_succ (v := w) 4 9 (by omega) (by omega)
  have s7 := fld_succ (v := w) 4 10 (by omega) (by omega)
  have b3 := fld3 hD 4 7
  unfold Gen.ismn.split
  simp only [hc, ht, bind_ok, pure_ok, Gen.ismn._ranges, List.forIn_cons, List.forIn_nil, hg3, hgl]
  rw [e3, e4, e5, e6, e7]
  simp only [Nat.reduceAdd] at s4 s5 s6 s7 ⊢
  by_cases h3 : 0 ≤ fld w 4 7 ∧ fld w 4 7 ≤ 99
  · simp only [h3, and_self, decide_true, if_true, bind_ok]
    exact ⟨_, rfl⟩
  · simp only [h3, decide_false, Bool.false_eq_true, if_false, bind_ok]
    by_cases h4 : 1000 ≤ fld w 4 8 ∧ fld w 4 8 ≤ 3999
    · simp only [h4, and_self, decide_true, if_true, bind_ok]
      exact ⟨_, rfl⟩
    · simp only [h4, decide_false, Bool.false_eq_true, if_false, bind_ok]
      by_cases h5 : 40000 ≤ fld w 4 9 ∧ fld w 4 9 ≤ 69999
      · simp only [h5, and_self, decide_true, if_true, bind_ok]
        exact ⟨_, rfl⟩
      · simp only [h5, decide_false, Bool.false_eq_true, if_false, bind_ok]
        by_cases h6 : 700000 ≤ fld w 4 10 ∧ fld w 4 10 ≤ 899999
        · simp only [h6, and_self, decide_true, if_true, bind_ok]
          exact ⟨_, rfl⟩
        · simp only [h6, decide_false, Bool.false_eq_true, if_false, bind_ok]
          have h7 : 9000000 ≤ fld w 4 11 ∧ fld w 4 11 ≤ 9999999 := by omega
          simp only [h7, and_self, decide_true, if_true, bind_ok]
          exact ⟨_, rfl⟩

/-- **ismn: `split` never returns `None` for an accepted number** (the five publisher ranges cover all digits) -/
theorem ismn_split_total (x v : Str) (h : Gen.ismn.validate x = .ok v) : ∃ p, Gen.ismn.split v = .ok (some p) := by
  obtain ⟨_, hcase⟩ := ismn_ok h
  rcases hcase with ⟨h10, _⟩ | ⟨h13, _⟩
  · obtain ⟨hM, hD, _⟩ := ismn10_shape h h10
    have hv : v = 77 :: v.drop 1 := by
      conv => lhs; rw [← List.take_append_drop 1 v, hM]
      rfl
    have hDU : AllIn isDU v := by
      rw [hv]
      exact allIn_cons (by decide) (fun c hc => du_of_digit (hD c hc))
    obtain ⟨hto, _, _⟩ := ismn10_to_ismn13 x v h h10
    exact ismn_split_total_core v v _ (ismn_compact_du hDU) hto (allIn_append (by decide) hD) (by simp [h10])
  · obtain ⟨hD, _, _⟩ := ismn13_shape h h13
    have hDU : AllIn isDU v := fun c hc => du_of_digit (hD c hc)
    exact ismn_split_total_core v v v (ismn_compact_du hDU) (ismn13_to_ismn13 x v h h13) hD h13

end Props.C12

#print axioms Props.C12.fld_succ
#print axioms Props.C12.ismn_range_test
#print axioms Props.C12.ismn_split_total_core
#print axioms Props.C12.ismn_split_total
