import Props.C17i
import Props.C07c
import Spec.Standards
/-!
# C07 (part i) — IBAN agrees with ISO 13616 (on the generated `Gen.iban.validate`)

`Spec.Standards.Std_iban reg t` is the published rule on the canonical string `t` (≥ 4 characters, two-letter country
code, two decimal check digits, a registry line of the country whose fields `<count>!<n|a|c>` the BBAN has,
`BBAN ‖ country ‖ check digits ≡ 1 (mod 97)` after replacing letters by 10..35); `Std_iban_cc reg national cc t` adds
"where one exists, the national IBAN validator accepts" for `check_country=True`.  Parameters of the theorems:

* `reg := Spec.Standards.ibanRegistry` = `ibanRegistryOf Gen.db_iban.db`, the table read off the registry constant the
  generated code uses; `ibanRegistry_eq` (from the kernel-checked `Props.C11.Data.iban.db_eq`) identifies it with the table
  of the dumped tree of `iban.dat`;
* `national := ibanNational`: the generated validators of `stdnum.{be,es,me,no}.iban` (`Gen.iban.dispatch_validate_0`),
  by country code, exactly as `_get_cc_module` finds them.

| theorem | statement |
|---|---|
| `iban_agrees_with_code_rule` | ∀ x v cc: `validate x cc = ok v ↔ iban_code_cc ibanRegistry ibanNational cc (canon_iban x) ∧ v = canon_iban x` — the FULL equivalence with the rule the code implements = `Std_iban_cc` with digits **or letters** at the check digit positions |
| `IbanAgreesWithStandard` | the full statement of C07 (∀ x v cc: `validate x cc = ok v ↔ ibanOk ibanRegistry ibanNational cc x ∧ v = ibanCanon x`) |
| `iban_disagrees` | `¬ IbanAgreesWithStandard` |
| `iban_witness` | `validate "DEA5370400440532013000" cc = ok …` for both `cc`, although `Std_iban` rejects it (check "digits" `A5`; same behaviour in /repo) |
| `iban_agrees_with_standard_partial` | the statement of `IbanAgreesWithStandard` under the hypothesis that characters 3–4 of the canonical form are decimal digits (`_partial'`: the `toOption` form of the other C07 theorems) |
| `iban_rejects`, `iban_error_cases`, `iban_error_class` | error side: a string the rule rejects is rejected; with `check_country=False` the exception is `InvalidFormat`, `InvalidChecksum` or `InvalidComponent` (for `check_country=True` the national validators may raise other classes; only `isOk = false` is shown) |

The only deviation is the known one (known_findings.json, C07 `check-digits-not-numeric`): `mod_97_10.validate` accepts any
alphanumeric at the check digit positions and the structure pattern is matched against `number[4:]` only.  Non-ASCII
input, lower case and separators are no deviation: both sides canonicalise with the module's `compact`
(`canon_iban`), the checksum step rejects every non-alphanumeric character before the registry is consulted, and `$`
matching before a final line feed is excluded because a line feed fails the checksum step.

Proof structure: `C17.iban_cf_inv`/`iban_cf_intro` (the generic part of `validate`, any registry) → `info_head`,
`levelRule_hit/miss` (first element of `NumDB.info` for a flat registry of two-character codes: properties of the unique
line with that code, via `Props.C10.findStep_spec`) → `tree_facts`, `tree_nodup` (kernel evaluation over the 87 lines)
and `Props.C11.iban_struct_shape` (pattern of each line = fixed-width pattern of its tokens) → `cf_tree_iff` →
`shape_iff_fields` (the shape the pattern accepts = `ibanFields`, on digits and upper-case letters) → `codeOk_iff` →
`iban_cf_code_rule`; `Props.C09.iban_validate_true_iff` adds the national part.  `parseBban_eq`: the notation reader of
`Spec/Standards.lean` reads what `Props.C11.parseStruct` reads (all strings).
-/
namespace Props.C07
open Py Spec.Checksum Lemmas.Refine Lemmas.Fold Props.C06 Props.C06Gen Props Spec.Standards
open Spec.NumDB (Entry matchesNumber find info levelRule mergeProps minLength)
open Props.C09 (ibanCompact ibanTail ibanModule prefix2 iban_validate_eq bind_ok' bind_error' pure_ok' raise_error')
open Props.C08 (cfBody cf_eq)
open Props.C11 (parseStruct structPattern Shape structPattern_match_iff bbanOf shapePreds classItems)

set_option maxRecDepth 100000
set_option linter.unusedVariables false

/-! ## the registry lookup of a flat two-letter registry -/

theorem strLe_antisymm : ∀ (a b : Str), Spec.NumDB.strLe a b = true → Spec.NumDB.strLe b a = true → a = b
  | [], [], _, _ => rfl
  | [], _ :: _, _, h => by simp [Spec.NumDB.strLe] at h
  | _ :: _, [], h, _ => by simp [Spec.NumDB.strLe] at h
  | a :: as, b :: bs, h1, h2 => by
    unfold Spec.NumDB.strLe at h1 h2
    by_cases hab : a < b
    · rw [if_neg (by omega), if_pos hab] at h2; cases h2
    · by_cases hba : b < a
      · rw [if_neg hab, if_pos hba] at h1; cases h1
      · rw [if_neg hab, if_neg hba] at h1
        rw [if_neg hba, if_neg hab] at h2
        have : a = b := by omega
        rw [this, strLe_antisymm as bs h1 h2]

theorem strLe_rfl : ∀ (x : Str), Spec.NumDB.strLe x x = true
  | [] => rfl
  | c :: cs => by simp [Spec.NumDB.strLe, strLe_rfl cs]

/-- a registry line for one two-character code without sub-entries -/
def flatEntry (e : Entry) : Bool :=
  e.length == 2 && e.low == e.high && e.low.length == 2 && e.children.isEmpty

theorem matches_flat (n : Str) (e : Entry) (he : flatEntry e = true) :
    matchesNumber n e = true ↔ 2 ≤ n.length ∧ n.take 2 = e.low := by
  unfold flatEntry at he
  simp only [Bool.and_eq_true, beq_iff_eq] at he
  obtain ⟨⟨⟨h1, h2⟩, h3⟩, _⟩ := he
  unfold matchesNumber
  rw [h1, ← h2]
  simp only [Bool.and_eq_true, decide_eq_true_eq]
  constructor
  · rintro ⟨⟨hl, ha⟩, hb⟩
    exact ⟨hl, strLe_antisymm _ _ hb ha⟩
  · rintro ⟨hl, hk⟩
    rw [hk]
    exact ⟨⟨hl, strLe_rfl _⟩, strLe_rfl _⟩

theorem filter_unique (p : Entry → Bool) (k : Str) : ∀ (db : List Entry), (db.map (·.low)).Nodup →
    (∀ e ∈ db, p e = true → e.low = k) → ∀ e ∈ db, p e = true → db.filter p = [e]
  | [], _, _, e, he, _ => by cases he
  | d :: db, hnd, hp, e, he, hpe => by
    rw [List.map_cons, List.nodup_cons] at hnd
    have hnone : ∀ d' ∈ db, d'.low = k → d.low = k → False := by
      intro d' hd' h1 h2
      exact hnd.1 (by rw [h2, ← h1]; exact List.mem_map_of_mem hd')
    rcases List.mem_cons.mp he with rfl | he'
    · rw [List.filter_cons_of_pos hpe]
      congr 1
      rw [List.filter_eq_nil_iff]
      intro d' hd' hpd'
      exact hnone d' hd' (hp d' (List.mem_cons_of_mem _ hd') hpd') (hp e (List.mem_cons_self) hpe)
    · have hd : p d = false := by
        cases hpd : p d with
        | false => rfl
        | true => exact absurd (hp d (List.mem_cons_self) hpd) (fun h => hnone e he' (hp e he hpe) h)
      rw [List.filter_cons_of_neg (by rw [hd]; simp)]
      exact filter_unique p k db hnd.2 (fun e he h => hp e (List.mem_cons_of_mem _ he) h) e he' hpe

/-- the first element of `info`: part and properties of the top level rule -/
theorem info_head (db : List Entry) (n : Str) (hn : n ≠ []) :
    getItemL (info db n) 0 = .ok ((levelRule n db).part, (levelRule n db).properties) := by
  unfold info
  rw [Props.C10.find_unfold db n hn, Props.C10.findStep_spec, getItemL_zero _ (by simp)]
  rfl

theorem levelRule_hit (db : List Entry) (hflat : ∀ e ∈ db, flatEntry e = true) (hnd : (db.map (·.low)).Nodup)
    (n : Str) (e : Entry) (he : e ∈ db) (h2 : 2 ≤ n.length) (hk : n.take 2 = e.low) :
    (levelRule n db).properties = Spec.NumDB.dictUpdate [] e.props := by
  have hme : matchesNumber n e = true := (matches_flat n e (hflat e he)).mpr ⟨h2, hk⟩
  have hf : db.filter (matchesNumber n) = [e] :=
    filter_unique _ (n.take 2) db hnd (fun d hd hm => ((matches_flat n d (hflat d hd)).mp hm).2.symm) e he hme
  unfold levelRule
  simp only [hf]
  simp [minLength, mergeProps]

theorem levelRule_miss (db : List Entry) (hflat : ∀ e ∈ db, flatEntry e = true)
    (n : Str) (h : ∀ e ∈ db, ¬ (2 ≤ n.length ∧ n.take 2 = e.low)) :
    (levelRule n db).properties = [] := by
  have hf : db.filter (matchesNumber n) = [] := by
    rw [List.filter_eq_nil_iff]
    intro e he hm
    exact h e he ((matches_flat n e (hflat e he)).mp hm)
  unfold levelRule
  simp only [hf]
  rfl

/-! ## the structure notation: `Spec.Standards.parseBban` reads what `Props.C11.parseStruct` reads -/

theorem bbanCount_eq (s : Str) : bbanCount s = Props.C11.takeCount s := by
  cases s <;> rfl

theorem parseBbanAux_eq : ∀ (f : Nat) (s : Str), parseBbanAux f s = Props.C11.parseStructAux f s
  | 0, [] => rfl
  | 0, _ :: _ => rfl
  | f + 1, [] => rfl
  | f + 1, c :: s => by
    unfold parseBbanAux Props.C11.parseStructAux
    rw [bbanCount_eq]
    split
    · rename_i n k rest heq
      simp only [heq]
      rw [parseBbanAux_eq f rest]
      by_cases hk : k = 110 ∨ k = 97 ∨ k = 99
      · rw [if_pos hk, if_pos hk]; cases Props.C11.parseStructAux f rest <;> rfl
      · rw [if_neg hk, if_neg hk]
    · rename_i hno
      split
      · rename_i n k rest heq
        exact absurd heq (hno n k rest)
      · rfl

theorem parseBban_eq (s : Str) : parseBban s = parseStruct s := parseBbanAux_eq _ _

/-! ## `iban.dat` -/

/-- facts about one line of `iban.dat`: one two-letter upper-case code, no sub-entries, properties present and
without repeated keys, structure in the notation with 1 to 30 positions -/
def lineFacts (e : Entry) : Bool :=
  flatEntry e && e.low.all isAsciiUpper && !e.props.isEmpty &&
    decide (Spec.NumDB.dictUpdate [] e.props = e.props) &&
    (match parseStruct (bbanOf e) with
     | some toks => decide (1 ≤ (toks.map (·.1)).sum) && decide ((toks.map (·.1)).sum ≤ 30)
     | none => false)

theorem tree_facts : ∀ e ∈ Props.C11.Data.iban.tree, lineFacts e = true := by decide +kernel

theorem tree_nodup : (Props.C11.Data.iban.tree.map (·.low)).Nodup := by decide +kernel

theorem lineFacts_iff {e : Entry} (h : lineFacts e = true) :
    flatEntry e = true ∧ AllIn isAsciiUpper e.low ∧ e.props.isEmpty = false ∧
      Spec.NumDB.dictUpdate [] e.props = e.props ∧
      ∃ toks, parseStruct (bbanOf e) = some toks ∧ 1 ≤ (toks.map (·.1)).sum ∧ (toks.map (·.1)).sum ≤ 30 := by
  unfold lineFacts at h
  simp only [Bool.and_eq_true, decide_eq_true_eq, Bool.not_eq_true'] at h
  obtain ⟨⟨⟨⟨h1, h2⟩, h3⟩, h4⟩, h5⟩ := h
  refine ⟨h1, all_iff_allIn.mp h2, h3, h4, ?_⟩
  cases hp : parseStruct (bbanOf e) with
  | none => rw [hp] at h5; cases h5
  | some toks =>
    rw [hp] at h5
    simp only [Bool.and_eq_true, decide_eq_true_eq] at h5
    exact ⟨toks, rfl, h5.1, h5.2⟩

/-! ## the generic part of `iban.validate`, characterised -/

theorem iban_cf_intro (db : List Entry) (x : Str) (p : Str × Spec.NumDB.Dict) (re : Re.Pattern)
    (hm : Gen.iso7064_mod_97_10.validate (C17.rot4 (ibanCompact x)) = .ok (C17.rot4 (ibanCompact x)))
    (hg : getItemL (info db (ibanCompact x)) 0 = .ok p) (hne : p.2.isEmpty = false)
    (hs : Gen.iban._struct_to_re (dictGetD p.2 [98, 98, 97, 110] []) = .ok re)
    (hmt : (Re.match_ re (slice (ibanCompact x) (some 4) none)).isSome = true) :
    cfBody db x = .ok (ibanCompact x) := by
  unfold cfBody
  simp only [Props.C09.iban_compact_eq]
  simp only [bind_ok', C17.rot4_eq, hm, hg, hne, hs, hmt, Bool.not_false, Bool.not_true, Bool.false_eq_true,
    if_false, pure_ok']

/-- what the code checks after canonicalisation, with the registry `db`: the checksum of the rearranged number, a
registry line for the first two characters, the BBAN has the shape of the line's structure -/
def CodeOk (db : List Entry) (n : Str) : Prop :=
  Gen.iso7064_mod_97_10.validate (C17.rot4 n) = .ok (C17.rot4 n) ∧
    ∃ e ∈ db, 2 ≤ n.length ∧ n.take 2 = e.low ∧ ∃ toks, parseStruct (bbanOf e) = some toks ∧ Shape toks (n.drop 4)

theorem slice4 (n : Str) : slice n (some 4) none = n.drop 4 := by
  rw [slice_nonneg_none n (by decide)]; rfl

theorem cf_tree_iff (x v : Str) :
    cfBody Props.C11.Data.iban.tree x = .ok v ↔ v = ibanCompact x ∧ CodeOk Props.C11.Data.iban.tree (ibanCompact x) := by
  have hflat : ∀ e ∈ Props.C11.Data.iban.tree, flatEntry e = true :=
    fun e he => (lineFacts_iff (tree_facts e he)).1
  constructor
  · intro h
    obtain ⟨hv, hm, p, re, hg, hne, hs, hmt⟩ := C17.iban_cf_inv _ x v h
    subst hv
    refine ⟨rfl, hm, ?_⟩
    generalize ibanCompact x = n at *
    have hn : n ≠ [] := by
      intro h0
      rw [h0] at hg
      cases hg
    rw [info_head _ n hn] at hg
    cases hg
    simp only at hne hs
    by_cases hex : ∃ e ∈ Props.C11.Data.iban.tree, 2 ≤ n.length ∧ n.take 2 = e.low
    · obtain ⟨e, he, h2, hk⟩ := hex
      obtain ⟨_, _, _, hdu, _⟩ := lineFacts_iff (tree_facts e he)
      rw [levelRule_hit _ hflat tree_nodup n e he h2 hk, hdu] at hs
      obtain ⟨toks, pat, hps, _, hpat, hsh⟩ := Props.C11.iban_struct_shape e he
      have : Gen.iban._struct_to_re (bbanOf e) = .ok re := hs
      rw [hpat] at this
      cases this
      refine ⟨e, he, h2, hk, toks, hps, ?_⟩
      rw [← slice4]
      exact (hsh _).mp hmt
    · rw [levelRule_miss _ hflat n (fun e he hc => hex ⟨e, he, hc⟩)] at hne
      cases hne
  · rintro ⟨hv, hm, e, he, h2, hk, toks, hps, hsh⟩
    subst hv
    obtain ⟨_, _, hne, hdu, _⟩ := lineFacts_iff (tree_facts e he)
    obtain ⟨toks', pat, hps', _, hpat, hshp⟩ := Props.C11.iban_struct_shape e he
    rw [hps] at hps'
    cases hps'
    have hn : ibanCompact x ≠ [] := by
      intro h0; rw [h0] at h2; simp at h2
    refine iban_cf_intro _ x _ pat hm (info_head _ _ hn) ?_ ?_ ?_
    · simp only [levelRule_hit _ hflat tree_nodup _ e he h2 hk, hdu]
      exact hne
    · simp only [levelRule_hit _ hflat tree_nodup _ e he h2 hk, hdu]
      exact hpat
    · rw [slice4]
      exact (hshp _).mpr hsh

/-! ## the shape of a structure, as the declarative field test -/

open Py.Re in
/-- prefix fit on lists -/
def fitsB : Str → List (Nat → Bool) → Bool
  | _, [] => true
  | [], _ :: _ => false
  | c :: s, p :: ps => p c && fitsB s ps

open Py.Re in
theorem fitsAt_cons_succ (c : Nat) (s : Str) : ∀ (ps : List (Nat → Bool)) (pos : Nat),
    FitsAt (c :: s) (pos + 1) ps ↔ FitsAt s pos ps
  | [], _ => by simp [FitsAt]
  | p :: ps, pos => by
    simp only [FitsAt, List.getElem?_cons_succ, fitsAt_cons_succ c s ps (pos + 1)]

open Py.Re in
theorem fitsAt_iff_fitsB : ∀ (ps : List (Nat → Bool)) (s : Str), FitsAt s 0 ps ↔ fitsB s ps = true
  | [], s => by simp [FitsAt, fitsB]
  | p :: ps, [] => by simp [FitsAt, fitsB]
  | p :: ps, c :: s => by
    simp only [FitsAt, fitsB, Nat.zero_add, fitsAt_cons_succ c s ps 0, fitsAt_iff_fitsB ps s, Bool.and_eq_true]
    simp

theorem fitsB_replicate (p : Nat → Bool) (rest : List (Nat → Bool)) : ∀ (n : Nat) (s : Str),
    fitsB s (List.replicate n p ++ rest) = (decide (n ≤ s.length) && (s.take n).all p && fitsB (s.drop n) rest)
  | 0, s => by simp
  | n + 1, [] => by simp [List.replicate_succ, fitsB]
  | n + 1, c :: s => by
    simp only [List.replicate_succ, List.cons_append, fitsB, fitsB_replicate p rest n s, List.length_cons,
      List.take_succ_cons, List.all_cons, List.drop_succ_cons]
    have : decide (n + 1 ≤ s.length + 1) = decide (n ≤ s.length) := by
      rw [Bool.eq_iff_iff]; simp
    rw [this]
    cases p c <;> cases decide (n ≤ s.length) <;> simp

theorem flatten_replicate_singleton {α : Type} (a : α) : ∀ n : Nat, (List.replicate n [a]).flatten = List.replicate n a
  | 0 => rfl
  | n + 1 => by simp [List.replicate_succ, flatten_replicate_singleton a n]

theorem shapePreds_cons (t : Nat × Nat) (ts : List (Nat × Nat)) :
    shapePreds (t :: ts) = List.replicate t.1 (Py.Re.classMatch {} false (classItems t.2)) ++ shapePreds ts := by
  unfold shapePreds
  rw [List.flatMap_cons, flatten_replicate_singleton]

/-- on digits and upper-case letters the compiled classes are the classes of the notation -/
theorem class_eq (k c : Nat) (hc : C17.isDU c = true) :
    Py.Re.classMatch {} false (classItems k) c = ibanClass k c := by
  unfold classItems ibanClass
  simp only [C17.isDU, isAsciiDigit, isAsciiUpper, Bool.or_eq_true, Bool.and_eq_true, decide_eq_true_eq] at hc
  by_cases h1 : k = 110
  · rw [if_pos h1, if_pos h1, Py.Re.C07.cls_digit]; rfl
  · rw [if_neg h1, if_neg h1]
    by_cases h2 : k = 97
    · rw [if_pos h2, if_pos h2, Py.Re.C07.cls_upper]; rfl
    · rw [if_neg h2, if_neg h2]
      by_cases h3 : k = 99
      · rw [if_pos h3, if_pos h3]
        simp only [Py.Re.classMatch, Spec.Standards.isDU, Spec.Standards.isD, Spec.Standards.isU]
        simp [Py.Re.itemMatch]
        rw [Bool.eq_iff_iff]
        simp
        omega
      · rw [if_neg h3, if_neg h3]
        simp [Py.Re.classMatch]

theorem all_congr_on {p q : Nat → Bool} {s : Str} (h : ∀ c ∈ s, p c = q c) : s.all p = s.all q := by
  induction s with
  | nil => rfl
  | cons a s ih =>
    simp only [List.all_cons]
    rw [h a (List.mem_cons_self), ih (fun c hc => h c (List.mem_cons_of_mem _ hc))]

theorem fields_iff : ∀ (toks : List (Nat × Nat)) (b : Str), AllIn C17.isDU b →
    (ibanFields toks b = true ↔ fitsB b (shapePreds toks) = true ∧ b.length = (toks.map (·.1)).sum)
  | [], b, _ => by
    cases b <;> simp [ibanFields, shapePreds, fitsB]
  | t :: ts, b, hb => by
    have hd : AllIn C17.isDU (b.drop t.1) := fun c hc => hb c (List.mem_of_mem_drop hc)
    have hcls : (b.take t.1).all (Py.Re.classMatch {} false (classItems t.2)) = (b.take t.1).all (ibanClass t.2) :=
      all_congr_on (fun c hc => class_eq t.2 c (hb c (List.mem_of_mem_take hc)))
    rw [shapePreds_cons, fitsB_replicate, hcls]
    unfold ibanFields
    simp only [Bool.and_eq_true, decide_eq_true_eq, fields_iff ts (b.drop t.1) hd, List.length_drop, List.map_cons,
      List.sum_cons]
    constructor
    · rintro ⟨⟨h1, h2⟩, h3, h4⟩
      exact ⟨⟨⟨h1, h2⟩, h3⟩, by omega⟩
    · rintro ⟨⟨⟨h1, h2⟩, h3⟩, h4⟩
      exact ⟨⟨h1, h2⟩, h3, by omega⟩

theorem ibanClass_du {k c : Nat} (h : ibanClass k c = true) : C17.isDU c = true := by
  unfold ibanClass at h
  rw [← isDU_eq]
  unfold Spec.Standards.isDU
  split at h
  · rw [h]; rfl
  · split at h
    · rw [h]; simp
    · split at h
      · exact h
      · cases h

theorem ibanFields_du : ∀ (toks : List (Nat × Nat)) (b : Str), ibanFields toks b = true → AllIn C17.isDU b
  | [], b, h => by
    cases b with
    | nil => intro c hc; cases hc
    | cons _ _ => simp [ibanFields] at h
  | t :: ts, b, h => by
    unfold ibanFields at h
    simp only [Bool.and_eq_true, decide_eq_true_eq] at h
    obtain ⟨⟨_, h2⟩, h3⟩ := h
    intro c hc
    rw [← List.take_append_drop t.1 b, List.mem_append] at hc
    rcases hc with hc | hc
    · exact ibanClass_du (all_iff_allIn.mp h2 c hc)
    · exact ibanFields_du ts _ h3 c hc

open Py.Re in
/-- the shape the compiled pattern accepts, on a string of digits and upper-case letters, is the field test -/
theorem shape_iff_fields (toks : List (Nat × Nat)) (b : Str) (hb : AllIn C17.isDU b) :
    Props.C11.Shape toks b ↔ ibanFields toks b = true := by
  rw [fields_iff toks b hb, ← fitsAt_iff_fitsB]
  unfold Props.C11.Shape
  constructor
  · rintro ⟨h1, h2 | ⟨h2, h3⟩⟩
    · exact ⟨h1, h2⟩
    · exfalso
      have hm : 10 ∈ b := List.mem_of_getElem? h3
      have := hb 10 hm
      revert this; decide
  · rintro ⟨h1, h2⟩
    exact ⟨h1, Or.inl h2⟩

/-! ## the rule the code implements, declaratively -/

/-- `Std_iban` with letters allowed at the two check digit positions -/
def iban_code (reg : List (Str × List (Nat × Nat))) (t : Str) : Bool :=
  decide (4 ≤ t.length) && (t.take 2).all isU && ((t.drop 2).take 2).all Spec.Standards.isDU &&
    reg.any (fun r => r.1 == t.take 2 && ibanFields r.2 (t.drop 4)) &&
    numeral ((t.drop 4 ++ t.take 4).map v36) % 97 == 1

theorem std_iban_eq (reg : List (Str × List (Nat × Nat))) (t : Str) :
    Std_iban reg t = (iban_code reg t && ((t.drop 2).take 2).all isD) := by
  unfold Std_iban iban_code
  cases hd : ((t.drop 2).take 2).all isD with
  | false => simp
  | true =>
    have : ((t.drop 2).take 2).all Spec.Standards.isDU = true := by
      rw [all_iff_allIn] at hd ⊢
      intro c hc
      unfold Spec.Standards.isDU
      rw [hd c hc]; rfl
    rw [this]
    simp

theorem mem_registry (db : List Entry) (r : Str × List (Nat × Nat)) :
    r ∈ ibanRegistryOf db ↔ ∃ e ∈ db, ∃ toks, parseStruct (bbanOf e) = some toks ∧ r = (e.low, toks) := by
  unfold ibanRegistryOf
  rw [List.mem_filterMap]
  constructor
  · rintro ⟨e, he, h⟩
    rw [parseBban_eq, Option.map_eq_some_iff] at h
    obtain ⟨toks, h1, h2⟩ := h
    exact ⟨e, he, toks, h1, h2.symm⟩
  · rintro ⟨e, he, toks, h1, h2⟩
    refine ⟨e, he, ?_⟩
    rw [parseBban_eq, Option.map_eq_some_iff]
    exact ⟨toks, h1, h2.symm⟩

theorem m97_ok_iff (w : Str) (hlow : ∀ c ∈ w, isAsciiLower c = false) :
    Gen.iso7064_mod_97_10.validate w = .ok w ↔ m9710 w = true := by
  have := gen_mod_97_10_validate_iff w hlow
  cases hv : Gen.iso7064_mod_97_10.validate w with
  | error e =>
    rw [hv] at this
    cases hm : m9710 w with
    | false => simp
    | true => rw [hm] at this; simp [Except.toOption] at this
  | ok r =>
    rw [hv] at this
    cases hm : m9710 w with
    | false => rw [hm] at this; simp [Except.toOption] at this
    | true =>
      rw [hm] at this
      simp only [Except.toOption, if_true, Option.some.injEq] at this
      rw [this]
      simp

theorem mem_take4_or_drop4 {n : Str} {c : Nat} (hc : c ∈ n) :
    c ∈ n.take 2 ∨ c ∈ (n.drop 2).take 2 ∨ c ∈ n.drop 4 := by
  rw [← List.take_append_drop 4 n, List.mem_append] at hc
  rcases hc with hc | hc
  · have : n.take 4 = n.take 2 ++ (n.drop 2).take 2 := List.take_add (i := 2) (j := 2)
    rw [this, List.mem_append] at hc
    rcases hc with hc | hc
    · exact Or.inl hc
    · exact Or.inr (Or.inl hc)
  · exact Or.inr (Or.inr hc)

theorem codeOk_iff (n : Str) (hlow : ∀ c ∈ n, isAsciiLower c = false) :
    CodeOk Props.C11.Data.iban.tree n ↔ iban_code (ibanRegistryOf Props.C11.Data.iban.tree) n = true := by
  have hlow' : ∀ c ∈ C17.rot4 n, isAsciiLower c = false := fun c hc => hlow c (C17.mem_rot4.mp hc)
  unfold CodeOk
  rw [m97_ok_iff _ hlow']
  unfold m9710 iban_code
  have hrot : C17.rot4 n = n.drop 4 ++ n.take 4 := rfl
  simp only [Bool.and_eq_true, decide_eq_true_eq, List.any_eq_true, beq_iff_eq]
  constructor
  · rintro ⟨⟨⟨⟨_, hall⟩, _⟩, hnum⟩, e, he, h2, hk, toks, hps, hsh⟩
    have hDU : AllIn C17.isDU n := fun c hc => all_iff_allIn.mp hall c (C17.mem_rot4.mpr hc)
    obtain ⟨_, hup, _, _, toks', hps', hs1, _⟩ := lineFacts_iff (tree_facts e he)
    rw [hps] at hps'
    cases hps'
    have hDd : AllIn C17.isDU (n.drop 4) := fun c hc => hDU c (List.mem_of_mem_drop hc)
    have hf := (shape_iff_fields toks _ hDd).mp hsh
    have hlen := ((fields_iff toks _ hDd).mp hf).2
    simp only [List.length_drop] at hlen
    refine ⟨⟨⟨⟨by omega, ?_⟩, ?_⟩, ⟨(e.low, toks), (mem_registry _ _).mpr ⟨e, he, toks, hps, rfl⟩, hk.symm, hf⟩⟩, ?_⟩
    · rw [hk, isU_eq]; exact all_iff_allIn.mpr hup
    · rw [isDU_eq, all_iff_allIn]
      exact fun c hc => hDU c (List.mem_of_mem_drop (List.mem_of_mem_take hc))
    · rw [← hrot]; exact hnum
  · rintro ⟨⟨⟨⟨h4, hcc⟩, hchk⟩, r, hr, hrk, hf⟩, hnum⟩
    obtain ⟨e, he, toks, hps, rfl⟩ := (mem_registry _ _).mp hr
    simp only at hrk hf
    obtain ⟨_, hup, _, _, toks', hps', _, hs30⟩ := lineFacts_iff (tree_facts e he)
    rw [hps] at hps'
    cases hps'
    have hDd : AllIn C17.isDU (n.drop 4) := ibanFields_du toks _ hf
    have hDU : AllIn C17.isDU n := by
      intro c hc
      rcases mem_take4_or_drop4 hc with h | h | h
      · rw [← hrk] at h; have := hup c h
        unfold C17.isDU; rw [this]; simp
      · rw [isDU_eq, all_iff_allIn] at hchk; exact hchk c h
      · exact hDd c h
    have hlen := ((fields_iff toks _ hDd).mp hf).2
    simp only [List.length_drop] at hlen
    refine ⟨⟨⟨⟨?_, ?_⟩, ?_⟩, ?_⟩, e, he, by omega, hrk.symm, toks, hps, (shape_iff_fields toks _ hDd).mpr hf⟩
    · have := C17.rot4_length n
      cases hr4 : C17.rot4 n with
      | nil => rw [hr4] at this; simp at this; omega
      | cons _ _ => rfl
    · rw [all_iff_allIn]
      exact fun c hc => hDU c (C17.mem_rot4.mp hc)
    · have := C17.width_le ((C17.rot4 n).map v36)
      rw [List.length_map, C17.rot4_length] at this
      omega
    · rw [hrot]; exact hnum

/-! ## `iban.validate` and the rule it implements -/

theorem canon_iban_eq (x : Str) : canon_iban x = ibanCompact x := by
  unfold canon_iban
  rw [Props.C09.iban_compact_eq]
  rfl

/-- the table read off the embedded `iban.dat` is the table of the kernel-checked tree -/
theorem ibanRegistry_eq : ibanRegistry = ibanRegistryOf Props.C11.Data.iban.tree := by
  unfold ibanRegistry
  rw [Props.C11.Data.iban.db_eq]

theorem compact_no_lower (x : Str) : ∀ c ∈ ibanCompact x, isAsciiLower c = false :=
  fun c hc => C17.upper_no_asciiLower _ c hc

/-- the generic part (`check_country=False`): exactly the code rule on the canonical form -/
theorem iban_cf_code_rule (x v : Str) :
    Gen.iban.validate__check_country_False x = .ok v ↔
      iban_code ibanRegistry (canon_iban x) = true ∧ v = canon_iban x := by
  rw [cf_eq, Props.C11.Data.iban.db_eq, cf_tree_iff, codeOk_iff _ (compact_no_lower x), ibanRegistry_eq, canon_iban_eq]
  exact and_comm

/-- the national IBAN validators of the library (`be`, `es`, `me`, `no`), by country code: the parameter `national`
of `Std_iban_cc` in the theorems below -/
def ibanNational (cc : Str) : Option (Str → Bool) :=
  (ibanModule cc).map (fun m v => isOk (Gen.iban.dispatch_validate_0 m v))

/-- the code rule with the option -/
def iban_code_cc (reg : List (Str × List (Nat × Nat))) (national : Str → Option (Str → Bool))
    (check_country : Bool) (t : Str) : Bool :=
  iban_code reg t && ibanNationalOk national check_country t

theorem prefix2_eq (v : Str) : prefix2 v = v.take 2 := by
  unfold prefix2
  rw [slice_none_nonneg v (by decide)]; rfl

theorem national_iff (v : Str) :
    (ibanModule (v.take 2) = none ∨ ∃ m u, ibanModule (v.take 2) = some m ∧ Gen.iban.dispatch_validate_0 m v = .ok u) ↔
      ibanNationalOk ibanNational true v = true := by
  unfold ibanNationalOk ibanNational
  simp only [Bool.not_true, Bool.false_or]
  cases hm : ibanModule (v.take 2) with
  | none => simp
  | some m =>
    simp only [Option.map_some, reduceCtorEq, false_or, Option.some.injEq, exists_and_left, exists_eq_left']
    cases hd : Gen.iban.dispatch_validate_0 m v with
    | error e => simp [isOk]
    | ok u => simp [isOk]

/-- **IBAN, the rule the code implements** (all strings, both option values): `Std_iban_cc` with letters allowed at the
check digit positions -/
theorem iban_agrees_with_code_rule (x v : Str) (cc : Bool) :
    Gen.iban.validate x cc = .ok v ↔
      iban_code_cc ibanRegistry ibanNational cc (canon_iban x) = true ∧ v = canon_iban x := by
  unfold iban_code_cc
  cases cc with
  | false =>
    rw [Props.C09.iban_validate_false_eq, iban_cf_code_rule]
    simp [ibanNationalOk]
  | true =>
    rw [Props.C09.iban_validate_true_iff, iban_cf_code_rule, prefix2_eq, national_iff, Bool.and_eq_true]
    constructor
    · rintro ⟨⟨h1, h2⟩, h3⟩
      subst h2
      exact ⟨⟨h1, h3⟩, rfl⟩
    · rintro ⟨⟨h1, h3⟩, h2⟩
      subst h2
      exact ⟨⟨h1, rfl⟩, h3⟩

/-! ## agreement with ISO 13616 -/

/-- **the full statement of C07 for IBAN**: for all strings and both option values, `iban.validate` accepts exactly what
the standard accepts (registry table and national validators as given), and returns the canonical form -/
def IbanAgreesWithStandard : Prop :=
  ∀ (x v : Str) (cc : Bool),
    Gen.iban.validate x cc = .ok v ↔ ibanOk ibanRegistry ibanNational cc x = true ∧ v = ibanCanon x

/-- **IBAN agrees with ISO 13616 on every input whose canonical form has decimal digits at the check digit
positions** (characters 3 and 4), for both option values -/
theorem iban_agrees_with_standard_partial (x v : Str) (cc : Bool)
    (hchk : (((canon_iban x).drop 2).take 2).all isD = true) :
    Gen.iban.validate x cc = .ok v ↔ ibanOk ibanRegistry ibanNational cc x = true ∧ v = ibanCanon x := by
  rw [iban_agrees_with_code_rule]
  unfold ibanOk ibanCanon Std_iban_cc iban_code_cc
  rw [std_iban_eq, hchk, Bool.and_true]

/-- the same in the form of the other C07 theorems -/
theorem iban_agrees_with_standard_partial' (x : Str) (cc : Bool)
    (hchk : (((canon_iban x).drop 2).take 2).all isD = true) :
    (Gen.iban.validate x cc).toOption =
      if Std_iban_cc ibanRegistry ibanNational cc (canon_iban x) = true then some (canon_iban x) else none := by
  have h := fun v => iban_agrees_with_standard_partial x v cc hchk
  unfold ibanOk ibanCanon at h
  cases hv : Gen.iban.validate x cc with
  | ok v =>
    obtain ⟨h1, h2⟩ := (h v).mp hv
    rw [h1, h2]; rfl
  | error e =>
    cases hs : Std_iban_cc ibanRegistry ibanNational cc (canon_iban x) with
    | false => rfl
    | true =>
      have := (h (canon_iban x)).mpr ⟨hs, rfl⟩
      rw [hv] at this; cases this

/-- a rejected input is rejected (either option value); with `check_country=False` the exception is one of the
library's `ValidationError`s -/
theorem iban_rejects (x : Str) (cc : Bool)
    (h : iban_code_cc ibanRegistry ibanNational cc (canon_iban x) = false) :
    isOk (Gen.iban.validate x cc) = false := by
  cases hv : Gen.iban.validate x cc with
  | error e => rfl
  | ok v =>
    have := ((iban_agrees_with_code_rule x v cc).mp hv).1
    rw [h] at this; cases this

/-! ## the exception of a rejection (`check_country=False`) -/

theorem m97_error_class {w : Str} {e : Exc} (h : Gen.iso7064_mod_97_10.validate w = .error e) :
    e = .invalidFormat ∨ e = .invalidChecksum := by
  rw [mod_97_10_validate_eq] at h
  unfold Mod9710.validate validateBody tryExcept at h
  cases hc : Mod9710.checksum pyB36 defaultMaxDigits w with
  | error e' =>
    rw [hc] at h
    simp [Exc.caughtBy] at h
    exact Or.inl h.symm
  | ok c =>
    rw [hc] at h
    simp only [bind_ok, pure_ok] at h
    cases hb : c == 1 with
    | true => rw [hb] at h; simp at h
    | false =>
      rw [hb] at h
      simp at h
      exact Or.inr h.symm

/-- with `check_country=False`, a rejection is either the rejection of the checksum step (`mod_97_10.validate` on
`number[4:] + number[:4]` of the canonical form, same exception) or `InvalidComponent` (no registry line) or
`InvalidFormat` (BBAN structure) -/
theorem iban_error_cases (x : Str) (e : Exc) (h : Gen.iban.validate x false = .error e) :
    Gen.iso7064_mod_97_10.validate (C17.rot4 (canon_iban x)) = .error e ∨
      (isOk (Gen.iso7064_mod_97_10.validate (C17.rot4 (canon_iban x))) = true ∧
        (e = .invalidFormat ∨ e = .invalidComponent)) := by
  have hflat : ∀ e ∈ Props.C11.Data.iban.tree, flatEntry e = true :=
    fun e he => (lineFacts_iff (tree_facts e he)).1
  rw [Props.C09.iban_validate_false_eq, cf_eq, Props.C11.Data.iban.db_eq] at h
  unfold cfBody at h
  simp only [Props.C09.iban_compact_eq] at h
  simp only [bind_ok', C17.rot4_eq] at h
  rw [canon_iban_eq]
  generalize ibanCompact x = n at h
  cases hm : Gen.iso7064_mod_97_10.validate (C17.rot4 n) with
  | error e' =>
    rw [hm] at h
    simp only [bind_error'] at h
    cases h
    exact Or.inl rfl
  | ok r =>
    rw [hm] at h
    simp only [bind_ok'] at h
    refine Or.inr ⟨rfl, ?_⟩
    have hn : n ≠ [] := by
      intro h0
      subst h0
      have : isOk (Gen.iso7064_mod_97_10.validate (C17.rot4 [])) = false := by decide +kernel
      rw [hm] at this
      cases this
    rw [info_head _ n hn] at h
    simp only [bind_ok', raise_error', bind_error'] at h
    by_cases hex : ∃ e ∈ Props.C11.Data.iban.tree, 2 ≤ n.length ∧ n.take 2 = e.low
    · obtain ⟨d, hd, h2, hk⟩ := hex
      obtain ⟨_, _, hne, hdu, _⟩ := lineFacts_iff (tree_facts d hd)
      obtain ⟨toks, pat, _, _, hpat, _⟩ := Props.C11.iban_struct_shape d hd
      have hpat' : Gen.iban._struct_to_re (dictGetD d.props [98, 98, 97, 110] []) = .ok pat := hpat
      rw [levelRule_hit _ hflat tree_nodup n d hd h2 hk, hdu] at h
      simp only [hne, hpat', Bool.not_false, Bool.not_true, Bool.false_eq_true, if_false, bind_ok'] at h
      split at h
      · cases h; exact Or.inl rfl
      · simp only [pure_ok'] at h; cases h
    · rw [levelRule_miss _ hflat n (fun e he hc => hex ⟨e, he, hc⟩)] at h
      simp only [List.isEmpty_nil, Bool.not_true, Bool.not_false, if_true] at h
      cases h
      exact Or.inr rfl

/-- with `check_country=False` every rejection is a `ValidationError` of the library (`InvalidFormat`,
`InvalidChecksum` or `InvalidComponent`) -/
theorem iban_error_class (x : Str) (e : Exc) (h : Gen.iban.validate x false = .error e) :
    e = .invalidFormat ∨ e = .invalidChecksum ∨ e = .invalidComponent := by
  rcases iban_error_cases x e h with h1 | ⟨_, h1 | h1⟩
  · rcases m97_error_class h1 with h2 | h2
    · exact Or.inl h2
    · exact Or.inr (Or.inl h2)
  · exact Or.inl h1
  · exact Or.inr (Or.inr h1)

/-! ## the full statement is false: letters are accepted at the check digit positions -/

open Props.C17 in
/-- the witness, evaluated on the generated function: check "digits" `A5`
(`/repo`: `iban.validate('DEA5370400440532013000')` returns the number; the standard requires two decimal digits) -/
theorem iban_witness :
    Gen.iban.validate (str% "DEA5370400440532013000") true = .ok (str% "DEA5370400440532013000") ∧
    Gen.iban.validate (str% "DEA5370400440532013000") false = .ok (str% "DEA5370400440532013000") ∧
    Std_iban (ibanRegistryOf Props.C11.Data.iban.tree) (str% "DEA5370400440532013000") = false := by
  refine ⟨?_, ?_, ?_⟩
  · rw [Props.C08.v_eq, Props.C11.Data.iban.db_eq]; decide +kernel
  · rw [Props.C08.v_eq, Props.C11.Data.iban.db_eq]; decide +kernel
  · decide +kernel

open Props.C17 in
/-- the full statement `IbanAgreesWithStandard` is FALSE on the current tree -/
theorem iban_disagrees : ¬ IbanAgreesWithStandard := by
  intro h
  have h1 := ((h (str% "DEA5370400440532013000") (str% "DEA5370400440532013000") true).mp iban_witness.1).1
  unfold ibanOk Std_iban_cc at h1
  rw [Bool.and_eq_true] at h1
  have hs := h1.1
  have hc : ibanCompact (str% "DEA5370400440532013000") = str% "DEA5370400440532013000" := by decide +kernel
  rw [ibanRegistry_eq, canon_iban_eq, hc, iban_witness.2.2] at hs
  cases hs

/-! ## non-vacuity -/

open Props.C17 in
example : (Gen.iban.validate (str% "GB82 WEST 1234 5698 7654 32") true).toOption = some (str% "GB82WEST12345698765432") := by
  rw [iban_agrees_with_standard_partial' _ _ (by rw [canon_iban_eq]; decide +kernel), ibanRegistry_eq, canon_iban_eq]
  decide +kernel

open Props.C17 in
example : (Gen.iban.validate (str% "GB82 WEST 1234 5698 7654 33") true).toOption = none := by
  rw [iban_agrees_with_standard_partial' _ _ (by rw [canon_iban_eq]; decide +kernel), ibanRegistry_eq, canon_iban_eq]
  decide +kernel

#print axioms Props.C07.cf_tree_iff
#print axioms Props.C07.codeOk_iff
#print axioms Props.C07.shape_iff_fields
#print axioms Props.C07.parseBban_eq
#print axioms Props.C07.ibanRegistry_eq
#print axioms Props.C07.iban_agrees_with_code_rule
#print axioms Props.C07.iban_agrees_with_standard_partial
#print axioms Props.C07.iban_agrees_with_standard_partial'
#print axioms Props.C07.iban_rejects
#print axioms Props.C07.iban_error_cases
#print axioms Props.C07.iban_error_class
#print axioms Props.C07.iban_witness
#print axioms Props.C07.iban_disagrees

end Props.C07
