import Gen.imei
import Gen.imsi
import Gen.isbn
import Gen.ismn
import Gen.isan
import Props.C08a
import Props.C08g
import Props.C10
import Props.C11data.isbn_link
/-!
# C12 (value consistency, part 1) — the parts returned by `split()` concatenate to the canonical number
-/
namespace Props.C12
open Py Spec.Checksum Lemmas.Refine Lemmas.Fold Props.C06 Props.C06Gen Props.C17 Props.C08

set_option linter.unusedVariables false
set_option linter.unusedSimpArgs false

/-! ## stdnum.imei : `split(number) = (number[:8], number[8:14], number[14:])` -/

theorem imei_split_concat (x v a b c : Str) (h : Gen.imei.validate x = .ok v)
    (hs : Gen.imei.split v = .ok (a, b, c)) : a ++ b ++ c = v := by
  obtain ⟨hD, _, _⟩ := imei_ok h
  unfold Gen.imei.split Gen.imei.compact at hs
  simp only [clean_eq, bind_ok, pure_ok] at hs
  rw [digits_compact_upper hD _ (by decide)] at hs
  cases hs
  rw [slice_none_append_slice_const v (by decide) (by decide), slice_append_drop]

example : Gen.imei.validate (str% "35-209900-176148-1") = .ok (str% "352099001761481") := ex_imei

/-! ## stdnum.imsi : `split(number) = numdb.get('imsi').split(compact(number))` -/

theorem imsi_split_concat (x v : Str) (parts : List Str) (h : Gen.imsi.validate x = .ok v)
    (hs : Gen.imsi.split v = .ok parts) : parts.flatten = v := by
  have hD : AllIn isAsciiDigit v := by
    unfold Gen.imsi.validate Gen.imsi.compact at h
    simp only [clean_eq, isdigits_eq, bind_ok, pure_ok] at h
    generalize upper (strip (cleanP x [32, 45])) = n at h
    cases hd : isDigitsB n with
    | false => simp [hd] at h
    | true =>
      have hD := (isDigitsB_iff n).mp hd
      simp only [hd, Bool.not_true, Bool.false_eq_true, if_false] at h
      split at h
      · cases h
      · obtain ⟨_, _, h⟩ := bind_ok_inv h
        split at h
        · cases h
        · cases h; exact hD.2
  unfold Gen.imsi.split Gen.imsi.compact at hs
  generalize Gen.db_imsi.db = db at hs
  simp only [clean_eq, bind_ok, pure_ok] at hs
  rw [digits_compact_upper hD _ (by decide)] at hs
  have : Spec.NumDB.split db v = parts := Except.ok.inj hs
  rw [← this]
  exact Props.C10.split_concat db v

/-! ## stdnum.isbn -/

/-- `validate(number, convert)` is `validate(number)` followed by the optional conversion -/
theorem isbn_validate_eq (x : Str) (c : Bool) :
    Gen.isbn.validate x c =
      Gen.isbn.validate x false >>= fun n => if c then Gen.isbn.to_isbn13 n else .ok n := by
  cases c
  · simp only [Bool.false_eq_true, if_false]
    cases Gen.isbn.validate x false <;> rfl
  · unfold Gen.isbn.validate
    simp only [bind_assoc, if_true, Bool.false_eq_true, if_false]
    cases Gen.isbn.compact x false with
    | error e => rfl
    | ok n =>
      simp only [bind_ok]
      cases Gen.util.isdigits (slice n none (some (-1))) with
      | error e => rfl
      | ok b =>
        simp only [bind_ok]
        cases b
        · rfl
        · simp only [Bool.not_true, Bool.false_eq_true, if_false]
          cases h10 : ((n.length : Int) == 10)
          · simp only [Bool.false_eq_true, if_false]
            cases h13 : ((n.length : Int) == 13)
            · rfl
            · simp only [if_true]
              cases Gen.ean.validate n with
              | error e => rfl
              | ok r =>
                simp only [bind_ok]
                cases hp : (![[57, 55, 56], [57, 55, 57]].contains (slice n none (some 3)))
                · simp only [Bool.false_eq_true, if_false]
                  simp only [pure_ok, bind_ok]
                  generalize Gen.isbn.to_isbn13 n = t
                  cases t <;> rfl
                · rfl
          · simp only [if_true]
            cases Gen.isbn._calc_isbn10_check_digit (slice n none (some (-1))) with
            | error e => rfl
            | ok d =>
              simp only [bind_ok]
              cases Py.getItem n (-1) with
              | error e => rfl
              | ok g =>
                simp only [bind_ok]
                cases hne : (d != g)
                · simp only [Bool.false_eq_true, if_false]
                  simp only [pure_ok, bind_ok]
                  generalize Gen.isbn.to_isbn13 n = t
                  cases t <;> rfl
                · rfl

/-- a number that `validate` returned (with or without conversion) is accepted unchanged by plain `validate` -/
theorem isbn_validate_canon {x v : Str} {c : Bool} (h : Gen.isbn.validate x c = .ok v) :
    Gen.isbn.validate v false = .ok v := by
  rw [isbn_validate_eq] at h
  obtain ⟨n, hn, h⟩ := bind_ok_inv h
  cases c
  · simp only [Bool.false_eq_true, if_false] at h
    cases h
    exact isbn_validate_idem hn
  · simp only [if_true] at h
    obtain ⟨_, _, _, hcase⟩ := isbn_ok hn
    rcases hcase with ⟨h10, _⟩ | ⟨h13, _⟩
    · obtain ⟨k, _, h2, h3⟩ := isbn10_to_isbn13 x n hn h10
      rw [h2] at h
      cases h
      exact h3
    · rw [isbn13_to_isbn13 x n hn h13] at h
      cases h
      exact isbn_validate_idem hn

/-! ### the registry: at most four parts, and `978` is a first-level entry -/

open Spec.NumDB in
theorem findAux_length_le : ∀ (f : Nat) (db : List Entry) (n : Str), (findAux f db n).length ≤ f
  | 0, _, _ => Nat.le_refl _
  | f + 1, db, n => by
    unfold Spec.NumDB.findAux
    split
    · exact Nat.zero_le _
    · simp only [List.length_cons]
      exact Nat.succ_le_succ (findAux_length_le f _ _)

open Spec.NumDB in
/-- `numdb.split` returns at most (nesting depth + 1) parts -/
theorem split_length_le (db : List Entry) (n : Str) : (split db n).length ≤ depthList db + 1 := by
  unfold split info Spec.NumDB.find
  rw [List.length_map]
  exact findAux_length_le _ _ _

theorem isbn_depth : Spec.NumDB.depthList Gen.db_isbn.db = 3 := by
  rw [Props.C11.Data.isbn.db_eq]
  decide +kernel

theorem isbn_top :
    (Props.C11.Data.isbn.tree.all (fun e => e.length == 3) &&
      Props.C11.Data.isbn.tree.any (fun e => e.length == 3 && e.low == [57, 55, 56] && e.high == [57, 55, 56])) = true := by
  decide +kernel

open Spec.NumDB in
/-- looking up `978…` gives `978` as the first part -/
theorem isbn_head978 (n : Str) : ∃ t, split Gen.db_isbn.db ([57, 55, 56] ++ n) = [57, 55, 56] :: t := by
  rw [Props.C11.Data.isbn.db_eq]
  have htop := isbn_top
  generalize Props.C11.Data.isbn.tree = db at htop ⊢
  simp only [Bool.and_eq_true, List.all_eq_true, List.any_eq_true, beq_iff_eq] at htop
  obtain ⟨hall, e, he, ⟨hel, hlo⟩, hhi⟩ := htop
  have hm : matchesNumber ([57, 55, 56] ++ n) e = true := by
    unfold matchesNumber
    rw [hel, hlo, hhi]
    simp
    decide
  have hmem : e ∈ db.filter (matchesNumber ([57, 55, 56] ++ n)) := List.mem_filter.mpr ⟨he, hm⟩
  have := Props.C10.find_matched db ([57, 55, 56] ++ n) (by simp) 3 ⟨e, hmem, hel⟩
    (fun e' he' => by rw [hall e' (List.mem_filter.mp he').1]; exact Nat.le_refl _)
  unfold split info
  rw [this]
  exact ⟨_, rfl⟩

theorem bind_ok' {α β : Type} (a : α) (f : α → R β) : ((Except.ok a : R α) >>= f) = f a := by
  simp only [bind, Except.bind]
theorem pure_ok' {α : Type} (a : α) : (pure a : R α) = .ok a := by
  simp only [pure, Except.pure]

/-- the `pop` bookkeeping of `isbn.split` on a compact number `w` (all but the last character digits, 10 or 13
characters): the five parts concatenate to `w` -/
theorem isbn_split_core (u : Str) (c : Bool) (w : Str) (hcomp : Gen.isbn.compact u c = .ok w)
    (hl : w.length = 10 ∨ w.length = 13)
    (p1 p2 p3 p4 p5 : Str) (hs : Gen.isbn.split u c = .ok (p1, p2, p3, p4, p5)) :
    p1 ++ p2 ++ p3 ++ p4 ++ p5 = w := by
  have hdepth := isbn_depth
  have h978 := isbn_head978
  have hcat := fun n => Props.C10.split_concat Gen.db_isbn.db n
  have hlen := fun n => split_length_le Gen.db_isbn.db n
  unfold Gen.isbn.split at hs
  generalize Gen.db_isbn.db = db at hs hdepth h978 hcat hlen
  have hne : w ≠ [] := by intro h0; subst h0; simp at hl
  have hlast : w.dropLast ++ [w.getLast hne] = w := List.dropLast_concat_getLast hne
  rcases hl with hl | hl
  · have e10 : ((w.length : Int) == 10) = true := by simp [hl]
    have hne' : [57, 55, 56] ++ w ≠ [] := by simp
    have hg : getItem ([57, 55, 56] ++ w) (-1) = .ok [w.getLast hne] := by
      rw [getItem_neg_one _ hne', List.getLast_append_of_ne_nil _ hne]
    have hsl : slice ([57, 55, 56] ++ w) none (some (-1)) = [57, 55, 56] ++ w.dropLast := by
      rw [slice_none_neg_one, List.dropLast_append_of_ne_nil hne]
    simp only [hcomp, bind_ok', pure_ok', e10, if_true, hg, hsl] at hs
    obtain ⟨t, ht⟩ := h978 w.dropLast
    have hc := hcat ([57, 55, 56] ++ w.dropLast)
    have hn := hlen ([57, 55, 56] ++ w.dropLast)
    rw [ht] at hs hc hn
    rw [hdepth] at hn
    simp only [List.flatten_cons, List.append_cancel_left_eq] at hc
    have hdl : w.dropLast.length = 9 := by simp [hl]
    rcases t with _ | ⟨a, _ | ⟨b, _ | ⟨c, _ | ⟨d, t⟩⟩⟩⟩
    · rw [← hc] at hdl; simp at hdl
    · simp only [List.reverse_cons, List.reverse_nil, List.nil_append, List.cons_append, Except.ok.injEq,
        Prod.mk.injEq] at hs
      obtain ⟨rfl, rfl, rfl, rfl, rfl⟩ := hs
      simp only [List.flatten_cons, List.flatten_nil, List.append_nil] at hc
      refine Eq.trans ?_ hlast
      rw [← hc]; simp
    · simp only [List.reverse_cons, List.reverse_nil, List.nil_append, List.cons_append, Except.ok.injEq,
        Prod.mk.injEq] at hs
      obtain ⟨rfl, rfl, rfl, rfl, rfl⟩ := hs
      simp only [List.flatten_cons, List.flatten_nil, List.append_nil] at hc
      refine Eq.trans ?_ hlast
      rw [← hc]; simp
    · simp only [List.reverse_cons, List.reverse_nil, List.nil_append, List.cons_append, Except.ok.injEq,
        Prod.mk.injEq] at hs
      obtain ⟨rfl, rfl, rfl, rfl, rfl⟩ := hs
      simp only [List.flatten_cons, List.flatten_nil, List.append_nil] at hc
      refine Eq.trans ?_ hlast
      rw [← hc]; simp
    · simp at hn
  · have e10 : ((w.length : Int) == 10) = false := by simp [hl]
    have hg : getItem w (-1) = .ok [w.getLast hne] := getItem_neg_one _ hne
    simp only [hcomp, bind_ok', pure_ok', e10, Bool.false_eq_true, if_false, hg, slice_none_neg_one] at hs
    have hc := hcat w.dropLast
    have hn := hlen w.dropLast
    rw [hdepth] at hn
    generalize Spec.NumDB.split db w.dropLast = t at hs hc hn
    rcases t with _ | ⟨a, _ | ⟨b, _ | ⟨c, _ | ⟨d, _ | ⟨e, t⟩⟩⟩⟩⟩
    · simp only [List.reverse_nil, Except.ok.injEq, Prod.mk.injEq] at hs
      obtain ⟨rfl, rfl, rfl, rfl, rfl⟩ := hs
      refine Eq.trans ?_ hlast
      rw [← hc]; simp
    · simp only [List.reverse_cons, List.reverse_nil, List.nil_append, List.cons_append, Except.ok.injEq,
        Prod.mk.injEq] at hs
      obtain ⟨rfl, rfl, rfl, rfl, rfl⟩ := hs
      refine Eq.trans ?_ hlast
      rw [← hc]; simp
    · simp only [List.reverse_cons, List.reverse_nil, List.nil_append, List.cons_append, Except.ok.injEq,
        Prod.mk.injEq] at hs
      obtain ⟨rfl, rfl, rfl, rfl, rfl⟩ := hs
      refine Eq.trans ?_ hlast
      rw [← hc]; simp
    · simp only [List.reverse_cons, List.reverse_nil, List.nil_append, List.cons_append, Except.ok.injEq,
        Prod.mk.injEq] at hs
      obtain ⟨rfl, rfl, rfl, rfl, rfl⟩ := hs
      refine Eq.trans ?_ hlast
      rw [← hc]; simp
    · simp only [List.reverse_cons, List.reverse_nil, List.nil_append, List.cons_append, Except.ok.injEq,
        Prod.mk.injEq] at hs
      obtain ⟨rfl, rfl, rfl, rfl, rfl⟩ := hs
      refine Eq.trans ?_ hlast
      rw [← hc]; simp
    · simp at hn

theorem isbn_compact_true_du {w : Str} (hw : AllIn isDU w) (h9 : w.length ≠ 9) :
    Gen.isbn.compact w true = Gen.isbn.to_isbn13 w := by
  unfold Gen.isbn.compact
  simp only [clean_eq, bind_ok, pure_ok, if_true]
  rw [du_compact_upper hw _ (by decide)]
  have : ¬ ((w.length : Int) = 9) := by omega
  simp only [beq_iff_eq, this, if_false]

/-- **isbn: the five parts of `split` concatenate to the canonical number.**  For every number `v` returned by
`validate` (any presentation `x`, with or without `convert`) and both values of `split`'s own `convert` option:
the concatenation of the parts is `compact(v, convert')`, which is `v` itself unless an ISBN-10 is split with
`convert=True` (then it is the converted ISBN-13). -/
theorem isbn_split_concat (x v : Str) (c c' : Bool) (p1 p2 p3 p4 p5 : Str)
    (h : Gen.isbn.validate x c = .ok v) (hs : Gen.isbn.split v c' = .ok (p1, p2, p3, p4, p5)) :
    Gen.isbn.compact v c' = .ok (p1 ++ p2 ++ p3 ++ p4 ++ p5) ∧
      ((c' = false ∨ v.length = 13) → p1 ++ p2 ++ p3 ++ p4 ++ p5 = v) := by
  have hv := isbn_validate_canon h
  obtain ⟨_, _, _, hcase⟩ := isbn_ok hv
  have hl : v.length = 10 ∨ v.length = 13 := by
    rcases hcase with ⟨h10, _⟩ | ⟨h13, _⟩
    · exact Or.inl h10
    · exact Or.inr h13
  have hDU : AllIn isDU v := by
    rcases hl with h10 | h13
    · exact (isbn10_shape hv h10).2.2
    · exact fun c hc => du_of_digit ((isbn13_shape hv h13).1 c hc)
  have hcf := isbn_compact_du hDU (show v.length ≠ 9 by omega)
  cases c'
  · have := isbn_split_core v false v hcf hl p1 p2 p3 p4 p5 hs
    rw [this]
    exact ⟨hcf, fun _ => rfl⟩
  · have hct := isbn_compact_true_du hDU (show v.length ≠ 9 by omega)
    rcases hl with h10 | h13
    · obtain ⟨k, _, h2, h3⟩ := isbn10_to_isbn13 v v hv h10
      generalize hw : [57, 55, 56] ++ v.dropLast ++ [k] = w at h2 h3
      have hwl : w.length = 13 := by rw [← hw]; simp [h10]
      rw [h2] at hct
      have := isbn_split_core v true w hct (Or.inr hwl) p1 p2 p3 p4 p5 hs
      rw [this]
      refine ⟨hct, fun hh => ?_⟩
      rcases hh with hh | hh
      · cases hh
      · omega
    · rw [isbn13_to_isbn13 v v hv h13] at hct
      have := isbn_split_core v true v hct (Or.inr h13) p1 p2 p3 p4 p5 hs
      rw [this]
      exact ⟨hct, fun _ => rfl⟩

example : Gen.isbn.validate (str% "978-0-471-11709-4") false = .ok (str% "9780471117094") := ex_isbn13
example : Gen.isbn.validate (str% "1-85798-218-5") false = .ok (str% "1857982185") := ex_isbn10

/-! ## stdnum.ismn : `split` works on the 13-digit form `to_ismn13(compact(number))` -/

theorem ismn_parts (w : Str) (hl : w.length = 13) (l : Int) (h0 : 0 ≤ l) (h8 : l ≤ 8) :
    slice w none (some 3) ++ slice w (some 3) (some 4) ++ slice w (some 4) (some (4 + l)) ++
      slice w (some (4 + l)) (some (-1)) ++ slice w (some (-1)) none = w := by
  rw [slice_none_append_slice_const w (by decide) (by decide),
    slice_none_append_slice_const w (by decide) (by omega), List.append_assoc,
    slice_append_slice_neg w (by omega) (by decide) (by omega), slice_append_drop]

/-- the loop over the five publisher ranges: whichever range matches, the five slices partition the 13-digit
number -/
theorem ismn_split_core (u u' w : Str) (hc : Gen.ismn.compact u = .ok u') (ht : Gen.ismn.to_ismn13 u' = .ok w)
    (hl : w.length = 13) (p1 p2 p3 p4 p5 : Str)
    (hs : Gen.ismn.split u = .ok (some (p1, p2, p3, p4, p5))) : p1 ++ p2 ++ p3 ++ p4 ++ p5 = w := by
  have hne : w ≠ [] := by intro h0; subst h0; simp at hl
  have hg3 : Py.getItem w 3 = .ok (slice w (some 3) (some 4)) :=
    getItem_eq_slice w (i := 3) (by decide) (by omega)
  have hgl := getItem_neg_one_eq_slice w hne
  unfold Gen.ismn.split at hs
  simp only [hc, ht, bind_ok, pure_ok, Gen.ismn._ranges, List.forIn_cons, List.forIn_nil, hg3, hgl] at hs
  split at hs
  · cases hs
    exact ismn_parts w hl 3 (by decide) (by decide)
  · simp only [bind_ok] at hs
    split at hs
    · cases hs
      exact ismn_parts w hl 4 (by decide) (by decide)
    · simp only [bind_ok] at hs
      split at hs
      · cases hs
        exact ismn_parts w hl 5 (by decide) (by decide)
      · simp only [bind_ok] at hs
        split at hs
        · cases hs
          exact ismn_parts w hl 6 (by decide) (by decide)
        · simp only [bind_ok] at hs
          split at hs
          · cases hs
            exact ismn_parts w hl 7 (by decide) (by decide)
          · cases hs

/-- **ismn: the five parts of `split` concatenate to the canonical 13-digit form.**  `split` always works on
`to_ismn13(number)`: for an ISMN-13 the parts concatenate to `v` itself, for an ISMN-10 (`M` + 9 digits) to
`'9790' + v[1:]`. -/
theorem ismn_split_concat (x v : Str) (p1 p2 p3 p4 p5 : Str) (h : Gen.ismn.validate x = .ok v)
    (hs : Gen.ismn.split v = .ok (some (p1, p2, p3, p4, p5))) :
    Gen.ismn.to_ismn13 v = .ok (p1 ++ p2 ++ p3 ++ p4 ++ p5) ∧
      (v.length = 13 → p1 ++ p2 ++ p3 ++ p4 ++ p5 = v) ∧
      (v.length = 10 → p1 ++ p2 ++ p3 ++ p4 ++ p5 = [57, 55, 57, 48] ++ v.drop 1) := by
  obtain ⟨_, hcase⟩ := ismn_ok h
  rcases hcase with ⟨h10, _⟩ | ⟨h13, _⟩
  · obtain ⟨hM, hD, _⟩ := ismn10_shape h h10
    have hv : v = 77 :: v.drop 1 := by
      conv => lhs; rw [← List.take_append_drop 1 v, hM]
      rfl
    have hDU : AllIn isDU v := by
      rw [hv]
      exact allIn_cons (by decide) (fun c hc => du_of_digit (hD c hc))
    obtain ⟨hto, _, _⟩ := ismn10_to_ismn13 x v h h10
    have := ismn_split_core v v _ (ismn_compact_du hDU) hto (by simp [h10]) p1 p2 p3 p4 p5 hs
    rw [this]
    exact ⟨hto, fun h => by omega, fun _ => rfl⟩
  · obtain ⟨hD, _, _⟩ := ismn13_shape h h13
    have hDU : AllIn isDU v := fun c hc => du_of_digit (hD c hc)
    have hto := ismn13_to_ismn13 x v h h13
    have := ismn_split_core v v v (ismn_compact_du hDU) hto h13 p1 p2 p3 p4 p5 hs
    rw [this]
    exact ⟨hto, fun _ => rfl, fun h => by omega⟩

example : Gen.ismn.validate (str% "979-0-3452-4680-5") = .ok (str% "9790345246805") := ex_ismn13
example : Gen.ismn.validate (str% "M-2306-7118-7") = .ok (str% "M230671187") := ex_ismn10

/-! ## stdnum.isan : `split` cuts the compact number at fixed positions (three layouts) -/

theorem isan_du_validated {P K r : Str} (h : Gen.iso7064_mod_37_36.validate (P ++ K) C17.a36 = .ok r) :
    AllIn isDU K := by
  have := (gen_mod_37_36_validate_ok h).2
  exact du_of_a36 (fun c hc => this c (List.mem_append_right _ hc))

theorem isan_du_calc {P k : Str} (hP : ∀ c ∈ P, c ∈ C17.a36)
    (h : Gen.iso7064_mod_37_36.calc_check_digit P C17.a36 = .ok k) : AllIn isDU k := by
  obtain ⟨c, hc, hv⟩ := gen_mod_37_36_append_valid C17.a36 P a36_nodup (by decide) hP
  rw [hc] at h
  cases h
  exact isan_du_validated hv

theorem allIn_nil' (p : Nat → Bool) : AllIn p [] := fun _ h => by cases h

/-- every number returned by `isan.validate` (all option values) consists of digits and upper-case letters -/
theorem isan_du {x v : Str} {s a : Bool} (h : Gen.isan.validate x s a = .ok v) : AllIn isDU v := by
  unfold Gen.isan.validate at h
  have h' := bind_ok_inv h
  clear h
  obtain ⟨⟨R, E, C1, V, C2⟩, hs, h⟩ := h'
  cases s <;> cases a <;>
    simp only [pure_ok, Bool.false_eq_true, if_false, if_true, Bool.false_and, Bool.true_and, List.isEmpty_nil,
      Bool.not_true, Bool.not_false] at h <;>
    rw [isan_loop] at h <;>
    (cases hhex : (R ++ E ++ V).all (fun c => h16.contains c) with
     | false => rw [hhex] at h; cases h
     | true =>
      rw [hhex] at h
      simp only [if_true, bind_ok] at h
      have hm := hex_mem hhex
      have hRE : ∀ c ∈ R ++ E, c ∈ C17.a36 := fun c hc => by
        rcases List.mem_append.mp hc with h1 | h1
        · exact hm c (List.mem_append_left _ (List.mem_append_left _ h1))
        · exact hm c (List.mem_append_left _ (List.mem_append_right _ h1))
      have hR : AllIn isDU R := du_of_a36 fun c hc => hm c (List.mem_append_left _ (List.mem_append_left _ hc))
      have hE : AllIn isDU E := du_of_a36 fun c hc => hm c (List.mem_append_left _ (List.mem_append_right _ hc))
      have hV : AllIn isDU V := du_of_a36 fun c hc => hm c (List.mem_append_right _ hc)
      split at h
      · cases h
      · rcases C1 with _ | ⟨k1, t1⟩ <;> rcases C2 with _ | ⟨k2, t2⟩ <;> cases hv : V.isEmpty <;>
          (try simp only [hv, List.isEmpty_nil, List.isEmpty_cons, Bool.not_true, Bool.not_false, Bool.false_eq_true,
            if_true, if_false, Bool.and_true, Bool.and_false, Bool.true_and, Bool.false_and] at h) <;>
          (repeat (obtain ⟨_, hb, h⟩ := bind_ok_inv h)) <;>
          cases h <;>
          (refine allIn_append (allIn_append (allIn_append (allIn_append hR hE) ?_) hV) ?_ <;>
            first
            | exact allIn_nil' _
            | exact isan_du_validated (by with_reducible assumption)
            | exact isan_du_calc hRE (by with_reducible assumption)
            | exact isan_du_calc hm (by with_reducible assumption)))
theorem slice_zero_none (n : Str) : slice n (some 0) none = n := by
  rw [slice_nonneg_none n (by decide)]; rfl

theorem three_cuts (n : Str) {a b : Int} (h0 : 0 ≤ a) (hab : a ≤ b) :
    slice n (some 0) (some a) ++ slice n (some a) (some b) ++ slice n (some b) none = n := by
  rw [slice_append_slice_const n (Int.le_refl 0) h0 hab,
    slice_append_slice_none_const n (Int.le_refl 0) (Int.le_trans h0 hab), slice_zero_none]

theorem four_cuts (n : Str) {a b c : Int} (h0 : 0 ≤ a) (hab : a ≤ b) (hbc : b ≤ c) :
    slice n (some 0) (some a) ++ slice n (some a) (some b) ++ slice n (some b) (some c) ++ slice n (some c) none = n := by
  rw [slice_append_slice_const n (Int.le_refl 0) h0 hab]
  exact three_cuts n (Int.le_trans h0 hab) hbc

theorem five_cuts (n : Str) {a b c d : Int} (h0 : 0 ≤ a) (hab : a ≤ b) (hbc : b ≤ c) (hcd : c ≤ d) :
    slice n (some 0) (some a) ++ slice n (some a) (some b) ++ slice n (some b) (some c) ++
      slice n (some c) (some d) ++ slice n (some d) none = n := by
  rw [slice_append_slice_const n (Int.le_refl 0) h0 hab]
  exact four_cuts n (Int.le_trans h0 hab) hbc hcd

/-- whatever branch `isan.split` takes, its five parts partition the compacted input -/
theorem isan_split_cat (w p1 p2 p3 p4 p5 : Str) (hs : Gen.isan.split w = .ok (p1, p2, p3, p4, p5)) :
    p1 ++ p2 ++ p3 ++ p4 ++ p5 = upper (strip (cleanP w [32, 45])) := by
  unfold Gen.isan.split at hs
  simp only [clean_eq, bind_ok, pure_ok] at hs
  generalize upper (strip (cleanP w [32, 45])) = n at hs
  split at hs
  · rename_i hlen
    have hl : n.length = 17 ∨ n.length = 26 := by
      simp only [Bool.or_eq_true, beq_iff_eq] at hlen; omega
    have hg : Py.getItem n 16 = .ok (slice n (some 16) (some 17)) :=
      getItem_eq_slice n (i := 16) (by decide) (by omega)
    rw [hg] at hs
    simp only [bind_ok] at hs
    cases hs
    exact five_cuts n (by decide) (by decide) (by decide) (by decide)
  · split at hs
    · cases hs
      rw [List.append_nil]
      exact four_cuts n (by decide) (by decide) (by decide)
    · cases hs
      rw [List.append_nil, List.append_nil]
      exact three_cuts n (by decide) (by decide)

/-- **isan: the five parts of `split` concatenate to the number `validate` returned** (all option values) -/
theorem isan_split_concat (x v : Str) (s a : Bool) (p1 p2 p3 p4 p5 : Str)
    (h : Gen.isan.validate x s a = .ok v) (hs : Gen.isan.split v = .ok (p1, p2, p3, p4, p5)) :
    p1 ++ p2 ++ p3 ++ p4 ++ p5 = v := by
  rw [isan_split_cat v p1 p2 p3 p4 p5 hs, isan_compact_du (isan_du h)]

example : Gen.isan.validate (str% "0000-0001-8947-0000-8-0000-0000-D") false false =
    .ok (str% "0000000189470000800000000D") := by decide +kernel
example : Gen.isan.split (str% "0000000189470000800000000D") =
    .ok (str% "000000018947", str% "0000", str% "8", str% "00000000", str% "D") := by decide +kernel
example : Gen.imei.split (str% "352099001761481") = .ok (str% "35209900", str% "176148", str% "1") := by
  decide +kernel
example : (match Gen.ismn.split (str% "9790345246805") with
    | .ok (some (a, b, c, d, e)) => [a, b, c, d, e]
    | _ => []) = [str% "979", str% "0", str% "3452", str% "4680", str% "5"] := by decide +kernel
example : (match Gen.ismn.split (str% "M230671187") with
    | .ok (some (a, b, c, d, e)) => [a, b, c, d, e]
    | _ => []) = [str% "979", str% "0", str% "2306", str% "7118", str% "7"] := by decide +kernel

end Props.C12

#print axioms Props.C12.imei_split_concat
#print axioms Props.C12.imsi_split_concat
#print axioms Props.C12.isbn_validate_eq
#print axioms Props.C12.isbn_validate_canon
#print axioms Props.C12.isbn_split_core
#print axioms Props.C12.isbn_split_concat
#print axioms Props.C12.ismn_split_core
#print axioms Props.C12.ismn_split_concat
#print axioms Props.C12.isan_du
#print axioms Props.C12.isan_split_cat
#print axioms Props.C12.isan_split_concat

