import Props.C08p
/-!
# C08 (part a) — conversions inside the EAN family: ISSN → EAN-13, ISBN-10 ↔ ISBN-13, ISMN-10 → ISMN-13
-/
namespace Props.C08
open Py Spec.Checksum Lemmas.Refine Lemmas.Fold Props.C06 Props.C06Gen Props.C17 Props.C05

/-! ## ISSN → EAN-13 (`issn.to_ean(number, issue_code='00')`) -/

/-- target-valid + identity: for every valid ISSN (any presentation `x`) and every two-digit issue code the result
is `'977' + issn[:7] + issue_code + check`, and `ean.validate` accepts it unchanged -/
theorem issn_to_ean_valid (x v ic : Str) (h : Gen.issn.validate x = .ok v)
    (hic : AllIn isAsciiDigit ic) (hl : ic.length = 2) :
    ∃ k, Gen.issn.to_ean x ic = .ok ([57, 55, 55] ++ v.dropLast ++ ic ++ [k]) ∧
      Gen.ean.validate ([57, 55, 55] ++ v.dropLast ++ ic ++ [k]) = .ok ([57, 55, 55] ++ v.dropLast ++ ic ++ [k]) := by
  obtain ⟨_, hlen, hD, _, _⟩ := issn_ok h
  have hp : AllIn isAsciiDigit ([57, 55, 55] ++ v.dropLast ++ ic) :=
    allIn_append (allIn_append (by decide) hD) hic
  have hpl : ([57, 55, 55] ++ v.dropLast ++ ic).length = 12 := by
    simp only [List.length_append, List.length_cons, List.length_nil, List.length_dropLast, hlen, hl]
  obtain ⟨k, hk, hv⟩ := ean_check_complete _ hp (Or.inr (Or.inr (Or.inl hpl)))
  refine ⟨k, ?_, hv⟩
  unfold Gen.issn.to_ean
  simp only [h, bind_ok, pure_ok, slice_none_neg_one, hk]

/-! ## ISBN-10 ↔ ISBN-13 -/

open Spec.Standards (Std_isbn Std_isbn10 Std_isbn13 Std_ismn gs1 canon_isbn canon_ismn) in
open Props.C07 in
/-- what `isbn.validate` accepts (from `Props.C07.isbn_agrees_with_standard`) -/
theorem isbn_std_of_ok {x v : Str} (h : Gen.isbn.validate x false = .ok v) :
    v = isbnC x ∧ Std_isbn v = true := by
  have := isbn_agrees_with_standard x
  rw [h, canon_isbn_eq] at this
  by_cases hs : Std_isbn (isbnC x) = true
  · rw [if_pos hs] at this
    have hv : v = isbnC x := by simpa [Except.toOption] using this
    exact ⟨hv, hv ▸ hs⟩
  · rw [if_neg hs] at this
    simp [Except.toOption] at this

open Spec.Standards (Std_isbn Std_isbn10 Std_isbn13 Std_ismn gs1 canon_isbn canon_ismn) in
open Props.C07 in
theorem isbn_ok_of_std {w : Str} (hw : AllIn isDU w) (h9 : w.length ≠ 9) (hs : Std_isbn w = true) :
    Gen.isbn.validate w false = .ok w := by
  have := isbn_agrees_with_standard w
  rw [canon_isbn_eq, isbnC_du hw h9, if_pos hs] at this
  cases hv : Gen.isbn.validate w false with
  | error e => rw [hv] at this; simp [Except.toOption] at this
  | ok r =>
    rw [hv] at this
    have : r = w := by simpa [Except.toOption] using this
    rw [this]

open Spec.Standards (Std_isbn Std_isbn10 Std_isbn13 Std_ismn gs1 canon_isbn canon_ismn) in
open Props.C07 in
/-- shape of a valid ISBN-10 -/
theorem isbn10_shape {x v : Str} (h : Gen.isbn.validate x false = .ok v) (hl : v.length = 10) :
    AllIn isAsciiDigit v.dropLast ∧ AllIn isD11 v ∧ AllIn isDU v := by
  obtain ⟨_, hs⟩ := isbn_std_of_ok h
  unfold Std_isbn at hs
  rcases Bool.or_eq_true_iff.mp hs with h10 | h13
  · obtain ⟨_, hp, hD, _⟩ := (std_isbn10_iff v).mp h10
    exact ⟨hp, hD, fun c hc => d11_du (hD c hc)⟩
  · have := ((std_isbn13_iff v).mp h13).1
    omega

open Spec.Standards (Std_isbn Std_isbn10 Std_isbn13 Std_ismn gs1 canon_isbn canon_ismn) in
open Props.C07 in
/-- shape of a valid ISBN-13 -/
theorem isbn13_shape {x v : Str} (h : Gen.isbn.validate x false = .ok v) (hl : v.length = 13) :
    AllIn isAsciiDigit v ∧ (v.take 3 = [57, 55, 56] ∨ v.take 3 = [57, 55, 57]) ∧ gs1 v = true := by
  obtain ⟨_, hs⟩ := isbn_std_of_ok h
  unfold Std_isbn at hs
  rcases Bool.or_eq_true_iff.mp hs with h10 | h13
  · have := ((std_isbn10_iff v).mp h10).1
    omega
  · exact ((std_isbn13_iff v).mp h13).2

open Spec.Standards (Std_isbn Std_isbn10 Std_isbn13 Std_ismn gs1 canon_isbn canon_ismn) in
open Props.C07 in
/-- a 13-digit string with prefix 978/979 and a correct EAN check digit is accepted unchanged -/
theorem isbn13_ok_of {w : Str} (hD : AllIn isAsciiDigit w) (hl : w.length = 13)
    (hp : w.take 3 = [57, 55, 56] ∨ w.take 3 = [57, 55, 57]) (hv : Gen.ean.validate w = .ok w) :
    Gen.isbn.validate w false = .ok w := by
  have hne : w ≠ [] := by intro h0; subst h0; simp at hl
  have hg : gs1 w = true := by
    rw [ean_validate_digits hD hne, if_pos (by rw [hl]; decide)] at hv
    by_cases hg : gs1 w = true
    · exact hg
    · rw [if_neg hg] at hv; cases hv
  apply isbn_ok_of_std (fun c hc => du_of_digit (hD c hc)) (by omega)
  unfold Std_isbn
  rw [(std_isbn13_iff w).mpr ⟨hl, hD, hp, hg⟩, Bool.or_true]

/-- `isbn.to_isbn13` on a compact ISBN-10 (`v` is what `validate` returned): target-valid, identity
(`'978' + isbn10[:9] + check`, with `check` the EAN check digit) -/
theorem isbn10_to_isbn13 (x v : Str) (h : Gen.isbn.validate x false = .ok v) (hl : v.length = 10) :
    ∃ k, Gen.ean.calc_check_digit ([57, 55, 56] ++ v.dropLast) = .ok [k] ∧
      Gen.isbn.to_isbn13 v = .ok ([57, 55, 56] ++ v.dropLast ++ [k]) ∧
      Gen.isbn.validate ([57, 55, 56] ++ v.dropLast ++ [k]) false = .ok ([57, 55, 56] ++ v.dropLast ++ [k]) := by
  obtain ⟨hp, _, hDU⟩ := isbn10_shape h hl
  have hA : AllIn isAsciiAlnum v := fun c hc => alnum_of_du (hDU c hc)
  have hpd : AllIn isAsciiDigit ([57, 55, 56] ++ v.dropLast) := allIn_append (by decide) hp
  have hpl : ([57, 55, 56] ++ v.dropLast).length = 12 := by simp [hl]
  obtain ⟨k, hk, hkd⟩ := ean_calc_digit _ hpd
  obtain ⟨k', hk', hv⟩ := ean_check_complete _ hpd (Or.inr (Or.inr (Or.inl hpl)))
  have : k' = k := by rw [hk] at hk'; simpa using hk'.symm
  subst this
  have hwD : AllIn isAsciiDigit ([57, 55, 56] ++ v.dropLast ++ [k']) :=
    allIn_append hpd (allIn_cons hkd (fun _ h => by simp at h))
  refine ⟨k', hk, ?_, ?_⟩
  · unfold Gen.isbn.to_isbn13
    simp only [clean_eq, bind_ok, pure_ok, slice_none_neg_one]
    rw [strip_eq_self_of_asciiAlnum v hA, cleanP_of_alnum hA (by decide)]
    have e13 : ((v.length : Int) == 13) = false := by simp [hl]
    have e9 : ((v.length : Int) == 9) = false := by simp [hl]
    have hnum : AllIn isAsciiDigit (v.dropLast ++ [k']) := allIn_append hp (allIn_cons hkd (fun _ h => by simp at h))
    simp only [e13, e9, Bool.false_eq_true, if_false, hk, bind_ok, strIn_single,
      contains_of_allIn_false hnum (by decide : isAsciiDigit 32 = false),
      contains_of_allIn_false hnum (by decide : isAsciiDigit 45 = false)]
    simp
  · exact isbn13_ok_of hwD (by simp [hl]) (Or.inl (by simp)) hv

/-- `isbn.to_isbn13` leaves a compact ISBN-13 alone -/
theorem isbn13_to_isbn13 (x v : Str) (h : Gen.isbn.validate x false = .ok v) (hl : v.length = 13) :
    Gen.isbn.to_isbn13 v = .ok v := by
  obtain ⟨hD, _, _⟩ := isbn13_shape h hl
  have hA : AllIn isAsciiAlnum v := fun c hc => digit_alnum (hD c hc)
  unfold Gen.isbn.to_isbn13
  simp only [clean_eq, bind_ok, pure_ok]
  rw [strip_eq_self_of_asciiAlnum v hA, cleanP_of_alnum hA (by decide)]
  simp [hl]

theorem slice_3_neg1 (v : Str) (hl : v.length = 13) : slice v (some 3) (some (-1)) = (v.drop 3).take 9 := by
  rw [slice_eq]
  simp [hl]

/-- `isbn.isbn_type` of a compact valid number -/
theorem isbn_type_of_valid (v : Str) (hv : Gen.isbn.validate v false = .ok v) :
    Gen.isbn.isbn_type v =
      .ok (some (if ((v.length : Int) == 10) = true then [73, 83, 66, 78, 49, 48] else [73, 83, 66, 78, 49, 51])) := by
  unfold Gen.isbn.isbn_type
  dsimp only
  rw [hv]
  cases h : ((v.length : Int) == 10)
  · show (if ((v.length : Int) == 10) = true then _ else _) = _
    rw [h]; rfl
  · show (if ((v.length : Int) == 10) = true then _ else _) = _
    rw [h]; rfl

/-- a compact valid number is accepted unchanged (`validate` is idempotent) -/
theorem isbn_validate_idem {x v : Str} (h : Gen.isbn.validate x false = .ok v) :
    Gen.isbn.validate v false = .ok v := by
  obtain ⟨_, hs⟩ := isbn_std_of_ok h
  obtain ⟨_, _, hne, hcase⟩ := isbn_ok h
  rcases hcase with ⟨h10, _⟩ | ⟨h13, _⟩
  · exact isbn_ok_of_std (isbn10_shape h h10).2.2 (by omega) hs
  · exact isbn_ok_of_std (fun c hc => du_of_digit ((isbn13_shape h h13).1 c hc)) (by omega) hs

theorem isbn_compact_du {w : Str} (hw : AllIn isDU w) (h9 : w.length ≠ 9) : Gen.isbn.compact w false = .ok w := by
  unfold Gen.isbn.compact
  simp only [clean_eq, bind_ok, pure_ok, Bool.false_eq_true, if_false]
  rw [du_compact_upper hw _ (by decide)]
  have : ¬ ((w.length : Int) = 9) := by omega
  simp [this]

/-- `isbn.to_isbn10` on a compact ISBN-13 with the Bookland prefix 978: target-valid, identity
(`isbn13[3:12] + check` with `check` the ISBN-10 check character) -/
theorem isbn13_to_isbn10 (x v : Str) (h : Gen.isbn.validate x false = .ok v) (hl : v.length = 13)
    (h978 : v.take 3 = [57, 55, 56]) :
    ∃ k, Gen.isbn._calc_isbn10_check_digit ((v.drop 3).take 9) = .ok [k] ∧
      Gen.isbn.to_isbn10 v = .ok ((v.drop 3).take 9 ++ [k]) ∧
      Gen.isbn.validate ((v.drop 3).take 9 ++ [k]) false = .ok ((v.drop 3).take 9 ++ [k]) := by
  obtain ⟨hD, _, _⟩ := isbn13_shape h hl
  have hA : AllIn isAsciiAlnum v := fun c hc => digit_alnum (hD c hc)
  have hDU : AllIn isDU v := fun c hc => du_of_digit (hD c hc)
  have hp : AllIn isAsciiDigit ((v.drop 3).take 9) :=
    fun c hc => hD c (List.mem_of_mem_drop (List.mem_of_mem_take hc))
  have hpl : ((v.drop 3).take 9).length = 9 := by simp [hl]
  obtain ⟨k, hk, hv⟩ := isbn10_check_complete _ hp hpl
  refine ⟨k, hk, ?_, hv⟩
  have hst : startswith v [57, 55, 56] = true := startswith_eq_take.mpr ⟨h978, by simp [hl]⟩
  unfold Gen.isbn.to_isbn10
  simp only [pure_ok]
  rw [strip_eq_self_of_asciiAlnum v hA, isbn_compact_du hDU (by omega)]
  simp only [bind_ok, isbn_type_of_valid v (isbn_validate_idem h), slice_3_neg1 v hl, hk, hst]
  have e10 : ((v.length : Int) == 10) = false := by simp [hl]
  rw [strip_eq_self_of_asciiDigit _ hp]
  have hsc : stripChars ((v.drop 3).take 9) [45] = (v.drop 3).take 9 := by
    unfold stripChars
    apply stripBy_eq_self_of_forall
    intro c hc
    have := digit_bounds (hp c hc)
    simp; omega
  simp only [e10, hsc, Bool.false_eq_true, if_false, strIn_single,
    contains_of_allIn_false hp (by decide : isAsciiDigit 32 = false),
    contains_of_allIn_false hp (by decide : isAsciiDigit 45 = false)]
  simp

/-- an ISBN-13 with the prefix 979 has no ISBN-10: `to_isbn10` raises `InvalidComponent` -/
theorem isbn13_979_to_isbn10 (x v : Str) (h : Gen.isbn.validate x false = .ok v) (hl : v.length = 13)
    (h979 : v.take 3 = [57, 55, 57]) :
    Gen.isbn.to_isbn10 v = .error .invalidComponent := by
  obtain ⟨hD, _, _⟩ := isbn13_shape h hl
  have hA : AllIn isAsciiAlnum v := fun c hc => digit_alnum (hD c hc)
  have hDU : AllIn isDU v := fun c hc => du_of_digit (hD c hc)
  have hst : startswith v [57, 55, 56] = false := by
    cases hs : startswith v [57, 55, 56] with
    | false => rfl
    | true =>
      have := (startswith_eq_take.mp hs).1
      simp only [List.length_cons, List.length_nil] at this
      rw [h979] at this
      cases this
  unfold Gen.isbn.to_isbn10
  simp only [pure_ok]
  rw [strip_eq_self_of_asciiAlnum v hA, isbn_compact_du hDU (by omega)]
  have e10 : ((v.length : Int) == 10) = false := by simp [hl]
  simp only [bind_ok, isbn_type_of_valid v (isbn_validate_idem h), hst, e10, Bool.false_eq_true, if_false]
  simp

/-- `isbn.to_isbn10` leaves a compact ISBN-10 alone -/
theorem isbn10_to_isbn10 (x v : Str) (h : Gen.isbn.validate x false = .ok v) (hl : v.length = 10) :
    Gen.isbn.to_isbn10 v = .ok v := by
  obtain ⟨_, _, hDU⟩ := isbn10_shape h hl
  have hA : AllIn isAsciiAlnum v := fun c hc => alnum_of_du (hDU c hc)
  unfold Gen.isbn.to_isbn10
  simp only [pure_ok]
  rw [strip_eq_self_of_asciiAlnum v hA, isbn_compact_du hDU (by omega)]
  simp [hl]

/-- paired conversions undo each other (ISBN-10 → ISBN-13 → ISBN-10) -/
theorem isbn10_roundtrip (x v : Str) (h : Gen.isbn.validate x false = .ok v) (hl : v.length = 10) :
    ∃ w, Gen.isbn.to_isbn13 v = .ok w ∧ Gen.isbn.to_isbn10 w = .ok v := by
  obtain ⟨k, _, h13, hv⟩ := isbn10_to_isbn13 x v h hl
  refine ⟨_, h13, ?_⟩
  have hne : v ≠ [] := by intro h0; subst h0; simp at hl
  have hdl : v.dropLast.length = 9 := by simp [hl]
  have hmid : (([57, 55, 56] ++ v.dropLast ++ [k]).drop 3).take 9 = v.dropLast := by
    simp only [List.cons_append, List.nil_append, List.drop_succ_cons, List.drop_zero]
    rw [List.take_append_of_le_length (by omega), List.take_of_length_le (by omega)]
  obtain ⟨k', hk', h10, _⟩ := isbn13_to_isbn10 _ _ hv (by simp [hl]) (by simp)
  rw [hmid] at hk' h10
  obtain ⟨hne', hag⟩ := isbn10_check_agrees x v h hl
  rw [hag] at hk'
  have : k' = v.getLast hne' := by simpa using hk'.symm
  rw [h10, this, List.dropLast_concat_getLast]

/-- paired conversions undo each other (ISBN-13 with prefix 978 → ISBN-10 → ISBN-13) -/
theorem isbn13_roundtrip (x v : Str) (h : Gen.isbn.validate x false = .ok v) (hl : v.length = 13)
    (h978 : v.take 3 = [57, 55, 56]) :
    ∃ w, Gen.isbn.to_isbn10 v = .ok w ∧ Gen.isbn.to_isbn13 w = .ok v := by
  obtain ⟨k, _, h10, hv⟩ := isbn13_to_isbn10 x v h hl h978
  refine ⟨_, h10, ?_⟩
  obtain ⟨hD, _, _⟩ := isbn13_shape h hl
  have hne : v ≠ [] := by intro h0; subst h0; simp at hl
  obtain ⟨k', hk', h13, _⟩ := isbn10_to_isbn13 _ _ hv (by simp [hl])
  have hpre : [57, 55, 56] ++ ((v.drop 3).take 9 ++ [k]).dropLast = v.dropLast := by
    rw [List.dropLast_concat, ← h978, List.dropLast_eq_take, hl]
    have : v.take 3 ++ (v.drop 3).take 9 = v.take (3 + 9) := by
      rw [List.take_add]
    rw [this]
  rw [hpre] at hk' h13
  -- the EAN check digit recomputed from the first twelve digits is the thirteenth
  obtain ⟨_, _, _, hcase⟩ := isbn_ok h
  have hev : ∃ r, Gen.ean.validate v = .ok r := by
    rcases hcase with ⟨h10', _⟩ | ⟨_, hr⟩
    · omega
    · exact hr
  obtain ⟨r, hr⟩ := hev
  have hrv : r = v := by
    rw [(ean_ok hr).1, digits_compact hD _ (by decide)]
  subst hrv
  obtain ⟨hne', hag⟩ := ean_check_agrees r r hr
  rw [hag] at hk'
  have : k' = r.getLast hne' := by simpa using hk'.symm
  rw [h13, this, List.dropLast_concat_getLast]

/-! ## ISMN-10 → ISMN-13 -/

open Spec.Standards (Std_isbn Std_isbn10 Std_isbn13 Std_ismn gs1 canon_isbn canon_ismn) in
open Props.C07 in
theorem ismn_std_of_ok {x v : Str} (h : Gen.ismn.validate x = .ok v) :
    v = upper (strip (cleanP x [32, 45, 46])) ∧ Std_ismn v = true := by
  have := ismn_agrees_with_standard x
  rw [h, canon_ismn_eq] at this
  by_cases hs : Std_ismn (upper (strip (cleanP x [32, 45, 46]))) = true
  · rw [if_pos hs] at this
    have hv : v = upper (strip (cleanP x [32, 45, 46])) := by simpa [Except.toOption] using this
    exact ⟨hv, hv ▸ hs⟩
  · rw [if_neg hs] at this
    simp [Except.toOption] at this

open Spec.Standards (Std_isbn Std_isbn10 Std_isbn13 Std_ismn gs1 canon_isbn canon_ismn) in
open Props.C07 in
theorem ismn_ok_of_std {w : Str} (hw : AllIn isDU w) (hs : Std_ismn w = true) :
    Gen.ismn.validate w = .ok w := by
  have := ismn_agrees_with_standard w
  rw [canon_ismn_eq, du_compact_upper hw _ (by decide), if_pos hs] at this
  cases hv : Gen.ismn.validate w with
  | error e => rw [hv] at this; simp [Except.toOption] at this
  | ok r =>
    rw [hv] at this
    have : r = w := by simpa [Except.toOption] using this
    rw [this]

open Spec.Standards (Std_isbn Std_isbn10 Std_isbn13 Std_ismn gs1 canon_isbn canon_ismn) in
open Props.C07 in
/-- shape of a valid ISMN-10: `M` and nine digits -/
theorem ismn10_shape {x v : Str} (h : Gen.ismn.validate x = .ok v) (hl : v.length = 10) :
    v.take 1 = [77] ∧ AllIn isAsciiDigit (v.drop 1) ∧ gs1 ([57, 55, 57, 48] ++ v.drop 1) = true := by
  obtain ⟨_, hs⟩ := ismn_std_of_ok h
  rcases (std_ismn_iff v).mp hs with ⟨_, h2, h3, h4⟩ | ⟨h13, _⟩
  · exact ⟨h2, all_iff_allIn.mp h3, h4⟩
  · omega

open Spec.Standards (Std_isbn Std_isbn10 Std_isbn13 Std_ismn gs1 canon_isbn canon_ismn) in
open Props.C07 in
/-- shape of a valid ISMN-13 -/
theorem ismn13_shape {x v : Str} (h : Gen.ismn.validate x = .ok v) (hl : v.length = 13) :
    AllIn isAsciiDigit v ∧ v.take 4 = [57, 55, 57, 48] ∧ gs1 v = true := by
  obtain ⟨_, hs⟩ := ismn_std_of_ok h
  rcases (std_ismn_iff v).mp hs with ⟨h10, _⟩ | ⟨_, h2, h3, h4⟩
  · omega
  · exact ⟨all_iff_allIn.mp h2, h3, h4⟩

theorem ismn_compact_du {w : Str} (hw : AllIn isDU w) : Gen.ismn.compact w = .ok w := by
  unfold Gen.ismn.compact
  simp only [clean_eq, bind_ok, pure_ok]
  rw [du_compact_upper hw _ (by decide)]

open Spec.Standards (Std_isbn Std_isbn10 Std_isbn13 Std_ismn gs1 canon_isbn canon_ismn) in
open Props.C07 in
/-- `ismn.to_ismn13` on a compact ISMN-10: the result is `'9790' + ismn10[1:]` (the eight item digits and the check
digit are kept), and both `ismn.validate` and `ean.validate` accept it unchanged -/
theorem ismn10_to_ismn13 (x v : Str) (h : Gen.ismn.validate x = .ok v) (hl : v.length = 10) :
    Gen.ismn.to_ismn13 v = .ok ([57, 55, 57, 48] ++ v.drop 1) ∧
      Gen.ismn.validate ([57, 55, 57, 48] ++ v.drop 1) = .ok ([57, 55, 57, 48] ++ v.drop 1) ∧
      Gen.ean.validate ([57, 55, 57, 48] ++ v.drop 1) = .ok ([57, 55, 57, 48] ++ v.drop 1) := by
  obtain ⟨hM, hD, hg⟩ := ismn10_shape h hl
  have hv : v = 77 :: v.drop 1 := by
    conv => lhs; rw [← List.take_append_drop 1 v, hM]
    rfl
  have hDU : AllIn isDU v := by
    rw [hv]
    exact allIn_cons (by decide) (fun c hc => du_of_digit (hD c hc))
  have hA : AllIn isAsciiAlnum v := fun c hc => alnum_of_du (hDU c hc)
  have hwD : AllIn isAsciiDigit ([57, 55, 57, 48] ++ v.drop 1) := allIn_append (by decide) hD
  have hwl : ([57, 55, 57, 48] ++ v.drop 1).length = 13 := by simp [hl]
  refine ⟨?_, ?_, ?_⟩
  · unfold Gen.ismn.to_ismn13
    simp only [pure_ok]
    rw [strip_eq_self_of_asciiAlnum v hA, ismn_compact_du hDU]
    have e13 : ((v.length : Int) == 13) = false := by simp [hl]
    simp only [bind_ok, e13, Bool.false_eq_true, if_false, strIn_single,
      contains_of_allIn_false hA (by decide : isAsciiAlnum 32 = false),
      contains_of_allIn_false hA (by decide : isAsciiAlnum 45 = false),
      slice_nonneg_none v (by decide : (0 : Int) ≤ 1)]
    rfl
  · apply ismn_ok_of_std (fun c hc => du_of_digit (hwD c hc))
    rw [std_ismn_iff]
    exact Or.inr ⟨hwl, all_iff_allIn.mpr hwD, by simp, hg⟩
  · rw [ean_validate_digits hwD (by simp), if_pos (by rw [hwl]; decide), if_pos hg]

/-- `ismn.to_ismn13` leaves a compact ISMN-13 alone -/
theorem ismn13_to_ismn13 (x v : Str) (h : Gen.ismn.validate x = .ok v) (hl : v.length = 13) :
    Gen.ismn.to_ismn13 v = .ok v := by
  obtain ⟨hD, _, _⟩ := ismn13_shape h hl
  have hA : AllIn isAsciiAlnum v := fun c hc => digit_alnum (hD c hc)
  unfold Gen.ismn.to_ismn13
  simp only [pure_ok]
  rw [strip_eq_self_of_asciiAlnum v hA, ismn_compact_du (fun c hc => du_of_digit (hD c hc))]
  simp [hl]

/-! ## Non-vacuity: the docstring numbers -/
section Examples

example : ∃ k, Gen.issn.to_ean (str% "0264-3596") (str% "00") = .ok (str% "977026435900" ++ [k]) ∧
    Gen.ean.validate (str% "977026435900" ++ [k]) = .ok (str% "977026435900" ++ [k]) :=
  issn_to_ean_valid (str% "0264-3596") (str% "02643596") (str% "00") (by decide +kernel) (by decide) rfl
example : Gen.issn.to_ean (str% "0264-3596") (str% "00") = .ok (str% "9770264359008") := by decide +kernel
example : Gen.issn.to_ean (str% "0264-3596") (str% "13") = .ok (str% "9770264359138") := by decide +kernel

example : ∃ k, Gen.ean.calc_check_digit (str% "978185798218") = .ok [k] ∧
    Gen.isbn.to_isbn13 (str% "1857982185") = .ok (str% "978185798218" ++ [k]) ∧
    Gen.isbn.validate (str% "978185798218" ++ [k]) false = .ok (str% "978185798218" ++ [k]) :=
  isbn10_to_isbn13 _ _ ex_isbn10 rfl
example : Gen.isbn.to_isbn13 (str% "1857982185") = .ok (str% "9781857982183") := by decide +kernel
example : ∃ k, Gen.isbn._calc_isbn10_check_digit (str% "047111709") = .ok [k] ∧
    Gen.isbn.to_isbn10 (str% "9780471117094") = .ok (str% "047111709" ++ [k]) ∧
    Gen.isbn.validate (str% "047111709" ++ [k]) false = .ok (str% "047111709" ++ [k]) :=
  isbn13_to_isbn10 _ _ ex_isbn13 rfl rfl
example : Gen.isbn.to_isbn10 (str% "9780471117094") = .ok (str% "0471117099") := by decide +kernel
theorem ex_isbn979 : Gen.isbn.validate (str% "979-10-90636-07-1") false = .ok (str% "9791090636071") := by
  decide +kernel
example : Gen.isbn.to_isbn10 (str% "9791090636071") = .error .invalidComponent :=
  isbn13_979_to_isbn10 _ _ ex_isbn979 rfl rfl
example : ∃ w, Gen.isbn.to_isbn13 (str% "1857982185") = .ok w ∧ Gen.isbn.to_isbn10 w = .ok (str% "1857982185") :=
  isbn10_roundtrip _ _ ex_isbn10 rfl
example : ∃ w, Gen.isbn.to_isbn10 (str% "9780471117094") = .ok w ∧ Gen.isbn.to_isbn13 w = .ok (str% "9780471117094") :=
  isbn13_roundtrip _ _ ex_isbn13 rfl rfl
example : Gen.ismn.to_ismn13 (str% "M230671187") = .ok (str% "9790230671187") :=
  (ismn10_to_ismn13 _ _ ex_ismn10 rfl).1
example : Gen.ismn.to_ismn13 (str% "9790345246805") = .ok (str% "9790345246805") :=
  ismn13_to_ismn13 _ _ ex_ismn13 rfl

end Examples

end Props.C08
