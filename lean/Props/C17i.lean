import Props.C17
import Props.C09
import Props.C08j
import Props.C11data.ConsIban
/-!
# C17 (part i) — IBAN: single typing errors are rejected (on the generated `Gen.iban.validate`)

`iban.validate(number, check_country)` checks, in this order: ISO 7064 Mod 97-10 of `number[4:] + number[:4]`, the
registry line of the country (`Gen.db_iban.db`), the BBAN structure of that line, and (option on) the national module.
The checksum is computed **before** the registry is consulted, over all characters (country code and check digits
included), so every same-class substitution — also one in the country code, which selects another registry line or
another national module, and one in the check digits — is already rejected by the checksum; no registry fact is needed.

* `iban_single_error` — **all positions, both values of `check_country`**: replacing `v[i]` by another character of the
  same kind (ASCII digit by ASCII digit, ASCII upper-case letter by ASCII upper-case letter) is rejected.
* `iban_adjacent_swap` — **all positions, both option values**: exchanging two adjacent different digits is rejected.
  Positions 3/4 (second check digit and first BBAN character) are the first and the last character of the rearranged
  number; there the proof needs `10^(W+1) ≢ 1 (mod 97)` for the `W` decimal digits in between, true because `W ≤ 94`:
  every pattern the structure compiler can return has at most 30 positions (`struct_table_len`, a kernel check over
  `Gen.iban._struct_to_re_table`), so an accepted IBAN has at most 35 characters.

No `_partial` version is needed: both full statements hold of the generated code.

Helper theorems of general use: `iban_cf_inv` (what the generic part of `iban.validate` establishes, for an arbitrary
registry), `iban_ok`, `iban_reject`, `struct_to_re_spec` (every pattern `_struct_to_re` returns is `structPattern` of
the parsed tokens of its argument), `m9710_ends_swap94`.
-/
namespace Props.C17
open Py Spec.Checksum Lemmas.Refine Lemmas.Fold Props.C06 Props.C06Gen
open Props.C09 (ibanCompact ibanTail iban_validate_eq bind_ok' bind_error' pure_ok' raise_error')
open Props.C08 (cfBody cf_eq)
open Props.C11 (parseStruct structPattern Shape structPattern_match_iff)

set_option maxRecDepth 100000
set_option linter.unusedVariables false

/-! ## the structure compiler's table -/

/-- a row of the tabulated `_struct_to_re`: the key parses into `n/a/c` tokens, the pattern is the fixed-width
pattern of these tokens, and there are at most 30 positions -/
def tableRowOk (kv : Str × Re.Pattern) : Bool :=
  match parseStruct kv.1 with
  | some toks => kv.2 == structPattern toks && decide ((toks.map (·.1)).sum ≤ 30)
  | none => false

theorem struct_table_ok : ∀ kv ∈ Gen.iban._struct_to_re_table, tableRowOk kv = true := by decide +kernel

/-- **every pattern `_struct_to_re` returns** is the fixed-width pattern of the tokens of its argument (at most 30
positions) -/
theorem struct_to_re_spec {s : Str} {re : Re.Pattern} (h : Gen.iban._struct_to_re s = .ok re) :
    ∃ toks, parseStruct s = some toks ∧ re = structPattern toks ∧ (toks.map (·.1)).sum ≤ 30 := by
  unfold Gen.iban._struct_to_re at h
  cases hd : Py.dictGet? Gen.iban._struct_to_re_table s with
  | none => rw [hd] at h; cases h
  | some p =>
    rw [hd] at h
    have hp : p = re := by
      simp only [pure_ok] at h
      cases h; rfl
    subst hp
    have hmem := dictGet?_mem _ _ _ hd
    have hrow := struct_table_ok _ hmem
    unfold tableRowOk at hrow
    simp only at hrow
    cases hps : parseStruct s with
    | none => rw [hps] at hrow; cases hrow
    | some toks =>
      rw [hps] at hrow
      simp only [Bool.and_eq_true, beq_iff_eq, decide_eq_true_eq] at hrow
      exact ⟨toks, rfl, hrow.1, hrow.2⟩

/-! ## what the generic part of `iban.validate` establishes (any registry) -/

theorem iban_cf_inv (db : List Spec.NumDB.Entry) (x v : Str) (h : cfBody db x = .ok v) :
    v = ibanCompact x ∧ Gen.iso7064_mod_97_10.validate (rot4 v) = .ok (rot4 v) ∧
    ∃ p re, getItemL (Spec.NumDB.info db v) 0 = .ok p ∧ p.2.isEmpty = false ∧
      Gen.iban._struct_to_re (dictGetD p.2 [98, 98, 97, 110] []) = .ok re ∧
      (Re.match_ re (slice v (some 4) none)).isSome = true := by
  unfold cfBody at h
  simp only [Props.C09.iban_compact_eq] at h
  simp only [bind_ok', rot4_eq] at h
  generalize ibanCompact x = n at h
  cases hm : Gen.iso7064_mod_97_10.validate (rot4 n) with
  | error e => rw [hm] at h; simp only [bind_error'] at h; cases h
  | ok r =>
    rw [hm] at h
    simp only [bind_ok'] at h
    have hr := (gen_mod_97_10_validate_ok hm).1
    subst hr
    cases hg : getItemL (Spec.NumDB.info db n) 0 with
    | error e => rw [hg] at h; simp only [bind_error'] at h; cases h
    | ok p =>
      rw [hg] at h
      simp only [bind_ok', raise_error', bind_error'] at h
      split at h
      · cases h
      · rename_i hne
        cases hs : Gen.iban._struct_to_re (dictGetD p.snd [98, 98, 97, 110] []) with
        | error e => rw [hs] at h; simp only [bind_error'] at h; cases h
        | ok re =>
          rw [hs] at h
          simp only [bind_ok'] at h
          split at h
          · cases h
          · rename_i hmt
            simp only [pure_ok'] at h
            cases h
            refine ⟨rfl, hm, p, re, hg, ?_, hs, ?_⟩
            · simpa using hne
            · cases hq : (Re.match_ re (slice v (some 4) none)).isSome with
              | true => rfl
              | false => rw [hq] at hmt; simp at hmt

theorem ibanTail_ok {b : Bool} {w v : Str} (h : ibanTail b w = .ok v) : v = w := by
  unfold ibanTail at h
  split at h
  · split at h
    · cases h; rfl
    · obtain ⟨_, _, h2⟩ := (Props.C09.bind_eq_ok_iff _ _ _).mp h
      cases h2; rfl
  · cases h; rfl

/-- an accepted number (either value of `check_country`) passed the generic part -/
theorem iban_validate_cf {x v : Str} {cc : Bool} (h : Gen.iban.validate x cc = .ok v) :
    Gen.iban.validate__check_country_False x = .ok v := by
  rw [iban_validate_eq] at h
  obtain ⟨w, hw, ht⟩ := (Props.C09.bind_eq_ok_iff _ _ _).mp h
  rw [ibanTail_ok ht]
  exact hw

theorem rot4_short (v : Str) (h : v.length ≤ 4) : rot4 v = v := by
  unfold rot4
  rw [List.drop_of_length_le h, List.take_of_length_le h]
  rfl

/-- what an accepted IBAN looks like: digits and upper-case letters, at most 35 characters, `number[4:] + number[:4]`
passes ISO 7064 Mod 97-10 -/
theorem iban_ok {x v : Str} {cc : Bool} (h : Gen.iban.validate x cc = .ok v) :
    AllIn isDU v ∧ v.length ≤ 35 ∧ isOk (Gen.iso7064_mod_97_10.validate (rot4 v)) = true := by
  have hcf := iban_validate_cf h
  rw [cf_eq] at hcf
  obtain ⟨hv, hm, p, re, _, _, hs, hmt⟩ := iban_cf_inv _ x v hcf
  obtain ⟨_, hal⟩ := gen_mod_97_10_validate_ok hm
  refine ⟨?_, ?_, isOk_true_of_ok hm⟩
  · intro c hc
    refine du_of_alnum_not_lower (hal c (mem_rot4.mpr hc)) ?_
    rw [hv] at hc
    exact upper_no_asciiLower _ c hc
  · obtain ⟨toks, _, hre, hsum⟩ := struct_to_re_spec hs
    rw [hre, structPattern_match_iff, slice_nonneg_none v (by decide)] at hmt
    have hl := hmt.2
    simp only [List.length_drop] at hl
    have : (4 : Int).toNat = 4 := rfl
    rw [this] at hl
    omega

/-- a string of digits and upper-case letters whose rearrangement fails the checksum is rejected (both option
values; the registry is not consulted) -/
theorem iban_reject {w : Str} (cc : Bool) (hw : AllIn isDU w)
    (hl : isOk (Gen.iso7064_mod_97_10.validate (rot4 w)) = false) :
    isOk (Gen.iban.validate w cc) = false := by
  rw [iban_validate_eq]
  have hc : ibanCompact w = w := du_compact_upper hw _ (by decide)
  have : ∃ e, Gen.iban.validate__check_country_False w = .error e := by
    unfold Gen.iban.validate__check_country_False
    generalize Gen.db_iban.db = db
    simp only [Props.C09.iban_compact_eq]
    simp only [bind_ok', rot4_eq, hc]
    cases hv : Gen.iso7064_mod_97_10.validate (rot4 w) with
    | ok r => rw [hv] at hl; cases hl
    | error e => exact ⟨e, by simp only [bind_error']⟩
  obtain ⟨e, he⟩ := this
  rw [he]
  rfl

/-! ## single substitution -/

/-- **IBAN: every substitution of one character by another of the same kind is rejected** — every position (country
code, check digits, BBAN), both values of `check_country` -/
theorem iban_single_error (x v : Str) (cc cc' : Bool) (h : Gen.iban.validate x cc = .ok v)
    (i c : Nat) (hi : i < v.length) (hk : SameKind v[i] c) (hne : c ≠ v[i]) :
    isOk (Gen.iban.validate (v.set i c) cc') = false := by
  obtain ⟨hD, _, hV⟩ := iban_ok h
  obtain ⟨hc, hkind, hval⟩ := sameKind_b36 hk hne
  apply iban_reject cc' (allIn_set hD i c hc)
  by_cases hlen : 4 ≤ v.length
  · have hj : rotIdx v.length i < (rot4 v).length := by
      rw [rot4_length]; unfold rotIdx; split <;> omega
    have hget : (rot4 v)[rotIdx v.length i] = v[i] := by
      have := rot4_getD v i hi hlen
      rw [List.getD_eq_getElem?_getD, List.getD_eq_getElem?_getD, List.getElem?_eq_getElem hj,
        List.getElem?_eq_getElem hi] at this
      exact this
    rw [rot4_set v i c hi hlen,
      gen_mod_97_10_set_detected (rot4 v) _ c hj (fun x hx => alnum_of_du (hD x (mem_rot4.mp hx)))
        (alnum_of_du hc) (by rw [hget]; exact hkind) (by rw [hget]; exact hval) hV]
    rfl
  · rw [rot4_short v (by omega)] at hV
    rw [rot4_short _ (by rw [List.length_set]; omega),
      gen_mod_97_10_set_detected v i c hi (fun x hx => alnum_of_du (hD x hx)) (alnum_of_du hc) hkind hval hV]
    rfl

/-! ## adjacent transposition -/

theorem pow10_mod97_ne94 : ∀ W ≤ 94, 10 ^ W % 97 ≠ 68 := by decide +kernel

/-- `m9710_ends_swap` for up to 94 inner decimal digits (10 has multiplicative order 96 modulo 97, so
`10^(W+1) ≡ 1` first happens at `W = 95`) -/
theorem m9710_ends_swap94 (a b : Nat) (m : List Nat) (ha : a < 10) (hb : b < 10) (hab : a ≠ b)
    (hm : Mod9710.width m ≤ 94) (h1 : Mod9710.vchecksum (a :: m ++ [b]) = 1) :
    Mod9710.vchecksum (b :: m ++ [a]) ≠ 1 := by
  intro h2
  unfold Mod9710.vchecksum at h1 h2
  simp only [List.cons_append, List.foldl_cons, List.foldl_append, List.foldl_nil] at h1 h2
  have e : ∀ x, x < 10 → Mod9710.vstep 0 x = x := by
    intro x hx; unfold Mod9710.vstep; rw [if_pos hx]; omega
  rw [e a ha, m9710_fold_shift m a (by omega)] at h1
  rw [e b hb, m9710_fold_shift m b (by omega)] at h2
  have hM := m9710_fold_lt m 0 (by decide)
  generalize List.foldl Mod9710.vstep 0 m = M at h1 h2 hM
  have hq : 10 ^ Mod9710.width m % 97 < 97 := Nat.mod_lt _ (by decide)
  have r1 : ∀ x, (x * 10 ^ Mod9710.width m + M) % 97 = (x * (10 ^ Mod9710.width m % 97) + M) % 97 := by
    intro x
    rw [Nat.add_mod, Nat.mul_mod, Nat.add_mod (x * (10 ^ Mod9710.width m % 97)), Nat.mul_mod x (_ % 97),
      Nat.mod_mod]
  rw [r1] at h1 h2
  have hne := pow10_mod97_ne94 _ hm
  generalize 10 ^ Mod9710.width m % 97 = q at h1 h2 hq hne
  unfold Mod9710.vstep at h1 h2
  rw [if_pos hb] at h1
  rw [if_pos ha] at h2
  exact hne (ends_swap_arith a b q M ha hb hab hq h1 h2)

/-- adjacent positions that stay adjacent in `number[4:] + number[:4]` (all but 3/4) -/
theorem iban_adjacent_swap_ne3 (x v : Str) (cc cc' : Bool) (h : Gen.iban.validate x cc = .ok v)
    (i : Nat) (hi : i + 1 < v.length) (h3 : i ≠ 3)
    (ha : isAsciiDigit v[i] = true) (hb : isAsciiDigit v[i + 1] = true) (hne : v[i] ≠ v[i + 1]) :
    isOk (Gen.iban.validate (swapAdj v i) cc') = false := by
  obtain ⟨hD, _, hV⟩ := iban_ok h
  apply iban_reject cc' (allIn_swapAdj hD i hi)
  by_cases hlen : 4 ≤ v.length
  · have hj : rotIdx v.length i + 1 < (rot4 v).length := by
      rw [rot4_length]; unfold rotIdx; split <;> omega
    have hget : ∀ k (hk : k < v.length) (hk' : rotIdx v.length k < (rot4 v).length),
        (rot4 v)[rotIdx v.length k] = v[k] := by
      intro k hk hk'
      have := rot4_getD v k hk hlen
      rw [List.getD_eq_getElem?_getD, List.getD_eq_getElem?_getD, List.getElem?_eq_getElem hk',
        List.getElem?_eq_getElem hk] at this
      exact this
    have hs : rotIdx v.length (i + 1) = rotIdx v.length i + 1 := by
      unfold rotIdx
      by_cases h4 : i < 3
      · rw [if_pos (by omega), if_pos (by omega)]; omega
      · rw [if_neg (by omega), if_neg (by omega)]; omega
    have hg0 := hget i (by omega) (by omega)
    have hg1 := hget (i + 1) hi (by rw [hs]; exact hj)
    simp only [hs] at hg1
    rw [rot4_swapAdj v i hi hlen h3,
      gen_mod_97_10_swapAdj_detected (rot4 v) _ hj (fun x hx => alnum_of_du (hD x (mem_rot4.mp hx)))
        (by rw [hg0]; exact ha) (by rw [hg1]; exact hb) (by rw [hg0, hg1]; exact hne) hV]
    rfl
  · rw [rot4_short v (by omega)] at hV
    rw [rot4_short _ (by rw [swapAdj_length]; omega),
      gen_mod_97_10_swapAdj_detected v i hi (fun x hx => alnum_of_du (hD x hx)) ha hb hne hV]
    rfl

theorem iban_swap34' (x t d : Str) (a b : Nat) (cc cc' : Bool) (ht : t.length = 3)
    (h : Gen.iban.validate x cc = .ok (t ++ a :: b :: d))
    (ha : isAsciiDigit a = true) (hb : isAsciiDigit b = true) (hne : a ≠ b) :
    isOk (Gen.iban.validate (t ++ b :: a :: d) cc') = false := by
  obtain ⟨hD, h35, hV⟩ := iban_ok h
  have hDt : AllIn isDU t := fun c hc => hD c (by simp [hc])
  have hDd : AllIn isDU d := fun c hc => hD c (by simp [hc])
  have hDw : AllIn isDU (t ++ b :: a :: d) :=
    allIn_append hDt (allIn_cons (du_of_digit hb) (allIn_cons (du_of_digit ha) hDd))
  apply iban_reject cc' hDw
  have hDm : AllIn isAsciiAlnum (d ++ t) :=
    allIn_append (fun c hc => alnum_of_du (hDd c hc)) (fun c hc => alnum_of_du (hDt c hc))
  have hm : (d ++ t).length ≤ 33 := by
    simp only [List.length_append, List.length_cons] at h35 ⊢; omega
  rw [rot4_split t d a b ht] at hV
  rw [rot4_split t d b a ht]
  generalize d ++ t = m at hDm hm hV ⊢
  have hA1 : AllIn isAsciiAlnum (b :: m ++ [a]) :=
    allIn_append (allIn_cons (digit_alnum hb) hDm) (allIn_cons (digit_alnum ha) (fun _ h => by simp at h))
  have hA2 : AllIn isAsciiAlnum (a :: m ++ [b]) :=
    allIn_append (allIn_cons (digit_alnum ha) hDm) (allIn_cons (digit_alnum hb) (fun _ h => by simp at h))
  rw [mod_97_10_validate_eq] at hV ⊢
  have h1 := ((m9710_valid_iff pyB36 pyB36_extends defaultMaxDigits _ hA1).mp hV).2.2
  cases hok : isOk (Mod9710.validate pyB36 defaultMaxDigits (a :: m ++ [b])) with
  | false => rfl
  | true =>
    exfalso
    have h2 := ((m9710_valid_iff pyB36 pyB36_extends defaultMaxDigits _ hA2).mp hok).2.2
    obtain ⟨ea, hla⟩ := b36Val_of_digit ha
    obtain ⟨eb, hlb⟩ := b36Val_of_digit hb
    simp only [List.map_append, List.map_cons, List.map_nil, List.cons_append] at h1 h2
    have hba := digit_bounds ha
    have hbb := digit_bounds hb
    refine m9710_ends_swap94 (b36Val b) (b36Val a) (m.map b36Val) (by omega) (by omega) (by omega) ?_ h1 h2
    have := width_le (m.map b36Val)
    rw [List.length_map] at this
    omega

/-- the transposition of the second check digit and the first BBAN character (positions 3 and 4): in
`number[4:] + number[:4]` the two characters are the first and the last one -/
theorem iban_swap34 (x v : Str) (cc cc' : Bool) (h : Gen.iban.validate x cc = .ok v) (h5 : 4 < v.length)
    (ha : isAsciiDigit v[3] = true) (hb : isAsciiDigit v[4] = true) (hne : v[3] ≠ v[4]) :
    isOk (Gen.iban.validate (swapAdj v 3) cc') = false := by
  have hv : v = v.take 3 ++ v[3] :: v[4] :: v.drop 5 := split_at₂ v 3 h5
  have hl3 : (v.take 3).length = 3 := by simp; omega
  rw [swapAdj_eq v 3 h5]
  exact iban_swap34' x _ _ _ _ cc cc' hl3 (by rw [← hv]; exact h) ha hb hne

/-- **IBAN: every transposition of two adjacent different digits is rejected** — every position (check digits,
the boundary between check digits and BBAN included), both values of `check_country` -/
theorem iban_adjacent_swap (x v : Str) (cc cc' : Bool) (h : Gen.iban.validate x cc = .ok v)
    (i : Nat) (hi : i + 1 < v.length)
    (ha : isAsciiDigit v[i] = true) (hb : isAsciiDigit v[i + 1] = true) (hne : v[i] ≠ v[i + 1]) :
    isOk (Gen.iban.validate (swapAdj v i) cc') = false := by
  by_cases h3 : i = 3
  · subst h3
    exact iban_swap34 x v cc cc' h hi ha hb hne
  · exact iban_adjacent_swap_ne3 x v cc cc' h i hi h3 ha hb hne

/-! ## non-vacuity: valid numbers evaluated on the generated function (registry rewritten to the kernel-checked tree),
and the theorems instantiated on them -/

theorem ex_iban_gb : Gen.iban.validate (str% "GB82 WEST 1234 5698 7654 32") true = .ok (str% "GB82WEST12345698765432") := by
  rw [Props.C08.v_eq, Props.C11.Data.iban.db_eq]; decide +kernel

theorem ex_iban_de : Gen.iban.validate (str% "DE89 3704 0044 0532 0130 00") false = .ok (str% "DE89370400440532013000") := by
  rw [Props.C08.v_eq, Props.C11.Data.iban.db_eq]; decide +kernel

-- a letter of the country code (`GB` → `GR`), a check digit, a BBAN letter
example : isOk (Gen.iban.validate (str% "GR82WEST12345698765432") true) = false :=
  iban_single_error _ _ true true ex_iban_gb 1 82 (by decide) (Or.inr (by decide)) (by decide)
example : isOk (Gen.iban.validate (str% "GB82WEST12345698765432") false) = true := by
  rw [Props.C08.v_eq, Props.C11.Data.iban.db_eq]; decide +kernel
example : isOk (Gen.iban.validate (str% "DE80370400440532013000") true) = false :=
  iban_single_error _ _ false true ex_iban_de 3 48 (by decide) (Or.inl (by decide)) (by decide)
-- positions 3/4 of `DE89 3704…` (`9`, `3`)
example : isOk (Gen.iban.validate (str% "DE83970400440532013000") true) = false :=
  iban_adjacent_swap _ _ false true ex_iban_de 3 (by decide) (by decide) (by decide) (by decide)

#print axioms Props.C17.struct_to_re_spec
#print axioms Props.C17.iban_cf_inv
#print axioms Props.C17.iban_ok
#print axioms Props.C17.iban_reject
#print axioms Props.C17.iban_single_error
#print axioms Props.C17.m9710_ends_swap94
#print axioms Props.C17.iban_adjacent_swap
#print axioms Props.C17.ex_iban_gb
#print axioms Props.C17.ex_iban_de

end Props.C17
