import Props.C07c
import Lemmas.RegexC07
/-!
# C07 (part d) — CAS RN, BIC, ISRC (the formats whose gate is a regular expression)
-/
namespace Props.C07
open Py Spec.Checksum Lemmas.Refine Lemmas.Fold Props.C06 Props.C06Gen Props Spec.Standards

/-! ## CAS Registry Number -/

def wtCAS (i : Nat) : Int := (i : Int) + 1

theorem casrn_calc_eq (a : Str) (b1 b2 : Nat) (ha : AllIn isAsciiDigit a) (h1 : isAsciiDigit b1 = true)
    (h2 : isAsciiDigit b2 = true) :
    Gen.casrn.calc_check_digit (a ++ [45, b1, b2, 45]) =
      .ok (Py.strOfInt (C17.wsum wtCAS 0 (([b2, b1] ++ a.reverse).map (· - 48)) % 10)) := by
  unfold Gen.casrn.calc_check_digit
  have hq : Py.replace (a ++ [45, b1, b2, 45]) [45] [] = a ++ [b1, b2] := by
    rw [replace_single_nil, List.filter_append]
    have hb1 := digit_bounds h1
    have hb2 := digit_bounds h2
    have : a.filter (fun c => c != 45) = a := by
      apply List.filter_eq_self.mpr
      intro c hc
      have := digit_bounds (ha c hc)
      simp only [bne_iff_ne, ne_eq]; omega
    rw [this]
    have e1 : (b1 != 45) = true := by simp only [bne_iff_ne, ne_eq]; omega
    have e2 : (b2 != 45) = true := by simp only [bne_iff_ne, ne_eq]; omega
    simp [e1, e2]
  dsimp only
  rw [hq, ← chars_reverse]
  have hrev : (a ++ [b1, b2]).reverse = [b2, b1] ++ a.reverse := by simp
  rw [hrev]
  have hD : AllIn isAsciiDigit ([b2, b1] ++ a.reverse) := by
    intro c hc
    rcases List.mem_append.mp hc with h | h
    · have : c = b2 ∨ c = b1 := by simpa using h
      rcases this with rfl | rfl <;> assumption
    · exact ha c (List.mem_reverse.mp h)
  apply enum_wsum (fun s => Py.strOfInt (s % 10)) _ wtCAS _ hD
  intro i c hc
  simp only [intOf_singleton_digit c hc, bind_ok, pure_ok]
  have hb := digit_bounds hc
  have hcv : (c : Int) - 48 = ((c - 48 : Nat) : Int) := by omega
  rw [hcv]
  rfl

theorem cas_wsum (l : List Nat) :
    ((Spec.Standards.wsum (fun i => i) 1 l : Nat) : Int) = C17.wsum wtCAS 0 l := by
  rw [wsum_cast _ (fun i => (i : Int)) l 1 (fun i _ _ => rfl)]
  exact C17.wsum_shift wtCAS _ (fun i => by unfold wtCAS; omega) l 0

/-- the shape of a CAS RN as the standard writes it -/
def CasShape (t : Str) : Prop :=
  ∃ a b1 b2 c, t = a ++ [45, b1, b2, 45, c] ∧ 2 ≤ a.length ∧ a.length ≤ 7 ∧ AllIn isAsciiDigit a ∧
    a.head? ≠ some 48 ∧ isAsciiDigit b1 = true ∧ isAsciiDigit b2 = true ∧ isAsciiDigit c = true

theorem std_casrn_iff (t : Str) : Std_casrn t = true ↔
    ∃ a b1 b2 c, t = a ++ [45, b1, b2, 45, c] ∧ 2 ≤ a.length ∧ a.length ≤ 7 ∧ AllIn isAsciiDigit a ∧
      a.head? ≠ some 48 ∧ isAsciiDigit b1 = true ∧ isAsciiDigit b2 = true ∧ isAsciiDigit c = true ∧
      Spec.Standards.wsum (fun i => i) 1 (([b2, b1] ++ a.reverse).map dv) % 10 = dv c := by
  constructor
  · intro h
    unfold Std_casrn at h
    simp only [Bool.and_eq_true, decide_eq_true_eq, isD_eq, all_iff_allIn] at h
    obtain ⟨⟨⟨⟨h1, h2⟩, h3⟩, h4⟩, h5⟩ := h
    have hsplit : t = t.take (t.length - 5) ++ t.drop (t.length - 5) := (List.take_append_drop _ _).symm
    generalize t.take (t.length - 5) = a at *
    generalize t.drop (t.length - 5) = d at *
    match d, h5 with
    | [x1, b1, b2, x2, c], h5 =>
      simp only [Bool.and_eq_true, beq_iff_eq] at h5
      obtain ⟨⟨⟨⟨⟨e1, e2⟩, k1⟩, k2⟩, k3⟩, k4⟩ := h5
      subst e1 e2
      refine ⟨a, b1, b2, c, hsplit, h1, h2, h3, ?_, k1, k2, k3, k4⟩
      simpa using h4
  · rintro ⟨a, b1, b2, c, rfl, h1, h2, h3, h4, k1, k2, k3, k4⟩
    unfold Std_casrn
    have hl : (a ++ [45, b1, b2, 45, c]).length - 5 = a.length := by simp
    have ht : (a ++ [45, b1, b2, 45, c]).take a.length = a := by simp
    have hd : (a ++ [45, b1, b2, 45, c]).drop a.length = [45, b1, b2, 45, c] := by simp
    simp only [hl, ht, hd, Bool.and_eq_true, decide_eq_true_eq, isD_eq, all_iff_allIn, beq_iff_eq]
    exact ⟨⟨⟨⟨h1, h2⟩, h3⟩, by simpa using h4⟩, ⟨⟨⟨⟨trivial, trivial⟩, k1⟩, k2⟩, k3⟩, k4⟩


/-- the compact form of a CAS RN never ends in a newline (so `$` in the pattern is the end of the string) -/
theorem canon_casrn_last (x : Str) : (canon_casrn x).getLast? ≠ some 10 := by
  unfold canon_casrn Gen.casrn.compact
  simp only [clean_eq, bind_ok, pure_ok]
  have hs : ∀ (s : Str), (strip s).getLast? ≠ some 10 := by
    intro s h
    have := strip_getLast?_not_space s 10 h
    revert this; decide
  split
  · rename_i hin
    simp only [canonOf]
    rw [Py.join_cons_cons, Py.join_cons_cons, Py.join_singleton]
    intro h
    rw [List.getLast?_append, List.getLast?_append] at h
    rw [slice_neg_none _ (by decide : (0 : Int) < 1)] at h
    cases hl : ((strip (cleanP x [32])).drop ((strip (cleanP x [32])).length - (1 : Int).toNat)).getLast? with
    | none => rw [hl] at h; simp at h
    | some l =>
      rw [hl] at h
      have : l = 10 := by simpa using h
      subst this
      have hmem := List.mem_of_getLast? hl
      rw [List.getLast?_drop] at hl
      split at hl
      · cases hl
      · exact hs _ hl
  · exact hs _

theorem casrn_agrees_with_standard (x : Str) :
    (Gen.casrn.validate x).toOption =
      if Std_casrn (canon_casrn x) = true then some (canon_casrn x) else none := by
  have hlast := canon_casrn_last x
  unfold Gen.casrn.validate
  have hc : Gen.casrn.compact x = .ok (canon_casrn x) := by
    unfold canon_casrn
    cases h : Gen.casrn.compact x with
    | ok v => rfl
    | error e =>
      exfalso
      unfold Gen.casrn.compact at h
      simp only [clean_eq, bind_ok, pure_ok] at h
      split at h <;> cases h
  simp only [hc, bind_ok, pure_ok, C17.slice_none_neg_one]
  generalize canon_casrn x = n at hlast ⊢
  have hre := Py.Re.C07.cas_re_iff n hlast
  by_cases hshape : CasShape n
  · obtain ⟨a, b1, b2, c, rfl, h1, h2, h3, h4, k1, k2, k3⟩ := hshape
    have hlen : (decide ((7 : Int) ≤ ((a ++ [45, b1, b2, 45, c]).length : Int)) &&
        decide (((a ++ [45, b1, b2, 45, c]).length : Int) ≤ 12)) = true := by
      simp only [List.length_append, List.length_cons, List.length_nil, Bool.and_eq_true, decide_eq_true_eq]
      omega
    have hm : (Re.match_ Gen.casrn._cas_re (a ++ [45, b1, b2, 45, c])).isSome = true :=
      hre.mpr ⟨a, b1, b2, c, rfl, h1, h2, h3, h4, k1, k2, k3⟩
    have hne : a ++ [45, b1, b2, 45, c] ≠ [] := by simp
    have hdl : (a ++ [45, b1, b2, 45, c]).dropLast = a ++ [45, b1, b2, 45] := by
      have : a ++ [45, b1, b2, 45, c] = (a ++ [45, b1, b2, 45]) ++ [c] := by simp
      rw [this, List.dropLast_concat]
    have hgl : (a ++ [45, b1, b2, 45, c]).getLast hne = c := by simp
    simp only [hlen, hm, Bool.not_true, Bool.false_eq_true, if_false, getItem_neg_one _ hne, hgl, hdl,
      casrn_calc_eq a b1 b2 h3 k1 k2, bind_ok]
    have hS := cas_wsum (([b2, b1] ++ a.reverse).map dv)
    have hdv : ([b2, b1] ++ a.reverse).map dv = ([b2, b1] ++ a.reverse).map (· - 48) := rfl
    rw [hdv] at hS
    have hstd : Std_casrn (a ++ [45, b1, b2, 45, c]) = true ↔
        Spec.Standards.wsum (fun i => i) 1 (([b2, b1] ++ a.reverse).map (· - 48)) % 10 = c - 48 := by
      rw [std_casrn_iff]
      constructor
      · rintro ⟨a', b1', b2', c', he, _, _, _, _, _, _, _, h9⟩
        have hl : a.length = a'.length := by
          have := congrArg List.length he
          simp only [List.length_append, List.length_cons, List.length_nil] at this
          omega
        obtain ⟨rfl, h'⟩ := List.append_inj he hl
        simp only [List.cons.injEq, and_true] at h'
        obtain ⟨_, rfl, rfl, _, rfl⟩ := h'
        exact h9
      · intro h9
        exact ⟨a, b1, b2, c, rfl, h1, h2, h3, h4, k1, k2, k3, h9⟩
    generalize C17.wsum wtCAS 0 (([b2, b1] ++ a.reverse).map (· - 48)) = S at hS ⊢
    generalize Spec.Standards.wsum (fun i => i) 1 (([b2, b1] ++ a.reverse).map (· - 48)) = T at hS hstd
    have h0 : 0 ≤ S % 10 := Int.emod_nonneg _ (by decide)
    have h9 : S % 10 ≤ 9 := by omega
    have hb := digit_bounds k3
    rw [strOfInt_digit _ ⟨h0, h9⟩]
    by_cases heq : T % 10 = c - 48
    · rw [hstd.mpr heq]
      have : 48 + (S % 10).toNat = c := by omega
      rw [this]
      simp [Except.toOption]
    · rw [(bool_false_of (fun h => heq (hstd.mp h)) : Std_casrn (a ++ [45, b1, b2, 45, c]) = false)]
      have : c ≠ 48 + (S % 10).toNat := by omega
      have : (([c] : Str) != [48 + (S % 10).toNat]) = true := by simpa using this
      rw [if_pos this]
      rfl
  · have hstd : Std_casrn n = false := by
      apply bool_false_of
      intro h
      obtain ⟨a, b1, b2, c, he, h1, h2, h3, h4, k1, k2, k3, _⟩ := (std_casrn_iff n).mp h
      exact hshape ⟨a, b1, b2, c, he, h1, h2, h3, h4, k1, k2, k3⟩
    have hm : (Re.match_ Gen.casrn._cas_re n).isSome = false := by
      apply bool_false_of
      intro h
      exact hshape (hre.mp h)
    rw [hstd]
    simp only [hm, Bool.not_false, if_true]
    split <;> rfl


/-! ## BIC

The real code does not look the country code (characters 5-6) up in ISO 3166. -/

theorem canon_bic_eq (x : Str) : canon_bic x = upper (strip (cleanP x [32, 45])) := by
  unfold canon_bic Gen.bic.compact
  simp only [clean_eq, bind_ok, pure_ok]
  rfl

theorem compact_last (x d : Str) (h32 : 32 ∈ d) (h45 : 45 ∈ d) :
    (upper (strip (cleanP x d))).getLast? ≠ some 10 := by
  intro h
  have := (tame_of_compact x d h32 h45).2.2 10 h
  revert this; decide

/-- BIC: the full equivalence with the SHAPE the standard prescribes (8 or 11 characters, six letters, then
alphanumerics) -/
theorem bic_agrees_with_shape (x : Str) :
    (Gen.bic.validate x).toOption =
      if Std_bic_shape (canon_bic x) = true then some (canon_bic x) else none := by
  rw [canon_bic_eq]
  unfold Gen.bic.validate Gen.bic.compact
  simp only [clean_eq, bind_ok, pure_ok]
  have hlast := compact_last x [32, 45] (by decide) (by decide)
  generalize upper (strip (cleanP x [32, 45])) = n at hlast ⊢
  have hre := Py.Re.C07.bic_re_iff' n hlast
  have hshape : Std_bic_shape n = true ↔ (n.length = 8 ∨ n.length = 11) ∧ AllIn isAsciiUpper (n.take 6) ∧
      AllIn (fun c => isAsciiDigit c || isAsciiUpper c) (n.drop 6) := by
    unfold Std_bic_shape
    simp only [Bool.and_eq_true, Bool.or_eq_true, beq_iff_eq, isU_eq, all_iff_allIn]
    constructor
    · rintro ⟨⟨h1, h2⟩, h3⟩
      exact ⟨h1, h2, fun c hc => h3 c (List.mem_of_mem_drop hc)⟩
    · rintro ⟨h1, h2, h3⟩
      refine ⟨⟨h1, h2⟩, ?_⟩
      intro c hc
      rw [← List.take_append_drop 6 n] at hc
      rcases List.mem_append.mp hc with h | h
      · have := h2 c h
        simp only [Spec.Standards.isDU, Spec.Standards.isU, Spec.Standards.isD, isAsciiUpper] at this ⊢
        rw [this]; simp
      · exact h3 c h
  by_cases hl : n.length = 8 ∨ n.length = 11
  · have e1 : ([(8 : Int), 11].contains (n.length : Int)) = true := by
      simp only [List.contains_cons, List.contains_nil, Bool.or_false, Bool.or_eq_true, beq_iff_eq]; omega
    simp only [e1, Bool.not_true, Bool.false_eq_true, if_false]
    cases hm : (Re.search Gen.bic._bic_re n).isSome with
    | true =>
      rw [(hshape.mpr (hre.mp hm) : Std_bic_shape n = true)]
      rfl
    | false =>
      have : Std_bic_shape n = false :=
        bool_false_of (fun h => by rw [hre.mpr (hshape.mp h)] at hm; cases hm)
      rw [this]
      rfl
  · have e1 : ([(8 : Int), 11].contains (n.length : Int)) = false := by
      simp only [List.contains_cons, List.contains_nil, Bool.or_false, Bool.or_eq_false_iff,
        beq_eq_false_iff_ne, ne_eq]; omega
    have : Std_bic_shape n = false := bool_false_of (fun h => hl (hshape.mp h).1)
    rw [this]
    simp only [e1, Bool.not_false, if_true]
    rfl

/- BIC, the full statement
     ∀ x, (Gen.bic.validate x).toOption = if Std_bic (canon_bic x) then some (canon_bic x) else none
   is FALSE on the current tree (`XE` is not an ISO 3166 country code): -/
open Props.C17 in
theorem bic_disagrees :
    ¬ ∀ x, (Gen.bic.validate x).toOption =
      if Std_bic (canon_bic x) = true then some (canon_bic x) else none := by
  intro h
  have := h (str% "ABNAxE2A")
  rw [bic_agrees_with_shape] at this
  revert this
  decide +kernel

open Props.C17 in
theorem bic_witness : Gen.bic.validate (str% "ABNAxE2A") = .ok (str% "ABNAXE2A") ∧
    Std_bic (str% "ABNAXE2A") = false := by decide +kernel

/-- BIC: agreement with ISO 9362 for every input whose characters 5-6 (after clean-up) are an ISO 3166 code -/
theorem bic_agrees_with_standard_partial (x : Str)
    (hcc : iso3166.contains (((canon_bic x).drop 4).take 2) = true) :
    (Gen.bic.validate x).toOption =
      if Std_bic (canon_bic x) = true then some (canon_bic x) else none := by
  rw [bic_agrees_with_shape]
  have : Std_bic (canon_bic x) = Std_bic_shape (canon_bic x) := by
    unfold Std_bic
    rw [hcc, Bool.and_true]
  rw [this]

/-! ## ISRC -/

theorem cls_upper_digit (c : Nat) :
    Re.classMatch {} false [.range 65 90, .range 48 57] c = (isAsciiUpper c || isAsciiDigit c) := by
  simp [Re.classMatch, Re.itemMatch]

open Py.Re Py.Re.C07 in
/-- `^([A-Z]{2})([A-Z0-9]{3})([0-9]{2})([0-9]{5})$` on a subject that does not end in a newline -/
theorem isrc_re_iff (s : Str) (hnl : s.getLast? ≠ some 10) :
    (Re.search Gen.isrc._isrc_re s).isSome = true ↔
      s.length = 12 ∧ AllIn isAsciiUpper (s.take 2) ∧
        AllIn (fun c => isAsciiUpper c || isAsciiDigit c) ((s.drop 2).take 3) ∧ AllIn isAsciiDigit (s.drop 5) := by
  rw [search_isSome_iff_reach (p := Gen.isrc._isrc_re) rfl rfl]
  have hU : classMatch {} false [.range 65 90] = isAsciiUpper := funext cls_upper
  have hD : classMatch {} false [.range 48 57] = isAsciiDigit := funext cls_digit
  have hA : classMatch {} false [.range 65 90, .range 48 57] =
      (fun c => isAsciiUpper c || isAsciiDigit c) := funext cls_upper_digit
  simp only [Gen.isrc._isrc_re, reach_seq, reach_anchor, reach_group, reach_rep_cls, hU, hA, hD,
    eol_iff_of_no_trailing_nl hnl {} rfl, leMax]
  have ht2 : s.take 2 = Re.slice s 0 2 := by simp [Re.slice]
  have ht3 : (s.drop 2).take 3 = Re.slice s 2 5 := by
    simp only [Re.slice]
  have ht5 : s.drop 5 = Re.slice s 5 s.length := by
    simp only [Re.slice]
    rw [List.take_of_length_le (by simp)]
  constructor
  · rintro ⟨q, m0, ⟨rfl, _⟩, m1, ⟨k1, a1, b1, seg1, rfl⟩, m2, ⟨k2, a2, b2, seg2, rfl⟩, m3, ⟨k3, a3, b3, seg3, rfl⟩,
      m4, ⟨k4, a4, b4, seg4, rfl⟩, rfl, hlen⟩
    have e1 : k1 = 2 := by omega
    have e2 : k2 = 3 := by omega
    have e3 : k3 = 2 := by omega
    have e4 : k4 = 5 := by omega
    subst e1 e2 e3 e4
    have h12 : s.length = 12 := by omega
    rw [ht2, ht3, ht5, h12]
    exact ⟨rfl, seg1.allIn_slice, seg2.allIn_slice, (Seg.append seg3 seg4).allIn_slice⟩
  · rintro ⟨hlen, h1, h2, h3⟩
    rw [ht2] at h1
    rw [ht3] at h2
    rw [ht5, hlen] at h3
    have seg1 : Seg s isAsciiUpper 0 2 := Seg.of_allIn_slice (by omega) h1
    have seg2 : Seg s (fun c => isAsciiUpper c || isAsciiDigit c) 2 5 := Seg.of_allIn_slice (by omega) h2
    have seg3 : Seg s isAsciiDigit 5 12 := Seg.of_allIn_slice (by omega) h3
    obtain ⟨sa, sb⟩ := seg3.split (b := 7) (by omega) (by omega)
    exact ⟨12, 0, ⟨rfl, by simp [anchorMatch]⟩, 2, ⟨2, by omega, by omega, seg1, rfl⟩, 5,
      ⟨3, by omega, by omega, seg2, rfl⟩, 7, ⟨2, by omega, by omega, sa, rfl⟩, 12,
      ⟨5, by omega, by omega, sb, rfl⟩, rfl, hlen.symm⟩

theorem canon_isrc_eq (x : Str) : canon_isrc x = upper (strip (cleanP x [32, 45])) := by
  unfold canon_isrc Gen.isrc.compact
  simp only [clean_eq, bind_ok, pure_ok]
  rfl

theorem isrc_agrees_with_standard (x : Str) :
    (Gen.isrc.validate x).toOption =
      if Std_isrc (canon_isrc x) = true then some (canon_isrc x) else none := by
  rw [canon_isrc_eq]
  unfold Gen.isrc.validate Gen.isrc.compact
  simp only [clean_eq, bind_ok, pure_ok]
  have hlast := compact_last x [32, 45] (by decide) (by decide)
  generalize upper (strip (cleanP x [32, 45])) = n at hlast ⊢
  have hre := isrc_re_iff n hlast
  have hstd : Std_isrc n = true ↔ (n.length = 12 ∧ AllIn isAsciiUpper (n.take 2) ∧
      AllIn (fun c => isAsciiUpper c || isAsciiDigit c) ((n.drop 2).take 3) ∧ AllIn isAsciiDigit (n.drop 5)) ∧
      Gen.isrc._country_codes.contains (n.take 2) = true := by
    unfold Std_isrc
    have hdu : Spec.Standards.isDU = (fun c => isAsciiDigit c || isAsciiUpper c) := rfl
    simp only [Bool.and_eq_true, beq_iff_eq, isU_eq, isD_eq, hdu, all_iff_allIn, and_assoc]
    constructor
    · rintro ⟨h1, h2, h3, h4, h5⟩
      exact ⟨h1, h2, fun c hc => (Bool.or_comm (isAsciiUpper c) (isAsciiDigit c)).trans (h3 c hc), h4, h5⟩
    · rintro ⟨h1, h2, h3, h4, h5⟩
      exact ⟨h1, h2, fun c hc => (Bool.or_comm (isAsciiDigit c) (isAsciiUpper c)).trans (h3 c hc), h4, h5⟩
  by_cases hl : n.length = 12
  · have e1 : ((n.length : Int) != 12) = false := by simp [hl]
    simp only [e1, Bool.false_eq_true, if_false]
    cases hm : Re.search Gen.isrc._isrc_re n with
    | none =>
      have : Std_isrc n = false :=
        bool_false_of (fun h => by
          have := hre.mpr (hstd.mp h).1
          rw [hm] at this; cases this)
      rw [this]
      rfl
    | some m =>
      have hfit := hre.mp (by rw [hm]; rfl)
      simp only [Option.isSome_some, Bool.not_true, Bool.false_eq_true, if_false, Py.optGet, bind_ok,
        Py.Re.C07.isrc_country n m hm]
      cases hcc : Gen.isrc._country_codes.contains (n.take 2) with
      | true =>
        rw [(hstd.mpr ⟨hfit, hcc⟩ : Std_isrc n = true)]
        rfl
      | false =>
        have : Std_isrc n = false :=
          bool_false_of (fun h => by have := (hstd.mp h).2; rw [hcc] at this; cases this)
        rw [this]
        rfl
  · have e1 : ((n.length : Int) != 12) = true := by
      simp only [bne_iff_ne, ne_eq]; omega
    have : Std_isrc n = false := bool_false_of (fun h => hl (hstd.mp h).1.1)
    rw [this]
    simp only [e1, if_true]
    rfl

/-! ## Non-vacuity -/
section Examples
open Props.C17 in
example : (Gen.casrn.validate (str% "87-86-5")).toOption = some (str% "87-86-5") := by
  rw [casrn_agrees_with_standard]; decide +kernel
open Props.C17 in
example : (Gen.casrn.validate (str% "7732185")).toOption = some (str% "7732-18-5") := by
  rw [casrn_agrees_with_standard]; decide +kernel
open Props.C17 in
example : (Gen.casrn.validate (str% "87-86-6")).toOption = none := by
  rw [casrn_agrees_with_standard]; decide +kernel
open Props.C17 in
example : (Gen.casrn.validate (str% "012770-26-2")).toOption = none := by
  rw [casrn_agrees_with_standard]; decide +kernel
open Props.C17 in
example : (Gen.bic.validate (str% "AGRIFRPP882")).toOption = some (str% "AGRIFRPP882") := by
  rw [bic_agrees_with_standard_partial _ (by decide +kernel)]; decide +kernel
open Props.C17 in
example : (Gen.bic.validate (str% "ABNA BE 2A")).toOption = some (str% "ABNABE2A") := by
  rw [bic_agrees_with_standard_partial _ (by decide +kernel)]; decide +kernel
open Props.C17 in
example : (Gen.bic.validate (str% "AGRIF2PP")).toOption = none := by
  rw [bic_agrees_with_shape]; decide +kernel
open Props.C17 in
example : (Gen.isrc.validate (str% "US-SKG-19-12345")).toOption = some (str% "USSKG1912345") := by
  rw [isrc_agrees_with_standard]; decide +kernel
open Props.C17 in
example : (Gen.isrc.validate (str% "XX-SKG-19-12345")).toOption = none := by
  rw [isrc_agrees_with_standard]; decide +kernel
end Examples

end Props.C07

#print axioms Props.C07.casrn_agrees_with_standard
#print axioms Props.C07.bic_agrees_with_shape
#print axioms Props.C07.bic_disagrees
#print axioms Props.C07.bic_witness
#print axioms Props.C07.bic_agrees_with_standard_partial
#print axioms Props.C07.isrc_re_iff
#print axioms Props.C07.isrc_agrees_with_standard
