import Gen.fr_siret
import Props.C08c
/-!
# C08 (part f) — `fr.siret.to_siren`, `fr.siret.to_tva`

`to_siren` walks over the *presentation* and keeps everything up to the ninth ASCII digit; `to_tva` hands that
prefix to `siren.to_tva`.
-/
namespace Props.C08
open Py Spec.Checksum Lemmas.Refine Lemmas.Fold Props.C06 Props.C06Gen Props.C17 Props.C07

/-- the prefix of `t` that `to_siren` keeps when `n` digits have been seen already: everything up to the character
that brings the count of ASCII digits to nine -/
def sirenTake : Nat → Str → Str
  | _, [] => []
  | n, c :: t => if n < 9 then c :: sirenTake (if isAsciiDigit c then n + 1 else n) t else []

theorem siret_loop (t : Str) : ∀ (acc : List Str) (n : Nat),
    ∃ n' : Int, forIn (Py.chars t) (acc, (n : Int)) (fun (x : Str) (s : List Str × Int) =>
        if decide (s.snd < 9) = true then
          if isDigitsB x = true then (Except.ok (ForInStep.yield (s.fst ++ [x], s.snd + 1)) : R _)
          else Except.ok (ForInStep.yield (s.fst ++ [x], s.snd))
        else Except.ok (ForInStep.yield (s.fst, s.snd))) =
      .ok (acc ++ Py.chars (sirenTake n t), n') := by
  induction t with
  | nil => intro acc n; exact ⟨n, by simp [Py.chars, sirenTake]⟩
  | cons c t ih =>
    intro acc n
    rw [chars_cons, List.forIn_cons]
    by_cases hn : n < 9
    · have hd : decide (((n : Int)) < 9) = true := by simp; omega
      simp only [hd, if_true, isdigits_single']
      cases hc : isAsciiDigit c with
      | true =>
        simp only [if_true, bind_ok]
        obtain ⟨n', hn'⟩ := ih (acc ++ [[c]]) (n + 1)
        refine ⟨n', ?_⟩
        have : ((n : Int) + 1) = ((n + 1 : Nat) : Int) := by simp
        have e : sirenTake n (c :: t) = c :: sirenTake (n + 1) t := by
          show (if n < 9 then c :: sirenTake (if isAsciiDigit c then n + 1 else n) t else []) = _
          rw [if_pos hn, hc]; rfl
        rw [this, hn', e, chars_cons, List.append_assoc]
        rfl
      | false =>
        simp only [Bool.false_eq_true, if_false, bind_ok]
        obtain ⟨n', hn'⟩ := ih (acc ++ [[c]]) n
        refine ⟨n', ?_⟩
        have e : sirenTake n (c :: t) = c :: sirenTake n t := by
          show (if n < 9 then c :: sirenTake (if isAsciiDigit c then n + 1 else n) t else []) = _
          rw [if_pos hn, hc]; rfl
        rw [hn', e, chars_cons, List.append_assoc]
        rfl
    · have hd : decide (((n : Int)) < 9) = false := by simp; omega
      simp only [hd, Bool.false_eq_true, if_false, bind_ok]
      obtain ⟨n', hn'⟩ := ih acc n
      refine ⟨n', ?_⟩
      have e1 : sirenTake n t = [] := by
        cases t with
        | nil => rfl
        | cons a t => simp [sirenTake, hn]
      have e2 : sirenTake n (c :: t) = [] := by simp [sirenTake, hn]
      rw [hn', e1, e2]

/-- `fr.siret.to_siren` returns the prefix up to the ninth ASCII digit, for every input -/
theorem to_siren_eq (x : Str) : Gen.fr_siret.to_siren x = .ok (sirenTake 0 x) := by
  unfold Gen.fr_siret.to_siren
  simp only [isdigits_eq, bind_ok, pure_ok]
  obtain ⟨n', hn'⟩ := siret_loop x [] 0
  simp only [Int.natCast_zero, List.nil_append] at hn'
  rw [hn']
  simp only [bind_ok, join_nil_chars]

theorem sirenTake_mem {n : Nat} {t : Str} {c : Nat} (h : c ∈ sirenTake n t) : c ∈ t := by
  induction t generalizing n with
  | nil => simp [sirenTake] at h
  | cons a t ih =>
    unfold sirenTake at h
    split at h
    · rcases List.mem_cons.mp h with rfl | h
      · exact List.mem_cons_self
      · exact List.mem_cons_of_mem _ (ih h)
    · cases h

/-- on a presentation whose letters/digits are all digits, the kept prefix contains the first `9 - n` digits -/
theorem body_sirenTake (t : Str) (hd : AllIn isAsciiDigit (body t)) : ∀ n,
    body (sirenTake n t) = (body t).take (9 - n) := by
  induction t with
  | nil => intro n; simp [sirenTake, body]
  | cons c t ih =>
    intro n
    unfold sirenTake
    by_cases ha : isAsciiAlnum c = true
    · have hb : body (c :: t) = c :: body t := by unfold body; rw [List.filter_cons_of_pos ha]
      rw [hb] at hd
      have hc : isAsciiDigit c = true := hd c List.mem_cons_self
      have hd' : AllIn isAsciiDigit (body t) := fun x hx => hd x (List.mem_cons_of_mem _ hx)
      by_cases hn : n < 9
      · rw [if_pos hn, hc, if_pos rfl]
        have hb2 : body (c :: sirenTake (n + 1) t) = c :: body (sirenTake (n + 1) t) := by
          unfold body; rw [List.filter_cons_of_pos ha]
        rw [hb2, ih hd' (n + 1), hb]
        have : 9 - n = (9 - (n + 1)) + 1 := by omega
        rw [this, List.take_succ_cons]
      · rw [if_neg hn]
        have : 9 - n = 0 := by omega
        rw [this]; rfl
    · have ha' : isAsciiAlnum c = false := by simpa using ha
      have hb : body (c :: t) = body t := by
        unfold body; rw [List.filter_cons_of_neg (by rw [ha']; exact Bool.false_ne_true)]
      rw [hb] at hd ⊢
      have hc : isAsciiDigit c = false := by
        cases h : isAsciiDigit c with
        | false => rfl
        | true => rw [digit_alnum h] at ha'; cases ha'
      by_cases hn : n < 9
      · rw [if_pos hn, hc]
        simp only [Bool.false_eq_true, if_false]
        have hb2 : body (c :: sirenTake n t) = body (sirenTake n t) := by
          unfold body; rw [List.filter_cons_of_neg (by rw [ha']; exact Bool.false_ne_true)]
        rw [hb2, ih hd n]
      · rw [if_neg hn]
        have : 9 - n = 0 := by omega
        rw [this]; rfl

theorem siret_shape {x v : Str} (h : Gen.fr_siret.validate x = .ok v) :
    v = strip (cleanP x [32, 46]) ∧ AllIn isAsciiDigit v ∧ v.length = 14 ∧
      ∃ r, Gen.fr_siren.validate (v.take 9) = .ok r := by
  unfold Gen.fr_siret.validate Gen.fr_siret.compact at h
  simp only [clean_eq, isdigits_eq, bind_ok, pure_ok] at h
  generalize strip (cleanP x [32, 46]) = n at h
  cases hd : isDigitsB n with
  | false => simp [hd] at h
  | true =>
    have hD := (isDigitsB_iff n).mp hd
    simp only [hd, Bool.not_true, Bool.false_eq_true, if_false] at h
    split at h
    · cases h
    · rename_i hlen
      have hl : n.length = 14 := by
        apply Classical.byContradiction
        intro hh
        apply hlen
        simp only [bne_iff_ne, ne_eq]
        omega
      rw [slice_none_nonneg n (by decide)] at h
      split at h
      · obtain ⟨_, _, h⟩ := bind_ok_inv h
        split at h
        · cases h
        · obtain ⟨r, hr, h⟩ := bind_ok_inv h
          cases h
          exact ⟨rfl, hD.2, hl, r, hr⟩
      · obtain ⟨_, _, h⟩ := bind_ok_inv h
        obtain ⟨r, hr, h⟩ := bind_ok_inv h
        cases h
        exact ⟨rfl, hD.2, hl, r, hr⟩

/-- `fr.siret.to_siren` / `to_tva` on a presentation made of ASCII letters/digits, spaces and dots: the SIREN part is
a presentation of `siret[:9]` (identity) accepted by `siren.validate`, and the TVA number is valid with
`tva[2:] = siret[:9]` -/
theorem siret_to_siren_pres (x v : Str) (hP : Pres [32, 46] x) (h : Gen.fr_siret.validate x = .ok v) :
    ∃ w, Gen.fr_siret.to_siren x = .ok w ∧ Gen.fr_siren.validate w = .ok (v.take 9) ∧
      ∃ t, Gen.fr_siret.to_tva x = .ok t ∧ Gen.fr_tva.validate t = .ok (tvaKey (v.take 9) ++ v.take 9) := by
  obtain ⟨hv, hD, hl, r, hr⟩ := siret_shape h
  rw [pres_cleanP sepOK_sp_dot hP, strip_eq_self_of_asciiAlnum _ (body_alnum x)] at hv
  have hPw : Pres [32, 46] (sirenTake 0 x) := fun c hc => hP c (sirenTake_mem hc)
  have hbw : body (sirenTake 0 x) = v.take 9 := by
    rw [body_sirenTake x (by rw [← hv]; exact hD) 0, hv]
  have hw : Gen.fr_siren.validate (sirenTake 0 x) = .ok (v.take 9) := by
    obtain ⟨hr1, hr2, _, hr4⟩ := siren_shape hr
    have hD9 : AllIn isAsciiDigit (v.take 9) := fun c hc => hD c (List.mem_of_mem_take hc)
    rw [digits_compact hD9 _ (by decide)] at hr1
    subst hr1
    have hc : strip (cleanP (sirenTake 0 x) [32, 46]) = v.take 9 := by
      rw [pres_cleanP sepOK_sp_dot hPw, strip_eq_self_of_asciiAlnum _ (body_alnum _), hbw]
    have hc' : strip (cleanP (v.take 9) [32, 46]) = v.take 9 := digits_compact hD9 _ (by decide)
    rw [← hr4]
    unfold Gen.fr_siren.validate Gen.fr_siren.compact
    simp only [clean_eq, bind_ok, pure_ok, hc, hc']
  refine ⟨sirenTake 0 x, to_siren_eq x, hw, ?_⟩
  obtain ⟨h1, h2⟩ := siren_to_tva_pres _ _ hPw hw
  refine ⟨_, ?_, h2⟩
  unfold Gen.fr_siret.to_tva
  rw [to_siren_eq]
  simp only [bind_ok]
  rw [h1]

/-- Full statement, false:
  `∀ x v, siret.validate x = ok v → ∃ w r, siret.to_siren x = ok w ∧ siren.validate w = ok r`
`validate` accepts full-width digits (`clean` maps them to ASCII) but `to_siren` counts ASCII digits only, so it
returns the whole 14-digit number. -/
theorem siret_to_siren_witness :
    Gen.fr_siret.validate [65303, 65299, 65298, 65304, 65298, 65305, 65299, 65298, 65296, 65296, 65296, 65296, 65303,
      65300] = .ok (str% "73282932000074") ∧
    Gen.fr_siret.to_siren [65303, 65299, 65298, 65304, 65298, 65305, 65299, 65298, 65296, 65296, 65296, 65296, 65303,
      65300] = .ok [65303, 65299, 65298, 65304, 65298, 65305, 65299, 65298, 65296, 65296, 65296, 65296, 65303, 65300] ∧
    Gen.fr_siren.validate [65303, 65299, 65298, 65304, 65298, 65305, 65299, 65298, 65296, 65296, 65296, 65296, 65303,
      65300] = .error .invalidLength := by
  decide +kernel

theorem siret_to_siren_full_false :
    ¬ (∀ x v, Gen.fr_siret.validate x = .ok v →
        ∃ w r, Gen.fr_siret.to_siren x = .ok w ∧ Gen.fr_siren.validate w = .ok r) := by
  intro hall
  obtain ⟨h1, h2, h3⟩ := siret_to_siren_witness
  obtain ⟨w, r, hw, hr⟩ := hall _ _ h1
  rw [h2] at hw
  cases hw
  rw [h3] at hr
  cases hr

section Examples
theorem ex_siret : Gen.fr_siret.validate (str% "732 829 320 00074") = .ok (str% "73282932000074") := by
  decide +kernel
example : ∃ w, Gen.fr_siret.to_siren (str% "732 829 320 00074") = .ok w ∧
    Gen.fr_siren.validate w = .ok (str% "732829320") ∧
    ∃ t, Gen.fr_siret.to_tva (str% "732 829 320 00074") = .ok t ∧
      Gen.fr_tva.validate t = .ok (tvaKey (str% "732829320") ++ str% "732829320") :=
  siret_to_siren_pres _ _ (by intro c hc; revert c; decide) ex_siret
example : Gen.fr_siret.to_siren (str% "732 829 320 00074") = .ok (str% "732 829 320") := by decide +kernel
example : Gen.fr_siret.to_tva (str% "732 829 320 00074") = .ok (str% "44 732 829 320") := by decide +kernel
end Examples

end Props.C08
