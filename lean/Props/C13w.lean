import Gen.eu_vat__b
import Gen.vatin__b
import Gen.iban__b
import Lemmas.Str
/-!
# C13 / C09 — the memoising lookups of the aggregate validators are cache-transparent (generated code)

`eu.vat`, `vatin` and `iban` keep a module-level dictionary `_country_modules`.  The translator emits every function
that uses such a dictionary twice: `f` (the dictionary starts empty - this is what all other theorems are about) and
the state-passing twin `f__warm cache args`, which starts from an arbitrary content and returns the new content with
the result (`tools/py2lean/py2lean.py: warm_variant`; tied to the real function, run with the real dictionary
replaced by arbitrary contents, by `tools/corr/warm.py`).

For each of the three functions, for EVERY cache content satisfying `CacheOK` (every entry is what the tabulated
`util.get_cc_module` gives for its key - what the only store in the function writes):

* `*_warm_result`: the warm call returns exactly what the cold call returns (value or exception);
* `*_warm_inv`: the content after the call satisfies `CacheOK` again;
* `*_history`: hence for every finite sequence of calls starting from the empty dictionary the i-th result is the
  cold result of the i-th argument (`runAll_eq`, induction over the sequence).

A change of the lookup that reads the dictionary under a key other than the one it was written under (e.g. testing
the raw country code before the alias / membership tests) makes `*_warm_result` false.

Limit: a call that raises returns no dictionary in the model (`Except` drops it); in `vatin` the store precedes the
`raise InvalidComponent`, so the real dictionary then holds `cc ↦ None = table cc`, which satisfies `CacheOK`; the
history theorem threads the old content through such calls.
-/
open Py
namespace Props.C13w

def CacheOK (tbl : Str → Option String) (c : List (Str × Option String)) : Prop :=
  ∀ k v, (k, v) ∈ c → v = tbl k

/-- the hypothesis is satisfiable by a non-empty cache -/
example : CacheOK Gen.ccmods.get_cc_module_vat [([110, 108], Gen.ccmods.get_cc_module_vat [110, 108])] := by
  intro k v h; simp at h; rw [h.1, h.2]

theorem cacheOK_nil (tbl) : CacheOK tbl [] := by intro k v h; cases h

theorem get_of_has {tbl} {c : List (Str × Option String)} (h : CacheOK tbl c) {k : Str} (hk : dictHas c k = true) :
    dictGet c k = .ok (tbl k) := by
  obtain ⟨v, h1, h2⟩ := dictGet_of_has hk
  rw [h1, h k v (dictGet?_mem c k v h2)]

theorem get_set_of_not_has {c : List (Str × Option String)} {k : Str} (v) (hk : dictHas c k = false) :
    dictGet (dictSet c k v) k = .ok v := by
  have hn : dictGet? c k = none := by
    unfold dictHas at hk; cases hd : dictGet? c k with
    | none => rfl
    | some w => simp [hd] at hk
  unfold dictSet; rw [hk]; simp only [Bool.false_eq_true, if_false]
  unfold dictGet dictGet?
  have : c.find? (·.1 == k) = none := by
    unfold dictGet? at hn
    cases hf : c.find? (·.1 == k) with
    | none => rfl
    | some p => simp [hf] at hn
  rw [List.find?_append, this]; simp

theorem cacheOK_set {tbl} {c : List (Str × Option String)} (h : CacheOK tbl c) {k : Str} (hk : dictHas c k = false) :
    CacheOK tbl (dictSet c k (tbl k)) := by
  unfold dictSet; rw [hk]; simp only [Bool.false_eq_true, if_false]
  intro k' v' hm
  rcases List.mem_append.mp hm with hm | hm
  · exact h k' v' hm
  · simp at hm; rw [hm.1, hm.2]


/-- the cache after looking up `k` -/
def upd (tbl : Str → Option String) (c : List (Str × Option String)) (k : Str) : List (Str × Option String) :=
  if dictHas c k then c else dictSet c k (tbl k)

theorem cacheOK_upd {tbl} {c} (h : CacheOK tbl c) (k : Str) : CacheOK tbl (upd tbl c k) := by
  unfold upd
  cases hk : dictHas c k with
  | true => simpa using h
  | false => simpa using cacheOK_set h hk

theorem tail_warm {tbl} {c : List (Str × Option String)} (h : CacheOK tbl c) (k : Str) :
    (if (!dictHas c k) = true then (fun a => (a, dictSet c k (tbl k))) <$> dictGet (dictSet c k (tbl k)) k
      else (fun a => (a, c)) <$> dictGet c k) = (.ok (tbl k, upd tbl c k) : R _) := by
  unfold upd
  cases hk : dictHas c k with
  | true => simp [get_of_has h hk]; rfl
  | false => simp [get_set_of_not_has (tbl k) hk]; rfl

theorem tail_cold (tbl : Str → Option String) (k : Str) :
    (if (!dictHas ([] : List (Str × Option String)) k) = true then dictGet (dictSet [] k (tbl k)) k else dictGet [] k)
      = (.ok (tbl k) : R _) := by
  have hk : dictHas ([] : List (Str × Option String)) k = false := rfl
  simp [hk, get_set_of_not_has (tbl k) hk]

/-- eu.vat: for every cache content that satisfies the invariant, the warm function returns what the cold one
returns -/
theorem eu_vat_warm_result (c : List (Str × Option String)) (h : CacheOK Gen.ccmods.get_cc_module_vat c) (cc : Str) :
    (Gen.eu_vat._get_cc_module__warm c cc).map Prod.fst = Gen.eu_vat._get_cc_module cc := by
  unfold Gen.eu_vat._get_cc_module__warm Gen.eu_vat._get_cc_module
  simp only [bind_pure_comp, tail_warm h, tail_cold]
  repeat' split
  all_goals rfl

/-- … and the invariant is kept -/
theorem eu_vat_warm_inv (c : List (Str × Option String)) (h : CacheOK Gen.ccmods.get_cc_module_vat c) (cc : Str)
    (r) (c') (hr : Gen.eu_vat._get_cc_module__warm c cc = .ok (r, c')) : CacheOK Gen.ccmods.get_cc_module_vat c' := by
  unfold Gen.eu_vat._get_cc_module__warm at hr
  simp only [bind_pure_comp, tail_warm h] at hr
  repeat' split at hr
  all_goals (first | (cases hr; exact h) | (cases hr; exact cacheOK_upd h _))


theorem iban_warm_result (c : List (Str × Option String)) (h : CacheOK Gen.ccmods.get_cc_module_iban c) (cc : Str) :
    (Gen.iban._get_cc_module__warm c cc).map Prod.fst = Gen.iban._get_cc_module cc := by
  unfold Gen.iban._get_cc_module__warm Gen.iban._get_cc_module
  simp only [bind_pure_comp, tail_warm h, tail_cold]
  rfl

theorem iban_warm_inv (c : List (Str × Option String)) (h : CacheOK Gen.ccmods.get_cc_module_iban c) (cc : Str)
    (r) (c') (hr : Gen.iban._get_cc_module__warm c cc = .ok (r, c')) : CacheOK Gen.ccmods.get_cc_module_iban c' := by
  unfold Gen.iban._get_cc_module__warm at hr
  simp only [bind_pure_comp, tail_warm h] at hr
  cases hr; exact cacheOK_upd h _

theorem ite_upd {β : Type} {tbl} (c : List (Str × Option String)) (k : Str) (f : List (Str × Option String) → β) :
    (if (!dictHas c k) = true then f (dictSet c k (tbl k)) else f c) = f (upd tbl c k) := by
  unfold upd; cases dictHas c k <;> simp

theorem get_upd {tbl} {c : List (Str × Option String)} (h : CacheOK tbl c) (k : Str) :
    dictGet (upd tbl c k) k = .ok (tbl k) := by
  unfold upd
  cases hk : dictHas c k with
  | true => simpa using get_of_has h hk
  | false => simpa using get_set_of_not_has (tbl k) hk

theorem vatin_warm_result (c : List (Str × Option String)) (h : CacheOK Gen.ccmods.get_cc_module_vat c) (cc : Str) :
    (Gen.vatin._get_cc_module__warm c cc).map Prod.fst = Gen.vatin._get_cc_module cc := by
  unfold Gen.vatin._get_cc_module__warm Gen.vatin._get_cc_module
  simp only []
  generalize replace (replace (lower cc) [101, 108] [103, 114]) [120, 105] [103, 98] = k
  have hk0 : dictHas ([] : List (Str × Option String)) k = false := rfl
  have g0 := get_set_of_not_has (Gen.ccmods.get_cc_module_vat k) hk0
  cases hm : (Re.match_ Gen.vatin._re_lit_0 cc).isSome with
  | false => simp [Py.raise]; rfl
  | true =>
    cases hk : dictHas c k with
    | true =>
      have g1 := get_of_has h hk
      generalize Gen.ccmods.get_cc_module_vat k = v at g0 g1 ⊢
      cases v <;> simp [hk, hk0, g0, g1, Py.raise] <;> rfl
    | false =>
      have g1 := get_set_of_not_has (Gen.ccmods.get_cc_module_vat k) hk
      generalize Gen.ccmods.get_cc_module_vat k = v at g0 g1 ⊢
      cases v <;> simp [hk, hk0, g0, g1, Py.raise] <;> rfl

theorem vatin_warm_inv (c : List (Str × Option String)) (h : CacheOK Gen.ccmods.get_cc_module_vat c) (cc : Str)
    (r) (c') (hr : Gen.vatin._get_cc_module__warm c cc = .ok (r, c')) : CacheOK Gen.ccmods.get_cc_module_vat c' := by
  unfold Gen.vatin._get_cc_module__warm at hr
  simp only [] at hr
  generalize replace (replace (lower cc) [101, 108] [103, 114]) [120, 105] [103, 98] = k at hr
  cases hm : (Re.match_ Gen.vatin._re_lit_0 cc).isSome with
  | false => simp [hm, Py.raise] at hr; cases hr
  | true =>
    cases hk : dictHas c k with
    | true =>
      have g1 := get_of_has h hk
      generalize hv : Gen.ccmods.get_cc_module_vat k = v at g1 hr
      cases v <;> simp [hm, hk, g1, Py.raise] at hr
      · cases hr
      · obtain ⟨_, rfl⟩ := hr; exact h
    | false =>
      have g1 := get_set_of_not_has (Gen.ccmods.get_cc_module_vat k) hk
      generalize hv : Gen.ccmods.get_cc_module_vat k = v at g1 hr
      cases v <;> simp [hm, hk, g1, Py.raise] at hr
      · cases hr
      · obtain ⟨_, rfl⟩ := hr; rw [← hv]; exact cacheOK_set h hk

/-! ## histories -/

/-- the results of a sequence of calls, the cache being threaded through (a call that raises leaves the model's
cache unchanged; the real dictionary may have gained the entry `cc ↦ table cc`, which keeps the invariant) -/
def runAll {α : Type} (warm : List (Str × Option String) → Str → R (α × List (Str × Option String)))
    (c : List (Str × Option String)) : List Str → List (R α)
  | [] => []
  | cc :: rest =>
    match warm c cc with
    | .ok (r, c') => .ok r :: runAll warm c' rest
    | .error e => .error e :: runAll warm c rest

theorem runAll_eq {α : Type} {tbl} (warm : List (Str × Option String) → Str → R (α × List (Str × Option String)))
    (cold : Str → R α)
    (hres : ∀ c, CacheOK tbl c → ∀ cc, (warm c cc).map Prod.fst = cold cc)
    (hinv : ∀ c, CacheOK tbl c → ∀ cc r c', warm c cc = .ok (r, c') → CacheOK tbl c')
    (c) (h : CacheOK tbl c) (ccs : List Str) : runAll warm c ccs = ccs.map cold := by
  induction ccs generalizing c with
  | nil => rfl
  | cons cc rest ih =>
    unfold runAll
    have h1 := hres c h cc
    cases hw : warm c cc with
    | ok p =>
      obtain ⟨r, c'⟩ := p
      rw [hw] at h1
      simp only [List.map_cons, ih c' (hinv c h cc r c' hw)]
      rw [← h1]; rfl
    | error e =>
      rw [hw] at h1
      simp only [List.map_cons, ih c h]
      rw [← h1]; rfl

/-- every history of `eu.vat._get_cc_module` calls from a cold cache gives, call by call, the cold-cache results -/
theorem eu_vat_history (ccs : List Str) :
    runAll Gen.eu_vat._get_cc_module__warm [] ccs = ccs.map Gen.eu_vat._get_cc_module :=
  runAll_eq _ _ eu_vat_warm_result eu_vat_warm_inv [] (cacheOK_nil _) ccs

theorem iban_history (ccs : List Str) :
    runAll Gen.iban._get_cc_module__warm [] ccs = ccs.map Gen.iban._get_cc_module :=
  runAll_eq _ _ iban_warm_result iban_warm_inv [] (cacheOK_nil _) ccs

theorem vatin_history (ccs : List Str) :
    runAll Gen.vatin._get_cc_module__warm [] ccs = ccs.map Gen.vatin._get_cc_module :=
  runAll_eq _ _ vatin_warm_result vatin_warm_inv [] (cacheOK_nil _) ccs

#print axioms eu_vat_warm_result
#print axioms eu_vat_warm_inv
#print axioms iban_warm_result
#print axioms iban_warm_inv
#print axioms vatin_warm_result
#print axioms vatin_warm_inv
#print axioms runAll_eq
#print axioms vatin_history
#print axioms eu_vat_history
#print axioms iban_history
end Props.C13w
