import Spec.Wsgi
/-!
# Props.C18 — "The online check application answers every query safely"

Theorems about the model `Spec/Wsgi.lean` of `online_check/stdnum.wsgi`.  All statements are
unbounded (every string, every parameter dictionary, every module table, every request
sequence).

What is assumed, and where it is written down:
* `ParamsOk` — contract of `urllib.parse.parse_qs` (a present key has a value); `parse_qs`,
  percent-decoding and the WSGI server are outside the model.
* `TemplateOk`/`Shape` — the template has exactly the conversions `%(value)s` and `%(results)s`;
  proved for the shipped `template.html` (`tplReal_shape`, a snapshot of the file).
* `A` — what the number modules must do on the submitted number (properties C01/C04: `is_valid`
  total, `compact`/`format` return strings on accepted numbers) plus UTF-8 encodability of the text
  that reaches the page.  Since upstream commit 6b1a6e2 (`html.escape(str(conversion))`) `A` puts
  **no** condition on what the conversion functions return: `formatEntry_total`,
  `application_ok_html`.  The old failure is kept as the labelled historical witness
  `formatEntry_fix_witness`.  In AJAX mode the values still have to be JSON-serialisable (`AJson`).
* `json.dumps` is trusted to serialise `str/int/None/bool/dict/list` values; the AJAX body is the
  structured list of records.
-/
namespace Props.C18
open Py Spec.Wsgi

/-- decidable equality on results (for `decide` in the examples) -/
instance decEqExcept {ε α : Type} [DecidableEq ε] [DecidableEq α] : DecidableEq (Except ε α)
  | .ok a, .ok b => if h : a = b then isTrue (by rw [h]) else isFalse (fun h' => h (Except.ok.inj h'))
  | .error a, .error b => if h : a = b then isTrue (by rw [h]) else isFalse (fun h' => h (Except.error.inj h'))
  | .ok _, .error _ => isFalse (fun h => by cases h)
  | .error _, .ok _ => isFalse (fun h => by cases h)

theorem replace1_flatMap (c : Nat) (r : Str) (f : Nat → Str) (s : Str) :
    replace1 c r (s.flatMap f) = s.flatMap (fun x => replace1 c r (f x)) := by
  simp [replace1, List.flatMap_assoc]

theorem escape_eq_flatMap (q : Bool) (s : Str) : escape q s = s.flatMap (escChar q) := by
  have h0 : replace1 38 entAmp s = s.flatMap (fun x => if x = 38 then entAmp else [x]) := rfl
  unfold escape
  simp only [h0, replace1_flatMap]
  cases q <;> simp only [if_true, if_false, Bool.false_eq_true] <;>
  · congr 1
    funext c
    by_cases h1 : c = 38
    · subst h1; decide
    by_cases h2 : c = 60
    · subst h2; decide
    by_cases h3 : c = 62
    · subst h3; decide
    by_cases h4 : c = 34
    · subst h4; decide
    by_cases h5 : c = 39
    · subst h5; decide
    simp [replace1, escChar, h1, h2, h3, h4, h5]

theorem escape_nil (q : Bool) : escape q [] = [] := by simp [escape_eq_flatMap]
theorem escape_cons (q : Bool) (c : Nat) (s : Str) :
    escape q (c :: s) = escChar q c ++ escape q s := by simp [escape_eq_flatMap]
theorem escape_append (q : Bool) (s t : Str) : escape q (s ++ t) = escape q s ++ escape q t := by
  simp [escape_eq_flatMap]

/-- the image of one character: an entity, or the character itself when it is not special -/
theorem escChar_cases (c : Nat) :
    (escChar true c ∈ entities) ∨ (escChar true c = [c] ∧ c ≠ 38 ∧ c ≠ 60 ∧ c ≠ 62 ∧ c ≠ 34 ∧ c ≠ 39) := by
  unfold escChar
  by_cases h1 : c = 38 <;> by_cases h2 : c = 60 <;> by_cases h3 : c = 62 <;>
  by_cases h4 : c = 34 <;> by_cases h5 : c = 39 <;> simp [h1, h2, h3, h4, h5, entities]

/-- no markup character survives `escape` with `quote=True` -/
theorem escape_no_markup (s : Str) : ∀ c ∈ escape true s, c ≠ 60 ∧ c ≠ 62 ∧ c ≠ 34 ∧ c ≠ 39 := by
  intro c hc
  rw [escape_eq_flatMap, List.mem_flatMap] at hc
  obtain ⟨x, _, hx⟩ := hc
  rcases escChar_cases x with h | ⟨h, h'⟩
  · simp only [entities, List.mem_cons, List.mem_nil_iff, or_false] at h
    rcases h with h | h | h | h | h <;> rw [h] at hx <;>
      simp only [entAmp, entLt, entGt, entQuot, entApos, List.mem_cons, List.mem_nil_iff, or_false] at hx <;>
      omega
  · rw [h] at hx
    simp only [List.mem_cons, List.mem_nil_iff, or_false] at hx
    omega

/-- every `&` of `t` begins one of the five entities -/
def AmpOk (t : Str) : Prop :=
  ∀ pre post, t = pre ++ 38 :: post → ∃ e ∈ entities, e <+: 38 :: post

theorem ampOk_nil : AmpOk [] := by
  intro pre post h; simp at h

theorem ampOk_cons {c : Nat} {t : Str} (hc : c ≠ 38) (ht : AmpOk t) : AmpOk (c :: t) := by
  intro pre post h
  cases pre with
  | nil => simp at h; omega
  | cons p pre' =>
    simp only [List.cons_append, List.cons.injEq] at h
    exact ht pre' post h.2

theorem ampOk_append_noamp {u t : Str} (hu : ∀ c ∈ u, c ≠ 38) (ht : AmpOk t) : AmpOk (u ++ t) := by
  induction u with
  | nil => simpa using ht
  | cons c u ih =>
    exact ampOk_cons (hu c (by simp)) (ih (fun c hc => hu c (by simp [hc])))

theorem ampOk_entity {e t : Str} (he : e ∈ entities) (ht : AmpOk t) : AmpOk (e ++ t) := by
  have hshape : ∃ tail, e = 38 :: tail ∧ ∀ c ∈ tail, c ≠ 38 := by
    simp only [entities, List.mem_cons, List.mem_nil_iff, or_false] at he
    rcases he with h | h | h | h | h <;> subst h <;> exact ⟨_, rfl, by decide⟩
  obtain ⟨tail, rfl, htail⟩ := hshape
  intro pre post h
  cases pre with
  | nil =>
    simp only [List.cons_append, List.nil_append, List.cons.injEq, true_and] at h
    exact ⟨_, he, by rw [← h]; exact List.prefix_append _ _⟩
  | cons p pre' =>
    simp only [List.cons_append, List.cons.injEq] at h
    exact ampOk_append_noamp htail ht pre' post h.2

theorem escape_ampOk (s : Str) : AmpOk (escape true s) := by
  induction s with
  | nil => rw [escape_nil]; exact ampOk_nil
  | cons c s ih =>
    rw [escape_cons]
    rcases escChar_cases c with h | ⟨h, h'⟩
    · exact ampOk_entity h ih
    · rw [h]; exact ampOk_cons h'.1 ih

/-- **escape_safe.** The result of `html.escape(s, True)` contains none of `< > " '`, and every
`&` in it begins one of `&amp; &lt; &gt; &quot; &#x27;`. -/
theorem escape_safe (s : Str) :
    (∀ c ∈ escape true s, c ≠ 60 ∧ c ≠ 62 ∧ c ≠ 34 ∧ c ≠ 39) ∧
    (∀ pre post, escape true s = pre ++ 38 :: post → ∃ e ∈ entities, e <+: 38 :: post) :=
  ⟨escape_no_markup s, escape_ampOk s⟩

theorem unescape_cons_ne {c : Nat} (h : c ≠ 38) (r : Str) :
    unescape (c :: r) = c :: unescape r := by
  rw [unescape.eq_def]
  split <;> simp_all

theorem unescape_escChar (q : Bool) (c : Nat) (r : Str) :
    unescape (escChar q c ++ r) = c :: unescape r := by
  by_cases h1 : c = 38
  · subst h1; simp [escChar, entAmp, unescape]
  by_cases h2 : c = 60
  · subst h2; simp [escChar, entLt, unescape]
  by_cases h3 : c = 62
  · subst h3; simp [escChar, entGt, unescape]
  by_cases h4 : c = 34
  · subst h4; cases q <;> simp [escChar, entQuot, unescape]
  by_cases h5 : c = 39
  · subst h5; cases q <;> simp [escChar, entApos, unescape]
  simp [escChar, h1, h2, h3, h4, h5, unescape_cons_ne]

/-- **escape_inverse.** Decoding the five entities recovers the original text
(for both values of `quote`). -/
theorem escape_inverse (q : Bool) (s : Str) : unescape (escape q s) = s := by
  induction s with
  | nil => rw [escape_nil]; rfl
  | cons c s ih => rw [escape_cons, unescape_escChar, ih]

/-- **escape_injective.** Distinct texts have distinct escaped forms. -/
theorem escape_injective (q : Bool) : Function.Injective (escape q) := by
  intro s t h
  have := congrArg unescape h
  simpa only [escape_inverse] using this


/-! ## `%`-formatting -/

theorem map_ok {α β : Type} (f : α → β) (a : α) : (f <$> (Except.ok a : R α)) = .ok (f a) := rfl
theorem map_error {α β : Type} (f : α → β) (e : Exc) : (f <$> (Except.error e : R α)) = .error e := rfl
theorem pure_ok {α : Type} (a : α) : (pure a : R α) = .ok a := rfl
theorem map_eq_ok {α β : Type} {f : α → β} {x : R α} {b : β} :
    f <$> x = .ok b ↔ ∃ a, x = .ok a ∧ f a = b := by
  cases x <;> simp [map_ok, map_error]

/-- A literal stretch `l` of a template (accepted with the empty mapping, so it contains only
text and `%%`) contributes its rendering `seg`, whatever follows and whatever the mapping. -/
theorem fmt_lit_append (d : List (Str × Str)) (rest : Str) :
    ∀ (l : Str) (st : FmtState) (seg : Str), fmt [] st l = .ok seg →
      fmt d st (l ++ rest) = (seg ++ ·) <$> fmt d .text rest := by
  intro l
  induction l with
  | nil =>
    intro st seg h
    cases st <;> simp [fmt, raise, pure_ok] at h
    subst h
    simp only [List.nil_append]
    cases hx : fmt d .text rest <;> simp [map_ok, map_error]
  | cons c l ih =>
    intro st seg h
    cases st with
    | text =>
      simp only [fmt, List.cons_append] at h ⊢
      by_cases hc : c = 37
      · simp only [hc, if_true] at h ⊢
        exact ih _ _ h
      · simp only [hc, if_false] at h ⊢
        obtain ⟨seg', h1, h2⟩ := map_eq_ok.mp h
        rw [ih _ _ h1, ← h2]
        cases fmt d .text rest <;> simp [map_ok, map_error]
    | pct =>
      simp only [fmt, List.cons_append] at h ⊢
      by_cases hc : c = 37
      · simp only [hc, if_true] at h ⊢
        obtain ⟨seg', h1, h2⟩ := map_eq_ok.mp h
        rw [ih _ _ h1, ← h2]
        cases fmt d .text rest <;> simp [map_ok, map_error]
      · by_cases hc' : c = 40
        · subst hc'
          simp only [show ¬ (40 = 37) by decide, if_false, if_true] at h ⊢
          exact ih _ _ h
        · simp [hc, hc', raise] at h
    | key n acc =>
      simp only [fmt, List.cons_append] at h ⊢
      by_cases hc : c = 41
      · subst hc
        simp only [if_true] at h ⊢
        by_cases hn : n ≤ 1
        · simp [hn, lookup, raise] at h
        · simp only [hn, if_false] at h ⊢
          exact ih _ _ h
      · simp only [hc, if_false] at h ⊢
        by_cases hc' : c = 40
        · simp only [hc', if_true] at h ⊢
          exact ih _ _ h
        · simp only [hc', if_false] at h ⊢
          exact ih _ _ h
    | spec v =>
      simp only [fmt, List.cons_append] at h ⊢
      by_cases hc : c = 115
      · simp only [hc, if_true] at h ⊢
        obtain ⟨seg', h1, h2⟩ := map_eq_ok.mp h
        rw [ih _ _ h1, ← h2]
        cases fmt d .text rest <;> simp [map_ok, map_error]
      · simp [hc, raise] at h

def cValue   : Str := [37, 40, 118, 97, 108, 117, 101, 41, 115]            -- "%(value)s"
def cResults : Str := [37, 40, 114, 101, 115, 117, 108, 116, 115, 41, 115] -- "%(results)s"

/-- The template is `l0 %(value)s l1 %(results)s l2` where the `lᵢ` contain no conversion
(only text and `%%`), rendering to `s0`, `s1`, `s2`. -/
def Shape (tpl s0 s1 s2 : Str) : Prop :=
  ∃ l0 l1 l2, tpl = l0 ++ cValue ++ l1 ++ cResults ++ l2 ∧
    fmt [] .text l0 = .ok s0 ∧ fmt [] .text l1 = .ok s1 ∧ fmt [] .text l2 = .ok s2

/-- what the theorems need of a template: both slots are filled, once, in this order -/
def TemplateOk (tpl s0 s1 s2 : Str) : Prop :=
  ∀ v r, page tpl v r = .ok (s0 ++ v ++ s1 ++ r ++ s2)

theorem page_of_shape {tpl s0 s1 s2 : Str} (h : Shape tpl s0 s1 s2) : TemplateOk tpl s0 s1 s2 := by
  obtain ⟨l0, l1, l2, rfl, h0, h1, h2⟩ := h
  intro v r
  unfold page pctFormat
  have e2 := fmt_lit_append [(kValue, v), (kResults, r)] [] l2 .text s2 h2
  simp only [List.append_nil] at e2
  have e2' : fmt [(kValue, v), (kResults, r)] .text l2 = .ok s2 := by
    rw [e2]; simp [fmt, map_ok, pure_ok]
  simp only [List.append_assoc]
  rw [fmt_lit_append _ _ l0 .text s0 h0]
  have ev : ∀ rest, fmt [(kValue, v), (kResults, r)] .text (cValue ++ rest)
      = (v ++ ·) <$> fmt [(kValue, v), (kResults, r)] .text rest := by
    intro rest; simp [cValue, fmt, lookup, kValue]
  have er : ∀ rest, fmt [(kValue, v), (kResults, r)] .text (cResults ++ rest)
      = (r ++ ·) <$> fmt [(kValue, v), (kResults, r)] .text rest := by
    intro rest; simp [cResults, fmt, lookup, kValue, kResults]
  rw [ev, fmt_lit_append _ _ l1 .text s1 h1, er, e2']
  simp [map_ok]


/-! ## `format(data)` -/

theorem bind_ok {α β : Type} (a : α) (f : α → R β) : ((Except.ok a : R α) >>= f) = f a := rfl
theorem bind_error {α β : Type} (e : Exc) (f : α → R β) : ((Except.error e : R α) >>= f) = .error e := rfl

/-- markup for one conversion line: both fields escaped -/
def convHtml (k v : Str) : Str := sConvOpen ++ escape true k ++ sConvMid ++ escape true v

/-- one `<li>` item: every field that is not trusted docstring text passes through `escape true` -/
def entryHtml (descr : Str → Str) (num name description : Str) (convs : List (Str × Str)) : Str :=
  sLiOpen ++ escape true num ++ sNameOpen ++ escape true name ++ sNameClose ++
    (descr description ++ convs.flatMap (fun p => convHtml p.1 p.2)) ++ sLiClose

theorem escapeConv_ok {c : Conv} {e : Str} : escapeConv c = .ok e ↔ ∃ s, c = .str s ∧ e = escape true s := by
  cases c <;> simp [escapeConv, raise, pure_ok, eq_comm]

theorem escapeConv_error {c : Conv} {e : Exc} (h : escapeConv c = .error e) : e = .attributeError := by
  cases c <;> simp [escapeConv, raise, pure_ok] at h <;> exact h.symm

/-- the `str()` texts of a conversions dictionary -/
def convTexts (cs : List (Str × Conv)) : List (Str × Str) := cs.map (fun p => (p.1, convStr p.2))

theorem appendConvs_eq (cs : List (Str × Conv)) : ∀ (acc : Str),
    appendConvs acc cs = acc ++ (convTexts cs).flatMap (fun p => convHtml p.1 p.2) := by
  induction cs with
  | nil => intro acc; simp [appendConvs, convTexts]
  | cons p cs ih =>
    intro acc
    have := ih (acc ++ convLine p.1 p.2)
    simp only [appendConvs, List.foldl_cons] at this ⊢
    rw [this]
    simp [convTexts, convLine, convHtml]

/-- `format(data)` succeeds exactly when the formatted number is a string — whatever the
conversions are — and then the item is `entryHtml` of that string and the `str()` texts of the
conversions. -/
theorem formatEntry_ok (descr : Str → Str) (i : Info) (e : Str) :
    formatEntry descr i = .ok e ↔
      ∃ (num : Str), i.number = .str num ∧
        e = entryHtml descr num i.name i.description (convTexts i.conversions) := by
  unfold formatEntry
  constructor
  · intro h
    cases h2 : escapeConv i.number with
    | error x => simp only [h2, bind_error] at h; cases h
    | ok n =>
      simp only [h2, bind_ok, pure_ok] at h
      obtain ⟨num, hn, rfl⟩ := escapeConv_ok.mp h2
      refine ⟨num, hn, ?_⟩
      cases h
      simp [entryHtml, appendConvs_eq]
  · rintro ⟨num, hn, rfl⟩
    simp [hn, escapeConv, pure_ok, bind_ok, entryHtml, appendConvs_eq]

/-- the only way `format(data)` can still fail: `html.escape(data['number'])` on a non-string -/
theorem formatEntry_error (descr : Str → Str) (i : Info) (e : Exc)
    (h : formatEntry descr i = .error e) : e = .attributeError ∧ ∀ s, i.number ≠ .str s := by
  unfold formatEntry at h
  cases h2 : escapeConv i.number with
  | error x =>
    simp only [h2, bind_error] at h
    cases h
    refine ⟨escapeConv_error h2, ?_⟩
    intro s hs
    rw [hs] at h2
    simp [escapeConv, pure_ok] at h2
  | ok n => simp only [h2, bind_ok, pure_ok] at h; cases h

/-- **The fix.** Whatever the conversion functions returned (`int`, `None`, `bool`, `dict`, `tuple`,
`Decimal`, …), `format(data)` succeeds as soon as the formatted number is a string. -/
theorem formatEntry_total (descr : Str → Str) (i : Info) (num : Str) (h : i.number = .str num) :
    formatEntry descr i = .ok (entryHtml descr num i.name i.description (convTexts i.conversions)) :=
  (formatEntry_ok descr i _).mpr ⟨num, h, rfl⟩

/-! ## `get_conversions`, `info`, the result list -/

theorem mem_dictSet {P : Str × Conv → Prop} {d : List (Str × Conv)} {k : Str} {v : Conv}
    (hd : ∀ p ∈ d, P p) (hv : P (k, v)) : ∀ p ∈ dictSet d k v, P p := by
  induction d with
  | nil => intro p hp; simp only [dictSet, List.mem_cons, List.mem_nil_iff, or_false] at hp; rw [hp]; exact hv
  | cons q d ih =>
    obtain ⟨k', v'⟩ := q
    intro p hp
    simp only [dictSet] at hp
    by_cases hk : k' = k
    · simp only [hk, if_true, List.mem_cons] at hp
      rcases hp with hp | hp
      · rw [hp]; exact hv
      · exact hd p (by simp [hp])
    · simp only [hk, if_false, List.mem_cons] at hp
      rcases hp with hp | hp
      · exact hd p (by simp [hp])
      · exact ih (fun p hp => hd p (by simp [hp])) p hp

theorem mem_dictOfPairs {P : Str × Conv → Prop} {ps : List (Str × Conv)}
    (h : ∀ p ∈ ps, P p) : ∀ p ∈ dictOfPairs ps, P p := by
  unfold dictOfPairs
  suffices H : ∀ (acc : List (Str × Conv)), (∀ p ∈ acc, P p) →
      ∀ p ∈ ps.foldl (fun d p => dictSet d p.1 p.2) acc, P p from H [] (by simp)
  induction ps with
  | nil => intro acc hacc; simpa using hacc
  | cons q ps ih =>
    intro acc hacc
    simp only [List.foldl_cons]
    exact ih (fun p hp => h p (by simp [hp])) _ (mem_dictSet hacc (h q (by simp)))

/-- every entry of the conversions dictionary was yielded by some getter -/
theorem mem_conversions {P : Str × Conv → Prop} {gs : List Getter} {n : Str}
    (h : ∀ g ∈ gs, ∀ p, yieldOf n g = some p → P p) : ∀ p ∈ conversions gs n, P p := by
  apply mem_dictOfPairs
  intro p hp
  rw [List.mem_filterMap] at hp
  obtain ⟨g, hg, hy⟩ := hp
  exact h g hg p hy

/-- module `m` is listed for `n`: `if module.is_valid(number)` -/
def accepts (m : Module) (n : Str) : Bool :=
  match m.isValid n with
  | .ok true => true
  | _ => false

theorem info_ok {m : Module} {n : Str} {i : Info} (h : info m n = .ok i) :
    m.format n = .ok i.number ∧ m.compact n = .ok i.compact ∧ m.isValid n = .ok i.valid ∧
    i.module = m.modname ∧ i.name = m.name ∧ i.description = m.description ∧
    i.conversions = conversions m.getters n := by
  unfold info at h
  cases h1 : m.format n with
  | error e => rw [h1, bind_error] at h; cases h
  | ok f =>
    rw [h1, bind_ok] at h
    cases h2 : m.compact n with
    | error e => rw [h2, bind_error] at h; cases h
    | ok c =>
      rw [h2, bind_ok] at h
      cases h3 : m.isValid n with
      | error e => rw [h3, bind_error] at h; cases h
      | ok v =>
        rw [h3, bind_ok, pure_ok] at h
        cases h
        simp

theorem info_of {m : Module} {n : Str} {f c : Conv} {v : Bool}
    (h1 : m.format n = .ok f) (h2 : m.compact n = .ok c) (h3 : m.isValid n = .ok v) :
    info m n = .ok { number := f, compact := c, valid := v, module := m.modname, name := m.name,
                     description := m.description, conversions := conversions m.getters n } := by
  unfold info
  rw [h1, bind_ok, h2, bind_ok, h3, bind_ok, pure_ok]

/-- pointwise relation between two lists (core has no `Forall₂`) -/
inductive Rel₂ {α β : Type} (R : α → β → Prop) : List α → List β → Prop
  | nil : Rel₂ R [] []
  | cons {a b l r} : R a b → Rel₂ R l r → Rel₂ R (a :: l) (b :: r)

theorem mapM_ok_iff {α β : Type} (f : α → R β) (l : List α) (r : List β) :
    l.mapM f = .ok r ↔ Rel₂ (fun a b => f a = .ok b) l r := by
  induction l generalizing r with
  | nil =>
    simp only [List.mapM_nil, pure_ok]
    constructor
    · intro h; cases h; exact .nil
    · intro h; cases h; rfl
  | cons a l ih =>
    rw [List.mapM_cons]
    constructor
    · intro h
      cases h1 : f a with
      | error e => rw [h1, bind_error] at h; cases h
      | ok b =>
        rw [h1, bind_ok] at h
        cases h2 : l.mapM f with
        | error e => rw [h2, bind_error] at h; cases h
        | ok r' =>
          rw [h2, bind_ok, pure_ok] at h
          cases h
          exact .cons h1 ((ih r').mp h2)
    · intro h
      cases h with
      | cons h1 h2 => rw [h1, bind_ok, (ih _).mpr h2, bind_ok, pure_ok]

theorem mapM_error_of_mem {α β : Type} (f : α → R β) (l : List α) (e0 : Exc)
    (hall : ∀ a ∈ l, ∀ e, f a = .error e → e = e0) (hex : ∃ a ∈ l, ∃ e, f a = .error e) :
    l.mapM f = .error e0 := by
  induction l with
  | nil => obtain ⟨a, ha, _⟩ := hex; simp at ha
  | cons a l ih =>
    rw [List.mapM_cons]
    cases h1 : f a with
    | error e => rw [bind_error, hall a (by simp) e h1]
    | ok b =>
      rw [bind_ok]
      have : l.mapM f = .error e0 := by
        apply ih (fun a ha => hall a (by simp [ha]))
        obtain ⟨x, hx, e, he⟩ := hex
        simp only [List.mem_cons] at hx
        rcases hx with rfl | hx
        · rw [h1] at he; cases he
        · exact ⟨x, hx, e, he⟩
      rw [this, bind_error]

theorem Rel₂.imp {α β : Type} {R S : α → β → Prop} {l : List α} {r : List β}
    (h : Rel₂ R l r) (hi : ∀ a ∈ l, ∀ b, R a b → S a b) : Rel₂ S l r := by
  induction h with
  | nil => exact .nil
  | cons h1 _ ih => exact .cons (hi _ (by simp) _ h1) (ih (fun a ha => hi a (by simp [ha])))

theorem Rel₂.mem_right {α β : Type} {R : α → β → Prop} {l : List α} {r : List β}
    (h : Rel₂ R l r) : ∀ b ∈ r, ∃ a ∈ l, R a b := by
  induction h with
  | nil => intro b hb; simp at hb
  | cons h1 _ ih =>
    intro b hb
    simp only [List.mem_cons] at hb
    rcases hb with rfl | hb
    · exact ⟨_, by simp, h1⟩
    · obtain ⟨a, ha, hr⟩ := ih b hb; exact ⟨a, by simp [ha], hr⟩

theorem Rel₂.map_eq {α β γ : Type} {R : α → β → Prop} {l : List α} {r : List β} (f : α → γ) (g : β → γ)
    (h : Rel₂ R l r) (hfg : ∀ a b, R a b → g b = f a) : r.map g = l.map f := by
  induction h with
  | nil => rfl
  | cons h1 _ ih => simp [ih, hfg _ _ h1]

/-- when `is_valid` never raises, the comprehension is `info` mapped over the accepted modules,
in table order -/
theorem results_eq (mods : List Module) (n : Str)
    (hv : ∀ m ∈ mods, ∃ b, m.isValid n = .ok b) :
    results mods n = (mods.filter (accepts · n)).mapM (fun m => info m n) := by
  induction mods with
  | nil => rfl
  | cons m mods ih =>
    have ih' := ih (fun m hm => hv m (by simp [hm]))
    obtain ⟨b, hb⟩ := hv m (by simp)
    unfold results
    rw [hb, bind_ok, List.filter_cons]
    cases b with
    | false =>
      have hacc : accepts m n = false := by simp [accepts, hb]
      simpa [hacc] using ih'
    | true =>
      have hacc : accepts m n = true := by simp [accepts, hb]
      simp only [hacc, if_true, List.mapM_cons, ih']

/-! ## encodability -/

theorem encodable_append {a b : Str} : Encodable (a ++ b) ↔ Encodable a ∧ Encodable b := by
  simp only [Encodable, List.mem_append]
  constructor
  · intro h; exact ⟨fun c hc => h c (Or.inl hc), fun c hc => h c (Or.inr hc)⟩
  · rintro ⟨h1, h2⟩ c (hc | hc); exact h1 c hc; exact h2 c hc

theorem encodable_nil : Encodable [] := by simp [Encodable]

theorem encodable_escape (q : Bool) {s : Str} (h : Encodable s) : Encodable (escape q s) := by
  induction s with
  | nil => rw [escape_nil]; exact encodable_nil
  | cons c s ih =>
    rw [escape_cons, encodable_append]
    have hc : encodable c = true := h c (by simp)
    refine ⟨?_, ih (fun c hc => h c (by simp [hc]))⟩
    unfold escChar
    split
    · decide
    split
    · decide
    split
    · decide
    split
    · decide
    split
    · decide
    · intro x hx; simp only [List.mem_cons, List.mem_nil_iff, or_false] at hx; rw [hx]; exact hc

theorem encodable_join {items : List Str} (h : ∀ e ∈ items, Encodable e) : Encodable (join [10] items) := by
  induction items with
  | nil => exact encodable_nil
  | cons x r ih =>
    cases r with
    | nil => simpa [join] using h x (by simp)
    | cons y r =>
      simp only [join, encodable_append]
      exact ⟨⟨h x (by simp), by decide⟩, ih (fun e he => h e (by simp [he]))⟩

theorem encodable_convs {convs : List (Str × Str)}
    (h : ∀ p ∈ convs, Encodable p.1 ∧ Encodable p.2) :
    Encodable (convs.flatMap (fun p => convHtml p.1 p.2)) := by
  induction convs with
  | nil => exact encodable_nil
  | cons p r ih =>
    simp only [List.flatMap_cons, encodable_append, convHtml]
    refine ⟨⟨⟨⟨by decide, encodable_escape _ (h p (by simp)).1⟩, by decide⟩,
      encodable_escape _ (h p (by simp)).2⟩, ih (fun q hq => h q (by simp [hq]))⟩

theorem encodable_entry {descr : Str → Str} {num name d : Str} {convs : List (Str × Str)}
    (h1 : Encodable num) (h2 : Encodable name) (h3 : Encodable (descr d))
    (h4 : ∀ p ∈ convs, Encodable p.1 ∧ Encodable p.2) :
    Encodable (entryHtml descr num name d convs) := by
  simp only [entryHtml, encodable_append]
  exact ⟨⟨⟨⟨⟨⟨by decide, encodable_escape _ h1⟩, by decide⟩, encodable_escape _ h2⟩, by decide⟩,
    h3, encodable_convs h4⟩, by decide⟩


theorem encodable_small {c : Nat} (h : c < 0xD800) : encodable c = true := by
  simp [encodable, h]

theorem encodable_cons {c : Nat} {s : Str} (hc : encodable c = true) (hs : Encodable s) : Encodable (c :: s) := by
  intro x hx
  simp only [List.mem_cons] at hx
  rcases hx with rfl | hx
  · exact hc
  · exact hs x hx

theorem encodable_natDigitsGo : ∀ (fuel n : Nat) (acc : Str), Encodable acc →
    Encodable (Py.natDigitsGo 10 false fuel n acc) := by
  intro fuel
  induction fuel with
  | zero => intro n acc h; simpa [Py.natDigitsGo] using h
  | succ fuel ih =>
    intro n acc h
    unfold Py.natDigitsGo
    split
    · next hn =>
      apply encodable_cons _ h
      apply encodable_small
      simp only [Py.digitChar, hn, if_true]; omega
    · apply ih
      apply encodable_cons _ h
      apply encodable_small
      have : n % 10 < 10 := Nat.mod_lt _ (by decide)
      simp only [Py.digitChar, this, if_true]; omega

/-- `str(int)` is ASCII -/
theorem encodable_strOfInt (n : Int) : Encodable (Py.strOfInt n) := by
  have h : Encodable (Py.strOfNat n.natAbs) := encodable_natDigitsGo _ _ _ encodable_nil
  unfold Py.strOfInt
  split
  · exact encodable_cons (by decide) h
  · exact h

/-- `str(conversion)` can be encoded whenever the texts carried by the value can: nothing to check
for `int`, `None`, `bool` -/
theorem encodable_convStr (c : Conv)
    (h : match c with
      | .str s => Encodable s
      | .other t => Encodable t
      | .nojson t => Encodable t
      | _ => True) : Encodable (convStr c) := by
  cases c with
  | str s => exact h
  | other t => exact h
  | nojson t => exact h
  | int n => exact encodable_strOfInt n
  | none => simp only [convStr]; decide
  | bool b => cases b <;> simp only [convStr] <;> decide

/-- hence `ConvEnc` holds automatically for `int`, `None` and `bool` results and reduces to the
encodability of the carried text otherwise -/
theorem convEnc_of (c : Conv)
    (h : match c with
      | .str s => Encodable s
      | .other t => Encodable t
      | .nojson t => Encodable t
      | _ => True) : Encodable (convStr c) := encodable_convStr c h

/-! ## the application -/

/-- the submitted number: `parameters['number'][0]` when the key is present -/
def submitted? (params : List (Str × List Str)) : Option Str :=
  match getParam params kNumber with
  | some (n :: _) => some n
  | _ => none

/-- `number` as used for the page (`''` when absent) -/
def submitted (params : List (Str × List Str)) : Str := (submitted? params).getD []

/-- Contract of `urllib.parse.parse_qs` used by the script: a key that is present has at least
one value (blank values are dropped together with their key). -/
def ParamsOk (params : List (Str × List Str)) : Prop := getParam params kNumber ≠ some []

/-- the modules whose `is_valid` accepts the submitted number, in table order -/
def accepted (mods : List Module) (params : List (Str × List Str)) : List Module :=
  match submitted? params with
  | none => []
  | some n => mods.filter (accepts · n)

theorem mapM_exists {α β : Type} (f : α → R β) (l : List α) (h : ∀ a ∈ l, ∃ b, f a = .ok b) :
    ∃ r, l.mapM f = .ok r := by
  induction l with
  | nil => exact ⟨[], rfl⟩
  | cons a l ih =>
    obtain ⟨b, hb⟩ := h a (by simp)
    obtain ⟨r, hr⟩ := ih (fun a ha => h a (by simp [ha]))
    exact ⟨b :: r, by rw [List.mapM_cons, hb, bind_ok, hr, bind_ok, pure_ok]⟩

theorem lookupNumber_fst {mods : List Module} {params : List (Str × List Str)} {n : Str} {infos : List Info}
    (h : lookupNumber mods params = .ok (n, infos)) : n = submitted params := by
  unfold lookupNumber at h
  unfold submitted submitted?
  split at h
  · next hg => rw [hg]; simp only [pure_ok] at h; cases h; rfl
  · simp [raise] at h
  · next number _ hg =>
    rw [hg]
    cases hr : results mods number with
    | error e => rw [hr, bind_error] at h; cases h
    | ok res => rw [hr, bind_ok, pure_ok] at h; cases h; rfl

theorem lookupNumber_ok (mods : List Module) (params : List (Str × List Str))
    (hp : ParamsOk params)
    (hv : ∀ n, submitted? params = some n → ∀ m ∈ mods, ∃ b, m.isValid n = .ok b)
    (hi : ∀ n, submitted? params = some n → ∀ m ∈ mods, accepts m n = true → ∃ i, info m n = .ok i) :
    ∃ infos, lookupNumber mods params = .ok (submitted params, infos) ∧
      Rel₂ (fun m i => info m (submitted params) = .ok i) (accepted mods params) infos := by
  unfold lookupNumber accepted submitted
  unfold ParamsOk at hp
  cases hg : getParam params kNumber with
  | none =>
    have : submitted? params = none := by simp [submitted?, hg]
    simp only [this]
    exact ⟨[], rfl, .nil⟩
  | some vs =>
    cases vs with
    | nil => exact absurd hg hp
    | cons n rest =>
      have hs : submitted? params = some n := by simp [submitted?, hg]
      simp only [hs, Option.getD_some]
      rw [results_eq mods n (hv n hs)]
      obtain ⟨infos, hm⟩ := mapM_exists (fun m => info m n) (mods.filter (accepts · n)) (by
        intro m hm
        rw [List.mem_filter] at hm
        exact hi n hs m hm.1 hm.2)
      refine ⟨infos, ?_, (mapM_ok_iff _ _ _).mp hm⟩
      rw [hm, bind_ok, pure_ok]

/-- the text that `getter(number)` contributes to the page can be encoded as UTF-8: it raised (and
is skipped), or it is a date, or `str(value)` is encodable — **any** kind of value is fine -/
def ConvEnc (r : R GetVal) : Prop :=
  match r with
  | .error _ => True
  | .ok (.date iso) => Encodable iso
  | .ok (.conv c) => Encodable (convStr c)

/-- **Assumption `A`** about the module table on the submitted number `n`:
`is_valid` is a total Boolean (C01); `format`/`compact` return strings on accepted numbers
(C04); and all text that reaches the page can be encoded as UTF-8 (no lone surrogates —
`parse_qs` never produces them from a WSGI query string).  Nothing is assumed about the *type* of
what conversion functions return. -/
structure A (descr : Str → Str) (mods : List Module) (n : Str) : Prop where
  number_enc : Encodable n
  valid_total : ∀ m ∈ mods, ∃ b, m.isValid n = .ok b
  format_str : ∀ m ∈ mods, accepts m n = true → ∃ s, m.format n = .ok (.str s) ∧ Encodable s
  compact_str : ∀ m ∈ mods, accepts m n = true → ∃ s, m.compact n = .ok (.str s)
  conv_enc : ∀ m ∈ mods, accepts m n = true → ∀ g ∈ m.getters, Encodable g.prop ∧ ConvEnc (g.run n)
  text_enc : ∀ m ∈ mods, accepts m n = true → Encodable m.name ∧ Encodable (descr m.description)

/-- no conversion function returns a value `json.dumps` rejects (Decimal, bytes, set) -/
def NoNojson (mods : List Module) (n : Str) : Prop :=
  ∀ m ∈ mods, accepts m n = true → ∀ g ∈ m.getters, ∀ t, g.run n ≠ .ok (.conv (.nojson t))

/-- the assumption that suffices in AJAX mode: values only have to be JSON-serialisable -/
structure AJson (mods : List Module) (n : Str) : Prop where
  valid_total : ∀ m ∈ mods, ∃ b, m.isValid n = .ok b
  format_json : ∀ m ∈ mods, accepts m n = true → ∃ c, m.format n = .ok c ∧ c.jsonable = true
  compact_json : ∀ m ∈ mods, accepts m n = true → ∃ c, m.compact n = .ok c ∧ c.jsonable = true
  conv_json : NoNojson mods n

theorem A.toAJson {descr : Str → Str} {mods : List Module} {n : Str} (h : A descr mods n)
    (hj : NoNojson mods n) : AJson mods n where
  valid_total := h.valid_total
  format_json := fun m hm ha => by obtain ⟨s, hs, _⟩ := h.format_str m hm ha; exact ⟨_, hs, rfl⟩
  compact_json := fun m hm ha => by obtain ⟨s, hs⟩ := h.compact_str m hm ha; exact ⟨_, hs, rfl⟩
  conv_json := hj

theorem accepts_valid {m : Module} {n : Str} (h : accepts m n = true) : m.isValid n = .ok true := by
  unfold accepts at h
  split at h
  · assumption
  · cases h

theorem yieldOf_jsonable {g : Getter} {n : Str} (h : ∀ t, g.run n ≠ .ok (.conv (.nojson t))) :
    ∀ p, yieldOf n g = some p → p.2.jsonable = true := by
  intro p hp
  unfold yieldOf at hp
  cases hr : g.run n with
  | error e => simp [hr] at hp
  | ok v =>
    cases v with
    | date iso => simp only [hr, Option.some.injEq] at hp; rw [← hp]; rfl
    | conv c =>
      cases c with
      | nojson t => exact absurd hr (h t)
      | str s =>
        simp only [hr] at hp
        split at hp
        · cases hp; rfl
        · cases hp
      | int k => simp only [hr, Option.some.injEq] at hp; rw [← hp]; rfl
      | none => simp only [hr, Option.some.injEq] at hp; rw [← hp]; rfl
      | bool b => simp only [hr, Option.some.injEq] at hp; rw [← hp]; rfl
      | other t => simp only [hr, Option.some.injEq] at hp; rw [← hp]; rfl

/-- **application_ok (AJAX mode).** For every parameter dictionary and every module table
satisfying `AJson` on the submitted number, the response has status 200 and its JSON list
consists of exactly the modules whose `is_valid` accepts the number, in table order, each
with `"valid": true`. -/
theorem application_ok_json (tpl : Str) (params : List (Str × List Str)) (descr : Str → Str)
    (mods : List Module) (hp : ParamsOk params)
    (hA : ∀ n, submitted? params = some n → AJson mods n) :
    ∃ infos, application tpl params true descr mods = .ok 200 (.json infos) ∧
      infos.map (·.module) = (accepted mods params).map (·.modname) ∧
      ∀ i ∈ infos, i.valid = true := by
  obtain ⟨infos, hl, hrel⟩ := lookupNumber_ok mods params hp (fun n hn => (hA n hn).valid_total) (by
    intro n hn m hm ha
    obtain ⟨f, hf, _⟩ := (hA n hn).format_json m hm ha
    obtain ⟨c, hc, _⟩ := (hA n hn).compact_json m hm ha
    exact ⟨_, info_of hf hc (accepts_valid ha)⟩)
  have hmem : ∀ i ∈ infos, ∃ m ∈ accepted mods params, info m (submitted params) = .ok i := hrel.mem_right
  have hacc : ∀ m ∈ accepted mods params, ∃ n, submitted? params = some n ∧ submitted params = n ∧
      m ∈ mods ∧ accepts m n = true := by
    intro m hm
    unfold accepted at hm
    cases hs : submitted? params with
    | none => simp [hs] at hm
    | some n =>
      simp only [hs, List.mem_filter] at hm
      exact ⟨n, rfl, by simp [submitted, hs], hm.1, hm.2⟩
  have hjson : infos.all Info.jsonable = true := by
    rw [List.all_eq_true]
    intro i hi
    obtain ⟨m, hm, hinfo⟩ := hmem i hi
    obtain ⟨n, hn, hsn, hmm, ha⟩ := hacc m hm
    rw [hsn] at hinfo
    obtain ⟨h1, h2, _, _, _, _, h7⟩ := info_ok hinfo
    obtain ⟨f, hf, hfj⟩ := (hA n hn).format_json m hmm ha
    obtain ⟨c, hc, hcj⟩ := (hA n hn).compact_json m hmm ha
    rw [hf] at h1; rw [hc] at h2
    cases h1; cases h2
    simp only [Info.jsonable, hfj, hcj, Bool.true_and, List.all_eq_true, h7]
    exact mem_conversions (P := fun p => p.2.jsonable = true)
      (fun g hg => yieldOf_jsonable ((hA n hn).conv_json m hmm ha g hg))
  refine ⟨infos, ?_, ?_, ?_⟩
  · unfold application respond
    rw [hl, bind_ok]
    simp [finish, hjson, pure_ok]
  · exact hrel.map_eq (·.modname) (·.module) (fun m i h => (info_ok h).2.2.2.1)
  · intro i hi
    obtain ⟨m, hm, hinfo⟩ := hmem i hi
    obtain ⟨n, hn, hsn, hmm, ha⟩ := hacc m hm
    rw [hsn] at hinfo
    have := (info_ok hinfo).2.2.1
    rw [accepts_valid ha] at this
    injection this with h
    exact h.symm


theorem yieldOf_enc {g : Getter} {n : Str} (hk : Encodable g.prop) (h : ConvEnc (g.run n)) :
    ∀ p, yieldOf n g = some p → Encodable p.1 ∧ Encodable (convStr p.2) := by
  intro p hp
  unfold yieldOf at hp
  unfold ConvEnc at h
  cases hr : g.run n with
  | error e => simp [hr] at hp
  | ok v =>
    rw [hr] at h
    cases v with
    | date iso => simp only [hr, Option.some.injEq] at hp; rw [← hp]; exact ⟨hk, h⟩
    | conv c =>
      cases c with
      | str s =>
        simp only [hr] at hp
        split at hp
        · cases hp; exact ⟨hk, h⟩
        · cases hp
      | int k => simp only [hr, Option.some.injEq] at hp; rw [← hp]; exact ⟨hk, h⟩
      | none => simp only [hr, Option.some.injEq] at hp; rw [← hp]; exact ⟨hk, h⟩
      | bool b => simp only [hr, Option.some.injEq] at hp; rw [← hp]; exact ⟨hk, h⟩
      | other t => simp only [hr, Option.some.injEq] at hp; rw [← hp]; exact ⟨hk, h⟩
      | nojson t => simp only [hr, Option.some.injEq] at hp; rw [← hp]; exact ⟨hk, h⟩

/-- what one item of the result list looks like for module `m` on number `n` -/
def ItemOf (descr : Str → Str) (n : Str) (m : Module) (e : Str) : Prop :=
  ∃ (num : Str), m.format n = .ok (.str num) ∧
    e = entryHtml descr num m.name m.description (convTexts (conversions m.getters n))

theorem accepted_mem {mods : List Module} {params : List (Str × List Str)} {m : Module}
    (hm : m ∈ accepted mods params) :
    ∃ n, submitted? params = some n ∧ submitted params = n ∧ m ∈ mods ∧ accepts m n = true := by
  unfold accepted at hm
  cases hs : submitted? params with
  | none => simp [hs] at hm
  | some n =>
    simp only [hs, List.mem_filter] at hm
    exact ⟨n, rfl, by simp [submitted, hs], hm.1, hm.2⟩

theorem items_rel (descr : Str → Str) (n : Str) : ∀ (ms : List Module) (infos : List Info) (items : List Str),
    Rel₂ (fun m i => info m n = .ok i) ms infos →
    Rel₂ (fun i e => formatEntry descr i = .ok e) infos items →
    Rel₂ (ItemOf descr n) ms items := by
  intro ms infos items h1
  induction h1 generalizing items with
  | nil => intro h2; cases h2; exact .nil
  | cons hinfo _ ih =>
    intro h2
    cases h2 with
    | cons hfe hrest =>
      refine .cons ?_ (ih _ hrest)
      obtain ⟨h1, _, _, _, h5, h6, h7⟩ := info_ok hinfo
      obtain ⟨num, hnum', rfl⟩ := (formatEntry_ok descr _ _).mp hfe
      exact ⟨num, by rw [h1, hnum'], by rw [h5, h6, h7]⟩

/-- **application_ok (HTML mode) — with the fix every conversion value yields status 200.**
For every parameter dictionary and every module table satisfying `A` on the submitted number
(`is_valid` total, `compact`/`format` strings on accepted numbers, encodable text; *no* condition
on the type of what `to_*`/`get_*` return), the response has status 200 and the page is the
template with `escape true number` in the value slot and one `<li>` item per accepted module (in
table order) in the results slot, each showing `escape true (str(conversion))`. -/
theorem application_ok_html (tpl s0 s1 s2 : Str) (params : List (Str × List Str))
    (descr : Str → Str) (mods : List Module)
    (ht : TemplateOk tpl s0 s1 s2) (hs0 : Encodable s0) (hs1 : Encodable s1) (hs2 : Encodable s2)
    (hp : ParamsOk params)
    (hA : ∀ n, submitted? params = some n → A descr mods n) :
    ∃ items, application tpl params false descr mods =
        .ok 200 (.html (s0 ++ escape true (submitted params) ++ s1 ++ join [10] items ++ s2)) ∧
      Rel₂ (ItemOf descr (submitted params)) (accepted mods params) items := by
  obtain ⟨infos, hl, hrel⟩ := lookupNumber_ok mods params hp (fun n hn => (hA n hn).valid_total) (by
    intro n hn m hm ha
    obtain ⟨f, hf, _⟩ := (hA n hn).format_str m hm ha
    obtain ⟨c, hc⟩ := (hA n hn).compact_str m hm ha
    exact ⟨_, info_of hf hc (accepts_valid ha)⟩)
  have hmem : ∀ i ∈ infos, ∃ m ∈ accepted mods params, info m (submitted params) = .ok i := hrel.mem_right
  -- every record formats, and the item is encodable
  have hfmt : ∀ i ∈ infos, ∃ e, formatEntry descr i = .ok e := by
    intro i hi
    obtain ⟨m, hm, hinfo⟩ := hmem i hi
    obtain ⟨n, hn, hsn, hmm, ha⟩ := accepted_mem hm
    rw [hsn] at hinfo
    obtain ⟨h1, _, _, _, _, _, _⟩ := info_ok hinfo
    obtain ⟨f, hf, _⟩ := (hA n hn).format_str m hmm ha
    rw [hf] at h1
    exact ⟨_, formatEntry_total descr i f (by injection h1 with h; exact h.symm)⟩
  obtain ⟨items, hitems⟩ := mapM_exists (formatEntry descr) infos hfmt
  have hrel2 := (mapM_ok_iff _ _ _).mp hitems
  have henc : ∀ e ∈ items, Encodable e := by
    intro e he
    obtain ⟨i, hi, hie⟩ := hrel2.mem_right e he
    obtain ⟨m, hm, hinfo⟩ := hmem i hi
    obtain ⟨n, hn, hsn, hmm, ha⟩ := accepted_mem hm
    rw [hsn] at hinfo
    obtain ⟨h1, _, _, _, h5, h6, h7⟩ := info_ok hinfo
    obtain ⟨num, hnum, rfl⟩ := (formatEntry_ok descr i e).mp hie
    obtain ⟨f, hf, hfe⟩ := (hA n hn).format_str m hmm ha
    rw [hf, hnum] at h1
    injection h1 with h1; injection h1 with h1; subst h1
    rw [h5, h6]
    apply encodable_entry hfe ((hA n hn).text_enc m hmm ha).1 ((hA n hn).text_enc m hmm ha).2
    intro q hq
    rw [h7, convTexts, List.mem_map] at hq
    obtain ⟨p, hp, rfl⟩ := hq
    exact mem_conversions (P := fun p => Encodable p.1 ∧ Encodable (convStr p.2))
      (fun g hg => yieldOf_enc ((hA n hn).conv_enc m hmm ha g hg).1 ((hA n hn).conv_enc m hmm ha g hg).2) _ hp
  have hnum : Encodable (submitted params) := by
    unfold submitted
    cases hs : submitted? params with
    | none => exact encodable_nil
    | some n => exact (hA n hs).number_enc
  have hbody : Encodable (s0 ++ escape true (submitted params) ++ s1 ++ join [10] items ++ s2) := by
    simp only [encodable_append]
    exact ⟨⟨⟨⟨hs0, encodable_escape _ hnum⟩, hs1⟩, encodable_join henc⟩, hs2⟩
  refine ⟨items, ?_, ?_⟩
  · unfold application respond
    rw [hl, bind_ok]
    simp only [finish, Bool.false_eq_true, if_false]
    rw [hitems, bind_ok, ht, bind_ok, if_pos (decide_eq_true hbody), pure_ok]
  · exact items_rel descr _ _ _ _ hrel hrel2

/-- **application_ok.** Both modes together: for every parameter dictionary satisfying the
`parse_qs` contract, every mode, and every module table satisfying `A` on the submitted number,
the status is 200; in AJAX mode the JSON list names exactly the modules whose `is_valid` is
true, in table order; in HTML mode the page is the template filled with the escaped number and
one item per such module.  AJAX mode additionally needs the conversion values to be
JSON-serialisable (`NoNojson`: a `Decimal` would make `json.dumps` raise). -/
theorem application_ok (tpl s0 s1 s2 : Str) (params : List (Str × List Str)) (ajax : Bool)
    (descr : Str → Str) (mods : List Module)
    (ht : TemplateOk tpl s0 s1 s2) (hs0 : Encodable s0) (hs1 : Encodable s1) (hs2 : Encodable s2)
    (hp : ParamsOk params)
    (hA : ∀ n, submitted? params = some n → A descr mods n)
    (hJ : ajax = true → ∀ n, submitted? params = some n → NoNojson mods n) :
    ∃ body, application tpl params ajax descr mods = .ok 200 body ∧
      match body with
      | .json infos => ajax = true ∧
          infos.map (·.module) = (accepted mods params).map (·.modname) ∧ ∀ i ∈ infos, i.valid = true
      | .html text => ajax = false ∧ ∃ items,
          text = s0 ++ escape true (submitted params) ++ s1 ++ join [10] items ++ s2 ∧
          Rel₂ (ItemOf descr (submitted params)) (accepted mods params) items := by
  cases ajax with
  | true =>
    obtain ⟨infos, h1, h2, h3⟩ := application_ok_json tpl params descr mods hp (fun n hn => (hA n hn).toAJson (hJ rfl n hn))
    exact ⟨_, h1, rfl, h2, h3⟩
  | false =>
    obtain ⟨items, h1, h2⟩ := application_ok_html tpl s0 s1 s2 params descr mods ht hs0 hs1 hs2 hp hA
    exact ⟨_, h1, rfl, items, rfl, h2⟩

/-- **page_value_escaped.** Without any assumption on the modules: whenever the application
answers in HTML mode, the status is 200 and the page is
`seg0 ++ escape true number ++ seg1 ++ results ++ seg2` with the segments coming from the
template, `results` being the `'\n'`-join of one item per record, and every item being
`entryHtml` of the formatted number and the `str()` texts of the conversions — i.e. the number
enters the page only through `escape true`, directly or via `format(number)`/conversion results. -/
theorem page_value_escaped (tpl s0 s1 s2 : Str) (params : List (Str × List Str))
    (descr : Str → Str) (mods : List Module) (ht : TemplateOk tpl s0 s1 s2)
    (st : Nat) (text : Str)
    (h : application tpl params false descr mods = .ok st (.html text)) :
    st = 200 ∧ ∃ infos items,
      lookupNumber mods params = .ok (submitted params, infos) ∧
      text = s0 ++ escape true (submitted params) ++ s1 ++ join [10] items ++ s2 ∧
      Rel₂ (fun (i : Info) e => ∃ (num : Str), i.number = .str num ∧
        e = entryHtml descr num i.name i.description (convTexts i.conversions)) infos items := by
  unfold application respond at h
  cases hl : lookupNumber mods params with
  | error e => rw [hl, bind_error] at h; cases h
  | ok r =>
    obtain ⟨n, infos⟩ := r
    have hn := lookupNumber_fst hl
    subst hn
    rw [hl, bind_ok] at h
    simp only [finish, Bool.false_eq_true, if_false] at h
    cases hm : infos.mapM (formatEntry descr) with
    | error e => rw [hm, bind_error] at h; cases h
    | ok items =>
      rw [hm, bind_ok, ht, bind_ok] at h
      by_cases hd : decide (Encodable (s0 ++ escape true (submitted params) ++ s1 ++ join [10] items ++ s2)) = true
      · rw [if_pos hd, pure_ok] at h
        injection h with h1 h2
        injection h2 with h2
        refine ⟨h1.symm, infos, items, rfl, h2.symm, ?_⟩
        exact ((mapM_ok_iff _ _ _).mp hm).imp (fun i _ e he => (formatEntry_ok descr i e).mp he)
      · rw [if_neg hd] at h; cases h

/-- in AJAX mode an answer always has status 200 and lists the computed records -/
theorem application_json_shape (tpl : Str) (params : List (Str × List Str))
    (descr : Str → Str) (mods : List Module) (ajax : Bool) (st : Nat) (infos : List Info)
    (h : application tpl params ajax descr mods = .ok st (.json infos)) :
    st = 200 ∧ ajax = true ∧ lookupNumber mods params = .ok (submitted params, infos) := by
  unfold application respond at h
  cases hl : lookupNumber mods params with
  | error e => rw [hl, bind_error] at h; cases h
  | ok r =>
    obtain ⟨n, res⟩ := r
    have hn := lookupNumber_fst hl
    subst hn
    rw [hl, bind_ok] at h
    cases ajax with
    | true =>
      simp only [finish, if_true] at h
      by_cases hj : res.all Info.jsonable = true
      · rw [if_pos hj, pure_ok] at h
        injection h with h1 h2
        injection h2 with h2
        exact ⟨h1.symm, rfl, by rw [h2]⟩
      · rw [if_neg hj] at h; cases h
    | false =>
      simp only [finish, Bool.false_eq_true, if_false] at h
      cases hm : res.mapM (formatEntry descr) with
      | error e => rw [hm, bind_error] at h; cases h
      | ok items =>
        rw [hm, bind_ok] at h
        cases hpg : page tpl (escape true (submitted params)) (join [10] items) with
        | error e => rw [hpg, bind_error] at h; cases h
        | ok b =>
          rw [hpg, bind_ok] at h
          by_cases hd : decide (Encodable b) = true
          · rw [if_pos hd, pure_ok] at h
            injection h with h1 h2
            cases h2
          · rw [if_neg hd] at h; cases h


/-! ## server errors -/

theorem Rel₂.mem_left {α β : Type} {R : α → β → Prop} {l : List α} {r : List β}
    (h : Rel₂ R l r) : ∀ a ∈ l, ∃ b ∈ r, R a b := by
  induction h with
  | nil => intro a ha; simp at ha
  | cons h1 _ ih =>
    intro a ha
    simp only [List.mem_cons] at ha
    rcases ha with rfl | ha
    · exact ⟨_, by simp, h1⟩
    · obtain ⟨b, hb, hr⟩ := ih a ha; exact ⟨b, by simp [hb], hr⟩

/-- The failure mode that is left in `format()`: if everything before it goes well but `format(number)`
of one accepted module returns a non-string, the HTML request dies with `AttributeError`
(`html.escape(data['number'])` is not wrapped in `str()`).  Excluded by `A.format_str` (C04). -/
theorem application_server_error (tpl : Str) (params : List (Str × List Str))
    (descr : Str → Str) (mods : List Module) (n : Str)
    (hn : submitted? params = some n)
    (hv : ∀ m ∈ mods, ∃ b, m.isValid n = .ok b)
    (hf : ∀ m ∈ mods, accepts m n = true → ∃ f c, m.format n = .ok f ∧ m.compact n = .ok c)
    (hbad : ∃ m ∈ mods, accepts m n = true ∧ ∃ f, m.format n = .ok f ∧ ∀ s, f ≠ Conv.str s) :
    application tpl params false descr mods = .serverError .attributeError := by
  have hp : ParamsOk params := by
    unfold ParamsOk; intro h; simp [submitted?, h] at hn
  have hsub : submitted params = n := by simp [submitted, hn]
  obtain ⟨infos, hl, hrel⟩ := lookupNumber_ok mods params hp
    (fun n' hn' => by rw [hn] at hn'; cases hn'; exact hv)
    (fun n' hn' m hm ha => by
      rw [hn] at hn'; cases hn'
      obtain ⟨f, c, h1, h2⟩ := hf m hm ha
      exact ⟨_, info_of h1 h2 (accepts_valid ha)⟩)
  obtain ⟨m, hm, ha, f, hfm, hne⟩ := hbad
  have hmacc : m ∈ accepted mods params := by
    simp only [accepted, hn, List.mem_filter]; exact ⟨hm, ha⟩
  obtain ⟨i, hi, hinfo⟩ := hrel.mem_left m hmacc
  rw [hsub] at hinfo
  have hnum := (info_ok hinfo).1
  rw [hfm] at hnum
  have hfail : ∃ e, formatEntry descr i = .error e := by
    cases hfe : formatEntry descr i with
    | error e => exact ⟨e, rfl⟩
    | ok e =>
      obtain ⟨num, hnum', _⟩ := (formatEntry_ok _ _ _).mp hfe
      rw [hnum'] at hnum
      injection hnum with hnum
      exact absurd hnum (hne num)
  have hmap : infos.mapM (formatEntry descr) = .error .attributeError :=
    mapM_error_of_mem _ _ _ (fun a _ e he => (formatEntry_error descr a e he).1) ⟨i, hi, hfail⟩
  unfold application respond
  rw [hl, bind_ok]
  simp only [finish, Bool.false_eq_true, if_false]
  rw [hmap, bind_error]

/-! ## the `_template` cache -/

/-- invariant of the module global: unset, or the content of the template file -/
def CacheInv (file : R Str) (st : Option Str) : Prop :=
  st = none ∨ ∃ t, st = some t ∧ file = .ok t

theorem serve_fresh (file : R Str) (descr : Str → Str) (mods : List Module)
    (st : Option Str) (rq : Req) (h : CacheInv file st) :
    (serve file descr mods st rq).1 = (serve file descr mods none rq).1 ∧
    CacheInv file (serve file descr mods st rq).2 := by
  rcases h with rfl | ⟨t, rfl, hfile⟩
  · refine ⟨rfl, ?_⟩
    unfold serve
    cases file with
    | error e => exact Or.inl rfl
    | ok t => exact Or.inr ⟨t, rfl, rfl⟩
  · unfold serve
    rw [hfile]
    by_cases he : t.isEmpty = true
    · simp only [he, if_true]
      exact ⟨trivial, Or.inr ⟨t, rfl, rfl⟩⟩
    · simp only [he, Bool.false_eq_true, if_false, if_true]
      exact ⟨trivial, Or.inr ⟨t, rfl, rfl⟩⟩

/-- **Sequence theorem.** For any list of requests served by one process (template file
constant), each response equals the response a fresh process gives to the same request. -/
theorem runSeq_fresh (file : R Str) (descr : Str → Str) (mods : List Module) (reqs : List Req) :
    ∀ st, CacheInv file st →
      runSeq file descr mods st reqs = reqs.map (fun rq => (serve file descr mods none rq).1) := by
  induction reqs with
  | nil => intro st _; rfl
  | cons rq reqs ih =>
    intro st h
    obtain ⟨h1, h2⟩ := serve_fresh file descr mods st rq h
    simp only [runSeq, List.map_cons, h1, ih _ h2]

theorem runSeq_fresh_process (file : R Str) (descr : Str → Str) (mods : List Module) (reqs : List Req) :
    runSeq file descr mods none reqs = reqs.map (fun rq => (serve file descr mods none rq).1) :=
  runSeq_fresh file descr mods reqs none (Or.inl rfl)

/-- a fresh process answers with `application` on the file content -/
theorem serve_none_ok (t : Str) (descr : Str → Str) (mods : List Module) (rq : Req) :
    (serve (.ok t) descr mods none rq).1 = application t rq.params rq.ajax descr mods := rfl

/-! ## non-vacuity: the shipped template, a concrete table, concrete requests -/

-- online_check/template.html (sha256 10199131…cb19b), split at its two conversions
def tplHead : Str :=
  [60, 104, 116, 109, 108, 62, 10, 60, 104, 101, 97, 100, 62, 10, 32, 60, 116, 105, 116, 108, 101, 62, 112, 121,
   116, 104, 111, 110, 45, 115, 116, 100, 110, 117, 109, 58, 32, 99, 104, 101, 99, 107, 32, 110, 117, 109, 98, 101,
   114, 115, 60, 47, 116, 105, 116, 108, 101, 62, 10, 32, 60, 109, 101, 116, 97, 32, 110, 97, 109, 101, 61, 34,
   97, 117, 116, 104, 111, 114, 34, 32, 99, 111, 110, 116, 101, 110, 116, 61, 34, 65, 114, 116, 104, 117, 114, 32,
   100, 101, 32, 74, 111, 110, 103, 34, 62, 10, 32, 60, 115, 99, 114, 105, 112, 116, 32, 115, 114, 99, 61, 34,
   106, 113, 117, 101, 114, 121, 45, 51, 46, 53, 46, 49, 46, 109, 105, 110, 46, 106, 115, 34, 62, 10, 32, 60,
   115, 99, 114, 105, 112, 116, 32, 115, 114, 99, 61, 34, 99, 104, 101, 99, 107, 46, 106, 115, 34, 62, 10, 60,
   47, 104, 101, 97, 100, 62, 10, 60, 98, 111, 100, 121, 62, 10, 32, 60, 104, 49, 62, 67, 104, 101, 99, 107,
   32, 110, 117, 109, 98, 101, 114, 115, 60, 47, 104, 49, 62, 10, 32, 60, 112, 62, 10, 32, 32, 69, 110, 116,
   101, 114, 32, 97, 32, 110, 117, 109, 98, 101, 114, 32, 97, 110, 100, 32, 115, 101, 101, 32, 105, 102, 10, 32,
   32, 60, 97, 32, 104, 114, 101, 102, 61, 34, 104, 116, 116, 112, 115, 58, 47, 47, 97, 114, 116, 104, 117, 114,
   100, 101, 106, 111, 110, 103, 46, 111, 114, 103, 47, 112, 121, 116, 104, 111, 110, 45, 115, 116, 100, 110, 117, 109,
   47, 34, 62, 112, 121, 116, 104, 111, 110, 45, 115, 116, 100, 110, 117, 109, 60, 47, 97, 62, 10, 32, 32, 114,
   101, 99, 111, 103, 110, 105, 115, 101, 115, 32, 105, 116, 46, 10, 32, 32, 73, 116, 32, 99, 104, 101, 99, 107,
   115, 32, 97, 108, 108, 32, 115, 117, 112, 112, 111, 114, 116, 101, 100, 32, 102, 111, 114, 109, 97, 116, 115, 32,
   116, 111, 32, 102, 105, 110, 100, 32, 116, 104, 101, 32, 102, 111, 114, 109, 97, 116, 115, 32, 102, 111, 114, 10,
   32, 32, 119, 104, 105, 99, 104, 32, 105, 116, 32, 105, 115, 32, 118, 97, 108, 105, 100, 46, 10, 32, 60, 47,
   112, 62, 10, 32, 60, 102, 111, 114, 109, 62, 10, 32, 32, 60, 105, 110, 112, 117, 116, 32, 105, 100, 61, 34,
   110, 117, 109, 98, 101, 114, 34, 32, 110, 97, 109, 101, 61, 34, 110, 117, 109, 98, 101, 114, 34, 32, 116, 121,
   112, 101, 61, 34, 116, 101, 120, 116, 34, 32, 118, 97, 108, 117, 101, 61, 34]
def tplMid : Str :=
  [34, 32, 99, 108, 97, 115, 115, 61, 34, 115, 116, 100, 110, 117, 109, 95, 99, 104, 101, 99, 107, 34, 32, 112,
   108, 97, 99, 101, 104, 111, 108, 100, 101, 114, 61, 34, 69, 110, 116, 101, 114, 32, 110, 117, 109, 98, 101, 114,
   32, 104, 101, 114, 101, 34, 62, 10, 32, 32, 60, 105, 110, 112, 117, 116, 32, 116, 121, 112, 101, 61, 34, 115,
   117, 98, 109, 105, 116, 34, 32, 118, 97, 108, 117, 101, 61, 34, 67, 104, 101, 99, 107, 34, 32, 99, 108, 97,
   115, 115, 61, 34, 115, 116, 100, 110, 117, 109, 95, 104, 105, 100, 101, 34, 62, 10, 32, 60, 47, 102, 111, 114,
   109, 62, 10, 32, 60, 100, 105, 118, 32, 105, 100, 61, 34, 110, 117, 109, 98, 101, 114, 95, 114, 101, 115, 117,
   108, 116, 115, 34, 62, 60, 117, 108, 62]
def tplTail : Str :=
  [60, 47, 117, 108, 62, 60, 47, 100, 105, 118, 62, 10, 60, 47, 98, 111, 100, 121, 62, 10, 60, 47, 104, 116,
   109, 108, 62, 10]

/-- the text of `online_check/template.html` -/
def tplReal : Str := tplHead ++ cValue ++ tplMid ++ cResults ++ tplTail

/-- the shipped template contains exactly the two conversions and no other `%` -/
theorem tplReal_shape : Shape tplReal tplHead tplMid tplTail :=
  ⟨tplHead, tplMid, tplTail, rfl, by decide +kernel, by decide +kernel, by decide +kernel⟩

theorem tplReal_ok : TemplateOk tplReal tplHead tplMid tplTail := page_of_shape tplReal_shape

theorem tplReal_encodable : Encodable tplHead ∧ Encodable tplMid ∧ Encodable tplTail := by
  decide +kernel

/-- a model of `stdnum.be.nn` on its documented number: accepted, formatted, a gender string, a
birth date, and `get_birth_year` returning an `int` -/
def beNN : Module where
  modname := [98, 101, 46, 110, 110]            -- "be.nn"
  name := [78, 78]                              -- "NN"
  description := [60, 78, 78, 62]               -- "<NN>"
  isValid := fun n => .ok (n == [56, 53, 48, 55, 51, 48, 48, 51, 51, 50, 56])
  compact := fun n => .ok (.str n)
  format := fun n => .ok (.str (n ++ [46]))
  getters := [⟨[98, 105, 114, 116, 104, 32, 100, 97, 116, 101], fun _ => .ok (.date [49, 57, 56, 53])⟩,   -- birth date
              ⟨[98, 105, 114, 116, 104, 32, 112, 108, 97, 99, 101], fun _ => .ok (.conv (.other [123, 39, 60, 39, 125]))⟩, -- birth place: "{'<'}"
              ⟨[98, 105, 114, 116, 104, 32, 121, 101, 97, 114], fun _ => .ok (.conv (.int 1985))⟩,        -- birth year
              ⟨[103, 101, 110, 100, 101, 114], fun _ => .ok (.conv .none)⟩,                                -- gender
              ⟨[109], fun _ => .ok (.conv (.int (-7)))⟩,
              ⟨[111, 107], fun _ => .ok (.conv (.bool true))⟩,
              ⟨[120], fun _ => .error .invalidChecksum⟩]

/-- a module with a getter returning a `Decimal` — fine for the page, not for `json.dumps` -/
def decMod : Module :=
  { beNN with modname := [100], getters := [⟨[100], fun _ => .ok (.conv (.nojson [49, 46, 53, 48]))⟩] }

/-- a module whose `format` returns an `int` (violates C04) -/
def badFormat : Module := { beNN with modname := [98], format := fun _ => .ok (.int 5), getters := [] }

/-- a module that rejects everything -/
def rejecting : Module :=
  { beNN with modname := [120], isValid := fun _ => .ok false, format := fun _ => .error .valueError }

def num85 : Str := [56, 53, 48, 55, 51, 48, 48, 51, 51, 50, 56]  -- "85073003328"
def params85 : List (Str × List Str) := [([120], [[49]]), (kNumber, [num85, [60]])]

/-- the record `info(be.nn, '85073003328')` of the model table -/
def beNNinfo : Info where
  number := .str (num85 ++ [46])
  compact := .str num85
  valid := true
  module := beNN.modname
  name := beNN.name
  description := beNN.description
  conversions := [([98, 105, 114, 116, 104, 32, 100, 97, 116, 101], .str [49, 57, 56, 53]),
                  ([98, 105, 114, 116, 104, 32, 112, 108, 97, 99, 101], .other [123, 39, 60, 39, 125]),
                  ([98, 105, 114, 116, 104, 32, 121, 101, 97, 114], .int 1985),
                  ([103, 101, 110, 100, 101, 114], .none),
                  ([109], .int (-7)),
                  ([111, 107], .bool true)]

/-- the `<li>` item for that record: every conversion shown as `escape true (str(value))` -/
def item85 : Str :=
  entryHtml id (num85 ++ [46]) beNN.name beNN.description
    [([98, 105, 114, 116, 104, 32, 100, 97, 116, 101], [49, 57, 56, 53]),
     ([98, 105, 114, 116, 104, 32, 112, 108, 97, 99, 101], [123, 39, 60, 39, 125]),
     ([98, 105, 114, 116, 104, 32, 121, 101, 97, 114], [49, 57, 56, 53]),          -- "1985"
     ([103, 101, 110, 100, 101, 114], [78, 111, 110, 101]),                        -- "None"
     ([109], [45, 55]),                                                            -- "-7"
     ([111, 107], [84, 114, 117, 101])]                                            -- "True"

def page85 : Str := tplHead ++ num85 ++ tplMid ++ item85 ++ tplTail

/-- **The fix, on the concrete instance.** `?number=85073003328` on the model of `be.nn` (getters
returning a date, a dict, two ints, `None`, a bool, and one that raises) is answered in both modes;
the markup characters in the dict's text reach the page only escaped.  (The second value of
`number` and the parameter `x` are ignored.) -/
theorem application_fixed_witness :
    application tplReal params85 false id [rejecting, beNN] = .ok 200 (.html page85) ∧
    application tplReal params85 true id [rejecting, beNN] = .ok 200 (.json [beNNinfo]) := by
  refine ⟨by decide +kernel, by decide +kernel⟩

/-- HISTORICAL (before upstream commit 6b1a6e2): the same record made the old `format()` raise
`AttributeError`; the current `format()` renders it. -/
theorem formatEntry_fix_witness :
    formatEntryOld id beNNinfo = .error .attributeError ∧ formatEntry id beNNinfo = .ok item85 := by
  refine ⟨by decide +kernel, by decide +kernel⟩

/-- a `Decimal` conversion: the page is served, the AJAX request still fails in `json.dumps` -/
example : application tplReal params85 false id [decMod] = .ok 200 (.html (tplHead ++ num85 ++ tplMid ++
      entryHtml id (num85 ++ [46]) beNN.name beNN.description [([100], [49, 46, 53, 48])] ++ tplTail)) ∧
    application tplReal params85 true id [decMod] = .serverError .typeError := by
  refine ⟨by decide +kernel, by decide +kernel⟩

/-- the remaining failure mode of `format()` (instance of `application_server_error`): `format(number)`
itself returning a non-string -/
example : application tplReal params85 false id [rejecting, badFormat] = .serverError .attributeError :=
  application_server_error tplReal params85 id [rejecting, badFormat] num85 (by decide +kernel)
    (by intro m hm; simp only [List.mem_cons, List.mem_nil_iff, or_false] at hm
        rcases hm with rfl | rfl <;> exact ⟨_, rfl⟩)
    (by intro m hm ha; simp only [List.mem_cons, List.mem_nil_iff, or_false] at hm
        rcases hm with rfl | rfl
        · cases ha
        · exact ⟨_, _, rfl, rfl⟩)
    ⟨badFormat, by simp, by decide +kernel, .int 5, rfl, by intro s h; cases h⟩

/-- `A` is satisfiable on a non-trivial table: one rejecting module whose `format` would raise, and
the module above whose getters return every kind of value -/
theorem A_all : A id [rejecting, beNN] num85 where
  number_enc := by decide +kernel
  valid_total := by
    intro m hm; simp only [List.mem_cons, List.mem_nil_iff, or_false] at hm
    rcases hm with rfl | rfl <;> exact ⟨_, rfl⟩
  format_str := by
    intro m hm ha; simp only [List.mem_cons, List.mem_nil_iff, or_false] at hm
    rcases hm with rfl | rfl
    · cases ha
    · exact ⟨_, rfl, by decide +kernel⟩
  compact_str := by
    intro m hm ha; simp only [List.mem_cons, List.mem_nil_iff, or_false] at hm
    rcases hm with rfl | rfl
    · cases ha
    · exact ⟨_, rfl⟩
  conv_enc := by
    intro m hm ha; simp only [List.mem_cons, List.mem_nil_iff, or_false] at hm
    rcases hm with rfl | rfl
    · cases ha
    · intro g hg
      simp only [beNN, List.mem_cons, List.mem_nil_iff, or_false] at hg
      rcases hg with rfl | rfl | rfl | rfl | rfl | rfl | rfl <;>
        exact ⟨by decide +kernel, by simp only [ConvEnc] <;> decide +kernel⟩
  text_enc := by
    intro m hm ha; simp only [List.mem_cons, List.mem_nil_iff, or_false] at hm
    rcases hm with rfl | rfl
    · cases ha
    · exact ⟨by decide +kernel, by decide +kernel⟩

theorem noNojson_all : NoNojson [rejecting, beNN] num85 := by
  intro m hm ha g hg t
  simp only [List.mem_cons, List.mem_nil_iff, or_false] at hm
  rcases hm with rfl | rfl
  · cases ha
  · simp only [beNN, List.mem_cons, List.mem_nil_iff, or_false] at hg
    rcases hg with rfl | rfl | rfl | rfl | rfl | rfl | rfl <;> intro h <;> cases h

/-- `application_ok` instantiated: real template, the table above, both modes -/
example (ajax : Bool) : ∃ body, application tplReal params85 ajax id [rejecting, beNN] = .ok 200 body :=
  have hs : ∀ n, submitted? params85 = some n → n = num85 := by
    intro n hn
    have h : submitted? params85 = some num85 := by decide +kernel
    rw [h] at hn; cases hn; rfl
  let ⟨b, h, _⟩ := application_ok tplReal tplHead tplMid tplTail params85 ajax id [rejecting, beNN]
    tplReal_ok tplReal_encodable.1 tplReal_encodable.2.1 tplReal_encodable.2.2
    (by unfold ParamsOk; decide +kernel)
    (fun n hn => by rw [hs n hn]; exact A_all)
    (fun _ n hn => by rw [hs n hn]; exact noNojson_all)
  ⟨b, h⟩

/-- escaping a hostile number: `<x9q">'&` -/
example : escape true [60, 120, 57, 113, 34, 62, 39, 38] =
    entLt ++ [120, 57, 113] ++ entQuot ++ entGt ++ entApos ++ entAmp := by decide +kernel
/-- already-escaped text is escaped again (`&amp;lt;` → `&amp;amp;lt;`), and decodes back -/
example : escape true (entAmp ++ [108, 116, 59]) = entAmp ++ [97, 109, 112, 59, 108, 116, 59] ∧
    unescape (escape true (entAmp ++ [108, 116, 59])) = entAmp ++ [108, 116, 59] := by decide +kernel
/-- `quote=False` leaves quotes alone -/
example : escape false [34, 39, 60] = [34, 39] ++ entLt := by decide +kernel
/-- order of the replacements matters: doing `&` last would double-escape -/
example : replace1 38 entAmp (replace1 60 entLt [60]) ≠ escape true [60] := by decide +kernel
/-- templates outside the accepted shape are rejected: stray `%`, unknown key -/
example : page [37] [] [] = .error .valueError ∧ page [37, 40, 120, 41, 115] [] [] = .error .keyError ∧
    page [37, 37, 37, 40, 118, 97, 108, 117, 101, 41, 115] [65] [] = .ok [37, 65] := by decide +kernel
/-- the cache: an empty template file is re-read on every request, a missing one fails every time -/
example : runSeq (.error .other) id [] none [⟨[], true⟩, ⟨[], false⟩] =
    [.serverError .other, .serverError .other] := by decide +kernel
/-- the hostile number appears in the page escaped, in the value slot -/
example : application tplReal [(kNumber, [[60, 34]])] false id [rejecting] =
    .ok 200 (.html (tplHead ++ (entLt ++ entQuot) ++ tplMid ++ [] ++ tplTail)) := by decide +kernel
/-- a lone surrogate in the number makes `.encode('utf-8')` fail (cannot come out of `parse_qs`) -/
example : application tplReal [(kNumber, [[0xD800]])] false id [] = .serverError .unicodeError := by
  decide +kernel
/-- `parameters['number']` empty (cannot come out of `parse_qs`) -/
example : application tplReal [(kNumber, [])] true id [] = .serverError .indexError := by decide +kernel

end Props.C18

#print axioms Props.C18.escape_eq_flatMap
#print axioms Props.C18.escape_safe
#print axioms Props.C18.escape_injective
#print axioms Props.C18.escape_inverse
#print axioms Props.C18.page_of_shape
#print axioms Props.C18.formatEntry_ok
#print axioms Props.C18.formatEntry_error
#print axioms Props.C18.page_value_escaped
#print axioms Props.C18.application_json_shape
#print axioms Props.C18.application_ok_json
#print axioms Props.C18.application_ok_html
#print axioms Props.C18.application_ok
#print axioms Props.C18.application_server_error
#print axioms Props.C18.formatEntry_total
#print axioms Props.C18.encodable_convStr
#print axioms Props.C18.application_fixed_witness
#print axioms Props.C18.formatEntry_fix_witness
#print axioms Props.C18.runSeq_fresh
#print axioms Props.C18.runSeq_fresh_process
#print axioms Props.C18.tplReal_shape
#print axioms Props.C18.A_all
