import Gen.my_nric
import Gen.id_nik
import Gen.gr_amka
import Gen.kr_rrn
import Gen.cz_rc
import Gen.lt_asmens
import Props.C12d
import Props.C11data.my_bp_link
import Props.C11data.id_loc_link
/-!
# C12 (value consistency, part 3, continued) — my.nric, id.nik, gr.amka, kr.rrn, cz.rc, lt.asmens
-/
namespace Props.C12
open Py Lemmas.Refine Props.C17 Props.C08

set_option linter.unusedVariables false
set_option linter.unusedSimpArgs false

/-- unfolding set for `try`/`except` blocks once the result of the body is known -/
macro "try_simp" "at" h:ident : tactic =>
  `(tactic| simp [tryCatch, tryCatchThe, MonadExceptOf.tryCatch, Except.tryCatch, Py.earlyReturn_eq,
      EarlyReturn.runK, raise, bind_ok, pure_ok] at $h:ident)

/-! ## my.nric : `YYMMDD`; 19YY if that is a calendar date, else 20YY -/

theorem my_nric_ok {x v : Str} (h : Gen.my_nric.validate x = .ok v) :
    AllIn isAsciiDigit v ∧ v.length = 12 ∧ ∃ d, Gen.my_nric.get_birth_date v = .ok d := by
  unfold Gen.my_nric.validate Gen.my_nric.compact at h
  invert_validate h
  obtain ⟨hl, hd, a, ha, _, _, rfl⟩ := h
  exact ⟨((isDigitsB_iff _).mp hd).2, by omega, a, ha⟩

theorem my_nric_birth_date (x v : Str) (d : Date) (h : Gen.my_nric.validate x = .ok v)
    (hd : Gen.my_nric.get_birth_date v = .ok d) :
    d.Valid ∧ d.day = fld v 4 6 ∧ d.month = fld v 2 4 ∧ d.year % 100 = fld v 0 2 ∧
      (d.year = fld v 0 2 + 1900 ∨
        (d.year = fld v 0 2 + 2000 ∧ ∀ r, mkDate (fld v 0 2 + 1900) (fld v 2 4) (fld v 4 6) ≠ .ok r)) := by
  obtain ⟨hD, hl, _⟩ := my_nric_ok h
  have hc : Gen.my_nric.compact v = .ok v := by
    unfold Gen.my_nric.compact
    simp only [clean_eq, bind_ok, pure_ok, digits_clean_strip hD [32, 45, 42] (by decide)]
  unfold Gen.my_nric.get_birth_date at hd
  simp only [hc, bind_ok, intOf_fld hD 0 2 0 2 rfl rfl (by omega) (by omega),
    intOf_fld hD 2 4 2 4 rfl rfl (by omega) (by omega), intOf_fld hD 4 6 4 6 rfl rfl (by omega) (by omega)] at hd
  have hy := fld2 hD 0 2
  cases h1 : mkDate (fld v 0 2 + 1900) (fld v 2 4) (fld v 4 6) with
  | ok r =>
    rw [h1] at hd
    try_simp at hd
    subst hd
    obtain ⟨hv, hyr, hmo, hdd⟩ := mkDate_valid h1
    exact ⟨hv, hdd, hmo, by omega, Or.inl hyr⟩
  | error e =>
    rw [h1] at hd
    cases h2 : mkDate (fld v 0 2 + 2000) (fld v 2 4) (fld v 4 6) with
    | ok r =>
      rw [h2] at hd
      try_simp at hd
      cases hcb : e.caughtBy Exc.valueError <;> simp [hcb] at hd
      subst hd
      obtain ⟨hv, hyr, hmo, hdd⟩ := mkDate_valid h2
      exact ⟨hv, hdd, hmo, by omega, Or.inr ⟨hyr, fun r hr => by cases hr⟩⟩
    | error e2 =>
      rw [h2] at hd
      try_simp at hd
      cases hcb : e.caughtBy Exc.valueError <;> cases hcb2 : e2.caughtBy Exc.valueError <;> simp [hcb, hcb2] at hd

/- `validate` looks the birth place up in the embedded registry `my/bp.dat`: evaluated on the kernel-proved dump -/
example : Gen.my_nric.validate (str% "770305-02-1234") = .ok (str% "770305021234") := by
  unfold Gen.my_nric.validate Gen.my_nric.get_birth_place
  rw [Props.C11.Data.my_bp.db_eq]
  decide +kernel
example : Gen.my_nric.get_birth_date (str% "770305021234") = .ok ⟨1977, 3, 5⟩ := by decide +kernel

/-! ## id.nik : `DDMMYY` at positions 6–12, day `+40` for women; 19YY if that is a calendar date, else 20YY -/

theorem id_nik_ok {x v : Str} (h : Gen.id_nik.validate x = .ok v) :
    AllIn isAsciiDigit v ∧ v.length = 16 ∧ ∃ d, Gen.id_nik.get_birth_date v 1920 = .ok d := by
  unfold Gen.id_nik.validate Gen.id_nik.compact at h
  invert_validate h
  obtain ⟨hd, hl, a, ha, _, _, rfl⟩ := h
  exact ⟨((isDigitsB_iff _).mp hd).2, by omega, a, ha⟩

theorem id_nik_birth_date (x v : Str) (minyear : Int) (d : Date) (h : Gen.id_nik.validate x = .ok v)
    (hd : Gen.id_nik.get_birth_date v minyear = .ok d) :
    d.Valid ∧ d.day = fld v 6 8 % 40 ∧ d.month = fld v 8 10 ∧ d.year % 100 = fld v 10 12 ∧
      (d.year = fld v 10 12 + 1900 ∨
        (d.year = fld v 10 12 + 2000 ∧ ∀ r, mkDate (fld v 10 12 + 1900) (fld v 8 10) (fld v 6 8 % 40) ≠ .ok r)) := by
  obtain ⟨hD, hl, _⟩ := id_nik_ok h
  have hc : Gen.id_nik.compact v = .ok v := by
    unfold Gen.id_nik.compact
    simp only [clean_eq, bind_ok, pure_ok, digits_clean_strip hD [32, 45, 46] (by decide)]
  unfold Gen.id_nik.get_birth_date at hd
  simp only [hc, bind_ok, intOf_fld hD 6 8 6 8 rfl rfl (by omega) (by omega),
    intOf_fld hD 8 10 8 10 rfl rfl (by omega) (by omega), intOf_fld hD 10 12 10 12 rfl rfl (by omega) (by omega)] at hd
  have hy := fld2 hD 10 12
  cases h1 : mkDate (fld v 10 12 + 1900) (fld v 8 10) (fld v 6 8 % 40) with
  | ok r =>
    rw [h1] at hd
    try_simp at hd
    subst hd
    obtain ⟨hv, hyr, hmo, hdd⟩ := mkDate_valid h1
    exact ⟨hv, hdd, hmo, by omega, Or.inl hyr⟩
  | error e =>
    rw [h1] at hd
    cases h2 : mkDate (fld v 10 12 + 2000) (fld v 8 10) (fld v 6 8 % 40) with
    | ok r =>
      rw [h2] at hd
      try_simp at hd
      cases hcb : e.caughtBy Exc.valueError <;> simp [hcb] at hd
      subst hd
      obtain ⟨hv, hyr, hmo, hdd⟩ := mkDate_valid h2
      exact ⟨hv, hdd, hmo, by omega, Or.inr ⟨hyr, fun r hr => by cases hr⟩⟩
    | error e2 =>
      rw [h2] at hd
      try_simp at hd
      cases hcb : e.caughtBy Exc.valueError <;> cases hcb2 : e2.caughtBy Exc.valueError <;> simp [hcb, hcb2] at hd

/- `validate` looks the registration place up in the embedded registry `id/loc.dat`: evaluated on the kernel-proved dump -/
example : Gen.id_nik.validate (str% "3171011708450001") = .ok (str% "3171011708450001") := by
  unfold Gen.id_nik.validate Gen.id_nik._check_registration_place
  rw [Props.C11.Data.id_loc.db_eq]
  decide +kernel
example : Gen.id_nik.get_birth_date (str% "3171011708450001") 1920 = .ok ⟨1945, 8, 17⟩ := by decide +kernel

/-! ## gr.amka : `DDMMYY`; 19YY if that is a calendar date, else 20YY -/

theorem gr_amka_ok {x v : Str} (h : Gen.gr_amka.validate x = .ok v) :
    AllIn isAsciiDigit v ∧ v.length = 11 ∧ ∃ d, Gen.gr_amka.get_birth_date v = .ok d := by
  unfold Gen.gr_amka.validate Gen.gr_amka.compact at h
  invert_validate h
  obtain ⟨hd, hl, _, _, a, ha, rfl⟩ := h
  exact ⟨((isDigitsB_iff _).mp hd).2, by omega, a, ha⟩

theorem gr_amka_birth_date (x v : Str) (d : Date) (h : Gen.gr_amka.validate x = .ok v)
    (hd : Gen.gr_amka.get_birth_date v = .ok d) :
    d.Valid ∧ d.day = fld v 0 2 ∧ d.month = fld v 2 4 ∧ d.year % 100 = fld v 4 6 ∧
      (d.year = fld v 4 6 + 1900 ∨
        (d.year = fld v 4 6 + 2000 ∧ ∀ r, mkDate (fld v 4 6 + 1900) (fld v 2 4) (fld v 0 2) ≠ .ok r)) := by
  obtain ⟨hD, hl, _⟩ := gr_amka_ok h
  have hc : Gen.gr_amka.compact v = .ok v := by
    unfold Gen.gr_amka.compact
    simp only [clean_eq, bind_ok, pure_ok, digits_clean_strip hD [32, 45] (by decide)]
  unfold Gen.gr_amka.get_birth_date at hd
  simp only [hc, bind_ok, intOf_fld hD 0 2 0 2 rfl rfl (by omega) (by omega),
    intOf_fld hD 2 4 2 4 rfl rfl (by omega) (by omega), intOf_fld hD 4 6 4 6 rfl rfl (by omega) (by omega)] at hd
  have hy := fld2 hD 4 6
  cases h1 : mkDate (fld v 4 6 + 1900) (fld v 2 4) (fld v 0 2) with
  | ok r =>
    rw [h1] at hd
    try_simp at hd
    subst hd
    obtain ⟨hv, hyr, hmo, hdd⟩ := mkDate_valid h1
    exact ⟨hv, hdd, hmo, by omega, Or.inl hyr⟩
  | error e =>
    rw [h1] at hd
    cases h2 : mkDate (fld v 4 6 + 1900 + 100) (fld v 2 4) (fld v 0 2) with
    | ok r =>
      rw [h2] at hd
      try_simp at hd
      cases hcb : e.caughtBy Exc.valueError <;> simp [hcb] at hd
      subst hd
      obtain ⟨hv, hyr, hmo, hdd⟩ := mkDate_valid h2
      exact ⟨hv, hdd, hmo, by omega, Or.inr ⟨by omega, fun r hr => by cases hr⟩⟩
    | error e2 =>
      rw [h2] at hd
      try_simp at hd
      cases hcb : e.caughtBy Exc.valueError <;> cases hcb2 : e2.caughtBy Exc.valueError <;> simp [hcb, hcb2] at hd

example : Gen.gr_amka.validate (str% "01013099997") = .ok (str% "01013099997") ∧
    Gen.gr_amka.get_birth_date (str% "01013099997") = .ok ⟨1930, 1, 1⟩ := by decide +kernel

/-! ## kr.rrn : `YYMMDD`, century/gender digit `v[6]` -/

theorem kr_rrn_ok {t : Date} {b : Bool} {x v : Str} (h : Gen.kr_rrn.validate t x b = .ok v) :
    AllIn isAsciiDigit v ∧ v.length = 13 ∧ ∃ d, Gen.kr_rrn.get_birth_date t v b = .ok d := by
  unfold Gen.kr_rrn.validate Gen.kr_rrn.compact at h
  invert_validate h
  obtain ⟨hd, hl, a, ha, _, _, _, _, _, _, _, _, rfl⟩ := h
  exact ⟨((isDigitsB_iff _).mp hd).2, by omega, a, ha⟩

/-- century of an RRN from the digit `v[6]` (a code point): `1,2,5,6` → 1900, `3,4,7,8` → 2000, `9,0` → 1800 -/
def krCentury (c : Nat) : Int :=
  if [49, 50, 53, 54].contains c then 1900 else if [51, 52, 55, 56].contains c then 2000 else 1800

theorem kr_rrn_birth_date (t : Date) (b b' : Bool) (x v : Str) (d : Date) (h : Gen.kr_rrn.validate t x b = .ok v)
    (hd : Gen.kr_rrn.get_birth_date t v b' = .ok d) :
    d.Valid ∧ d.day = fld v 4 6 ∧ d.month = fld v 2 4 ∧ d.year % 100 = fld v 0 2 ∧
      d.year = fld v 0 2 + krCentury (v.getD 6 0) ∧ (b' = false → t.le d = false) := by
  obtain ⟨hD, hl, _⟩ := kr_rrn_ok h
  have hc : Gen.kr_rrn.compact v = .ok v := by
    unfold Gen.kr_rrn.compact
    simp only [clean_eq, bind_ok, pure_ok, digits_clean_strip hD [45] (by decide)]
  unfold Gen.kr_rrn.get_birth_date at hd
  simp only [hc, bind_ok, intOf_fld hD 0 2 0 2 rfl rfl (by omega) (by omega),
    intOf_fld hD 2 4 2 4 rfl rfl (by omega) (by omega), intOf_fld hD 4 6 4 6 rfl rfl (by omega) (by omega),
    getItem_nat v 6 6 rfl (by omega), strIn_single] at hd
  have hg : v.getD 6 0 = v[6] := by
    simp [List.getD_eq_getElem?_getD, List.getElem?_eq_getElem (show 6 < v.length by omega)]
  rw [hg]
  have hy := fld2 hD 0 2
  unfold krCentury
  have key : ∀ C : Int, C % 100 = 0 →
      (do
        let p ← tryCatch (do let x ← mkDate (fld v 0 2 + C) (fld v 2 4) (fld v 4 6); pure ((), x))
          (fun e__ => if e__.caughtBy Exc.valueError = true then do
              let __r ← (raise Exc.invalidComponent : R Unit)
              pure (__r, default)
            else do
              let __r ← (raise e__ : R Unit)
              pure (__r, default))
        if (!b' && t.le p.snd) = true then do
            (raise Exc.invalidComponent : R Unit)
            pure p.snd
          else pure p.snd : R Date) = .ok d →
      d.Valid ∧ d.day = fld v 4 6 ∧ d.month = fld v 2 4 ∧ d.year % 100 = fld v 0 2 ∧
        d.year = fld v 0 2 + C ∧ (b' = false → t.le d = false) := by
    intro C hC hk
    cases h1 : mkDate (fld v 0 2 + C) (fld v 2 4) (fld v 4 6) with
    | error e =>
      rw [h1] at hk
      try_simp at hk
      cases hcb : e.caughtBy Exc.valueError <;> simp [hcb] at hk
    | ok r =>
      rw [h1] at hk
      try_simp at hk
      obtain ⟨hv, hyr, hmo, hdd⟩ := mkDate_valid h1
      split at hk
      · cases hk
      · rename_i hb
        cases hk
        refine ⟨hv, hdd, hmo, by omega, hyr, fun hb' => ?_⟩
        cases hle : t.le d
        · rfl
        · exact absurd ⟨hb', hle⟩ hb
  split at hd
  · rename_i hc1
    rw [if_pos hc1]
    exact key 1900 rfl hd
  · rename_i hc1
    rw [if_neg hc1]
    split at hd
    · rename_i hc2
      rw [if_pos hc2]
      exact key 2000 rfl hd
    · rename_i hc2
      rw [if_neg hc2]
      exact key 1800 rfl hd

example : Gen.kr_rrn.validate ⟨2026, 9, 27⟩ (str% "971013-9019902") true = .ok (str% "9710139019902") ∧
    Gen.kr_rrn.get_birth_date ⟨2026, 9, 27⟩ (str% "9710139019902") true = .ok ⟨1897, 10, 13⟩ := by decide +kernel

/-! ## cz.rc : `YYMMDD`, month `+50` for women, `+20` when the serial numbers ran out; 9 digits = born before 1954 -/

theorem cz_rc_ok {x v : Str} (h : Gen.cz_rc.validate x = .ok v) :
    AllIn isAsciiDigit v ∧ (v.length = 9 ∨ v.length = 10) ∧ ∃ d, Gen.cz_rc.get_birth_date v = .ok d := by
  unfold Gen.cz_rc.validate at h
  obtain ⟨n, hn, h⟩ := bind_ok_inv h
  invert_validate h
  obtain ⟨hd, hl, a, ha, hh⟩ := h
  have hv : n = v := by
    rcases hh with ⟨_, _, _, _, _, ⟨_, _, _, _, e⟩ | ⟨_, _, _, _, e⟩⟩ | ⟨_, e⟩ <;> exact e
  subst hv
  refine ⟨((isDigitsB_iff _).mp hd).2, ?_, a, ha⟩
  simp only [List.contains_cons, List.contains_nil, Bool.or_false, Bool.or_eq_true, beq_iff_eq] at hl
  omega

theorem cz_rc_birth_date (x v : Str) (d : Date) (h : Gen.cz_rc.validate x = .ok v)
    (hd : Gen.cz_rc.get_birth_date v = .ok d) :
    d.Valid ∧ d.day = fld v 4 6 ∧ d.month = fld v 2 4 % 50 % 20 ∧ d.year % 100 = fld v 0 2 ∧
      (v.length = 9 → d.year ≤ 1953 ∧ 1880 ≤ d.year) ∧ (v.length = 10 → 1954 ≤ d.year ∧ d.year ≤ 2053) := by
  obtain ⟨hD, hl, _⟩ := cz_rc_ok h
  have hc : Gen.cz_rc.compact v = .ok v := by
    unfold Gen.cz_rc.compact
    simp only [clean_eq, bind_ok, pure_ok, digits_strip_upper_clean hD [32, 47] (by decide)]
  unfold Gen.cz_rc.get_birth_date at hd
  simp only [hc, bind_ok, intOf_fld hD 0 2 0 2 rfl rfl (by omega) (by omega),
    intOf_fld hD 2 4 2 4 rfl rfl (by omega) (by omega), intOf_fld hD 4 6 4 6 rfl rfl (by omega) (by omega)] at hd
  have hy := fld2 hD 0 2
  invert_getter hd
  simp only [decide_eq_true_eq, decide_eq_false_iff_not] at hd
  rcases hd with ⟨h9, ⟨h1, h2, hmk⟩ | ⟨h1, h2, hmk⟩⟩ | ⟨h9, ⟨h1, hmk⟩ | ⟨h1, hmk⟩⟩ <;>
    obtain ⟨hv, hyr, hmo, hdd⟩ := mkDate_valid hmk <;>
    exact ⟨hv, hdd, hmo, by omega, by omega, by omega⟩

example : Gen.cz_rc.validate (str% "710319/2745") = .ok (str% "7103192745") ∧
    Gen.cz_rc.get_birth_date (str% "7103192745") = .ok ⟨1971, 3, 19⟩ := by decide +kernel

/-! ## lt.asmens : same layout as ee.ik (the module calls `ee.ik.get_birth_date`) -/

theorem lt_asmens_ok {x v : Str} {b : Bool} (h : Gen.lt_asmens.validate x b = .ok v) :
    AllIn isAsciiDigit v ∧ v.length = 11 := by
  unfold Gen.lt_asmens.validate Gen.lt_asmens.compact at h
  cases b <;> invert_validate h <;>
    (obtain ⟨hd, hl, hh⟩ := h
     have hv : strip (cleanP x [32]) = v := by grind
     subst hv
     exact ⟨((isDigitsB_iff _).mp hd).2, by omega⟩)

theorem lt_asmens_birth_date (x v : Str) (b : Bool) (d : Date) (h : Gen.lt_asmens.validate x b = .ok v)
    (hd : Gen.ee_ik.get_birth_date v = .ok d) :
    d.Valid ∧ d.day = fld v 5 7 ∧ d.month = fld v 3 5 ∧ d.year % 100 = fld v 1 3 ∧
      d.year = fld v 1 3 + (1800 + 100 * ((fld v 0 1 - 1) / 2)) ∧ 1 ≤ fld v 0 1 ∧ fld v 0 1 ≤ 8 := by
  obtain ⟨hD, hl⟩ := lt_asmens_ok h
  have hc : Gen.ee_ik.compact v = .ok v := by
    unfold Gen.ee_ik.compact
    simp only [clean_eq, bind_ok, pure_ok, digits_clean_strip hD [32] (by decide)]
  unfold Gen.ee_ik.get_birth_date at hd
  simp only [hc, bind_ok, intOf_fld hD 1 3 1 3 rfl rfl (by omega) (by omega),
    intOf_fld hD 3 5 3 5 rfl rfl (by omega) (by omega), intOf_fld hD 5 7 5 7 rfl rfl (by omega) (by omega),
    getItem_nat v 0 0 rfl (by omega), strIn_single] at hd
  have hy := fld2 hD 1 3
  have h0 := fld_one (v := v) 0 1 (by omega)
  invert_getter hd
  contains_arith at hd
  rcases hd with ⟨h1, hmk⟩ | ⟨h1, ⟨h2, hmk⟩ | ⟨h2, ⟨h3, hmk⟩ | ⟨h3, h4, hmk⟩⟩⟩ <;>
    obtain ⟨hv, hyr, hmo, hdd⟩ := mkDate_valid hmk <;>
    exact ⟨hv, hdd, hmo, by omega, by omega, by omega, by omega⟩

example : Gen.lt_asmens.validate (str% "33309240064") true = .ok (str% "33309240064") ∧
    Gen.ee_ik.get_birth_date (str% "33309240064") = .ok ⟨1933, 9, 24⟩ := by decide +kernel

end Props.C12

#print axioms Props.C12.my_nric_ok
#print axioms Props.C12.my_nric_birth_date
#print axioms Props.C12.id_nik_ok
#print axioms Props.C12.id_nik_birth_date
#print axioms Props.C12.gr_amka_ok
#print axioms Props.C12.gr_amka_birth_date
#print axioms Props.C12.kr_rrn_ok
#print axioms Props.C12.kr_rrn_birth_date
#print axioms Props.C12.cz_rc_ok
#print axioms Props.C12.cz_rc_birth_date
#print axioms Props.C12.lt_asmens_ok
#print axioms Props.C12.lt_asmens_birth_date
