import Lean.Elab.Term
import Lean.Elab.Tactic.Basic
import Gen.eu_vat
import Gen.th_tin
import Gen.us_tin
import Gen.be_ssn
import Gen.es_nif
import Gen.iban
import Gen.vatin__b
import Props.Auto.C01c_th_moa
import Props.Auto.C01c_th_pin
import Props.Auto.C01c_us_ptin
import Props.Auto.C01c_us_atin
import Lemmas.Refine
import Lemmas.Util
import Lemmas.Str
import Lemmas.Strip
import Lemmas.Unicode
/-!
# Props.C09 — aggregate validators accept exactly what their constituents accept

All theorems are about the functions the translator **regenerates from /repo on every run** (`Gen/eu_vat.lean`,
`Gen/th_tin.lean`, `Gen/us_tin.lean`, `Gen/be_ssn.lean`, `Gen/be_bis.lean`, `Gen/be_nn.lean`, `Gen/es_nif.lean`,
`Gen/es_dni.lean`, `Gen/es_nie.lean`, `Gen/es_cif.lean`, `Gen/ccmods.lean`) and hold for **all** strings (no length
bound, any code points) and, for `be.ssn`, all dates.  Dynamic dispatch is first-order in the generated code:
module values are module names (`String`), `util.get_cc_module` is tabulated in `Gen/ccmods.lean`, and every wrapper
has generated `dispatch_*` functions (`match m with | "stdnum.at.uid" => Gen.at_uid.validate a0 | …`).

**Not covered here:** `stdnum.vatin.validate` / `compact` are not translated (their dispatch reaches
`stdnum.id.npwp`, which is not translated; see `Gen/manifest.json`), so `vatin ⊇ eu.vat` has no theorem at the
level of `validate`; §6 compares the module tables only.

## 1. `stdnum.eu.vat`

* `canon x = strip(upper(clean(x, '')))`, `prefix2 s = s[:2]`, `reprefix cc u = u if u.startswith(cc) else cc + u`,
  `resolve cc` = pure mirror of `_get_cc_module` on a lower-cased code; `get_cc_module_eq`.
  The module-level cache dict `_country_modules` is modelled by the translator as a local that starts empty
  (cold cache); that a warm cache gives the same answer is property C13.
* `memberTable` is **computed** from the generated `MEMBER_STATES` and `Gen.ccmods.get_cc_module_vat`;
  `memberTable_eq` (kernel evaluation) pins it to the explicit 31-entry list (28 member states in `MEMBER_STATES`
  order incl. `xi → gb.vat`, then `el → gr.vat`, `eu → eu.oss`, `im → eu.oss`), `memberTable_length`,
  `MEMBER_STATES_length`, `resolve_iff` (for all `cc`).  Dropping a state or an alias breaks `memberTable_eq`.
* `eu_vat_validate_eq` (functional form, error side included: non-member prefix raises `InvalidComponent`, the member
  module's exception is passed through unchanged), `eu_vat_validate_iff` (full strength), `eu_vat_result_prefix`.
* per-member instances `eu_vat_AT … eu_vat_IM` (31, by macro from `eu_vat_validate_member`): the wrapper on an input
  with prefix `AT` agrees with `Gen.at_uid.validate` (XI: `Gen.gb_vat`, EL: `Gen.gr_vat`, EU/IM: `Gen.eu_oss`).
  Their side conditions are closed by `rfl` (`resolve (lower "AT") = some "stdnum.at.uid"`) and by the local tactic
  `kernel_rfl` (`dispatch_validate_2 "stdnum.at.uid" a = Gen.at_uid.validate a`: the proof term `Eq.refl _` is handed
  to the kernel without the elaborator's own, slow, unfolding of the string `match`; no axiom is involved).
* **Finding (doubled prefix).**  The natural statement "the result is the prefix followed by the national number"
  is FALSE for the code: `eu.vat.validate('FRFR100000009') == 'FR100000009'` (the French number `FR100000009`, whose
  two check characters happen to be `FR`, loses its country prefix because `number.startswith(cc)` cannot tell a kept
  prefix from a national number that begins with the same letters), and the result is not itself valid
  (`validate('FR100000009')` raises `InvalidLength`).  `eu_vat_FR_prefix_not_reattached`,
  `eu_vat_validate_not_idempotent` (kernel-evaluated witnesses); what does hold: `eu_vat_FR` / `eu_vat_validate_iff`
  with `reprefix`, and `eu_vat_prefixed_national_partial` (`w = cc ++ u` whenever `u` does not start with `cc`).
* `guess_country`: `filterMapM_guard` (general lemma), `guess_country_ok_iff`, `guess_country_mem` (order-independent:
  CPython iterates a `set`, the generated code the sorted constant), `guess_country_nodup`, `guess_country_perm`,
  per-member instances `eu_vat_guess_AT … eu_vat_guess_XI` (28).

## 2. first-match wrappers `stdnum.th.tin`, `stdnum.us.tin`

`firstMatch`, `firstMatch_loop` (the generated `for … try/return/except ValidationError: pass` loop),
`th_tin_validate_eq`, `us_tin_validate_eq`, `firstMatch_ok_iff` (first-match semantics), `firstMatch_eq_find`,
`firstMatch_isOk_iff` (union, under the hypothesis that the constituents raise only validation errors — their C01
contract, see `onlyValidation_of_holds`), instances `th_tin_validate_iff`, `th_tin_validate_iff'`,
`us_tin_validate_iff`, `th_tin_union`, `us_tin_union`, `th_tin_first`, `us_tin_first`, and, with the C01 contracts
of `Props/Auto/C01c_*` discharged, the unconditional `th_tin_union'`, `th_tin_first'` and `us_tin_union'` (hypothesis
left only for `us.ssn`, `us.itin`, `us.ein`, which have no contract theorem yet);
`us_tin_guess_type_iff`, `us_tin_guess_type_mem`, `th_tin_tin_type_eq` (`firstTrue`).
(No kernel-evaluated example goes through `us.ein.validate` on a well-formed EIN: its prefix lookup takes more than a
minute in the kernel.)

## 3. `stdnum.be.ssn`

`be_ssn_validate_eq` (bis first, nn only after `InvalidComponent`), `be_nn_validate_eq` / `be_bis_validate_eq`
(both validators = shared prefix `bePre` + month-range test), `be_nn_bis_disjoint`, `be_ssn_validate_iff` (union, all
dates), `be_ssn_guess_type_eq`.

## 4. `stdnum.es.nif ⊇ dni ∪ nie ∪ cif`

`es_nif_of_dni`, `es_nif_of_nie`, `es_nif_of_cif` (all inputs), `es_nif_validate_nine_gen` (the dispatch made
explicit), `es_nif_validate_not_nine`, and the converse `es_nif_validate_cases`.

## 5. `stdnum.iban`: generic rules ∧ national module where one exists

`iban_validate_eq` (`validate x b` = generic part `>>= ibanTail b`), `iban_validate_false_eq`,
`iban_get_cc_module_eq`, `table_iban_eq` (the national IBAN modules are exactly be, es, me, no),
`iban_validate_true_eq`, `iban_validate_true_iff`, `iban_generic_ok` (the generic part returns the compact form),
`iban_validate_member` with instances `iban_BE`, `iban_ES`, `iban_ME`, `iban_NO`, and `iban_validate_nomodule` with
instance `iban_DE`.  The registry `Gen.db_iban.db` is never unfolded (it is generalised to a variable first).

## 6. `stdnum.vatin` vs `stdnum.eu.vat`: module tables

`vatin_get_cc_module_table`: on every prefix of the `eu.vat` member table `vatin._get_cc_module` finds the same
module, except `EU` (the wrapper `stdnum.eu.vat` itself instead of `eu.oss`) and `IM` (`InvalidComponent`: there is
no `stdnum.im` package — a number `eu.vat` accepts and `vatin` rejects).
-/
namespace Props.C09
open Py Lemmas.Refine

/-- decidable equality on results (for `decide +kernel` in the examples) -/
instance decEqExcept {ε α : Type} [DecidableEq ε] [DecidableEq α] : DecidableEq (Except ε α)
  | .ok a, .ok b => if h : a = b then isTrue (by rw [h]) else isFalse (fun h' => h (Except.ok.inj h'))
  | .error a, .error b => if h : a = b then isTrue (by rw [h]) else isFalse (fun h' => h (Except.error.inj h'))
  | .ok _, .error _ => isFalse (fun h => by cases h)
  | .error _, .ok _ => isFalse (fun h => by cases h)

open Lean Elab Term in
/-- `str% "ab"` elaborates to the code-point list `[97, 98]` (kernel evaluation of `Py.ofString` on a literal is
very slow) -/
local elab "str% " x:str : term => return toExpr (x.getString.toList.map Char.toNat)

/-! ## generic lemmas -/

theorem bind_eq_ok_iff {α β : Type} (x : R α) (f : α → R β) (v : β) :
    (x >>= f) = .ok v ↔ ∃ a, x = .ok a ∧ f a = .ok v := by
  cases x with
  | error e => simp
  | ok a => simp

/-- the Boolean reading of an `is_valid` result -/
def okTrue (r : R Bool) : Bool := match r with | .ok true => true | _ => false

theorem filterMapM_guard {α β : Type} (F : α → R (Option β)) (p : α → R Bool) (g : α → β) (l : List α)
    (hF : ∀ a ∈ l, F a = p a >>= fun b => .ok (if b then some (g a) else none)) (r : List β) :
    l.filterMapM F = .ok r ↔
      (∀ a ∈ l, ∃ b, p a = .ok b) ∧ r = (l.filter (fun a => okTrue (p a))).map g := by
  induction l generalizing r with
  | nil => simp [List.filterMapM_nil, eq_comm]
  | cons a l ih =>
    have ih' := ih (fun b hb => hF b (List.mem_cons_of_mem _ hb))
    rw [List.filterMapM_cons, hF a List.mem_cons_self]
    cases hp : p a with
    | error e =>
      simp only [bind_error, List.mem_cons, forall_eq_or_imp, hp]
      constructor
      · intro h; cases h
      · rintro ⟨⟨⟨b, hb⟩, _⟩, _⟩; cases hb
    | ok b =>
      cases b with
      | false =>
        have hk : okTrue (p a) = false := by rw [hp]; rfl
        rw [List.filter_cons, hk]
        simp only [bind_ok, Bool.false_eq_true, if_false, ih', List.mem_cons, forall_eq_or_imp, hp]
        simp
      | true =>
        have hk : okTrue (p a) = true := by rw [hp]; rfl
        rw [List.filter_cons, hk]
        simp only [bind_ok, if_true, List.mem_cons, forall_eq_or_imp, hp, List.map_cons]
        cases hl : List.filterMapM F l with
        | error e =>
          simp only [bind_error]
          constructor
          · intro h; cases h
          · rintro ⟨⟨_, hall⟩, _⟩
            have := (ih' _).mpr ⟨hall, rfl⟩
            rw [hl] at this; cases this
        | ok r' =>
          obtain ⟨hall, hr'⟩ := (ih' r').mp hl
          simp only [bind_ok, pure_ok, Except.ok.injEq]
          constructor
          · rintro rfl
            exact ⟨⟨⟨true, rfl⟩, hall⟩, by rw [hr']⟩
          · rintro ⟨_, rfl⟩
            rw [hr']

theorem okTrue_iff (r : R Bool) : okTrue r = true ↔ r = .ok true := by
  unfold okTrue
  split <;> simp_all


example : [1, 2, 3, 4].filterMapM (fun (a : Nat) => do if (← (pure (a % 2 == 0) : R Bool)) then pure (some (a * 10)) else pure none)
    = .ok (([1, 2, 3, 4].filter (fun a => okTrue (pure (a % 2 == 0) : R Bool))).map (· * 10)) := by decide

/-- the C01 contract of a constituent (`Py.Holds … (fun e => e.isValidation)`) gives the hypothesis of the union
theorems below -/
theorem onlyValidation_of_holds {α : Type} (r : R α) (h : Py.Holds r (fun _ => True) (fun e => e.isValidation = true)) :
    ∀ e, r = .error e → e.caughtBy .validationError = true := by
  intro e he
  rw [he] at h
  exact h

/-! ## 1. `stdnum.eu.vat`

```python
def validate(number):
    number = clean(number, '').upper().strip()
    cc = number[:2]
    module = _get_cc_module(cc)
    if not module:
        raise InvalidComponent()
    number = module.validate(number)
    if not number.startswith(cc):
        number = cc + number
    return number
``` -/

/-- `clean(number, '').upper().strip()` -/
def canon (x : Str) : Str := Py.strip (Py.upper (Py.cleanP x []))
/-- `number[:2]` -/
def prefix2 (s : Str) : Str := Py.slice s none (some (2 : Int))
/-- `number if number.startswith(cc) else cc + number` -/
def reprefix (cc u : Str) : Str := if Py.startswith u cc then u else cc ++ u

/-- pure mirror of `_get_cc_module` on an already lower-cased country code (module = module name) -/
def resolve (cc : Str) : Option String :=
  if [([101, 117] : Str), [105, 109]].contains cc then some "stdnum.eu.oss"
  else
    let cc1 : Str := if cc == [101, 108] then [103, 114] else cc
    if !(Gen.eu_vat.MEMBER_STATES.contains cc1) then none
    else
      let cc2 : Str := if cc1 == [120, 105] then [103, 98] else cc1
      Gen.ccmods.get_cc_module_vat cc2

theorem dictGet_dictSet_nil {ν : Type} (k : Str) (v : ν) :
    Py.dictGet (Py.dictSet ([] : List (Str × ν)) k v) k = .ok v := by
  simp [Py.dictGet, Py.dictSet, Py.dictHas, Py.dictGet?]

/-- the generated `_get_cc_module` (with the cache dict as an initially empty local: cold cache; warm = cold is
property C13) never raises and computes `resolve` of the lower-cased code -/
theorem get_cc_module_eq (cc : Str) : Gen.eu_vat._get_cc_module cc = .ok (resolve (Py.lower cc)) := by
  unfold Gen.eu_vat._get_cc_module resolve
  have hd : ∀ k : Str, Py.dictHas ([] : List (Str × Option String)) k = false := fun _ => rfl
  simp only [hd, dictGet_dictSet_nil]
  simp
  generalize Py.lower cc = c
  split
  · rfl
  · split
    · subst_vars; simp; split <;> rfl
    · split
      · split
        · subst_vars; simp
        · simp [*]
      · rfl

/-- the dispatch table of `eu.vat`, COMPUTED from the generated `MEMBER_STATES` and the tabulated `get_cc_module` -/
def memberTable : List (Str × String) :=
  (Gen.eu_vat.MEMBER_STATES ++ [[101, 108], [101, 117], [105, 109]]).filterMap
    (fun cc => (resolve cc).map (cc, ·))


/-- the expected table: 28 member-state entries, then the aliases `el`, `eu`, `im` -/
def memberTableLit : List (Str × String) :=
  [([97, 116], "stdnum.at.uid"), ([98, 101], "stdnum.be.vat"), ([98, 103], "stdnum.bg.vat"),
   ([99, 121], "stdnum.cy.vat"), ([99, 122], "stdnum.cz.dic"), ([100, 101], "stdnum.de.vat"),
   ([100, 107], "stdnum.dk.cvr"), ([101, 101], "stdnum.ee.kmkr"), ([101, 115], "stdnum.es.nif"),
   ([102, 105], "stdnum.fi.alv"), ([102, 114], "stdnum.fr.tva"), ([103, 114], "stdnum.gr.vat"),
   ([104, 114], "stdnum.hr.oib"), ([104, 117], "stdnum.hu.anum"), ([105, 101], "stdnum.ie.vat"),
   ([105, 116], "stdnum.it.iva"), ([108, 116], "stdnum.lt.pvm"), ([108, 117], "stdnum.lu.tva"),
   ([108, 118], "stdnum.lv.pvn"), ([109, 116], "stdnum.mt.vat"), ([110, 108], "stdnum.nl.btw"),
   ([112, 108], "stdnum.pl.nip"), ([112, 116], "stdnum.pt.nif"), ([114, 111], "stdnum.ro.cf"),
   ([115, 101], "stdnum.se.vat"), ([115, 105], "stdnum.si.ddv"), ([115, 107], "stdnum.sk.dph"),
   ([120, 105], "stdnum.gb.vat"), ([101, 108], "stdnum.gr.vat"), ([101, 117], "stdnum.eu.oss"),
   ([105, 109], "stdnum.eu.oss")]

set_option maxRecDepth 4000 in
theorem memberTable_eq : memberTable = memberTableLit := by decide +kernel

theorem memberTable_length : memberTable.length = 31 := congrArg List.length memberTable_eq
theorem MEMBER_STATES_length : Gen.eu_vat.MEMBER_STATES.length = 28 := rfl

theorem resolve_iff (cc : Str) (m : String) : resolve cc = some m ↔ (cc, m) ∈ memberTable := by
  unfold memberTable
  simp only [List.mem_filterMap, Option.map_eq_some_iff, Prod.mk.injEq]
  constructor
  · intro h
    refine ⟨cc, ?_, m, h, rfl, rfl⟩
    unfold resolve at h
    rw [List.mem_append]
    split at h
    · right
      rename_i hc
      simp only [List.contains_eq_mem, List.mem_cons, List.not_mem_nil, or_false,
        decide_eq_true_eq] at hc
      rcases hc with rfl | rfl <;> decide
    · by_cases hel : cc = [101, 108]
      · right; subst hel; decide
      · left
        have : (cc == [101, 108]) = false := by simpa using hel
        simp only [this, Bool.false_eq_true, if_false] at h
        by_cases hm : Gen.eu_vat.MEMBER_STATES.contains cc = true
        · simpa using hm
        · simp only [hm, Bool.not_false, if_true] at h
          cases h
  · rintro ⟨a, _, b, hb, rfl, rfl⟩
    exact hb

theorem eu_vat_validate_eq (x : Str) :
    Gen.eu_vat.validate x =
      match resolve (Py.lower (prefix2 (canon x))) with
      | none => .error .invalidComponent
      | some m => (Gen.eu_vat.dispatch_validate_2 m (canon x)) >>= fun u =>
          .ok (reprefix (prefix2 (canon x)) u) := by
  unfold Gen.eu_vat.validate
  simp only [Py.clean_eq, bind_ok, get_cc_module_eq, pure_ok]
  unfold prefix2 canon
  generalize resolve _ = r
  cases r with
  | none => rfl
  | some m =>
    simp only [Option.isSome_some, Bool.not_true, Bool.false_eq_true, if_false]
    generalize Gen.eu_vat.dispatch_validate_2 m _ = d
    cases d with
    | error e => rfl
    | ok u =>
      simp only [bind_ok, reprefix]
      cases startswith u _ <;> rfl

theorem eu_vat_validate_iff (x w : Str) :
    Gen.eu_vat.validate x = .ok w ↔
      ∃ cc m u, (cc, m) ∈ memberTable ∧ Py.lower (prefix2 (canon x)) = cc ∧
        Gen.eu_vat.dispatch_validate_2 m (canon x) = .ok u ∧ w = reprefix (prefix2 (canon x)) u := by
  rw [eu_vat_validate_eq]
  constructor
  · intro h
    cases hr : resolve (Py.lower (prefix2 (canon x))) with
    | none => simp only [hr] at h; cases h
    | some m =>
      simp only [hr] at h
      cases hd : Gen.eu_vat.dispatch_validate_2 m (canon x) with
      | error e => rw [hd] at h; cases h
      | ok u =>
        rw [hd] at h
        exact ⟨_, m, u, (resolve_iff _ _).mp hr, rfl, hd, (Except.ok.inj h).symm⟩
  · rintro ⟨cc, m, u, hm, rfl, hd, rfl⟩
    rw [(resolve_iff _ _).mpr hm]
    simp only [hd, bind_ok]

theorem startswith_reprefix (cc u : Str) : Py.startswith (reprefix cc u) cc = true := by
  unfold reprefix
  split
  · assumption
  · simp [Py.startswith]

theorem eu_vat_result_prefix (x w : Str) (h : Gen.eu_vat.validate x = .ok w) :
    Py.startswith w (prefix2 (canon x)) = true := by
  obtain ⟨_, _, u, _, _, _, rfl⟩ := (eu_vat_validate_iff x w).mp h
  exact startswith_reprefix _ _


theorem eu_vat_validate_member (CC : Str) (m : String) (f : Str → R Str)
    (hr : resolve (Py.lower CC) = some m) (hf : ∀ a, Gen.eu_vat.dispatch_validate_2 m a = f a)
    (x w : Str) (h : prefix2 (canon x) = CC) :
    Gen.eu_vat.validate x = .ok w ↔ ∃ u, f (canon x) = .ok u ∧ w = reprefix CC u := by
  rw [eu_vat_validate_eq, h, hr]
  simp only [hf]
  cases f (canon x) with
  | error e => simp
  | ok u => simp [eq_comm]


/-! ### non-vacuity and the doubled-prefix finding -/

example : Gen.eu_vat.validate (str% "ATU 57194903") = .ok (str% "ATU57194903") := by decide +kernel
example : prefix2 (canon (str% "ATU 57194903")) = [65, 84] := by decide +kernel
example : Gen.eu_vat.validate (str% "be697449992") = .ok (str% "BE0697449992") := by decide +kernel
example : Gen.eu_vat.validate (str% "EL 094259216") = .ok (str% "EL094259216") := by decide +kernel
example : Gen.eu_vat.validate (str% "XI 980780684") = .ok (str% "XI980780684") := by decide +kernel
example : Gen.eu_vat.validate (str% "IM 3720000224") = .ok (str% "IM3720000224") := by decide +kernel
/-- `ro.cf.validate` keeps the prefix (as `eu.oss` does): here `reprefix` must not add it again -/
example : Gen.ro_cf.validate (str% "RO 185 472 90") = .ok (str% "RO18547290") ∧
    Gen.eu_vat.validate (str% "RO 185 472 90") = .ok (str% "RO18547290") := by decide +kernel
example : Gen.eu_vat.validate (str% "GB925901618") = .error .invalidComponent := by decide +kernel
example : Gen.eu_vat.validate (str% "CZCZ25123891") = .error .invalidFormat := by decide +kernel
example : (str% "xi", "stdnum.gb.vat") ∈ memberTable := by rw [memberTable_eq]; decide

/- The natural full-strength statement — "the result is the country prefix followed by the national number", here
for France, whose module never returns the prefix it was given (`fr.tva.compact` strips one leading `FR`):

  theorem eu_vat_FR_prefixed_national (x w : Str) (h : prefix2 (canon x) = [70, 82]) :
      Gen.eu_vat.validate x = .ok w ↔ ∃ u, Gen.fr_tva.validate (canon x) = .ok u ∧ w = [70, 82] ++ u

is FALSE for the code as it is: the French VAT number whose national part is `FR100000009` (check characters `FR`,
SIREN 100000009) is written `FRFR100000009`; `fr.tva.validate` returns the national part `FR100000009`, and since that
starts with `cc` the wrapper does not re-attach the prefix.  The result `FR100000009` is not a valid EU VAT number. -/

/-- witness: the wrapper returns the bare national number … -/
theorem eu_vat_FRFR_witness :
    Gen.eu_vat.validate (str% "FRFR100000009") = .ok (str% "FR100000009") ∧
    Gen.fr_tva.validate (str% "FRFR100000009") = .ok (str% "FR100000009") ∧
    prefix2 (canon (str% "FRFR100000009")) = [70, 82] ∧ canon (str% "FRFR100000009") = str% "FRFR100000009" := by
  decide +kernel

/-- negation of the full-strength statement `eu_vat_FR_prefixed_national` -/
theorem eu_vat_FR_prefix_not_reattached :
    ¬ ∀ x w : Str, prefix2 (canon x) = [70, 82] →
      (Gen.eu_vat.validate x = .ok w ↔ ∃ u, Gen.fr_tva.validate (canon x) = .ok u ∧ w = [70, 82] ++ u) := by
  intro h
  obtain ⟨h1, h2, h3, h4⟩ := eu_vat_FRFR_witness
  obtain ⟨u, hu, hw⟩ := (h _ _ h3).mp h1
  rw [h4, h2] at hu
  cases hu
  revert hw
  decide

/-- … which the wrapper itself rejects: `validate` is not idempotent on its own results -/
theorem eu_vat_validate_not_idempotent :
    ¬ ∀ x w : Str, Gen.eu_vat.validate x = .ok w → Gen.eu_vat.validate w = .ok w := by
  intro h
  have h2 := h _ _ eu_vat_FRFR_witness.1
  have h3 : Gen.eu_vat.validate (str% "FR100000009") = .error .invalidLength := by decide +kernel
  rw [h3] at h2
  cases h2

/-- what holds instead of `eu_vat_FR_prefixed_national` (besides `eu_vat_validate_iff` and the instances below, which
describe the code exactly with `reprefix`): the prefix is attached whenever the member module's result does not
already start with it -/
theorem eu_vat_prefixed_national_partial (x w : Str) (h : Gen.eu_vat.validate x = .ok w) :
    ∃ cc m u, (cc, m) ∈ memberTable ∧ Py.lower (prefix2 (canon x)) = cc ∧
      Gen.eu_vat.dispatch_validate_2 m (canon x) = .ok u ∧
      (Py.startswith u (prefix2 (canon x)) = false → w = prefix2 (canon x) ++ u) ∧
      (Py.startswith u (prefix2 (canon x)) = true → w = u) := by
  obtain ⟨cc, m, u, hm, hl, hd, rfl⟩ := (eu_vat_validate_iff x w).mp h
  refine ⟨cc, m, u, hm, hl, hd, ?_, ?_⟩ <;> intro hs <;> simp [reprefix, hs]

/-! ### `guess_country`

`[cc for cc in MEMBER_STATES if _get_cc_module(cc).is_valid(number)]` -/

theorem lower_member_states : ∀ cc ∈ Gen.eu_vat.MEMBER_STATES, Py.lower cc = cc := by decide +kernel

/-- `is_valid` of the module a (lower-case) country code resolves to -/
def isValidOf (cc x : Str) : R Bool :=
  match resolve cc with
  | some m => Gen.eu_vat.dispatch_is_valid_1 m x
  | none => Py.raise .attributeError

def accepts (cc x : Str) : Bool := okTrue (isValidOf cc x)

theorem guess_country_ok_iff (x : Str) (l : List Str) :
    Gen.eu_vat.guess_country x = .ok l ↔
      (∀ cc ∈ Gen.eu_vat.MEMBER_STATES, ∃ b, isValidOf cc x = .ok b) ∧
        l = Gen.eu_vat.MEMBER_STATES.filter (fun cc => accepts cc x) := by
  unfold Gen.eu_vat.guess_country
  have := filterMapM_guard
    (fun (cc : Str) => do if (← (do match (← Gen.eu_vat._get_cc_module cc) with | some m__ => pure (← Gen.eu_vat.dispatch_is_valid_1 m__ x) | none => Py.raise .attributeError : R Bool)) then pure (some cc) else pure none)
    (fun cc => isValidOf cc x) id Gen.eu_vat.MEMBER_STATES ?_ l
  · rw [List.map_id] at this
    exact this
  · intro cc hcc
    simp only [get_cc_module_eq, lower_member_states cc hcc, bind_ok, isValidOf]
    cases resolve cc with
    | none => rfl
    | some m =>
      dsimp only
      cases Gen.eu_vat.dispatch_is_valid_1 m x with
      | error e => rfl
      | ok b => cases b <;> rfl

theorem accepts_iff (cc x : Str) : accepts cc x = true ↔ isValidOf cc x = .ok true := okTrue_iff _

theorem guess_country_mem (x : Str) (l : List Str) (h : Gen.eu_vat.guess_country x = .ok l) (cc : Str) :
    cc ∈ l ↔ cc ∈ Gen.eu_vat.MEMBER_STATES ∧ accepts cc x = true := by
  rw [((guess_country_ok_iff x l).mp h).2]
  exact List.mem_filter

theorem MEMBER_STATES_nodup : Gen.eu_vat.MEMBER_STATES.Nodup := by decide +kernel

theorem guess_country_nodup (x : Str) (l : List Str) (h : Gen.eu_vat.guess_country x = .ok l) : l.Nodup := by
  rw [((guess_country_ok_iff x l).mp h).2]
  exact MEMBER_STATES_nodup.filter _

theorem guess_country_perm (x : Str) (l : List Str) (h : Gen.eu_vat.guess_country x = .ok l)
    (L : List Str) (hL : L.Perm Gen.eu_vat.MEMBER_STATES) : (L.filter (fun cc => accepts cc x)).Perm l := by
  rw [((guess_country_ok_iff x l).mp h).2]
  exact hL.filter _

theorem eu_vat_guess_member (cc : Str) (m : String) (f : Str → R Bool)
    (hm : cc ∈ Gen.eu_vat.MEMBER_STATES) (hr : resolve cc = some m)
    (hf : ∀ a, Gen.eu_vat.dispatch_is_valid_1 m a = f a)
    (x : Str) (l : List Str) (h : Gen.eu_vat.guess_country x = .ok l) : cc ∈ l ↔ f x = .ok true := by
  rw [guess_country_mem x l h, accepts_iff, isValidOf, hr]
  simp only [hf, hm, true_and]


example : ∃ l, Gen.eu_vat.guess_country (str% "00449544B01") = .ok l ∧ str% "nl" ∈ l ∧ str% "at" ∉ l :=
  ⟨[str% "nl"], by decide +kernel, by decide, by decide⟩

/-! ### per-member instances

`eu_vat_validate_member` is stated for the upper-cased prefix actually found in the input (`prefix2 (canon x) = CC`);
`eu_vat_validate_iff` also covers the exotic prefixes whose *lower case* is a member code without being its upper
case (`"S\u212A"`, Kelvin sign). -/

open Lean Elab Tactic Meta in
/-- closes `a = b` with the proof term `Eq.refl a` WITHOUT running the elaborator's definitional-equality check (the
string `match` of a `dispatch_*` function is expensive there); the kernel checks the term when the theorem is added,
exactly as for `decide +kernel` -/
local elab "kernel_rfl" : tactic => do
  let g ← getMainGoal
  let t ← instantiateMVars (← g.getType)
  let some (_, lhs, _) := t.eq? | throwError "kernel_rfl: the goal is not an equation"
  g.assign (← mkEqRefl lhs)

open Lean in
local macro "eu_member " tag:ident CC:term:max m:str ns:ident : command => do
  let thmV := mkIdent (Name.mkSimple ("eu_vat_" ++ tag.getId.toString))
  let fV := mkIdent (ns.getId ++ `validate)
  `(theorem $thmV (x w : Str) (h : prefix2 (canon x) = $CC) :
        Gen.eu_vat.validate x = .ok w ↔ ∃ u, $fV (canon x) = .ok u ∧ w = reprefix $CC u :=
      eu_vat_validate_member $CC $m $fV rfl (fun _ => by kernel_rfl) x w h)

open Lean in
local macro "eu_guess " tag:ident cc:term:max m:str ns:ident : command => do
  let thmG := mkIdent (Name.mkSimple ("eu_vat_guess_" ++ tag.getId.toString))
  let fI := mkIdent (ns.getId ++ `is_valid)
  `(theorem $thmG (x : Str) (l : List Str) (h : Gen.eu_vat.guess_country x = .ok l) :
        $cc ∈ l ↔ $fI x = .ok true :=
      eu_vat_guess_member $cc $m $fI (by decide) rfl (fun _ => by kernel_rfl) x l h)

eu_member AT [65, 84] "stdnum.at.uid" Gen.at_uid
eu_member BE [66, 69] "stdnum.be.vat" Gen.be_vat
eu_member BG [66, 71] "stdnum.bg.vat" Gen.bg_vat
eu_member CY [67, 89] "stdnum.cy.vat" Gen.cy_vat
eu_member CZ [67, 90] "stdnum.cz.dic" Gen.cz_dic
eu_member DE [68, 69] "stdnum.de.vat" Gen.de_vat
eu_member DK [68, 75] "stdnum.dk.cvr" Gen.dk_cvr
eu_member EE [69, 69] "stdnum.ee.kmkr" Gen.ee_kmkr
eu_member ES [69, 83] "stdnum.es.nif" Gen.es_nif
eu_member FI [70, 73] "stdnum.fi.alv" Gen.fi_alv
eu_member FR [70, 82] "stdnum.fr.tva" Gen.fr_tva
eu_member GR [71, 82] "stdnum.gr.vat" Gen.gr_vat
eu_member HR [72, 82] "stdnum.hr.oib" Gen.hr_oib
eu_member HU [72, 85] "stdnum.hu.anum" Gen.hu_anum
eu_member IE [73, 69] "stdnum.ie.vat" Gen.ie_vat
eu_member IT [73, 84] "stdnum.it.iva" Gen.it_iva
eu_member LT [76, 84] "stdnum.lt.pvm" Gen.lt_pvm
eu_member LU [76, 85] "stdnum.lu.tva" Gen.lu_tva
eu_member LV [76, 86] "stdnum.lv.pvn" Gen.lv_pvn
eu_member MT [77, 84] "stdnum.mt.vat" Gen.mt_vat
eu_member NL [78, 76] "stdnum.nl.btw" Gen.nl_btw
eu_member PL [80, 76] "stdnum.pl.nip" Gen.pl_nip
eu_member PT [80, 84] "stdnum.pt.nif" Gen.pt_nif
eu_member RO [82, 79] "stdnum.ro.cf" Gen.ro_cf
eu_member SE [83, 69] "stdnum.se.vat" Gen.se_vat
eu_member SI [83, 73] "stdnum.si.ddv" Gen.si_ddv
eu_member SK [83, 75] "stdnum.sk.dph" Gen.sk_dph
eu_member XI [88, 73] "stdnum.gb.vat" Gen.gb_vat
eu_member EL [69, 76] "stdnum.gr.vat" Gen.gr_vat
eu_member EU [69, 85] "stdnum.eu.oss" Gen.eu_oss
eu_member IM [73, 77] "stdnum.eu.oss" Gen.eu_oss
eu_guess AT [97, 116] "stdnum.at.uid" Gen.at_uid
eu_guess BE [98, 101] "stdnum.be.vat" Gen.be_vat
eu_guess BG [98, 103] "stdnum.bg.vat" Gen.bg_vat
eu_guess CY [99, 121] "stdnum.cy.vat" Gen.cy_vat
eu_guess CZ [99, 122] "stdnum.cz.dic" Gen.cz_dic
eu_guess DE [100, 101] "stdnum.de.vat" Gen.de_vat
eu_guess DK [100, 107] "stdnum.dk.cvr" Gen.dk_cvr
eu_guess EE [101, 101] "stdnum.ee.kmkr" Gen.ee_kmkr
eu_guess ES [101, 115] "stdnum.es.nif" Gen.es_nif
eu_guess FI [102, 105] "stdnum.fi.alv" Gen.fi_alv
eu_guess FR [102, 114] "stdnum.fr.tva" Gen.fr_tva
eu_guess GR [103, 114] "stdnum.gr.vat" Gen.gr_vat
eu_guess HR [104, 114] "stdnum.hr.oib" Gen.hr_oib
eu_guess HU [104, 117] "stdnum.hu.anum" Gen.hu_anum
eu_guess IE [105, 101] "stdnum.ie.vat" Gen.ie_vat
eu_guess IT [105, 116] "stdnum.it.iva" Gen.it_iva
eu_guess LT [108, 116] "stdnum.lt.pvm" Gen.lt_pvm
eu_guess LU [108, 117] "stdnum.lu.tva" Gen.lu_tva
eu_guess LV [108, 118] "stdnum.lv.pvn" Gen.lv_pvn
eu_guess MT [109, 116] "stdnum.mt.vat" Gen.mt_vat
eu_guess NL [110, 108] "stdnum.nl.btw" Gen.nl_btw
eu_guess PL [112, 108] "stdnum.pl.nip" Gen.pl_nip
eu_guess PT [112, 116] "stdnum.pt.nif" Gen.pt_nif
eu_guess RO [114, 111] "stdnum.ro.cf" Gen.ro_cf
eu_guess SE [115, 101] "stdnum.se.vat" Gen.se_vat
eu_guess SI [115, 105] "stdnum.si.ddv" Gen.si_ddv
eu_guess SK [115, 107] "stdnum.sk.dph" Gen.sk_dph
eu_guess XI [120, 105] "stdnum.gb.vat" Gen.gb_vat

/-! ## 2. first-match wrappers: `stdnum.th.tin`, `stdnum.us.tin`

```python
def validate(number):
    for mod in _tin_modules:
        try:
            return mod.validate(number)
        except ValidationError:
            pass  # try next module
    raise InvalidFormat()
``` -/

/-- try the validators in order; the first that does not raise a `ValidationError` decides (its value, or its
non-validation exception); `InvalidFormat` when all raised validation errors -/
def firstMatch : List (Str → R Str) → Str → R Str
  | [], _ => .error .invalidFormat
  | f :: fs, x =>
    match f x with
    | .ok v => .ok v
    | .error e => if e.caughtBy .validationError then firstMatch fs x else .error e

theorem firstMatch_loop (d : String → Str → R Str) (ms : List String) (x : Str) :
    (do
      for (mod : String) in ms do
        try
          return (← d mod x)
        catch e__ =>
          if e__.caughtBy .validationError then
            pure ()
          else
            Py.raise e__
      Py.raise .invalidFormat : R Str) = firstMatch (ms.map (fun m => d m)) x := by
  induction ms with
  | nil => rfl
  | cons m ms ih =>
    rw [List.map_cons, firstMatch, ← ih]
    simp only [List.forIn_cons]
    cases hd : d m x with
    | ok v => rfl
    | error e =>
      cases hc : e.caughtBy .validationError with
      | true =>
        simp [tryCatch, tryCatchThe, MonadExceptOf.tryCatch, Except.tryCatch, hc]
      | false =>
        simp [tryCatch, tryCatchThe, MonadExceptOf.tryCatch, Except.tryCatch, hc]

theorem firstMatch_cons_ok {f : Str → R Str} {fs : List (Str → R Str)} {x v : Str} (h : f x = .ok v) :
    firstMatch (f :: fs) x = .ok v := by simp [firstMatch, h]
theorem firstMatch_cons_caught {f : Str → R Str} {fs : List (Str → R Str)} {x : Str} {e : Exc}
    (h : f x = .error e) (hc : e.caughtBy .validationError = true) :
    firstMatch (f :: fs) x = firstMatch fs x := by simp [firstMatch, h, hc]
theorem firstMatch_cons_uncaught {f : Str → R Str} {fs : List (Str → R Str)} {x : Str} {e : Exc}
    (h : f x = .error e) (hc : e.caughtBy .validationError = false) :
    firstMatch (f :: fs) x = .error e := by simp [firstMatch, h, hc]

theorem firstMatch_ok_iff (fs : List (Str → R Str)) (x v : Str) :
    firstMatch fs x = .ok v ↔
      ∃ i, ∃ h : i < fs.length, fs[i] x = .ok v ∧
        ∀ j, ∀ hj : j < i, ∃ e, fs[j] x = .error e ∧ e.caughtBy .validationError = true := by
  induction fs with
  | nil => simp [firstMatch]
  | cons f fs ih =>
    cases hf : f x with
    | ok u =>
      rw [firstMatch_cons_ok hf]
      constructor
      · intro h
        cases h
        exact ⟨0, by simp, hf, fun j hj => absurd hj (Nat.not_lt_zero _)⟩
      · rintro ⟨i, hi, h1, h2⟩
        cases i with
        | zero => simpa [hf] using h1
        | succ i =>
          obtain ⟨e, he, _⟩ := h2 0 (Nat.succ_pos _)
          simp [hf] at he
    | error e =>
      cases hc : e.caughtBy .validationError with
      | true =>
        rw [firstMatch_cons_caught hf hc, ih]
        constructor
        · rintro ⟨i, hi, h1, h2⟩
          refine ⟨i + 1, by simpa using hi, by simpa using h1, ?_⟩
          intro j hj
          cases j with
          | zero => exact ⟨e, hf, hc⟩
          | succ j => simpa using h2 j (by omega)
        · rintro ⟨i, hi, h1, h2⟩
          cases i with
          | zero => simp [hf] at h1
          | succ i =>
            refine ⟨i, by simpa using hi, by simpa using h1, ?_⟩
            intro j hj
            simpa using h2 (j + 1) (by omega)
      | false =>
        rw [firstMatch_cons_uncaught hf hc]
        constructor
        · intro h; cases h
        · rintro ⟨i, hi, h1, h2⟩
          cases i with
          | zero => simp [hf] at h1
          | succ i =>
            obtain ⟨e', he', hc'⟩ := h2 0 (Nat.succ_pos _)
            simp only [List.getElem_cons_zero, hf, Except.error.injEq] at he'
            subst he'
            rw [hc] at hc'; cases hc'

/-- under the hypothesis that the constituents raise only validation errors on `x`, the wrapper returns what
the FIRST accepting constituent returns, and `InvalidFormat` if none accepts -/
theorem firstMatch_eq_find (fs : List (Str → R Str)) (x : Str)
    (hv : ∀ f ∈ fs, ∀ e, f x = .error e → e.caughtBy .validationError = true) :
    firstMatch fs x =
      match fs.find? (fun f => Py.isOk (f x)) with
      | some f => f x
      | none => .error .invalidFormat := by
  induction fs with
  | nil => rfl
  | cons f fs ih =>
    rw [List.find?_cons]
    cases hf : f x with
    | ok u => rw [firstMatch_cons_ok hf]; simp [Py.isOk, hf]
    | error e =>
      rw [firstMatch_cons_caught hf (hv f List.mem_cons_self e hf)]
      simp only [Py.isOk]
      exact ih (fun g hg => hv g (List.mem_cons_of_mem _ hg))

theorem firstMatch_isOk_iff (fs : List (Str → R Str)) (x : Str)
    (hv : ∀ f ∈ fs, ∀ e, f x = .error e → e.caughtBy .validationError = true) :
    Py.isOk (firstMatch fs x) = true ↔ ∃ f ∈ fs, Py.isOk (f x) = true := by
  rw [firstMatch_eq_find fs x hv]
  cases hfind : fs.find? (fun f => Py.isOk (f x)) with
  | none =>
    simp only [Py.isOk, Bool.false_eq_true, false_iff, not_exists, not_and]
    intro f hf
    have := List.find?_eq_none.mp hfind f hf
    simpa [Py.isOk] using this
  | some f =>
    have h1 := List.find?_some hfind
    have h2 := List.mem_of_find?_eq_some hfind
    simp only [h1, true_iff]
    exact ⟨f, h2, h1⟩

theorem firstMatch_singleton_ok (f : Str → R Str) (x v : Str) : firstMatch [f] x = .ok v ↔ f x = .ok v := by
  cases hf : f x with
  | ok u => rw [firstMatch_cons_ok hf]
  | error e =>
    cases hc : e.caughtBy .validationError with
    | true => rw [firstMatch_cons_caught hf hc]; simp [firstMatch]
    | false => rw [firstMatch_cons_uncaught hf hc]

/-! ### the two wrappers -/

/-- the constituents of `th.tin`, in the order of `_tin_modules` -/
def thTinConstituents : List (Str → R Str) := [Gen.th_moa.validate, Gen.th_pin.validate]
/-- the constituents of `us.tin`, in the order of `_tin_modules` -/
def usTinConstituents : List (Str → R Str) :=
  [Gen.us_ssn.validate, Gen.us_itin.validate, Gen.us_ein.validate, Gen.us_ptin.validate, Gen.us_atin.validate]

theorem th_tin_validate_eq (x : Str) :
    Gen.th_tin.validate x = firstMatch [Gen.th_moa.validate, Gen.th_pin.validate] x := by
  unfold Gen.th_tin.validate
  exact firstMatch_loop Gen.th_tin.dispatch_validate_2 _ x

theorem us_tin_validate_eq (x : Str) :
    Gen.us_tin.validate x = firstMatch [Gen.us_ssn.validate, Gen.us_itin.validate, Gen.us_ein.validate, Gen.us_ptin.validate, Gen.us_atin.validate] x := by
  unfold Gen.us_tin.validate
  exact firstMatch_loop Gen.us_tin.dispatch_validate_1 _ x



theorem th_tin_validate_eq' (x : Str) : Gen.th_tin.validate x = firstMatch thTinConstituents x :=
  th_tin_validate_eq x
theorem us_tin_validate_eq' (x : Str) : Gen.us_tin.validate x = firstMatch usTinConstituents x :=
  us_tin_validate_eq x

/-- first-match semantics of `th.tin.validate`, explicit -/
theorem th_tin_validate_iff (x v : Str) :
    Gen.th_tin.validate x = .ok v ↔
      Gen.th_moa.validate x = .ok v ∨
      ((∃ e, Gen.th_moa.validate x = .error e ∧ e.caughtBy .validationError = true) ∧
        Gen.th_pin.validate x = .ok v) := by
  rw [th_tin_validate_eq]
  cases h1 : Gen.th_moa.validate x with
  | ok u => rw [firstMatch_cons_ok h1]; simp
  | error e =>
    cases hc : e.caughtBy .validationError with
    | true => rw [firstMatch_cons_caught h1 hc, firstMatch_singleton_ok]; simp [hc]
    | false =>
      rw [firstMatch_cons_uncaught h1 hc]
      constructor
      · intro h; cases h
      · rintro (h | ⟨⟨e', he', hc'⟩, _⟩)
        · cases h
        · cases he'; rw [hc] at hc'; cases hc'

/-- … and in the indexed form shared with `us.tin` -/
theorem th_tin_validate_iff' (x v : Str) :
    Gen.th_tin.validate x = .ok v ↔
      ∃ i, ∃ h : i < thTinConstituents.length, thTinConstituents[i] x = .ok v ∧
        ∀ j, ∀ hj : j < i, ∃ e, thTinConstituents[j] x = .error e ∧ e.caughtBy .validationError = true := by
  rw [th_tin_validate_eq']; exact firstMatch_ok_iff thTinConstituents x v

/-- first-match semantics of `us.tin.validate`: the value is that of the first constituent (SSN, ITIN, EIN, PTIN, ATIN)
that accepts, all earlier ones having raised validation errors -/
theorem us_tin_validate_iff (x v : Str) :
    Gen.us_tin.validate x = .ok v ↔
      ∃ i, ∃ h : i < usTinConstituents.length, usTinConstituents[i] x = .ok v ∧
        ∀ j, ∀ hj : j < i, ∃ e, usTinConstituents[j] x = .error e ∧ e.caughtBy .validationError = true := by
  rw [us_tin_validate_eq']; exact firstMatch_ok_iff usTinConstituents x v

/-- union: under the constituents' C01 contract on `x`, `th.tin` accepts iff MOA or PIN accepts -/
theorem th_tin_union (x : Str)
    (hv : ∀ f ∈ thTinConstituents, ∀ e, f x = .error e → e.caughtBy .validationError = true) :
    Py.isOk (Gen.th_tin.validate x) = true ↔
      Py.isOk (Gen.th_moa.validate x) = true ∨ Py.isOk (Gen.th_pin.validate x) = true := by
  rw [th_tin_validate_eq', firstMatch_isOk_iff thTinConstituents x hv]
  simp [thTinConstituents]

/-- union: under the constituents' C01 contract on `x`, `us.tin` accepts iff one of the five constituents accepts -/
theorem us_tin_union (x : Str)
    (hv : ∀ f ∈ usTinConstituents, ∀ e, f x = .error e → e.caughtBy .validationError = true) :
    Py.isOk (Gen.us_tin.validate x) = true ↔
      Py.isOk (Gen.us_ssn.validate x) = true ∨ Py.isOk (Gen.us_itin.validate x) = true ∨
      Py.isOk (Gen.us_ein.validate x) = true ∨ Py.isOk (Gen.us_ptin.validate x) = true ∨
      Py.isOk (Gen.us_atin.validate x) = true := by
  rw [us_tin_validate_eq', firstMatch_isOk_iff usTinConstituents x hv]
  simp [usTinConstituents]

/-- … and the value returned is that of the first accepting constituent -/
theorem th_tin_first (x : Str)
    (hv : ∀ f ∈ thTinConstituents, ∀ e, f x = .error e → e.caughtBy .validationError = true) :
    Gen.th_tin.validate x =
      match thTinConstituents.find? (fun f => Py.isOk (f x)) with
      | some f => f x
      | none => .error .invalidFormat := by
  rw [th_tin_validate_eq']; exact firstMatch_eq_find thTinConstituents x hv

theorem us_tin_first (x : Str)
    (hv : ∀ f ∈ usTinConstituents, ∀ e, f x = .error e → e.caughtBy .validationError = true) :
    Gen.us_tin.validate x =
      match usTinConstituents.find? (fun f => Py.isOk (f x)) with
      | some f => f x
      | none => .error .invalidFormat := by
  rw [us_tin_validate_eq']; exact firstMatch_eq_find usTinConstituents x hv


/-! ### the union theorems with the constituents' C01 contracts discharged

(`Py.Holds` is made irreducible here: otherwise the elaborator unfolds it, and the whole constituent `validate` under
it, while it elaborates the application of a contract.) -/

section Contracts
attribute [local irreducible] Py.Holds

theorem thTin_onlyValidation (x : Str) :
    ∀ f ∈ thTinConstituents, ∀ e, f x = .error e → e.caughtBy .validationError = true := by
  have h1 := onlyValidation_of_holds (Gen.th_moa.validate x) (Props.Auto.C01c.th_moa.validate_contract x)
  have h2 := onlyValidation_of_holds (Gen.th_pin.validate x) (Props.Auto.C01c.th_pin.validate_contract x)
  intro f hf
  simp only [thTinConstituents, List.mem_cons, List.not_mem_nil, or_false] at hf
  rcases hf with hf | hf
  · rw [hf]; exact h1
  · rw [hf]; exact h2

/-- unconditional: `th.tin` accepts exactly the union of MOA and PIN -/
theorem th_tin_union' (x : Str) :
    Py.isOk (Gen.th_tin.validate x) = true ↔
      Py.isOk (Gen.th_moa.validate x) = true ∨ Py.isOk (Gen.th_pin.validate x) = true :=
  th_tin_union x (thTin_onlyValidation x)

/-- unconditional: … and returns what the first accepting one returns, `InvalidFormat` if none accepts -/
theorem th_tin_first' (x : Str) :
    Gen.th_tin.validate x =
      match thTinConstituents.find? (fun f => Py.isOk (f x)) with
      | some f => f x
      | none => .error .invalidFormat :=
  th_tin_first x (thTin_onlyValidation x)

/-- `us.tin`: the contracts of PTIN and ATIN are available; those of SSN, ITIN, EIN (regex / registry based) are not
yet, and stay as hypotheses -/
theorem us_tin_union' (x : Str)
    (h1 : ∀ e, Gen.us_ssn.validate x = .error e → e.caughtBy .validationError = true)
    (h2 : ∀ e, Gen.us_itin.validate x = .error e → e.caughtBy .validationError = true)
    (h3 : ∀ e, Gen.us_ein.validate x = .error e → e.caughtBy .validationError = true) :
    Py.isOk (Gen.us_tin.validate x) = true ↔
      Py.isOk (Gen.us_ssn.validate x) = true ∨ Py.isOk (Gen.us_itin.validate x) = true ∨
      Py.isOk (Gen.us_ein.validate x) = true ∨ Py.isOk (Gen.us_ptin.validate x) = true ∨
      Py.isOk (Gen.us_atin.validate x) = true := by
  have h4 := onlyValidation_of_holds (Gen.us_ptin.validate x) (Props.Auto.C01c.us_ptin.validate_contract x)
  have h5 := onlyValidation_of_holds (Gen.us_atin.validate x) (Props.Auto.C01c.us_atin.validate_contract x)
  apply us_tin_union x
  intro f hf
  simp only [usTinConstituents, List.mem_cons, List.not_mem_nil, or_false] at hf
  rcases hf with hf | hf | hf | hf | hf
  · rw [hf]; exact h1
  · rw [hf]; exact h2
  · rw [hf]; exact h3
  · rw [hf]; exact h4
  · rw [hf]; exact h5

end Contracts

/-- the hypothesis is needed: a constituent's non-validation exception is propagated, later constituents are not tried -/
example : firstMatch [fun _ => .error .valueError, fun x => .ok x] [49] = .error .valueError := by decide
example : firstMatch [fun _ => .error .invalidLength, fun x => .ok x] [49] = .ok [49] := by decide

example : Gen.us_tin.validate (str% "536-90-4399") = .ok (str% "536904399") ∧
    Gen.us_ssn.validate (str% "536-90-4399") = .ok (str% "536904399") := by decide +kernel
/-- an ITIN is accepted only after SSN has raised a validation error -/
example : Gen.us_tin.validate (str% "912-90-3456") = .ok (str% "912903456") ∧
    Gen.us_ssn.validate (str% "912-90-3456") = .error .invalidComponent ∧
    Gen.us_itin.validate (str% "912-90-3456") = .ok (str% "912903456") := by decide +kernel
example : Gen.th_tin.validate (str% "1-2345-45678-78-1") = .ok (str% "1234545678781") ∧
    Gen.th_moa.validate (str% "1-2345-45678-78-1") = .error .invalidComponent ∧
    Gen.th_pin.validate (str% "1-2345-45678-78-1") = .ok (str% "1234545678781") := by decide +kernel
example : Gen.th_tin.validate (str% "0994000617721") = .ok (str% "0994000617721") ∧
    Gen.th_moa.validate (str% "0994000617721") = .ok (str% "0994000617721") := by decide +kernel

/-! ### `us.tin.guess_type`, `th.tin.tin_type` -/

/-- `mod.__name__.rsplit('.', 1)[-1]` as the translator emits it -/
def modName (m : String) : R Str := do
  Py.getItemL (← Py.rsplitOnR (Py.ofString m) ([46] : Str) (some ((1 : Int)).toNat)) (-(1 : Int))


theorem guard_name_eq (v : R Bool) (m : String) (n : Str) (h : modName m = .ok n) :
    (do if (← v) then pure (some (← Py.getItemL (← Py.rsplitOnR (Py.ofString m) ([46] : Str) (some ((1 : Int)).toNat)) (-(1 : Int)))) else pure none : R (Option Str))
      = v >>= fun b => .ok (if b then some n else none) := by
  cases v with
  | error e => rfl
  | ok b =>
    cases b with
    | false => rfl
    | true =>
      unfold modName at h
      simp only [bind_ok, if_true]
      cases hr : Py.rsplitOnR (Py.ofString m) [46] (some (Int.toNat 1)) with
      | error e => rw [hr] at h; cases h
      | ok a => rw [hr] at h; simp only [bind_ok] at h ⊢; rw [h]; rfl

/-- `for (name, is_valid) in …: if is_valid(x): return name` / `return None` -/
def firstTrue : List (Str × (Str → R Bool)) → Str → R (Option Str)
  | [], _ => .ok none
  | (n, p) :: ps, x =>
    match p x with
    | .ok true => .ok (some n)
    | .ok false => firstTrue ps x
    | .error e => .error e

theorem th_tin_tin_type_eq (x : Str) :
    Gen.th_tin.tin_type x =
      firstTrue [([109, 111, 97], Gen.th_moa.is_valid), ([112, 105, 110], Gen.th_pin.is_valid)]
        (Py.strip (Py.cleanP x [32, 45])) := by
  unfold Gen.th_tin.tin_type Gen.th_tin.compact
  simp only [Py.clean_eq, bind_ok, pure_ok, Gen.th_tin._tin_modules, Py.tupleToList, Py.TupleToList.toL,
    List.forIn_cons, List.forIn_nil, Gen.th_tin.dispatch_is_valid_0]
  generalize Py.strip (Py.cleanP x [32, 45]) = n
  unfold firstTrue firstTrue firstTrue
  cases Gen.th_moa.is_valid n with
  | error e => rfl
  | ok b =>
    cases b with
    | true => rfl
    | false =>
      cases Gen.th_pin.is_valid n with
      | error e => rfl
      | ok b => cases b <;> rfl


example : Gen.th_tin.tin_type (str% "1-2345-45678-78-1") = .ok (some (str% "pin")) := by decide +kernel
example : Gen.th_tin.tin_type (str% "0994000617721") = .ok (some (str% "moa")) := by decide +kernel
example : Gen.th_tin.tin_type (str% "12") = .ok none := by decide +kernel

/-- the constituents of `us.tin.guess_type` with the names it reports (`mod.__name__.rsplit('.', 1)[-1]`) -/
def usTinTypes : List (Str × (Str → R Bool)) :=
  [([115, 115, 110], Gen.us_ssn.is_valid), ([105, 116, 105, 110], Gen.us_itin.is_valid),
   ([101, 105, 110], Gen.us_ein.is_valid), ([112, 116, 105, 110], Gen.us_ptin.is_valid),
   ([97, 116, 105, 110], Gen.us_atin.is_valid)]

/-- the reported name of a module -/
def usName (m : String) : Str := match modName m with | .ok n => n | .error _ => []

theorem usNames_ok : ∀ m ∈ Gen.us_tin._tin_modules, modName m = .ok (usName m) := by decide +kernel


/-- `us.tin.guess_type(x)` returns (when all five `is_valid` return) the names of exactly the accepting constituents,
in the order SSN, ITIN, EIN, PTIN, ATIN -/
theorem us_tin_guess_type_iff (x : Str) (l : List Str) :
    Gen.us_tin.guess_type x = .ok l ↔
      (∀ p ∈ usTinTypes, ∃ b, p.2 x = .ok b) ∧
        l = (usTinTypes.filter (fun p => okTrue (p.2 x))).map (·.1) := by
  unfold Gen.us_tin.guess_type
  have := filterMapM_guard
    (fun (mod : String) => do if (← Gen.us_tin.dispatch_is_valid_0 mod x) then pure (some (← Py.getItemL (← Py.rsplitOnR (Py.ofString mod) ([46] : Str) (some ((1 : Int)).toNat)) (-(1 : Int)))) else pure none)
    (fun m => Gen.us_tin.dispatch_is_valid_0 m x) usName Gen.us_tin._tin_modules ?_ l
  · rw [this]
    have hd : (Gen.us_tin._tin_modules.map fun m => (usName m, Gen.us_tin.dispatch_is_valid_0 m)) = usTinTypes := rfl
    rw [← hd]
    simp only [List.mem_map, forall_exists_index, and_imp, forall_apply_eq_imp_iff₂, List.filter_map,
      List.map_map, Function.comp_def]
  · intro m hm
    exact guard_name_eq _ m _ (usNames_ok m hm)

example : Gen.us_tin.guess_type (str% "536-90-4399") = .ok [str% "ssn", str% "atin"] := by decide +kernel
example : usTinTypes.map (·.1) = [str% "ssn", str% "itin", str% "ein", str% "ptin", str% "atin"] := rfl

/-- membership form -/
theorem us_tin_guess_type_mem (x : Str) (l : List Str) (h : Gen.us_tin.guess_type x = .ok l)
    (n : Str) (p : Str → R Bool) (hp : (n, p) ∈ usTinTypes) : n ∈ l ↔ p x = .ok true := by
  rw [((us_tin_guess_type_iff x l).mp h).2]
  simp only [List.mem_map, List.mem_filter, okTrue_iff]
  constructor
  · rintro ⟨⟨n', p'⟩, ⟨hm, hok⟩, rfl⟩
    simp only [usTinTypes, List.mem_cons, List.not_mem_nil, or_false, Prod.mk.injEq] at hm hp
    rcases hm with ⟨rfl, rfl⟩ | ⟨rfl, rfl⟩ | ⟨rfl, rfl⟩ | ⟨rfl, rfl⟩ | ⟨rfl, rfl⟩ <;>
      rcases hp with ⟨h1, rfl⟩ | ⟨h1, rfl⟩ | ⟨h1, rfl⟩ | ⟨h1, rfl⟩ | ⟨h1, rfl⟩ <;>
      first | (exfalso; revert h1; decide) | exact hok
  · intro hok
    exact ⟨(n, p), ⟨hp, hok⟩, rfl⟩

/-! ## 3. `stdnum.be.ssn`

```python
def validate(number):
    try:
        return bis.validate(number)
    except InvalidComponent:
        # Only try NN validation in case of an invalid component, other validation errors are shared between BIS and NN
        return nn.validate(number)
``` -/

theorem be_ssn_validate_eq (t : Date) (x : Str) :
    Gen.be_ssn.validate t x =
      match Gen.be_bis.validate t x with
      | .ok v => .ok v
      | .error e => if e == .invalidComponent then Gen.be_nn.validate t x else .error e := by
  unfold Gen.be_ssn.validate
  cases Gen.be_bis.validate t x with
  | ok v => rfl
  | error e =>
    have : e.caughtBy .invalidComponent = (e == .invalidComponent) := rfl
    simp only [tryCatch, tryCatchThe, MonadExceptOf.tryCatch, Except.tryCatch, bind_error, this]
    cases e == Exc.invalidComponent
    · rfl
    · cases Gen.be_nn.validate t x <;> rfl

/-- the part `be.nn.validate` and `be.bis.validate` share: compact, digits and not all zeros, length 11, checksum
and birth date (`_get_birth_date_parts`), then the month field `number[2:4]` as an integer -/
def bePre (t : Date) (x : Str) : R (Str × Int) := do
  let number ← Gen.be_nn.compact x
  if (!(← Gen.util.isdigits number) || !(!((Py.stripChars number ([48] : Str))).isEmpty)) then
    Py.raise .invalidFormat
  if (((number).length : Int) != (11 : Int)) then
    Py.raise .invalidLength
  let _ ← Gen.be_nn._get_birth_date_parts t number
  let m ← Py.intOf (Py.slice number (some (2 : Int)) (some (4 : Int)))
  pure (number, m)

theorem be_nn_compact_eq (x : Str) : Gen.be_nn.compact x = .ok (Py.strip (Py.cleanP x [32, 45, 46])) := by
  unfold Gen.be_nn.compact
  simp only [Py.clean_eq, bind_ok, pure_ok]

theorem be_nn_validate_eq (t : Date) (x : Str) :
    Gen.be_nn.validate t x = bePre t x >>= fun p =>
      if 0 ≤ p.2 ∧ p.2 ≤ 12 then .ok p.1 else .error .invalidComponent := by
  unfold Gen.be_nn.validate bePre
  simp only [be_nn_compact_eq, bind_ok, Py.isdigits_eq]
  generalize Py.strip (Py.cleanP x [32, 45, 46]) = n
  split
  · rfl
  · split
    · rfl
    · simp only [pure_ok]
      cases Gen.be_nn._get_birth_date_parts t n with
      | error e => rfl
      | ok ps =>
        simp only [bind_ok]
        cases Py.intOf (Py.slice n (some 2) (some 4)) with
        | error e => rfl
        | ok m =>
          simp only [bind_ok]
          by_cases h1 : (0 : Int) ≤ m <;> by_cases h2 : m ≤ 12 <;> simp [h1, h2]

theorem be_bis_validate_eq (t : Date) (x : Str) :
    Gen.be_bis.validate t x = bePre t x >>= fun p =>
      if (20 ≤ p.2 ∧ p.2 ≤ 32) ∨ (40 ≤ p.2 ∧ p.2 ≤ 52) then .ok p.1 else .error .invalidComponent := by
  unfold Gen.be_bis.validate Gen.be_bis.compact bePre
  simp only [be_nn_compact_eq, bind_ok, Py.isdigits_eq, pure_ok]
  generalize Py.strip (Py.cleanP x [32, 45, 46]) = n
  split
  · rfl
  · split
    · rfl
    · cases Gen.be_nn._get_birth_date_parts t n with
      | error e => rfl
      | ok ps =>
        simp only [bind_ok]
        cases Py.intOf (Py.slice n (some 2) (some 4)) with
        | error e => rfl
        | ok m =>
          simp only [bind_ok]
          by_cases h1 : (20 : Int) ≤ m <;> by_cases h2 : m ≤ 32 <;> by_cases h3 : (40 : Int) ≤ m <;>
            by_cases h4 : m ≤ 52 <;> simp [h1, h2, h3, h4]

theorem be_nn_bis_disjoint (t : Date) (x v : Str) (h : Gen.be_nn.validate t x = .ok v) :
    Gen.be_bis.validate t x = .error .invalidComponent := by
  rw [be_nn_validate_eq] at h
  rw [be_bis_validate_eq]
  cases hp : bePre t x with
  | error e => rw [hp] at h; cases h
  | ok p =>
    rw [hp] at h
    simp only [bind_ok] at h ⊢
    split at h
    · rw [if_neg (by omega)]
    · cases h

theorem be_ssn_validate_iff (t : Date) (x v : Str) :
    Gen.be_ssn.validate t x = .ok v ↔ Gen.be_bis.validate t x = .ok v ∨ Gen.be_nn.validate t x = .ok v := by
  rw [be_ssn_validate_eq]
  constructor
  · intro h
    cases hb : Gen.be_bis.validate t x with
    | ok u => rw [hb] at h; exact Or.inl h
    | error e =>
      rw [hb] at h
      simp only at h
      split at h
      · exact Or.inr h
      · cases h
  · rintro (h | h)
    · rw [h]
    · rw [be_nn_bis_disjoint t x v h]
      exact h

example : Gen.be_ssn.validate ⟨2026, 9, 27⟩ (str% "85.07.30-033 28") = .ok (str% "85073003328") ∧
    Gen.be_nn.validate ⟨2026, 9, 27⟩ (str% "85.07.30-033 28") = .ok (str% "85073003328") ∧
    Gen.be_bis.validate ⟨2026, 9, 27⟩ (str% "85.07.30-033 28") = .error .invalidComponent := by decide +kernel
example : Gen.be_ssn.validate ⟨2026, 9, 27⟩ (str% "98.47.28-997.65") = .ok (str% "98472899765") ∧
    Gen.be_bis.validate ⟨2026, 9, 27⟩ (str% "98.47.28-997.65") = .ok (str% "98472899765") := by decide +kernel

/-- `guess_type`: `'nn'` if `nn.is_valid`, else `'bis'` if `bis.is_valid`, else `None`; exceptions propagate -/
theorem be_ssn_guess_type_eq (t : Date) (x : Str) :
    Gen.be_ssn.guess_type t x =
      firstTrue [([110, 110], Gen.be_nn.is_valid t), ([98, 105, 115], Gen.be_bis.is_valid t)] x := by
  unfold Gen.be_ssn.guess_type
  simp only [Gen.be_ssn._ssn_modules, Py.tupleToList, Py.TupleToList.toL,
    List.forIn_cons, List.forIn_nil, Gen.be_ssn.dispatch_is_valid_0]
  unfold firstTrue firstTrue firstTrue
  cases Gen.be_nn.is_valid t x with
  | error e => rfl
  | ok b =>
    cases b with
    | true => rfl
    | false =>
      cases Gen.be_bis.is_valid t x with
      | error e => rfl
      | ok b => cases b <;> rfl


example : Gen.be_ssn.guess_type ⟨2026, 9, 27⟩ (str% "85.07.30-033 28") = .ok (some (str% "nn")) := by decide +kernel
example : Gen.be_ssn.guess_type ⟨2026, 9, 27⟩ (str% "98.47.28-997.65") = .ok (some (str% "bis")) := by decide +kernel

/-! ## 4. `stdnum.es.nif ⊇ dni ∪ nie ∪ cif`

```python
def validate(number):
    number = compact(number)            # clean(number, ' -').upper().strip(), minus a leading 'ES'
    if not isdigits(number[1:-1]): raise InvalidFormat()
    if len(number) != 9: raise InvalidLength()
    if number[0] in 'KLM':
        if number[-1] != dni.calc_check_digit(number[1:-1]): raise InvalidChecksum()
    elif isdigits(number[0]): dni.validate(number)
    elif number[0] in 'XYZ': nie.validate(number)
    else: cif.validate(number)
    return number
```
A number accepted by a constituent is its own compact form: nine characters, ASCII digits and upper-case letters
only (the last character comes from a check-letter table), so it does not start with `ES` (DNI: digit first; NIE:
`X`/`Y`/`Z` first; CIF: a digit second), is a fixed point of `compact`, and the dispatch selects the same constituent. -/

/-- `clean(number, ' -').upper().strip()` (= `dni.compact`, used by `nie` and `cif` too) -/
def esCanon (x : Str) : Str := Py.strip (Py.upper (Py.cleanP x [32, 45]))

theorem es_dni_compact_eq (x : Str) : Gen.es_dni.compact x = .ok (esCanon x) := by
  unfold Gen.es_dni.compact esCanon
  simp only [Py.clean_eq, bind_ok, pure_ok]

/-- ASCII digit or ASCII upper-case letter -/
def DU (c : Nat) : Bool := isAsciiDigit c || isAsciiUpper c

theorem esCanon_fix (v : Str) (h : AllIn DU v) : esCanon v = v := by
  unfold esCanon
  have hal : AllIn isAsciiAlnum v := fun c hc => by
    have := h c hc
    simp only [DU, Bool.or_eq_true] at this
    simp only [isAsciiAlnum, isAsciiAlpha, Bool.or_eq_true]
    rcases this with h | h
    · exact Or.inl h
    · exact Or.inr (Or.inl h)
  rw [Py.cleanP_of_alnum hal (by decide), upper_of_asciiDigitOrUpper h, strip_eq_self_of_asciiAlnum v hal]

def dniTable : Str := [84, 82, 87, 65, 71, 77, 89, 70, 80, 68, 88, 66, 78, 74, 90, 83, 81, 86, 72, 76, 67, 75, 69]

theorem dni_calc_check_digit_mem (s r : Str) (h : Gen.es_dni.calc_check_digit s = .ok r) :
    ∃ c ∈ dniTable, r = [c] := by
  unfold Gen.es_dni.calc_check_digit at h
  cases hi : Py.intOf s with
  | error e => rw [hi] at h; cases h
  | ok i =>
    rw [hi] at h
    simp only [bind_ok] at h
    cases hg : Py.getItem dniTable (i % 23) with
    | error e => simp only [dniTable] at hg; rw [hg] at h; cases h
    | ok r' =>
      simp only [dniTable] at hg; rw [hg] at h; cases h
      exact getItem_ok_mem hg

theorem es_dni_validate_ok (x v : Str) (h : Gen.es_dni.validate x = .ok v) :
    v = esCanon x ∧ v.length = 9 ∧ isDigitsB (Py.slice v none (some (-1))) = true ∧
      ∃ c ∈ dniTable, Py.getItem v (-1) = .ok [c] := by
  unfold Gen.es_dni.validate at h
  simp only [es_dni_compact_eq, bind_ok, Py.isdigits_eq, raise_error, bind_error] at h
  generalize esCanon x = n at h ⊢
  split at h
  · cases h
  · rename_i hd
    split at h
    · cases h
    · rename_i hl
      obtain ⟨r, hr, h⟩ := (bind_eq_ok_iff _ _ _).mp h
      obtain ⟨r', hr', h⟩ := (bind_eq_ok_iff _ _ _).mp h
      split at h
      · cases h
      · rename_i hne
        cases h
        obtain ⟨c, hc, rfl⟩ := dni_calc_check_digit_mem _ _ hr
        have : [c] = r' := by simpa using hne
        subst this
        refine ⟨rfl, ?_, by simpa using hd, c, hc, hr'⟩
        have : ((v.length : Nat) : Int) = 9 := by simpa using hl
        omega


/-- what `es.nif.compact` computes -/
def nifCompact (x : Str) : Str :=
  if Py.startswith (esCanon x) [69, 83] then Py.slice (esCanon x) (some 2) none else esCanon x

theorem es_nif_compact_eq (x : Str) : Gen.es_nif.compact x = .ok (nifCompact x) := by
  unfold Gen.es_nif.compact nifCompact esCanon
  simp only [Py.clean_eq, bind_ok, pure_ok]
  split <;> rfl

/-- `es.nif.validate` on an input whose compact form has nine characters: the dispatch made explicit -/
theorem es_nif_validate_nine_gen (x : Str) (c0 c1 c2 c3 c4 c5 c6 c7 c8 : Nat)
    (hx : nifCompact x = [c0, c1, c2, c3, c4, c5, c6, c7, c8]) :
    Gen.es_nif.validate x =
      if isDigitsB [c1, c2, c3, c4, c5, c6, c7] = true then
        if c0 ∈ [75, 76, 77] then
          Gen.es_dni.calc_check_digit [c1, c2, c3, c4, c5, c6, c7] >>= fun d =>
            if ([c8] != d) = true then .error .invalidChecksum else .ok (nifCompact x)
        else if isAsciiDigit c0 = true then Gen.es_dni.validate (nifCompact x) >>= fun _ => .ok (nifCompact x)
        else if c0 ∈ [88, 89, 90] then Gen.es_nie.validate (nifCompact x) >>= fun _ => .ok (nifCompact x)
        else Gen.es_cif.validate (nifCompact x) >>= fun _ => .ok (nifCompact x)
      else .error .invalidFormat := by
  unfold Gen.es_nif.validate
  have hs1 : Py.slice [c0, c1, c2, c3, c4, c5, c6, c7, c8] (some 1) (some (-1)) = [c1, c2, c3, c4, c5, c6, c7] := rfl
  have hlen : (((List.length [c0, c1, c2, c3, c4, c5, c6, c7, c8] : Nat) : Int) != 9) = false := rfl
  have hg0 : Py.getItem [c0, c1, c2, c3, c4, c5, c6, c7, c8] 0 = .ok [c0] := rfl
  have hg8 : Py.getItem [c0, c1, c2, c3, c4, c5, c6, c7, c8] (-1) = .ok [c8] := rfl
  have hk : Py.strIn [c0] [75, 76, 77] = decide (c0 ∈ [75, 76, 77]) := by
    rw [strIn_single]; simp
  have hd0 : isDigitsB [c0] = isAsciiDigit c0 := by simp [isDigitsB]
  have hxyz : Py.strIn [c0] [88, 89, 90] = decide (c0 ∈ [88, 89, 90]) := by
    rw [strIn_single]; simp
  simp only [es_nif_compact_eq, hx, bind_ok, Py.isdigits_eq, Bool.false_eq_true, if_false,
    hs1, hlen, hg0, hg8, hk, hd0, hxyz, pure_ok, decide_eq_true_eq, raise_error, bind_error]
  cases isDigitsB [c1, c2, c3, c4, c5, c6, c7] with
  | false => rfl
  | true =>
    simp only [Bool.not_true, Bool.false_eq_true, if_false, if_true]

/-- … and when it has another length the number is rejected -/
theorem es_nif_validate_not_nine (x : Str) (h : (nifCompact x).length ≠ 9) :
    ∃ e, Gen.es_nif.validate x = .error e := by
  unfold Gen.es_nif.validate
  have hlen : ((((nifCompact x).length : Nat) : Int) != 9) = true := by
    simp only [bne_iff_ne, ne_eq]; omega
  simp only [es_nif_compact_eq, bind_ok, Py.isdigits_eq, raise_error, bind_error, hlen, if_true]
  split <;> exact ⟨_, rfl⟩

theorem es_nif_validate_nine (x : Str) (c0 c1 c2 c3 c4 c5 c6 c7 c8 : Nat)
    (hx : esCanon x = [c0, c1, c2, c3, c4, c5, c6, c7, c8])
    (hES : ¬ (c0 = 69 ∧ c1 = 83)) (hmid : AllIn isAsciiDigit [c1, c2, c3, c4, c5, c6, c7])
    (hK : c0 ∉ [75, 76, 77]) :
    Gen.es_nif.validate x =
      if isAsciiDigit c0 then Gen.es_dni.validate (esCanon x) >>= fun _ => .ok (esCanon x)
      else if c0 ∈ [88, 89, 90] then Gen.es_nie.validate (esCanon x) >>= fun _ => .ok (esCanon x)
      else Gen.es_cif.validate (esCanon x) >>= fun _ => .ok (esCanon x) := by
  have hsw : Py.startswith [c0, c1, c2, c3, c4, c5, c6, c7, c8] [69, 83] = false := by
    cases hb : Py.startswith [c0, c1, c2, c3, c4, c5, c6, c7, c8] [69, 83] with
    | false => rfl
    | true =>
      simp only [Py.startswith, List.isPrefixOf, Bool.and_eq_true, beq_iff_eq] at hb
      omega
  have hc : nifCompact x = esCanon x := by
    unfold nifCompact; rw [hx, hsw]; rfl
  have hd1 : isDigitsB [c1, c2, c3, c4, c5, c6, c7] = true := (isDigitsB_iff _).mpr ⟨by simp, hmid⟩
  rw [es_nif_validate_nine_gen x c0 c1 c2 c3 c4 c5 c6 c7 c8 (by rw [hc, hx]), hc, if_pos hd1, if_neg hK]

theorem length_nine {v : Str} (h : v.length = 9) :
    ∃ c0 c1 c2 c3 c4 c5 c6 c7 c8, v = [c0, c1, c2, c3, c4, c5, c6, c7, c8] := by
  match v, h with
  | [c0, c1, c2, c3, c4, c5, c6, c7, c8], _ => exact ⟨c0, c1, c2, c3, c4, c5, c6, c7, c8, rfl⟩

theorem es_dni_validate_canon (x y : Str) (h : esCanon y = esCanon x) :
    Gen.es_dni.validate y = Gen.es_dni.validate x := by
  unfold Gen.es_dni.validate
  simp only [es_dni_compact_eq, h]

theorem dniTable_DU : ∀ c ∈ dniTable, DU c = true := by decide

theorem DU_of_digit {c : Nat} (h : isAsciiDigit c = true) : DU c = true := by unfold DU; rw [h]; rfl

theorem es_nif_of_dni (x v : Str) (h : Gen.es_dni.validate x = .ok v) : Gen.es_nif.validate x = .ok v := by
  obtain ⟨hv, hlen, hd, c, hc, hg⟩ := es_dni_validate_ok x v h
  obtain ⟨c0, c1, c2, c3, c4, c5, c6, c7, c8, rfl⟩ := length_nine hlen
  have hs : Py.slice [c0, c1, c2, c3, c4, c5, c6, c7, c8] none (some (-1)) = [c0, c1, c2, c3, c4, c5, c6, c7] := rfl
  rw [hs] at hd
  have hdig := ((isDigitsB_iff _).mp hd).2
  have hg' : Py.getItem [c0, c1, c2, c3, c4, c5, c6, c7, c8] (-1) = .ok [c8] := rfl
  rw [hg'] at hg
  have hc8 : c8 = c := by simpa using hg
  subst hc8
  have h0 := hdig c0 (by simp)
  have hDU : AllIn DU [c0, c1, c2, c3, c4, c5, c6, c7, c8] := by
    intro a ha
    simp only [List.mem_cons, List.not_mem_nil, or_false] at ha
    rcases ha with rfl | rfl | rfl | rfl | rfl | rfl | rfl | rfl | rfl
    all_goals first | exact dniTable_DU _ hc | exact DU_of_digit (hdig _ (by simp))
  have hfix := esCanon_fix _ hDU
  have hval : Gen.es_dni.validate (esCanon x) = .ok (esCanon x) := by
    rw [es_dni_validate_canon x (esCanon x) (by rw [← hv, hfix]), ← hv]; exact h
  rw [es_nif_validate_nine x c0 c1 c2 c3 c4 c5 c6 c7 c8 hv.symm
    (by simp only [isAsciiDigit, Bool.and_eq_true, decide_eq_true_eq] at h0; omega)
    (fun a ha => hdig a (by simp only [List.mem_cons] at ha ⊢; exact Or.inr ha))
    (by simp only [isAsciiDigit, Bool.and_eq_true, decide_eq_true_eq] at h0
        simp only [List.mem_cons, List.not_mem_nil, or_false]; omega)]
  rw [if_pos h0, hval, ← hv]
  rfl

theorem es_nie_validate_canon (x y : Str) (h : esCanon y = esCanon x) :
    Gen.es_nie.validate y = Gen.es_nie.validate x := by
  unfold Gen.es_nie.validate
  simp only [es_dni_compact_eq, h]

theorem es_cif_validate_canon (x y : Str) (h : esCanon y = esCanon x) :
    Gen.es_cif.validate y = Gen.es_cif.validate x := by
  unfold Gen.es_cif.validate
  simp only [es_dni_compact_eq, h]

theorem nie_calc_check_digit_mem (s r : Str) (h : Gen.es_nie.calc_check_digit s = .ok r) :
    ∃ c ∈ dniTable, r = [c] := by
  unfold Gen.es_nie.calc_check_digit at h
  obtain ⟨a, _, h⟩ := (bind_eq_ok_iff _ _ _).mp h
  obtain ⟨b, _, h⟩ := (bind_eq_ok_iff _ _ _).mp h
  exact dni_calc_check_digit_mem _ _ h

theorem es_nie_validate_ok (x v : Str) (h : Gen.es_nie.validate x = .ok v) :
    v = esCanon x ∧ v.length = 9 ∧ isDigitsB (Py.slice v (some 1) (some (-1))) = true ∧
      Py.strIn (Py.slice v none (some 1)) [88, 89, 90] = true ∧
      ∃ c ∈ dniTable, Py.getItem v (-1) = .ok [c] := by
  unfold Gen.es_nie.validate at h
  simp only [es_dni_compact_eq, bind_ok, Py.isdigits_eq, raise_error, bind_error] at h
  generalize esCanon x = n at h ⊢
  split at h
  · cases h
  · rename_i hd
    split at h
    · cases h
    · rename_i hl
      obtain ⟨r, hr, h⟩ := (bind_eq_ok_iff _ _ _).mp h
      obtain ⟨r', hr', h⟩ := (bind_eq_ok_iff _ _ _).mp h
      split at h
      · cases h
      · rename_i hne
        cases h
        obtain ⟨c, hc, rfl⟩ := nie_calc_check_digit_mem _ _ hr
        have : [c] = r' := by simpa using hne
        subst this
        simp only [Bool.or_eq_true, Bool.not_eq_true', not_or, Bool.not_eq_false] at hd
        refine ⟨rfl, ?_, hd.1, hd.2, c, hc, hr'⟩
        have : ((v.length : Nat) : Int) = 9 := by simpa using hl
        omega

theorem cif_calc_check_digits_mem (s r : Str) (h : Gen.es_cif.calc_check_digits s = .ok r) :
    ∃ d l, DU d = true ∧ DU l = true ∧ r = [d, l] := by
  unfold Gen.es_cif.calc_check_digits Gen.luhn.calc_check_digit at h
  simp only [bind_assoc, pure_ok] at h
  obtain ⟨a, _, h⟩ := (bind_eq_ok_iff _ _ _).mp h
  obtain ⟨ck, _, h⟩ := (bind_eq_ok_iff _ _ _).mp h
  obtain ⟨d, hd, h⟩ := (bind_eq_ok_iff _ _ _).mp h
  obtain ⟨i, _, h⟩ := (bind_eq_ok_iff _ _ _).mp h
  obtain ⟨l, hl, h⟩ := (bind_eq_ok_iff _ _ _).mp h
  cases h
  obtain ⟨d, hdm, rfl⟩ := getItem_ok_mem hd
  obtain ⟨l, hlm, rfl⟩ := getItem_ok_mem hl
  refine ⟨d, l, ?_, ?_, rfl⟩
  · exact (by decide : ∀ d ∈ ([48, 49, 50, 51, 52, 53, 54, 55, 56, 57] : Str), DU d = true) d hdm
  · exact (by decide : ∀ l ∈ ([74, 65, 66, 67, 68, 69, 70, 71, 72, 73] : Str), DU l = true) l hlm

theorem es_cif_validate_ok (x v : Str) (h : Gen.es_cif.validate x = .ok v) :
    v = esCanon x ∧ v.length = 9 ∧ isDigitsB (Py.slice v (some 1) (some (-1))) = true ∧
      (∃ r, Py.getItem v 0 = .ok r ∧ Py.strIn r [65, 66, 67, 68, 69, 70, 71, 72, 74, 78, 80, 81, 82, 83, 85, 86, 87] = true) ∧
      ∃ c, DU c = true ∧ Py.getItem v (-1) = .ok [c] := by
  unfold Gen.es_cif.validate at h
  simp only [es_dni_compact_eq, bind_ok, Py.isdigits_eq, raise_error, bind_error] at h
  generalize esCanon x = n at h ⊢
  split at h
  · cases h
  · rename_i hd
    split at h
    · cases h
    · rename_i hl
      obtain ⟨r0, hr0, h⟩ := (bind_eq_ok_iff _ _ _).mp h
      split at h
      · rename_i hin
        obtain ⟨r, hr, h⟩ := (bind_eq_ok_iff _ _ _).mp h
        obtain ⟨r', hr', h⟩ := (bind_eq_ok_iff _ _ _).mp h
        split at h
        · cases h
        · rename_i hne
          cases h
          obtain ⟨c, hc, rfl⟩ := getItem_ok_mem hr
          obtain ⟨d, l, hd', hl', rfl⟩ := cif_calc_check_digits_mem _ _ hr'
          refine ⟨rfl, ?_, by simpa using hd, ⟨r0, hr0, hin⟩, c, ?_, hr⟩
          · have : ((v.length : Nat) : Int) = 9 := by simpa using hl
            omega
          · have hne' : ¬ c = d → c = l := by simpa [strIn_single] using hne
            by_cases hcd : c = d
            · rw [hcd]; exact hd'
            · rw [hne' hcd]; exact hl'
      · cases h


theorem es_nif_of_nie (x v : Str) (h : Gen.es_nie.validate x = .ok v) : Gen.es_nif.validate x = .ok v := by
  obtain ⟨hv, hlen, hd, hx0, c, hc, hg⟩ := es_nie_validate_ok x v h
  obtain ⟨c0, c1, c2, c3, c4, c5, c6, c7, c8, rfl⟩ := length_nine hlen
  have hs : Py.slice [c0, c1, c2, c3, c4, c5, c6, c7, c8] (some 1) (some (-1)) = [c1, c2, c3, c4, c5, c6, c7] := rfl
  rw [hs] at hd
  have hdig := ((isDigitsB_iff _).mp hd).2
  have hs0 : Py.slice [c0, c1, c2, c3, c4, c5, c6, c7, c8] none (some 1) = [c0] := rfl
  rw [hs0, strIn_single] at hx0
  have hx0' : c0 = 88 ∨ c0 = 89 ∨ c0 = 90 := by simpa using hx0
  have hg' : Py.getItem [c0, c1, c2, c3, c4, c5, c6, c7, c8] (-1) = .ok [c8] := rfl
  rw [hg'] at hg
  have hc8 : c8 = c := by simpa using hg
  subst hc8
  have hDU : AllIn DU [c0, c1, c2, c3, c4, c5, c6, c7, c8] := by
    intro a ha
    simp only [List.mem_cons, List.not_mem_nil, or_false] at ha
    rcases ha with rfl | rfl | rfl | rfl | rfl | rfl | rfl | rfl | rfl
    · rcases hx0' with rfl | rfl | rfl <;> rfl
    all_goals first
      | exact dniTable_DU _ hc
      | exact DU_of_digit (hdig _ (by simp))
  have hfix := esCanon_fix _ hDU
  have hval : Gen.es_nie.validate (esCanon x) = .ok (esCanon x) := by
    rw [es_nie_validate_canon x (esCanon x) (by rw [← hv, hfix]), ← hv]; exact h
  have hnd : isAsciiDigit c0 = false := by rcases hx0' with rfl | rfl | rfl <;> rfl
  rw [es_nif_validate_nine x c0 c1 c2 c3 c4 c5 c6 c7 c8 hv.symm (by omega) hdig
    (by simp only [List.mem_cons, List.not_mem_nil, or_false]; omega)]
  rw [if_neg (by rw [hnd]; exact Bool.false_ne_true), if_pos (by simpa using hx0'), hval, ← hv]
  rfl

theorem es_nif_of_cif (x v : Str) (h : Gen.es_cif.validate x = .ok v) : Gen.es_nif.validate x = .ok v := by
  obtain ⟨hv, hlen, hd, ⟨r0, hr0, hin⟩, c, hc, hg⟩ := es_cif_validate_ok x v h
  obtain ⟨c0, c1, c2, c3, c4, c5, c6, c7, c8, rfl⟩ := length_nine hlen
  have hs : Py.slice [c0, c1, c2, c3, c4, c5, c6, c7, c8] (some 1) (some (-1)) = [c1, c2, c3, c4, c5, c6, c7] := rfl
  rw [hs] at hd
  have hdig := ((isDigitsB_iff _).mp hd).2
  have hg0 : Py.getItem [c0, c1, c2, c3, c4, c5, c6, c7, c8] 0 = .ok [c0] := rfl
  rw [hg0] at hr0
  cases hr0
  rw [strIn_single] at hin
  have hin' : c0 ∈ ([65, 66, 67, 68, 69, 70, 71, 72, 74, 78, 80, 81, 82, 83, 85, 86, 87] : Str) := by
    simpa using hin
  have hc0 : DU c0 = true ∧ isAsciiDigit c0 = false ∧ c0 ∉ ([75, 76, 77] : Str) ∧ c0 ∉ ([88, 89, 90] : Str) :=
    (by decide : ∀ a ∈ ([65, 66, 67, 68, 69, 70, 71, 72, 74, 78, 80, 81, 82, 83, 85, 86, 87] : Str),
      DU a = true ∧ isAsciiDigit a = false ∧ a ∉ ([75, 76, 77] : Str) ∧ a ∉ ([88, 89, 90] : Str)) c0 hin'
  have hg' : Py.getItem [c0, c1, c2, c3, c4, c5, c6, c7, c8] (-1) = .ok [c8] := rfl
  rw [hg'] at hg
  have hc8 : c8 = c := by simpa using hg
  subst hc8
  have hDU : AllIn DU [c0, c1, c2, c3, c4, c5, c6, c7, c8] := by
    intro a ha
    simp only [List.mem_cons, List.not_mem_nil, or_false] at ha
    rcases ha with rfl | rfl | rfl | rfl | rfl | rfl | rfl | rfl | rfl
    · exact hc0.1
    all_goals first
      | exact hc
      | exact DU_of_digit (hdig _ (by simp))
  have hfix := esCanon_fix _ hDU
  have hval : Gen.es_cif.validate (esCanon x) = .ok (esCanon x) := by
    rw [es_cif_validate_canon x (esCanon x) (by rw [← hv, hfix]), ← hv]; exact h
  have h1 := hdig c1 (by simp)
  rw [es_nif_validate_nine x c0 c1 c2 c3 c4 c5 c6 c7 c8 hv.symm
    (by simp only [isAsciiDigit, Bool.and_eq_true, decide_eq_true_eq] at h1; omega) hdig hc0.2.2.1]
  rw [if_neg (by rw [hc0.2.1]; exact Bool.false_ne_true), if_neg hc0.2.2.2, hval, ← hv]
  rfl


/-- converse direction: what an accepted NIF is.  `v` is the compact form, has nine characters with digits in the
middle, and either starts with `K`, `L`, `M` and carries the DNI check letter, or is accepted by the constituent
its first character selects. -/
theorem es_nif_validate_cases (x v : Str) (h : Gen.es_nif.validate x = .ok v) :
    v = nifCompact x ∧ v.length = 9 ∧ isDigitsB (Py.slice v (some 1) (some (-1))) = true ∧
      ((Py.strIn (Py.slice v none (some 1)) [75, 76, 77] = true ∧
          Gen.es_dni.calc_check_digit (Py.slice v (some 1) (some (-1))) = .ok (Py.slice v (some (-1)) none)) ∨
        (∃ u, Gen.es_dni.validate v = .ok u) ∨ (∃ u, Gen.es_nie.validate v = .ok u) ∨
        (∃ u, Gen.es_cif.validate v = .ok u)) := by
  by_cases hlen : (nifCompact x).length = 9
  · obtain ⟨c0, c1, c2, c3, c4, c5, c6, c7, c8, hx⟩ := length_nine hlen
    rw [es_nif_validate_nine_gen x c0 c1 c2 c3 c4 c5 c6 c7 c8 hx] at h
    rw [hx] at h
    have hs1 : Py.slice [c0, c1, c2, c3, c4, c5, c6, c7, c8] (some 1) (some (-1)) = [c1, c2, c3, c4, c5, c6, c7] := rfl
    have hs0 : Py.slice [c0, c1, c2, c3, c4, c5, c6, c7, c8] none (some 1) = [c0] := rfl
    have hs8 : Py.slice [c0, c1, c2, c3, c4, c5, c6, c7, c8] (some (-1)) none = [c8] := rfl
    split at h
    · rename_i hd
      split at h
      · rename_i hk
        obtain ⟨d, hd', h⟩ := (bind_eq_ok_iff _ _ _).mp h
        split at h
        · cases h
        · rename_i hne
          cases h
          rw [hx, hs1, hs0, hs8]
          refine ⟨rfl, rfl, hd, Or.inl ⟨by rw [strIn_single]; simpa using hk, ?_⟩⟩
          have : [c8] = d := by simpa using hne
          rw [this]; exact hd'
      · split at h
        · obtain ⟨u, hu, h⟩ := (bind_eq_ok_iff _ _ _).mp h
          cases h
          rw [hx, hs1]
          exact ⟨rfl, rfl, hd, Or.inr (Or.inl ⟨u, hu⟩)⟩
        · split at h
          · obtain ⟨u, hu, h⟩ := (bind_eq_ok_iff _ _ _).mp h
            cases h
            rw [hx, hs1]
            exact ⟨rfl, rfl, hd, Or.inr (Or.inr (Or.inl ⟨u, hu⟩))⟩
          · obtain ⟨u, hu, h⟩ := (bind_eq_ok_iff _ _ _).mp h
            cases h
            rw [hx, hs1]
            exact ⟨rfl, rfl, hd, Or.inr (Or.inr (Or.inr ⟨u, hu⟩))⟩
    · cases h
  · obtain ⟨e, he⟩ := es_nif_validate_not_nine x hlen
    rw [he] at h; cases h

example : Gen.es_dni.validate (str% "54362315-K") = .ok (str% "54362315K") ∧
    Gen.es_nif.validate (str% "54362315-K") = .ok (str% "54362315K") := by decide +kernel
example : Gen.es_nie.validate (str% "x-2482300w") = .ok (str% "X2482300W") ∧
    Gen.es_nif.validate (str% "x-2482300w") = .ok (str% "X2482300W") := by decide +kernel
example : Gen.es_cif.validate (str% "J99216582") = .ok (str% "J99216582") ∧
    Gen.es_nif.validate (str% "J99216582") = .ok (str% "J99216582") := by decide +kernel
/-- the `KLM` branch of the converse is inhabited (accepted by `nif`, by none of the constituents), and so is the
`ES`-prefix stripping -/
example : Gen.es_nif.validate (str% "M-1234567-L") = .ok (str% "M1234567L") ∧
    Py.isOk (Gen.es_dni.validate (str% "M1234567L")) = false ∧ Py.isOk (Gen.es_nie.validate (str% "M1234567L")) = false ∧
    Py.isOk (Gen.es_cif.validate (str% "M1234567L")) = false := by decide +kernel
example : Gen.es_nif.validate (str% "ES 54362315K") = .ok (str% "54362315K") := by decide +kernel

/-! ## 5. `stdnum.iban`

```python
def validate(number, check_country=True):
    number = compact(number)
    mod_97_10.validate(number[4:] + number[:4])
    info = _ibandb.info(number)
    if not info[0][1]: raise InvalidComponent()
    bban = number[4:]
    if not _struct_to_re(info[0][1].get('bban', '')).match(bban): raise InvalidFormat()
    if check_country:
        module = _get_cc_module(number[:2])
        if module:
            module.validate(number)
    return number
```
The national module is called on the COMPACT number and its result is discarded.  No example evaluates
`Gen.iban.validate` on a concrete number: that unfolds the registry `Gen.db_iban.db`, whose kernel evaluation decodes a
long string literal and takes minutes; non-vacuity is shown on the parts that do not need the registry. -/

/-- `_get_cc_module` of `iban` as a pure function (module = module name) -/
def ibanModule (cc : Str) : Option String := Gen.ccmods.get_cc_module_iban (Py.lower cc)

theorem iban_get_cc_module_eq (cc : Str) : Gen.iban._get_cc_module cc = .ok (ibanModule cc) := by
  unfold Gen.iban._get_cc_module ibanModule
  have hd : ∀ k : Str, Py.dictHas ([] : List (Str × Option String)) k = false := fun _ => rfl
  simp only [hd, dictGet_dictSet_nil]
  rfl

theorem table_iban_eq : Gen.ccmods.table_iban =
    [([98, 101], "stdnum.be.iban"), ([101, 115], "stdnum.es.iban"), ([109, 101], "stdnum.me.iban"),
     ([110, 111], "stdnum.no.iban")] := by decide

/-- the tail of `iban.validate`: the national check -/
def ibanTail (b : Bool) (v : Str) : R Str :=
  if b then
    match ibanModule (prefix2 v) with
    | none => .ok v
    | some m => Gen.iban.dispatch_validate_0 m v >>= fun _ => .ok v
  else .ok v

def ibanCompact (x : Str) : Str := Py.upper (Py.strip (Py.cleanP x [32, 45, 46]))

theorem iban_compact_eq (x : Str) : Gen.iban.compact x = .ok (ibanCompact x) := by
  unfold Gen.iban.compact ibanCompact
  simp only [Py.clean_eq, bind_ok, pure_ok]

/-! non-`rfl` copies of the monad-plumbing lemmas: `simp` justifies `rfl`-lemmas by one definitional-equality check
of the whole goal, which sends the kernel deep into the (large) body of `iban.validate`; with these copies every
rewrite is an explicit congruence step -/
theorem bind_ok' {α β : Type} (a : α) (f : α → R β) : ((Except.ok a : R α) >>= f) = f a := by
  simp only [bind, Except.bind]
theorem bind_error' {α β : Type} (e : Exc) (f : α → R β) : ((Except.error e : R α) >>= f) = .error e := by
  simp only [bind, Except.bind]
theorem pure_ok' {α : Type} (a : α) : (pure a : R α) = .ok a := by
  simp only [pure, Except.pure]
theorem raise_error' {α : Type} (e : Exc) : (raise e : R α) = .error e := by
  simp only [raise]

theorem iban_validate_eq (x : Str) (b : Bool) :
    Gen.iban.validate x b = Gen.iban.validate__check_country_False x >>= ibanTail b := by
  unfold Gen.iban.validate Gen.iban.validate__check_country_False
  generalize Gen.db_iban.db = db
  simp only [iban_compact_eq]
  simp only [bind_ok']
  generalize ibanCompact x = n
  generalize Spec.NumDB.info db n = info
  generalize Gen.iso7064_mod_97_10.validate _ = r1
  cases r1 with
  | error e => simp only [bind_error']
  | ok _ =>
    simp only [bind_ok']
    cases getItemL info 0 with
    | error e => simp only [bind_error']
    | ok p =>
      simp only [bind_ok', raise_error', bind_error']
      split
      · simp only [bind_error']
      · cases Gen.iban._struct_to_re (dictGetD p.snd [98, 98, 97, 110] []) with
        | error e => simp only [bind_error']
        | ok re =>
          simp only [bind_ok']
          split
          · simp only [bind_error']
          · simp only [pure_ok', bind_ok', ibanTail, iban_get_cc_module_eq, prefix2]
            cases b with
            | false => simp only [Bool.false_eq_true, if_false]
            | true =>
              simp only [if_true]
              cases ibanModule (slice n none (some 2)) with
              | none => simp only [Option.isSome_none, Bool.false_eq_true, if_false]
              | some m =>
                simp only [Option.isSome_some, if_true]

theorem bind_ok_right {α : Type} (r : R α) : (r >>= fun v => .ok v) = r := by
  cases r <;> rfl

/-- the specialised copy `validate__check_country_False` is the generic function with the flag off -/
theorem iban_validate_false_eq (x : Str) :
    Gen.iban.validate x false = Gen.iban.validate__check_country_False x := by
  rw [iban_validate_eq]
  exact bind_ok_right _

theorem iban_validate_true_eq (x : Str) :
    Gen.iban.validate x true = Gen.iban.validate__check_country_False x >>= fun v =>
      match ibanModule (prefix2 v) with
      | none => .ok v
      | some m => Gen.iban.dispatch_validate_0 m v >>= fun _ => .ok v := by
  rw [iban_validate_eq]
  rfl

theorem iban_validate_true_iff (x v : Str) :
    Gen.iban.validate x true = .ok v ↔
      Gen.iban.validate__check_country_False x = .ok v ∧
        (ibanModule (prefix2 v) = none ∨
          ∃ m u, ibanModule (prefix2 v) = some m ∧ Gen.iban.dispatch_validate_0 m v = .ok u) := by
  rw [iban_validate_true_eq, bind_eq_ok_iff]
  constructor
  · rintro ⟨w, hw, h⟩
    cases hm : ibanModule (prefix2 w) with
    | none =>
      simp only [hm] at h
      cases h
      exact ⟨hw, Or.inl hm⟩
    | some m =>
      simp only [hm] at h
      obtain ⟨u, hu, h⟩ := (bind_eq_ok_iff _ _ _).mp h
      cases h
      exact ⟨hw, Or.inr ⟨m, u, hm, hu⟩⟩
  · rintro ⟨hw, h⟩
    refine ⟨v, hw, ?_⟩
    rcases h with hm | ⟨m, u, hm, hu⟩
    · simp only [hm]
    · simp only [hm, hu, bind_ok]

/-- the generic part returns the compact form -/
theorem iban_generic_ok (x v : Str) (h : Gen.iban.validate__check_country_False x = .ok v) : v = ibanCompact x := by
  unfold Gen.iban.validate__check_country_False at h
  generalize Gen.db_iban.db = db at h
  simp only [iban_compact_eq] at h
  simp only [bind_ok'] at h
  generalize Spec.NumDB.info db (ibanCompact x) = info at h
  generalize Gen.iso7064_mod_97_10.validate _ = r1 at h
  cases r1 with
  | error e => simp only [bind_error'] at h; cases h
  | ok _ =>
    simp only [bind_ok'] at h
    cases hg : getItemL info 0 with
    | error e => rw [hg] at h; simp only [bind_error'] at h; cases h
    | ok p =>
      rw [hg] at h
      simp only [bind_ok', raise_error', bind_error'] at h
      split at h
      · cases h
      · cases hs : Gen.iban._struct_to_re (dictGetD p.snd [98, 98, 97, 110] []) with
        | error e => rw [hs] at h; simp only [bind_error'] at h; cases h
        | ok re =>
          rw [hs] at h
          simp only [bind_ok'] at h
          split at h
          · cases h
          · simp only [pure_ok'] at h
            cases h
            rfl

theorem iban_validate_member (CC : Str) (m : String) (f : Str → R Str)
    (hr : ibanModule CC = some m) (hf : ∀ a, Gen.iban.dispatch_validate_0 m a = f a)
    (x v : Str) (h : prefix2 (ibanCompact x) = CC) :
    Gen.iban.validate x true = .ok v ↔
      Gen.iban.validate__check_country_False x = .ok v ∧ ∃ u, f v = .ok u := by
  rw [iban_validate_true_iff]
  constructor
  · rintro ⟨hw, hm⟩
    rw [iban_generic_ok x v hw, h, hr] at hm
    rcases hm with hm | ⟨m', u, hm, hu⟩
    · cases hm
    · cases hm
      exact ⟨hw, u, by rw [← hf]; rw [iban_generic_ok x v hw]; exact hu⟩
  · rintro ⟨hw, u, hu⟩
    refine ⟨hw, Or.inr ⟨m, u, ?_, by rw [hf]; exact hu⟩⟩
    rw [iban_generic_ok x v hw, h, hr]

theorem iban_validate_nomodule (CC : Str) (hr : ibanModule CC = none) (x : Str)
    (h : prefix2 (ibanCompact x) = CC) :
    Gen.iban.validate x true = Gen.iban.validate__check_country_False x := by
  rw [iban_validate_true_eq]
  cases hg : Gen.iban.validate__check_country_False x with
  | error e => rfl
  | ok v =>
    rw [bind_ok, iban_generic_ok x v hg, h, hr]

open Lean in
local macro "iban_member " tag:ident CC:term:max m:str ns:ident : command => do
  let thm := mkIdent (Name.mkSimple ("iban_" ++ tag.getId.toString))
  let fV := mkIdent (ns.getId ++ `validate)
  `(theorem $thm (x v : Str) (h : prefix2 (ibanCompact x) = $CC) :
        Gen.iban.validate x true = .ok v ↔
          Gen.iban.validate__check_country_False x = .ok v ∧ ∃ u, $fV v = .ok u :=
      iban_validate_member $CC $m $fV rfl (fun _ => by kernel_rfl) x v h)

iban_member BE [66, 69] "stdnum.be.iban" Gen.be_iban
iban_member ES [69, 83] "stdnum.es.iban" Gen.es_iban
iban_member ME [77, 69] "stdnum.me.iban" Gen.me_iban
iban_member NO [78, 79] "stdnum.no.iban" Gen.no_iban

/-- a country without national module: only the generic rules apply -/
theorem iban_DE (x : Str) (h : prefix2 (ibanCompact x) = [68, 69]) :
    Gen.iban.validate x true = Gen.iban.validate__check_country_False x :=
  iban_validate_nomodule [68, 69] rfl x h

example : prefix2 (ibanCompact (str% "be68 5390-0754 7034")) = [66, 69] := by decide +kernel
example : prefix2 (ibanCompact (str% "DE89 3704 0044 0532 0130 00")) = [68, 69] := by decide +kernel
example : ibanModule (str% "NO") = some "stdnum.no.iban" ∧ ibanModule (str% "GB") = none := by decide +kernel

/-! ## 6. `stdnum.vatin` and `stdnum.eu.vat`: the module tables

`vatin.validate` / `vatin.compact` are not translated; what exists is `vatin._get_cc_module`
(`cc.lower().replace('el', 'gr').replace('xi', 'gb')`, must match `^[a-z]{2}$`, `get_cc_module(cc, 'vat')`,
`InvalidComponent` if there is no module). -/

/-- on the prefixes of the `eu.vat` member table (upper case, as they occur in a compact number, and lower case)
`vatin` resolves to the same module as `eu.vat`, with two exceptions: `EU` → the wrapper `stdnum.eu.vat` itself (which
then dispatches to `eu.oss`), and `IM` → `InvalidComponent` (there is no `stdnum.im` package), so the OSS numbers
`IM…` that `eu.vat` accepts are rejected by `vatin`: `vatin ⊇ eu.vat` does NOT hold at `IM` -/
theorem vatin_get_cc_module_table :
    ∀ p ∈ memberTable,
      Gen.vatin._get_cc_module (Py.upper p.1) = Gen.vatin._get_cc_module p.1 ∧
      Gen.vatin._get_cc_module p.1 =
        if p.1 = [101, 117] then .ok (some "stdnum.eu.vat")
        else if p.1 = [105, 109] then .error .invalidComponent
        else .ok (some p.2) := by decide +kernel

example : Gen.vatin._get_cc_module (str% "IM") = .error .invalidComponent ∧
    Gen.eu_vat._get_cc_module (str% "IM") = .ok (some "stdnum.eu.oss") := by decide +kernel

end Props.C09

open Props.C09
#print axioms get_cc_module_eq
#print axioms memberTable_eq
#print axioms memberTable_length
#print axioms MEMBER_STATES_length
#print axioms resolve_iff
#print axioms eu_vat_validate_eq
#print axioms eu_vat_validate_iff
#print axioms eu_vat_result_prefix
#print axioms eu_vat_validate_member
#print axioms eu_vat_FRFR_witness
#print axioms eu_vat_FR_prefix_not_reattached
#print axioms eu_vat_validate_not_idempotent
#print axioms eu_vat_prefixed_national_partial
#print axioms filterMapM_guard
#print axioms guess_country_ok_iff
#print axioms guess_country_mem
#print axioms guess_country_nodup
#print axioms guess_country_perm
#print axioms eu_vat_guess_member
#print axioms eu_vat_AT
#print axioms eu_vat_BE
#print axioms eu_vat_BG
#print axioms eu_vat_CY
#print axioms eu_vat_CZ
#print axioms eu_vat_DE
#print axioms eu_vat_DK
#print axioms eu_vat_EE
#print axioms eu_vat_ES
#print axioms eu_vat_FI
#print axioms eu_vat_FR
#print axioms eu_vat_GR
#print axioms eu_vat_HR
#print axioms eu_vat_HU
#print axioms eu_vat_IE
#print axioms eu_vat_IT
#print axioms eu_vat_LT
#print axioms eu_vat_LU
#print axioms eu_vat_LV
#print axioms eu_vat_MT
#print axioms eu_vat_NL
#print axioms eu_vat_PL
#print axioms eu_vat_PT
#print axioms eu_vat_RO
#print axioms eu_vat_SE
#print axioms eu_vat_SI
#print axioms eu_vat_SK
#print axioms eu_vat_XI
#print axioms eu_vat_EL
#print axioms eu_vat_EU
#print axioms eu_vat_IM
#print axioms eu_vat_guess_AT
#print axioms eu_vat_guess_BE
#print axioms eu_vat_guess_BG
#print axioms eu_vat_guess_CY
#print axioms eu_vat_guess_CZ
#print axioms eu_vat_guess_DE
#print axioms eu_vat_guess_DK
#print axioms eu_vat_guess_EE
#print axioms eu_vat_guess_ES
#print axioms eu_vat_guess_FI
#print axioms eu_vat_guess_FR
#print axioms eu_vat_guess_GR
#print axioms eu_vat_guess_HR
#print axioms eu_vat_guess_HU
#print axioms eu_vat_guess_IE
#print axioms eu_vat_guess_IT
#print axioms eu_vat_guess_LT
#print axioms eu_vat_guess_LU
#print axioms eu_vat_guess_LV
#print axioms eu_vat_guess_MT
#print axioms eu_vat_guess_NL
#print axioms eu_vat_guess_PL
#print axioms eu_vat_guess_PT
#print axioms eu_vat_guess_RO
#print axioms eu_vat_guess_SE
#print axioms eu_vat_guess_SI
#print axioms eu_vat_guess_SK
#print axioms eu_vat_guess_XI
#print axioms firstMatch_loop
#print axioms firstMatch_ok_iff
#print axioms firstMatch_eq_find
#print axioms firstMatch_isOk_iff
#print axioms onlyValidation_of_holds
#print axioms th_tin_validate_eq
#print axioms us_tin_validate_eq
#print axioms th_tin_validate_iff
#print axioms th_tin_validate_iff'
#print axioms us_tin_validate_iff
#print axioms th_tin_union
#print axioms us_tin_union
#print axioms th_tin_first
#print axioms us_tin_first
#print axioms th_tin_tin_type_eq
#print axioms us_tin_guess_type_iff
#print axioms us_tin_guess_type_mem
#print axioms be_ssn_validate_eq
#print axioms be_nn_validate_eq
#print axioms be_bis_validate_eq
#print axioms be_nn_bis_disjoint
#print axioms be_ssn_validate_iff
#print axioms be_ssn_guess_type_eq
#print axioms es_nif_validate_nine_gen
#print axioms es_nif_validate_not_nine
#print axioms es_nif_of_dni
#print axioms es_nif_of_nie
#print axioms es_nif_of_cif
#print axioms es_nif_validate_cases
#print axioms th_tin_union'
#print axioms th_tin_first'
#print axioms us_tin_union'
#print axioms iban_get_cc_module_eq
#print axioms table_iban_eq
#print axioms iban_validate_eq
#print axioms iban_validate_false_eq
#print axioms iban_validate_true_eq
#print axioms iban_validate_true_iff
#print axioms iban_generic_ok
#print axioms iban_validate_member
#print axioms iban_validate_nomodule
#print axioms iban_BE
#print axioms iban_ES
#print axioms iban_ME
#print axioms iban_NO
#print axioms iban_DE
#print axioms vatin_get_cc_module_table
